(** C06 (X13) — proofs about Model/Glob.v, the concrete model of globset 0.4.14.

      [Matches]            the declarative meaning of a token list: the language of the regex that
                           `Tokens::to_regex_with` writes (concatenation of the per-token languages, anchored
                           at both ends; the lone recursive prefix is everything);
      [glob_match_iff]     the backtracking matcher decides exactly [Matches], for all token lists and texts
                           (the matcher has no fuel: it recurses on the token list and, inside, on the text);
      [parse_fuel_suffices] the fuel [glob_parse_result] passes to the parser is enough for every text;
      corollaries about whole patterns (text -> tokens -> matching): plain text matches exactly itself,
      `*`, `p*`, `*s`, `*.ext`, `dir/**`, `**/name`, `?`, anchoring;
      [glob_precedence]    Walker::pattern_filter over the concrete matcher, stated with [Matches]. *)
From Coq Require Import NArith List Bool Lia ZifyN ZifyBool Arith.
From Imdl Require Import Model.Walk Model.Glob Proofs.WalkProofs.
Import ListNotations.
Local Open Scope N_scope.

(* ================================================================== *)
(** * The declarative semantics *)

(** the language of one token that is not a group: the strings its regex fragment matches *)
Inductive AtomM : atom -> bytes -> Prop :=
| am_lit c : AtomM (ALit c) c                                       (* the bytes of the character *)
| am_any b : AtomM AAny [b]                                         (* `.`  : one byte *)
| am_star w : AtomM AStar w                                         (* `.*` : anything *)
| am_class negated ranges b :
    class_has negated ranges b = true -> AtomM (AClass negated ranges) [b]   (* one byte of the set *)
| am_pre_empty : AtomM ARecPre []                                   (* `(?:/?|.*/)` *)
| am_pre_slash : AtomM ARecPre [47]
| am_pre_dir w : AtomM ARecPre (w ++ [47])
| am_suf w : AtomM ARecSuf (47 :: w)                                (* `/.*` *)
| am_mid_slash : AtomM ARecMid [47]                                 (* `(?:/|/.*/)` *)
| am_mid_dir w : AtomM ARecMid (47 :: w ++ [47]).

Inductive AtomsM : list atom -> bytes -> Prop :=
| asm_nil : AtomsM [] []
| asm_cons a r u v : AtomM a u -> AtomsM r v -> AtomsM (a :: r) (u ++ v).

(** a group is some branch that is not empty; a group without such a branch is the empty string *)
Inductive TokM : token -> bytes -> Prop :=
| tm_atom a u : AtomM a u -> TokM (TAtom a) u
| tm_alt_none brs : forallb is_nil brs = true -> TokM (TAlt brs) []
| tm_alt brs br u : In br brs -> br <> [] -> AtomsM br u -> TokM (TAlt brs) u.

Inductive SeqM : list token -> bytes -> Prop :=
| sm_nil : SeqM [] []
| sm_cons t r u v : TokM t u -> SeqM r v -> SeqM (t :: r) (u ++ v).

(** the whole text is consumed: `^ .. $`; the one special case of `to_regex_with` *)
Definition Matches (ts : list token) (s : bytes) : Prop :=
  ts = [TAtom ARecPre] \/ SeqM ts s.

(* ================================================================== *)
(** * The matcher decides [Matches] *)

Lemma is_nil_true {A} (l : list A) : is_nil l = true <-> l = [].
Proof. destruct l; cbn; split; intros H; try reflexivity; discriminate. Qed.

Lemma is_nil_false {A} (l : list A) : is_nil l = false <-> l <> [].
Proof. destruct l; cbn; split; intros H; try discriminate; try reflexivity; congruence. Qed.

Lemma strip_prefix_spec p : forall s s', strip_prefix p s = Some s' <-> s = p ++ s'.
Proof.
  induction p as [|x p IH]; intros s s'; cbn [strip_prefix app].
  - split; intros H; [injection H as <-; reflexivity|subst; reflexivity].
  - destruct s as [|y s]; [split; intros H; discriminate|].
    destruct (x =? y) eqn:E.
    + apply N.eqb_eq in E. subst y. rewrite IH. split; intros H; [subst; reflexivity|injection H as ->; reflexivity].
    + apply N.eqb_neq in E. split; intros H; [discriminate|]. injection H as -> _. congruence.
Qed.

Lemma any_suffix_spec k : forall s, any_suffix k s = true <-> exists u v, s = u ++ v /\ k v = true.
Proof.
  induction s as [|c s IH]; cbn [any_suffix].
  - rewrite orb_false_r. split.
    + intros H. exists [], []. split; [reflexivity|exact H].
    + intros (u & v & E & H). symmetry in E. apply app_eq_nil in E. destruct E as [_ ->]. exact H.
  - rewrite orb_true_iff, IH. split.
    + intros [H|(u & v & -> & H)]; [exists [], (c :: s); split; [reflexivity|exact H]|].
      exists (c :: u), v. split; [reflexivity|exact H].
    + intros (u & v & E & H). destruct u as [|c' u]; cbn [app] in E; [left; subst v; exact H|].
      injection E as <- ->. right. exists u, v. split; [reflexivity|exact H].
Qed.

Lemma after_slash_spec k : forall s, after_slash k s = true <-> exists u v, s = u ++ 47 :: v /\ k v = true.
Proof.
  induction s as [|c s IH]; cbn [after_slash].
  - split; [discriminate|]. intros (u & v & E & _). destruct u; discriminate.
  - rewrite orb_true_iff, andb_true_iff, N.eqb_eq, IH. split.
    + intros [[-> H]|(u & v & -> & H)]; [exists [], s; split; [reflexivity|exact H]|].
      exists (c :: u), v. split; [reflexivity|exact H].
    + intros (u & v & E & H). destruct u as [|c' u]; cbn [app] in E.
      * injection E as -> ->. left. split; [reflexivity|exact H].
      * injection E as <- ->. right. exists u, v. split; [reflexivity|exact H].
Qed.

(** one token, any continuation: [atom_match] succeeds iff the text splits into a word of the token's
    language and a rest the continuation accepts *)
Lemma atom_match_spec a k s :
  atom_match a k s = true <-> exists u v, s = u ++ v /\ AtomM a u /\ k v = true.
Proof.
  destruct a as [c| | | | | |negated ranges]; cbn [atom_match].
  - (* literal *)
    destruct (strip_prefix c s) as [s'|] eqn:E.
    + apply strip_prefix_spec in E. subst s. split.
      * intros H. exists c, s'. repeat split; [constructor|exact H].
      * intros (u & v & E & Hu & H). inversion Hu; subst. apply app_inv_head in E. subst v. exact H.
    + split; [discriminate|]. intros (u & v & E' & Hu & H). inversion Hu; subst.
      assert (X : strip_prefix u (u ++ v) = Some v) by (apply strip_prefix_spec; reflexivity). congruence.
  - (* ? *)
    destruct s as [|b s]; [split; [discriminate|]; intros (u & v & E & Hu & _); inversion Hu; subst; discriminate|].
    split.
    + intros H. exists [b], s. repeat split; [constructor|exact H].
    + intros (u & v & E & Hu & H). inversion Hu; subst. injection E as -> ->. exact H.
  - (* * *)
    rewrite any_suffix_spec. split.
    + intros (u & v & -> & H). exists u, v. repeat split; [constructor|exact H].
    + intros (u & v & -> & _ & H). exists u, v. split; [reflexivity|exact H].
  - (* recursive prefix *)
    rewrite orb_true_iff, after_slash_spec. split.
    + intros [H|(u & v & -> & H)].
      * exists [], s. repeat split; [constructor|exact H].
      * exists (u ++ [47]), v. rewrite <- app_assoc. repeat split; [constructor|exact H].
    + intros (u & v & -> & Hu & H). inversion Hu; subst.
      * left. exact H.
      * right. exists [], v. split; [reflexivity|exact H].
      * right. exists w, v. rewrite <- app_assoc. split; [reflexivity|exact H].
  - (* recursive suffix *)
    destruct s as [|c s]; [split; [discriminate|]; intros (u & v & E & Hu & _); inversion Hu; subst; discriminate|].
    rewrite andb_true_iff, N.eqb_eq, any_suffix_spec. split.
    + intros [-> (u & v & -> & H)]. exists (47 :: u), v. repeat split; [constructor|exact H].
    + intros (u & v & E & Hu & H). inversion Hu; subst. cbn [app] in E. injection E as -> ->.
      split; [reflexivity|]. exists w, v. split; [reflexivity|exact H].
  - (* recursive zero or more *)
    destruct s as [|c s]; [split; [discriminate|]; intros (u & v & E & Hu & _); inversion Hu; subst; discriminate|].
    rewrite andb_true_iff, N.eqb_eq, orb_true_iff, after_slash_spec. split.
    + intros [-> [H|(u & v & -> & H)]].
      * exists [47], s. repeat split; [constructor|exact H].
      * exists (47 :: u ++ [47]), v. cbn [app]. rewrite <- app_assoc. repeat split; [constructor|exact H].
    + intros (u & v & E & Hu & H). inversion Hu; subst; cbn [app] in E.
      * injection E as -> ->. split; [reflexivity|]. left. exact H.
      * injection E as -> ->. split; [reflexivity|]. right. exists w, v. rewrite <- app_assoc. split; [reflexivity|exact H].
  - (* class *)
    destruct s as [|b s]; [split; [discriminate|]; intros (u & v & E & Hu & _); inversion Hu; subst; discriminate|].
    rewrite andb_true_iff. split.
    + intros [Hc H]. exists [b], s. repeat split; [constructor; exact Hc|exact H].
    + intros (u & v & E & Hu & H). inversion Hu; subst. injection E as -> ->. split; assumption.
Qed.

Lemma atoms_match_spec l : forall k s,
  atoms_match l k s = true <-> exists u v, s = u ++ v /\ AtomsM l u /\ k v = true.
Proof.
  induction l as [|a l IH]; intros k s; cbn [atoms_match].
  - split.
    + intros H. exists [], s. repeat split; [constructor|exact H].
    + intros (u & v & -> & Hu & H). inversion Hu; subst. exact H.
  - rewrite atom_match_spec. split.
    + intros (u & v & -> & Hu & H). apply IH in H. destruct H as (u' & v' & -> & Hu' & H).
      exists (u ++ u'), v'. rewrite app_assoc. repeat split; [constructor; assumption|exact H].
    + intros (u & v & -> & Hu & H). inversion Hu as [|a' r' u1 u2 H1 H2]; subst.
      exists u1, (u2 ++ v). rewrite app_assoc. repeat split; [exact H1|].
      apply IH. exists u2, v. repeat split; assumption.
Qed.

Lemma token_match_spec t k s :
  token_match t k s = true <-> exists u v, s = u ++ v /\ TokM t u /\ k v = true.
Proof.
  destruct t as [a|brs]; cbn [token_match].
  - rewrite atom_match_spec. split; intros (u & v & E & Hu & H); exists u, v; repeat split; try assumption.
    + constructor. exact Hu.
    + inversion Hu; subst. assumption.
  - destruct (forallb is_nil brs) eqn:Hall.
    + split.
      * intros H. exists [], s. repeat split; [apply tm_alt_none; exact Hall|exact H].
      * intros (u & v & -> & Hu & H). inversion Hu as [| |brs' br u' Hin Hne Hbr]; subst; [exact H|].
        rewrite forallb_forall in Hall. apply Hall in Hin. apply is_nil_true in Hin. contradiction.
    + rewrite existsb_exists. split.
      * intros (br & Hin & H). apply andb_true_iff in H. destruct H as [Hne H].
        apply negb_true_iff, is_nil_false in Hne. apply atoms_match_spec in H.
        destruct H as (u & v & -> & Hu & H). exists u, v. repeat split; [eapply tm_alt; eassumption|exact H].
      * intros (u & v & -> & Hu & H). inversion Hu as [|brs' Hall'|brs' br u' Hin Hne Hbr]; subst; [congruence|].
        exists br. split; [exact Hin|]. apply andb_true_iff. split; [apply negb_true_iff, is_nil_false; exact Hne|].
        apply atoms_match_spec. exists u, v. repeat split; assumption.
Qed.

Lemma tokens_match_spec ts : forall k s,
  tokens_match ts k s = true <-> exists u v, s = u ++ v /\ SeqM ts u /\ k v = true.
Proof.
  induction ts as [|t ts IH]; intros k s; cbn [tokens_match].
  - split.
    + intros H. exists [], s. repeat split; [constructor|exact H].
    + intros (u & v & -> & Hu & H). inversion Hu; subst. exact H.
  - rewrite token_match_spec. split.
    + intros (u & v & -> & Hu & H). apply IH in H. destruct H as (u' & v' & -> & Hu' & H).
      exists (u ++ u'), v'. rewrite app_assoc. repeat split; [constructor; assumption|exact H].
    + intros (u & v & -> & Hu & H). inversion Hu as [|t' r' u1 u2 H1 H2]; subst.
      exists u1, (u2 ++ v). rewrite app_assoc. repeat split; [exact H1|].
      apply IH. exists u2, v. repeat split; assumption.
Qed.

Lemma is_everything_spec ts : is_everything ts = true <-> ts = [TAtom ARecPre].
Proof.
  split; [|intros ->; reflexivity].
  destruct ts as [|[[]|] [|]]; cbn; intros H; try discriminate; reflexivity.
Qed.

(** soundness and completeness of the backtracking matcher, for every token list and every text *)
Theorem glob_match_iff ts s : glob_match ts s = true <-> Matches ts s.
Proof.
  unfold glob_match, Matches. rewrite orb_true_iff, is_everything_spec, tokens_match_spec. split.
  - intros [H|(u & v & -> & Hu & H)]; [left; exact H|]. apply is_nil_true in H. subst v. rewrite app_nil_r. right. exact Hu.
  - intros [H|H]; [left; exact H|]. right. exists s, []. rewrite app_nil_r. repeat split. exact H.
Qed.

Corollary glob_match_false_iff ts s : glob_match ts s = false <-> ~ Matches ts s.
Proof.
  rewrite <- glob_match_iff. destruct (glob_match ts s); split; intros H; try reflexivity; try discriminate; congruence.
Qed.

Corollary Matches_dec ts s : {Matches ts s} + {~ Matches ts s}.
Proof.
  destruct (glob_match ts s) eqn:E; [left; apply glob_match_iff; exact E|right; apply glob_match_false_iff; exact E].
Qed.

(* ================================================================== *)
(** * The parser: characters, fuel *)

Lemma chars_of_cons_hd b r : exists c' cs, chars_of (b :: r) = (b :: c') :: cs.
Proof.
  cbn [chars_of]. destruct (chars_of r) as [|c cs]; [exists [], []; reflexivity|].
  destruct ((128 <=? b) && starts_cont c); [exists c, cs|exists [], (c :: cs)]; reflexivity.
Qed.

Lemma chars_of_nil s : chars_of s = [] -> s = [].
Proof. destruct s as [|b r]; [reflexivity|]. destruct (chars_of_cons_hd b r) as (c' & cs & E). rewrite E. discriminate. Qed.

(** nothing is lost: the characters put together again are the text *)
Lemma concat_chars_of s : concat (chars_of s) = s.
Proof.
  induction s as [|b r IH]; [reflexivity|]. cbn [chars_of].
  destruct (chars_of r) as [|c cs] eqn:E.
  - apply chars_of_nil in E. subst r. reflexivity.
  - destruct ((128 <=? b) && starts_cont c); cbn [concat app] in *; rewrite IH; reflexivity.
Qed.

(** an ASCII byte is a character by itself, wherever it stands *)
Lemma chars_of_ascii_cons b r : b < 128 -> chars_of (b :: r) = [b] :: chars_of r.
Proof.
  intros Hb. cbn [chars_of]. destruct (chars_of r) as [|c cs]; [reflexivity|].
  replace (128 <=? b) with false by lia. reflexivity.
Qed.

Lemma chars_of_cons x s :
  chars_of (x :: s) = match chars_of s with
                      | c :: cs => if (128 <=? x) && starts_cont c then (x :: c) :: cs else [x] :: c :: cs
                      | [] => [[x]]
                      end.
Proof. reflexivity. Qed.

Lemma chars_of_app_ascii a b r : b < 128 -> chars_of (a ++ b :: r) = chars_of a ++ chars_of (b :: r).
Proof.
  intros Hb. induction a as [|x a IH]; [reflexivity|].
  cbn [app]. rewrite (chars_of_cons x (a ++ b :: r)), (chars_of_cons x a), IH.
  destruct (chars_of a) as [|c cs] eqn:E.
  - cbn [app]. destruct (chars_of_cons_hd b r) as (c' & cs' & E'). rewrite E'.
    cbn [starts_cont]. unfold is_cont. replace (128 <=? b) with false by lia. rewrite andb_false_r. reflexivity.
  - cbn [app]. destruct ((128 <=? x) && starts_cont c); reflexivity.
Qed.

Lemma chars_of_app_nil_r a : chars_of (a ++ []) = chars_of a ++ [].
Proof. rewrite !app_nil_r. reflexivity. Qed.

(** a character that is the ASCII byte [n] is a byte of the text *)
Lemma is_ch_eq n c : is_ch n c = true <-> c = [n].
Proof.
  destruct c as [|b [|b' c]]; cbn [is_ch]; split; intros H; try discriminate.
  - apply N.eqb_eq in H. subst. reflexivity.
  - injection H as ->. apply N.eqb_refl.
Qed.

Lemma is_ch_in_text n s c : In c (chars_of s) -> is_ch n c = true -> In n s.
Proof.
  intros Hin H. apply is_ch_eq in H. subst c. rewrite <- (concat_chars_of s). apply in_concat.
  exists [n]. split; [exact Hin|left; reflexivity].
Qed.

(* ---------- fuel ---------- *)
Lemma class_loop_length cs : forall first in_range rr ranges rest,
  class_loop first in_range rr cs = LOk ranges rest -> (length rest < length cs)%nat.
Proof.
  induction cs as [|c r IH]; intros first in_range rr ranges rest H; cbn [class_loop] in H; [discriminate|].
  cbn [length].
  repeat match type of H with
         | context [if ?b then _ else _] => destruct b
         | context [match ?x with _ => _ end] => destruct x
         end;
    try discriminate; try (apply IH in H; lia).
  all: injection H as _ <-; lia.
Qed.

Lemma parse_class_length cs negated ranges rest :
  parse_class cs = COk negated ranges rest -> (length rest <= length cs)%nat.
Proof.
  unfold parse_class. intros H.
  destruct (class_loop true false [] _) as [rs rst|e] eqn:E; [|discriminate].
  injection H as _ _ <-. apply class_loop_length in E.
  destruct (match cs with [] => false | c :: _ => is_ch 33 c || is_ch 94 c end); [|lia].
  destruct cs; cbn [tl length] in *; lia.
Qed.

Ltac parse_case :=
  match goal with
  | |- context [if ?b then _ else _] => destruct b
  | |- context [match ?x with _ => _ end] => first [is_var x; destruct x|destruct x eqn:?]
  end.

(** the result does not depend on the fuel once there is more of it than characters *)
Lemma parse_fuel_eq f1 : forall f2 st prev cs,
  (length cs < f1)%nat -> (length cs < f2)%nat -> parse_loop f1 st prev cs = parse_loop f2 st prev cs.
Proof.
  induction f1 as [|f1 IH]; intros f2 st prev cs H1 H2; [lia|].
  destruct f2 as [|f2]; [lia|]. cbn [parse_loop].
  repeat parse_case; try reflexivity;
    try (apply IH; cbn [length] in *; lia).
  all: match goal with E : parse_class _ = COk _ _ _ |- _ => apply parse_class_length in E end.
  all: apply IH; cbn [length] in *; lia.
Qed.

(** ... and it is never [None] then *)
Lemma parse_total f : forall st prev cs, (length cs < f)%nat -> exists r, parse_loop f st prev cs = Some r.
Proof.
  induction f as [|f IH]; intros st prev cs H; [lia|]. cbn [parse_loop].
  repeat parse_case; try (eexists; reflexivity);
    try (apply IH; cbn [length] in *; lia).
  all: match goal with E : parse_class _ = COk _ _ _ |- _ => apply parse_class_length in E end.
  all: apply IH; cbn [length] in *; lia.
Qed.

(** the fuel passed by [glob_parse_result] suffices: `Glob::new` is modelled on every text *)
Theorem parse_fuel_suffices text : exists r, glob_parse_result text = Some r.
Proof. unfold glob_parse_result. apply parse_total. lia. Qed.

Corollary glob_parse_none_is_error text : glob_parse text = None <-> exists e, glob_parse_result text = Some (PErr e).
Proof.
  unfold glob_parse. destruct (parse_fuel_suffices text) as (r & E). rewrite E. destruct r as [ts|e]; split.
  - discriminate.
  - intros (e & H). discriminate.
  - intros _. exists e. reflexivity.
  - reflexivity.
Qed.

(* ================================================================== *)
(** * Whole patterns: text -> tokens -> what is matched *)

(** the characters that mean something to [Parser::parse] outside a group: `*` `?` `[` `\` `{` `}`
    (a `,` outside a group is a literal; so are `]`, `!`, `-`, `^`) *)
Definition meta (b : byte) : bool :=
  (b =? 42) || (b =? 63) || (b =? 91) || (b =? 92) || (b =? 123) || (b =? 125).
Definition no_meta (p : bytes) : bool := forallb (fun b => negb (meta b)) p.

Definition plain_ch (c : uchar) : bool :=
  negb (is_ch 63 c || is_ch 42 c || is_ch 91 c || is_ch 123 c || is_ch 125 c || is_ch 92 c).

Definition lit (c : uchar) : token := TAtom (ALit c).
(** the tokens of a text without metacharacters: one literal per character *)
Definition lits (p : bytes) : list token := map lit (chars_of p).

Fixpoint lastc (prev : option uchar) (cs : list uchar) : option uchar :=
  match cs with [] => prev | c :: r => lastc (Some c) r end.

Lemma no_meta_plain p : no_meta p = true -> Forall (fun c => plain_ch c = true) (chars_of p).
Proof.
  intros H. apply Forall_forall. intros c Hin. unfold plain_ch. apply negb_true_iff.
  unfold no_meta in H. rewrite forallb_forall in H.
  assert (X : forall n, meta n = true -> is_ch n c = false).
  { intros n Hn. destruct (is_ch n c) eqn:E; [|reflexivity].
    apply (is_ch_in_text n p c Hin), H in E. rewrite Hn in E. discriminate. }
  rewrite !X by reflexivity. reflexivity.
Qed.

Lemma no_meta_app a b : no_meta (a ++ b) = no_meta a && no_meta b.
Proof. apply forallb_app. Qed.

Lemma plain_tests c : plain_ch c = true ->
  is_ch 63 c = false /\ is_ch 42 c = false /\ is_ch 91 c = false /\ is_ch 123 c = false /\ is_ch 125 c = false /\ is_ch 92 c = false.
Proof.
  unfold plain_ch. intros H. apply negb_true_iff in H. repeat (apply orb_false_iff in H; destruct H as [H ?]).
  repeat split; assumption.
Qed.

(** one step of [Parser::parse] on a character without meaning, outside a group *)
Lemma parse_plain_step f ts prev c r : plain_ch c = true ->
  parse_loop (S f) (ts, []) prev (c :: r) = parse_loop f (ts ++ [lit c], []) (Some c) r.
Proof.
  intros H. apply plain_tests in H. destruct H as (H1 & H2 & H3 & H4 & H5 & H6).
  cbn [parse_loop]. rewrite H1, H2, H3, H4, H5, H6.
  destruct (is_ch 44 c); reflexivity.
Qed.

Lemma parse_plain_prefix cs1 : Forall (fun c => plain_ch c = true) cs1 ->
  forall f ts prev rest, (length (cs1 ++ rest) < f)%nat ->
  parse_loop f (ts, []) prev (cs1 ++ rest) = parse_loop f (ts ++ map lit cs1, []) (lastc prev cs1) rest.
Proof.
  induction 1 as [|c cs1 Hc _ IH]; intros f ts prev rest Hf.
  - cbn [app map lastc]. rewrite app_nil_r. reflexivity.
  - destruct f as [|f]; [lia|]. cbn [app] in *. rewrite parse_plain_step by exact Hc.
    cbn [length] in Hf. rewrite IH by lia. cbn [map lastc]. rewrite <- app_assoc. cbn [app].
    apply parse_fuel_eq; rewrite app_length in Hf; lia.
Qed.

Lemma parse_plain_all cs : Forall (fun c => plain_ch c = true) cs ->
  forall f ts prev, (length cs < f)%nat -> parse_loop f (ts, []) prev cs = Some (POk (ts ++ map lit cs)).
Proof.
  intros H f ts prev Hf. rewrite <- (app_nil_r cs) at 1. rewrite parse_plain_prefix by (rewrite ?app_nil_r; assumption).
  destruct f; [lia|]. reflexivity.
Qed.

(* ---------- [SeqM] of concatenations and of literals ---------- *)
Lemma SeqM_app a : forall b s, SeqM (a ++ b) s <-> exists u v, s = u ++ v /\ SeqM a u /\ SeqM b v.
Proof.
  induction a as [|t a IH]; intros b s; cbn [app].
  - split.
    + intros H. exists [], s. repeat split; [constructor|exact H].
    + intros (u & v & -> & Hu & Hv). inversion Hu; subst. exact Hv.
  - split.
    + intros H. inversion H as [|t' r' u1 u2 H1 H2]; subst. apply IH in H2. destruct H2 as (u & v & -> & Hu & Hv).
      exists (u1 ++ u), v. rewrite app_assoc. repeat split; [constructor; assumption|exact Hv].
    + intros (u & v & -> & Hu & Hv). inversion Hu as [|t' r' u1 u2 H1 H2]; subst. rewrite <- app_assoc.
      constructor; [exact H1|]. apply IH. exists u2, v. repeat split; assumption.
Qed.

Lemma SeqM_atom a s : SeqM [TAtom a] s <-> AtomM a s.
Proof.
  split.
  - intros H. inversion H as [|t r u v H1 H2]; subst. inversion H2; subst. rewrite app_nil_r. inversion H1; subst. assumption.
  - intros H. rewrite <- (app_nil_r s). constructor; [constructor; exact H|constructor].
Qed.

Lemma SeqM_lits cs : forall s, SeqM (map lit cs) s <-> s = concat cs.
Proof.
  induction cs as [|c cs IH]; intros s; cbn [map concat].
  - split; [intros H; inversion H; reflexivity|intros ->; constructor].
  - split.
    + intros H. inversion H as [|t r u v H1 H2]; subst. apply IH in H2. subst v.
      inversion H1 as [a u' Ha| |]; subst. inversion Ha; subst. reflexivity.
    + intros ->. constructor; [constructor; constructor|apply IH; reflexivity].
Qed.

Lemma lits_not_everything cs : map lit cs <> [TAtom ARecPre].
Proof. destruct cs as [|c [|c' cs]]; cbn; intros H; discriminate. Qed.

(** a text without metacharacters is the glob that matches exactly that text *)
Theorem plain_pattern_matches_itself p : no_meta p = true ->
  glob_parse p = Some (lits p) /\ forall s, glob_match (lits p) s = true <-> s = p.
Proof.
  intros H. split.
  - unfold glob_parse, glob_parse_result. rewrite parse_plain_all by (try apply no_meta_plain; try assumption; lia).
    reflexivity.
  - intros s. rewrite glob_match_iff. unfold Matches, lits. rewrite SeqM_lits, concat_chars_of. split.
    + intros [E|E]; [exfalso; exact (lits_not_everything _ E)|exact E].
    + intros ->. right. reflexivity.
Qed.

(** matching is anchored at both ends: nothing may precede or follow *)
Corollary plain_pattern_anchored p x y : no_meta p = true ->
  glob_match (lits p) (x ++ p ++ y) = true -> x = [] /\ y = [].
Proof.
  intros H Hm. apply (plain_pattern_matches_itself p H) in Hm.
  apply (f_equal (@length N)) in Hm. rewrite !app_length in Hm.
  split; apply length_zero_iff_nil; lia.
Qed.

(** `*` matches every path, `/` included *)
Theorem star_matches_everything :
  glob_parse [42] = Some [TAtom AStar] /\ forall s, glob_match [TAtom AStar] s = true.
Proof.
  split; [reflexivity|]. intros s. apply glob_match_iff. right. apply SeqM_atom. constructor.
Qed.

(** `?` matches exactly one byte, whatever it is *)
Theorem question_matches_one_byte :
  glob_parse [63] = Some [TAtom AAny] /\ forall s, glob_match [TAtom AAny] s = true <-> exists b, s = [b].
Proof.
  split; [reflexivity|]. intros s. rewrite glob_match_iff. unfold Matches. split.
  - intros [E|H]; [discriminate|]. apply SeqM_atom in H. inversion H; subst. eexists; reflexivity.
  - intros (b & ->). right. apply SeqM_atom. constructor.
Qed.

Lemma chars_of_single b : chars_of [b] = [[b]].
Proof. reflexivity. Qed.

(** `p*` matches exactly the texts that begin with p *)
Theorem prefix_pattern p : no_meta p = true ->
  glob_parse (p ++ [42]) = Some (lits p ++ [TAtom AStar]) /\
  forall s, glob_match (lits p ++ [TAtom AStar]) s = true <-> exists w, s = p ++ w.
Proof.
  intros H. split.
  - unfold glob_parse, glob_parse_result. rewrite chars_of_app_ascii by lia. rewrite chars_of_single.
    rewrite parse_plain_prefix by (try apply no_meta_plain; try assumption; lia).
    rewrite (parse_fuel_eq _ 2) by (rewrite ?app_length; cbn [length]; lia).
    reflexivity.
  - intros s. rewrite glob_match_iff. unfold Matches, lits. split.
    + intros [E|E].
      * exfalso. destruct (chars_of p) as [|c [|c' cs]]; cbn in E; discriminate.
      * apply SeqM_app in E. destruct E as (u & v & -> & Hu & _). apply SeqM_lits in Hu. rewrite concat_chars_of in Hu.
        subst u. exists v. reflexivity.
    + intros (w & ->). right. apply SeqM_app. exists p, w. repeat split.
      * apply SeqM_lits. symmetry. apply concat_chars_of.
      * apply SeqM_atom. constructor.
Qed.

(** a single `*`: the next character is not another `*` *)
Lemma parse_star_step f st prev r :
  match r with c2 :: _ => is_ch 42 c2 = false | [] => True end ->
  parse_loop (S f) st prev ([42] :: r) = parse_loop f (push AStar st) (Some [42]) r.
Proof.
  intros H. cbn [parse_loop]. change (is_ch 63 [42]) with false. change (is_ch 42 [42]) with true. cbn iota.
  destruct r as [|c2 r2]; [reflexivity|]. rewrite H. reflexivity.
Qed.

(** `*s` matches exactly the texts that end with s *)
Theorem suffix_pattern q : no_meta q = true ->
  glob_parse (42 :: q) = Some (TAtom AStar :: lits q) /\
  forall s, glob_match (TAtom AStar :: lits q) s = true <-> exists w, s = w ++ q.
Proof.
  intros H. pose proof (no_meta_plain q H) as Hp. split.
  - unfold glob_parse, glob_parse_result. rewrite chars_of_ascii_cons by lia.
    cbn [length]. rewrite parse_star_step.
    + change (push AStar ([], [])) with ([TAtom AStar], @nil (list atom)).
      rewrite parse_plain_all by (try assumption; lia). reflexivity.
    + destruct (chars_of q) as [|c2 r2]; [exact I|]. inversion Hp as [|c' r' Hc _]; subst.
      apply plain_tests in Hc. apply Hc.
  - intros s. rewrite glob_match_iff. unfold Matches, lits. split.
    + intros [E|E].
      * discriminate.
      * apply (SeqM_app [TAtom AStar]) in E. destruct E as (u & v & -> & _ & Hv). apply SeqM_lits in Hv.
        rewrite concat_chars_of in Hv. subst v. exists u. reflexivity.
    + intros (w & ->). right. apply (SeqM_app [TAtom AStar]). exists w, q. repeat split.
      * apply SeqM_atom. constructor.
      * apply SeqM_lits. symmetry. apply concat_chars_of.
Qed.

(** `*.ext` matches exactly the paths that end in `.ext` — in any directory, since `*` crosses `/` *)
Corollary extension_pattern ext : no_meta ext = true ->
  glob_parse (42 :: 46 :: ext) = Some (TAtom AStar :: lits (46 :: ext)) /\
  forall s, glob_match (TAtom AStar :: lits (46 :: ext)) s = true <-> exists w, s = w ++ 46 :: ext.
Proof. intros H. apply suffix_pattern. cbn [no_meta forallb]. exact H. Qed.

(* ---------- the recursive forms ---------- *)
Lemma last_opt_snoc {A} (l : list A) x : last_opt (l ++ [x]) = Some x.
Proof.
  induction l as [|y l IH]; [reflexivity|]. cbn [app last_opt]. rewrite IH.
  destruct (l ++ [x]) eqn:E; [destruct l; discriminate|reflexivity].
Qed.

Lemma is_nil_snoc {A} (l : list A) x : is_nil (l ++ [x]) = false.
Proof. destruct l; reflexivity. Qed.

(** `**` after a literal `/`, at the end of the pattern: the `/` is taken back and the pair becomes one
    recursive suffix *)
Lemma parse_slash_starstar_end f X prev :
  parse_loop (S (S (S (S f)))) (X, []) prev [[47]; [42]; [42]] = Some (POk (X ++ [TAtom ARecSuf])).
Proof.
  rewrite parse_plain_step by reflexivity.
  cbn [parse_loop]. change (is_ch 63 [42]) with false. change (is_ch 42 [42]) with true. cbn iota.
  unfold have_tokens. cbn [fst snd]. rewrite is_nil_snoc. cbn [negb prev_is]. change (is_ch 47 [47]) with true. cbn [negb andb].
  unfold repush, pop. cbn [fst snd]. rewrite last_opt_snoc, removelast_last. cbn [lit atom_kind].
  unfold push. cbn [fst snd]. reflexivity.
Qed.

(** `dir/**` matches exactly the paths below dir: `dir/` followed by anything (also nothing), never dir itself *)
Theorem below_dir_pattern d : no_meta d = true ->
  glob_parse (d ++ [47; 42; 42]) = Some (lits d ++ [TAtom ARecSuf]) /\
  forall s, glob_match (lits d ++ [TAtom ARecSuf]) s = true <-> exists w, s = d ++ 47 :: w.
Proof.
  intros H. split.
  - unfold glob_parse, glob_parse_result. rewrite chars_of_app_ascii by lia.
    rewrite !chars_of_ascii_cons by lia. change (chars_of []) with (@nil (list N)).
    rewrite parse_plain_prefix by (try apply no_meta_plain; try assumption; lia).
    rewrite (parse_fuel_eq _ 4) by (rewrite ?app_length; cbn [length]; lia).
    rewrite parse_slash_starstar_end. reflexivity.
  - intros s. rewrite glob_match_iff. unfold Matches, lits. split.
    + intros [E|E].
      * exfalso. destruct (chars_of d) as [|c [|c' cs]]; cbn in E; discriminate.
      * apply SeqM_app in E. destruct E as (u & v & -> & Hu & Hv). apply SeqM_lits in Hu. rewrite concat_chars_of in Hu.
        subst u. apply SeqM_atom in Hv. inversion Hv; subst. exists w. reflexivity.
    + intros (w & ->). right. apply SeqM_app. exists d, (47 :: w). repeat split.
      * apply SeqM_lits. symmetry. apply concat_chars_of.
      * apply SeqM_atom. constructor.
Qed.

(** `**/` at the very beginning: one recursive prefix; the `/` is consumed *)
Lemma parse_starstar_slash_start f prev r :
  parse_loop (S f) ([], []) prev ([42] :: [42] :: [47] :: r) = parse_loop f ([TAtom ARecPre], []) (Some [47]) r.
Proof. reflexivity. Qed.

(** `**/name` matches name at any depth: the path is name, or ends in `/name` *)
Theorem any_depth_pattern n : no_meta n = true -> n <> [] ->
  glob_parse (42 :: 42 :: 47 :: n) = Some (TAtom ARecPre :: lits n) /\
  forall s, glob_match (TAtom ARecPre :: lits n) s = true <-> s = n \/ exists w, s = w ++ 47 :: n.
Proof.
  intros H Hne. split.
  - unfold glob_parse, glob_parse_result. rewrite !chars_of_ascii_cons by lia.
    cbn [length]. rewrite parse_starstar_slash_start.
    rewrite parse_plain_all by (try apply no_meta_plain; try assumption; lia). reflexivity.
  - intros s. rewrite glob_match_iff. unfold Matches, lits. split.
    + intros [E|E].
      * exfalso. injection E as E. apply map_eq_nil, chars_of_nil in E. contradiction.
      * apply (SeqM_app [TAtom ARecPre]) in E. destruct E as (u & v & -> & Hu & Hv). apply SeqM_lits in Hv.
        rewrite concat_chars_of in Hv. subst v. apply SeqM_atom in Hu. inversion Hu; subst.
        -- left. reflexivity.
        -- right. exists []. reflexivity.
        -- right. exists w. rewrite <- app_assoc. reflexivity.
    + intros [->|(w & ->)]; right; apply (SeqM_app [TAtom ARecPre]).
      * exists [], n. repeat split; [apply SeqM_atom; constructor|apply SeqM_lits; symmetry; apply concat_chars_of].
      * exists (w ++ [47]), n. rewrite <- app_assoc. repeat split; [apply SeqM_atom; constructor|].
        apply SeqM_lits. symmetry. apply concat_chars_of.
Qed.

(** `**` alone (and `**/`, `**/**`) is the special case: everything *)
Theorem starstar_matches_everything :
  glob_parse [42; 42] = Some [TAtom ARecPre] /\ glob_parse [42; 42; 47] = Some [TAtom ARecPre] /\
  glob_parse [42; 42; 47; 42; 42] = Some [TAtom ARecPre] /\ forall s, glob_match [TAtom ARecPre] s = true.
Proof. repeat split. Qed.

(* ---------- classes ---------- *)
(** an ASCII range is the usual byte interval *)
Lemma range_has_ascii b l h : range_has b ([l], [h]) = (l <=? b) && (b <=? h).
Proof.
  unfold range_has. cbn [bytes_eqb existsb removelast last hd tl]. rewrite andb_true_r, !orb_false_r.
  destruct (l =? h) eqn:E; [apply N.eqb_eq in E; subst h|reflexivity].
  apply Bool.eq_iff_eq_true. rewrite andb_true_iff, N.eqb_eq, !N.leb_le. split; [intros ->; split; apply N.le_refl|intros [H1 H2]; apply N.le_antisymm; assumption].
Qed.

(** `[a-c]`: one byte between `a` and `c` *)
Theorem class_pattern_example :
  glob_parse [91; 97; 45; 99; 93] = Some [TAtom (AClass false [([97], [99])])] /\
  forall s, glob_match [TAtom (AClass false [([97], [99])])] s = true <-> exists b, s = [b] /\ 97 <= b <= 99.
Proof.
  split; [reflexivity|]. intros s. rewrite glob_match_iff. unfold Matches. split.
  - intros [E|E]; [discriminate|]. apply SeqM_atom in E. inversion E as [| | |ng rs b Hc| | | | | |]; subst.
    exists b. split; [reflexivity|]. unfold class_has in Hc. cbn [existsb xorb] in Hc. rewrite range_has_ascii, orb_false_r in Hc.
    destruct ((97 <=? b) && (b <=? 99)) eqn:E2; [|discriminate]. apply andb_true_iff in E2. rewrite !N.leb_le in E2. exact E2.
  - intros (b & -> & Hb). right. apply SeqM_atom. constructor. unfold class_has. cbn [existsb xorb]. rewrite range_has_ascii, orb_false_r.
    replace ((97 <=? b) && (b <=? 99)) with true; [reflexivity|]. symmetry. apply andb_true_iff. rewrite !N.leb_le. exact Hb.
Qed.

(* ================================================================== *)
(** * Walker::pattern_filter over the concrete matcher *)

(** glob precedence with the declarative meaning of the globs: no globs, everything; the last glob
    that matches the root-relative path decides; no glob matches: the opposite of the first one *)
Theorem glob_precedence (p : list (list N)) :
  pattern_filter (list token) glob_path_match [] p = true /\
  (forall before inc g after,
      Matches g (joined p) -> (forall q, In q after -> ~ Matches (snd q) (joined p)) ->
      pattern_filter (list token) glob_path_match (before ++ (inc, g) :: after) p = inc) /\
  (forall inc0 g0 rest,
      (forall q, In q ((inc0, g0) :: rest) -> ~ Matches (snd q) (joined p)) ->
      pattern_filter (list token) glob_path_match ((inc0, g0) :: rest) p = negb inc0).
Proof.
  destruct (pattern_filter_spec (list token) glob_path_match p) as (H0 & H1 & H2).
  split; [exact H0|]. split.
  - intros before inc g after Hg Hafter. apply H1.
    + apply glob_match_iff. exact Hg.
    + intros q Hq. apply glob_match_false_iff, Hafter, Hq.
  - intros inc0 g0 rest Hnone. apply H2. intros q Hq. apply glob_match_false_iff, Hnone, Hq.
Qed.

(** one of the two situations always holds *)
Lemma glob_precedence_cases gs (s : bytes) :
  (exists before inc g after, gs = before ++ (inc, g) :: after /\ Matches g s /\
                              forall q, In q after -> ~ Matches (snd q) s) \/
  (forall q : bool * list token, In q gs -> ~ Matches (snd q) s).
Proof.
  induction gs as [|[inc g] gs IH].
  - right. intros q [].
  - destruct IH as [(before & inc' & g' & after & -> & Hg & Hafter)|Hnone].
    + left. exists ((inc, g) :: before), inc', g', after. repeat split; assumption.
    + destruct (Matches_dec g s) as [Hg|Hg].
      * left. exists [], inc, g, gs. repeat split; assumption.
      * right. intros q [<-|Hq]; [exact Hg|apply Hnone, Hq].
Qed.

(** the file at root-relative path p is included iff the LAST glob that matches p is an including one,
    or no glob matches and the first glob (if any) is an excluding one *)
Theorem glob_filter_decides gs (p : list (list N)) :
  pattern_filter (list token) glob_path_match gs p = true <->
  (exists before g after, gs = before ++ (true, g) :: after /\ Matches g (joined p) /\
                          forall q, In q after -> ~ Matches (snd q) (joined p)) \/
  ((forall q, In q gs -> ~ Matches (snd q) (joined p)) /\ (gs = [] \/ exists g0 rest, gs = (false, g0) :: rest)).
Proof.
  destruct (glob_precedence p) as (H0 & H1 & H2). split.
  - intros H. destruct (glob_precedence_cases gs (joined p)) as [(before & inc & g & after & -> & Hg & Hafter)|Hnone].
    + rewrite (H1 before inc g after Hg Hafter) in H. subst inc. left. exists before, g, after. repeat split; assumption.
    + right. split; [exact Hnone|]. destruct gs as [|[inc0 g0] rest]; [left; reflexivity|].
      assert (H3 : negb inc0 = true) by (rewrite <- (H2 inc0 g0 rest Hnone); exact H).
      apply negb_true_iff in H3. subst inc0. right. exists g0, rest. reflexivity.
  - intros [(before & g & after & -> & Hg & Hafter)|[Hnone [->|(g0 & rest & ->)]]].
    + apply H1; assumption.
    + exact H0.
    + rewrite (H2 false g0 rest Hnone). reflexivity.
Qed.

(** `--glob '*'` alone includes every file; `--glob '!*'` alone excludes every file *)
Theorem star_glob_alone :
  glob_args [[42]] = Some [(true, [TAtom AStar])] /\ glob_args [[33; 42]] = Some [(false, [TAtom AStar])] /\
  (forall p, pattern_filter (list token) glob_path_match [(true, [TAtom AStar])] p = true) /\
  (forall p, pattern_filter (list token) glob_path_match [(false, [TAtom AStar])] p = false) /\
  (forall s, glob_filter [[42]] s = Some true) /\ (forall s, glob_filter [[33; 42]] s = Some false).
Proof.
  assert (A : forall inc p, pattern_filter (list token) glob_path_match [(inc, [TAtom AStar])] p = inc).
  { intros inc p. destruct (glob_precedence p) as (_ & H1 & _). apply (H1 [] inc [TAtom AStar] []).
    - apply glob_match_iff. apply star_matches_everything.
    - intros q []. }
  repeat split; try (intros; apply A).
  - intros s. change (glob_filter [[42]] s) with (Some (pattern_filter (list token) glob_path_match [(true, [TAtom AStar])] [s])).
    rewrite A. reflexivity.
  - intros s. change (glob_filter [[33; 42]] s) with (Some (pattern_filter (list token) glob_path_match [(false, [TAtom AStar])] [s])).
    rewrite A. reflexivity.
Qed.

(** in the walk: under `--glob '*'` the glob rule lets every path through (what is listed is decided by
    the hidden and junk rules alone); under `--glob '!*'` no path passes *)
Theorem star_glob_in_walk (c : cfg (list token)) e :
  (patterns c = [(true, [TAtom AStar])] ->
   included (list token) glob_path_match c e = no_hidden (list token) c (fst e) && junk_ok (list token) c (fst e)) /\
  (patterns c = [(false, [TAtom AStar])] -> included (list token) glob_path_match c e = false).
Proof.
  destruct star_glob_alone as (_ & _ & Hin & Hex & _).
  unfold included. rewrite <- (pattern_filter_glob_ok (list token) glob_path_match c (fst e)).
  split; intros ->; [rewrite Hin, andb_true_r; reflexivity|rewrite Hex, andb_false_r; reflexivity].
Qed.
