(** X4 - one typed loader. The verifier's projection [Verify.load] against the typed loader of
    Model/Summary.v ([Summary.from_input], the model of [Metainfo::from_input] used by show, link and verify):
      - field by field the two models (written independently) read the same thing: UTF-8, keys, md5sum,
        path components, piece list, file entries in both shapes, the untagged choice;
      - [loaders_agree]: what the typed loader accepts, [load_value] accepts with the projected result;
      - [typed_rejects_more]: [load_typed tb = Some t -> load tb = Some t];
      - [typed_exact]: the difference is exactly [extras] and [size_fits]; one lemma per refused class;
      - the strict reader is the wide reader plus i64 ([decode_wdecode]), so `show` (which decodes strictly for
        the infohash) sees the same metainfo as [from_input] ([show_loads_through_from_input]). *)
From Coq Require Import NArith ZArith List Bool Lia ZifyN ZifyBool.
From Imdl Require Import Base.Chunks Model.Bencode Model.BencodeWide Model.Fs Model.Verify Proofs.FsProofs.
From Imdl Require Model.Summary Proofs.SummaryProofs.
Import ListNotations.
Local Open Scope N_scope.

Module S := Summary.

(* ------------------------------------------------------------------ text *)
Lemma utf8_eq_n n : forall s, (length s <= n)%nat -> utf8_ok s = S.utf8_valid s.
Proof.
  induction n as [|n IH]; intros s Hl.
  - destruct s; [reflexivity|cbn [length] in Hl; lia].
  - destruct s as [|b0 r0]; [reflexivity|]. cbn [length] in Hl.
    cbn [utf8_ok S.utf8_valid]. unfold in_range, S.cont, S.inr.
    destruct (b0 <? 128); [apply IH; lia|].
    destruct r0 as [|b1 r1].
    { destruct ((194 <=? b0) && (b0 <=? 223)), ((224 <=? b0) && (b0 <=? 239)), ((240 <=? b0) && (b0 <=? 244)); reflexivity. }
    cbn [length] in Hl.
    destruct ((194 <=? b0) && (b0 <=? 223)); [rewrite (IH r1) by lia; reflexivity|].
    destruct r1 as [|b2 r2].
    { destruct ((224 <=? b0) && (b0 <=? 239)), ((240 <=? b0) && (b0 <=? 244)); reflexivity. }
    cbn [length] in Hl.
    destruct ((224 <=? b0) && (b0 <=? 239)); [rewrite (IH r2) by lia; reflexivity|].
    destruct r2 as [|b3 r3].
    { destruct ((240 <=? b0) && (b0 <=? 244)); reflexivity. }
    cbn [length] in Hl.
    destruct ((240 <=? b0) && (b0 <=? 244)); [rewrite (IH r3) by lia; reflexivity|reflexivity].
Qed.

(** the two UTF-8 validators (Verify.v's nested matches, Summary.v's cascade) are the same function *)
Lemma utf8_eq s : utf8_ok s = S.utf8_valid s.
Proof. apply (utf8_eq_n (length s)). lia. Qed.

Lemma eqb_eq a : forall b, Fs.bytes_eqb a b = S.bytes_eqb a b.
Proof. induction a as [|x a IH]; intros [|y b]; cbn [Fs.bytes_eqb S.bytes_eqb]; try reflexivity; rewrite IH; reflexivity. Qed.

Lemma dlookup_lookup k d : dlookup k d = S.lookup k d.
Proof.
  unfold dlookup, S.lookup. induction d as [|kv d IH]; cbn [find]; [reflexivity|].
  rewrite eqb_eq. destruct (S.bytes_eqb (fst kv) k); [reflexivity|exact IH].
Qed.

Lemma keys_same :
  K_info = S.k_info /\ K_name = S.k_name /\ K_piece_length = S.k_piece_length /\ K_pieces = S.k_pieces /\
  K_length = S.k_length /\ K_files = S.k_files /\ K_path = S.k_path /\ K_md5sum = S.k_md5sum.
Proof. repeat split. Qed.

Lemma load_string_eq v : load_string v = S.as_string v.
Proof. destruct v as [z|s|l|d]; try reflexivity. cbn [load_string S.as_string]. rewrite utf8_eq. reflexivity. Qed.

(* ------------------------------------------------------------------ md5sum *)
Lemma hexval_is_hex b : S.is_hex b = is_some (hexval b).
Proof.
  unfold S.is_hex, hexval, in_range, S.inr.
  destruct ((48 <=? b) && (b <=? 57)); [reflexivity|].
  destruct ((97 <=? b) && (b <=? 102)); [rewrite orb_true_r; reflexivity|].
  destruct ((65 <=? b) && (b <=? 70)); reflexivity.
Qed.

Lemma unhex_hex_n n : forall s, (length s <= n)%nat ->
  is_some (unhex s) = Nat.even (length s) && forallb S.is_hex s.
Proof.
  induction n as [|n IH]; intros s Hl.
  - destruct s; [reflexivity|cbn [length] in Hl; lia].
  - destruct s as [|a [|b r]]; [reflexivity|cbn; rewrite ?andb_false_r; reflexivity|].
    cbn [length] in Hl. cbn [unhex forallb length Nat.even]. rewrite !hexval_is_hex.
    specialize (IH r ltac:(lia)).
    destruct (hexval a); cbn [is_some andb]; [|rewrite andb_false_r; reflexivity].
    destruct (hexval b); cbn [is_some andb]; [|rewrite andb_false_r; reflexivity].
    destruct (unhex r); cbn [is_some] in *; rewrite <- IH; reflexivity.
Qed.

Lemma hex_utf8 s : forallb S.is_hex s = true -> S.utf8_valid s = true.
Proof.
  induction s as [|b r IH]; [reflexivity|]. cbn [forallb]. intros Hh. apply andb_prop in Hh. destruct Hh as [Hb Hr].
  cbn [S.utf8_valid]. replace (b <? 128) with true; [exact (IH Hr)|].
  unfold S.is_hex, S.inr in Hb. lia.
Qed.

(** the verifier's md5sum (decoded digest) is the typed loader's md5sum (checked text), decoded *)
Lemma load_md5_eq v : load_md5 v = option_map md5_bytes (S.as_md5 v).
Proof.
  destruct v as [z|s|l|d]; try reflexivity. cbn [load_md5]. unfold S.as_md5. cbn [S.as_string].
  pose proof (unhex_hex_n (length s) s ltac:(lia)) as Hu.
  destruct (Nat.eqb (length s) 32) eqn:El.
  - assert (El' := El). apply Nat.eqb_eq in El'. rewrite El' in Hu. cbn [Nat.even andb] in Hu.
    destruct (forallb S.is_hex s) eqn:Eh.
    + rewrite (hex_utf8 s Eh). cbv beta iota. rewrite El, Eh. cbn [andb option_map]. unfold md5_bytes.
      destruct (unhex s); [reflexivity|discriminate].
    + destruct (unhex s); [discriminate|]. destruct (S.utf8_valid s); [|reflexivity].
      cbv beta iota. rewrite El, Eh. reflexivity.
  - destruct (S.utf8_valid s); [|reflexivity]. cbv beta iota. rewrite El. reflexivity.
Qed.

Lemma load_opt_md5_eq d : load_opt load_md5 K_md5sum d = option_map (option_map md5_bytes) (S.opt S.as_md5 S.k_md5sum d).
Proof.
  unfold load_opt, S.opt. rewrite dlookup_lookup. change K_md5sum with S.k_md5sum.
  destruct (S.lookup S.k_md5sum d) as [v|]; [|reflexivity]. rewrite load_md5_eq.
  destruct (S.as_md5 v); reflexivity.
Qed.

(* ------------------------------------------------------------------ path components *)
Lemma nosep_eq c : forallb (fun b => negb (is_sep b)) c = negb (existsb (N.eqb 47) c).
Proof.
  induction c as [|b r IH]; [reflexivity|]. cbn [forallb existsb]. rewrite IH. unfold is_sep, SEP.
  rewrite (N.eqb_sym 47 b). destruct (b =? 47); reflexivity.
Qed.

Lemma plain_normal c : plain c = S.normal_component c.
Proof.
  unfold plain, S.normal_component, is_dot, is_dotdot, DOT. rewrite nosep_eq, !eqb_eq.
  destruct c; reflexivity.
Qed.

(** [FilePath::is_normal_component] as the path model has it ([Path::components]) and as the typed loader
    has it (the direct test) *)
Lemma screen_normal c : screen_comp c = S.normal_component c.
Proof.
  rewrite <- plain_normal. pose proof (screen_comp_plain c) as [H1 H2].
  destruct (screen_comp c), (plain c); try reflexivity; [discriminate (H1 eq_refl)|discriminate (H2 eq_refl)].
Qed.

Lemma load_comp_eq v : load_comp v = S.as_component v.
Proof.
  unfold load_comp, S.as_component. rewrite load_string_eq. destruct (S.as_string v) as [s|]; [|reflexivity].
  rewrite screen_normal. reflexivity.
Qed.

Lemma mapM_map_opt {A B : Type} (f g : A -> option B) : (forall a, f a = g a) -> forall l, mapM f l = S.map_opt g l.
Proof.
  intros Hfg. induction l as [|a r IH]; [reflexivity|]. cbn [mapM S.map_opt]. rewrite Hfg, IH.
  destruct (g a); [|reflexivity]. destruct (S.map_opt g r); reflexivity.
Qed.

Lemma load_path_eq v : load_path v = S.as_path v.
Proof.
  destruct v as [z|s|l|d]; try reflexivity. cbn [load_path]. unfold S.as_path. cbn [S.as_list].
  apply mapM_map_opt. exact load_comp_eq.
Qed.

(* ------------------------------------------------------------------ pieces *)
Lemma load_pieces_eq v : load_pieces v = option_map (chunks 20) (S.as_pieces v).
Proof.
  destruct v as [z|s|l|d]; try reflexivity. cbn [load_pieces S.as_pieces].
  assert (E : Nat.eqb (Nat.modulo (length s) 20) 0 = (N.of_nat (length s) mod 20 =? 0)).
  { pose proof (Nat.mod_upper_bound (length s) 20 ltac:(lia)).
    pose proof (Nat.div_mod (length s) 20 ltac:(lia)).
    pose proof (N.mod_lt (N.of_nat (length s)) 20 ltac:(lia)).
    pose proof (N.div_mod (N.of_nat (length s)) 20 ltac:(lia)).
    destruct (Nat.eqb (length s mod 20) 0) eqn:E1, (N.of_nat (length s) mod 20 =? 0) eqn:E2; try reflexivity.
    - apply Nat.eqb_eq in E1. apply N.eqb_neq in E2. exfalso. nia.
    - apply Nat.eqb_neq in E1. apply N.eqb_eq in E2. exfalso. nia. }
  rewrite E. destruct (N.of_nat (length s) mod 20 =? 0); reflexivity.
Qed.

(* ------------------------------------------------------------------ integers *)
Lemma as_uint_load b v n : S.as_uint b v = Some n -> load_u64 v = Some n.
Proof.
  destruct v as [z|s|l|d]; cbn [S.as_uint load_u64]; try discriminate.
  destruct (0 <=? z)%Z; cbn [andb]; [|discriminate]. destruct (z <? 2 ^ Z.of_N b)%Z; [|discriminate]. exact (fun H => H).
Qed.

(** the other way round the range matters: buffered integers have gone through i64 *)
Lemma load_as_uint63 v n : load_u64 v = Some n -> all_i64 v = true -> S.as_uint 63 v = Some n.
Proof.
  destruct v as [z|s|l|d]; cbn [S.as_uint load_u64 all_i64]; try discriminate.
  unfold i64_ok. destruct (0 <=? z)%Z eqn:E0; [|discriminate]. intros H Hi. cbn [andb].
  replace (z <? 2 ^ Z.of_N 63)%Z with true; [exact H|]. change (Z.of_N 63) with 63%Z. lia.
Qed.

Lemma load_uint63_eq v : all_i64 v = true -> load_u64 v = S.as_uint 63 v.
Proof.
  destruct v as [z|s|l|d]; try reflexivity. cbn [S.as_uint load_u64 all_i64]. unfold i64_ok. intros Hi.
  destruct (0 <=? z)%Z eqn:E0; [|reflexivity]. cbn [andb].
  replace (z <? 2 ^ Z.of_N 63)%Z with true; [reflexivity|]. change (Z.of_N 63) with 63%Z. lia.
Qed.

(* ------------------------------------------------------------------ file entries, the untagged choice *)
Lemma lookup_all_i64 k d v : S.lookup k d = Some v -> forallb (fun kv => all_i64 (snd kv)) d = true -> all_i64 v = true.
Proof.
  unfold S.lookup. intros Hl Ha. destruct (find _ d) as [kv|] eqn:Ef; [|discriminate]. inversion Hl; subst.
  apply find_some in Ef. destruct Ef as [Hin _]. rewrite forallb_forall in Ha. exact (Ha kv Hin).
Qed.

(** a file entry, in either shape, read out of buffered content (integers already through i64) *)
Lemma load_file_eq v : all_i64 v = true -> load_file v = option_map project_file (S.as_file v).
Proof.
  destruct v as [z|s|l|d]; try reflexivity; intros Hi.
  - destruct l as [|lv [|pv rest]]; try reflexivity. cbn [load_file S.as_file].
    cbn [all_i64 forallb] in Hi. apply andb_prop in Hi. destruct Hi as [Hlv _].
    rewrite (load_uint63_eq lv Hlv), load_path_eq.
    destruct (S.as_uint 63 lv) as [n|]; [|reflexivity]. destruct (S.as_path pv) as [p|]; [|reflexivity].
    destruct rest as [|mv [|x r]]; try reflexivity. rewrite load_md5_eq. destruct (S.as_md5 mv); reflexivity.
  - cbn [load_file S.as_file]. unfold S.req. rewrite (dlookup_lookup K_length d), (dlookup_lookup K_path d).
    change K_length with S.k_length. change K_path with S.k_path.
    cbn [all_i64] in Hi.
    destruct (S.lookup S.k_length d) as [lv|] eqn:El; [|reflexivity].
    rewrite (load_uint63_eq lv (lookup_all_i64 _ _ _ El Hi)).
    destruct (S.lookup S.k_path d) as [pv|]; [|destruct (S.as_uint 63 lv); reflexivity].
    rewrite load_path_eq, load_opt_md5_eq.
    destruct (S.as_uint 63 lv) as [n|]; [|reflexivity]. destruct (S.as_path pv) as [p|]; [|reflexivity].
    destruct (S.opt S.as_md5 S.k_md5sum d) as [m|]; reflexivity.
Qed.

Lemma load_files_eq l : forallb all_i64 l = true -> mapM load_file l = option_map (map project_file) (S.map_opt S.as_file l).
Proof.
  induction l as [|a r IH]; [reflexivity|]. cbn [forallb mapM S.map_opt]. intros Hi. apply andb_prop in Hi.
  destruct Hi as [Ha Hr]. rewrite (load_file_eq a Ha), (IH Hr).
  destruct (S.as_file a); [|reflexivity]. destruct (S.map_opt S.as_file r); reflexivity.
Qed.

(** Single before Multiple, in both models; `length`, `md5sum`, `files` are buffered by serde's flatten *)
Lemma load_mode_eq i :
  (forall v, S.lookup S.k_length i = Some v -> all_i64 v = true) ->
  (forall v, S.lookup S.k_files i = Some v -> all_i64 v = true) ->
  load_mode i = option_map project_mode (S.as_mode i).
Proof.
  intros Hl Hf. unfold load_mode, S.as_mode.
  assert (Es : load_single i = option_map project_mode (S.try_single i)).
  { unfold load_single, S.try_single, S.req. rewrite dlookup_lookup. change K_length with S.k_length.
    destruct (S.lookup S.k_length i) as [lv|] eqn:El; [|reflexivity].
    rewrite (load_uint63_eq lv (Hl lv eq_refl)), load_opt_md5_eq.
    destruct (S.as_uint 63 lv); [|reflexivity]. destruct (S.opt S.as_md5 S.k_md5sum i); reflexivity. }
  assert (Em : load_multiple i = option_map project_mode (S.try_multiple i)).
  { unfold load_multiple, S.try_multiple, S.req. rewrite dlookup_lookup. change K_files with S.k_files.
    destruct (S.lookup S.k_files i) as [fv|] eqn:El; [|reflexivity].
    specialize (Hf fv eq_refl). destruct fv as [z|s|l|d]; try reflexivity. cbn [all_i64] in Hf.
    cbn [S.as_list]. rewrite (load_files_eq l Hf). destruct (S.map_opt S.as_file l); reflexivity. }
  rewrite Es, Em. destruct (S.try_single i); reflexivity.
Qed.

Lemma others_lookup ks k d v :
  S.others_i64 ks d = true -> S.lookup k d = Some v -> existsb (S.bytes_eqb k) ks = false -> all_i64 v = true.
Proof.
  unfold S.others_i64, S.lookup. intros Ho Hl Hk. destruct (find _ d) as [kv|] eqn:Ef; [|discriminate].
  inversion Hl; subst. apply find_some in Ef. destruct Ef as [Hin He].
  rewrite forallb_forall in Ho. specialize (Ho kv Hin).
  rewrite <- eqb_eq in He. apply bytes_eqb_eq in He. rewrite He, Hk in Ho. exact Ho.
Qed.

(* ------------------------------------------------------------------ the strict reader is the wide reader plus i64 *)
Lemma dec_str_w bs : wdec_str bs = dec_str bs.
Proof.
  unfold wdec_str, dec_str. destruct (take_digits bs) as [u r]. destruct (canon u); [|reflexivity].
  destruct (hd_is 58 r) as [r1|]; [|reflexivity].
  destruct (Nat.leb (N.to_nat (N.of_uint u)) (length r1)) eqn:E1, (N.of_uint u <=? N.of_nat (length r1)) eqn:E2;
    try reflexivity; exfalso.
  - apply Nat.leb_le in E1. lia.
  - apply Nat.leb_gt in E1. lia.
Qed.

Lemma dec_int_w r v rest : dec_int r = Some (v, rest) -> wdec_int r = Some (v, rest) /\ all_i64 v = true.
Proof.
  unfold dec_int, wdec_int. destruct (hd_is 45 r) as [r1|].
  - destruct (take_digits r1) as [u r2]. destruct (nonzero_start u); [|discriminate].
    destruct (hd_is 101 r2) as [r3|]; [|discriminate]. cbv zeta.
    destruct (i64_ok (- Z.of_N (N.of_uint u))) eqn:Ei; [|discriminate]. intros H; inversion H; subst. split; [reflexivity|exact Ei].
  - destruct (take_digits r) as [u r2]. destruct (canon u); [|discriminate].
    destruct (hd_is 101 r2) as [r3|]; [|discriminate]. cbv zeta.
    destruct (i64_ok (Z.of_N (N.of_uint u))) eqn:Ei; [|discriminate]. intros H; inversion H; subst. split; [reflexivity|exact Ei].
Qed.

Theorem decode_wdecode :
  forall fuel,
    (forall bs v rest, decode fuel bs = Some (v, rest) -> wdecode fuel bs = Some (v, rest) /\ all_i64 v = true) /\
    (forall bs l rest, decode_list fuel bs = Some (l, rest) -> wdecode_list fuel bs = Some (l, rest) /\ forallb all_i64 l = true) /\
    (forall last bs d rest, decode_dict fuel last bs = Some (d, rest) ->
        wdecode_dict fuel last bs = Some (d, rest) /\ forallb (fun kv => all_i64 (snd kv)) d = true).
Proof.
  induction fuel as [|f [IHv [IHl IHd]]].
  - repeat split; intros; discriminate.
  - split; [|split].
    + intros bs v rest H. cbn [decode] in H. cbn [wdecode].
      destruct (hd_is 105 bs) as [r|]; [apply dec_int_w; exact H|].
      destruct (hd_is 108 bs) as [r|].
      { destruct (decode_list f r) as [[l r']|] eqn:E; [|discriminate]. inversion H; subst.
        destruct (IHl _ _ _ E) as [-> Ha]. split; [reflexivity|exact Ha]. }
      destruct (hd_is 100 bs) as [r|].
      { destruct (decode_dict f None r) as [[d r']|] eqn:E; [|discriminate]. inversion H; subst.
        destruct (IHd _ _ _ _ E) as [-> Ha]. split; [reflexivity|exact Ha]. }
      rewrite dec_str_w. destruct (dec_str bs) as [[s r]|]; [|discriminate]. inversion H; subst. split; reflexivity.
    + intros bs l rest H. cbn [decode_list] in H. cbn [wdecode_list].
      destruct (hd_is 101 bs) as [r|]; [inversion H; subst; split; reflexivity|].
      destruct (decode f bs) as [[v r]|] eqn:E; [|discriminate].
      destruct (decode_list f r) as [[vs r']|] eqn:E'; [|discriminate]. inversion H; subst.
      destruct (IHv _ _ _ E) as [-> Ha]. destruct (IHl _ _ _ E') as [-> Hb]. split; [reflexivity|].
      cbn [forallb]. rewrite Ha, Hb. reflexivity.
    + intros last bs d rest H. cbn [decode_dict] in H. cbn [wdecode_dict].
      destruct (hd_is 101 bs) as [r|]; [inversion H; subst; split; reflexivity|].
      rewrite dec_str_w. destruct (dec_str bs) as [[k r]|]; [|discriminate].
      destruct (match last with None => true | Some l => bytes_ltb l k end); [|discriminate].
      destruct (decode f r) as [[v r1]|] eqn:E; [|discriminate].
      destruct (decode_dict f (Some k) r1) as [[kvs r2]|] eqn:E'; [|discriminate]. inversion H; subst.
      destruct (IHv _ _ _ E) as [-> Ha]. destruct (IHd _ _ _ _ E') as [-> Hb]. split; [reflexivity|].
      cbn [forallb snd]. rewrite Ha, Hb. reflexivity.
Qed.

Lemma fuel_for_eq (tb : bytes) : fuel_for tb = (2 * length tb + 2)%nat.
Proof. unfold fuel_for. lia. Qed.

(** what the strict reader accepts the wide reader accepts, and so does the projection *)
Lemma strict_load tb v rest : decode (2 * length tb + 2) tb = Some (v, rest) -> load tb = load_value v.
Proof.
  intros Hd. unfold load. rewrite fuel_for_eq. destruct (decode_wdecode (2 * length tb + 2)) as (Hv & _ & _).
  destruct (Hv _ _ _ Hd) as [-> _]. reflexivity.
Qed.

Lemma all_i64_skipped v : all_i64 v = true -> S.skipped_i64 v = true.
Proof.
  destruct v as [z|s|l|d]; try reflexivity. cbn [all_i64 S.skipped_i64]. intros Ha.
  assert (Ho : forall ks d', forallb (fun kv => all_i64 (snd kv)) d' = true -> S.others_i64 ks d' = true).
  { intros ks d' Hd. unfold S.others_i64. rewrite forallb_forall in *. intros kv Hin. rewrite (Hd kv Hin). apply orb_true_r. }
  rewrite (Ho _ d Ha). cbn [andb]. destruct (S.lookup S.k_info d) as [iv|] eqn:Ei; [|reflexivity].
  destruct iv as [z|s|l|i]; try reflexivity. apply Ho. exact (lookup_all_i64 _ _ _ Ei Ha).
Qed.

(** `torrent show` decodes strictly (for the infohash) and then loads: it sees what [from_input] sees *)
Theorem show_loads_through_from_input hd un input v rest :
  decode (2 * length input + 2) input = Some (v, rest) ->
  S.from_input hd un input = if depth v <=? max_depth then S.typed_of_value hd un v else None.
Proof.
  intros Hd. unfold S.from_input, S.from_value. rewrite fuel_for_eq.
  destruct (decode_wdecode (2 * length input + 2)) as (Hv & _ & _).
  destruct (Hv _ _ _ Hd) as [-> Ha]. rewrite (all_i64_skipped v Ha), andb_true_r. reflexivity.
Qed.

(* ------------------------------------------------------------------ the two loaders *)
Lemma size_fits_project m : size_fits (project m) = S.content_size_fits (S.m_mode m).
Proof.
  unfold size_fits, project. cbn [tmode]. destruct (S.m_mode m) as [n md|fs]; [reflexivity|].
  cbn [project_mode S.content_size_fits]. rewrite map_map. cbn [project_file flen].
  destruct (S.checked_sum 0 (map S.f_length fs)); reflexivity.
Qed.

Lemma is_some_true {A : Type} (o : option A) : is_some o = true -> exists a, o = Some a.
Proof. destruct o as [a|]; [eauto|discriminate]. Qed.

Section Loaders.
Variable host_disp : bytes -> option bytes.
Variable url_norm : bytes -> option bytes.

Notation typed_of_value := (S.typed_of_value host_disp url_norm).
Notation from_value := (S.from_value host_disp url_norm).
Notation from_input := (S.from_input host_disp url_norm).
Notation load_typed := (load_typed host_disp url_norm).
Notation typed_checks := (typed_checks host_disp url_norm).
Notation extras_value := (extras_value host_disp url_norm).
Notation extras := (extras host_disp url_norm).

(** the buffered mode keys of an info dictionary that passed [skipped_i64] *)
Lemma skipped_mode_keys d i :
  S.skipped_i64 (Dict d) = true -> S.lookup S.k_info d = Some (Dict i) ->
  (forall v, S.lookup S.k_length i = Some v -> all_i64 v = true) /\
  (forall v, S.lookup S.k_files i = Some v -> all_i64 v = true).
Proof.
  cbn [S.skipped_i64]. intros Hs Ei. rewrite Ei in Hs. apply andb_prop in Hs. destruct Hs as [_ Hi].
  split; intros v Hv; exact (others_lookup _ _ _ _ Hi Hv eq_refl).
Qed.

(** everything [typed_of_value] checked, in the vocabulary of Model/Verify.v *)
Lemma typed_value_sound v m :
  typed_of_value v = Some m -> S.skipped_i64 v = true ->
  load_value v = Some (project m) /\
  exists d i, v = Dict d /\ dlookup K_info d = Some (Dict i) /\ typed_checks d i = true.
Proof.
  intros Ht Hs. unfold S.typed_of_value in Ht. destruct v as [| | |d]; try discriminate.
  destruct (S.keys_utf8 d) eqn:K1; [|discriminate].
  destruct (S.opt S.as_string S.k_announce d) as [x1|] eqn:Q1; [|discriminate].
  destruct (S.opt (S.as_list (S.as_list S.as_string)) S.k_announce_list d) as [x2|] eqn:Q2; [|discriminate].
  destruct (S.opt S.as_string S.k_comment d) as [x3|] eqn:Q3; [|discriminate].
  destruct (S.opt S.as_string S.k_created_by d) as [x4|] eqn:Q4; [|discriminate].
  destruct (S.opt (S.as_uint 64) S.k_creation_date d) as [x5|] eqn:Q5; [|discriminate].
  destruct (S.opt S.as_string S.k_encoding d) as [x6|] eqn:Q6; [|discriminate].
  destruct (S.opt (S.as_list (S.as_node host_disp)) S.k_nodes d) as [x7|] eqn:Q7; [|discriminate].
  destruct (S.lookup S.k_info d) as [iv|] eqn:Q8; [|discriminate].
  destruct iv as [| | |i]; try discriminate.
  destruct (S.keys_utf8 i) eqn:K2; [|discriminate].
  destruct (S.opt S.as_bool S.k_private i) as [y1|] eqn:Q9; [|discriminate].
  destruct (S.req (S.as_uint 64) S.k_piece_length i) as [y2|] eqn:Q10; [|discriminate].
  destruct (S.req S.as_string S.k_name i) as [y3|] eqn:Q11; [|discriminate].
  destruct (S.opt S.as_string S.k_source i) as [y4|] eqn:Q12; [|discriminate].
  destruct (S.req S.as_pieces S.k_pieces i) as [y5|] eqn:Q13; [|discriminate].
  destruct (S.as_mode i) as [y6|] eqn:Q14; [|discriminate].
  destruct (S.opt (S.as_url url_norm) S.k_update_url i) as [y7|] eqn:Q15; [|discriminate].
  destruct (S.content_size_fits y6) eqn:Efit; [|discriminate].
  inversion Ht; subst m; clear Ht.
  destruct (skipped_mode_keys d i Hs Q8) as [Hl Hf].
  split.
  - cbn [load_value]. rewrite dlookup_lookup. change K_info with S.k_info. rewrite Q8.
    unfold load_info. rewrite (dlookup_lookup K_name i), (dlookup_lookup K_piece_length i), (dlookup_lookup K_pieces i).
    change K_name with S.k_name. change K_piece_length with S.k_piece_length. change K_pieces with S.k_pieces.
    unfold S.req in Q10, Q11, Q13.
    destruct (S.lookup S.k_name i) as [nv|]; [|discriminate].
    destruct (S.lookup S.k_piece_length i) as [plv|]; [|discriminate].
    destruct (S.lookup S.k_pieces i) as [pv|]; [|discriminate].
    rewrite load_string_eq, Q11, (as_uint_load _ _ _ Q10), load_pieces_eq, Q13, (load_mode_eq i Hl Hf), Q14.
    reflexivity.
  - exists d, i. split; [reflexivity|]. split; [rewrite dlookup_lookup; exact Q8|].
    unfold Verify.typed_checks, x_top_keys_utf8, x_announce, x_announce_list, x_comment, x_created_by, x_creation_date,
      x_encoding, x_nodes, x_info_keys_utf8, x_private, x_piece_length_u64, x_source, x_update_url.
    rewrite K1, Q1, Q2, Q3, Q4, Q5, Q6, Q7, K2, Q9, Q10, Q12, Q15. reflexivity.
Qed.

(** ** what the typed loader accepts, the projection accepts, with the projected result *)
Theorem loaders_agree v m : from_value v = Some m -> load_value v = Some (project m).
Proof.
  unfold S.from_value. destruct (depth v <=? max_depth); [|discriminate]. cbn [andb].
  destruct (S.skipped_i64 v) eqn:Hs; [|discriminate]. intros Ht.
  exact (proj1 (typed_value_sound v m Ht Hs)).
Qed.

Theorem typed_rejects_more tb t : load_typed tb = Some t -> load tb = Some t.
Proof.
  unfold Verify.load_typed, S.from_input, load.
  destruct (wdecode (fuel_for tb) tb) as [[v r]|]; [|discriminate].
  destruct (from_value v) as [m|] eqn:Ef; [|discriminate]. intros H; inversion H; subst.
  exact (loaders_agree v m Ef).
Qed.

(** ** and the difference is exactly [extras] and [size_fits] *)
Theorem from_value_extras v m :
  from_value v = Some m -> extras_value v = true /\ size_fits (project m) = true.
Proof.
  unfold S.from_value. destruct (depth v <=? max_depth) eqn:Hd; [|discriminate]. cbn [andb].
  destruct (S.skipped_i64 v) eqn:Hs; [|discriminate]. intros Ht.
  destruct (typed_value_sound v m Ht Hs) as (_ & d & i & -> & Ei & Hc). split.
  - unfold Verify.extras_value. rewrite Ei. unfold x_depth, x_skipped_i64. rewrite Hd, Hs, Hc. reflexivity.
  - rewrite size_fits_project. destruct (SummaryProofs.typed_inv _ _ _ _ Ht) as (d' & i' & _ & _ & _ & _ & _ & _ & _ & _ & _ & _ & _ & _ & _ & _ & _ & Fit).
    exact Fit.
Qed.

Theorem from_value_complete v t :
  load_value v = Some t -> extras_value v = true -> size_fits t = true ->
  exists m, from_value v = Some m /\ project m = t.
Proof.
  intros Hl Hx Hfit. unfold Verify.extras_value in Hx. destruct v as [| | |d]; try discriminate.
  destruct (dlookup K_info d) as [iv|] eqn:Ei; [|discriminate]. destruct iv as [| | |i]; try discriminate.
  apply andb_prop in Hx. destruct Hx as [Hx Hc]. apply andb_prop in Hx. destruct Hx as [Hd Hs].
  unfold x_depth in Hd. unfold x_skipped_i64 in Hs.
  cbn [load_value] in Hl. rewrite Ei in Hl. rewrite dlookup_lookup in Ei. change K_info with S.k_info in Ei.
  destruct (skipped_mode_keys d i Hs Ei) as [Hlen Hfiles].
  unfold Verify.typed_checks in Hc.
  repeat match type of Hc with (_ && _ = true) => let H := fresh "C" in apply andb_prop in Hc; destruct Hc as [Hc H] end.
  unfold x_top_keys_utf8 in Hc. unfold x_announce in C10. unfold x_announce_list in C9. unfold x_comment in C8.
  unfold x_created_by in C7. unfold x_creation_date in C6. unfold x_encoding in C5. unfold x_nodes in C4.
  unfold x_info_keys_utf8 in C3. unfold x_private in C2. unfold x_piece_length_u64 in C1. unfold x_source in C0.
  unfold x_update_url in C.
  apply is_some_true in C10, C9, C8, C7, C6, C5, C4, C2, C1, C0, C.
  destruct C10 as [x1 Q1]. destruct C9 as [x2 Q2]. destruct C8 as [x3 Q3]. destruct C7 as [x4 Q4].
  destruct C6 as [x5 Q5]. destruct C5 as [x6 Q6]. destruct C4 as [x7 Q7]. destruct C2 as [y1 Q9].
  destruct C1 as [y2 Q10]. destruct C0 as [y4 Q12]. destruct C as [y7 Q15].
  (* the projection's own fields *)
  unfold load_info in Hl. rewrite (dlookup_lookup K_name i), (dlookup_lookup K_piece_length i), (dlookup_lookup K_pieces i) in Hl.
  change K_name with S.k_name in Hl. change K_piece_length with S.k_piece_length in Hl. change K_pieces with S.k_pieces in Hl.
  destruct (S.lookup S.k_name i) as [nv|] eqn:En; [|discriminate].
  destruct (S.lookup S.k_piece_length i) as [plv|] eqn:Epl; [|discriminate].
  destruct (S.lookup S.k_pieces i) as [pv|] eqn:Ep; [|discriminate].
  rewrite load_string_eq, load_pieces_eq, (load_mode_eq i Hlen Hfiles) in Hl.
  destruct (S.as_string nv) as [nm|] eqn:Enm; [|discriminate].
  destruct (load_u64 plv) as [pl|] eqn:Eplv; [|discriminate].
  destruct (S.as_pieces pv) as [ps|] eqn:Eps; [|discriminate]. cbn [option_map] in Hl.
  destruct (S.as_mode i) as [md|] eqn:Emd; [|discriminate]. cbn [option_map] in Hl.
  inversion Hl; subst t; clear Hl.
  assert (Hy2 : y2 = pl).
  { unfold S.req in Q10. rewrite Epl in Q10. apply as_uint_load in Q10. congruence. }
  subst y2.
  assert (Hfit' : S.content_size_fits md = true).
  { unfold size_fits in Hfit. cbn [tmode] in Hfit. destruct md as [n m5|fs]; [reflexivity|].
    cbn [project_mode] in Hfit. cbn [S.content_size_fits]. rewrite map_map in Hfit. cbn [project_file flen] in Hfit.
    destruct (S.checked_sum 0 (map S.f_length fs)); [reflexivity|discriminate]. }
  eexists. split.
  - unfold S.from_value. rewrite Hd, Hs. cbn [andb]. unfold S.typed_of_value.
    rewrite Hc, Q1, Q2, Q3, Q4, Q5, Q6, Q7, Ei, C3, Q9, Q10. unfold S.req. rewrite En, Enm, Q12, Ep, Eps, Emd, Q15, Hfit'.
    reflexivity.
  - reflexivity.
Qed.

Theorem typed_exact_value v t :
  load_value v = Some t ->
  ((exists m, from_value v = Some m /\ project m = t) <-> extras_value v = true /\ size_fits t = true).
Proof.
  intros Hl. split.
  - intros (m & Hf & <-). exact (from_value_extras v m Hf).
  - intros [Hx Hs]. exact (from_value_complete v t Hl Hx Hs).
Qed.

Theorem typed_exact tb t :
  load_typed tb = Some t <-> load tb = Some t /\ extras tb = true /\ size_fits t = true.
Proof.
  unfold Verify.load_typed, S.from_input, load, Verify.extras.
  destruct (wdecode (fuel_for tb) tb) as [[v r]|]; [|split; [discriminate|intros [? _]; discriminate]].
  split.
  - destruct (from_value v) as [m|] eqn:Ef; [|discriminate]. intros H; inversion H; subst.
    split; [exact (loaders_agree v m Ef)|]. exact (from_value_extras v m Ef).
  - intros (Hl & Hx & Hs). destruct (from_value_complete v t Hl Hx Hs) as (m & -> & <-). reflexivity.
Qed.

(** the typed loader never hands the verifier a component that is not a plain name *)
Corollary load_typed_value_refused tb v r :
  wdecode (fuel_for tb) tb = Some (v, r) -> extras_value v = false -> load_typed tb = None.
Proof.
  intros Hw Hx. destruct (load_typed tb) as [t|] eqn:E; [|reflexivity].
  apply typed_exact in E. destruct E as (_ & He & _). unfold Verify.extras in He. rewrite Hw in He. congruence.
Qed.

(** ** one lemma per refused class: a torrent whose info dictionary may be perfectly fine is refused when ... *)
Lemma refused_generic v : extras_value v = false -> from_value v = None.
Proof. intros Hx. destruct (from_value v) as [m|] eqn:E; [|reflexivity]. apply from_value_extras in E. destruct E; congruence. Qed.

Ltac refuse :=
  intros Ei Hc; apply refused_generic; unfold Verify.extras_value; rewrite Ei; unfold Verify.typed_checks;
  rewrite Hc, ?andb_false_r; reflexivity.

Lemma refused_deep d i : dlookup K_info d = Some (Dict i) -> x_depth (Dict d) = false -> from_value (Dict d) = None.
Proof. refuse. Qed.
Lemma refused_skipped_integer d i : dlookup K_info d = Some (Dict i) -> x_skipped_i64 (Dict d) = false -> from_value (Dict d) = None.
Proof. refuse. Qed.
Lemma refused_top_key_not_utf8 d i : dlookup K_info d = Some (Dict i) -> x_top_keys_utf8 d = false -> from_value (Dict d) = None.
Proof. refuse. Qed.
Lemma refused_announce d i : dlookup K_info d = Some (Dict i) -> x_announce d = false -> from_value (Dict d) = None.
Proof. refuse. Qed.
Lemma refused_announce_list d i : dlookup K_info d = Some (Dict i) -> x_announce_list d = false -> from_value (Dict d) = None.
Proof. refuse. Qed.
Lemma refused_comment d i : dlookup K_info d = Some (Dict i) -> x_comment d = false -> from_value (Dict d) = None.
Proof. refuse. Qed.
Lemma refused_created_by d i : dlookup K_info d = Some (Dict i) -> x_created_by d = false -> from_value (Dict d) = None.
Proof. refuse. Qed.
Lemma refused_creation_date d i : dlookup K_info d = Some (Dict i) -> x_creation_date d = false -> from_value (Dict d) = None.
Proof. refuse. Qed.
Lemma refused_encoding d i : dlookup K_info d = Some (Dict i) -> x_encoding d = false -> from_value (Dict d) = None.
Proof. refuse. Qed.
Lemma refused_nodes d i : dlookup K_info d = Some (Dict i) -> x_nodes host_disp d = false -> from_value (Dict d) = None.
Proof. refuse. Qed.
Lemma refused_info_key_not_utf8 d i : dlookup K_info d = Some (Dict i) -> x_info_keys_utf8 i = false -> from_value (Dict d) = None.
Proof. refuse. Qed.
Lemma refused_private d i : dlookup K_info d = Some (Dict i) -> x_private i = false -> from_value (Dict d) = None.
Proof. refuse. Qed.
Lemma refused_piece_length_u64 d i : dlookup K_info d = Some (Dict i) -> x_piece_length_u64 i = false -> from_value (Dict d) = None.
Proof. refuse. Qed.
Lemma refused_source d i : dlookup K_info d = Some (Dict i) -> x_source i = false -> from_value (Dict d) = None.
Proof. refuse. Qed.
Lemma refused_update_url d i : dlookup K_info d = Some (Dict i) -> x_update_url url_norm i = false -> from_value (Dict d) = None.
Proof. refuse. Qed.
Lemma refused_content_size v t : load_value v = Some t -> size_fits t = false -> from_value v = None.
Proof.
  intros Hl Hs. destruct (from_value v) as [m|] eqn:E; [|reflexivity].
  pose proof (loaders_agree v m E) as Hl'. apply from_value_extras in E. destruct E as [_ E].
  rewrite Hl in Hl'. inversion Hl'; subst. congruence.
Qed.

End Loaders.
