(** Proofs about Model/Utf8.v (String::from_utf8_lossy), for all byte strings. *)
From Coq Require Import NArith Lia Bool List ZifyN ZifyBool.
From Imdl Require Import Model.Bencode Model.Utf8.
Import ListNotations.
Local Open Scope N_scope.

(* ------------------------------------------------------------------ the bytes one iteration consumes *)

Lemma after_skipn c r : after c r = skipn (extra c) r.
Proof. destruct c; destruct r as [|b1 [|b2 [|b3 r]]]; reflexivity. Qed.

Lemma taken_after c r : taken c r ++ after c r = r.
Proof. rewrite after_skipn. apply firstn_skipn. Qed.

Lemma safe_get_overflow r i : (length r <= i)%nat -> safe_get r i = 0.
Proof. apply nth_overflow. Qed.

Lemma cont_get r i : cont (safe_get r i) = true -> (i < length r)%nat.
Proof.
  intros H. destruct (PeanoNat.Nat.lt_ge_cases i (length r)) as [L|L]; [exact L|].
  rewrite safe_get_overflow in H by exact L. discriminate.
Qed.

Lemma second3_zero b0 : second3 b0 0 = false.
Proof. unfold second3, between. cbn. rewrite !andb_false_r. reflexivity. Qed.

Lemma second4_zero b0 : second4 b0 0 = false.
Proof. unfold second4, between. cbn. rewrite !andb_false_r. reflexivity. Qed.

Lemma second3_get b0 r i : second3 b0 (safe_get r i) = true -> (i < length r)%nat.
Proof.
  intros H. destruct (PeanoNat.Nat.lt_ge_cases i (length r)) as [L|L]; [exact L|].
  rewrite safe_get_overflow, second3_zero in H by exact L. discriminate.
Qed.

Lemma second4_get b0 r i : second4 b0 (safe_get r i) = true -> (i < length r)%nat.
Proof.
  intros H. destruct (PeanoNat.Nat.lt_ge_cases i (length r)) as [L|L]; [exact L|].
  rewrite safe_get_overflow, second4_zero in H by exact L. discriminate.
Qed.

(** a well-formed sequence: lead byte, its continuation bytes, and the `i` the loop reaches *)
Definition wf_seq (b0 : byte) (x : bytes) (c : upto) : Prop :=
  match c, x with
  | I1, [] => b0 < 128
  | I2, [b1] => 128 <= b0 /\ width b0 = 2 /\ cont b1 = true
  | I3, [b1; b2] => 128 <= b0 /\ width b0 = 3 /\ second3 b0 b1 = true /\ cont b2 = true
  | I4, [b1; b2; b3] => 128 <= b0 /\ width b0 = 4 /\ second4 b0 b1 = true /\ cont b2 = true /\ cont b3 = true
  | _, _ => False
  end.

Lemma wf_seq_length b0 x c : wf_seq b0 x c -> length x = extra c.
Proof. destruct c; destruct x as [|b1 [|b2 [|b3 [|b4 x]]]]; cbn; tauto. Qed.

(** the loop body accepts exactly when the input starts with a well-formed sequence *)
Lemma scan1_true b0 r c : scan1 b0 r = (true, c) -> exists x t, r = x ++ t /\ wf_seq b0 x c.
Proof.
  unfold scan1. destruct (N.ltb_spec b0 128) as [L|L].
  { intros E. inversion E; subst. exists [], r. split; [reflexivity|exact L]. }
  destruct (N.eqb_spec (width b0) 2) as [W2|W2].
  { destruct (cont (safe_get r 0)) eqn:C0; intros E; inversion E; subst.
    pose proof (cont_get _ _ C0) as L0. destruct r as [|b1 r]; [cbn in L0; lia|].
    exists [b1], r. split; [reflexivity|]. cbn in C0. cbn. auto. }
  destruct (N.eqb_spec (width b0) 3) as [W3|W3].
  { destruct (second3 b0 (safe_get r 0)) eqn:S0; [|intros E; inversion E].
    destruct (cont (safe_get r 1)) eqn:C1; intros E; inversion E; subst.
    pose proof (cont_get _ _ C1) as L1. destruct r as [|b1 [|b2 r]]; cbn in L1; try lia.
    exists [b1; b2], r. split; [reflexivity|]. cbn in S0, C1. cbn. auto. }
  destruct (N.eqb_spec (width b0) 4) as [W4|W4]; [|intros E; inversion E].
  destruct (second4 b0 (safe_get r 0)) eqn:S0; [|intros E; inversion E].
  destruct (cont (safe_get r 1)) eqn:C1; [|intros E; inversion E].
  destruct (cont (safe_get r 2)) eqn:C2; intros E; inversion E; subst.
  pose proof (cont_get _ _ C2) as L2. destruct r as [|b1 [|b2 [|b3 r]]]; cbn in L2; try lia.
  exists [b1; b2; b3], r. split; [reflexivity|]. cbn in S0, C1, C2. cbn. auto.
Qed.

Lemma width_ascii b0 : b0 < 128 -> width b0 = 1.
Proof. intros H. unfold width. destruct (N.ltb_spec b0 128); [reflexivity|lia]. Qed.

Lemma scan1_wf b0 x t c : wf_seq b0 x c -> scan1 b0 (x ++ t) = (true, c).
Proof.
  unfold scan1. destruct c; destruct x as [|b1 [|b2 [|b3 [|b4 x]]]]; cbn [wf_seq]; try tauto.
  - intros H. destruct (N.ltb_spec b0 128); [reflexivity|lia].
  - intros (L & W & C1). destruct (N.ltb_spec b0 128); [lia|]. rewrite W. cbn [N.eqb Pos.eqb app safe_get nth].
    rewrite C1. reflexivity.
  - intros (L & W & S1 & C2). destruct (N.ltb_spec b0 128); [lia|]. rewrite W. cbn [N.eqb Pos.eqb app safe_get nth].
    rewrite S1, C2. reflexivity.
  - intros (L & W & S1 & C2 & C3). destruct (N.ltb_spec b0 128); [lia|]. rewrite W. cbn [N.eqb Pos.eqb app safe_get nth].
    rewrite S1, C2, C3. reflexivity.
Qed.

Lemma taken_wf b0 x t c : wf_seq b0 x c -> taken c (x ++ t) = x.
Proof.
  intros H. unfold taken. rewrite <- (wf_seq_length _ _ _ H). rewrite firstn_app, PeanoNat.Nat.sub_diag, firstn_all.
  cbn [firstn]. apply app_nil_r.
Qed.

Lemma after_wf b0 x t c : wf_seq b0 x c -> after c (x ++ t) = t.
Proof.
  intros H. rewrite after_skipn, <- (wf_seq_length _ _ _ H). rewrite skipn_app, PeanoNat.Nat.sub_diag, skipn_all.
  reflexivity.
Qed.

(** when the loop body breaks: at most three bytes were inspected and accepted, and they exist *)
Lemma scan1_false b0 r c : scan1 b0 r = (false, c) -> c <> I4 /\ (extra c <= length r)%nat.
Proof.
  unfold scan1. destruct (b0 <? 128); [discriminate|].
  destruct (width b0 =? 2).
  { destruct (cont (safe_get r 0)); intros E; inversion E; subst. split; [discriminate|cbn; lia]. }
  destruct (width b0 =? 3).
  { destruct (second3 b0 (safe_get r 0)) eqn:S0.
    - destruct (cont (safe_get r 1)); intros E; inversion E; subst. split; [discriminate|].
      apply second3_get in S0. cbn. lia.
    - intros E; inversion E; subst. split; [discriminate|cbn; lia]. }
  destruct (width b0 =? 4); [|intros E; inversion E; subst; split; [discriminate|cbn; lia]].
  destruct (second4 b0 (safe_get r 0)) eqn:S0; [|intros E; inversion E; subst; split; [discriminate|cbn; lia]].
  apply second4_get in S0.
  destruct (cont (safe_get r 1)) eqn:C1; [|intros E; inversion E; subst; split; [discriminate|cbn; lia]].
  apply cont_get in C1.
  destruct (cont (safe_get r 2)); intros E; inversion E; subst. split; [discriminate|cbn; lia].
Qed.

Lemma scan1_extra b0 r ok c : scan1 b0 r = (ok, c) -> (extra c <= length r)%nat.
Proof.
  destruct ok; intros E.
  - destruct (scan1_true _ _ _ E) as (x & t & -> & W). rewrite app_length, (wf_seq_length _ _ _ W). lia.
  - apply (scan1_false _ _ _ E).
Qed.

Lemma length_taken b0 r ok c : scan1 b0 r = (ok, c) -> length (taken c r) = extra c.
Proof. intros E. unfold taken. apply firstn_length_le, (scan1_extra _ _ _ _ E). Qed.

Lemma length_after b0 r ok c : scan1 b0 r = (ok, c) -> length r = (extra c + length (after c r))%nat.
Proof.
  intros E. rewrite <- (taken_after c r) at 1. rewrite app_length, (length_taken _ _ _ _ E). reflexivity.
Qed.

(** induction along the scan *)
Lemma scan_ind (P : bytes -> Prop) :
  P [] -> (forall b0 r, P (after (snd (scan1 b0 r)) r) -> P (b0 :: r)) -> forall s, P s.
Proof.
  intros H0 Hs s. remember (length s) as n eqn:En. revert s En.
  induction n as [n IH] using (well_founded_induction Wf_nat.lt_wf). intros s En.
  destruct s as [|b0 r]; [exact H0|]. apply Hs.
  destruct (scan1 b0 r) as [ok c] eqn:E. cbn [snd].
  apply (IH (length (after c r))); [|reflexivity].
  subst n. cbn [length]. rewrite (length_after _ _ _ _ E). lia.
Qed.

(* ------------------------------------------------------------------ a sequence followed by anything *)

(** reading one accepted sequence off the front *)
Lemma scan1_split b0 r c : scan1 b0 r = (true, c) ->
  forall t, scan1 b0 (taken c r ++ t) = (true, c) /\ taken c (taken c r ++ t) = taken c r /\ after c (taken c r ++ t) = t.
Proof.
  intros E t. destruct (scan1_true _ _ _ E) as (x & u & -> & W).
  rewrite (taken_wf _ _ _ _ W). split; [apply scan1_wf; exact W|]. split; [apply (taken_wf _ _ _ _ W)|apply (after_wf _ _ _ _ W)].
Qed.

(** an accepted sequence is accepted whatever is appended to the input *)
Lemma scan1_app b0 r c : scan1 b0 r = (true, c) ->
  forall t, scan1 b0 (r ++ t) = (true, c) /\ taken c (r ++ t) = taken c r /\ after c (r ++ t) = after c r ++ t.
Proof.
  intros E t. destruct (scan1_true _ _ _ E) as (x & u & -> & W). rewrite <- app_assoc.
  rewrite !(taken_wf _ _ _ _ W), !(after_wf _ _ _ _ W). split; [apply scan1_wf; exact W|]. split; reflexivity.
Qed.

Lemma lossy_cons_good b0 r c t : scan1 b0 r = (true, c) ->
  lossy ((b0 :: taken c r) ++ t) = (b0 :: taken c r) ++ lossy t.
Proof.
  intros E. destruct (scan1_split _ _ _ E t) as (E1 & E2 & E3).
  cbn [app lossy]. rewrite E1, E2, E3. reflexivity.
Qed.

Lemma valid_cons_good b0 r c t : scan1 b0 r = (true, c) ->
  utf8_valid ((b0 :: taken c r) ++ t) = utf8_valid t.
Proof.
  intros E. destruct (scan1_split _ _ _ E t) as (E1 & E2 & E3).
  cbn [app utf8_valid]. rewrite E1, E3. reflexivity.
Qed.

Lemma pieces_cons_good b0 r c t : scan1 b0 r = (true, c) ->
  pieces ((b0 :: taken c r) ++ t) = (true, b0 :: taken c r) :: pieces t.
Proof.
  intros E. destruct (scan1_split _ _ _ E t) as (E1 & E2 & E3).
  cbn [app pieces]. rewrite E1, E2, E3. reflexivity.
Qed.

(** U+FFFD is one well-formed sequence *)
Lemma lossy_repl t : lossy (repl ++ t) = repl ++ lossy t.
Proof. reflexivity. Qed.
Lemma valid_repl t : utf8_valid (repl ++ t) = utf8_valid t.
Proof. reflexivity. Qed.
Lemma pieces_repl t : pieces (repl ++ t) = (true, repl) :: pieces t.
Proof. reflexivity. Qed.

(* ------------------------------------------------------------------ the theorems *)

(** valid UTF-8 is returned unchanged (the Cow::Borrowed case) *)
Theorem lossy_valid s : utf8_valid s = true -> lossy s = s.
Proof.
  induction s as [|b0 r IH] using scan_ind; [reflexivity|].
  cbn [utf8_valid lossy]. destruct (scan1 b0 r) as [ok c] eqn:E. cbn [snd] in IH.
  intros H. apply andb_true_iff in H. destruct H as [-> Hr]. rewrite (IH Hr).
  cbn [app]. rewrite taken_after. reflexivity.
Qed.

(** the result is always valid UTF-8 *)
Theorem valid_lossy s : utf8_valid (lossy s) = true.
Proof.
  induction s as [|b0 r IH] using scan_ind; [reflexivity|].
  cbn [lossy]. destruct (scan1 b0 r) as [ok c] eqn:E. cbn [snd] in IH.
  destruct ok.
  - rewrite (valid_cons_good _ _ _ _ E). exact IH.
  - rewrite valid_repl. exact IH.
Qed.

Theorem lossy_idempotent s : lossy (lossy s) = lossy s.
Proof. apply lossy_valid, valid_lossy. Qed.

(** the conversion changes a byte string exactly when it is not valid UTF-8 *)
Theorem lossy_fixed_iff s : lossy s = s <-> utf8_valid s = true.
Proof.
  split; [|apply lossy_valid]. intros E. rewrite <- E. apply valid_lossy.
Qed.

Corollary lossy_changes_invalid s : utf8_valid s = false -> lossy s <> s.
Proof. intros H E. apply lossy_fixed_iff in E. congruence. Qed.

Definition ascii (s : bytes) : Prop := Forall (fun b => b < 128) s.

Theorem valid_ascii s : ascii s -> utf8_valid s = true.
Proof.
  induction 1 as [|b s Hb Hs IH]; [reflexivity|].
  cbn [utf8_valid]. unfold scan1. destruct (N.ltb_spec b 128); [|lia]. exact IH.
Qed.

Corollary lossy_ascii s : ascii s -> lossy s = s.
Proof. intros H. apply lossy_valid, valid_ascii, H. Qed.

(** a valid prefix is copied and does not influence what follows *)
Theorem lossy_app_valid a b : utf8_valid a = true -> lossy (a ++ b) = a ++ lossy b.
Proof.
  induction a as [|b0 r IH] using scan_ind; [reflexivity|].
  cbn [utf8_valid]. destruct (scan1 b0 r) as [ok c] eqn:E. cbn [snd] in IH.
  intros H. apply andb_true_iff in H. destruct H as [-> Hr].
  destruct (scan1_app _ _ _ E b) as (E1 & E2 & E3).
  cbn [app lossy]. rewrite E1, E2, E3, (IH Hr). rewrite app_comm_cons, app_assoc. cbn [app].
  rewrite taken_after. reflexivity.
Qed.

Theorem valid_app a b : utf8_valid a = true -> utf8_valid (a ++ b) = utf8_valid b.
Proof.
  induction a as [|b0 r IH] using scan_ind; [reflexivity|].
  cbn [utf8_valid]. destruct (scan1 b0 r) as [ok c] eqn:E. cbn [snd] in IH.
  intros H. apply andb_true_iff in H. destruct H as [-> Hr].
  destruct (scan1_app _ _ _ E b) as (E1 & E2 & E3).
  cbn [app utf8_valid]. rewrite E1, E3, (IH Hr). reflexivity.
Qed.

Theorem pieces_app_valid a b : utf8_valid a = true -> pieces (a ++ b) = pieces a ++ pieces b.
Proof.
  induction a as [|b0 r IH] using scan_ind; [reflexivity|].
  cbn [utf8_valid]. destruct (scan1 b0 r) as [ok c] eqn:E. cbn [snd] in IH.
  intros H. apply andb_true_iff in H. destruct H as [-> Hr].
  destruct (scan1_app _ _ _ E b) as (E1 & E2 & E3).
  cbn [app pieces]. rewrite E, E1, E2, E3, (IH Hr). reflexivity.
Qed.

(** the conversion of a concatenation whose first part is valid: both parts separately *)
Corollary lossy_app_valid' a b : utf8_valid a = true -> lossy (a ++ b) = lossy a ++ lossy b.
Proof. intros H. rewrite (lossy_app_valid _ _ H), (lossy_valid _ H). reflexivity. Qed.

(** length: nothing shrinks, nothing grows beyond a factor of three *)
Theorem lossy_length s : (length s <= length (lossy s) <= 3 * length s)%nat.
Proof.
  induction s as [|b0 r IH] using scan_ind; [cbn; lia|].
  cbn [lossy]. destruct (scan1 b0 r) as [ok c] eqn:E. cbn [snd] in IH.
  cbn [length]. rewrite app_length, (length_after _ _ _ _ E).
  destruct ok.
  - cbn [length]. rewrite (length_taken _ _ _ _ E). lia.
  - destruct (scan1_false _ _ _ E) as [N4 _]. change (length repl) with 3%nat. destruct c; cbn [extra]; try lia. congruence.
Qed.

(* ------------------------------------------------------------------ sequence by sequence *)

(** the pieces are a partition of the input ... *)
Theorem pieces_concat s : concat (map snd (pieces s)) = s.
Proof.
  induction s as [|b0 r IH] using scan_ind; [reflexivity|].
  cbn [pieces]. destruct (scan1 b0 r) as [ok c] eqn:E. cbn [snd] in IH.
  cbn [map snd concat]. rewrite IH. cbn [app]. rewrite taken_after. reflexivity.
Qed.

(** ... the conversion renders them one by one ... *)
Theorem lossy_pieces s : lossy s = flat_map render (pieces s).
Proof.
  induction s as [|b0 r IH] using scan_ind; [reflexivity|].
  cbn [pieces lossy]. destruct (scan1 b0 r) as [ok c] eqn:E. cbn [snd] in IH.
  cbn [flat_map]. rewrite IH. reflexivity.
Qed.

Theorem valid_pieces s : utf8_valid s = forallb fst (pieces s).
Proof.
  induction s as [|b0 r IH] using scan_ind; [reflexivity|].
  cbn [pieces utf8_valid]. destruct (scan1 b0 r) as [ok c] eqn:E. cbn [snd] in IH.
  cbn [forallb fst]. rewrite IH. reflexivity.
Qed.

(** ... every well-formed piece has 1 to 4 bytes and is one sequence, every invalid part has 1 to 3 bytes *)
Theorem pieces_shape s : Forall (fun p : bool * bytes => if fst p return Prop then one_sequence (snd p) = true /\ (1 <= length (snd p) <= 4)%nat
                                            else (1 <= length (snd p) <= 3)%nat) (pieces s).
Proof.
  induction s as [|b0 r IH] using scan_ind; [constructor|].
  cbn [pieces]. destruct (scan1 b0 r) as [ok c] eqn:E. cbn [snd] in IH.
  constructor; [|exact IH]. cbn [fst snd length]. rewrite (length_taken _ _ _ _ E). destruct ok.
  - split; [|destruct c; cbn; lia]. cbn [one_sequence].
    destruct (scan1_split _ _ _ E []) as (E1 & E2 & E3). rewrite app_nil_r in E1, E3. rewrite E1, E3. reflexivity.
  - destruct (scan1_false _ _ _ E) as [N4 _]. destruct c; cbn; try lia. congruence.
Qed.

(** ... and the output, read again, consists of the same sequences in the same order with exactly one U+FFFD in the place
    of each invalid part: a replacement never merges with a neighbour, nothing is dropped or added *)
Theorem pieces_lossy s : pieces (lossy s) = map (fun p => (true, render p)) (pieces s).
Proof.
  induction s as [|b0 r IH] using scan_ind; [reflexivity|].
  cbn [pieces lossy]. destruct (scan1 b0 r) as [ok c] eqn:E. cbn [snd] in IH.
  cbn [map]. unfold render at 1. cbn [fst snd]. destruct ok.
  - rewrite (pieces_cons_good _ _ _ _ E), IH. reflexivity.
  - rewrite pieces_repl, IH. reflexivity.
Qed.

(* ------------------------------------------------------------------ the iterator *)

Lemma chunks_flat s : flat_map push_chunk (chunks s) = lossy s.
Proof.
  induction s as [|b0 r IH] using scan_ind; [reflexivity|].
  cbn [chunks lossy]. destruct (scan1 b0 r) as [ok c] eqn:E. cbn [snd] in IH.
  rewrite <- IH. destruct ok.
  - destruct (chunks (after c r)) as [|[v i] cs].
    + cbn [flat_map]. unfold push_chunk. cbn [fst snd nonempty]. rewrite !app_nil_r. reflexivity.
    + cbn [flat_map]. unfold push_chunk at 1 3. cbn [fst snd]. rewrite <- !app_assoc. reflexivity.
  - cbn [flat_map]. unfold push_chunk at 1. cbn [fst snd nonempty app]. reflexivity.
Qed.

(** only the last item of the iterator can have an empty invalid part *)
Lemma chunks_empty_invalid_last s : forall v rest, chunks s = (v, []) :: rest -> rest = [].
Proof.
  induction s as [|b0 r IH] using scan_ind; [discriminate|].
  cbn [chunks]. destruct (scan1 b0 r) as [ok c] eqn:E. cbn [snd] in IH. intros v rest.
  destruct ok; [|discriminate].
  destruct (chunks (after c r)) as [|[v' i] cs].
  - intros H. inversion H. reflexivity.
  - intros H. inversion H; subst. apply (IH v'). reflexivity.
Qed.

(** String::from_utf8_lossy written over Utf8Chunks is the sequence-by-sequence conversion *)
Theorem from_utf8_lossy_eq s : from_utf8_lossy s = lossy s.
Proof.
  rewrite <- chunks_flat. unfold from_utf8_lossy. destruct (chunks s) as [|[v i] rest] eqn:E; [reflexivity|].
  destruct i as [|b i].
  - rewrite (chunks_empty_invalid_last _ _ _ E). cbn [nonempty flat_map]. unfold push_chunk. cbn [fst snd nonempty].
    rewrite !app_nil_r. reflexivity.
  - cbn [nonempty flat_map]. unfold push_chunk at 2. cbn [fst snd nonempty]. rewrite <- app_assoc. reflexivity.
Qed.

(** the valid parts and invalid parts of the items, concatenated, are the input *)
Theorem chunks_concat s : flat_map (fun c => fst c ++ snd c) (chunks s) = s.
Proof.
  induction s as [|b0 r IH] using scan_ind; [reflexivity|].
  cbn [chunks]. destruct (scan1 b0 r) as [ok c] eqn:E. cbn [snd] in IH.
  destruct ok.
  - destruct (chunks (after c r)) as [|[v i] cs]; cbn [flat_map fst snd app] in *.
    + rewrite !app_nil_r. rewrite <- (taken_after c r) at 2. rewrite <- IH, app_nil_r. reflexivity.
    + rewrite <- (taken_after c r) at 2. rewrite <- IH, <- !app_assoc. reflexivity.
  - cbn [flat_map fst snd app]. rewrite IH, taken_after. reflexivity.
Qed.

(** every valid part is valid UTF-8 *)
Theorem chunks_valid s : Forall (fun c => utf8_valid (fst c) = true) (chunks s).
Proof.
  induction s as [|b0 r IH] using scan_ind; [constructor|].
  cbn [chunks]. destruct (scan1 b0 r) as [ok c] eqn:E. cbn [snd] in IH. destruct ok.
  - destruct (chunks (after c r)) as [|[v i] cs].
    + constructor; [|constructor]. cbn [fst]. rewrite <- (app_nil_r (b0 :: taken c r)).
      rewrite (valid_cons_good _ _ _ _ E). reflexivity.
    + inversion IH as [|? ? Hv Hcs]; subst. constructor; [|exact Hcs]. cbn [fst] in *.
      rewrite (valid_cons_good _ _ _ _ E). exact Hv.
  - constructor; [reflexivity|exact IH].
Qed.

(** the invalid parts of the iterator's items are the invalid pieces: one U+FFFD per maximal invalid part *)
Theorem chunks_invalid_parts s : filter nonempty (map snd (chunks s)) = invalid_parts s.
Proof.
  unfold invalid_parts. induction s as [|b0 r IH] using scan_ind; [reflexivity|].
  cbn [chunks pieces]. destruct (scan1 b0 r) as [ok c] eqn:E. cbn [snd] in IH. destruct ok.
  - cbn [filter fst negb]. rewrite <- IH. destruct (chunks (after c r)) as [|[v i] cs]; reflexivity.
  - cbn [filter fst negb map snd nonempty]. rewrite IH. reflexivity.
Qed.

Theorem replacements_count s : replacements s = length (invalid_parts s).
Proof.
  rewrite <- chunks_invalid_parts. unfold replacements.
  induction (chunks s) as [|[v i] cs IH]; [reflexivity|].
  cbn [filter map snd]. destruct (nonempty i); cbn [length]; rewrite IH; reflexivity.
Qed.

(** exact length: every invalid part is exchanged for three bytes *)
Theorem lossy_length_exact s :
  (length (lossy s) + length (concat (invalid_parts s)) = length s + 3 * replacements s)%nat.
Proof.
  rewrite replacements_count. unfold invalid_parts.
  induction s as [|b0 r IH] using scan_ind; [reflexivity|].
  cbn [lossy pieces]. destruct (scan1 b0 r) as [ok c] eqn:E. cbn [snd] in IH.
  cbn [length]. rewrite app_length, (length_after _ _ _ _ E). destruct ok; cbn [filter fst negb map snd concat length].
  - rewrite (length_taken _ _ _ _ E). lia.
  - rewrite app_length. cbn [length]. rewrite (length_taken _ _ _ _ E). change (length repl) with 3%nat. lia.
Qed.

(** U+FFFD characters of the output = those of the input's well-formed sequences + one per invalid part *)
Fixpoint beq (a b : bytes) : bool :=
  match a, b with
  | [], [] => true
  | x :: a', y :: b' => (x =? y) && beq a' b'
  | _, _ => false
  end.
Definition is_fffd (p : bool * bytes) : bool := fst p && beq (snd p) repl.

Theorem fffd_count s :
  length (filter is_fffd (pieces (lossy s))) = (length (filter is_fffd (pieces s)) + replacements s)%nat.
Proof.
  rewrite pieces_lossy, replacements_count. unfold invalid_parts.
  induction (pieces s) as [|[ok x] l IH]; [reflexivity|].
  cbn [map filter]. destruct ok.
  - change (render (true, x)) with x. change (negb (fst (true, x))) with false. cbv iota.
    destruct (is_fffd (true, x)); cbn [length]; rewrite IH; reflexivity.
  - change (render (false, x)) with repl. change (negb (fst (false, x))) with true.
    change (is_fffd (true, repl)) with true. change (is_fffd (false, x)) with false. cbv iota.
    cbn [map snd length]. rewrite IH. lia.
Qed.

(* ------------------------------------------------------------------ invalid parts are maximal subparts *)

Lemma width_cases b :
  (width b = 1 /\ b < 128) \/ (width b = 0 /\ (128 <= b < 194 \/ 245 <= b)) \/
  (width b = 2 /\ 194 <= b < 224) \/ (width b = 3 /\ 224 <= b < 240) \/ (width b = 4 /\ 240 <= b < 245).
Proof.
  unfold width.
  destruct (N.ltb_spec b 128); [lia|]. destruct (N.ltb_spec b 194); [lia|]. destruct (N.ltb_spec b 224); [lia|].
  destruct (N.ltb_spec b 240); [lia|]. destruct (N.ltb_spec b 245); lia.
Qed.

Lemma scan1_w2 b0 r : width b0 = 2 ->
  scan1 b0 r = if cont (safe_get r 0) then (true, I2) else (false, I1).
Proof.
  intros W. unfold scan1. destruct (N.ltb_spec b0 128) as [L|L]; [rewrite (width_ascii _ L) in W; discriminate|].
  rewrite W. reflexivity.
Qed.

Lemma scan1_w3 b0 r : width b0 = 3 ->
  scan1 b0 r = if second3 b0 (safe_get r 0) then if cont (safe_get r 1) then (true, I3) else (false, I2) else (false, I1).
Proof.
  intros W. unfold scan1. destruct (N.ltb_spec b0 128) as [L|L]; [rewrite (width_ascii _ L) in W; discriminate|].
  rewrite W. reflexivity.
Qed.

Lemma scan1_w4 b0 r : width b0 = 4 ->
  scan1 b0 r = if second4 b0 (safe_get r 0)
               then if cont (safe_get r 1) then if cont (safe_get r 2) then (true, I4) else (false, I3) else (false, I2)
               else (false, I1).
Proof.
  intros W. unfold scan1. destruct (N.ltb_spec b0 128) as [L|L]; [rewrite (width_ascii _ L) in W; discriminate|].
  rewrite W. reflexivity.
Qed.

Lemma scan1_w0 b0 r : width b0 = 0 -> scan1 b0 r = (false, I1).
Proof.
  intros W. unfold scan1. destruct (N.ltb_spec b0 128) as [L|L]; [rewrite (width_ascii _ L) in W; discriminate|].
  rewrite W. reflexivity.
Qed.

Lemma one_sequence_broken b0 r : fst (scan1 b0 r) = false -> one_sequence (b0 :: r) = false.
Proof. cbn [one_sequence]. destruct (scan1 b0 r) as [ok c]. cbn [fst]. intros ->. reflexivity. Qed.

(** An invalid part is a maximal subpart (Unicode 3.9): it is a proper initial subsequence of a well-formed sequence - or a
    single byte that starts none - and the byte after it (if any) extends it neither to a longer such subsequence nor to a
    well-formed sequence *)
Theorem invalid_part_maximal b0 r c : scan1 b0 r = (false, c) ->
  (proper_prefix (b0 :: taken c r) = true \/ (c = I1 /\ width b0 = 0)) /\
  forall x t, after c r = x :: t ->
    proper_prefix ((b0 :: taken c r) ++ [x]) = false /\ one_sequence ((b0 :: taken c r) ++ [x]) = false.
Proof.
  destruct (width_cases b0) as [[W L]|[[W L]|[[W L]|[[W L]|[W L]]]]].
  - unfold scan1. destruct (N.ltb_spec b0 128); [discriminate|lia].
  - rewrite (scan1_w0 _ _ W). intros E. inversion E; subst c. cbn [taken extra firstn after app]. split; [right; auto|].
    intros x t ->. split.
    + cbn [proper_prefix]. rewrite W. reflexivity.
    + apply one_sequence_broken. rewrite (scan1_w0 _ _ W). reflexivity.
  - rewrite (scan1_w2 _ _ W). destruct (cont (safe_get r 0)) eqn:C0; intros E; inversion E; subst c.
    cbn [taken extra firstn after app]. split; [left; cbn [proper_prefix]; rewrite W; reflexivity|].
    intros x t ->. cbn [safe_get nth] in C0. split.
    + cbn [proper_prefix]. rewrite W. reflexivity.
    + apply one_sequence_broken. rewrite (scan1_w2 _ _ W). cbn [safe_get nth]. rewrite C0. reflexivity.
  - rewrite (scan1_w3 _ _ W). destruct (second3 b0 (safe_get r 0)) eqn:S0.
    + pose proof (second3_get _ _ _ S0) as L0. destruct r as [|b1 r1]; [cbn in L0; lia|]. cbn [safe_get nth] in *.
      destruct (cont (nth 0 r1 0)) eqn:C1; intros E; inversion E; subst c.
      cbn [taken extra firstn after tail1 app]. split; [left; cbn [proper_prefix]; rewrite W, S0; reflexivity|].
      intros x t ->. cbn [nth] in C1. split.
      * cbn [proper_prefix]. rewrite W. reflexivity.
      * apply one_sequence_broken. rewrite (scan1_w3 _ _ W). cbn [safe_get nth]. rewrite S0, C1. reflexivity.
    + intros E; inversion E; subst c. cbn [taken extra firstn after app].
      split; [left; cbn [proper_prefix]; rewrite W; reflexivity|].
      intros x t ->. cbn [safe_get nth] in S0. split.
      * cbn [proper_prefix]. rewrite W, S0. reflexivity.
      * apply one_sequence_broken. rewrite (scan1_w3 _ _ W). cbn [safe_get nth]. rewrite S0. reflexivity.
  - rewrite (scan1_w4 _ _ W). destruct (second4 b0 (safe_get r 0)) eqn:S0.
    + pose proof (second4_get _ _ _ S0) as L0. destruct r as [|b1 r1]; [cbn in L0; lia|]. cbn [safe_get nth] in *.
      destruct (cont (nth 0 r1 0)) eqn:C1.
      * pose proof (cont_get r1 0 C1) as L1. destruct r1 as [|b2 r2]; [cbn in L1; lia|]. cbn [nth] in *.
        destruct (cont (nth 0 r2 0)) eqn:C2; intros E; inversion E; subst c.
        cbn [taken extra firstn after tail1 app]. split; [left; cbn [proper_prefix]; rewrite W, S0, C1; reflexivity|].
        intros x t ->. cbn [nth] in C2. split; [reflexivity|].
        apply one_sequence_broken. rewrite (scan1_w4 _ _ W). cbn [safe_get nth]. rewrite S0, C1, C2. reflexivity.
      * intros E; inversion E; subst c. cbn [taken extra firstn after tail1 app].
        split; [left; cbn [proper_prefix]; rewrite W, S0; reflexivity|].
        intros x t ->. cbn [nth] in C1. split.
        -- cbn [proper_prefix]. rewrite W, S0, C1. reflexivity.
        -- apply one_sequence_broken. rewrite (scan1_w4 _ _ W). cbn [safe_get nth]. rewrite S0, C1. reflexivity.
    + intros E; inversion E; subst c. cbn [taken extra firstn after app].
      split; [left; cbn [proper_prefix]; rewrite W; reflexivity|].
      intros x t ->. cbn [safe_get nth] in S0. split.
      * cbn [proper_prefix]. rewrite W, S0. reflexivity.
      * apply one_sequence_broken. rewrite (scan1_w4 _ _ W). cbn [safe_get nth]. rewrite S0. reflexivity.
Qed.

(** [one_sequence] and [proper_prefix] mean what their names say *)
Lemma pieces_nil s : pieces s = [] -> s = [].
Proof. destruct s as [|b0 r]; [reflexivity|]. cbn [pieces]. destruct (scan1 b0 r). discriminate. Qed.

Theorem one_sequence_spec p : one_sequence p = true <-> pieces p = [(true, p)].
Proof.
  destruct p as [|b0 r]; [split; discriminate|]. cbn [one_sequence pieces].
  destruct (scan1 b0 r) as [ok c] eqn:E. split.
  - intros H. apply andb_true_iff in H. destruct H as [-> H]. destruct (after c r) as [|y u] eqn:A; [|discriminate].
    pose proof (taken_after c r) as T. rewrite A, app_nil_r in T. rewrite T. reflexivity.
  - intros H. inversion H as [[H1 H2 H3]]. apply pieces_nil in H3. rewrite H3. reflexivity.
Qed.

Corollary one_sequence_valid p : one_sequence p = true -> utf8_valid p = true.
Proof. intros H. apply one_sequence_spec in H. rewrite valid_pieces, H. reflexivity. Qed.

Definition fill3 (b0 : byte) : byte := if b0 =? 224 then 160 else 128.
Definition fill4 (b0 : byte) : byte := if b0 =? 240 then 144 else 128.

Lemma second3_fill b0 : width b0 = 3 -> second3 b0 (fill3 b0) = true.
Proof.
  intros W. destruct (width_cases b0) as [[W' L]|[[W' L]|[[W' L]|[[W' L]|[W' L]]]]]; try congruence.
  unfold fill3, second3, between. destruct (N.eqb_spec b0 224) as [->|N]; [reflexivity|].
  destruct (N.eqb_spec b0 237) as [->|N']; [reflexivity|]. lia.
Qed.

Lemma second4_fill b0 : width b0 = 4 -> second4 b0 (fill4 b0) = true.
Proof.
  intros W. destruct (width_cases b0) as [[W' L]|[[W' L]|[[W' L]|[[W' L]|[W' L]]]]]; try congruence.
  unfold fill4, second4, between. destruct (N.eqb_spec b0 240) as [->|N]; [reflexivity|].
  destruct (N.eqb_spec b0 244) as [->|N']; [reflexivity|]. lia.
Qed.

Theorem proper_prefix_spec p :
  proper_prefix p = true <-> p <> [] /\ exists t, t <> [] /\ one_sequence (p ++ t) = true.
Proof.
  split.
  - destruct p as [|b0 [|b1 [|b2 [|b3 p]]]]; cbn [proper_prefix]; try discriminate; intros H; (split; [discriminate|]).
    + destruct (width_cases b0) as [[W L]|[[W L]|[[W L]|[[W L]|[W L]]]]]; rewrite W in H; try discriminate.
      * exists [128]. split; [discriminate|]. cbn [app one_sequence]. rewrite (scan1_w2 _ _ W). reflexivity.
      * exists [fill3 b0; 128]. split; [discriminate|]. cbn [app one_sequence]. rewrite (scan1_w3 _ _ W).
        cbn [safe_get nth]. rewrite (second3_fill _ W). reflexivity.
      * exists [fill4 b0; 128; 128]. split; [discriminate|]. cbn [app one_sequence]. rewrite (scan1_w4 _ _ W).
        cbn [safe_get nth]. rewrite (second4_fill _ W). reflexivity.
    + apply orb_true_iff in H. destruct H as [H|H]; apply andb_true_iff in H; destruct H as [W S]; apply N.eqb_eq in W.
      * exists [128]. split; [discriminate|]. cbn [app one_sequence]. rewrite (scan1_w3 _ _ W). cbn [safe_get nth]. rewrite S. reflexivity.
      * exists [128; 128]. split; [discriminate|]. cbn [app one_sequence]. rewrite (scan1_w4 _ _ W). cbn [safe_get nth]. rewrite S. reflexivity.
    + apply andb_true_iff in H. destruct H as [H C]. apply andb_true_iff in H. destruct H as [W S]. apply N.eqb_eq in W.
      exists [128]. split; [discriminate|]. cbn [app one_sequence]. rewrite (scan1_w4 _ _ W). cbn [safe_get nth]. rewrite S, C. reflexivity.
  - intros (Hne & t & Ht & H). destruct p as [|b0 p']; [congruence|]. cbn [app one_sequence] in H.
    destruct (scan1 b0 (p' ++ t)) as [ok c] eqn:E. apply andb_true_iff in H. destruct H as [-> H].
    destruct (after c (p' ++ t)) as [|y u] eqn:A; [|discriminate].
    destruct (scan1_true _ _ _ E) as (x & u & Ex & W). rewrite Ex, (after_wf _ _ _ _ W) in A. subst u.
    rewrite app_nil_r in Ex.
    destruct c; destruct x as [|x1 [|x2 [|x3 [|x4 x]]]]; cbn [wf_seq] in W; try tauto;
      destruct p' as [|p1 [|p2 [|p3 [|p4 p']]]]; destruct t as [|t1 [|t2 [|t3 [|t4 t]]]]; try congruence; try discriminate;
      cbn [app] in Ex; inversion Ex; subst; cbn [proper_prefix].
    + destruct W as (_ & -> & _). reflexivity.
    + destruct W as (_ & -> & _). reflexivity.
    + destruct W as (_ & -> & -> & _). reflexivity.
    + destruct W as (_ & -> & _). reflexivity.
    + destruct W as (_ & -> & -> & _). reflexivity.
    + destruct W as (_ & -> & -> & -> & _). reflexivity.
Qed.
