(** C11 (X16) - proofs about Model/InfoRoundTrip.v, for ALL byte strings:
      [normal_fixed]        typed_normal d = true -> info_norm ext d = Some d                      (a)
      [norm_normal]         info_norm ext d = Some e -> (everything but the url text of e is normal; and when the
                            `update-url` of d is inside the url fragment:) typed_normal e = true and
                            info_norm ext e = Some e                                                  (b)
      [typed_normal_iff]    inside the fragment, typed_normal d = true <-> info_norm ext d = Some d
      [norm_canonical]      info_norm ext d = Some e -> e is the encoding of a value with strictly increasing keys
                            that the wide reader reads back with nothing left over; the STRICT reader of
                            Model/Bencode.v reads it back iff `piece length` < 2^63 ([norm_strict],
                            [norm_strict_refuted])                                                   (c)
      [info_serde_value]    the writer is bendy's struct serializer (Model/Schema.v) on Info's field list
    The create side (d) and the known class (e) are in Proofs/InfoRoundTripCreate.v. *)
From Coq Require Import Decimal DecimalN DecimalFacts.
From Coq Require Import NArith ZArith Bool List Lia ZifyN ZifyBool.
From Imdl Require Import Model.Bencode Model.BencodeWide Model.Summary Model.HostPort Model.UrlHost Model.UrlNorm
  Model.InfoRoundTrip Proofs.BencodeProofs Proofs.InfoRoundTripWide Proofs.UrlNormProofs.
From Imdl Require Model.Schema Proofs.SchemaProofs Proofs.PeerProofs Model.Peer Proofs.LoaderProofs.
Import ListNotations.
Local Open Scope N_scope.

(* ------------------------------------------------------------------ bytes, lookups, positional reading *)
Lemma beq_iff a : forall b, bytes_eqb a b = true <-> a = b.
Proof.
  induction a as [|x a IH]; intros [|y b]; cbn [bytes_eqb]; split; intros H; try reflexivity; try discriminate.
  - apply andb_prop in H. destruct H as [Hx Hr]. apply N.eqb_eq in Hx. apply IH in Hr. subst. reflexivity.
  - inversion H; subst. rewrite N.eqb_refl. cbn [andb]. apply IH. reflexivity.
Qed.

Lemma beq_refl a : bytes_eqb a a = true.
Proof. apply beq_iff. reflexivity. Qed.

Lemma lookup_hd k v r : lookup k ((k, v) :: r) = Some v.
Proof. unfold lookup. cbn [find fst]. rewrite beq_refl. reflexivity. Qed.

Lemma lookup_tl k k' v r : bytes_eqb k' k = false -> lookup k ((k', v) :: r) = lookup k r.
Proof. intros H. unfold lookup. cbn [find fst]. rewrite H. reflexivity. Qed.

Lemma lookup_nil k : lookup k [] = None.
Proof. reflexivity. Qed.

Ltac lk := repeat first [rewrite lookup_hd | rewrite lookup_tl by reflexivity | rewrite lookup_nil].

Lemma take_key_spec k d o r : take_key k d = (o, r) -> d = opt_entry k o ++ r.
Proof.
  destruct d as [|[k' v] r']; cbn [take_key].
  - intros H; inversion H; subst. reflexivity.
  - destruct (bytes_eqb k' k) eqn:E; intros H; inversion H; subst; [|reflexivity].
    apply beq_iff in E. subst k'. reflexivity.
Qed.

Lemma take_key_hit k v r : take_key k ((k, v) :: r) = (Some v, r).
Proof. cbn [take_key]. rewrite beq_refl. reflexivity. Qed.

Lemma take_key_miss k k' v r : bytes_eqb k' k = false -> take_key k ((k', v) :: r) = (None, (k', v) :: r).
Proof. intros H. cbn [take_key]. rewrite H. reflexivity. Qed.

Lemma take_key_nil k : take_key k [] = (None, []).
Proof. reflexivity. Qed.

Ltac tk := repeat (first [rewrite take_key_hit | rewrite take_key_miss by reflexivity | rewrite take_key_nil]; cbv iota beta).

(* ------------------------------------------------------------------ the single-value readers against the normal spellings *)
Lemma ascii_utf8 s : forallb (fun b => b <? 128) s = true -> utf8_valid s = true.
Proof.
  induction s as [|b r IH]; [reflexivity|]. cbn [forallb]. intros H. apply andb_prop in H. destruct H as [Hb Hr].
  cbn [utf8_valid]. rewrite Hb. exact (IH Hr).
Qed.

Lemma hex_ascii s : forallb is_hex s = true -> forallb (fun b => b <? 128) s = true.
Proof.
  apply forallb_imp. intros b Hb. unfold is_hex, inr in Hb. lia.
Qed.

Lemma lower_is_hex b : is_lower_hex b = true -> is_hex b = true.
Proof. unfold is_lower_hex, is_hex, inr. lia. Qed.

Lemma lower_hex_fixed b : is_lower_hex b = true -> lower_hex b = b.
Proof. unfold is_lower_hex, lower_hex, inr. intros H. replace ((65 <=? b) && (b <=? 70)) with false by lia. reflexivity. Qed.

Lemma lower_hex_lower b : is_hex b = true -> is_lower_hex (lower_hex b) = true.
Proof.
  unfold is_lower_hex, lower_hex, is_hex, inr. intros H.
  destruct ((65 <=? b) && (b <=? 70)) eqn:E; lia.
Qed.

Lemma map_lower_fixed s : forallb is_lower_hex s = true -> map lower_hex s = s.
Proof.
  induction s as [|b r IH]; [reflexivity|]. cbn [forallb map]. intros H. apply andb_prop in H. destruct H as [Hb Hr].
  rewrite (lower_hex_fixed b Hb), (IH Hr). reflexivity.
Qed.

Lemma map_lower_lower s : forallb is_hex s = true -> forallb is_lower_hex (map lower_hex s) = true.
Proof.
  induction s as [|b r IH]; [reflexivity|]. cbn [forallb map]. intros H. apply andb_prop in H. destruct H as [Hb Hr].
  rewrite (lower_hex_lower b Hb), (IH Hr). reflexivity.
Qed.

Lemma nv_text_read v : nv_text v = true -> exists s, v = Str s /\ as_string v = Some s /\ utf8_valid s = true.
Proof.
  destruct v as [z|s|l|d]; try discriminate. cbn [nv_text as_string]. intros H. exists s. rewrite H. auto.
Qed.

Lemma nv_uint_read bits v :
  match v with Int z => ((0 <=? z) && (z <? 2 ^ Z.of_N bits))%Z | _ => false end = true ->
  exists n, v = len_value n /\ as_uint bits v = Some n /\ n < 2 ^ bits.
Proof.
  destruct v as [z|s|l|d]; try discriminate. intros H. exists (Z.to_N z). unfold len_value. cbn [as_uint]. rewrite H.
  assert (Hz : (0 <= z < 2 ^ Z.of_N bits)%Z) by lia.
  rewrite Z2N.id by lia. repeat split.
  apply N2Z.inj_lt. rewrite Z2N.id by lia. rewrite N2Z.inj_pow. cbn [Z.of_N]. exact (proj2 Hz).
Qed.

Lemma nv_len_read v : nv_len v = true -> exists n, v = len_value n /\ as_uint 63 v = Some n /\ n < 2 ^ 63.
Proof. intros H. apply (nv_uint_read 63 v). exact H. Qed.

Lemma nv_u64_read v : nv_u64 v = true -> exists n, v = len_value n /\ as_uint 64 v = Some n /\ n < 2 ^ 64.
Proof. intros H. apply (nv_uint_read 64 v). exact H. Qed.

Lemma nv_bool_read v : nv_bool v = true -> exists b, v = bool_value b /\ as_bool v = Some b.
Proof.
  destruct v as [z|s|l|d]; try discriminate. cbn [nv_bool as_bool]. intros H.
  destruct (z =? 0)%Z eqn:E0.
  - exists false. apply Z.eqb_eq in E0. subst. auto.
  - destruct (z =? 1)%Z eqn:E1; [|discriminate]. exists true. apply Z.eqb_eq in E1. subst. auto.
Qed.

Lemma nv_pieces_read v : nv_pieces v = true ->
  exists s, v = Str s /\ as_pieces v = Some s /\ (N.of_nat (length s) mod 20 =? 0) = true.
Proof.
  destruct v as [z|s|l|d]; try discriminate. cbn [nv_pieces as_pieces]. intros H. exists s. rewrite H. auto.
Qed.

Lemma nv_md5_read v : nv_md5 v = true ->
  exists s, v = Str (map lower_hex s) /\ as_md5 v = Some s /\ t_md5_ok (Some s) = true.
Proof.
  destruct v as [z|s|l|d]; try discriminate. cbn [nv_md5]. intros H. apply andb_prop in H. destruct H as [Hl Hh].
  assert (Hx : forallb is_hex s = true) by (revert Hh; apply forallb_imp, lower_is_hex).
  exists s. rewrite (map_lower_fixed s Hh). unfold as_md5. cbn [as_string].
  rewrite (ascii_utf8 s (hex_ascii s Hx)). cbn [t_md5_ok]. rewrite Hl, Hx. auto.
Qed.

Lemma nv_md5_opt m : opt_ok nv_md5 m = true ->
  exists m', m = md5_value m' /\ t_md5_ok m' = true /\
             forall d, lookup k_md5sum d = m -> opt as_md5 k_md5sum d = Some m'.
Proof.
  destruct m as [v|]; cbn [opt_ok]; intros H.
  - destruct (nv_md5_read v H) as (s & Hv & Hr & Hok). exists (Some s). cbn [md5_value option_map]. subst v.
    repeat split; [exact Hok|]. intros d Hd. unfold opt. rewrite Hd, Hr. reflexivity.
  - exists None. repeat split. intros d Hd. unfold opt. rewrite Hd. reflexivity.
Qed.

Lemma nv_path_read v : nv_path v = true ->
  exists p, v = Lst (map Str p) /\ as_path v = Some p /\
            forallb (fun c => utf8_valid c && normal_component c) p = true.
Proof.
  destruct v as [z|s|l|d]; try discriminate. cbn [nv_path]. unfold as_path, as_list.
  induction l as [|x r IH]; cbn [forallb map_opt]; intros H.
  - exists []. auto.
  - apply andb_prop in H. destruct H as [Hx Hr]. destruct (IH Hr) as (p & Hp & Hm & Hok).
    destruct x as [z|s|l|d]; try discriminate. cbn [nv_component] in Hx. apply andb_prop in Hx. destruct Hx as [Hu Hn].
    exists (s :: p). unfold as_component at 1. cbn [as_string]. rewrite Hu, Hn, Hm. cbn [map forallb]. rewrite Hu, Hn, Hok.
    inversion Hp; subst. auto.
Qed.

(** a normal file entry is read as a typed file that is written back as that very entry *)
Lemma nv_file_read v : nv_file v = true ->
  exists f, as_file v = Some f /\ file_value f = v /\ t_file_ok f = true /\ all_i64 v = true.
Proof.
  destruct v as [z|s|l|d]; try discriminate. cbn [nv_file].
  destruct (take_key k_length d) as [lo r1] eqn:E1. destruct (take_key k_md5sum r1) as [mo r2] eqn:E2.
  destruct (take_key k_path r2) as [po r3] eqn:E3.
  apply take_key_spec in E1, E2, E3. subst d r1 r2.
  destruct lo as [lv|]; [|discriminate]. destruct po as [pv|]; [|discriminate]. destruct r3; [|discriminate].
  intros H. apply andb_prop in H. destruct H as [H Hp]. apply andb_prop in H. destruct H as [Hl Hm].
  destruct (nv_len_read lv Hl) as (n & -> & Hln & Hn). destruct (nv_path_read pv Hp) as (p & -> & Hpr & Hpok).
  destruct (nv_md5_opt mo Hm) as (m' & -> & Hmok & Hmr).
  exists {| f_length := n; f_path := p; f_md5 := m' |}. cbn [opt_entry app].
  assert (Hmd : opt as_md5 k_md5sum ((k_length, len_value n) :: opt_entry k_md5sum (md5_value m') ++ [(k_path, Lst (map Str p))]) = Some m').
  { apply Hmr. destruct m' as [s|]; cbn [md5_value option_map opt_entry app]; lk; reflexivity. }
  split; [|split; [|split]].
  - unfold as_file. unfold req at 1. lk. rewrite Hln. rewrite Hmd. unfold req.
    replace (lookup k_path _) with (Some (Lst (map Str p))) by (destruct m' as [s|]; cbn [md5_value option_map opt_entry app]; lk; reflexivity).
    rewrite Hpr. reflexivity.
  - unfold file_value. cbn [f_length f_md5 f_path]. reflexivity.
  - unfold t_file_ok. cbn [f_length f_md5 f_path]. rewrite Hmok, Hpok. replace (n <? 2 ^ 63) with true by lia. reflexivity.
  - assert (Hi : i64_ok (Z.of_N n) = true) by (unfold i64_ok; lia).
    assert (Hs : forall q, forallb all_i64 (map Str q) = true) by (induction q; [reflexivity|exact IHq]).
    destruct m' as [s|]; cbn [md5_value option_map opt_entry app all_i64 forallb snd len_value]; rewrite Hi, Hs; reflexivity.
Qed.

Lemma nv_files_read l : forallb nv_file l = true ->
  exists fs, map_opt as_file l = Some fs /\ map file_value fs = l /\ forallb t_file_ok fs = true /\ forallb all_i64 l = true.
Proof.
  induction l as [|x r IH]; cbn [forallb map_opt]; intros H.
  - exists []. auto.
  - apply andb_prop in H. destruct H as [Hx Hr]. destruct (IH Hr) as (fs & Hm & Hv & Hok & Hi).
    destruct (nv_file_read x Hx) as (f & Hf & Hfv & Hfok & Hfi).
    exists (f :: fs). rewrite Hf, Hm. cbn [map forallb]. rewrite Hfv, Hv, Hfok, Hok, Hfi, Hi. auto.
Qed.

(* ------------------------------------------------------------------ the dictionary, positionally *)
Definition nd (fs ln md : option value) (nv plv psv : value) (pr so uu : option value) : list (bytes * value) :=
  opt_entry k_files fs ++ opt_entry k_length ln ++ opt_entry k_md5sum md ++
  [(k_name, nv); (k_piece_length, plv); (k_pieces, psv)] ++
  opt_entry k_private pr ++ opt_entry k_source so ++ opt_entry k_update_url uu.

Lemma value_normal_shape uok d : value_normal_with uok (Dict d) = true ->
  exists fs ln md nv plv psv pr so uu,
    d = nd fs ln md nv plv psv pr so uu /\
    nv_mode fs ln md = true /\ nv_text nv = true /\ nv_u64 plv = true /\ nv_pieces psv = true /\
    opt_ok nv_bool pr = true /\ opt_ok nv_text so = true /\ opt_ok (nv_url uok) uu = true.
Proof.
  cbn [value_normal_with].
  destruct (take_key k_files d) as [fs r1] eqn:E1. destruct (take_key k_length r1) as [ln r2] eqn:E2.
  destruct (take_key k_md5sum r2) as [md r3] eqn:E3. destruct (take_key k_name r3) as [nm r4] eqn:E4.
  destruct (take_key k_piece_length r4) as [pl r5] eqn:E5. destruct (take_key k_pieces r5) as [ps r6] eqn:E6.
  destruct (take_key k_private r6) as [pr r7] eqn:E7. destruct (take_key k_source r7) as [so r8] eqn:E8.
  destruct (take_key k_update_url r8) as [uu r9] eqn:E9.
  apply take_key_spec in E1, E2, E3, E4, E5, E6, E7, E8, E9.
  destruct nm as [nv|]; [|discriminate]. destruct pl as [plv|]; [|discriminate]. destruct ps as [psv|]; [|discriminate].
  destruct r9; [|discriminate]. intros H.
  repeat (apply andb_prop in H; let H' := fresh "H" in destruct H as [H H']).
  exists fs, ln, md, nv, plv, psv, pr, so, uu. subst. unfold nd. cbn [opt_entry app]. rewrite app_nil_r.
  repeat split; assumption.
Qed.

Lemma nd_lookups fs ln md nv plv psv pr so uu :
  let d := nd fs ln md nv plv psv pr so uu in
  lookup k_files d = fs /\ lookup k_length d = ln /\ lookup k_md5sum d = md /\ lookup k_name d = Some nv /\
  lookup k_piece_length d = Some plv /\ lookup k_pieces d = Some psv /\ lookup k_private d = pr /\
  lookup k_source d = so /\ lookup k_update_url d = uu /\ keys_utf8 d = true.
Proof.
  destruct fs, ln, md, pr, so, uu; cbv zeta; unfold nd; cbn [opt_entry app]; repeat split; lk; reflexivity.
Qed.

Lemma nd_others fs ln md nv plv psv pr so uu :
  opt_ok all_i64 fs = true -> opt_ok all_i64 ln = true -> opt_ok all_i64 md = true ->
  others_i64 info_known (nd fs ln md nv plv psv pr so uu) = true.
Proof.
  intros H1 H2 H3. unfold others_i64, nd.
  rewrite !forallb_app.
  assert (Hk : forall k o, existsb (bytes_eqb k) info_known = true ->
                           forallb (fun kv => existsb (bytes_eqb (fst kv)) info_known || all_i64 (snd kv)) (opt_entry k o) = true).
  { intros k o Hk. destruct o; [|reflexivity]. cbn [opt_entry forallb fst]. rewrite Hk. reflexivity. }
  assert (Hu : forall k o, opt_ok all_i64 o = true ->
                           forallb (fun kv => existsb (bytes_eqb (fst kv)) info_known || all_i64 (snd kv)) (opt_entry k o) = true).
  { intros k o Ho. destruct o; [|reflexivity]. cbn [opt_entry forallb snd opt_ok] in *. rewrite Ho, orb_true_r. reflexivity. }
  rewrite (Hu _ _ H1), (Hu _ _ H2), (Hu _ _ H3), (Hk k_private pr eq_refl), (Hk k_source so eq_refl), (Hk k_update_url uu eq_refl).
  reflexivity.
Qed.

(** reading the mode of a normal dictionary *)
Lemma nv_mode_read fs ln md d :
  nv_mode fs ln md = true -> lookup k_files d = fs -> lookup k_length d = ln -> lookup k_md5sum d = md ->
  exists m, as_mode d = Some m /\ t_mode_ok m = true /\
            mode_part m = opt_entry k_files fs ++ opt_entry k_length ln ++ opt_entry k_md5sum md /\
            opt_ok all_i64 fs = true /\ opt_ok all_i64 ln = true /\ opt_ok all_i64 md = true.
Proof.
  intros H Hf Hl Hm. unfold nv_mode in H. destruct fs as [fv|].
  - destruct fv as [z|s|l|dd]; try discriminate. destruct ln; [discriminate|]. destruct md; [discriminate|].
    destruct (nv_files_read l H) as (fs & Hr & Hv & Hok & Hi).
    exists (Multiple fs). unfold as_mode, try_single, try_multiple, req. rewrite Hl, Hf. cbn [as_list]. rewrite Hr.
    cbn [t_mode_ok mode_part opt_entry app opt_ok all_i64]. rewrite Hv. repeat split; assumption.
  - destruct ln as [lv|]; [|discriminate]. apply andb_prop in H. destruct H as [Hlen Hmd].
    destruct (nv_len_read lv Hlen) as (n & -> & Hln & Hn). destruct (nv_md5_opt md Hmd) as (m' & -> & Hmok & Hmr).
    exists (Single n m'). unfold as_mode, try_single, req. rewrite Hl, Hln, (Hmr d Hm).
    cbn [t_mode_ok mode_part opt_entry app opt_ok all_i64 len_value]. rewrite Hmok.
    replace (n <? 2 ^ 63) with true by lia. replace (i64_ok (Z.of_N n)) with true by (unfold i64_ok; lia).
    repeat split. destruct m'; reflexivity.
Qed.

(** L1: a normal value is read as a typed value that is written back as that very value *)
Lemma value_normal_read ext uok v :
  (forall u, uok u = true -> utf8_valid u = true /\ ir_url_norm ext u = Some u) ->
  value_normal_with uok v = true ->
  exists t, info_read ext v = Some t /\ info_value t = v /\ t_ok_with uok t = true /\
            match v with Dict i => others_i64 info_known i | _ => true end = true.
Proof.
  intros Huok H. destruct v as [z|s|l|d]; try discriminate.
  destruct (value_normal_shape uok d H) as (fs & ln & md & nv & plv & psv & pr & so & uu & -> & Hmode & Hn & Hpl & Hps & Hpr & Hso & Huu).
  destruct (nd_lookups fs ln md nv plv psv pr so uu) as (L1 & L2 & L3 & L4 & L5 & L6 & L7 & L8 & L9 & LU). cbv zeta in *.
  destruct (nv_mode_read fs ln md _ Hmode L1 L2 L3) as (m & Hm & Hmok & Hmp & Hi1 & Hi2 & Hi3).
  destruct (nv_text_read nv Hn) as (name & -> & Hname & Hnu).
  destruct (nv_u64_read plv Hpl) as (pl & -> & Hplr & Hplb).
  destruct (nv_pieces_read psv Hps) as (pcs & -> & Hpcs & Hpm).
  assert (Hprv : exists b, pr = option_map bool_value b /\ opt as_bool k_private (nd fs ln md (Str name) (len_value pl) (Str pcs) pr so uu) = Some b).
  { unfold opt. rewrite L7. destruct pr as [pv|]; cbn [opt_ok] in Hpr.
    - destruct (nv_bool_read pv Hpr) as (b & -> & Hb). exists (Some b). rewrite Hb. auto.
    - exists None. auto. }
  destruct Hprv as (b & -> & Hb).
  assert (Hsrc : exists s, so = option_map Str s /\ opt as_string k_source (nd fs ln md (Str name) (len_value pl) (Str pcs) (option_map bool_value b) so uu) = Some s /\
                           match s with Some x => utf8_valid x | None => true end = true).
  { unfold opt. rewrite L8. destruct so as [sv|]; cbn [opt_ok] in Hso.
    - destruct (nv_text_read sv Hso) as (x & -> & Hx & Hxu). exists (Some x). rewrite Hx. auto.
    - exists None. auto. }
  destruct Hsrc as (src & -> & Hsrc & Hsu).
  assert (Hurl : exists u, uu = option_map Str u /\
                           opt (as_url (ir_url_norm ext)) k_update_url (nd fs ln md (Str name) (len_value pl) (Str pcs) (option_map bool_value b) (option_map Str src) uu) = Some u /\
                           match u with Some x => uok x | None => true end = true).
  { unfold opt. rewrite L9. destruct uu as [uv|]; cbn [opt_ok] in Huu.
    - destruct uv as [z|x|l|dd]; try discriminate. cbn [nv_url] in Huu. destruct (Huok x Huu) as [Hxu Hxn].
      exists (Some x). unfold as_url. cbn [as_string]. rewrite Hxu, Hxn. auto.
    - exists None. auto. }
  destruct Hurl as (url & -> & Hurl & Huok').
  exists {| t_private := b; t_piece_length := pl; t_name := name; t_source := src; t_pieces := pcs; t_mode := m; t_update_url := url |}.
  split; [|split; [|split]].
  - unfold info_read. rewrite LU, Hb. unfold req at 1. rewrite L5, Hplr. unfold req at 1. rewrite L4, Hname.
    rewrite Hsrc. unfold req at 1. rewrite L6, Hpcs. rewrite Hm, Hurl. reflexivity.
  - unfold info_value, nd. cbn [t_private t_piece_length t_name t_source t_pieces t_mode t_update_url]. rewrite Hmp.
    rewrite <- !app_assoc. reflexivity.
  - unfold t_ok_with. cbn [t_private t_piece_length t_name t_source t_pieces t_mode t_update_url].
    rewrite Hnu, Hsu, Hpm, Hmok, Huok'. replace (pl <? 2 ^ 64) with true by lia. reflexivity.
  - apply nd_others; assumption.
Qed.

(* ------------------------------------------------------------------ L2: what the readers guarantee of a typed value *)
Lemma as_uint_lt bits v n : as_uint bits v = Some n -> n < 2 ^ bits.
Proof.
  destruct v as [z|s|l|d]; try discriminate. cbn [as_uint].
  destruct ((0 <=? z) && (z <? 2 ^ Z.of_N bits))%Z eqn:E; [|discriminate]. intros H; inversion H; subst.
  assert (Hz : (0 <= z < 2 ^ Z.of_N bits)%Z) by lia.
  apply N2Z.inj_lt. rewrite Z2N.id by lia. rewrite N2Z.inj_pow. cbn [Z.of_N]. exact (proj2 Hz).
Qed.

Lemma as_string_utf8 v s : as_string v = Some s -> utf8_valid s = true.
Proof.
  destruct v as [z|x|l|d]; try discriminate. cbn [as_string]. destruct (utf8_valid x) eqn:E; [|discriminate].
  intros H; inversion H; subst. exact E.
Qed.

Lemma as_md5_ok v s : as_md5 v = Some s -> t_md5_ok (Some s) = true.
Proof.
  unfold as_md5. destruct (as_string v) as [x|]; [|discriminate].
  destruct (Nat.eqb (length x) 32 && forallb is_hex x) eqn:E; [|discriminate]. intros H; inversion H; subst. exact E.
Qed.

Lemma opt_md5_ok d m : opt as_md5 k_md5sum d = Some m -> t_md5_ok m = true.
Proof.
  unfold opt. destruct (lookup k_md5sum d) as [v|]; [|intros H; inversion H; reflexivity].
  destruct (as_md5 v) as [s|] eqn:E; [|discriminate]. intros H; inversion H; subst. exact (as_md5_ok v s E).
Qed.

Lemma map_opt_forall {A B} (f : A -> option B) (P : B -> bool) :
  (forall x y, f x = Some y -> P y = true) -> forall l r, map_opt f l = Some r -> forallb P r = true.
Proof.
  intros Hf. induction l as [|x l IH]; cbn [map_opt]; intros r H.
  - inversion H; reflexivity.
  - destruct (f x) as [y|] eqn:E; [|discriminate]. destruct (map_opt f l) as [ys|]; [|discriminate].
    inversion H; subst. cbn [forallb]. rewrite (Hf x y E), (IH ys eq_refl). reflexivity.
Qed.

Lemma as_path_ok v p : as_path v = Some p -> forallb (fun c => utf8_valid c && normal_component c) p = true.
Proof.
  destruct v as [z|s|l|d]; try discriminate. unfold as_path, as_list. apply map_opt_forall.
  intros x y. unfold as_component. destruct (as_string x) as [s|] eqn:E; [|discriminate].
  destruct (normal_component s) eqn:En; [|discriminate]. intros H; inversion H; subst.
  rewrite (as_string_utf8 x y E), En. reflexivity.
Qed.

Lemma as_file_ok v f : as_file v = Some f -> t_file_ok f = true.
Proof.
  assert (Hlt : forall n, n < 2 ^ 63 -> (n <? 2 ^ 63) = true) by (intros; lia).
  destruct v as [z|s|l|d]; try discriminate; cbn [as_file].
  - destruct l as [|lv [|pv rest]]; try discriminate.
    destruct (as_uint 63 lv) as [n|] eqn:En; [|discriminate]. destruct (as_path pv) as [p|] eqn:Ep; [|discriminate].
    destruct rest as [|mv [|x rest]]; try discriminate.
    + intros H; inversion H; subst. unfold t_file_ok. cbn [f_length f_md5 f_path t_md5_ok].
      rewrite (Hlt _ (as_uint_lt _ _ _ En)), (as_path_ok _ _ Ep). reflexivity.
    + destruct (as_md5 mv) as [m|] eqn:Em; [|discriminate]. intros H; inversion H; subst. unfold t_file_ok. cbn [f_length f_md5 f_path].
      rewrite (Hlt _ (as_uint_lt _ _ _ En)), (as_path_ok _ _ Ep), (as_md5_ok _ _ Em). reflexivity.
  - unfold req. destruct (lookup k_length d) as [lv|]; [|discriminate].
    destruct (as_uint 63 lv) as [n|] eqn:En; [|discriminate]. destruct (lookup k_path d) as [pv|]; [|discriminate].
    destruct (as_path pv) as [p|] eqn:Ep; [|discriminate]. destruct (opt as_md5 k_md5sum d) as [m|] eqn:Em; [|discriminate].
    intros H; inversion H; subst. unfold t_file_ok. cbn [f_length f_md5 f_path].
    rewrite (Hlt _ (as_uint_lt _ _ _ En)), (as_path_ok _ _ Ep), (opt_md5_ok _ _ Em). reflexivity.
Qed.

Lemma as_mode_ok d m : as_mode d = Some m -> t_mode_ok m = true.
Proof.
  unfold as_mode. destruct (try_single d) as [m1|] eqn:E1.
  - intros H; inversion H; subst. unfold try_single, req in E1.
    destruct (lookup k_length d) as [lv|]; [|discriminate]. destruct (as_uint 63 lv) as [n|] eqn:En; [|discriminate].
    destruct (opt as_md5 k_md5sum d) as [md|] eqn:Em; [|discriminate]. inversion E1; subst. cbn [t_mode_ok].
    rewrite (opt_md5_ok _ _ Em). pose proof (as_uint_lt _ _ _ En). replace (n <? 2 ^ 63) with true by lia. reflexivity.
  - unfold try_multiple, req. destruct (lookup k_files d) as [fv|]; [|discriminate].
    destruct fv as [z|s|l|dd]; try discriminate. cbn [as_list]. destruct (map_opt as_file l) as [fs|] eqn:Ef; [|discriminate].
    intros H; inversion H; subst. cbn [t_mode_ok]. exact (map_opt_forall as_file t_file_ok as_file_ok l fs Ef).
Qed.

Lemma read_ok ext uok i t :
  info_read ext (Dict i) = Some t ->
  (forall s u, lookup k_update_url i = Some (Str s) -> ir_url_norm ext s = Some u -> uok u = true) ->
  t_ok_with uok t = true.
Proof.
  cbn [info_read]. destruct (keys_utf8 i); [|discriminate].
  destruct (opt as_bool k_private i) as [pr|]; [|discriminate].
  destruct (req (as_uint 64) k_piece_length i) as [pl|] eqn:Epl; [|discriminate].
  destruct (req as_string k_name i) as [nm|] eqn:Enm; [|discriminate].
  destruct (opt as_string k_source i) as [so|] eqn:Eso; [|discriminate].
  destruct (req as_pieces k_pieces i) as [ps|] eqn:Eps; [|discriminate].
  destruct (as_mode i) as [md|] eqn:Emd; [|discriminate].
  destruct (opt (as_url (ir_url_norm ext)) k_update_url i) as [uu|] eqn:Euu; [|discriminate].
  intros H Hu; inversion H; subst. unfold t_ok_with. cbn [t_private t_piece_length t_name t_source t_pieces t_mode t_update_url].
  assert (H1 : (pl <? 2 ^ 64) = true).
  { unfold req in Epl. destruct (lookup k_piece_length i) as [v|]; [|discriminate]. pose proof (as_uint_lt _ _ _ Epl). lia. }
  assert (H2 : utf8_valid nm = true).
  { unfold req in Enm. destruct (lookup k_name i) as [v|]; [|discriminate]. exact (as_string_utf8 _ _ Enm). }
  assert (H3 : match so with Some s => utf8_valid s | None => true end = true).
  { unfold opt in Eso. destruct (lookup k_source i) as [v|]; [|inversion Eso; reflexivity].
    destruct (as_string v) as [s|] eqn:E; [|discriminate]. inversion Eso; subst. exact (as_string_utf8 _ _ E). }
  assert (H4 : (N.of_nat (length ps) mod 20 =? 0) = true).
  { unfold req in Eps. destruct (lookup k_pieces i) as [v|]; [|discriminate]. destruct v as [z|s|l|d]; try discriminate.
    cbn [as_pieces] in Eps. destruct (N.of_nat (length s) mod 20 =? 0) eqn:E; [|discriminate]. inversion Eps; subst. exact E. }
  assert (H5 : match uu with Some u => uok u | None => true end = true).
  { unfold opt in Euu. destruct (lookup k_update_url i) as [v|] eqn:El; [|inversion Euu; reflexivity].
    destruct (as_url (ir_url_norm ext) v) as [u|] eqn:E; [|discriminate]. inversion Euu; subst.
    unfold as_url in E. destruct v as [z|s|l|d]; try discriminate. cbn [as_string] in E. destruct (utf8_valid s); [|discriminate].
    exact (Hu s u eq_refl E). }
  rewrite H1, H2, H3, H4, (as_mode_ok _ _ Emd), H5. reflexivity.
Qed.

(* ------------------------------------------------------------------ L3: what is written is normal *)
Lemma nv_len_value n : n < 2 ^ 63 -> nv_len (len_value n) = true.
Proof. intros H. unfold nv_len, len_value. lia. Qed.
Lemma nv_u64_value n : n < 2 ^ 64 -> nv_u64 (len_value n) = true.
Proof. intros H. unfold nv_u64, len_value. lia. Qed.
Lemma nv_bool_value b : nv_bool (bool_value b) = true.
Proof. destruct b; reflexivity. Qed.
Lemma nv_md5_value m : t_md5_ok m = true -> opt_ok nv_md5 (md5_value m) = true.
Proof.
  destruct m as [s|]; [|reflexivity]. cbn [t_md5_ok md5_value option_map opt_ok nv_md5]. intros H. apply andb_prop in H.
  destruct H as [Hl Hh]. rewrite map_length, Hl, (map_lower_lower s Hh). reflexivity.
Qed.
Lemma nv_path_value p : forallb (fun c => utf8_valid c && normal_component c) p = true -> nv_path (Lst (map Str p)) = true.
Proof.
  cbn [nv_path]. induction p as [|c r IH]; [reflexivity|]. cbn [forallb map nv_component]. intros H. apply andb_prop in H.
  destruct H as [Hc Hr]. rewrite Hc, (IH Hr). reflexivity.
Qed.

Lemma file_value_normal f : t_file_ok f = true -> nv_file (file_value f) = true.
Proof.
  unfold t_file_ok. intros H. apply andb_prop in H. destruct H as [H Hp]. apply andb_prop in H. destruct H as [Hl Hm].
  unfold file_value. pose proof (nv_md5_value _ Hm) as Hm'. pose proof (nv_path_value _ Hp) as Hp'.
  assert (Hl' : nv_len (len_value (f_length f)) = true) by (apply nv_len_value; lia).
  destruct (f_md5 f) as [s|]; cbn [md5_value option_map opt_entry app nv_file]; tk; cbn [opt_ok md5_value option_map] in *; rewrite Hl', Hp', ?Hm'; reflexivity.
Qed.

Lemma files_value_normal fs : forallb t_file_ok fs = true -> forallb nv_file (map file_value fs) = true.
Proof.
  induction fs as [|f r IH]; [reflexivity|]. cbn [forallb map]. intros H. apply andb_prop in H. destruct H as [Hf Hr].
  rewrite (file_value_normal f Hf), (IH Hr). reflexivity.
Qed.

Lemma ok_value_normal uok t : t_ok_with uok t = true -> value_normal_with uok (info_value t) = true.
Proof.
  destruct t as [pr pl nm so ps md uu]. unfold t_ok_with, info_value.
  cbn [t_private t_piece_length t_name t_source t_pieces t_mode t_update_url]. intros H.
  repeat (apply andb_prop in H; let H' := fresh "H" in destruct H as [H H']).
  assert (Hpl : nv_u64 (len_value pl) = true) by (apply nv_u64_value; lia).
  assert (Hb : forall b, nv_bool (bool_value b) = true) by apply nv_bool_value.
  destruct md as [n md5|fs]; cbn [t_mode_ok mode_part] in *.
  - apply andb_prop in H1. destruct H1 as [Hn Hm5]. pose proof (nv_md5_value _ Hm5) as Hm5'.
    assert (Hn' : nv_len (len_value n) = true) by (apply nv_len_value; lia).
    destruct md5 as [m|], pr as [b|], so as [s|], uu as [u|];
      cbn [md5_value option_map opt_entry app value_normal_with]; tk;
      cbn [nv_mode opt_ok nv_text nv_pieces nv_url md5_value option_map] in *; rewrite ?Hn', ?Hm5', ?H, ?H4, ?H3, ?H2, ?H0, ?Hpl, ?Hb; reflexivity.
  - pose proof (files_value_normal fs H1) as Hfs.
    destruct pr as [b|], so as [s|], uu as [u|];
      cbn [option_map opt_entry app value_normal_with]; tk;
      cbn [nv_mode opt_ok nv_text nv_pieces nv_url] in *; rewrite ?Hfs, ?H, ?H4, ?H3, ?H2, ?H0, ?Hpl, ?Hb; reflexivity.
Qed.

(* ------------------------------------------------------------------ L4: shape of what is written: key order, nesting, integers *)
Lemma sorted_strs p : forallb sortedb (map Str p) = true.
Proof. induction p as [|c r IH]; [reflexivity|exact IH]. Qed.

Lemma sorted_file_value f : sortedb (file_value f) = true.
Proof.
  unfold file_value. destruct (f_md5 f) as [s|]; cbn [md5_value option_map opt_entry app sortedb map fst snd forallb len_value];
    rewrite sorted_strs; reflexivity.
Qed.

Lemma sorted_files fs : forallb sortedb (map file_value fs) = true.
Proof. induction fs as [|f r IH]; [reflexivity|]. cbn [map forallb]. rewrite sorted_file_value, IH. reflexivity. Qed.

Lemma sorted_info_value t : sortedb (info_value t) = true.
Proof.
  destruct t as [pr pl nm so ps md uu]. unfold info_value.
  cbn [t_private t_piece_length t_name t_source t_pieces t_mode t_update_url].
  destruct md as [n md5|fs]; cbn [mode_part].
  - destruct md5 as [m|], pr as [b|], so as [s|], uu as [u|];
      cbn [md5_value option_map opt_entry app sortedb map fst snd forallb len_value bool_value]; reflexivity.
  - destruct pr as [b|], so as [s|], uu as [u|];
      cbn [option_map opt_entry app sortedb map fst snd forallb len_value bool_value]; rewrite sorted_files; reflexivity.
Qed.

Lemma depth_dict_le n d : Forall (fun kv => depth (snd kv) <= n) d -> depth (Dict d) <= 1 + n.
Proof.
  intros H. cbn [depth]. assert (Hm : fold_right (fun kv m => N.max (depth (snd kv)) m) 0 d <= n).
  { induction H as [|kv r Hkv Hr IH]; cbn [fold_right]; lia. }
  lia.
Qed.

Lemma depth_list_le n l : Forall (fun x => depth x <= n) l -> depth (Lst l) <= 1 + n.
Proof.
  intros H. cbn [depth]. assert (Hm : fold_right (fun x m => N.max (depth x) m) 0 l <= n).
  { induction H as [|x r Hx Hr IH]; cbn [fold_right]; lia. }
  lia.
Qed.

Lemma depth_opt_entry n k o : match o with Some v => depth v <= n | None => True end ->
  Forall (fun kv => depth (snd kv) <= n) (opt_entry k o).
Proof. destruct o; intros H; constructor; [exact H|constructor]. Qed.

Lemma depth_file_value f : depth (file_value f) <= 2.
Proof.
  unfold file_value. apply (depth_dict_le 1). constructor; [cbn; lia|]. apply Forall_app. split.
  - apply depth_opt_entry. destruct (f_md5 f); cbn; [lia|exact I].
  - constructor; [|constructor]. cbn [snd]. apply (depth_list_le 0). apply Forall_forall. intros x Hx.
    apply in_map_iff in Hx. destruct Hx as (c & <- & _). cbn. lia.
Qed.

Lemma depth_info_value t : depth (info_value t) <= 4.
Proof.
  unfold info_value. apply (depth_dict_le 3). repeat (apply Forall_app; split).
  - destruct (t_mode t) as [n md5|fs]; cbn [mode_part].
    + constructor; [cbn; lia|]. apply depth_opt_entry. destruct md5; cbn; [lia|exact I].
    + constructor; [|constructor]. cbn [snd]. apply (depth_list_le 2). apply Forall_forall. intros x Hx.
      apply in_map_iff in Hx. destruct Hx as (f & <- & _). apply depth_file_value.
  - repeat constructor; cbn; lia.
  - apply depth_opt_entry. destruct (t_private t); cbn; [lia|exact I].
  - apply depth_opt_entry. destruct (t_source t); cbn; [lia|exact I].
  - apply depth_opt_entry. destruct (t_update_url t); cbn; [lia|exact I].
Qed.

(* ------------------------------------------------------------------ the url crate inside the fragment *)
Lemma normal_url_fixed ext u : is_normal_url u = true -> utf8_valid u = true /\ ir_url_norm ext u = Some u.
Proof.
  intros H. split; [|apply url_norm_with_fixed; exact H].
  pose proof (u_norm_ascii u u (u_norm_fixed u H)) as Hv. apply ascii_utf8. revert Hv. apply forallb_imp. intros b Hb. lia.
Qed.

(* ------------------------------------------------------------------ (a) load-then-encode is the identity on normal forms *)
Theorem normal_fixed_with ext uok d :
  (forall u, uok u = true -> utf8_valid u = true /\ ir_url_norm ext u = Some u) ->
  typed_normal_with uok d = true -> info_norm ext d = Some d.
Proof.
  intros Huok H. unfold typed_normal_with in H. destruct (wdecode (fuel_for d) d) as [[v rest]|] eqn:E; [|discriminate].
  destruct rest; [|discriminate].
  destruct (value_normal_read ext uok v Huok H) as (t & Hr & Hv & Hok & Ho).
  destruct (wdecode_exact (fuel_for d)) as (Hex & _ & _). apply Hex in E. rewrite app_nil_r in E.
  unfold info_norm, info_typed. rewrite E at 1 2. rewrite <- Hv at 1 2.
  rewrite <- (app_nil_r (encode (info_value t))) at 1 2. rewrite (wdecode_enc _ [] (sorted_info_value t)).
  unfold info_checks. rewrite Hv. rewrite Ho, andb_true_r.
  replace (depth v <=? max_depth) with true.
  - rewrite Hr. rewrite Hv, <- E. reflexivity.
  - symmetry. apply N.leb_le. rewrite <- Hv. pose proof (depth_info_value t). unfold max_depth. lia.
Qed.

Theorem normal_fixed ext d : typed_normal d = true -> info_norm ext d = Some d.
Proof. apply normal_fixed_with. intros u Hu. apply normal_url_fixed. exact Hu. Qed.

(* ------------------------------------------------------------------ (b) whatever is written is normal and stable *)
Lemma info_norm_typed ext d e : info_norm ext d = Some e ->
  exists v rest t, wdecode (fuel_for d) d = Some (v, rest) /\ info_checks v = true /\ info_read ext v = Some t /\
                   e = encode (info_value t).
Proof.
  unfold info_norm, info_typed. destruct (wdecode (fuel_for d) d) as [[v rest]|] eqn:E; [|discriminate].
  destruct (info_checks v) eqn:Ec; [|discriminate]. destruct (info_read ext v) as [t|] eqn:Er; [|discriminate].
  intros H; inversion H; subst. exists v, rest, t. auto.
Qed.

Lemma written_normal uok t : t_ok_with uok t = true -> typed_normal_with uok (encode (info_value t)) = true.
Proof.
  intros Hok. unfold typed_normal_with. rewrite <- (app_nil_r (encode (info_value t))).
  rewrite (wdecode_enc _ [] (sorted_info_value t)). apply ok_value_normal. exact Hok.
Qed.

Theorem norm_normal_upto_url ext d e : info_norm ext d = Some e -> typed_normal_upto_url e = true.
Proof.
  intros H. destruct (info_norm_typed ext d e H) as (v & rest & t & Hd & Hc & Hr & ->).
  apply written_normal. destruct v as [z|s|l|i]; try discriminate. apply (read_ok ext _ i t Hr). reflexivity.
Qed.

Lemma read_ok_modelled ext i t : info_read ext (Dict i) = Some t -> url_modelled_v (Dict i) = true ->
  t_ok_with is_normal_url t = true.
Proof.
  intros Hr Hm. apply (read_ok ext _ i t Hr). intros s u Hl Hn. cbn [url_modelled_v] in Hm. rewrite Hl in Hm.
  unfold ir_url_norm, u_url_norm_with in Hn. destruct (u_norm s) as [r|] eqn:E; [|discriminate]. subst r.
  exact (u_norm_normal s u E).
Qed.

Theorem norm_normal ext d e : info_norm ext d = Some e -> info_url_modelled d = true ->
  typed_normal e = true /\ info_norm ext e = Some e.
Proof.
  intros H Hm. destruct (info_norm_typed ext d e H) as (v & rest & t & Hd & Hc & Hr & ->).
  unfold info_url_modelled in Hm. rewrite Hd in Hm. destruct v as [z|s|l|i]; try discriminate.
  pose proof (written_normal _ t (read_ok_modelled ext i t Hr Hm)) as Hn. split; [exact Hn|]. apply normal_fixed. exact Hn.
Qed.

(** inside the url fragment the syntactic predicate says exactly "the typed round trip changes nothing" *)
Theorem typed_normal_iff ext d : info_url_modelled d = true -> (typed_normal d = true <-> info_norm ext d = Some d).
Proof.
  intros Hm. split; [apply normal_fixed|]. intros H. exact (proj1 (norm_normal ext d d H Hm)).
Qed.

(** a normal dictionary is one whose url is inside the fragment *)
Lemma typed_normal_modelled d : typed_normal d = true -> info_url_modelled d = true.
Proof.
  unfold typed_normal, typed_normal_with, info_url_modelled. destruct (wdecode (fuel_for d) d) as [[v rest]|]; [|reflexivity].
  destruct rest; [|discriminate]. intros H. destruct v as [z|s|l|i]; try reflexivity.
  destruct (value_normal_shape _ i H) as (fs & ln & md & nv & plv & psv & pr & so & uu & -> & _ & _ & _ & _ & _ & _ & Huu).
  destruct (nd_lookups fs ln md nv plv psv pr so uu) as (_ & _ & _ & _ & _ & _ & _ & _ & L9 & _). cbv zeta in L9.
  cbn [url_modelled_v]. rewrite L9. destruct uu as [uv|]; [|reflexivity]. destruct uv as [z|s|l|dd]; try reflexivity.
  cbn [opt_ok nv_url] in Huu. rewrite (u_norm_fixed s Huu). reflexivity.
Qed.

(* ------------------------------------------------------------------ (c) what is written is canonical bencode *)
Theorem norm_canonical ext d e : info_norm ext d = Some e ->
  exists v, e = encode v /\ sortedb v = true /\ depth v <= 4 /\ wdecode (fuel_for e) e = Some (v, []).
Proof.
  intros H. destruct (info_norm_typed ext d e H) as (v & rest & t & Hd & Hc & Hr & ->).
  exists (info_value t). split; [reflexivity|]. split; [apply sorted_info_value|]. split; [apply depth_info_value|].
  rewrite <- (app_nil_r (encode (info_value t))). apply wdecode_enc, sorted_info_value.
Qed.

Lemma wfb_sorted_i64 v : wfb v = sortedb v && all_i64 v.
Proof.
  induction v as [z|s|l IH|d IH] using value_ind'; cbn [wfb sortedb all_i64]; try reflexivity.
  - induction IH as [|x r Hx Hr IHr]; [reflexivity|]. cbn [forallb]. rewrite Hx, IHr.
    destruct (sortedb x), (all_i64 x), (forallb sortedb r), (forallb all_i64 r); reflexivity.
  - destruct (keys_sorted None (map fst d)); [|reflexivity]. cbn [andb].
    induction IH as [|x r Hx Hr IHr]; [reflexivity|]. cbn [forallb]. rewrite Hx, IHr.
    destruct (sortedb (snd x)), (all_i64 (snd x)), (forallb (fun kv => sortedb (snd kv)) r), (forallb (fun kv => all_i64 (snd kv)) r); reflexivity.
Qed.

Lemma i64_strs p : forallb all_i64 (map Str p) = true.
Proof. induction p as [|c r IH]; [reflexivity|exact IH]. Qed.

Lemma i64_file_value f : t_file_ok f = true -> all_i64 (file_value f) = true.
Proof.
  unfold t_file_ok. intros H. apply andb_prop in H. destruct H as [H _]. apply andb_prop in H. destruct H as [Hl _].
  assert (Hi : i64_ok (Z.of_N (f_length f)) = true) by (unfold i64_ok; lia).
  unfold file_value. destruct (f_md5 f); cbn [md5_value option_map opt_entry app all_i64 forallb snd len_value]; rewrite Hi, i64_strs; reflexivity.
Qed.

Lemma i64_info_value uok t : t_ok_with uok t = true -> t_piece_length t < 2 ^ 63 -> all_i64 (info_value t) = true.
Proof.
  destruct t as [pr pl nm so ps md uu]. unfold t_ok_with, info_value.
  cbn [t_private t_piece_length t_name t_source t_pieces t_mode t_update_url]. intros H Hpl.
  repeat (apply andb_prop in H; let H' := fresh "H" in destruct H as [H H']).
  assert (Hi : i64_ok (Z.of_N pl) = true) by (unfold i64_ok; lia).
  assert (Hb : forall b : bool, i64_ok (if b then 1 else 0)%Z = true) by (intros b0; destruct b0; reflexivity).
  destruct md as [n md5|fs]; cbn [t_mode_ok mode_part] in *.
  - apply andb_prop in H1. destruct H1 as [Hn _]. assert (Hn' : i64_ok (Z.of_N n) = true) by (unfold i64_ok; lia).
    destruct md5 as [m|], pr as [b|], so as [s|], uu as [u|];
      cbn [md5_value option_map opt_entry app all_i64 forallb snd len_value bool_value]; rewrite ?Hn', ?Hi, ?Hb; reflexivity.
  - assert (Hfs : forallb all_i64 (map file_value fs) = true).
    { clear - H1. induction fs as [|f r IH]; [reflexivity|]. cbn [forallb map] in *. apply andb_prop in H1. destruct H1 as [Hf Hr].
      rewrite (i64_file_value f Hf), (IH Hr). reflexivity. }
    destruct pr as [b|], so as [s|], uu as [u|];
      cbn [option_map opt_entry app all_i64 forallb snd len_value bool_value]; rewrite ?Hfs, ?Hi, ?Hb; reflexivity.
Qed.

(** the strict reader of Model/Bencode.v (i64 in the tokenizer: bendy's [Value], imdl's own Infohash::from_input)
    reads the re-serialisation back when `piece length` is below 2^63 ... *)
Theorem norm_strict ext d t : info_typed ext d = Some t -> t_piece_length t < 2 ^ 63 ->
  let e := encode (info_value t) in
  info_norm ext d = Some e /\ wfb (info_value t) = true /\ decode (Peer.bfuel e) e = Some (info_value t, []).
Proof.
  intros Ht Hpl e. assert (He : info_norm ext d = Some e) by (unfold info_norm; rewrite Ht; reflexivity).
  destruct (info_norm_typed ext d e He) as (v & rest & t' & Hd & Hc & Hr & Hee).
  unfold info_typed in Ht. rewrite Hd, Hc in Ht. rewrite Ht in Hr. inversion Hr; subst t'.
  assert (Hok : t_ok_with (fun _ => true) t = true).
  { destruct v as [z|s|l|i]; try discriminate. apply (read_ok ext _ i t Ht). reflexivity. }
  assert (Hw : wfb (info_value t) = true).
  { rewrite wfb_sorted_i64, sorted_info_value, (i64_info_value _ t Hok Hpl). reflexivity. }
  split; [exact He|]. split; [exact Hw|]. subst e. rewrite <- (app_nil_r (encode (info_value t))).
  apply PeerProofs.decode_enc. exact Hw.
Qed.

(** ... and only then: `piece length` is read as a u64 and written back, so the client accepts, returns and writes a
    dictionary that the strict reader refuses (REFUTATION of "the re-serialisation is always strictly decodable") *)
Definition ex_big_piece_length : bytes :=
  [100; 54; 58; 108; 101; 110; 103; 116; 104; 105; 53; 101; 52; 58; 110; 97; 109; 101; 49; 58; 120; 49; 50; 58; 112; 105; 101; 99;
   101; 32; 108; 101; 110; 103; 116; 104; 105; 57; 50; 50; 51; 51; 55; 50; 48; 51; 54; 56; 53; 52; 55; 55; 53; 56; 48; 56; 101; 54;
   58; 112; 105; 101; 99; 101; 115; 48; 58; 101].       (* d6:lengthi5e4:name1:x12:piece lengthi9223372036854775808e6:pieces0:e *)

Theorem norm_strict_refuted : exists d, forall ext,
  typed_normal d = true /\ info_norm ext d = Some d /\ forall fuel, decode fuel d = None.
Proof.
  exists ex_big_piece_length. intros ext. assert (Hn : typed_normal ex_big_piece_length = true) by (vm_compute; reflexivity).
  split; [exact Hn|]. split; [apply normal_fixed; exact Hn|]. intros fuel.
  destruct (decode fuel ex_big_piece_length) as [[v rest]|] eqn:E; [|reflexivity]. exfalso.
  destruct (LoaderProofs.decode_wdecode fuel) as (Hw & _ & _). destruct (Hw _ _ _ E) as [Ew Hi].
  set (v0 := Dict [(k_length, Int 5); (k_name, Str [120]); (k_piece_length, Int (2 ^ 63)); (k_pieces, Str [])]).
  assert (E0 : wdecode (fuel_for ex_big_piece_length) ex_big_piece_length = Some (v0, [])) by (vm_compute; reflexivity).
  apply (wdecode_mono_le fuel (fuel + fuel_for ex_big_piece_length)) in Ew; [|lia].
  apply (wdecode_mono_le _ (fuel + fuel_for ex_big_piece_length)) in E0; [|lia].
  rewrite Ew in E0. inversion E0; subst v. vm_compute in Hi. discriminate.
Qed.
