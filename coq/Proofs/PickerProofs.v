(** Proofs for C15 over Model/Picker.v. *)
From Coq Require Import NArith Lia List Bool ZifyN ZifyBool.
From Imdl Require Import Model.Float53 Model.Picker Proofs.Float53Proofs.
Import ListNotations.
Local Open Scope N_scope.

Lemma pow2_max a b : N.max (2 ^ a) (2 ^ b) = 2 ^ N.max a b.
Proof.
  destruct (N.le_gt_cases a b).
  - rewrite (N.max_r a b) by lia. apply N.max_r. apply N.pow_le_mono_r; lia.
  - rewrite (N.max_l a b) by lia. apply N.max_l. apply N.pow_le_mono_r; lia.
Qed.
Lemma pow2_min a b : N.min (2 ^ a) (2 ^ b) = 2 ^ N.min a b.
Proof.
  destruct (N.le_gt_cases a b).
  - rewrite (N.min_l a b) by lia. apply N.min_l. apply N.pow_le_mono_r; lia.
  - rewrite (N.min_r a b) by lia. apply N.min_r. apply N.pow_le_mono_r; lia.
Qed.

Lemma pick_exp_pow e : pick_exp e = 2 ^ clamp_e e.
Proof.
  unfold pick_exp, clamp_e.
  change (16 * KiB) with (2 ^ 14). change (16 * MiB) with (2 ^ 24).
  rewrite pow2_max, pow2_min. reflexivity.
Qed.

Lemma pick_bounds n :
  16 * KiB <= pick_ideal n <= 16 * MiB /\ exists k, pick_ideal n = 2 ^ k.
Proof.
  unfold pick_ideal. rewrite pick_exp_pow. split; [|eauto].
  change (16 * KiB) with (2 ^ 14). change (16 * MiB) with (2 ^ 24).
  split; apply N.pow_le_mono_r; unfold clamp_e; lia.
Qed.

Lemma pick_monotone n m : n <= m -> pick_ideal n <= pick_ideal m.
Proof.
  intros H. unfold pick_ideal. rewrite !pick_exp_pow. apply N.pow_le_mono_r; [lia|].
  assert (N.log2_up (N.max n 1) <= N.log2_up (N.max m 1)) by (apply N.log2_up_le_mono; lia).
  unfold clamp_e.
  assert (N.log2_up (N.max n 1) / 2 <= N.log2_up (N.max m 1) / 2) by (apply N.div_le_mono; lia).
  lia.
Qed.

(** what is assumed about libm's log2 followed by ceil, on integer-valued doubles *)
Definition cl_ok (cl : N -> N) : Prop :=
  (forall k, k <= 64 -> cl (2 ^ k) = k) /\
  (forall k x, 0 < k -> k <= 64 -> 2 ^ (k - 1) < x < 2 ^ k ->
               (k <= 41 -> cl x = k) /\ k - 1 <= cl x <= k).

Lemma cl_ok_inhabited : cl_ok N.log2_up.
Proof.
  split.
  - intros k _. apply N.log2_up_pow2. lia.
  - intros k x Hk _ [Hl Hu].
    assert (N.log2_up x = k).
    { apply N.log2_up_unique; [lia|]. rewrite N.pred_sub. lia. }
    lia.
Qed.

Section Float.
Variable cl : N -> N.
Hypothesis Hcl : cl_ok cl.

Lemma cl_range x k : 0 < k -> k <= 64 -> 2 ^ (k - 1) < x <= 2 ^ k ->
                     (k <= 41 -> cl x = k) /\ k - 1 <= cl x <= k.
Proof.
  destruct Hcl as [cl_pow2 cl_between].
  intros Hk Hk' [Hl Hu]. destruct (N.eq_dec x (2 ^ k)) as [->|Hne].
  - rewrite cl_pow2 by lia. lia.
  - apply cl_between; lia.
Qed.

Lemma log2_up_spec' x : 1 < x -> 2 ^ (N.log2_up x - 1) < x <= 2 ^ N.log2_up x.
Proof.
  intros Hx. pose proof (N.log2_up_spec x Hx) as S. rewrite N.pred_sub in S. exact S.
Qed.

Lemma pick_float_ideal n : n < 2 ^ 64 -> pick_float cl n = pick_ideal n.
Proof.
  destruct Hcl as [cl_pow2 cl_between].
  intros Hn. unfold pick_float, pick_ideal. set (x := N.max n 1).
  assert (Hx1 : 1 <= x) by (unfold x; lia).
  assert (Hx64 : x < 2 ^ 64) by (unfold x; lia).
  destruct (N.eq_dec x 1) as [E1|N1].
  { rewrite E1. rewrite round53_small by (cbn; lia). change 1 with (2 ^ 0) at 1.
    rewrite cl_pow2 by lia. reflexivity. }
  assert (Hx : 1 < x) by lia.
  set (k := N.log2_up x).
  pose proof (log2_up_spec' x Hx) as [Hl Hu]. fold k in Hl, Hu.
  assert (Hk0 : 0 < k) by (unfold k; apply N.log2_up_pos; lia).
  assert (Hk64 : k <= 64).
  { unfold k. apply N.log2_up_le_pow2; lia. }
  destruct (N.le_gt_cases k 41) as [Hk|Hk].
  - assert (x <= 2 ^ 53).
    { eapply N.le_trans; [exact Hu|]. apply N.pow_le_mono_r; lia. }
    rewrite round53_small by assumption.
    destruct (cl_range x k Hk0 Hk64 (conj Hl Hu)) as [Hc _]. rewrite Hc by exact Hk. reflexivity.
  - rewrite !pick_exp_pow. f_equal.
    set (y := round53 x).
    assert (Hy_lo : 2 ^ (k - 1) <= y) by (unfold y; apply round53_mono_pow; lia).
    assert (Hy_hi : y <= 2 ^ k) by (unfold y; apply round53_le_pow; exact Hu).
    assert (Hcy : 41 <= cl y).
    { destruct (N.eq_dec y (2 ^ (k - 1))) as [E|E].
      - rewrite E, cl_pow2 by lia. lia.
      - destruct (cl_range y k Hk0 Hk64 ltac:(lia)) as [_ Hr]. lia. }
    unfold clamp_e.
    assert (41 / 2 <= cl y / 2) by (apply N.div_le_mono; lia).
    assert (41 / 2 <= k / 2) by (apply N.div_le_mono; lia).
    change (41 / 2) with 20 in *. lia.
Qed.
End Float.

(** closed form at powers of two: 16 KiB up to 2 MiB (2^21), doubling per fourfold growth,
    16 MiB from 1 TiB (2^40) *)
Lemma pick_pow2 k : pick_ideal (2 ^ k) = table_row k.
Proof.
  unfold pick_ideal, table_row. rewrite pick_exp_pow. f_equal. f_equal.
  assert (1 <= 2 ^ k) by (pose proof (pow2_pos k); lia).
  rewrite N.max_l by lia. apply N.log2_up_pow2. lia.
Qed.

Lemma table_row_low k : k <= 21 -> table_row k = 16 * KiB.
Proof.
  intros H. unfold table_row, clamp_e.
  assert (k / 2 <= 10) by (change 10 with (21 / 2); apply N.div_le_mono; lia).
  replace (N.min (N.max (k / 2 + 4) 14) 24) with 14 by lia. reflexivity.
Qed.
Lemma table_row_high k : 40 <= k -> table_row k = 16 * MiB.
Proof.
  intros H. unfold table_row, clamp_e.
  assert (20 <= k / 2) by (change 20 with (40 / 2); apply N.div_le_mono; lia).
  replace (N.min (N.max (k / 2 + 4) 14) 24) with 24 by lia. reflexivity.
Qed.
Lemma table_row_step k : 20 <= k -> k + 2 <= 40 -> table_row (k + 2) = 2 * table_row k.
Proof.
  intros H1 H2. unfold table_row, clamp_e.
  assert (E : (k + 2) / 2 = k / 2 + 1).
  { replace (k + 2) with (k + 1 * 2) by lia. rewrite N.div_add by lia. reflexivity. }
  rewrite E.
  assert (10 <= k / 2) by (change 10 with (20 / 2); apply N.div_le_mono; lia).
  assert (k / 2 <= 19) by (change 19 with (38 / 2); apply N.div_le_mono; lia).
  replace (N.min (N.max (k / 2 + 1 + 4) 14) 24) with (N.min (N.max (k / 2 + 4) 14) 24 + 1) by lia.
  rewrite N.pow_add_r. lia.
Qed.

(** the lints of C14 that concern the piece length can never fire on an automatic choice *)
Lemma auto_never_rejected n :
  let p := pick_ideal n in
  p <> 0 /\ p < 2 ^ 32 /\ 16 * KiB <= p /\ exists k, p = 2 ^ k.
Proof.
  cbv zeta. destruct (pick_bounds n) as [[B1 B2] B3].
  change (16 * KiB) with 16384 in *. change (16 * MiB) with 16777216 in *.
  change (2 ^ 32) with 4294967296.
  repeat split; try lia. exact B3.
Qed.
