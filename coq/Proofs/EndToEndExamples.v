(** Concrete instances for the end-to-end theorems of C02: the hypotheses are satisfiable, the
    outcome is not vacuous, and each hypothesis on names and digests is needed (drop it and the
    loader refuses the bytes create's model writes). Everything here is closed by computation. *)
From Coq Require Import NArith List Bool.
From Imdl Require Import Base.Chunks Model.Bencode Model.Fs Model.Verify Model.CreateVerify Model.EndToEnd
     Proofs.VerifyProofs Proofs.CreateVerifyExamples Proofs.EndToEndProofs.
From Imdl Require Model.Schema Model.Metainfo Model.Hasher Model.Picker Proofs.MetainfoProofs.
Import ListNotations.
Local Open Scope N_scope.

Definition idb (b : list N) : list N := b.

(** /w/in/{a, d/b, e} of Proofs/CreateVerifyExamples.v, hashed with stand-ins of the right shape,
    --md5, piece length 4; the command line is C05's example (announce, two tiers, comment,
    source, three nodes, private, update-url, clock) *)
Definition e_t : option torrent := create_t ex_H ex_MD5 true 4 IN csch0 src0 sel0.

Definition e_bytes : option (list N) :=
  match e_t with
  | Some t => match Metainfo.build idb idb [] (opts_of MetainfoProofs.ex_opts true t) (content_of t) with
              | Some v => Some (encode v)
              | None => None
              end
  | None => None
  end.

Example ex_e2e_hyps :
  resolve fs0 root0 = Some src0 /\ Forall plain_path sel0 /\ Forall utf8_path sel0 /\ utf8_ok IN = true /\
  Metainfo.opts_ok MetainfoProofs.ex_opts = true /\
  match e_t with
  | Some t => Metainfo.input_ok (input_of t) = true /\ agrees (opts_of MetainfoProofs.ex_opts true t) true t /\
              torrent_ok true t = true
  | None => False
  end.
Proof.
  split; [vm_compute; reflexivity|]. split; [repeat constructor|]. split; [repeat constructor|].
  split; [reflexivity|]. split; [reflexivity|].
  vm_compute. repeat split.
Qed.

(** the bytes load back as the creation result; verifying them succeeds on the tree they were
    made from and fails once the last byte of the last, partial piece is flipped *)
Example ex_e2e_load_back :
  match e_t, e_bytes with
  | Some t, Some tb =>
      load tb = Some t /\
      verify_bytes ex_H ex_MD5 vsch0 fs0 root0 tb = Some true /\
      verify_bytes ex_H ex_MD5 vsch0 fs_flip root0 tb = Some false /\
      verify_bytes ex_H ex_MD5 vsch0 fs_extra root0 tb = Some true
  | _, _ => False
  end.
Proof. vm_compute. repeat split. Qed.

(** a command line without --name and --piece-length agrees when the hasher was given the
    input's own name and the picker's choice (16 KiB for this input) *)
Example ex_e2e_defaults :
  match create_t ex_H ex_MD5 true (Picker.pick 12) IN csch0 src0 sel0 with
  | Some t => agrees MetainfoProofs.ex_opts true t
  | None => False
  end.
Proof. vm_compute. repeat split. Qed.

(* ---------- each hypothesis is needed ---------- *)

Definition load_back (H MD5 : list N -> list N) (name : list N) (src : node) (sel : list (list (list N)))
  : option (torrent * option torrent) :=
  match create_t H MD5 true 4 name csch0 src sel with
  | Some t => match Metainfo.build idb idb [] (opts_of MetainfoProofs.ex_opts true t) (content_of t) with
              | Some v => Some (t, load (encode v))
              | None => None
              end
  | None => None
  end.

(** a name that is not UTF-8 (create refuses it before hashing, create_content.rs; the composed
    model leaves the name open) *)
Example ex_needs_utf8_name :
  exists t, load_back ex_H ex_MD5 [255] src0 sel0 = Some (t, None).
Proof. eexists. vm_compute. reflexivity. Qed.

(** a selected component that is not UTF-8 (the walker refuses it, FilePath::from_prefix_and_path) *)
Example ex_needs_utf8_component :
  exists t, load_back ex_H ex_MD5 IN (Dir [([255], File abcde)]) [[[255]]] = Some (t, None).
Proof. eexists. vm_compute. reflexivity. Qed.

(** a selected component that is not plain: excluded by [Forall plain_path sel] already in
    create_then_verify; with it the repaired FilePath deserialiser refuses the torrent *)
Example ex_needs_plain_component :
  exists t, load_back ex_H ex_MD5 IN (Dir [([46; 46], File abcde)]) [[[46; 46]]] = Some (t, None).
Proof. eexists. vm_compute. reflexivity. Qed.

(** SHA-1 stand-in whose digests are not 20 bytes long *)
Example ex_needs_sha1_length :
  exists t, load_back idh ex_MD5 IN src0 sel0 = Some (t, None).
Proof. eexists. vm_compute. reflexivity. Qed.

(** MD5 stand-in whose digests are not 16 bytes long *)
Example ex_needs_md5_length :
  exists t, load_back ex_H idh IN src0 sel0 = Some (t, None).
Proof. eexists. vm_compute. reflexivity. Qed.

(** MD5 stand-in whose output is not made of bytes ([byte] is [N] in the models) *)
Example ex_needs_md5_bytes :
  exists t, load_back ex_H (fun _ => repeat 256 16) IN src0 sel0 = Some (t, None).
Proof. eexists. vm_compute. reflexivity. Qed.

(** a length beyond bendy's i64: not reachable by computation (a file of 2^63 bytes); the
    serialised integer is refused by the typed loader (`length` is buffered by serde's flatten and read as
    i64; the projection [load] alone does not look at the range) *)
Example ex_needs_i64_length :
  let t := {| tname := IN; tplen := 4; tpieces := []; tmode := Single (2 ^ 63) None |} in
  Metainfo.input_ok (input_of t) = false /\
  match Metainfo.build idb idb [] (opts_of MetainfoProofs.ex_opts false t) (content_of t) with
  | Some v => load_typed (fun h => Some h) (fun u => Some u) (encode v) = None
  | None => False
  end.
Proof. vm_compute. split; reflexivity. Qed.
