(** Proofs about Model/MetainfoOrder.v: the walker's path order is a strict total order, so the
    sorted file list - and with it everything create writes - is a function of the set of
    directory entries, not of the order in which the directory yields them. *)
From Coq Require Import NArith Lia Bool List Sorted Permutation.
From Imdl Require Import Model.Bencode Model.Schema Model.Metainfo Model.MetainfoOrder Proofs.SchemaProofs.
Import ListNotations.
Local Open Scope N_scope.

Section LexOrder.
  Context {A : Type} (ltb : A -> A -> bool).
  Hypothesis Hirr : forall x, ltb x x = false.
  Hypothesis Htr : forall x y z, ltb x y = true -> ltb y z = true -> ltb x z = true.
  Hypothesis Htri : forall x y, ltb x y = false -> ltb y x = false -> x = y.

  Lemma lex_irrefl a : lex_ltb ltb a a = false.
  Proof. induction a as [|x a IHa]; cbn [lex_ltb]; [reflexivity|]. rewrite Hirr. exact IHa. Qed.

  Lemma lex_tricho a : forall b, lex_ltb ltb a b = false -> lex_ltb ltb b a = false -> a = b.
  Proof.
    induction a as [|x a IHa]; intros [|y b] Hab Hba; cbn [lex_ltb] in Hab, Hba; try reflexivity; try discriminate.
    destruct (ltb x y) eqn:Exy; [discriminate|].
    destruct (ltb y x) eqn:Eyx; [discriminate|].
    rewrite (Htri x y Exy Eyx). f_equal. apply IHa; assumption.
  Qed.

  Lemma lex_trans a : forall b c, lex_ltb ltb a b = true -> lex_ltb ltb b c = true -> lex_ltb ltb a c = true.
  Proof.
    induction a as [|x a IHa]; intros [|y b] [|z c] Hab Hbc; cbn [lex_ltb] in Hab, Hbc |- *;
      try reflexivity; try discriminate.
    destruct (ltb x y) eqn:Exy.
    - destruct (ltb y z) eqn:Eyz.
      + rewrite (Htr x y z Exy Eyz). reflexivity.
      + destruct (ltb z y) eqn:Ezy; [discriminate|].
        rewrite <- (Htri y z Eyz Ezy). rewrite Exy. reflexivity.
    - destruct (ltb y x) eqn:Eyx; [discriminate|].
      rewrite (Htri x y Exy Eyx).
      destruct (ltb y z) eqn:Eyz; [reflexivity|].
      destruct (ltb z y) eqn:Ezy; [discriminate|].
      apply (IHa b c Hab Hbc).
  Qed.
End LexOrder.

(* ---------- bytes, then paths ---------- *)

Lemma bytes_ltb_is_lex : bytes_ltb = lex_ltb N.ltb.
Proof. reflexivity. Qed.

Lemma nltb_tr x y z : (x <? y) = true -> (y <? z) = true -> (x <? z) = true.
Proof. rewrite !N.ltb_lt. lia. Qed.

Lemma nltb_tri x y : (x <? y) = false -> (y <? x) = false -> x = y.
Proof. rewrite !N.ltb_ge. lia. Qed.

Lemma bytes_ltb_trans a b c : bytes_ltb a b = true -> bytes_ltb b c = true -> bytes_ltb a c = true.
Proof. rewrite bytes_ltb_is_lex. apply (lex_trans N.ltb nltb_tr nltb_tri). Qed.

Lemma path_ltb_irrefl p : path_ltb p p = false.
Proof. apply (lex_irrefl bytes_ltb bytes_ltb_irrefl). Qed.

Lemma path_ltb_trans p q r : path_ltb p q = true -> path_ltb q r = true -> path_ltb p r = true.
Proof. apply (lex_trans bytes_ltb bytes_ltb_trans (fun x y => bytes_ltb_tricho x y)). Qed.

Lemma path_ltb_tricho p q : path_ltb p q = false -> path_ltb q p = false -> p = q.
Proof. apply (lex_tricho bytes_ltb (fun x y => bytes_ltb_tricho x y)). Qed.

(* ---------- insertion sort ---------- *)

Definition file_lt (f g : file) : Prop := path_ltb (f_path f) (f_path g) = true.

Lemma insert_file_perm f l : Permutation (insert_file f l) (f :: l).
Proof.
  induction l as [|g r IHr]; cbn [insert_file]; [apply Permutation_refl|].
  destruct (path_ltb (f_path g) (f_path f)).
  - apply (Permutation_trans (perm_skip g IHr)). apply perm_swap.
  - apply Permutation_refl.
Qed.

Lemma walk_order_perm l : Permutation (walk_order l) l.
Proof.
  induction l as [|f l IHl]; cbn [walk_order fold_right]; [apply Permutation_refl|].
  apply (Permutation_trans (insert_file_perm f _)). apply perm_skip. exact IHl.
Qed.

Lemma insert_file_sorted f l :
  StronglySorted file_lt l -> (forall g, In g l -> f_path g <> f_path f) ->
  StronglySorted file_lt (insert_file f l).
Proof.
  induction l as [|g r IHr]; intros Hs Hne; cbn [insert_file].
  - constructor; constructor.
  - inversion Hs as [|? ? Hr Hall]; subst.
    destruct (path_ltb (f_path g) (f_path f)) eqn:Egf.
    + constructor.
      * apply IHr; [exact Hr|]. intros g' Hin. apply Hne. right. exact Hin.
      * apply Forall_forall. intros x Hx.
        apply (Permutation_in _ (insert_file_perm f r)) in Hx. destruct Hx as [Hx|Hx].
        -- subst x. exact Egf.
        -- rewrite Forall_forall in Hall. apply Hall. exact Hx.
    + assert (Hfg : file_lt f g).
      { unfold file_lt. destruct (path_ltb (f_path f) (f_path g)) eqn:Efg; [reflexivity|].
        exfalso. apply (Hne g (or_introl eq_refl)). apply path_ltb_tricho; assumption. }
      constructor; [exact Hs|]. constructor; [exact Hfg|].
      apply Forall_forall. intros x Hx. rewrite Forall_forall in Hall.
      unfold file_lt. apply (path_ltb_trans _ (f_path g)); [exact Hfg|apply Hall; exact Hx].
Qed.

Lemma walk_order_sorted l : NoDup (map f_path l) -> StronglySorted file_lt (walk_order l).
Proof.
  induction l as [|f l IHl]; intros Hnd; cbn [walk_order fold_right]; [constructor|].
  cbn [map] in Hnd. inversion Hnd as [|? ? Hnotin Hnd']; subst.
  apply insert_file_sorted; [apply IHl; exact Hnd'|].
  intros g Hg Heq. apply Hnotin. rewrite <- Heq. apply in_map.
  apply (Permutation_in _ (walk_order_perm l)). exact Hg.
Qed.

(** two strictly sorted lists with the same elements are the same list *)
Lemma sorted_perm_eq : forall l1 l2,
  StronglySorted file_lt l1 -> StronglySorted file_lt l2 -> Permutation l1 l2 -> l1 = l2.
Proof.
  induction l1 as [|x l1 IH]; intros l2 H1 H2 Hp.
  - apply Permutation_nil in Hp. symmetry. exact Hp.
  - destruct l2 as [|y l2]; [apply Permutation_sym, Permutation_nil in Hp; discriminate|].
    inversion H1 as [|? ? Hs1 Ha1]; subst. inversion H2 as [|? ? Hs2 Ha2]; subst.
    rewrite Forall_forall in Ha1, Ha2.
    assert (Hxy : x = y).
    { assert (Hx : In x (y :: l2)) by (apply (Permutation_in _ Hp); left; reflexivity).
      assert (Hy : In y (x :: l1)) by (apply (Permutation_in _ (Permutation_sym Hp)); left; reflexivity).
      destruct Hx as [Hx|Hx]; [symmetry; exact Hx|].
      destruct Hy as [Hy|Hy]; [exact Hy|].
      exfalso. pose proof (Ha2 x Hx) as Hyx. pose proof (Ha1 y Hy) as Hxy. unfold file_lt in Hyx, Hxy.
      pose proof (path_ltb_trans _ _ _ Hxy Hyx) as Hxx. rewrite path_ltb_irrefl in Hxx. discriminate. }
    subst y. f_equal. apply IH; [exact Hs1|exact Hs2|]. apply (Permutation_cons_inv Hp).
Qed.

(** the walker's order does not depend on the order in which the directory yields its entries *)
Theorem walk_order_of_set l1 l2 :
  NoDup (map f_path l1) -> Permutation l1 l2 -> walk_order l1 = walk_order l2.
Proof.
  intros Hnd Hp.
  assert (Hnd2 : NoDup (map f_path l2)) by (apply (Permutation_NoDup (Permutation_map f_path Hp) Hnd)).
  apply sorted_perm_eq; [apply walk_order_sorted; exact Hnd|apply walk_order_sorted; exact Hnd2|].
  apply (Permutation_trans (walk_order_perm l1)). apply (Permutation_trans Hp).
  apply Permutation_sym. apply walk_order_perm.
Qed.

(** and the result is ascending by path and has exactly the given entries *)
Theorem walk_order_spec l : NoDup (map f_path l) ->
  StronglySorted file_lt (walk_order l) /\ Permutation (walk_order l) l.
Proof. intros Hnd. split; [apply walk_order_sorted; exact Hnd|apply walk_order_perm]. Qed.

(** hence, with --no-creation-date, create's outcome is the same for every enumeration order of
    the same directory and every clock value *)
Theorem reproducible_any_order
  (norm : bytes -> bytes) (url_ok : bytes -> bool) (host_canon : bytes -> bytes) (git_suffix : bytes)
  (hash : list file -> bytes) o name l1 l2 t1 t2 :
  o_no_creation_date o = true -> NoDup (map f_path l1) -> Permutation l1 l2 ->
  run_create norm url_ok host_canon git_suffix (with_now o t1) (dir_content hash name l1) =
  run_create norm url_ok host_canon git_suffix (with_now o t2) (dir_content hash name l2).
Proof.
  intros Hn Hnd Hp. unfold dir_content. rewrite (walk_order_of_set l1 l2 Hnd Hp).
  unfold run_create, build, build_info, metainfo_entries, info_entries, tiers_of, piece_length_of, name_of, with_now.
  cbn. rewrite Hn. reflexivity.
Qed.
