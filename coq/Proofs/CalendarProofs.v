(** Proofs about Model/Calendar.v (C07, C08): the calendar text `torrent show` prints for a creation date denotes
    exactly the stored second count, for every second count. *)
From Coq Require Import Decimal DecimalN DecimalFacts.
From Coq Require Import NArith ZArith Lia ZifyBool Bool List.
From Imdl Require Import Model.Bencode Proofs.BencodeProofs Model.Calendar.
Import ListNotations.
Local Open Scope Z_scope.

Ltac Zify.zify_post_hook ::= Z.div_mod_to_equations.
(** [N.modulo] is read as [Z.rem] by zify *)
Ltac nlia := zify; Z.quot_rem_to_equations; lia.

(* ====================================================================================================== *)
(** * civil_from_days, stage by stage *)

(** stage 2: year of era and day of year, from the day of era (a 400-year era has 146097 days). The March-based
    year number [yoe] runs from 0 to 399, the day of the year from 0 to 364, or to 365 when the year that ends
    with this February - number [yoe + 1] of the era - is a leap year *)
Lemma yoe_stage doe :
  0 <= doe < 146097 ->
  let yoe := (doe - doe / 1460 + doe / 36524 - doe / 146096) / 365 in
  let doy := doe - (365 * yoe + yoe / 4 - yoe / 100) in
  0 <= yoe <= 399 /\ 0 <= doy <= 365 /\
  (doy = 365 -> (yoe + 1) mod 4 = 0 /\ ((yoe + 1) mod 100 <> 0 \/ yoe = 399)).
Proof. intros H yoe doy. subst doy yoe. lia. Qed.

Lemma leap_shift y era : is_leap (y + era * 400) = is_leap y.
Proof.
  unfold is_leap.
  replace ((y + era * 400) mod 4) with (y mod 4) by lia.
  replace ((y + era * 400) mod 100) with (y mod 100) by lia.
  replace ((y + era * 400) mod 400) with (y mod 400) by lia. reflexivity.
Qed.

Lemma leap_of_era yoe :
  0 <= yoe <= 399 -> (yoe + 1) mod 4 = 0 -> ((yoe + 1) mod 100 <> 0 \/ yoe = 399) -> is_leap (yoe + 1) = true.
Proof. intros H0 H4 H100. unfold is_leap. lia. Qed.

(** stage 3: shifted month and day of month from the day of year *)
Lemma month_stage doy :
  0 <= doy <= 365 ->
  let mp := (5 * doy + 2) / 153 in
  let d := doy - (153 * mp + 2) / 5 + 1 in
  0 <= mp <= 11 /\ 1 <= d /\ (153 * mp + 2) / 5 + d <= (153 * (mp + 1) + 2) / 5 /\ (mp = 11 -> d <= doy - 336).
Proof. intros H mp d. subst d mp. lia. Qed.

(** lengths of the months in the March-based numbering *)
Lemma shifted_month_length mp :
  0 <= mp <= 9 ->
  (153 * (mp + 1) + 2) / 5 - (153 * mp + 2) / 5 = days_in_month 1 (mp + 3).
Proof.
  intros H. assert (C : mp = 0 \/ mp = 1 \/ mp = 2 \/ mp = 3 \/ mp = 4 \/ mp = 5 \/ mp = 6 \/ mp = 7 \/ mp = 8 \/
                        mp = 9) by lia.
  repeat (destruct C as [C|C]; [subst mp; reflexivity|]). subst mp; reflexivity.
Qed.

Lemma days_in_month_not_feb y y' m : m <> 2 -> days_in_month y m = days_in_month y' m.
Proof. intros H. unfold days_in_month. destruct (Z.eqb_spec m 2); [contradiction|reflexivity]. Qed.

(** what [civil_from_days] returns: a valid date of the proleptic Gregorian calendar whose day count is the input *)
Theorem civil_from_days_spec z :
  let '(y, m, d) := civil_from_days z in
  1 <= m <= 12 /\ 1 <= d <= days_in_month y m /\ days_from_civil y m d = z /\ (z + 719468) / 146097 * 400 <= y.
Proof.
  unfold civil_from_days.
  set (zz := z + 719468). set (era := zz / 146097). set (doe := zz - era * 146097).
  assert (Hdoe : 0 <= doe < 146097) by (subst doe era; lia).
  pose proof (yoe_stage doe Hdoe) as Hy. cbv zeta in Hy.
  set (yoe := (doe - doe / 1460 + doe / 36524 - doe / 146096) / 365) in *.
  set (doy := doe - (365 * yoe + yoe / 4 - yoe / 100)) in *.
  destruct Hy as (Hyoe & Hdoy & Hleap).
  pose proof (month_stage doy Hdoy) as Hm. cbv zeta in Hm.
  set (mp := (5 * doy + 2) / 153) in *.
  set (d := doy - (153 * mp + 2) / 5 + 1) in *.
  destruct Hm as (Hmp & Hd1 & Hdlen & Hfeb).
  assert (Hdoydef : doy = (153 * mp + 2) / 5 + d - 1) by (subst d; lia).
  assert (Hdoedef : doe = yoe * 365 + yoe / 4 - yoe / 100 + doy) by (subst doy; lia).
  assert (Hzz : zz = era * 146097 + doe) by (subst doe; lia).
  clearbody d mp doy yoe doe era. clear Hdoe.
  destruct (Z.ltb_spec mp 10) as [Hlt|Hge].
  - (* March .. December *)
    destruct (Z.leb_spec (mp + 3) 2) as [Hbad|_]; [lia|].
    split; [lia|]. split.
    + split; [lia|].
      pose proof (shifted_month_length mp ltac:(lia)) as HL.
      rewrite (days_in_month_not_feb _ 1 (mp + 3)) by lia. lia.
    + split; [|lia]. unfold days_from_civil.
      destruct (Z.leb_spec (mp + 3) 2) as [Hbad|_]; [lia|].
      destruct (Z.ltb_spec 2 (mp + 3)) as [_|Hbad]; [|lia].
      replace (mp + 3 - 3) with mp by lia.
      replace ((yoe + era * 400) / 400) with era by lia.
      replace (yoe + era * 400 - era * 400) with yoe by lia. lia.
  - (* January, February *)
    destruct (Z.leb_spec (mp - 9) 2) as [_|Hbad]; [|lia].
    split; [lia|]. split.
    + split; [lia|].
      assert (C : mp = 10 \/ mp = 11) by lia. destruct C as [C|C].
      * subst mp. change (10 - 9) with 1. change (days_in_month (yoe + era * 400 + 1) 1) with 31. lia.
      * subst mp. change (11 - 9) with 2. unfold days_in_month. cbn [Z.eqb Pos.eqb].
        specialize (Hfeb eq_refl).
        destruct (is_leap (yoe + era * 400 + 1)) eqn:EL; [lia|].
        assert (doy <> 365); [|lia]. intros E365. destruct (Hleap E365) as [H4 H100].
        replace (yoe + era * 400 + 1) with (yoe + 1 + era * 400) in EL by lia.
        rewrite leap_shift, (leap_of_era yoe Hyoe H4 H100) in EL. discriminate.
    + split; [|lia]. unfold days_from_civil.
      destruct (Z.leb_spec (mp - 9) 2) as [_|Hbad]; [|lia].
      destruct (Z.ltb_spec 2 (mp - 9)) as [Hbad|_]; [lia|].
      replace (mp - 9 + 9) with mp by lia.
      replace (yoe + era * 400 + 1 - 1) with (yoe + era * 400) by lia.
      replace ((yoe + era * 400) / 400) with era by lia.
      replace (yoe + era * 400 - era * 400) with yoe by lia. lia.
Qed.

(* ====================================================================================================== *)
(** * days_from_civil is strictly monotone on valid dates *)

(** days before 1 March of year [y], counted from 1 March of year 0 *)
Definition dby (y : Z) : Z := 365 * y + y / 4 - y / 100 + y / 400.

Lemma dfc_alt y m d :
  days_from_civil y m d =
  dby (if m <=? 2 then y - 1 else y) + (153 * (if 2 <? m then m - 3 else m + 9) + 2) / 5 + d - 1 - 719468.
Proof.
  unfold days_from_civil, dby. cbv zeta.
  set (y' := if m <=? 2 then y - 1 else y). set (mp := if 2 <? m then m - 3 else m + 9).
  set (q := (153 * mp + 2) / 5). clearbody q y'. lia.
Qed.

Lemma dby_step y : dby (y + 1) = dby y + (if is_leap (y + 1) then 366 else 365).
Proof. unfold dby. destruct (is_leap (y + 1)) eqn:E; unfold is_leap in E; lia. Qed.

Lemma dby_mono a b : a <= b -> dby a <= dby b.
Proof. unfold dby. lia. Qed.

Lemma valid_date_ord y m d :
  valid_date y m d ->
  let y' := if m <=? 2 then y - 1 else y in
  let mp := if 2 <? m then m - 3 else m + 9 in
  0 <= mp <= 11 /\ 12 * y' + mp = 12 * y + m - 3 /\ 1 <= d /\
  (153 * mp + 2) / 5 + d <= (153 * (mp + 1) + 2) / 5 /\
  (153 * mp + 2) / 5 + d - 1 < (if is_leap (y' + 1) then 366 else 365).
Proof.
  intros [Hm Hd].
  assert (C : m = 1 \/ m = 2 \/ m = 3 \/ m = 4 \/ m = 5 \/ m = 6 \/ m = 7 \/ m = 8 \/ m = 9 \/ m = 10 \/ m = 11 \/ m = 12)
    by lia.
  destruct C as [C|[C|C]].
  - subst m. cbn -[Z.mul Z.add Z.sub Z.div is_leap] in *. change (days_in_month y 1) with 31 in Hd.
    destruct (is_leap (y - 1 + 1)); lia.
  - subst m. cbn -[Z.mul Z.add Z.sub Z.div is_leap] in *. replace (y - 1 + 1) with y by lia.
    unfold days_in_month in Hd. cbn [Z.eqb Pos.eqb] in Hd. destruct (is_leap y); lia.
  - assert (H2 : m <> 2) by lia. rewrite (days_in_month_not_feb y 1 m H2) in Hd.
    destruct (Z.leb_spec m 2) as [Hbad|_]; [lia|]. destruct (Z.ltb_spec 2 m) as [_|Hbad]; [|lia]. cbv zeta.
    repeat (destruct C as [C|C]; [subst m; change (days_in_month 1 _) with 31 in Hd || change (days_in_month 1 _) with 30 in Hd;
                                  destruct (is_leap (y + 1)); lia|]).
    subst m. change (days_in_month 1 _) with 31 in Hd. destruct (is_leap (y + 1)); lia.
Qed.

Theorem days_from_civil_mono y1 m1 d1 y2 m2 d2 :
  valid_date y1 m1 d1 -> valid_date y2 m2 d2 ->
  (y1 < y2 \/ y1 = y2 /\ (m1 < m2 \/ m1 = m2 /\ d1 < d2)) ->
  days_from_civil y1 m1 d1 < days_from_civil y2 m2 d2.
Proof.
  intros V1 V2 Hlt. rewrite !dfc_alt.
  pose proof (valid_date_ord _ _ _ V1) as O1. pose proof (valid_date_ord _ _ _ V2) as O2. cbv zeta in O1, O2.
  set (ya := if m1 <=? 2 then y1 - 1 else y1) in *. set (pa := if 2 <? m1 then m1 - 3 else m1 + 9) in *.
  set (yb := if m2 <=? 2 then y2 - 1 else y2) in *. set (pb := if 2 <? m2 then m2 - 3 else m2 + 9) in *.
  destruct O1 as (Hpa & Hka & Hda & Hla & Hya). destruct O2 as (Hpb & Hkb & Hdb & Hlb & Hyb).
  clearbody ya pa yb pb. destruct V1 as [Hm1 _]. destruct V2 as [Hm2 _].
  assert (Hord : 12 * ya + pa < 12 * yb + pb \/ (ya = yb /\ pa = pb /\ d1 < d2)) by lia.
  assert (Hqa : 0 <= (153 * pa + 2) / 5) by lia. assert (Hqb : 0 <= (153 * pb + 2) / 5) by lia.
  assert (C : ya < yb \/ (ya = yb /\ pa < pb) \/ (ya = yb /\ pa = pb /\ d1 < d2)) by lia.
  destruct C as [C|[[Ey C]|(Ey & Ep & C)]].
  - pose proof (dby_mono (ya + 1) yb ltac:(lia)) as Hm. rewrite dby_step in Hm.
    set (qa := (153 * pa + 2) / 5) in *. set (qb := (153 * pb + 2) / 5) in *. clearbody qa qb.
    destruct (is_leap (ya + 1)); lia.
  - subst yb. assert ((153 * (pa + 1) + 2) / 5 <= (153 * pb + 2) / 5) by lia.
    set (qa := (153 * pa + 2) / 5) in *. set (qb := (153 * pb + 2) / 5) in *. clearbody qa qb. lia.
  - subst yb pb. lia.
Qed.

(* ====================================================================================================== *)
(** * the six fields of a second count *)

Lemma valid_stamp_props s :
  valid_stamp s = true <->
  valid_date (Z.of_N (s_year s)) (Z.of_N (s_month s)) (Z.of_N (s_day s)) /\
  (s_hour s < 24)%N /\ (s_min s < 60)%N /\ (s_sec s < 60)%N.
Proof.
  unfold valid_stamp, valid_date. rewrite !andb_true_iff.
  rewrite !N.leb_le, !N.ltb_lt, Z.leb_le. intuition lia.
Qed.

(** (a, b) the fields of every second count form a valid date and time of day, and denote that second count *)
Theorem fields_spec n : valid_stamp (fields n) = true /\ secs_of (fields n) = Z.of_N n /\ (1600 <= s_year (fields n))%N.
Proof.
  unfold fields, secs_of, civil_to_secs_z.
  pose proof (civil_from_days_spec (Z.of_N (n / 86400))) as H.
  destruct (civil_from_days (Z.of_N (n / 86400))) as [[y m] d].
  destruct H as (Hm & Hd & Hdfc & Hy).
  assert (Hy0 : 1600 <= y) by lia.
  cbn [s_year s_month s_day s_hour s_min s_sec].
  split; [|split].
  - apply valid_stamp_props. cbn [s_year s_month s_day s_hour s_min s_sec]. unfold valid_date.
    rewrite !Z2N.id by lia. split; [split; assumption|]. clear. nlia.
  - rewrite !Z2N.id by lia. rewrite Hdfc. clear. nlia.
  - lia.
Qed.

Lemma stamp_eq a b :
  s_year a = s_year b -> s_month a = s_month b -> s_day a = s_day b -> s_hour a = s_hour b -> s_min a = s_min b ->
  s_sec a = s_sec b -> a = b.
Proof. destruct a, b; cbn; intros; subst; reflexivity. Qed.

Lemma stamp_trichotomy a b : stamp_lt a b \/ a = b \/ stamp_lt b a.
Proof.
  unfold stamp_lt.
  destruct (N.lt_trichotomy (s_year a) (s_year b)) as [H|[Ey|H]]; [lia| |lia].
  destruct (N.lt_trichotomy (s_month a) (s_month b)) as [H|[Em|H]]; [lia| |lia].
  destruct (N.lt_trichotomy (s_day a) (s_day b)) as [H|[Ed|H]]; [lia| |lia].
  destruct (N.lt_trichotomy (s_hour a) (s_hour b)) as [H|[Eh|H]]; [lia| |lia].
  destruct (N.lt_trichotomy (s_min a) (s_min b)) as [H|[Ei|H]]; [lia| |lia].
  destruct (N.lt_trichotomy (s_sec a) (s_sec b)) as [H|[Es|H]]; [lia| |lia].
  right; left. apply stamp_eq; assumption.
Qed.

(** the second count is strictly monotone in the natural order of the fields, on valid stamps *)
Theorem secs_of_mono a b : valid_stamp a = true -> valid_stamp b = true -> stamp_lt a b -> secs_of a < secs_of b.
Proof.
  intros Va Vb Hlt. apply valid_stamp_props in Va, Vb.
  destruct Va as (Da & Ha & Ia & Sa). destruct Vb as (Db & Hb & Ib & Sb).
  unfold secs_of, civil_to_secs_z. unfold stamp_lt in Hlt.
  assert (C : (Z.of_N (s_year a) < Z.of_N (s_year b) \/ Z.of_N (s_year a) = Z.of_N (s_year b) /\
               (Z.of_N (s_month a) < Z.of_N (s_month b) \/ Z.of_N (s_month a) = Z.of_N (s_month b) /\
                Z.of_N (s_day a) < Z.of_N (s_day b))) \/
              (s_year a = s_year b /\ s_month a = s_month b /\ s_day a = s_day b /\
               ((s_hour a < s_hour b)%N \/ s_hour a = s_hour b /\
                ((s_min a < s_min b)%N \/ s_min a = s_min b /\ (s_sec a < s_sec b)%N)))) by lia.
  destruct C as [C|(Ey & Em & Ed & C)].
  - pose proof (days_from_civil_mono _ _ _ _ _ _ Da Db C) as Hd. lia.
  - rewrite Ey, Em, Ed. lia.
Qed.

(** (c) the fields are strictly monotone in the second count, and determine it *)
Theorem fields_mono n1 n2 : (n1 < n2)%N -> stamp_lt (fields n1) (fields n2).
Proof.
  intros Hlt. destruct (fields_spec n1) as (V1 & S1 & _). destruct (fields_spec n2) as (V2 & S2 & _).
  destruct (stamp_trichotomy (fields n1) (fields n2)) as [H|[H|H]]; [exact H| |].
  - rewrite H in S1. lia.
  - pose proof (secs_of_mono _ _ V2 V1 H). lia.
Qed.

Theorem fields_inj n1 n2 : fields n1 = fields n2 -> n1 = n2.
Proof.
  intros H. destruct (fields_spec n1) as (_ & S1 & _). destruct (fields_spec n2) as (_ & S2 & _).
  rewrite H in S1. lia.
Qed.

Theorem fields_mono_iff n1 n2 : (n1 < n2)%N <-> stamp_lt (fields n1) (fields n2).
Proof.
  split; [apply fields_mono|]. intros H.
  destruct (fields_spec n1) as (V1 & S1 & _). destruct (fields_spec n2) as (V2 & S2 & _).
  pose proof (secs_of_mono _ _ V1 V2 H). lia.
Qed.

Lemma stamp_secs_eq s : stamp_secs s = Z.to_N (secs_of s).
Proof. reflexivity. Qed.

Lemma stamp_secs_fields n : stamp_secs (fields n) = n.
Proof. rewrite stamp_secs_eq. destruct (fields_spec n) as (_ & S & _). rewrite S. apply N2Z.id. Qed.

(* ====================================================================================================== *)
(** * chrono's range *)

Lemma fields_year n : s_year (fields n) = Z.to_N (fst (fst (civil_from_days (Z.of_N (n / 86400))))).
Proof. unfold fields. destruct (civil_from_days (Z.of_N (n / 86400))) as [[y m] d]. reflexivity. Qed.

Lemma year_mono n1 n2 : (n1 <= n2)%N -> (s_year (fields n1) <= s_year (fields n2))%N.
Proof.
  intros H. destruct (N.eq_dec n1 n2) as [E|E]; [subst; lia|].
  pose proof (fields_mono n1 n2 ltac:(lia)) as Hlt. unfold stamp_lt in Hlt. lia.
Qed.

Lemma fields_cal_max :
  fields cal_max = {| s_year := 262142; s_month := 12; s_day := 31; s_hour := 23; s_min := 59; s_sec := 59 |}.
Proof. vm_compute. reflexivity. Qed.

Lemma fields_after_cal_max :
  fields (cal_max + 1) = {| s_year := 262143; s_month := 1; s_day := 1; s_hour := 0; s_min := 0; s_sec := 0 |}.
Proof. vm_compute. reflexivity. Qed.

Lemma max_year_is_chrono's : max_year = Z.shiftr i32_max 13 - 1 /\ min_year = Z.shiftr (- i32_max - 1) 13 + 1.
Proof. split; reflexivity. Qed.

(** (d) chrono's checks (i64, the day number within i32 twice, the year within MIN_YEAR ..= MAX_YEAR) accept exactly
    the second counts up to [cal_max] = 8210266876799, the last second of the year 262142 *)
Theorem accepts_iff n : chrono_accepts n = true <-> (n <= cal_max)%N.
Proof.
  unfold chrono_accepts.
  pose proof (civil_from_days_spec (Z.of_N (n / 86400))) as Hs. pose proof (fields_year n) as Hy.
  destruct (civil_from_days (Z.of_N (n / 86400))) as [[y m] d]. cbn [fst] in Hy.
  destruct Hs as (_ & _ & _ & Hy0). assert (Hy1 : 0 <= y) by lia. clear Hy0.
  rewrite !andb_true_iff, N.ltb_lt, !Z.leb_le. unfold i32_max, unix_epoch_day, min_year, max_year.
  split.
  - intros (_ & _ & Hmax).
    destruct (N.le_gt_cases n cal_max) as [Hle|Hgt]; [exact Hle|exfalso].
    pose proof (year_mono (cal_max + 1) n ltac:(lia)) as Hm. rewrite fields_after_cal_max in Hm.
    cbn [s_year] in Hm. lia.
  - intros Hle. pose proof (year_mono n cal_max Hle) as Hm. rewrite fields_cal_max in Hm. cbn [s_year] in Hm.
    unfold cal_max in Hle. split; [split|]; [lia|lia|lia].
Qed.

Theorem cal_some n t : cal n = Some t <-> (n <= cal_max)%N /\ t = stamp_text (fields n).
Proof.
  unfold cal. destruct (chrono_accepts n) eqn:E.
  - apply accepts_iff in E. split; [intros H; inversion H; auto|intros [_ ->]; reflexivity].
  - split; [discriminate|]. intros [H _]. apply accepts_iff in H. congruence.
Qed.

Theorem cal_none_iff n : cal n = None <-> (cal_max < n)%N.
Proof.
  unfold cal. destruct (chrono_accepts n) eqn:E.
  - apply accepts_iff in E. split; [discriminate|lia].
  - split; [intros _|reflexivity]. destruct (N.le_gt_cases n cal_max) as [H|H]; [|exact H].
    apply accepts_iff in H. congruence.
Qed.

(* ====================================================================================================== *)
(** * the text and its reader *)
Local Open Scope N_scope.

Lemma digit_val_digit k : k <= 9 -> digit_val (48 + k) = Some k.
Proof.
  intros H. unfold digit_val. replace ((48 <=? 48 + k) && (48 + k <=? 57)) with true by lia. f_equal. lia.
Qed.

Lemma two_digits n : n < 100 -> exists a b, two n = [a; b] /\ digit a /\ digit b.
Proof. intros H. unfold two, digit. eexists _, _. split; [reflexivity|]. nlia. Qed.

Lemma take_two_two n r : n < 100 -> take_two (two n ++ r) = Some (n, r).
Proof.
  intros H. unfold two, take_two. cbn [app]. rewrite !digit_val_digit by nlia. f_equal. f_equal. nlia.
Qed.

Lemma hd_is_same c r : hd_is c (c :: r) = Some r.
Proof. cbn [hd_is]. rewrite N.eqb_refl. reflexivity. Qed.

Lemma hd_is_two_none c n r : c < 48 -> hd_is c (two n ++ r) = None.
Proof. intros H. unfold two. cbn [app hd_is]. destruct (N.eqb_spec (48 + n / 10) c); [lia|reflexivity]. Qed.

Lemma parse_year_text y r : parse_year (year_text y ++ 45 :: r) = Some (y, 45 :: r).
Proof.
  unfold year_text, parse_year. destruct (N.leb_spec y 9999) as [Hle|Hgt].
  - rewrite <- app_assoc. rewrite hd_is_two_none by lia.
    rewrite take_two_two by nlia. rewrite take_two_two by nlia. f_equal. f_equal. nlia.
  - cbn [app]. rewrite hd_is_same. unfold dec. rewrite take_digits_app by reflexivity.
    rewrite to_uint_canon, DecimalN.Unsigned.of_to. replace (9999 <? y) with true by lia. reflexivity.
Qed.

Lemma suffix_eqb_refl a : suffix_eqb a a = true.
Proof. induction a as [|x a IH]; cbn; [reflexivity|]. rewrite N.eqb_refl. exact IH. Qed.

(** the reader takes the text of every valid stamp from 1970 on back to its second count *)
Theorem parse_stamp_text s :
  valid_stamp s = true -> (0 <= secs_of s)%Z -> cal_parse (stamp_text s) = Some (stamp_secs s).
Proof.
  intros V Hpos. pose proof V as V'. apply valid_stamp_props in V'. destruct V' as ([Hm Hd] & Hh & Hi & Hs).
  assert (Hd31 : s_day s < 100).
  { assert (days_in_month (Z.of_N (s_year s)) (Z.of_N (s_month s)) <= 31)%Z; [|lia].
    unfold days_in_month. destruct (Z.of_N (s_month s) =? 2)%Z; [destruct (is_leap _); lia|].
    destruct (_ || _); lia. }
  destruct s as [y m d hh mm ss]. cbn [s_year s_month s_day s_hour s_min s_sec] in *.
  unfold cal_parse, stamp_text. cbn [s_year s_month s_day s_hour s_min s_sec]. cbn [app].
  rewrite parse_year_text, hd_is_same.
  rewrite take_two_two by lia. rewrite hd_is_same.
  rewrite take_two_two by lia. rewrite hd_is_same.
  rewrite take_two_two by lia. rewrite hd_is_same.
  rewrite take_two_two by lia. rewrite hd_is_same.
  rewrite take_two_two by lia.
  rewrite suffix_eqb_refl, V. unfold secs_of in Hpos. cbn [s_year s_month s_day s_hour s_min s_sec] in Hpos.
  apply Z.leb_le in Hpos. rewrite Hpos. reflexivity.
Qed.

(** (a) the printed text denotes exactly the stored second count *)
Theorem cal_parse_cal n t : cal n = Some t -> cal_parse t = Some n.
Proof.
  intros H. apply cal_some in H. destruct H as [_ ->].
  destruct (fields_spec n) as (V & S & _).
  rewrite (parse_stamp_text _ V) by lia. f_equal. apply stamp_secs_fields.
Qed.

(** (c) two second counts with the same text are the same *)
Theorem cal_inj n1 n2 t : cal n1 = Some t -> cal n2 = Some t -> n1 = n2.
Proof. intros H1 H2. apply cal_parse_cal in H1, H2. congruence. Qed.

(* ---------- shape ---------- *)
Lemma uint_bytes_digits u : Forall digit (uint_bytes u).
Proof. unfold digit. induction u; cbn [uint_bytes]; constructor; try assumption; lia. Qed.

Lemma dec_digits n : Forall digit (dec n).
Proof. apply uint_bytes_digits. Qed.

Lemma uint_bytes_inj u v : uint_bytes u = uint_bytes v -> u = v.
Proof.
  revert v. induction u; intros v H; destruct v; cbn [uint_bytes] in H; try discriminate; try reflexivity;
    injection H as H; f_equal; apply IHu; exact H.
Qed.

Lemma dec_inj a b : dec a = dec b -> a = b.
Proof. unfold dec. intros H. apply uint_bytes_inj in H. apply DecimalN.Unsigned.to_uint_inj. exact H. Qed.

Definition tail_text (s : stamp) : bytes :=
  45 :: two (s_month s) ++ 45 :: two (s_day s) ++ 32 :: two (s_hour s) ++ 58 :: two (s_min s) ++ 58 :: two (s_sec s) ++
  [32; 85; 84; 67].

Lemma stamp_text_split s : stamp_text s = year_text (s_year s) ++ tail_text s.
Proof. reflexivity. Qed.

Lemma tail_text_shape s :
  valid_stamp s = true ->
  exists m1 m2 d1 d2 h1 h2 i1 i2 s1 s2,
    tail_text s = [45; m1; m2; 45; d1; d2; 32; h1; h2; 58; i1; i2; 58; s1; s2; 32; 85; 84; 67] /\
    digit m1 /\ digit m2 /\ digit d1 /\ digit d2 /\ digit h1 /\ digit h2 /\ digit i1 /\ digit i2 /\ digit s1 /\ digit s2.
Proof.
  intros V. apply valid_stamp_props in V. destruct V as ([Hm Hd] & Hh & Hi & Hs).
  assert (Hd31 : s_day s < 100).
  { assert (days_in_month (Z.of_N (s_year s)) (Z.of_N (s_month s)) <= 31)%Z; [|lia].
    unfold days_in_month. destruct (Z.of_N (s_month s) =? 2)%Z; [destruct (is_leap _); lia|].
    destruct (_ || _); lia. }
  unfold tail_text.
  destruct (two_digits (s_month s) ltac:(lia)) as (m1 & m2 & -> & ? & ?).
  destruct (two_digits (s_day s) ltac:(lia)) as (d1 & d2 & -> & ? & ?).
  destruct (two_digits (s_hour s) ltac:(lia)) as (h1 & h2 & -> & ? & ?).
  destruct (two_digits (s_min s) ltac:(lia)) as (i1 & i2 & -> & ? & ?).
  destruct (two_digits (s_sec s) ltac:(lia)) as (s1 & s2 & -> & ? & ?).
  exists m1, m2, d1, d2, h1, h2, i1, i2, s1, s2. cbn [app]. split; [reflexivity|]. repeat (split; [assumption|]). assumption.
Qed.

Lemma year_text_shape y :
  (y <= 9999 /\ exists a b c d, year_text y = [a; b; c; d] /\ digit a /\ digit b /\ digit c /\ digit d) \/
  (9999 < y /\ year_text y = 43 :: dec y).
Proof.
  unfold year_text. destruct (N.leb_spec y 9999) as [Hle|Hgt]; [left|right; split; [exact Hgt|reflexivity]].
  split; [exact Hle|].
  destruct (two_digits (y / 100) ltac:(nlia)) as (a & b & -> & ? & ?).
  destruct (two_digits (y mod 100) ltac:(nlia)) as (c & d & -> & ? & ?).
  exists a, b, c, d. cbn [app]. split; [reflexivity|]. repeat (split; [assumption|]). assumption.
Qed.

(** the first second of the year 10000 *)
Lemma fields_year_10000 :
  fields 253402300800 = {| s_year := 10000; s_month := 1; s_day := 1; s_hour := 0; s_min := 0; s_sec := 0 |} /\
  fields 253402300799 = {| s_year := 9999; s_month := 12; s_day := 31; s_hour := 23; s_min := 59; s_sec := 59 |}.
Proof. split; vm_compute; reflexivity. Qed.

Lemma four_digit_year_iff n : s_year (fields n) <= 9999 <-> n < 253402300800.
Proof.
  destruct fields_year_10000 as [E1 E0]. split; intros H.
  - destruct (N.lt_ge_cases n 253402300800) as [Hlt|Hge]; [exact Hlt|].
    pose proof (year_mono _ _ Hge) as Hm. rewrite E1 in Hm. cbn [s_year] in Hm. lia.
  - pose proof (year_mono n 253402300799 ltac:(lia)) as Hm. rewrite E0 in Hm. cbn [s_year] in Hm. exact Hm.
Qed.

(** (f) layout: up to 9999-12-31 23:59:59 the text is the 23 bytes `YYYY-MM-DD HH:MM:SS UTC`; from the year 10000 on
    it is `+`, the year in decimal, and the same 19-byte tail; every byte is ASCII *)
Theorem cal_shape n t :
  cal n = Some t ->
  (exists m1 m2 d1 d2 h1 h2 i1 i2 s1 s2,
     let tail := [45; m1; m2; 45; d1; d2; 32; h1; h2; 58; i1; i2; 58; s1; s2; 32; 85; 84; 67] in
     digit m1 /\ digit m2 /\ digit d1 /\ digit d2 /\ digit h1 /\ digit h2 /\ digit i1 /\ digit i2 /\ digit s1 /\ digit s2 /\
     ((n < 253402300800 /\ exists a b c d, t = [a; b; c; d] ++ tail /\ digit a /\ digit b /\ digit c /\ digit d) \/
      (253402300800 <= n /\ 9999 < s_year (fields n) /\ t = 43 :: dec (s_year (fields n)) ++ tail))) /\
  Forall (fun b => b < 128) t.
Proof.
  intros H. apply cal_some in H. destruct H as [_ ->].
  destruct (fields_spec n) as (V & _ & _). rewrite stamp_text_split.
  destruct (tail_text_shape _ V) as (m1 & m2 & d1 & d2 & h1 & h2 & i1 & i2 & s1 & s2 & -> & Hdig).
  assert (Htail : Forall (fun b => b < 128) [45; m1; m2; 45; d1; d2; 32; h1; h2; 58; i1; i2; 58; s1; s2; 32; 85; 84; 67]).
  { unfold digit in Hdig. repeat constructor; lia. }
  pose proof (four_digit_year_iff n) as H4.
  destruct (year_text_shape (s_year (fields n))) as [(Hle & a & b & c & d & -> & Ha & Hb & Hc & Hd)|(Hgt & ->)].
  - split.
    + exists m1, m2, d1, d2, h1, h2, i1, i2, s1, s2. cbv zeta. repeat (split; [tauto|]). left.
      split; [apply H4; exact Hle|]. exists a, b, c, d. split; [reflexivity|]. repeat (split; [assumption|]). assumption.
    + apply Forall_app. split; [|exact Htail]. unfold digit in *. repeat constructor; lia.
  - split.
    + exists m1, m2, d1, d2, h1, h2, i1, i2, s1, s2. cbv zeta. repeat (split; [tauto|]). right.
      split; [|split; [exact Hgt|reflexivity]]. destruct (N.lt_ge_cases n 253402300800) as [Hlt|Hge]; [|exact Hge].
      apply H4 in Hlt. lia.
    + change (43 :: dec (s_year (fields n))) with ([43] ++ dec (s_year (fields n))). rewrite <- app_assoc.
      apply Forall_app. split; [repeat constructor; lia|]. apply Forall_app. split; [|exact Htail].
      eapply Forall_impl; [|apply dec_digits]. unfold digit. intros b Hb. cbv beta in Hb. lia.
Qed.

Corollary cal_length n t : cal n = Some t -> n < 253402300800 -> length t = 23%nat.
Proof.
  intros H Hn. destruct (cal_shape n t H) as [(m1 & m2 & d1 & d2 & h1 & h2 & i1 & i2 & s1 & s2 & Hs) _].
  cbv zeta in Hs. destruct Hs as (_ & _ & _ & _ & _ & _ & _ & _ & _ & _ & [(_ & a & b & c & d & -> & _)|(Hge & _)]);
    [reflexivity|lia].
Qed.

(* ---------- the Creation Date row ---------- *)
Lemma space_in_stamp_text s : In 32 (stamp_text s).
Proof.
  rewrite stamp_text_split. apply in_or_app. right. unfold tail_text, two. cbn [app].
  do 6 right. left. reflexivity.
Qed.

Lemma no_space_in_dec n : ~ In 32 (dec n).
Proof.
  intros H. pose proof (dec_digits n) as F. rewrite Forall_forall in F. apply F in H. unfold digit in H. lia.
Qed.

(** (e) the text of the Creation Date row - the calendar text when chrono has one, the decimal digits otherwise -
    determines the stored integer: calendar texts are read back by [cal_parse], decimal numerals by their value, and a
    calendar text (it contains a space) is never a decimal numeral *)
Theorem creation_date_text_inj n1 n2 : creation_date_text n1 = creation_date_text n2 -> n1 = n2.
Proof.
  unfold creation_date_text. destruct (cal n1) as [t1|] eqn:E1; destruct (cal n2) as [t2|] eqn:E2; intros H.
  - subst t2. exact (cal_inj _ _ _ E1 E2).
  - exfalso. apply cal_some in E1. destruct E1 as [_ ->]. apply (no_space_in_dec n2). rewrite <- H.
    apply space_in_stamp_text.
  - exfalso. apply cal_some in E2. destruct E2 as [_ ->]. apply (no_space_in_dec n1). rewrite H.
    apply space_in_stamp_text.
  - apply dec_inj. exact H.
Qed.

(** ... and which of the two forms a row has is decided by the range alone *)
Theorem creation_date_text_forms n :
  (n <= cal_max /\ creation_date_text n = stamp_text (fields n)) \/ (cal_max < n /\ creation_date_text n = dec n).
Proof.
  unfold creation_date_text. destruct (cal n) as [t|] eqn:E.
  - apply cal_some in E. left. tauto.
  - apply cal_none_iff in E. right. tauto.
Qed.

(** (b), (c) restated on [cal]: validity of what is printed and strict monotonicity *)
Theorem cal_fields_valid n : valid_stamp (fields n) = true.
Proof. apply fields_spec. Qed.

Theorem cal_valid_fields n :
  let s := fields n in
  1 <= s_month s <= 12 /\ (1 <= Z.of_N (s_day s) <= days_in_month (Z.of_N (s_year s)) (Z.of_N (s_month s)))%Z /\
  s_hour s < 24 /\ s_min s < 60 /\ s_sec s < 60.
Proof.
  cbv zeta. pose proof (cal_fields_valid n) as V. apply valid_stamp_props in V. unfold valid_date in V. lia.
Qed.

(* ====================================================================================================== *)
(** * the reader accepts nothing but printed texts *)

Lemma digit_val_inv b k : digit_val b = Some k -> b = 48 + k /\ k <= 9.
Proof.
  unfold digit_val. destruct ((48 <=? b) && (b <=? 57)) eqn:E; [|discriminate].
  intros H. injection H as <-. lia.
Qed.

Lemma take_two_inv t n r : take_two t = Some (n, r) -> t = two n ++ r /\ n < 100.
Proof.
  unfold take_two. destruct t as [|a [|b t]]; try discriminate.
  destruct (digit_val a) as [x|] eqn:Ea; [|discriminate]. destruct (digit_val b) as [y|] eqn:Eb; [|discriminate].
  intros H. assert (Hn : n = 10 * x + y) by congruence. assert (Hr : r = t) by congruence. subst n r. clear H.
  apply digit_val_inv in Ea, Eb. destruct Ea as [-> Hx]. destruct Eb as [-> Hy].
  unfold two. cbn [app]. split; [|lia]. f_equal; [|f_equal]; f_equal; nlia.
Qed.

Lemma parse_year_inv t y r : parse_year t = Some (y, r) -> t = year_text y ++ r.
Proof.
  unfold parse_year. destruct (hd_is 43 t) as [r1|] eqn:E43.
  - apply hd_is_some in E43. subst t. destruct (take_digits r1) as [u r'] eqn:Ed.
    destruct (canon u) eqn:Ec; [|discriminate]. destruct (N.ltb_spec 9999 (N.of_uint u)) as [Hgt|]; [|discriminate].
    cbn [andb]. intros H. injection H as <- <-. apply take_digits_exact in Ed. subst r1.
    unfold year_text. destruct (N.leb_spec (N.of_uint u) 9999) as [Hbad|_]; [lia|].
    unfold dec. rewrite DecimalN.Unsigned.to_of, (canon_unorm _ Ec). reflexivity.
  - destruct (take_two t) as [[hi r1]|] eqn:E1; [|discriminate].
    destruct (take_two r1) as [[lo r2]|] eqn:E2; [|discriminate].
    intros H. assert (Hn : y = 100 * hi + lo) by congruence. assert (Hr : r = r2) by congruence. subst y r. clear H.
    apply take_two_inv in E1, E2. destruct E1 as [-> Hhi]. destruct E2 as [-> Hlo].
    unfold year_text. destruct (N.leb_spec (100 * hi + lo) 9999) as [_|Hbad]; [|lia].
    replace ((100 * hi + lo) / 100) with hi by nlia. replace ((100 * hi + lo) mod 100) with lo by nlia.
    rewrite <- app_assoc. reflexivity.
Qed.

Lemma suffix_eqb_eq a b : suffix_eqb a b = true -> a = b.
Proof.
  revert b. induction a as [|x a IH]; intros [|y b] H; cbn in H; try discriminate; [reflexivity|].
  apply andb_true_iff in H. destruct H as [Hxy H]. apply N.eqb_eq in Hxy. subst y. f_equal. apply IH. exact H.
Qed.

Lemma cal_parse_inv t n :
  cal_parse t = Some n ->
  exists s, valid_stamp s = true /\ (0 <= secs_of s)%Z /\ t = stamp_text s /\ n = stamp_secs s.
Proof.
  unfold cal_parse.
  destruct (parse_year t) as [[y r0]|] eqn:Ey; [|discriminate]. apply parse_year_inv in Ey. subst t.
  destruct (hd_is 45 r0) as [r1|] eqn:E1; [|discriminate]. apply hd_is_some in E1. subst r0.
  destruct (take_two r1) as [[m r2]|] eqn:E2; [|discriminate]. apply take_two_inv in E2. destruct E2 as [-> _].
  destruct (hd_is 45 r2) as [r3|] eqn:E3; [|discriminate]. apply hd_is_some in E3. subst r2.
  destruct (take_two r3) as [[d r4]|] eqn:E4; [|discriminate]. apply take_two_inv in E4. destruct E4 as [-> _].
  destruct (hd_is 32 r4) as [r5|] eqn:E5; [|discriminate]. apply hd_is_some in E5. subst r4.
  destruct (take_two r5) as [[hh r6]|] eqn:E6; [|discriminate]. apply take_two_inv in E6. destruct E6 as [-> _].
  destruct (hd_is 58 r6) as [r7|] eqn:E7; [|discriminate]. apply hd_is_some in E7. subst r6.
  destruct (take_two r7) as [[mm r8]|] eqn:E8; [|discriminate]. apply take_two_inv in E8. destruct E8 as [-> _].
  destruct (hd_is 58 r8) as [r9|] eqn:E9; [|discriminate]. apply hd_is_some in E9. subst r8.
  destruct (take_two r9) as [[ss r10]|] eqn:E10; [|discriminate]. apply take_two_inv in E10. destruct E10 as [-> _].
  destruct (suffix_eqb r10 utc_suffix) eqn:Es; [|discriminate]. apply suffix_eqb_eq in Es. subst r10.
  set (s := {| s_year := y; s_month := m; s_day := d; s_hour := hh; s_min := mm; s_sec := ss |}).
  destruct (valid_stamp s) eqn:V; [|discriminate].
  destruct (Z.leb_spec 0 (civil_to_secs_z y m d hh mm ss)) as [Hpos|]; [|discriminate].
  cbn [andb]. intros H. injection H as <-. exists s. split; [exact V|]. split; [exact Hpos|]. split; reflexivity.
Qed.

(** the fields of the second count of a valid stamp from 1970 on are that stamp *)
Theorem fields_stamp_secs s : valid_stamp s = true -> (0 <= secs_of s)%Z -> fields (stamp_secs s) = s.
Proof.
  intros V Hpos. destruct (fields_spec (stamp_secs s)) as (V' & S' & _).
  rewrite stamp_secs_eq, Z2N.id in S' by exact Hpos. rewrite stamp_secs_eq in V'.
  destruct (stamp_trichotomy (fields (Z.to_N (secs_of s))) s) as [H|[H|H]].
  - pose proof (secs_of_mono _ _ V' V H). lia.
  - rewrite stamp_secs_eq. exact H.
  - pose proof (secs_of_mono _ _ V V' H). lia.
Qed.

(** [cal_parse] reads exactly the texts [cal] prints: the text denotes [n] if and only if it is the text of [n] *)
Theorem cal_parse_exact t n : cal_parse t = Some n -> t = stamp_text (fields n).
Proof.
  intros H. destruct (cal_parse_inv _ _ H) as (s & V & Hpos & -> & ->).
  rewrite (fields_stamp_secs s V Hpos). reflexivity.
Qed.

Theorem cal_parse_iff t n : (n <= cal_max)%N -> (cal n = Some t <-> cal_parse t = Some n).
Proof.
  intros Hle. split; [apply cal_parse_cal|]. intros H. apply cal_some. split; [exact Hle|]. apply cal_parse_exact. exact H.
Qed.
