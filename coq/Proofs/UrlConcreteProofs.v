(** X14 - what the older theorems assumed of the url crate's `Section` variables, PROVED of the concrete instances of
    Model/UrlConcrete.v (reusing X9's Proofs/UrlHostProofs.v, X10's Proofs/UrlNormProofs.v, C17's Proofs/HostPortProofs.v):
    identity on normal forms, idempotence, results in normal form and visible ASCII, a printed host:port is its own normal
    form, the stored host reads back as the same host and is printed as Display prints it. *)
From Coq Require Import Decimal DecimalN DecimalFacts.
From Coq Require Import NArith ZArith Bool List Lia ZifyN ZifyBool.
From Imdl Require Import Model.Bencode Model.HostPort Model.UrlHost Model.UrlNorm Model.UrlConcrete.
From Imdl Require Import Proofs.HostPortProofs Proofs.UrlHostProofs Proofs.UrlNormProofs.
From Imdl Require Model.Metainfo Proofs.MetainfoProofs Model.Crash.
Import ListNotations.
Local Open Scope N_scope.

(* ================================================================== Url *)

Lemma c_url_norm_spec t u : c_url_norm t = Some u <-> u_norm t = Some (Some u).
Proof. unfold c_url_norm. destruct (u_norm t) as [[v|]|]; split; intros H; try discriminate; congruence. Qed.

Lemma c_url_norm_in_fragment t u : c_url_norm t = Some u -> url_in_fragment t = true.
Proof. intros H. apply c_url_norm_spec in H. unfold url_in_fragment. rewrite H. reflexivity. Qed.

(** identity on normal forms *)
Theorem c_url_norm_fixed u : is_normal_url u = true -> c_url_norm u = Some u.
Proof. intros H. apply c_url_norm_spec, u_norm_fixed, H. Qed.

(** only normal forms are returned ... *)
Theorem c_url_norm_normal t u : c_url_norm t = Some u -> is_normal_url u = true.
Proof. intros H. apply c_url_norm_spec in H. exact (u_norm_normal t u H). Qed.

(** ... hence idempotence *)
Theorem c_url_norm_idempotent t u : c_url_norm t = Some u -> c_url_norm u = Some u.
Proof. intros H. apply c_url_norm_fixed. exact (c_url_norm_normal t u H). Qed.

Theorem c_url_norm_fixed_iff u : c_url_norm u = Some u <-> is_normal_url u = true.
Proof. split; [apply c_url_norm_normal|apply c_url_norm_fixed]. Qed.

(** a normal form is visible ASCII *)
Theorem c_url_norm_ascii t u : c_url_norm t = Some u -> forallb (fun b => (32 <? b) && (b <? 127)) u = true.
Proof. intros H. apply c_url_norm_spec in H. exact (u_norm_ascii t u H). Qed.

Lemma visible_lt128 u : forallb (fun b => (32 <? b) && (b <? 127)) u = true -> forallb (fun b => b <? 128) u = true.
Proof. apply forallb_impl. intros b H. lia. Qed.

Theorem c_url_norm_all_fixed ts : forallb is_normal_url ts = true -> Forall (fun t => c_url_norm t = Some t) ts.
Proof. intros H. apply Forall_forall. intros t Hin. rewrite forallb_forall in H. apply c_url_norm_fixed, H, Hin. Qed.

Theorem c_norm_fixed u : is_normal_url u = true -> c_norm u = u.
Proof. intros H. unfold c_norm. rewrite (u_norm_fixed u H). reflexivity. Qed.

(** [c_norm] is idempotent on EVERY text *)
Theorem c_norm_idempotent t : c_norm (c_norm t) = c_norm t.
Proof.
  assert (K : forall x, c_norm t = x -> c_norm x = x); [|apply K; reflexivity].
  intros x <-. unfold c_norm at 2 3. destruct (u_norm t) as [[v|]|] eqn:E.
  - unfold c_norm. rewrite (u_norm_idempotent t v E). reflexivity.
  - unfold c_norm. rewrite E. reflexivity.
  - unfold c_norm. rewrite E. reflexivity.
Qed.

(** an accepted URL inside the fragment: what is stored is the model's normal form, it is in normal form, the typed reader
    returns it unchanged and the acceptance test accepts it *)
Theorem c_norm_accepted t : opt_url_accepted (Some t) = true ->
  u_norm t = Some (Some (c_norm t)) /\ is_normal_url (c_norm t) = true /\
  c_url_norm t = Some (c_norm t) /\ c_url_norm (c_norm t) = Some (c_norm t) /\
  c_url_ok t = true /\ c_url_ok (c_norm t) = true /\ c_norm (c_norm t) = c_norm t /\
  (is_normal_url t = true -> c_norm t = t).
Proof.
  unfold opt_url_accepted, c_norm, c_url_ok, c_url_norm. destruct (u_norm t) as [[v|]|] eqn:E; try discriminate. intros _.
  pose proof (u_norm_idempotent t v E) as Hi. pose proof (u_norm_normal t v E) as Hn. rewrite Hi.
  repeat split; try reflexivity; try assumption.
  intros Ht. rewrite (u_norm_fixed t Ht) in E. congruence.
Qed.

Theorem c_url_ok_spec t : url_in_fragment t = true -> (c_url_ok t = true <-> exists u, c_url_norm t = Some u).
Proof.
  unfold url_in_fragment, c_url_ok, c_url_norm. destruct (u_norm t) as [[v|]|]; try discriminate; intros _; split; intros H;
    try reflexivity; try discriminate; [exists v; reflexivity|destruct H as [u H]; discriminate].
Qed.

Theorem c_url_ok_normal u : is_normal_url u = true -> c_url_ok u = true /\ url_in_fragment u = true.
Proof. intros H. unfold c_url_ok, url_in_fragment. rewrite (u_norm_fixed u H). split; reflexivity. Qed.

(** the wider fragment of [c_url_ok] only speaks where [u_norm] is silent *)
Theorem url_no_authority_outside t : url_no_authority t = true -> u_norm t = None.
Proof.
  unfold url_no_authority, u_norm, un_parse. intros H. apply andb_true_iff in H. destruct H as [Ha H]. rewrite Ha. cbn [negb].
  destruct (un_parse_scheme (un_strip_tabnl (un_trim t))) as [[sc rest]|]; [|discriminate].
  apply andb_true_iff in H. destruct H as [H H3]. apply andb_true_iff in H. destruct H as [H1 H2].
  apply negb_true_iff in H1, H2, H3. rewrite H1, H2.
  destruct rest as [|a [|b r]]; try reflexivity. rewrite H3. reflexivity.
Qed.

Theorem c_url_ok_no_authority t : url_no_authority t = true -> c_url_ok t = true.
Proof. intros H. unfold c_url_ok. rewrite (url_no_authority_outside t H). exact H. Qed.

(** `Url::parse("magnet:")`, the one `unwrap` of `torrent link` (Model/Crash.v [k_magnet]) *)
Theorem c_url_ok_magnet : c_url_ok Crash.k_magnet = true /\ url_ok_in_fragment Crash.k_magnet = true.
Proof. split; vm_compute; reflexivity. Qed.

(* ================================================================== Host *)

Lemma c_hparse_spec t h : c_hparse t = Some h <-> u_hparse t = Some (Some h).
Proof.
  unfold c_hparse, u_hparse_with, u_no_ext. destruct (u_hparse t) as [[x|]|]; split; intros H; try discriminate; congruence.
Qed.

Lemma c_in_range h : (exists t, u_hparse t = Some (Some h)) <-> in_range c_hparse h.
Proof. split; intros [t H]; exists t; apply c_hparse_spec; exact H. Qed.

Definition c_lib : url_lib u_ascii_nd c_hparse u_std4 u_std6 u_url6 := strict_lib.

Lemma c_host_ok_spec t : c_host_ok t = true <-> exists h, u_hparse (hp_rebracket t) = Some (Some h).
Proof.
  unfold c_host_ok. destruct (u_hparse (hp_rebracket t)) as [[h|]|]; split; intros H; try discriminate;
    try (destruct H as [x H]; discriminate); [exists h|]; reflexivity.
Qed.

Lemma c_host_ok_in_fragment t : c_host_ok t = true -> host_in_fragment t = true.
Proof. unfold c_host_ok, host_in_fragment. destruct (u_hparse (hp_rebracket t)) as [[h|]|]; try discriminate; reflexivity. Qed.

(** the stored text of a parsed host, re-bracketed, parses to the same host (C17's [rebracket_plain] at the instance) *)
Lemma u_rebracket_plain h : (exists t, u_hparse t = Some (Some h)) ->
  u_hparse (hp_rebracket (hp_plain u_std4 u_std6 h)) = Some (Some h).
Proof. intros Hr. apply c_hparse_spec. apply (rebracket_plain _ _ _ _ _ c_lib). apply c_in_range, Hr. Qed.

(** what create stores for an accepted host; the loader reads it back and shows the host as Display prints it;
    storing what was stored changes nothing *)
Theorem c_host_canon_spec t : c_host_ok t = true ->
  exists h, u_hparse (hp_rebracket t) = Some (Some h) /\
    c_host_canon t = hp_plain u_std4 u_std6 h /\
    c_host_disp t = Some (hshow u_std4 u_url6 h) /\
    c_host_disp (c_host_canon t) = Some (hshow u_std4 u_url6 h) /\
    c_host_ok (c_host_canon t) = true /\
    c_host_canon (c_host_canon t) = c_host_canon t.
Proof.
  intros H. apply c_host_ok_spec in H. destruct H as [h Hh]. exists h.
  assert (Hr : exists t0, u_hparse t0 = Some (Some h)) by (eexists; exact Hh).
  pose proof (u_rebracket_plain h Hr) as Hp.
  assert (Ec : c_host_canon t = hp_plain u_std4 u_std6 h) by (unfold c_host_canon; rewrite Hh; reflexivity).
  split; [exact Hh|]. split; [exact Ec|]. split; [unfold c_host_disp; rewrite Hh; reflexivity|].
  rewrite Ec. unfold c_host_disp, c_host_ok, c_host_canon. rewrite Hp. repeat split; reflexivity.
Qed.

Lemma hd_is_not_mem c s : hp_mem c s = false -> hd_is c s = None.
Proof.
  destruct s as [|b s]; [reflexivity|]. rewrite mem_cons. intros H. apply orb_false_iff in H. destruct H as [H _].
  cbn [hd_is]. rewrite N.eqb_sym, H. reflexivity.
Qed.

(** a host written as Display prints it (brackets aside) is printed byte for byte *)
Theorem c_host_disp_printed h : (exists t, u_hparse t = Some (Some h)) ->
  c_host_disp (Metainfo.unbracket (hshow u_std4 u_url6 h)) = Some (hshow u_std4 u_url6 h).
Proof.
  intros Hr. pose proof Hr as [t Ht]. pose proof (proj1 (c_in_range h) Hr) as [t' Ht'].
  pose proof (hparse_print_parse t h Ht) as Hpp.
  destruct h as [d|a|a]; cbn [hshow] in *.
  - pose proof (domain_clean _ _ _ _ _ c_lib 91 t' d Ht' eq_refl) as N91.
    pose proof (domain_clean _ _ _ _ _ c_lib 58 t' d Ht' eq_refl) as N58.
    rewrite (MetainfoProofs.unbracket_plain d (hd_is_not_mem 91 d N91)).
    unfold c_host_disp, hp_rebracket. rewrite N58, Hpp. reflexivity.
  - pose proof (std4_shape_all a) as S4.
    rewrite (MetainfoProofs.unbracket_plain _ (hd_is_not_mem 91 _ (forallb_mem_false _ 91 _ S4 eq_refl))).
    unfold c_host_disp, hp_rebracket. rewrite (forallb_mem_false _ 58 _ S4 eq_refl), Hpp. reflexivity.
  - rewrite MetainfoProofs.unbracket_brackets. destruct (url6_shape_all a) as [_ M].
    unfold c_host_disp, hp_rebracket. rewrite M, Hpp. reflexivity.
Qed.

Corollary c_host_disp_idempotent t x : c_host_disp t = Some x -> c_host_disp (Metainfo.unbracket x) = Some x.
Proof.
  unfold c_host_disp. destruct (u_hparse (hp_rebracket t)) as [[h|]|] eqn:E; try discriminate. intros H. injection H as <-.
  apply c_host_disp_printed. eexists; exact E.
Qed.

(** ASCII-ness of everything printed *)
Lemma lt128_of (P : N -> bool) s : (forall b, P b = true -> (b <? 128) = true) -> forallb P s = true -> forallb (fun b => b <? 128) s = true.
Proof. intros HP. apply forallb_impl. exact HP. Qed.

Lemma v4_lt128 b : v4_char b = true -> (b <? 128) = true.
Proof. unfold v4_char, hp_is_dig. lia. Qed.
Lemma v6_lt128 b : v6_char b = true -> (b <? 128) = true.
Proof. unfold v6_char, is_hexl, hp_is_dig. lia. Qed.

Lemma domain_ascii t d : u_hparse t = Some (Some (HDomain d)) -> forallb (fun b => b <? 128) d = true.
Proof.
  intros H. destruct (hparse_cases t _ H) as [(a & E & _)|[(a & E & _)|(d' & E & Hhd)]]; try discriminate. injection E as <-.
  destruct (hparse_domain t d Hhd H) as (Hd & _ & Hf).
  assert (N91 : hd_is 91 d = None).
  { apply hd_is_not_mem. apply (forallb_mem_false _ 91 d Hf). reflexivity. }
  rewrite (hparse_plain d N91) in Hd. destruct (u_in_fragment d) eqn:F; [|discriminate].
  unfold u_in_fragment in F. apply andb_true_iff in F. destruct F as [F _]. apply andb_true_iff in F. destruct F as [F _]. exact F.
Qed.

Theorem hshow_ascii h : (exists t, u_hparse t = Some (Some h)) -> forallb (fun b => b <? 128) (hshow u_std4 u_url6 h) = true.
Proof.
  intros [t Ht]. destruct h as [d|a|a]; cbn [hshow].
  - exact (domain_ascii t d Ht).
  - exact (lt128_of _ _ v4_lt128 (std4_shape_all a)).
  - cbn [forallb]. rewrite forallb_app. destruct (url6_shape_all a) as [S _]. rewrite (lt128_of _ _ v6_lt128 S). reflexivity.
Qed.

Theorem hp_plain_ascii h : (exists t, u_hparse t = Some (Some h)) -> forallb (fun b => b <? 128) (hp_plain u_std4 u_std6 h) = true.
Proof.
  intros [t Ht]. destruct h as [d|a|a]; cbn [hp_plain].
  - exact (domain_ascii t d Ht).
  - exact (lt128_of _ _ v4_lt128 (std4_shape_all a)).
  - destruct (std6_shape_all a) as [_ S]. exact (lt128_of _ _ v6_lt128 S).
Qed.

Theorem c_host_canon_ascii t : c_host_ok t = true -> forallb (fun b => b <? 128) (c_host_canon t) = true.
Proof.
  intros H. destruct (c_host_canon_spec t H) as (h & Hh & -> & _). apply hp_plain_ascii. eexists; exact Hh.
Qed.

(* ================================================================== HostPort *)

(** a printed host:port value is its own normal form *)
Theorem c_hp_norm_display h n : (exists t, u_hparse t = Some (Some h)) -> n <= 65535 ->
  c_hp_norm (hp_display u_std4 u_url6 (h, n)) = Some (hp_display u_std4 u_url6 (h, n)).
Proof.
  intros Hr Hn. unfold c_hp_norm, c_hp_parse.
  rewrite (parse_display _ _ _ _ _ c_lib h n (proj1 (c_in_range h) Hr) Hn). reflexivity.
Qed.

Lemma c_hp_norm_spec p q : c_hp_norm p = Some q ->
  exists h n, c_hp_parse p = HpOk (h, n) /\ (exists t, u_hparse t = Some (Some h)) /\ n <= 65535 /\
              q = hp_display u_std4 u_url6 (h, n).
Proof.
  unfold c_hp_norm. destruct (c_hp_parse p) as [[h n]|e] eqn:E; [|discriminate]. intros H. injection H as <-.
  destruct (parse_ok_range _ _ _ _ _ c_lib p h n E) as [Hr Hn].
  exists h, n. split; [reflexivity|]. split; [apply c_in_range, Hr|]. split; [exact Hn|reflexivity].
Qed.

Theorem c_hp_norm_idempotent p q : c_hp_norm p = Some q -> c_hp_norm q = Some q.
Proof. intros H. destruct (c_hp_norm_spec p q H) as (h & n & _ & Hr & Hn & ->). apply c_hp_norm_display; assumption. Qed.

Theorem c_hp_fixed_iff p : c_hp_fixed p = true <->
  exists h n, (exists t, u_hparse t = Some (Some h)) /\ n <= 65535 /\ p = hp_display u_std4 u_url6 (h, n).
Proof.
  unfold c_hp_fixed. split.
  - destruct (c_hp_norm p) as [q|] eqn:E; [|discriminate]. intros H. apply beq_eq in H. subst q.
    destruct (c_hp_norm_spec p p E) as (h & n & _ & Hr & Hn & Hp). exists h, n. repeat split; assumption.
  - intros (h & n & Hr & Hn & ->). rewrite (c_hp_norm_display h n Hr Hn). apply beq_refl.
Qed.

Theorem c_hp_fixed_all ps : forallb c_hp_fixed ps = true -> Forall (fun p => c_hp_norm p = Some p) ps.
Proof.
  intros H. apply Forall_forall. intros p Hin. rewrite forallb_forall in H. specialize (H p Hin).
  apply c_hp_fixed_iff in H. destruct H as (h & n & Hr & Hn & ->). apply c_hp_norm_display; assumption.
Qed.

Lemma dig_lt128 b : hp_is_dig b = true -> (b <? 128) = true.
Proof. unfold hp_is_dig. lia. Qed.

Theorem hp_display_ascii h n : (exists t, u_hparse t = Some (Some h)) ->
  forallb (fun b => b <? 128) (hp_display u_std4 u_url6 (h, n)) = true.
Proof.
  intros Hr. unfold hp_display. cbn [fst snd]. rewrite forallb_app. rewrite (hshow_ascii h Hr). cbn [forallb andb].
  change (58 <? 128) with true. cbn [andb]. exact (lt128_of _ _ dig_lt128 (is_dig_dec n)).
Qed.

Theorem c_hp_norm_ascii p q : c_hp_norm p = Some q -> forallb (fun b => b <? 128) q = true.
Proof. intros H. destruct (c_hp_norm_spec p q H) as (h & n & _ & Hr & _ & ->). apply hp_display_ascii, Hr. Qed.

Theorem c_hp_fixed_ascii p : c_hp_fixed p = true -> forallb (fun b => b <? 128) p = true.
Proof. intros H. apply c_hp_fixed_iff in H. destruct H as (h & n & Hr & _ & ->). apply hp_display_ascii, Hr. Qed.

(** inside its fragment the instance is the parser of C17 whatever the library does elsewhere *)
Theorem c_hp_parse_transfer ext s hp : c_hp_parse s = HpOk hp -> hp_parse u_ascii_nd (u_hparse_with ext) s = HpOk hp.
Proof. apply parse_transfer. Qed.

(* ================================================================== the stored node *)

Theorem c_node_ok_stored h n rest : (exists t, u_hparse t = Some (Some h)) -> n <= 65535 ->
  c_node_ok (hp_to_bencode u_std4 u_std6 (h, n) ++ rest) = true.
Proof.
  intros Hr Hn. unfold c_node_ok.
  rewrite (bencode_roundtrip _ _ _ _ _ c_lib h n rest (proj1 (c_in_range h) Hr) Hn). reflexivity.
Qed.

Theorem c_node_ok_sound bs : c_node_ok bs = true ->
  exists t n rest h, bs = encode (Lst [Str t; Int (Z.of_N n)]) ++ rest /\ n <= 65535 /\
                     u_hparse (hp_rebracket t) = Some (Some h) /\ c_host_ok t = true /\ node_in_fragment bs = true.
Proof.
  unfold c_node_ok. destruct (hp_from_bencode c_hparse bs) as [[h n]|] eqn:E; [|discriminate]. intros _.
  destruct (from_bencode_sound c_hparse bs h n E) as (_ & Hn & t & rest & Hbs & Hh).
  apply c_hparse_spec in Hh. exists t, n, rest, h. split; [exact Hbs|]. split; [exact Hn|]. split; [exact Hh|].
  split; [apply c_host_ok_spec; exists h; exact Hh|].
  unfold node_in_fragment. unfold hp_from_bencode in E. destruct (hp_dec_tuple bs) as [[[t' z] r']|]; [|reflexivity].
  destruct ((0 <=? z) && (z <=? 65535))%Z; [|reflexivity]. cbn [negb orb]. unfold host_in_fragment.
  destruct (c_hparse (hp_rebracket t')) as [h'|] eqn:E'; [|discriminate]. apply c_hparse_spec in E'. rewrite E'. reflexivity.
Qed.

(** the node create stores for an accepted host is accepted by the loader *)
Theorem c_node_ok_of_canon t n : c_host_ok t = true -> n <= 65535 ->
  c_node_ok (encode (Lst [Str (c_host_canon t); Int (Z.of_N n)])) = true.
Proof.
  intros H Hn. destruct (c_host_canon_spec t H) as (h & Hh & -> & _).
  pose proof (c_node_ok_stored h n [] (ex_intro _ _ Hh) Hn) as K. rewrite app_nil_r in K. exact K.
Qed.
