(** Proofs for C02 over Model/CreateVerify.v.
    - [create_t] writes the torrent the hasher specification (C01) describes;
    - [create_then_verify]: verifying it against the unmodified input succeeds;
    - [verify_tracks_content]: on any later filesystem the verdict is true exactly when every
      listed path is a regular file with its creation-time bytes (no SHA-1 collision among
      the blocks compared);
    - corollaries: unlisted files are irrelevant, undoing edits restores success, what a
      failed verification names, histories. *)
From Coq Require Import NArith List Bool Lia ZifyN ZifyBool.
From Imdl Require Import Base.Chunks Model.Bencode Model.Fs Model.Verify Model.CreateVerify
     Proofs.FsProofs Proofs.VerifyProofs.
From Imdl Require Model.Hasher Proofs.HasherProofs.
Import ListNotations.
Local Open Scope N_scope.

(** ** lists *)
Lemma app_inj_len {A} (a : list A) : forall b x y, length a = length b -> a ++ x = b ++ y -> a = b /\ x = y.
Proof.
  induction a as [|h a IH]; intros [|h' b] x y L E; cbn in *; try discriminate; [auto|].
  inversion E as [[Eh Et]]. subst h'. destruct (IH b x y ltac:(lia) Et) as [-> ->]. auto.
Qed.

Lemma combine_map_r {A B C} (f : B -> C) (l1 : list A) : forall l2 : list B,
  combine l1 (map f l2) = map (fun x => (fst x, f (snd x))) (combine l1 l2).
Proof. induction l1 as [|a l1 IH]; intros [|b l2]; cbn; [reflexivity..|]. rewrite IH. reflexivity. Qed.

Lemma combine_map_same {A B C} (f : A -> B) (g : A -> C) (l : list A) :
  combine (map f l) (map g l) = map (fun x => (f x, g x)) l.
Proof. induction l as [|a l IH]; cbn; [reflexivity|]. rewrite IH. reflexivity. Qed.

Lemma map_inj_on {A B} (f : A -> B) : forall l1 l2 : list A,
  (forall a b, In a l1 -> In b l2 -> f a = f b -> a = b) -> map f l1 = map f l2 -> l1 = l2.
Proof.
  induction l1 as [|a r IH]; intros [|b r2] Hinj E; cbn in E; try discriminate; [reflexivity|].
  inversion E as [[E1 E2]]. f_equal.
  - apply Hinj; [left; reflexivity|left; reflexivity|exact E1].
  - apply IH; [|exact E2]. intros x y Hx Hy. apply Hinj; right; assumption.
Qed.

Lemma forallb_Forall {A} (f : A -> bool) (P : A -> Prop) (l : list A) :
  (forall a, f a = true <-> P a) -> (forallb f l = true <-> Forall P l).
Proof.
  intros Hf. rewrite forallb_forall, Forall_forall. split; intros Hx a Ha; apply Hf; auto.
Qed.

(** ** what create hands to the hasher *)
Lemma content_bytes_listing (c : @Hasher.content N (list bytes)) :
  Hasher.content_bytes c = concat (map snd (listing_of c)).
Proof. destruct c as [d|l]; cbn; [rewrite app_nil_r|]; reflexivity. Qed.

Lemma gather_files_spec (src : node) : forall sel l,
  mapM (gather_file src) sel = Some l ->
  map fst l = sel /\ Forall (fun e => lookup src (fst e) = Some (File (snd e))) l.
Proof.
  induction sel as [|pa sel IH]; cbn [mapM]; intros l E.
  - inversion E. split; [reflexivity|constructor].
  - destruct (gather_file src pa) as [e|] eqn:Ee; [|discriminate].
    destruct (mapM (gather_file src) sel) as [l'|]; [|discriminate]. inversion E; subst l.
    destruct (IH l' eq_refl) as [Hm Hf]. unfold gather_file in Ee.
    destruct (lookup src pa) as [[c|ch]|] eqn:El; try discriminate. inversion Ee; subst e.
    cbn [map fst]. split; [rewrite Hm; reflexivity|]. constructor; [exact El|exact Hf].
Qed.

Lemma gather_paths src sel c : gather src sel = Some c ->
  match src with File _ => map fst (listing_of c) = [[]] | Dir _ => map fst (listing_of c) = sel end.
Proof.
  unfold gather. destruct src as [d|ch].
  - intros E. inversion E. reflexivity.
  - destruct (mapM _ sel) as [l|] eqn:Em; [|discriminate]. intros E. inversion E. cbn [listing_of].
    exact (proj1 (gather_files_spec _ _ _ Em)).
Qed.

(** at the moment of creation every listed path holds its bytes *)
Lemma gather_holds fs root src sel c :
  resolve fs root = Some src -> Forall plain_path sel -> gather src sel = Some c ->
  Forall (holds fs root) (listing_of c).
Proof.
  intros Hr Hpl. unfold gather. destruct src as [d|ch].
  - intros E. inversion E. cbn [listing_of]. constructor; [|constructor].
    unfold holds. cbn [fst snd absolute fold_left]. exact Hr.
  - destruct (mapM _ sel) as [l|] eqn:Em; [|discriminate]. intros E. inversion E. cbn [listing_of].
    destruct (gather_files_spec _ _ _ Em) as [Hm Hf]. subst sel.
    rewrite Forall_forall in *. intros e He. unfold holds.
    rewrite (resolve_absolute_plain fs (fst e) root), Hr.
    + apply Hf. exact He.
    + apply Hpl. apply in_map. exact He.
Qed.

Section CreateVerifyProofs.
Variable H : bytes -> bytes.
Variable MD5 : bytes -> bytes.

Notation create_t := (create_t H MD5).
Notation spec_torrent := (spec_torrent H MD5).
Notation collision_free := (collision_free H).
Notation verify_report := (verify_report H MD5).
Notation verify := (verify H MD5).
Notation status := (status MD5).

(** the entry [verify_metainfo] visits for a listed file of a created torrent *)
Definition mk_entry (md5 : bool) (root : bytes) (e : list bytes * bytes) : entry :=
  {| epath := absolute root (fst e); elen := blen (snd e);
     emd5 := if md5 then Some (MD5 (snd e)) else None |}.

(** ** create writes the specified torrent *)
Theorem create_t_spec md5 p name csch src sel t :
  create_t md5 p name csch src sel = Some t ->
  exists c, gather src sel = Some c /\ 0 < p < 2 ^ 32 /\ t = spec_torrent md5 p name c.
Proof.
  unfold CreateVerify.create_t. destruct (p =? 0) eqn:E0; [discriminate|].
  destruct (2 ^ 32 <=? p) eqn:E1; [discriminate|].
  destruct (gather src sel) as [c|]; [|discriminate].
  pose proof (HasherProofs.hash_files_sound H MD5 md5 (N.to_nat p) csch c ltac:(lia)) as Hs.
  destruct (Hasher.hash_files H MD5 md5 (N.to_nat p) csch c) as [[m ps]| | |]; try discriminate.
  intros E. inversion E; subst t. inversion Hs; subst m ps.
  exists c. split; [reflexivity|]. split; [lia|].
  unfold CreateVerify.spec_torrent, Hasher.spec_pieces. rewrite content_bytes_listing. reflexivity.
Qed.

(** ... and always does when nothing fails to read *)
Theorem create_t_total md5 p name csch src sel c :
  0 < p < 2 ^ 32 -> Hasher.error_free csch -> gather src sel = Some c ->
  create_t md5 p name csch src sel = Some (spec_torrent md5 p name c).
Proof.
  intros Hp Hef Hg. unfold CreateVerify.create_t.
  destruct (p =? 0) eqn:E0; [lia|]. destruct (2 ^ 32 <=? p) eqn:E1; [lia|]. rewrite Hg.
  rewrite (HasherProofs.hash_files_spec H MD5 md5 (N.to_nat p) csch c ltac:(lia) Hef).
  unfold CreateVerify.spec_torrent, Hasher.spec_pieces. rewrite content_bytes_listing. reflexivity.
Qed.

Lemma entries_spec md5 p name c root :
  entries root (spec_torrent md5 p name c) = map (mk_entry md5 root) (listing_of c).
Proof.
  unfold entries, CreateVerify.spec_torrent. cbn [tmode]. destruct c as [d|l]; cbn [Hasher.spec_mode conv_mode listing_of].
  - reflexivity.
  - rewrite !map_map. apply map_ext. intros [pa d]. reflexivity.
Qed.

Lemma paths_spec md5 p name c : paths_of (spec_torrent md5 p name c) = map fst (listing_of c).
Proof.
  unfold paths_of, CreateVerify.spec_torrent. cbn [tmode]. destruct c as [d|l]; cbn [Hasher.spec_mode conv_mode listing_of].
  - reflexivity.
  - rewrite !map_map. apply map_ext. intros [pa d]. reflexivity.
Qed.

Lemma verifier_new_spec md5 p name c :
  0 < p < 2 ^ 32 -> verifier_new (spec_torrent md5 p name c) = Some p.
Proof. intros Hp. apply verifier_new_some. cbn [CreateVerify.spec_torrent tplen]. lia. Qed.

(** the verdict on any filesystem, in closed form *)
Lemma verify_spec_torrent vsch md5 p name c fs root :
  0 < p < 2 ^ 32 ->
  let es := map (mk_entry md5 root) (listing_of c) in
  verify vsch fs root (spec_torrent md5 p name c) =
  Some (digests_eqb (map H (chunks (N.to_nat p) (concat (map (content fs) es))))
                    (map H (chunks (N.to_nat p) (concat (map snd (listing_of c)))))
        && forallb is_good (map (status fs) es)).
Proof.
  intros Hp es. unfold Verify.verify. rewrite (verifier_new_spec md5 p name c Hp).
  rewrite (verify_metainfo_spec H MD5 vsch p ltac:(lia) fs root). rewrite entries_spec.
  reflexivity.
Qed.

(** the verifier always reaches a verdict (exit status 0 or 1) *)
Theorem verify_total vsch fs root t : exists b, verify vsch fs root t = Some b.
Proof.
  unfold Verify.verify. destruct (verifier_new t) as [p|] eqn:Ep; [|eauto].
  apply verifier_new_some in Ep. destruct Ep as [-> Hr].
  rewrite (verify_metainfo_spec H MD5 vsch (tplen t) ltac:(lia) fs root). eauto.
Qed.

(** ** listed files that hold their bytes *)
Lemma content_holds md5 fs root e : holds fs root e -> content fs (mk_entry md5 root e) = snd e.
Proof. unfold holds, content, mk_entry. cbn [epath]. intros ->. reflexivity. Qed.

Lemma status_holds md5 fs root e : holds fs root e -> status fs (mk_entry md5 root e) = None.
Proof.
  unfold holds, Verify.status, mk_entry. cbn [epath elen emd5]. intros ->.
  rewrite !N.ltb_irrefl. destruct md5; [rewrite bytes_eqb_refl|]; reflexivity.
Qed.

Lemma holds_b_iff fs root e : holds_b fs root e = true <-> holds fs root e.
Proof.
  unfold holds_b, holds. destruct (resolve fs (absolute root (fst e))) as [[c|ch]|].
  - rewrite bytes_eqb_eq. split; [intros ->; reflexivity|intros E; inversion E; reflexivity].
  - split; discriminate.
  - split; discriminate.
Qed.

(** content equal => success. No hypothesis on the hash functions. *)
Theorem holds_verify_true vsch md5 p name c fs root :
  0 < p < 2 ^ 32 -> Forall (holds fs root) (listing_of c) ->
  verify vsch fs root (spec_torrent md5 p name c) = Some true.
Proof.
  intros Hp Hh. rewrite (verify_spec_torrent vsch md5 p name c fs root Hp). cbv zeta. f_equal.
  apply andb_true_intro. split.
  - apply digests_eqb_spec. do 3 f_equal. rewrite map_map.
    apply map_ext_in. intros e He. apply content_holds. rewrite Forall_forall in Hh. auto.
  - apply forallb_forall. intros s Hs. rewrite map_map in Hs. apply in_map_iff in Hs.
    destruct Hs as (e & <- & He). rewrite Forall_forall in Hh. rewrite (status_holds md5 fs root e (Hh e He)).
    reflexivity.
Qed.

Lemma good_entry md5 fs root e :
  is_good (status fs (mk_entry md5 root e)) = true ->
  exists c', resolve fs (absolute root (fst e)) = Some (File c') /\ length c' = length (snd e) /\
             content fs (mk_entry md5 root e) = c'.
Proof.
  intros Hg. apply (status_good_iff MD5) in Hg. destruct Hg as (c' & Hr & Hl & _).
  unfold mk_entry in Hr, Hl. cbn [epath elen] in Hr, Hl. exists c'. split; [exact Hr|].
  split; [unfold blen in Hl; lia|]. unfold content, mk_entry. cbn [epath]. rewrite Hr. reflexivity.
Qed.

Lemma pointwise_holds md5 fs root : forall L,
  Forall (fun e => is_good (status fs (mk_entry md5 root e)) = true) L ->
  concat (map (content fs) (map (mk_entry md5 root) L)) = concat (map snd L) ->
  Forall (holds fs root) L.
Proof.
  induction L as [|e L IH]; intros Hg Hc; [constructor|].
  inversion Hg as [|? ? He HL]; subst. cbn [map concat] in Hc.
  destruct (good_entry md5 fs root e He) as (c' & Hr & Hl & Hcont). rewrite Hcont in Hc.
  destruct (app_inj_len c' (snd e) _ _ Hl Hc) as [-> Hrest].
  constructor; [exact Hr|exact (IH HL Hrest)].
Qed.

(** success => content equal, when no two distinct blocks compared have the same hash *)
Theorem verify_true_holds vsch md5 p name c fs root :
  0 < p < 2 ^ 32 ->
  collision_free p (map snd (listing_of c)) (map (content fs) (map (mk_entry md5 root) (listing_of c))) ->
  verify vsch fs root (spec_torrent md5 p name c) = Some true ->
  Forall (holds fs root) (listing_of c).
Proof.
  intros Hp Hcf. rewrite (verify_spec_torrent vsch md5 p name c fs root Hp). cbv zeta.
  intros E. inversion E as [E']. apply andb_prop in E'. destruct E' as [Hd Hg].
  apply digests_eqb_spec in Hd. apply (map_inj_on H) in Hd; [|exact Hcf].
  apply (f_equal (@concat N)) in Hd. rewrite !concat_chunks in Hd by lia.
  apply (pointwise_holds md5); [|exact Hd].
  rewrite forallb_forall in Hg. apply Forall_forall. intros e He. apply Hg.
  rewrite map_map. apply (in_map (fun x => status fs (mk_entry md5 root x))). exact He.
Qed.

(** ** the property *)
Theorem create_then_verify md5 p name csch vsch fs root src sel t :
  resolve fs root = Some src -> Forall plain_path sel ->
  create_t md5 p name csch src sel = Some t ->
  verify vsch fs root t = Some true.
Proof.
  intros Hr Hpl Hc. destruct (create_t_spec _ _ _ _ _ _ _ Hc) as (c & Hg & Hp & ->).
  apply holds_verify_true; [exact Hp|]. exact (gather_holds fs root src sel c Hr Hpl Hg).
Qed.

Theorem verify_tracks_content md5 p name csch vsch src sel t root :
  create_t md5 p name csch src sel = Some t ->
  exists c, gather src sel = Some c /\
    forall fs',
      collision_free p (map snd (listing_of c)) (map (content fs') (entries root t)) ->
      (verify vsch fs' root t = Some true <-> Forall (holds fs' root) (listing_of c)).
Proof.
  intros Hc. destruct (create_t_spec _ _ _ _ _ _ _ Hc) as (c & Hg & Hp & ->).
  exists c. split; [exact Hg|]. intros fs' Hcf. rewrite entries_spec in Hcf. split.
  - apply verify_true_holds; assumption.
  - apply holds_verify_true. exact Hp.
Qed.

(** any real change => failure with a verdict (exit status 1), same hypothesis *)
Corollary real_change_fails md5 p name csch vsch src sel t root :
  create_t md5 p name csch src sel = Some t ->
  exists c, gather src sel = Some c /\
    forall fs',
      collision_free p (map snd (listing_of c)) (map (content fs') (entries root t)) ->
      ~ Forall (holds fs' root) (listing_of c) -> verify vsch fs' root t = Some false.
Proof.
  intros Hc. destruct (verify_tracks_content md5 p name csch vsch src sel t root Hc) as (c & Hg & Hiff).
  exists c. split; [exact Hg|]. intros fs' Hcf Hn.
  destruct (verify_total vsch fs' root t) as [[|] Hb]; [|exact Hb].
  exfalso. apply Hn. apply (Hiff fs' Hcf). exact Hb.
Qed.

(** unlisted files are irrelevant: two filesystems that agree on what the listed paths
    resolve to get the same verdict and the same report (any torrent, no hypothesis on H) *)
Theorem verify_ignores_unlisted vsch fs1 fs2 root t :
  (forall e, In e (entries root t) -> resolve fs1 (epath e) = resolve fs2 (epath e)) ->
  verify vsch fs1 root t = verify vsch fs2 root t /\
  verify_report vsch fs1 root t = verify_report vsch fs2 root t.
Proof.
  intros Hsame. unfold Verify.verify, CreateVerify.verify_report, verify_metainfo.
  destruct (verifier_new t) as [p|]; [|split; reflexivity].
  rewrite (run_entries_ext H MD5 vsch fs1 fs2 p _ _ Hsame). split; reflexivity.
Qed.

Corollary created_ignores_unlisted md5 p name csch vsch src sel t root fs1 fs2 :
  create_t md5 p name csch src sel = Some t ->
  exists c, gather src sel = Some c /\
    ((forall e, In e (listing_of c) ->
        resolve fs1 (absolute root (fst e)) = resolve fs2 (absolute root (fst e))) ->
     verify vsch fs1 root t = verify vsch fs2 root t).
Proof.
  intros Hc. destruct (create_t_spec _ _ _ _ _ _ _ Hc) as (c & Hg & Hp & ->).
  exists c. split; [exact Hg|]. intros Hsame. apply verify_ignores_unlisted.
  intros e He. rewrite entries_spec in He. apply in_map_iff in He. destruct He as (x & <- & Hx).
  cbn [mk_entry epath]. apply Hsame. exact Hx.
Qed.

(** undoing the edits restores success: whatever happened in between (and whatever else is
    different now), once every listed path resolves to what it resolved to at creation *)
Theorem revert_restores md5 p name csch vsch fs root src sel t fs_back :
  resolve fs root = Some src -> Forall plain_path sel ->
  create_t md5 p name csch src sel = Some t ->
  (forall e, In e (entries root t) -> resolve fs_back (epath e) = resolve fs (epath e)) ->
  verify vsch fs_back root t = Some true.
Proof.
  intros Hr Hpl Hc Hsame.
  rewrite (proj1 (verify_ignores_unlisted vsch fs_back fs root t Hsame)).
  exact (create_then_verify md5 p name csch vsch fs root src sel t Hr Hpl Hc).
Qed.

(** ** what a failed verification names *)
Lemma named_in t ss pa err :
  In (pa, err) (named t ss) <-> In (pa, Some err) (combine (paths_of t) ss).
Proof.
  unfold named. rewrite in_flat_map. split.
  - intros ([pa' s] & Hin & Hn). unfold named_one in Hn. cbn [fst snd] in Hn.
    destruct s as [e|]; [|contradiction]. destruct Hn as [Hn|[]]. inversion Hn; subst. exact Hin.
  - intros Hin. exists (pa, Some err). split; [exact Hin|]. left. reflexivity.
Qed.

Lemma named_created md5 p name c root fs pa err :
  In (pa, err) (named (spec_torrent md5 p name c) (map (status fs) (map (mk_entry md5 root) (listing_of c)))) <->
  exists e, In e (listing_of c) /\ fst e = pa /\ status fs (mk_entry md5 root e) = Some err.
Proof.
  rewrite named_in, paths_spec, map_map, combine_map_same, in_map_iff. split.
  - intros (e & E & He). inversion E; subst. eauto.
  - intros (e & He & <- & Hs). exists e. rewrite Hs. auto.
Qed.

Lemma status_missing md5 fs root e :
  resolve fs (absolute root (fst e)) = None -> status fs (mk_entry md5 root e) = Some Missing.
Proof. unfold Verify.status, mk_entry. cbn [epath]. intros ->. reflexivity. Qed.

Lemma status_directory md5 fs root e ch :
  resolve fs (absolute root (fst e)) = Some (Dir ch) -> status fs (mk_entry md5 root e) = Some IsDirectory.
Proof. unfold Verify.status, mk_entry. cbn [epath]. intros ->. reflexivity. Qed.

Lemma status_resized md5 fs root e c' :
  resolve fs (absolute root (fst e)) = Some (File c') -> length c' <> length (snd e) ->
  status fs (mk_entry md5 root e) = Some Surfeit \/ status fs (mk_entry md5 root e) = Some Dearth.
Proof.
  unfold Verify.status, mk_entry. cbn [epath elen]. intros -> Hl. unfold blen.
  destruct (N.of_nat (length (snd e)) <? N.of_nat (length c')) eqn:E1; [left; reflexivity|].
  destruct (N.of_nat (length c') <? N.of_nat (length (snd e))) eqn:E2; [right; reflexivity|]. lia.
Qed.

Lemma status_md5 fs root e c' :
  resolve fs (absolute root (fst e)) = Some (File c') -> length c' = length (snd e) ->
  MD5 c' <> MD5 (snd e) -> status fs (mk_entry true root e) = Some BadMd5.
Proof.
  unfold Verify.status, mk_entry. cbn [epath elen emd5]. intros -> Hl Hm. unfold blen.
  rewrite Hl, !N.ltb_irrefl. destruct (bytes_eqb (MD5 c') (MD5 (snd e))) eqn:E; [|reflexivity].
  apply bytes_eqb_eq in E. contradiction.
Qed.

Theorem failed_names_files md5 p name csch vsch src sel t root :
  create_t md5 p name csch src sel = Some t ->
  exists c, gather src sel = Some c /\
  forall fs', exists r,
    verify_report vsch fs' root t = Some r /\
    verify vsch fs' root t = Some (r_good r) /\
    (r_good r = false -> r_pieces r = false \/ r_named r <> []) /\
    (forall e, In e (listing_of c) ->
       (resolve fs' (absolute root (fst e)) = None -> In (fst e, Missing) (r_named r)) /\
       (forall ch, resolve fs' (absolute root (fst e)) = Some (Dir ch) -> In (fst e, IsDirectory) (r_named r)) /\
       (forall c', resolve fs' (absolute root (fst e)) = Some (File c') -> length c' <> length (snd e) ->
                   In (fst e, Surfeit) (r_named r) \/ In (fst e, Dearth) (r_named r)) /\
       (forall c', resolve fs' (absolute root (fst e)) = Some (File c') -> length c' = length (snd e) ->
                   md5 = true -> MD5 c' <> MD5 (snd e) -> In (fst e, BadMd5) (r_named r))) /\
    (forall pa err, In (pa, err) (r_named r) ->
       exists e, In e (listing_of c) /\ fst e = pa /\ ~ holds fs' root e).
Proof.
  intros Hc. destruct (create_t_spec _ _ _ _ _ _ _ Hc) as (c & Hg & Hp & ->).
  exists c. split; [exact Hg|]. intros fs'.
  unfold CreateVerify.verify_report, Verify.verify. rewrite (verifier_new_spec md5 p name c Hp).
  rewrite (verify_metainfo_spec H MD5 vsch p ltac:(lia) fs' root), entries_spec.
  eexists. split; [reflexivity|]. cbn [r_good r_pieces r_named fst snd]. split; [reflexivity|].
  split; [|split].
  - unfold status_good. cbn [fst snd]. intros Hb. apply andb_false_iff in Hb.
    destruct Hb as [Hb|Hb]; [left; exact Hb|right].
    intros Hn. rewrite <- not_true_iff_false in Hb. apply Hb. apply forallb_forall.
    intros s Hs. rewrite map_map in Hs. apply in_map_iff in Hs. destruct Hs as (e & <- & He).
    destruct (status fs' (mk_entry md5 root e)) as [err|] eqn:Es; [|reflexivity]. exfalso.
    assert (Hin : In (fst e, err) (named (spec_torrent md5 p name c) (map (status fs') (map (mk_entry md5 root) (listing_of c)))))
      by (apply named_created; eauto).
    rewrite Hn in Hin. exact Hin.
  - intros e He. repeat split.
    + intros Hr. apply named_created. exists e. auto using status_missing.
    + intros ch Hr. apply named_created. exists e. eauto using status_directory.
    + intros c' Hr Hl. destruct (status_resized md5 fs' root e c' Hr Hl) as [Hs|Hs];
        [left|right]; apply named_created; eauto.
    + intros c' Hr Hl -> Hm. apply named_created. exists e. eauto using status_md5.
  - intros pa err Hin. apply named_created in Hin. destruct Hin as (e & He & Hpa & Hs).
    exists e. split; [exact He|]. split; [exact Hpa|]. intros Hh.
    rewrite (status_holds md5 fs' root e Hh) in Hs. discriminate.
Qed.

(** ** histories: arbitrary edits interleaved with verify and re-create --force *)
Definition wf_created (md5 : bool) (p : N) (name : bytes) (cur : created) : Prop :=
  exists c, c_torrent cur = spec_torrent md5 p name c /\ c_listing cur = listing_of c.

Lemma recreate_wf md5 p name csch fs root sel cur :
  wf_created md5 p name cur -> wf_created md5 p name (recreate H MD5 md5 p name csch fs root sel cur).
Proof.
  intros Hwf. unfold recreate. destruct (resolve fs root) as [src|]; [|exact Hwf].
  destruct (create_t md5 p name csch src sel) as [t|] eqn:Ec; [|exact Hwf].
  destruct (create_t_spec _ _ _ _ _ _ _ Ec) as (c & Hg & _ & ->). rewrite Hg.
  exists c. split; reflexivity.
Qed.

Theorem history_tracks_content md5 p name csch vsch root :
  0 < p < 2 ^ 32 -> (forall a b, H a = H b -> a = b) ->
  forall ops fs cur, wf_created md5 p name cur ->
    run_history H MD5 md5 p name csch vsch root fs cur ops =
    map Some (spec_history H MD5 md5 p name csch root fs cur ops).
Proof.
  intros Hp Hinj. induction ops as [|o ops IH]; intros fs cur Hwf; [reflexivity|].
  destruct o as [f| |sel]; cbn [run_history spec_history map].
  - apply IH. exact Hwf.
  - rewrite (IH fs cur Hwf). f_equal. destruct Hwf as (c & -> & ->).
    destruct (verify_total vsch fs root (spec_torrent md5 p name c)) as [b Hb]. rewrite Hb. f_equal.
    apply eq_true_iff_eq. rewrite (forallb_Forall _ _ _ (holds_b_iff fs root)). split.
    + intros ->. apply (verify_true_holds vsch md5 p name c fs root Hp); [|exact Hb].
      intros x y _ _. apply Hinj.
    + intros Hh. rewrite (holds_verify_true vsch md5 p name c fs root Hp Hh) in Hb. congruence.
  - apply IH. apply recreate_wf. exact Hwf.
Qed.

End CreateVerifyProofs.
