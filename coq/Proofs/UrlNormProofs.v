(** C05 / X10 — proofs about Model/UrlNorm.v, the concrete model of `Url::parse` + `to_string` on the fragment.

      [parts_fixed]     a URL put together from pieces in normal form parses to exactly those pieces;
      [parse_normal]    whatever the parser returns consists of pieces in normal form;
      [split_assemble]  the syntactic splitter reads the pieces of an assembled normal URL back;
    hence [u_norm_fixed], [u_norm_normal], [u_norm_idempotent], [u_norm_ascii]. The host part rests on X9
    ([hparse_print_parse], [parse6_url6], the shape theorems of Proofs/UrlHostProofs.v). *)
From Coq Require Import Decimal DecimalN DecimalFacts.
From Coq Require Import NArith ZArith Lia Bool List ZifyN ZifyBool.
From Imdl Require Import Model.Bencode Model.HostPort Model.UrlHost Model.UrlNorm Proofs.HostPortProofs Proofs.UrlHostProofs.
Import ListNotations.
Local Open Scope N_scope.

(* ------------------------------------------------------------------ bytes *)

Lemma beq_eq a : forall b, un_beq a b = true -> a = b.
Proof.
  induction a as [|x a IH]; intros [|y b] H; cbn [un_beq] in H; try discriminate; [reflexivity|].
  apply andb_true_iff in H. destruct H as [H1 H2]. apply N.eqb_eq in H1. subst y. f_equal. apply IH, H2.
Qed.

Lemma beq_refl a : un_beq a a = true.
Proof. induction a as [|x a IH]; [reflexivity|]. cbn [un_beq]. rewrite N.eqb_refl, IH. reflexivity. Qed.

Ltac chars1 :=
  unfold un_plain, un_userinfo_set, un_path_set, un_special_query_set, un_query_set, un_fragment_set, un_controls, un_auth_end,
    un_is_slash, un_is_delim, un_invalid_host_char, un_c0_or_space, un_tabnl, un_lower_alpha, un_alpha, un_scheme_char, un_not,
    hp_is_dig, hp_forbidden, v4_char, v6_char, is_hexl, un_hexU, u_lower in *.
Ltac chars := chars1; chars1; chars1; chars1.

(** a visible ASCII byte: what every byte of a normal form is *)
Definition vis (b : byte) : bool := (32 <? b) && (b <? 127).

Lemma forallb_imp (P Q : N -> bool) s : (forall b, P b = true -> Q b = true) -> forallb P s = true -> forallb Q s = true.
Proof. apply forallb_impl. Qed.

Lemma forallb_app_iff (P : N -> bool) a b : forallb P (a ++ b) = true <-> forallb P a = true /\ forallb P b = true.
Proof. rewrite forallb_app. apply andb_true_iff. Qed.

Lemma drop_while_head (p : N -> bool) c r : p c = false -> un_drop_while p (c :: r) = c :: r.
Proof. intros H. cbn [un_drop_while]. rewrite H. reflexivity. Qed.

Lemma trim_vis t : forallb vis t = true -> un_trim t = t.
Proof.
  intros H. unfold un_trim.
  assert (D : forall s, forallb vis s = true -> un_drop_while un_c0_or_space s = s).
  { intros [|c r] Hs; [reflexivity|]. apply drop_while_head. cbn [forallb] in Hs. apply andb_true_iff in Hs. destruct Hs as [Hc _].
    unfold vis in Hc. chars. lia. }
  rewrite (D t H). rewrite D; [apply rev_involutive|].
  rewrite forallb_forall in *. intros x Hx. apply H. apply in_rev. exact Hx.
Qed.

Lemma strip_vis t : forallb vis t = true -> un_strip_tabnl t = t.
Proof.
  induction t as [|c r IH]; [reflexivity|]. cbn [forallb]. intros H. apply andb_true_iff in H. destruct H as [Hc Hr].
  unfold un_strip_tabnl in *. cbn [filter]. replace (negb (un_tabnl c)) with true; [f_equal; apply IH, Hr|].
  unfold vis in Hc. chars. lia.
Qed.

Lemma ascii_vis t : forallb vis t = true -> un_ascii t = true.
Proof. apply forallb_imp. intros b Hb. unfold vis in Hb. cbv beta. lia. Qed.

(* ------------------------------------------------------------------ the encoder *)

Lemma encode_plain set b : un_plain set b = true -> un_encode set b = [b].
Proof.
  intros H. unfold un_encode. replace ((128 <=? b) || set b) with false; [reflexivity|]. unfold un_plain in H.
  apply andb_true_iff in H. destruct H as [H1 H2]. apply negb_true_iff in H2. rewrite H2, orb_false_r. lia.
Qed.

Lemma encode_all_plain set s : forallb (un_plain set) s = true -> un_encode_all set s = s.
Proof.
  induction s as [|c r IH]; [reflexivity|]. cbn [forallb]. intros H. apply andb_true_iff in H. destruct H as [Hc Hr].
  unfold un_encode_all in *. cbn [flat_map]. rewrite (encode_plain _ _ Hc), IH by assumption. reflexivity.
Qed.

(** a set that contains neither `%` nor an upper-case hex digit: what it writes it leaves alone *)
Definition set_ok (set : byte -> bool) : Prop :=
  set 37 = false /\ forall d, d < 16 -> set (un_hexU d) = false.

Lemma hexU_range d : d < 16 -> (48 <= un_hexU d <= 57) \/ (65 <= un_hexU d <= 70).
Proof. intros H. unfold un_hexU. destruct (d <? 10) eqn:E; lia. Qed.

Ltac set_ok_tac :=
  split; [reflexivity|]; intros d Hd; pose proof (hexU_range d Hd) as Hr; set (x := un_hexU d) in *; clearbody x; chars; lia.

Lemma controls_ok : set_ok un_controls. Proof. set_ok_tac. Qed.
Lemma fragment_ok : set_ok un_fragment_set. Proof. set_ok_tac. Qed.
Lemma path_ok : set_ok un_path_set. Proof. set_ok_tac. Qed.
Lemma userinfo_ok : set_ok un_userinfo_set. Proof. set_ok_tac. Qed.
Lemma query_ok : set_ok un_query_set. Proof. set_ok_tac. Qed.
Lemma special_query_ok : set_ok un_special_query_set. Proof. set_ok_tac. Qed.

Lemma encode_out_plain set b : set_ok set -> forallb (un_plain set) (un_encode set b) = true.
Proof.
  intros [H37 Hhex]. unfold un_encode. destruct ((128 <=? b) || set b) eqn:E.
  - assert (H1 : b / 16 mod 16 < 16) by (apply N.mod_lt; lia). assert (H2 : b mod 16 < 16) by (apply N.mod_lt; lia).
    cbn [forallb]. unfold un_plain. rewrite H37, (Hhex _ H1), (Hhex _ H2).
    generalize (hexU_range _ H1) (hexU_range _ H2). generalize (un_hexU (b / 16 mod 16)) (un_hexU (b mod 16)). intros x y Hx Hy. lia.
  - cbn [forallb]. unfold un_plain. apply orb_false_iff in E. destruct E as [E1 E2]. rewrite E2. lia.
Qed.

Lemma encode_all_out_plain set s : set_ok set -> forallb (un_plain set) (un_encode_all set s) = true.
Proof.
  intros Hs. induction s as [|c r IH]; [reflexivity|]. unfold un_encode_all in *. cbn [flat_map]. rewrite forallb_app, IH.
  rewrite (encode_out_plain _ _ Hs). reflexivity.
Qed.

(** the bytes an encoder writes for [b], given a property of [b] itself when it is left alone and of `%` / hex digits *)
Lemma encode_out_prop (P : byte -> bool) set b :
  (un_plain set b = true -> P b = true) -> P 37 = true -> (forall d, d < 16 -> P (un_hexU d) = true) ->
  forallb P (un_encode set b) = true.
Proof.
  intros Hb H37 Hhex. unfold un_encode. destruct ((128 <=? b) || set b) eqn:E.
  - cbn [forallb]. rewrite H37, !Hhex by (apply N.mod_lt; lia). reflexivity.
  - cbn [forallb]. rewrite Hb; [reflexivity|]. unfold un_plain. apply orb_false_iff in E. destruct E as [E1 E2]. rewrite E2. lia.
Qed.

(* ------------------------------------------------------------------ the shape of a host in printed form *)

(** a byte of a host name or IPv4 text: visible, none of the delimiters of the authority, no bracket *)
Definition hc (b : byte) : bool :=
  vis b && negb ((b =? 35) || (b =? 47) || (b =? 58) || (b =? 63) || (b =? 64) || (b =? 91) || (b =? 92) || (b =? 93)).

Inductive host_shape : bytes -> Prop :=
| HS_plain h : forallb hc h = true -> host_shape h
| HS_v6 body : forallb v6_char body = true -> host_shape (91 :: body ++ [93]).

Lemma v6_vis b : v6_char b = true -> vis b = true /\ (b =? 91) = false /\ (b =? 93) = false /\ (b =? 47) = false /\ (b =? 63) = false /\
                                     (b =? 35) = false /\ (b =? 92) = false /\ (b =? 64) = false.
Proof. intros H. unfold vis. chars. lia. Qed.

Lemma host_shape_vis h : host_shape h -> forallb vis h = true.
Proof.
  intros [h' H|body H].
  - revert H. apply forallb_imp. intros b Hb. unfold hc in Hb. apply andb_true_iff in Hb. apply Hb.
  - cbn [forallb]. rewrite forallb_app. cbn [forallb]. replace (forallb vis body) with true; [reflexivity|]. symmetry.
    revert H. apply forallb_imp. intros b Hb. apply (v6_vis b Hb).
Qed.

Lemma host_fixed_shape h : un_host_fixed h = true -> host_shape h /\ h <> [].
Proof.
  unfold un_host_fixed. destruct (u_hparse h) as [[x|]|] eqn:E; try discriminate. intros Hb. apply beq_eq in Hb.
  destruct (hparse_cases h x E) as [(a & -> & Ha)|[(a & -> & Ha)|(d & -> & Hhd)]]; cbn [hshow] in Hb.
  - subst h. split; [|discriminate]. apply HS_v6. apply (url6_shape_all a).
  - subst h. split; [|apply std4_nonempty]. apply HS_plain. generalize (std4_shape_all a). apply forallb_imp.
    intros b Hv. unfold hc, vis. chars. lia.
  - subst d. destruct (hparse_domain h h Hhd E) as (_ & Hne & Hf). split; [|exact Hne]. apply HS_plain.
    rewrite hparse_plain in E by assumption. destruct (u_in_fragment h) eqn:F; [|discriminate].
    unfold u_in_fragment in F. apply andb_true_iff in F. destruct F as [F _]. apply andb_true_iff in F. destruct F as [F _].
    rewrite forallb_forall in *. intros b Hb. specialize (F b Hb). specialize (Hf b Hb). unfold hc, vis. chars. lia.
Qed.

Lemma parse_opaque_bracket r :
  un_parse_opaque (91 :: r) =
  match u_strip_last 93 r with
  | Some inner => option_map (fun a => 91 :: u_url6 a ++ [93]) (u_parse6 inner)
  | None => None
  end.
Proof. reflexivity. Qed.

Lemma hd_is_91 h : hd_is 91 h = None \/ exists r, h = 91 :: r.
Proof.
  destruct h as [|c r]; [left; reflexivity|]. unfold hd_is. destruct (c =? 91) eqn:E; [right|left; reflexivity].
  apply N.eqb_eq in E. subst c. eexists. reflexivity.
Qed.

Lemma opaque_fixed_shape h : un_opaque_fixed h = true -> host_shape h.
Proof.
  unfold un_opaque_fixed. destruct (hd_is_91 h) as [Hn|(r & ->)].
  - rewrite Hn. intros H. apply HS_plain. revert H. apply forallb_imp. intros b Hb. unfold hc, vis. chars. lia.
  - change (hd_is 91 (91 :: r)) with (Some r). rewrite parse_opaque_bracket.
    destruct (u_strip_last 93 r) as [inner|]; [|discriminate]. destruct (u_parse6 inner) as [a|]; [|discriminate].
    cbn [option_map]. intros H. apply beq_eq in H. rewrite <- H. apply HS_v6. apply (url6_shape_all a).
Qed.

(** an opaque host in printed form is what `parse_opaque` + Display return for it *)
Lemma opaque_fixed_parse h : un_opaque_fixed h = true -> un_parse_opaque h = Some h.
Proof.
  unfold un_opaque_fixed. destruct (hd_is_91 h) as [Hn|(r & ->)].
  - rewrite Hn. intros H. unfold un_parse_opaque. rewrite Hn.
    replace (existsb un_invalid_host_char h) with false.
    + f_equal. apply encode_all_plain. revert H. apply forallb_imp. intros b Hb. apply andb_true_iff in Hb. apply Hb.
    + symmetry. revert H. apply existsb_false_of. intros b Hb. apply andb_true_iff in Hb. destruct Hb as [_ Hb].
      apply negb_true_iff in Hb. exact Hb.
  - change (hd_is 91 (91 :: r)) with (Some r). destruct (un_parse_opaque (91 :: r)) as [x|]; [|discriminate].
    intros H. apply beq_eq in H. subst x. reflexivity.
Qed.

(* ================================================================== A. a normal URL parses to its own pieces *)

Ltac split_andb H :=
  repeat match type of H with
         | (_ && _) = true => let H1 := fresh H in apply andb_true_iff in H; destruct H as [H H1]
         end.

(** what may follow the authority: nothing, or the first byte of a path, a query or a fragment *)
Definition stop3 (R : bytes) : Prop := match R with [] => True | c :: _ => (c =? 47) || (c =? 63) || (c =? 35) = true end.
(** ... or of a port *)
Definition stop4 (R : bytes) : Prop :=
  match R with [] => True | c :: _ => (c =? 58) || (c =? 47) || (c =? 63) || (c =? 35) = true end.

Lemma stop3_4 R : stop3 R -> stop4 R.
Proof. destruct R as [|c r]; [trivial|]. unfold stop3, stop4. lia. Qed.

(* ------------------------------------------------------------------ scheme *)

Definition scheme_rest_char (b : byte) : bool := un_lower_alpha b || hp_is_dig b || (b =? 43) || (b =? 45) || (b =? 46).

Lemma scheme_loop_normal sc rest : forallb scheme_rest_char sc = true -> un_scheme_loop (sc ++ 58 :: rest) = Some (sc, rest).
Proof.
  induction sc as [|c r IH]; cbn [app un_scheme_loop forallb]; [reflexivity|]. intros H. split_andb H.
  replace (un_scheme_char c) with true by (unfold scheme_rest_char in H; chars; lia). rewrite IH by assumption.
  replace (u_lower c) with c; [reflexivity|]. unfold scheme_rest_char in H. chars. destruct ((65 <=? c) && (c <=? 90)) eqn:E; lia.
Qed.

Lemma parse_scheme_normal sc rest : un_scheme_normal sc = true -> un_parse_scheme (sc ++ 58 :: rest) = Some (sc, rest).
Proof.
  destruct sc as [|c r]; [discriminate|]. unfold un_scheme_normal. intros H. split_andb H.
  unfold un_parse_scheme. cbn [app]. replace (un_alpha c) with true by (chars; lia).
  apply (scheme_loop_normal (c :: r)). cbn [forallb]. apply andb_true_iff. split; [unfold scheme_rest_char; rewrite H; reflexivity|exact H0].
Qed.

(* ------------------------------------------------------------------ userinfo *)

Definition ui_char (sp : bool) (c : byte) : bool := negb (c =? 64) && negb (un_auth_end sp c).

Lemma ui_scan_pass sp U : forall rest n la, forallb (ui_char sp) U = true ->
  un_ui_scan sp (U ++ rest) n la = un_ui_scan sp rest (n + length U)%nat la.
Proof.
  induction U as [|c r IH]; intros rest n la H; cbn [app length un_ui_scan forallb] in *; [rewrite Nat.add_0_r; reflexivity|].
  split_andb H. unfold ui_char in H. split_andb H. apply negb_true_iff in H, H1. rewrite H, H1. rewrite IH by assumption.
  f_equal. lia.
Qed.

Lemma ui_scan_stop sp R n la : stop3 R -> un_ui_scan sp R n la = la.
Proof.
  destruct R as [|c r]; [reflexivity|]. unfold stop3. intros H. cbn [un_ui_scan].
  replace (c =? 64) with false by lia. replace (un_auth_end sp c) with true; [reflexivity|]. unfold un_auth_end. destruct sp; lia.
Qed.

Lemma plain_ui_char sp b : un_plain un_userinfo_set b = true -> ui_char sp b = true.
Proof. intros H. unfold ui_char, un_auth_end. destruct sp; chars; lia. Qed.

Lemma ui_write_user u : forall rest k ua pa, forallb (un_plain un_userinfo_set) u = true ->
  un_ui_write (u ++ rest) (length u + k) false ua pa = un_ui_write rest k false (ua ++ u) pa.
Proof.
  induction u as [|c r IH]; intros rest k ua pa H; cbn [app length forallb] in *; [rewrite app_nil_r; reflexivity|].
  split_andb H. cbn [Nat.add un_ui_write]. replace (c =? 58) with false by (chars; lia). cbn [andb].
  rewrite (encode_plain _ _ H), IH by assumption. rewrite <- app_assoc. reflexivity.
Qed.

Lemma ui_write_pass u : forall rest k ua pa, forallb (un_plain un_userinfo_set) u = true ->
  un_ui_write (u ++ rest) (length u + k) true ua pa = un_ui_write rest k true ua (pa ++ u).
Proof.
  induction u as [|c r IH]; intros rest k ua pa H; cbn [app length forallb] in *; [rewrite app_nil_r; reflexivity|].
  split_andb H. cbn [Nat.add un_ui_write]. rewrite andb_false_r.
  rewrite (encode_plain _ _ H), IH by assumption. rewrite <- app_assoc. reflexivity.
Qed.

(** the authority part after the userinfo: host and port text, free of `@` and of the bytes that end the authority *)
Definition auth_char (sp : bool) (c : byte) : bool := ui_char sp c.

Lemma ui_text_pass user p0 pr : un_userinfo_text user (p0 :: pr) = (user ++ 58 :: p0 :: pr) ++ [64].
Proof. unfold un_userinfo_text. destruct user; cbn [app]; rewrite <- ?app_assoc; reflexivity. Qed.

Lemma ui_text_user u0 ur : un_userinfo_text (u0 :: ur) [] = (u0 :: ur) ++ [64].
Proof. unfold un_userinfo_text. cbn [app]. reflexivity. Qed.

Lemma userinfo_fixed sp user pass A R :
  forallb (un_plain un_userinfo_set) user = true -> forallb (un_plain un_userinfo_set) pass = true ->
  forallb (ui_char sp) A = true -> stop3 R ->
  un_parse_userinfo sp (un_userinfo_text user pass ++ A ++ R) = Some (user, pass, A ++ R).
Proof.
  intros Hu Hp HA HR. unfold un_parse_userinfo.
  assert (Hscan : forall n la, un_ui_scan sp (A ++ R) n la = la).
  { intros n la. rewrite ui_scan_pass by assumption. apply ui_scan_stop, HR. }
  assert (HuU : forallb (ui_char sp) user = true) by (revert Hu; apply forallb_imp, plain_ui_char).
  assert (HpU : forallb (ui_char sp) pass = true) by (revert Hp; apply forallb_imp, plain_ui_char).
  destruct pass as [|p0 pr].
  - destruct user as [|u0 ur].
    + cbn [un_userinfo_text app]. rewrite Hscan. reflexivity.
    + rewrite ui_text_user. rewrite <- app_assoc. rewrite ui_scan_pass by assumption. cbn [app un_ui_scan]. change (64 =? 64) with true. cbv iota.
      rewrite Hscan. cbn [Nat.add length]. 
      assert (Hw : un_ui_write ((u0 :: ur) ++ 64 :: A ++ R) (length (u0 :: ur) + 0) false [] [] = (u0 :: ur, @nil N))
        by (rewrite ui_write_user by assumption; reflexivity).
      rewrite Nat.add_0_r in Hw. cbn [app length] in Hw. rewrite Hw. reflexivity.
  - rewrite ui_text_pass. set (pw := p0 :: pr) in *.
    replace (((user ++ 58 :: pw) ++ [64]) ++ A ++ R) with ((user ++ 58 :: pw) ++ 64 :: A ++ R)
      by (rewrite <- (app_assoc _ [64]); reflexivity).
    assert (HU : forallb (ui_char sp) (user ++ 58 :: pw) = true).
    { rewrite forallb_app. rewrite HuU. cbn [forallb andb]. rewrite HpU, andb_true_r. unfold ui_char, un_auth_end. destruct sp; reflexivity. }
    rewrite ui_scan_pass by assumption. cbn [un_ui_scan]. change (64 =? 64) with true. cbv iota. rewrite Hscan. cbn [Nat.add].
    assert (Hw : un_ui_write ((user ++ 58 :: pw) ++ 64 :: A ++ R) (length user + S (length pw + 0)) false [] [] = (user, pw)).
    { rewrite <- app_assoc. rewrite ui_write_user by assumption. cbn [app un_ui_write]. change (58 =? 58) with true. cbn [andb negb].
      rewrite ui_write_pass by assumption. reflexivity. }
    replace (length (user ++ 58 :: pw)) with (length user + S (length pw + 0))%nat by (rewrite app_length; cbn [length]; lia).
    destruct (length user + S (length pw + 0))%nat as [|n] eqn:EL; [lia|]. rewrite Hw. reflexivity.
Qed.

(* ------------------------------------------------------------------ host *)

Lemma host_scan_stop sp R : stop4 R -> un_host_scan sp false R = ([], R).
Proof.
  destruct R as [|c r]; [reflexivity|]. unfold stop4. intros H. cbn [un_host_scan negb]. rewrite andb_true_r.
  match goal with |- (if ?c then _ else _) = _ => destruct c eqn:E end; [reflexivity|]. exfalso. destruct sp; lia.
Qed.

Lemma host_scan_plain sp h R : forallb hc h = true -> stop4 R -> un_host_scan sp false (h ++ R) = (h, R).
Proof.
  intros H HR. induction h as [|c r IH]; cbn [app]; [apply host_scan_stop, HR|]. cbn [forallb] in H. split_andb H.
  cbn [un_host_scan negb]. rewrite andb_true_r. unfold hc, vis in H.
  match goal with |- (if ?c then _ else _) = _ => destruct c eqn:E end; [exfalso; destruct sp; lia|].
  replace (c =? 91) with false by lia. replace (c =? 93) with false by lia. rewrite IH by assumption. reflexivity.
Qed.

Lemma host_scan_inside sp body R : forallb v6_char body = true -> stop4 R ->
  un_host_scan sp true (body ++ 93 :: R) = (body ++ [93], R).
Proof.
  intros H HR. induction body as [|c r IH]; cbn [app].
  - cbn [un_host_scan negb]. rewrite andb_false_r. change (93 =? 92) with false. change (93 =? 47) with false. change (93 =? 63) with false.
    change (93 =? 35) with false. change (93 =? 58) with false. rewrite andb_false_r. cbn [orb]. change (93 =? 91) with false. change (93 =? 93) with true. cbv iota.
    rewrite host_scan_stop by assumption. reflexivity.
  - cbn [forallb] in H. split_andb H. destruct (v6_vis c H) as (_ & E91 & E93 & E47 & E63 & E35 & E92 & _).
    cbn [un_host_scan negb]. rewrite andb_false_r, E92, andb_false_r, E47, E63, E35, E91, E93. cbn [orb]. cbv iota.
    rewrite IH by assumption. reflexivity.
Qed.

Lemma host_scan_shape sp h R : host_shape h -> stop4 R -> un_host_scan sp false (h ++ R) = (h, R).
Proof.
  intros [h' H|body H] HR; [apply host_scan_plain; assumption|].
  cbn [app un_host_scan negb]. rewrite andb_true_r. change (91 =? 58) with false. change (91 =? 92) with false. rewrite andb_false_r.
  change (91 =? 47) with false. change (91 =? 63) with false. change (91 =? 35) with false. cbn [orb]. change (91 =? 91) with true. cbv iota.
  rewrite <- app_assoc. cbn [app]. rewrite host_scan_inside by assumption. reflexivity.
Qed.

(** the host and port text of a normal URL contain no `@` and none of the bytes that end the authority *)
Lemma host_shape_ui sp h : host_shape h -> forallb (ui_char sp) h = true.
Proof.
  intros [h' H|body H].
  - revert H. apply forallb_imp. intros b Hb. unfold hc, vis in Hb. unfold ui_char, un_auth_end. destruct sp; lia.
  - cbn [forallb]. rewrite forallb_app. cbn [forallb].
    replace (forallb (ui_char sp) body) with true; [unfold ui_char, un_auth_end; destruct sp; reflexivity|]. symmetry.
    revert H. apply forallb_imp. intros b Hb. pose proof (v6_vis b Hb). unfold ui_char, un_auth_end. destruct sp; lia.
Qed.

(* ------------------------------------------------------------------ port *)

Lemma digits_val_ge s : forall acc v, hp_digits_val acc s = Some v -> acc <= v.
Proof.
  induction s as [|c r IH]; intros acc v H; cbn [hp_digits_val] in H; [injection H as <-; lia|].
  destruct (hp_is_dig c); [|discriminate]. apply IH in H. lia.
Qed.

Lemma port_loop_val s : forall port any R v, hp_digits_val port s = Some v -> v <= 65535 -> stop3 R ->
  un_port_loop (s ++ R) port any = Some (v, match s with [] => any | _ => true end, R).
Proof.
  induction s as [|c r IH]; intros port any R v Hv Hle HR; cbn [hp_digits_val app] in *.
  - injection Hv as <-. destruct R as [|x xr]; [reflexivity|]. unfold stop3 in HR. cbn [un_port_loop].
    replace (hp_is_dig x) with false by (chars; lia). replace ((x =? 47) || (x =? 92) || (x =? 63) || (x =? 35)) with true by lia. reflexivity.
  - cbn [un_port_loop]. destruct (hp_is_dig c); [|discriminate]. pose proof (digits_val_ge _ _ _ Hv) as Hge.
    replace (65535 <? port * 10 + (c - 48)) with false by lia. rewrite (IH _ true R v Hv Hle HR). destruct r; reflexivity.
Qed.

Lemma port_fixed sc n R : n <= 65535 -> un_opt_n_eqb (Some n) (un_default_port sc) = false -> stop3 R ->
  un_parse_port sc (dec n ++ R) = Some (Some n, R).
Proof.
  intros Hn Hd HR. unfold un_parse_port. rewrite (port_loop_val (dec n) 0 false R n (digits_val_dec n) Hn HR).
  destruct (dec n) eqn:E; [exfalso; exact (dec_nonempty n E)|]. cbn [negb orb]. rewrite Hd. reflexivity.
Qed.

(* ------------------------------------------------------------------ path *)

Definition not_dot (s : bytes) : bool := negb (un_is_dot1 s || un_is_dot2 s).

Lemma seg_done_keep rb seg slash : not_dot seg = true ->
  un_seg_done rb seg slash = (if slash then [47] else []) ++ rev seg ++ rb.
Proof.
  unfold not_dot. intros H. apply negb_true_iff in H. apply orb_false_iff in H. destruct H as [H1 H2].
  unfold un_seg_done. rewrite H1, H2. reflexivity.
Qed.

(** no segment of [seg ++ s] (cut at `/`) is a dot segment; [seg] is the segment being read *)
Fixpoint nodots (seg s : bytes) : bool :=
  match s with
  | [] => not_dot seg
  | c :: r => if c =? 47 then not_dot seg && nodots [] r else nodots (seg ++ [c]) r
  end.

Lemma nodots_split s : forall seg, hp_mem 47 seg = false ->
  forallb not_dot (u_split 47 (seg ++ s)) = true -> nodots seg s = true.
Proof.
  induction s as [|c r IH]; intros seg Hs H.
  - rewrite app_nil_r in H. rewrite split_none in H by assumption. cbn [forallb] in H. rewrite andb_true_r in H. exact H.
  - cbn [nodots]. destruct (c =? 47) eqn:E.
    + apply N.eqb_eq in E. subst c. rewrite split_app in H by assumption. cbn [forallb] in H. split_andb H. rewrite H. apply (IH []); [reflexivity|exact H0].
    + apply IH.
      * unfold hp_mem in *. rewrite existsb_app, Hs. cbn [existsb]. rewrite N.eqb_sym, E. reflexivity.
      * rewrite <- app_assoc. exact H.
Qed.

(** a byte of a path in normal form that is not `/` *)
Definition pchar (sp : bool) (b : byte) : bool := un_plain un_path_set b && negb (sp && (b =? 92)).

Lemma path_loop_fixed sp s : forall rb seg Q, forallb (pchar sp) s = true -> nodots seg s = true ->
  (match Q with [] => True | c :: _ => (c =? 63) || (c =? 35) = true end) ->
  un_path_loop sp (s ++ Q) rb seg = (rev (seg ++ s) ++ rb, Q).
Proof.
  induction s as [|c r IH]; intros rb seg Q H Hn HQ; cbn [app forallb nodots] in *.
  - rewrite app_nil_r. destruct Q as [|q qr]; cbn [un_path_loop].
    + rewrite seg_done_keep by assumption. reflexivity.
    + replace (q =? 47) with false by lia. replace (sp && (q =? 92)) with false by (destruct sp; lia). cbn [orb]. rewrite HQ.
      rewrite seg_done_keep by assumption. reflexivity.
  - split_andb H. unfold pchar in H. split_andb H. apply negb_true_iff in H1. cbn [un_path_loop]. rewrite H1, orb_false_r.
    destruct (c =? 47) eqn:E.
    + split_andb Hn. rewrite seg_done_keep by assumption. rewrite IH by assumption. cbn [app]. apply N.eqb_eq in E. subst c.
      rewrite !rev_app_distr. cbn [rev app]. rewrite <- !app_assoc. reflexivity.
    + replace ((c =? 63) || (c =? 35)) with false by (chars; lia). rewrite (encode_plain _ _ H). rewrite IH by assumption.
      rewrite <- app_assoc. reflexivity.
Qed.

(* ------------------------------------------------------------------ query and fragment *)

Lemma span_app (p : N -> bool) a R : forallb p a = true -> (match R with [] => True | c :: _ => p c = false end) ->
  un_span p (a ++ R) = (a, R).
Proof.
  intros H HR. induction a as [|c r IH]; cbn [app].
  - destruct R as [|x xr]; [reflexivity|]. cbn [un_span]. rewrite HR. reflexivity.
  - cbn [forallb] in H. split_andb H. cbn [un_span]. rewrite H, IH by assumption. reflexivity.
Qed.

Lemma query_fragment_fixed (sp : bool) q f :
  un_opt_all (un_plain (if sp then un_special_query_set else un_query_set)) q = true ->
  un_opt_all (un_plain un_fragment_set) f = true ->
  un_parse_query_and_fragment sp (un_opt_text 63 q ++ un_opt_text 35 f) = Some (q, f).
Proof.
  intros Hq Hf. assert (Hfr : forall fr, f = Some fr -> un_encode_all un_fragment_set fr = fr).
  { intros fr ->. apply encode_all_plain, Hf. }
  destruct q as [qq|]; cbn [un_opt_text un_opt_all app] in *.
  - unfold un_parse_query_and_fragment. change (63 =? 35) with false. change (63 =? 63) with true. cbv iota.
    assert (Hs : un_span (fun x => negb (x =? 35)) (qq ++ un_opt_text 35 f) = (qq, un_opt_text 35 f)).
    { apply span_app; [|destruct f; cbn [un_opt_text]; trivial].
      revert Hq. apply forallb_imp. intros b Hb. destruct sp; chars; lia. }
    rewrite Hs. rewrite (encode_all_plain _ _ Hq). destruct f as [fr|]; cbn [un_opt_text]; [rewrite (Hfr fr eq_refl)|]; reflexivity.
  - destruct f as [fr|]; cbn [un_opt_text]; [|reflexivity]. unfold un_parse_query_and_fragment. change (35 =? 35) with true. cbv iota.
    rewrite (Hfr fr eq_refl). reflexivity.
Qed.

(* ------------------------------------------------------------------ putting the pieces together *)

Lemma ends_with_no c s : forallb (fun b => negb (b =? c)) s = true -> un_ends_with c s = false.
Proof.
  intros H. unfold un_ends_with. destruct (rev s) as [|x r] eqn:E; [reflexivity|]. apply negb_true_iff.
  rewrite forallb_forall in H. apply H. apply in_rev. rewrite E. left. reflexivity.
Qed.

Lemma ends_with_app c a b : b <> [] -> un_ends_with c (a ++ b) = un_ends_with c b.
Proof.
  intros Hb. unfold un_ends_with. rewrite rev_app_distr. destruct (rev b) as [|x r] eqn:E; [|reflexivity].
  exfalso. apply Hb. rewrite <- (rev_involutive b), E. reflexivity.
Qed.

Lemma port_text_ui sp p : forallb (ui_char sp) (un_port_text p) = true.
Proof.
  destruct p as [n|]; [|reflexivity]. cbn [un_port_text forallb]. replace (ui_char sp 58) with true by (unfold ui_char, un_auth_end; destruct sp; reflexivity).
  generalize (is_dig_dec n). apply forallb_imp. intros b Hb. unfold ui_char, un_auth_end. destruct sp; chars; lia.
Qed.

Lemma ui_no_slash sp s : forallb (ui_char sp) s = true -> forallb (fun b => negb (b =? 47)) s = true.
Proof. apply forallb_imp. intros b Hb. unfold ui_char, un_auth_end in Hb. destruct sp; lia. Qed.

Lemma tail_stop3 sp path q f : un_path_normal sp path = true -> stop3 (path ++ un_opt_text 63 q ++ un_opt_text 35 f).
Proof.
  unfold un_path_normal. intros H. split_andb H. destruct path as [|c r]; cbn [app].
  - destruct q; cbn [un_opt_text app]; [reflexivity|]. destruct f; cbn [un_opt_text]; [reflexivity|exact I].
  - unfold stop3. rewrite H. reflexivity.
Qed.

Lemma hd_is_58_stop3 R : stop3 R -> hd_is 58 R = None.
Proof. destruct R as [|c r]; [reflexivity|]. unfold stop3, hd_is. intros H. replace (c =? 58) with false by lia. reflexivity. Qed.

Lemma parse_host_fixed (sp : bool) host R :
  (if sp then un_host_fixed host else un_opaque_fixed host) = true -> stop4 R ->
  un_parse_host sp (host ++ R) = Some (Some (host, R)).
Proof.
  intros H HR. unfold un_parse_host. destruct sp.
  - destruct (host_fixed_shape host H) as [Hs Hne]. rewrite host_scan_shape by assumption.
    destruct host as [|h0 hr]; [contradiction|]. cbn [u_is_empty]. unfold un_host_fixed in H.
    destruct (u_hparse (h0 :: hr)) as [[x|]|]; try discriminate. apply beq_eq in H. rewrite H. reflexivity.
  - rewrite host_scan_shape by (try apply opaque_fixed_shape; assumption). rewrite (opaque_fixed_parse host H). reflexivity.
Qed.

Lemma path_start_fixed sp before path Q :
  un_path_normal sp path = true -> (sp = true -> un_ends_with 47 before = false) ->
  (match Q with [] => True | c :: _ => (c =? 63) || (c =? 35) = true end) ->
  un_parse_path_start sp before (path ++ Q) = (path, Q).
Proof.
  unfold un_path_normal. intros H Hends HQ. apply andb_true_iff in H. destruct H as [H Hnd]. apply andb_true_iff in H. destruct H as [Hhead Hchars].
  assert (Hmain : forall r, path = 47 :: r -> un_path_loop sp (r ++ Q) [47] [] = (rev path, Q)).
  { intros r ->. cbn [forallb] in Hchars. apply andb_true_iff in Hchars. destruct Hchars as [_ H]. unfold un_no_dot_segment in Hnd. cbn [u_split] in Hnd. change (47 =? 47) with true in Hnd.
    cbv iota in Hnd. cbn [forallb] in Hnd. apply andb_true_iff in Hnd. destruct Hnd as [_ H0].
    rewrite path_loop_fixed; [|exact H|apply nodots_split; [reflexivity|exact H0]|exact HQ]. cbn [app rev]. reflexivity. }
  unfold un_parse_path_start. destruct sp.
  - rewrite (Hends eq_refl). cbn [negb]. destruct path as [|c r]; [discriminate|]. apply N.eqb_eq in Hhead. subst c. cbn [app].
    change (un_is_slash 47) with true. cbv iota. rewrite (Hmain r eq_refl). rewrite rev_involutive. reflexivity.
  - destruct path as [|c r].
    + cbn [app]. destruct Q as [|x xr]; [reflexivity|]. rewrite HQ. reflexivity.
    + apply N.eqb_eq in Hhead. subst c. cbn [app]. change ((47 =? 63) || (47 =? 35)) with false. change (47 =? 47) with true. cbv iota.
      cbn [un_path_loop]. change ((47 =? 47) || false && (47 =? 92)) with true. cbv iota. change (un_seg_done [] [] true) with [47].
      rewrite (Hmain r eq_refl). rewrite rev_involutive. reflexivity.
Qed.

Lemma plain_vis_userinfo b : un_plain un_userinfo_set b = true -> vis b = true. Proof. unfold vis. chars. lia. Qed.
Lemma plain_vis_path b : un_plain un_path_set b = true -> vis b = true. Proof. unfold vis. chars. lia. Qed.
Lemma plain_vis_query b : un_plain un_query_set b = true -> vis b = true. Proof. unfold vis. chars. lia. Qed.
Lemma plain_vis_squery b : un_plain un_special_query_set b = true -> vis b = true. Proof. unfold vis. chars. lia. Qed.
Lemma plain_vis_fragment b : un_plain un_fragment_set b = true -> vis b = true. Proof. unfold vis. chars. lia. Qed.

Lemma ui_text_vis user pass : forallb vis user = true -> forallb vis pass = true -> forallb vis (un_userinfo_text user pass) = true.
Proof.
  intros Hu Hp. unfold un_userinfo_text. rewrite !forallb_app, Hu. destruct pass as [|p0 pr].
  - destruct user; reflexivity.
  - cbn [forallb] in *. rewrite Hp. destruct user; reflexivity.
Qed.

Lemma opt_text_vis c o : vis c = true -> un_opt_all vis o = true -> forallb vis (un_opt_text c o) = true.
Proof. intros Hc Ho. destruct o as [s|]; [|reflexivity]. cbn [un_opt_text forallb un_opt_all] in *. rewrite Hc, Ho. reflexivity. Qed.

Lemma opt_all_imp (P Q : N -> bool) o : (forall b, P b = true -> Q b = true) -> un_opt_all P o = true -> un_opt_all Q o = true.
Proof. intros H. destruct o; [apply forallb_imp, H|trivial]. Qed.

Ltac parts_hyps H :=
  unfold un_parts_normal in H; cbv zeta in H;
  apply andb_true_iff in H; destruct H as [H Hfrag]; apply andb_true_iff in H; destruct H as [H Hquery];
  apply andb_true_iff in H; destruct H as [H Hpath]; apply andb_true_iff in H; destruct H as [H Hport];
  apply andb_true_iff in H; destruct H as [H Hempty]; apply andb_true_iff in H; destruct H as [H Hhost];
  apply andb_true_iff in H; destruct H as [H Hpass]; apply andb_true_iff in H; destruct H as [H Huser];
  apply andb_true_iff in H; destruct H as [Hsc Hfile].

Lemma parts_host_shape p : un_parts_normal p = true -> host_shape (p_host p).
Proof.
  intros H. parts_hyps H. destruct (un_special (p_scheme p)).
  - apply host_fixed_shape. assumption.
  - apply opaque_fixed_shape. assumption.
Qed.

(** every byte of a URL put together from normal pieces is a visible ASCII character *)
Lemma assemble_vis p : un_parts_normal p = true -> forallb vis (un_assemble p) = true.
Proof.
  intros Hn. pose proof (parts_host_shape p Hn) as Hhs. parts_hyps Hn.
  assert (V1 : forallb vis (p_scheme p) = true).
  { unfold un_scheme_normal in Hsc. destruct (p_scheme p) as [|c r]; [discriminate|]. apply andb_true_iff in Hsc. destruct Hsc as [Hc Hr]. cbn [forallb].
    apply andb_true_iff. split; [unfold vis; chars; lia|]. revert Hr. apply forallb_imp. intros b Hb. unfold vis. chars. lia. }
  assert (V2 : forallb vis (un_userinfo_text (p_user p) (p_pass p)) = true)
    by (apply ui_text_vis; [revert Huser|revert Hpass]; apply forallb_imp, plain_vis_userinfo).
  assert (V3 : forallb vis (p_host p) = true) by apply host_shape_vis, Hhs.
  assert (V4 : forallb vis (un_port_text (p_port p)) = true).
  { destruct (p_port p) as [n|]; [|reflexivity]. cbn [un_port_text forallb]. apply andb_true_iff. split; [reflexivity|].
    generalize (is_dig_dec n). apply forallb_imp. intros b Hb. unfold vis. chars. lia. }
  assert (V5 : forallb vis (p_path p) = true).
  { unfold un_path_normal in Hpath. apply andb_true_iff in Hpath. destruct Hpath as [Hpath _]. apply andb_true_iff in Hpath. destruct Hpath as [_ Hpath].
    revert Hpath. apply forallb_imp. intros b Hb. apply andb_true_iff in Hb. destruct Hb as [Hb _]. apply plain_vis_path, Hb. }
  assert (V6 : forallb vis (un_opt_text 63 (p_query p)) = true).
  { apply opt_text_vis; [reflexivity|]. revert Hquery. apply opt_all_imp. destruct (un_special (p_scheme p)); [apply plain_vis_squery|apply plain_vis_query]. }
  assert (V7 : forallb vis (un_opt_text 35 (p_frag p)) = true)
    by (apply opt_text_vis; [reflexivity|]; revert Hfrag; apply opt_all_imp, plain_vis_fragment).
  unfold un_assemble, un_prefix. rewrite !forallb_app, V1, V2, V3, V4, V5, V6, V7. reflexivity.
Qed.

Lemma ui_text_head user pass rest :
  forallb (un_plain un_userinfo_set) user = true -> forallb (un_plain un_userinfo_set) pass = true ->
  un_userinfo_text user pass = [] \/
  exists c r, un_userinfo_text user pass ++ rest = c :: r /\ un_is_slash c = false.
Proof.
  intros Hu Hp. destruct user as [|u0 ur].
  - destruct pass as [|p0 pr]; [left; reflexivity|]. right. rewrite ui_text_pass. cbn [app]. eexists _, _. split; reflexivity.
  - right. cbn [forallb] in Hu. apply andb_true_iff in Hu. destruct Hu as [Hu _].
    assert (Hs : un_is_slash u0 = false) by (chars; lia).
    destruct pass as [|p0 pr]; [rewrite ui_text_user|rewrite ui_text_pass]; cbn [app]; eexists _, _; (split; [reflexivity|exact Hs]).
Qed.

Lemma host_shape_head h rest : host_shape h -> h <> [] -> exists c r, h ++ rest = c :: r /\ un_is_slash c = false.
Proof.
  intros [h' H|body H] Hne.
  - destruct h' as [|c r]; [contradiction|]. cbn [forallb] in H. apply andb_true_iff in H. destruct H as [H _]. cbn [app]. eexists _, _. split; [reflexivity|].
    unfold hc, vis in H. chars. lia.
  - cbn [app]. eexists _, _. split; reflexivity.
Qed.

(** A. a URL put together from pieces in normal form parses to exactly those pieces *)
Theorem parts_fixed p : un_parts_normal p = true -> un_parse (un_assemble p) = Some (Some p).
Proof.
  intros Hn. pose proof (assemble_vis p Hn) as Hvis. pose proof (parts_host_shape p Hn) as Hhs.
  destruct p as [sc user pass host port path q f]. cbn [p_host] in Hhs. parts_hyps Hn.
  cbn [p_scheme p_user p_pass p_host p_port p_path p_query p_frag] in *.
  unfold un_parse. rewrite (ascii_vis _ Hvis), (trim_vis _ Hvis), (strip_vis _ Hvis). cbn [negb].
  unfold un_assemble, un_prefix. cbn [p_scheme p_user p_pass p_host p_port p_path p_query p_frag].
  rewrite <- !app_assoc. cbn [app]. rewrite (parse_scheme_normal sc _ Hsc).
  apply negb_true_iff in Hfile. rewrite Hfile.
  set (sp := un_special sc) in *.
  set (R := path ++ un_opt_text 63 q ++ un_opt_text 35 f).
  assert (HR : stop3 R) by (apply (tail_stop3 sp), Hpath).
  set (A := host ++ un_port_text port).
  assert (HA : forallb (ui_char sp) A = true) by (unfold A; rewrite forallb_app, (host_shape_ui sp host Hhs), (port_text_ui sp port); reflexivity).
  assert (Hgo : un_after_double_slash sp sc (un_userinfo_text user pass ++ host ++ un_port_text port ++ R) =
                Some (Some {| p_scheme := sc; p_user := user; p_pass := pass; p_host := host; p_port := port;
                              p_path := path; p_query := q; p_frag := f |})).
  { unfold un_after_double_slash.
    replace (un_userinfo_text user pass ++ host ++ un_port_text port ++ R) with (un_userinfo_text user pass ++ A ++ R)
      by (unfold A; rewrite <- app_assoc; reflexivity).
    rewrite (userinfo_fixed sp user pass A R Huser Hpass HA HR). unfold A. rewrite <- app_assoc.
    assert (H4 : stop4 (un_port_text port ++ R)) by (destruct port; [cbn [un_port_text app]; reflexivity|apply stop3_4, HR]).
    rewrite (parse_host_fixed sp host _ Hhost H4).
    (* the empty host *)
    assert (He : u_is_empty host && ((match un_port_text port ++ R with c :: _ => c =? 58 | [] => false end) || sp) = false).
    { destruct host as [|h0 hr]; [|reflexivity]. cbn [u_is_empty andb] in *. apply andb_true_iff in Hempty. destruct Hempty as [_ Hempty].
      destruct port; [discriminate|]. cbn [un_port_text app]. destruct sp; [unfold un_host_fixed in Hhost; discriminate|].
      rewrite orb_false_r. destruct R as [|c r]; [reflexivity|]. unfold stop3 in HR. lia. }
    rewrite He.
    assert (Hp : match hd_is 58 (un_port_text port ++ R) with
                 | Some r => un_parse_port sc r
                 | None => Some (None, un_port_text port ++ R)
                 end = Some (port, R)).
    { destruct port as [n|]; cbn [un_port_text app].
      - change (hd_is 58 (58 :: dec n ++ R)) with (Some (dec n ++ R)). apply andb_true_iff in Hport. destruct Hport as [Hle Hdef].
        apply negb_true_iff in Hdef. apply port_fixed; [lia|exact Hdef|exact HR].
      - rewrite (hd_is_58_stop3 R HR). reflexivity. }
    rewrite Hp.
    assert (He2 : u_is_empty host && negb (u_is_empty (un_userinfo_text user pass)) = false).
    { destruct host as [|h0 hr]; [|reflexivity]. cbn [u_is_empty andb] in *. apply andb_true_iff in Hempty. destruct Hempty as [Hempty _].
      apply andb_true_iff in Hempty. destruct Hempty as [E1 E2]. destruct user; [|discriminate]. destruct pass; [|discriminate]. reflexivity. }
    rewrite He2. unfold R. rewrite path_start_fixed.
    - rewrite (query_fragment_fixed sp q f Hquery Hfrag). reflexivity.
    - exact Hpath.
    - intros Esp. fold sp in Hhost. rewrite Esp in Hhost. destruct (host_fixed_shape host Hhost) as [_ Hne].
      unfold un_prefix. rewrite !app_assoc. rewrite <- (app_assoc _ host). rewrite ends_with_app.
      + apply ends_with_no. apply (ui_no_slash sp). exact HA.
      + destruct host; [contradiction|discriminate].
    - destruct q; cbn [un_opt_text app]; [reflexivity|]. destruct f; cbn [un_opt_text]; [reflexivity|exact I]. }
  destruct sp eqn:Esp.
  - (* special: the run of slashes *)
    unfold un_skip_slashes. cbn [un_drop_while]. change (un_is_slash 47) with true. cbv iota.
    assert (Hne : host <> []) by (apply (host_fixed_shape host Hhost)).
    assert (Hd : un_drop_while un_is_slash (un_userinfo_text user pass ++ host ++ un_port_text port ++ R) =
                 un_userinfo_text user pass ++ host ++ un_port_text port ++ R).
    { destruct (ui_text_head user pass (host ++ un_port_text port ++ R) Huser Hpass) as [E|(c & r & E & Hc)].
      - rewrite E. cbn [app]. destruct (host_shape_head host (un_port_text port ++ R) Hhs Hne) as (c & r & E2 & Hc). rewrite E2. apply drop_while_head, Hc.
      - rewrite E. apply drop_while_head, Hc. }
    fold R. rewrite Hd. exact Hgo.
  - change ((47 =? 47) && (47 =? 47)) with true. cbv iota. fold R. exact Hgo.
Qed.

(** what was requested is stored exactly, for every URL written in normal form *)
Theorem u_norm_fixed u : is_normal_url u = true -> u_norm u = Some (Some u).
Proof.
  unfold is_normal_url. destruct (un_split_url u) as [p|]; [|discriminate]. intros H. apply andb_true_iff in H. destruct H as [Hn Hb].
  apply beq_eq in Hb. subst u. unfold u_norm. rewrite (parts_fixed p Hn). reflexivity.
Qed.

(* ================================================================== B. what the parser returns is in normal form *)

(* ------------------------------------------------------------------ scheme *)

Lemma scheme_char_lower c : un_scheme_char c = true -> scheme_rest_char (u_lower c) = true.
Proof. intros H. unfold scheme_rest_char. chars. destruct ((65 <=? c) && (c <=? 90)) eqn:E; lia. Qed.

Lemma scheme_loop_chars s : forall sc rest, un_scheme_loop s = Some (sc, rest) -> forallb scheme_rest_char sc = true.
Proof.
  induction s as [|c r IH]; intros sc rest H; cbn [un_scheme_loop] in H; [discriminate|].
  destruct (un_scheme_char c) eqn:E.
  - destruct (un_scheme_loop r) as [[sc' rest']|]; [|discriminate]. injection H as <- <-. cbn [forallb].
    rewrite (scheme_char_lower c E), (IH sc' rest' eq_refl). reflexivity.
  - destruct (c =? 58); [|discriminate]. injection H as <- <-. reflexivity.
Qed.

Lemma parse_scheme_out s sc rest : un_parse_scheme s = Some (sc, rest) -> un_scheme_normal sc = true.
Proof.
  unfold un_parse_scheme. destruct s as [|c r]; [discriminate|]. destruct (un_alpha c) eqn:Ea; [|discriminate]. intros H.
  pose proof (scheme_loop_chars _ _ _ H) as Hc. cbn [un_scheme_loop] in H.
  replace (un_scheme_char c) with true in H by (chars; lia).
  destruct (un_scheme_loop r) as [[sc' rest']|]; [|discriminate]. injection H as <- <-. cbn [forallb] in Hc.
  apply andb_true_iff in Hc. destruct Hc as [_ Hc]. unfold un_scheme_normal. apply andb_true_iff. split; [|exact Hc].
  chars. destruct ((65 <=? c) && (c <=? 90)) eqn:E; lia.
Qed.

(* ------------------------------------------------------------------ userinfo *)

Lemma ui_write_plain count : forall s colon ua pa u p,
  forallb (un_plain un_userinfo_set) ua = true -> forallb (un_plain un_userinfo_set) pa = true ->
  un_ui_write s count colon ua pa = (u, p) ->
  forallb (un_plain un_userinfo_set) u = true /\ forallb (un_plain un_userinfo_set) p = true.
Proof.
  induction count as [|k IH]; intros s colon ua pa u p Hu Hp H; destruct s as [|c r]; cbn [un_ui_write] in H;
    try (injection H as <- <-; split; assumption).
  destruct ((c =? 58) && negb colon); [apply (IH _ _ _ _ _ _ Hu Hp H)|].
  destruct colon; apply (IH _ _ _ _ _ _) in H; try assumption; rewrite forallb_app, (encode_out_plain _ _ userinfo_ok), ?Hu, ?Hp; reflexivity.
Qed.

Lemma parse_userinfo_out sp input user pass rest : un_parse_userinfo sp input = Some (user, pass, rest) ->
  forallb (un_plain un_userinfo_set) user = true /\ forallb (un_plain un_userinfo_set) pass = true.
Proof.
  unfold un_parse_userinfo. destruct (un_ui_scan sp input 0 None) as [[[|n] rem]|].
  - destruct rem as [|c r]; [|destruct (un_auth_end sp c); [discriminate|]]; intros H; injection H as <- <- _; split; reflexivity.
  - destruct (un_ui_write input (S n) false [] []) as [u p] eqn:E. intros H. injection H as <- <- _.
    apply (ui_write_plain (S n) input false [] [] u p eq_refl eq_refl E).
  - intros H. injection H as <- <- _. split; reflexivity.
Qed.

(* ------------------------------------------------------------------ host *)

Lemma parse_opaque_out t x : un_parse_opaque t = Some x -> un_opaque_fixed x = true.
Proof.
  destruct (hd_is_91 t) as [Hn|(r & ->)].
  - unfold un_parse_opaque. rewrite Hn. destruct (existsb un_invalid_host_char t) eqn:E; [discriminate|]. intros H. injection H as <-.
    assert (Hall : forallb (fun b => un_plain un_controls b && negb (un_invalid_host_char b)) (un_encode_all un_controls t) = true).
    { clear Hn. induction t as [|c r IH]; [reflexivity|]. cbn [existsb] in E. apply orb_false_iff in E. destruct E as [Ec Er].
      unfold un_encode_all in *. cbn [flat_map]. rewrite forallb_app, (IH Er), andb_true_r.
      apply encode_out_prop; [intros Hp; rewrite Hp, Ec; reflexivity|reflexivity|].
      intros d Hd. pose proof (hexU_range d Hd) as Hr. set (y := un_hexU d) in *. clearbody y. chars. lia. }
    unfold un_opaque_fixed. replace (hd_is 91 (un_encode_all un_controls t)) with (@None bytes); [exact Hall|].
    destruct t as [|c r]; [reflexivity|]. unfold un_encode_all. cbn [flat_map]. unfold un_encode.
    unfold hd_is in Hn. destruct (c =? 91) eqn:E91; [discriminate|]. destruct ((128 <=? c) || un_controls c); cbn [app hd_is]; [reflexivity|].
    rewrite E91. reflexivity.
  - rewrite parse_opaque_bracket. destruct (u_strip_last 93 r) as [inner|]; [|discriminate]. destruct (u_parse6 inner) as [a|] eqn:E6; [|discriminate].
    cbn [option_map]. intros H. injection H as <-. unfold un_opaque_fixed. change (hd_is 91 (91 :: u_url6 a ++ [93])) with (Some (u_url6 a ++ [93])).
    rewrite parse_opaque_bracket, strip_last_app, (parse6_url6 a (parse6_range _ _ E6)). cbn [option_map]. apply beq_refl.
Qed.

Lemma parse_host_out (sp : bool) input host rest : un_parse_host sp input = Some (Some (host, rest)) ->
  (if sp then un_host_fixed host else un_opaque_fixed host) = true.
Proof.
  unfold un_parse_host. destruct (un_host_scan sp false input) as [hs r]. destruct sp.
  - destruct (u_is_empty hs); [discriminate|]. destruct (u_hparse hs) as [[x|]|] eqn:E; try discriminate. intros H. injection H as <- _.
    unfold un_host_fixed. rewrite (hparse_print_parse hs x E). apply beq_refl.
  - destruct (un_parse_opaque hs) as [x|] eqn:E; [|discriminate]. intros H. injection H as <- _. apply (parse_opaque_out hs x E).
Qed.

(* ------------------------------------------------------------------ port *)

Lemma port_loop_le s : forall port any v a r, port <= 65535 -> un_port_loop s port any = Some (v, a, r) -> v <= 65535.
Proof.
  induction s as [|c t IH]; intros port any v a r Hp H; cbn [un_port_loop] in H; [injection H as <- _ _; exact Hp|].
  destruct (hp_is_dig c).
  - destruct (65535 <? port * 10 + (c - 48)) eqn:E; [discriminate|]. apply (IH _ _ _ _ _) in H; [exact H|lia].
  - destruct ((c =? 47) || (c =? 92) || (c =? 63) || (c =? 35)); [|discriminate]. injection H as <- _ _. exact Hp.
Qed.

Lemma parse_port_out sc input port rest : un_parse_port sc input = Some (port, rest) ->
  match port with
  | Some n => (n <=? 65535) && negb (un_opt_n_eqb (Some n) (un_default_port sc))
  | None => true
  end = true.
Proof.
  unfold un_parse_port. destruct (un_port_loop input 0 false) as [[[v a] r]|] eqn:E; [|discriminate].
  assert (Hv : v <= 65535) by (apply (port_loop_le _ _ _ _ _ _ (N.le_0_l _) E)).
  destruct (negb a || un_opt_n_eqb (Some v) (un_default_port sc)) eqn:Ed; intros H; injection H as <- _; [reflexivity|].
  apply orb_false_iff in Ed. destruct Ed as [_ Ed]. rewrite Ed. cbn [negb]. rewrite andb_true_r. lia.
Qed.

(* ------------------------------------------------------------------ path *)

(** the path piece at a segment boundary, reversed: the finished segments, last first, each after its `/` *)
Fixpoint ser (rsegs : list bytes) : bytes :=
  match rsegs with
  | [] => []
  | s :: r => 47 :: rev s ++ ser r
  end.

Definition schar (sp : bool) (b : byte) : bool := pchar sp b && negb (b =? 47).
Definition segok (sp : bool) (s : bytes) : Prop := forallb (schar sp) s = true /\ not_dot s = true.

Lemma schar_no47 sp s : forallb (schar sp) s = true -> hp_mem 47 s = false.
Proof.
  intros H. unfold hp_mem. revert H. apply existsb_false_of. intros b Hb. unfold schar in Hb. apply andb_true_iff in Hb. destruct Hb as [_ Hb].
  apply negb_true_iff in Hb. rewrite N.eqb_sym. exact Hb.
Qed.

Lemma ser_head rsegs : exists T, ser rsegs ++ [47] = 47 :: T.
Proof. destruct rsegs as [|s r]; cbn [ser app]; eexists; reflexivity. Qed.

Lemma from_last_slash_seg l : forall acc X, hp_mem 47 l = false ->
  un_from_last_slash (l ++ 47 :: X) acc = Some (47 :: rev l ++ acc).
Proof.
  induction l as [|c r IH]; intros acc X H; cbn [app un_from_last_slash].
  - reflexivity.
  - unfold hp_mem in H. cbn [existsb] in H. apply orb_false_iff in H. destruct H as [Hc Hr]. rewrite N.eqb_sym, Hc.
    rewrite (IH _ _ Hr). cbn [rev]. rewrite <- app_assoc. reflexivity.
Qed.

Lemma drop_to_slash l X : hp_mem 47 l = false -> un_drop_while (fun c => negb (c =? 47)) (l ++ 47 :: X) = 47 :: X.
Proof.
  induction l as [|c r IH]; intros H; cbn [app un_drop_while]; [reflexivity|].
  unfold hp_mem in H. cbn [existsb] in H. apply orb_false_iff in H. destruct H as [Hc Hr]. rewrite N.eqb_sym, Hc. cbn [negb]. apply IH, Hr.
Qed.

Lemma mem_rev c l : hp_mem c (rev l) = hp_mem c l.
Proof.
  unfold hp_mem. destruct (existsb (N.eqb c) l) eqn:E.
  - apply existsb_exists in E. destruct E as (x & Hx & Hc). apply existsb_exists. exists x. split; [apply in_rev in Hx; exact Hx|exact Hc].
  - destruct (existsb (N.eqb c) (rev l)) eqn:E2; [|reflexivity]. apply existsb_exists in E2. destruct E2 as (x & Hx & Hc).
    apply in_rev in Hx. assert (existsb (N.eqb c) l = true) by (apply existsb_exists; exists x; split; assumption). congruence.
Qed.

Lemma dot2_done_inv sp rsegs slash : Forall (segok sp) rsegs ->
  exists rsegs', Forall (segok sp) rsegs' /\ un_dot2_done (ser rsegs ++ [47]) slash = ser rsegs' ++ [47].
Proof.
  intros HF. destruct rsegs as [|s0 R'].
  - exists []. split; [constructor|]. destruct slash; reflexivity.
  - inversion HF as [|x l [Hs0 _] HR']. subst x l. pose proof (schar_no47 sp s0 Hs0) as H47.
    destruct (ser_head R') as [T HT].
    assert (Hrb : ser (s0 :: R') ++ [47] = 47 :: rev s0 ++ 47 :: T) by (cbn [ser app]; rewrite <- app_assoc, HT; reflexivity).
    rewrite Hrb. unfold un_dot2_done. cbn [un_hd_is_slash]. change (47 =? 47) with true. cbn [andb].
    unfold un_last_slash_can_be_removed. rewrite from_last_slash_seg by (rewrite mem_rev; exact H47). rewrite rev_involutive.
    destruct (negb (un_path_starts_with_wdl (47 :: s0 ++ [47]))).
    + exists R'. split; [exact HR'|]. cbn [tl]. unfold un_shorten.
      assert (Hp : un_pop_path (rev s0 ++ 47 :: T) = 47 :: T) by (apply drop_to_slash; rewrite mem_rev; exact H47).
      destruct (rev s0 ++ 47 :: T) eqn:E; [destruct (rev s0); discriminate|]. rewrite Hp. cbn [un_hd_is_slash]. change (47 =? 47) with true.
      cbn [negb]. rewrite andb_false_r. symmetry. exact HT.
    + exists (s0 :: R'). split; [exact HF|]. unfold un_shorten, un_pop_path. cbn [un_drop_while]. change (47 =? 47) with true. cbn [negb un_hd_is_slash].
      change (47 =? 47) with true. cbn [negb]. rewrite andb_false_r. symmetry. exact Hrb.
Qed.

Lemma not_dot_nil : not_dot [] = true. Proof. reflexivity. Qed.

Lemma seg_done_slash sp rsegs seg : Forall (segok sp) rsegs -> forallb (schar sp) seg = true ->
  exists rsegs', Forall (segok sp) rsegs' /\ un_seg_done (ser rsegs ++ [47]) seg true = ser rsegs' ++ [47].
Proof.
  intros HF Hs. unfold un_seg_done. destruct (un_is_dot2 seg) eqn:E2; [apply dot2_done_inv, HF|].
  destruct (un_is_dot1 seg) eqn:E1.
  - exists rsegs. split; [exact HF|]. destruct (ser_head rsegs) as [T ->]. reflexivity.
  - exists (seg :: rsegs). split; [|cbn [ser app]; rewrite <- app_assoc; reflexivity]. constructor; [|exact HF]. split; [exact Hs|]. unfold not_dot. rewrite E1, E2. reflexivity.
Qed.

Lemma seg_done_final sp rsegs seg : Forall (segok sp) rsegs -> forallb (schar sp) seg = true ->
  exists rsegs' last, Forall (segok sp) rsegs' /\ segok sp last /\
    un_seg_done (ser rsegs ++ [47]) seg false = rev last ++ ser rsegs' ++ [47].
Proof.
  intros HF Hs. unfold un_seg_done. destruct (un_is_dot2 seg) eqn:E2.
  - destruct (dot2_done_inv sp rsegs false HF) as (r' & Hr' & ->). exists r', []. split; [exact Hr'|]. split; [split; reflexivity|reflexivity].
  - destruct (un_is_dot1 seg) eqn:E1.
    + exists rsegs, []. split; [exact HF|]. split; [split; reflexivity|]. destruct (ser_head rsegs) as [T ->]. reflexivity.
    + exists rsegs, seg. split; [exact HF|]. split; [|reflexivity]. split; [exact Hs|]. unfold not_dot. rewrite E1, E2. reflexivity.
Qed.

Lemma schar_encode sp c : (c =? 47) || (sp && (c =? 92)) = false -> forallb (schar sp) (un_encode un_path_set c) = true.
Proof.
  intros H. apply orb_false_iff in H. destruct H as [H47 H92]. apply encode_out_prop.
  - intros Hp. unfold schar, pchar. rewrite Hp, H92, H47. reflexivity.
  - unfold schar, pchar. destruct sp; reflexivity.
  - intros d Hd. pose proof (hexU_range d Hd) as Hr. set (y := un_hexU d) in *. clearbody y. unfold schar, pchar. destruct sp; chars; lia.
Qed.

Lemma path_loop_inv sp s : forall rsegs seg rb' rest, Forall (segok sp) rsegs -> forallb (schar sp) seg = true ->
  un_path_loop sp s (ser rsegs ++ [47]) seg = (rb', rest) ->
  exists rsegs' last, Forall (segok sp) rsegs' /\ segok sp last /\ rb' = rev last ++ ser rsegs' ++ [47].
Proof.
  induction s as [|c r IH]; intros rsegs seg rb' rest HF Hs H; cbn [un_path_loop] in H.
  - injection H as <- _. apply seg_done_final; assumption.
  - destruct ((c =? 47) || (sp && (c =? 92))) eqn:E.
    + destruct (seg_done_slash sp rsegs seg HF Hs) as (r' & Hr' & Er'). rewrite Er' in H. apply (IH r' [] rb' rest Hr' eq_refl H).
    + destruct ((c =? 63) || (c =? 35)).
      * injection H as <- _. apply seg_done_final; assumption.
      * apply (IH rsegs _ rb' rest HF) in H; [exact H|]. rewrite forallb_app, Hs, (schar_encode sp c E). reflexivity.
Qed.

Lemma pchar_ser sp rsegs : Forall (segok sp) rsegs -> forallb (pchar sp) (ser rsegs) = true.
Proof.
  induction 1 as [|s r [Hs _] _ IH]; [reflexivity|]. cbn [ser forallb]. rewrite forallb_app, IH, andb_true_r.
  apply andb_true_iff. split; [unfold pchar; destruct sp; reflexivity|].
  rewrite forallb_forall in *. intros x Hx. apply in_rev in Hx. specialize (Hs x Hx). unfold schar in Hs. apply andb_true_iff in Hs. apply Hs.
Qed.

Lemma nodot_ser sp rsegs : Forall (segok sp) rsegs -> forall tl, forallb not_dot (u_split 47 tl) = true ->
  forallb not_dot (u_split 47 (rev (ser rsegs) ++ tl)) = true.
Proof.
  induction 1 as [|s r [Hs Hd] _ IH]; intros tl Ht; [exact Ht|]. cbn [ser rev]. rewrite rev_app_distr, rev_involutive, <- !app_assoc. cbn [app].
  apply IH. rewrite split_app by (apply (schar_no47 sp), Hs). cbn [forallb]. rewrite Hd, Ht. reflexivity.
Qed.

Lemma forallb_rev (P : N -> bool) l : forallb P l = true -> forallb P (rev l) = true.
Proof. rewrite !forallb_forall. intros H x Hx. apply H, in_rev, Hx. Qed.

(** the path that [un_path_loop] leaves, started on a buffer that holds just the root slash *)
Lemma path_loop_normal sp s seg0 rb' rest : seg0 = [] ->
  un_path_loop sp s [47] seg0 = (rb', rest) -> un_path_normal sp (rev rb') = true.
Proof.
  intros -> H. destruct (path_loop_inv sp s [] [] rb' rest (Forall_nil _) eq_refl H) as (rs & last & Hrs & [Hl Hld] & ->).
  rewrite !rev_app_distr, rev_involutive. cbn [rev app]. unfold un_path_normal. change (47 =? 47) with true. cbn [andb].
  apply andb_true_iff. split.
  - change (forallb (pchar sp) (47 :: rev (ser rs) ++ last) = true). cbn [forallb]. rewrite forallb_app.
    rewrite (forallb_rev _ _ (pchar_ser sp rs Hrs)).
    replace (forallb (pchar sp) last) with true; [unfold pchar; destruct sp; reflexivity|]. symmetry. revert Hl. apply forallb_imp.
    intros b Hb. unfold schar in Hb. apply andb_true_iff in Hb. apply Hb.
  - unfold un_no_dot_segment. change (forallb not_dot (u_split 47 (47 :: rev (ser rs) ++ last)) = true). cbn [u_split]. change (47 =? 47) with true.
    cbv iota. cbn [forallb]. rewrite not_dot_nil. cbn [andb]. apply (nodot_ser sp rs Hrs).
    rewrite split_none by (apply (schar_no47 sp), Hl). cbn [forallb]. rewrite Hld. reflexivity.
Qed.

Lemma path_start_normal sp before input path rest :
  (sp = true -> un_ends_with 47 before = false) ->
  un_parse_path_start sp before input = (path, rest) -> un_path_normal sp path = true.
Proof.
  intros Hends. unfold un_parse_path_start. destruct sp.
  - rewrite (Hends eq_refl). cbn [negb].
    destruct input as [|c r]; [|destruct (un_is_slash c)];
      match goal with |- (let '(_, _) := ?x in _) = _ -> _ => destruct x as [rp rs] eqn:E end;
      intros H; injection H as <- _; apply (path_loop_normal _ _ _ _ _ eq_refl E).
  - destruct input as [|c r].
    + cbn [un_path_loop]. intros H. injection H as <- _. reflexivity.
    + destruct ((c =? 63) || (c =? 35)); [intros H; injection H as <- _; reflexivity|]. destruct (c =? 47) eqn:E47.
      * cbn [un_path_loop]. rewrite E47. cbn [orb]. change (un_seg_done [] [] true) with [47].
        destruct (un_path_loop false r [47] []) as [rp rs] eqn:E. intros H. injection H as <- _. apply (path_loop_normal _ _ _ _ _ eq_refl E).
      * destruct (un_path_loop false (c :: r) [47] []) as [rp rs] eqn:E. intros H. injection H as <- _. apply (path_loop_normal _ _ _ _ _ eq_refl E).
Qed.

(* ------------------------------------------------------------------ query, fragment, the whole *)

Lemma query_fragment_out (sp : bool) input q f : un_parse_query_and_fragment sp input = Some (q, f) ->
  un_opt_all (un_plain (if sp then un_special_query_set else un_query_set)) q = true /\
  un_opt_all (un_plain un_fragment_set) f = true.
Proof.
  unfold un_parse_query_and_fragment. destruct input as [|c r]; [intros H; injection H as <- <-; split; reflexivity|].
  destruct (c =? 35).
  - intros H. injection H as <- <-. split; [reflexivity|apply encode_all_out_plain, fragment_ok].
  - destruct (c =? 63); [|discriminate]. destruct (un_span (fun x => negb (x =? 35)) r) as [qq rest]. intros H. injection H as <- <-. split.
    + cbn [un_opt_all]. destruct sp; apply encode_all_out_plain; [apply special_query_ok|apply query_ok].
    + destruct rest; cbn [un_opt_all]; [reflexivity|apply encode_all_out_plain, fragment_ok].
Qed.

Lemma prefix_no_slash_end sc user pass host port : host_shape host -> host <> [] ->
  un_ends_with 47 (un_prefix sc user pass host port) = false.
Proof.
  intros Hs Hne. unfold un_prefix. rewrite !app_assoc. rewrite <- (app_assoc _ host). rewrite ends_with_app.
  - apply ends_with_no, (ui_no_slash false). rewrite forallb_app, (host_shape_ui false host Hs), (port_text_ui false port). reflexivity.
  - destruct host; [contradiction|discriminate].
Qed.

Theorem after_double_slash_normal sp sc input p :
  un_scheme_normal sc = true -> un_is_file sc = false -> sp = un_special sc ->
  un_after_double_slash sp sc input = Some (Some p) -> un_parts_normal p = true.
Proof.
  intros Hsc Hfile Hsp. unfold un_after_double_slash.
  destruct (un_parse_userinfo sp input) as [[[user pass] rem]|] eqn:Eu; [|discriminate].
  destruct (un_parse_host sp rem) as [[[host ah]|]|] eqn:Eh; try discriminate.
  destruct (u_is_empty host && ((match ah with c :: _ => c =? 58 | [] => false end) || sp)) eqn:Ee1; [discriminate|].
  destruct (match hd_is 58 ah with Some r => un_parse_port sc r | None => Some (None, ah) end) as [[port ap]|] eqn:Ep; [|discriminate].
  destruct (u_is_empty host && negb (u_is_empty (un_userinfo_text user pass))) eqn:Ee2; [discriminate|].
  destruct (un_parse_path_start sp (un_prefix sc user pass host port) ap) as [path apath] eqn:Epath.
  destruct (un_parse_query_and_fragment sp apath) as [[q f]|] eqn:Eq; [|discriminate].
  intros H. injection H as <-. unfold un_parts_normal. cbn [p_scheme p_user p_pass p_host p_port p_path p_query p_frag]. cbv zeta. rewrite <- Hsp.
  destruct (parse_userinfo_out _ _ _ _ _ Eu) as [Hu Hp]. pose proof (parse_host_out _ _ _ _ Eh) as Hh.
  destruct (query_fragment_out _ _ _ _ Eq) as [Hq Hf].
  rewrite Hsc, Hfile, Hu, Hp, Hh, Hq, Hf. cbn [negb andb]. rewrite !andb_true_r.
  assert (Hport : match port with
                  | Some n => (n <=? 65535) && negb (un_opt_n_eqb (Some n) (un_default_port sc))
                  | None => true
                  end = true).
  { destruct (hd_is 58 ah); [apply (parse_port_out _ _ _ _ Ep)|]. injection Ep as <- _. reflexivity. }
  assert (Hpath : un_path_normal sp path = true).
  { apply (path_start_normal sp _ _ _ _) in Epath; [exact Epath|]. intros ->. destruct (host_fixed_shape host Hh) as [Hs Hne].
    apply prefix_no_slash_end; assumption. }
  rewrite Hport, Hpath, !andb_true_r.
  destruct host as [|h0 hr]; [|reflexivity]. cbn [u_is_empty andb] in *. apply orb_false_iff in Ee1. destruct Ee1 as [E58 _].
  apply negb_false_iff in Ee2.
  assert (Hnone : port = None).
  { destruct ah as [|c r]; [injection Ep as <- _; reflexivity|]. unfold hd_is in Ep. rewrite E58 in Ep. injection Ep as <- _. reflexivity. }
  rewrite Hnone. destruct user as [|u0 ur]; [|destruct pass; discriminate]. destruct pass as [|p0 pr]; [reflexivity|discriminate].
Qed.

(** B. whatever the parser returns consists of pieces in normal form *)
Theorem parse_normal t p : un_parse t = Some (Some p) -> un_parts_normal p = true.
Proof.
  unfold un_parse. destruct (negb (un_ascii t)); [discriminate|].
  destruct (un_parse_scheme (un_strip_tabnl (un_trim t))) as [[sc rest]|] eqn:Es; [|discriminate].
  pose proof (parse_scheme_out _ _ _ Es) as Hsc. destruct (un_is_file sc) eqn:Ef; [discriminate|]. destruct (un_special sc) eqn:Esp.
  - apply after_double_slash_normal; [exact Hsc|exact Ef|symmetry; exact Esp].
  - destruct rest as [|a [|b r]]; try discriminate. destruct ((a =? 47) && (b =? 47)); [|discriminate].
    apply after_double_slash_normal; [exact Hsc|exact Ef|symmetry; exact Esp].
Qed.

(** normal forms are fixed points: storing what was stored stores the same text *)
Theorem u_norm_idempotent u v : u_norm u = Some (Some v) -> u_norm v = Some (Some v).
Proof.
  unfold u_norm. destruct (un_parse u) as [[p|]|] eqn:E; try discriminate. intros H. injection H as <-.
  rewrite (parts_fixed p (parse_normal u p E)). reflexivity.
Qed.

(** a normal form is made of visible ASCII characters: no space, tab, line feed, carriage return, control or non-ASCII byte *)
Theorem u_norm_ascii u v : u_norm u = Some (Some v) ->
  forallb (fun b => (32 <? b) && (b <? 127)) v = true.
Proof.
  unfold u_norm. destruct (un_parse u) as [[p|]|] eqn:E; try discriminate. intros H. injection H as <-.
  apply (assemble_vis p (parse_normal u p E)).
Qed.

Theorem u_norm_normal_parts u v : u_norm u = Some (Some v) -> exists p, v = un_assemble p /\ un_parts_normal p = true.
Proof.
  unfold u_norm. destruct (un_parse u) as [[p|]|] eqn:E; try discriminate. intros H. injection H as <-.
  exists p. split; [reflexivity|apply (parse_normal u p E)].
Qed.

(* ================================================================== C. the splitter reads the pieces back *)

Definition achar (c : byte) : bool := negb ((c =? 47) || (c =? 63) || (c =? 35)).

Lemma ui_char_achar sp s : forallb (ui_char sp) s = true -> forallb achar s = true.
Proof. apply forallb_imp. intros b Hb. unfold ui_char, un_auth_end in Hb. unfold achar. destruct sp; lia. Qed.

Lemma plain_ui_facts b : un_plain un_userinfo_set b = true -> achar b = true /\ un_not 64 b = true /\ un_not 58 b = true.
Proof. intros H. unfold achar. chars. lia. Qed.

Lemma span_all (p : N -> bool) a : forallb p a = true -> un_span p a = (a, []).
Proof. intros H. rewrite <- (app_nil_r a) at 1. apply span_app; [exact H|exact I]. Qed.

Lemma split_hostport_fixed host port : host_shape host -> match port with Some n => n <= 65535 | None => True end ->
  un_split_hostport (host ++ un_port_text port) = Some (host, port).
Proof.
  intros Hs Hp. unfold un_split_hostport.
  assert (Hafter : match un_port_text port with
                   | [] => Some (host, None)
                   | _ :: digits => match hp_digits_val 0 digits with Some n => Some (host, Some n) | None => None end
                   end = Some (host, port)).
  { destruct port as [n|]; cbn [un_port_text]; [rewrite digits_val_dec|]; reflexivity. }
  destruct Hs as [h H|body H].
  - assert (Hhd : hd_is 91 (h ++ un_port_text port) = None).
    { destruct h as [|c r]; [destruct port; reflexivity|]. cbn [forallb] in H. apply andb_true_iff in H. destruct H as [H _]. cbn [app]. unfold hd_is.
      replace (c =? 91) with false; [reflexivity|]. unfold hc in H. lia. }
    rewrite Hhd. rewrite span_app.
    + exact Hafter.
    + revert H. apply forallb_imp. intros b Hb. unfold hc in Hb. unfold un_not. lia.
    + destruct port; cbn [un_port_text]; [reflexivity|exact I].
  - change (hd_is 91 ((91 :: body ++ [93]) ++ un_port_text port)) with (Some ((body ++ [93]) ++ un_port_text port)).
    replace ((91 :: body ++ [93]) ++ un_port_text port) with ((91 :: body) ++ 93 :: un_port_text port)
      by (cbn [app]; rewrite <- app_assoc; reflexivity).
    rewrite span_app.
    + cbn [app]. exact Hafter.
    + cbn [forallb]. apply andb_true_iff. split; [reflexivity|]. revert H. apply forallb_imp. intros b Hb. pose proof (v6_vis b Hb). unfold un_not. lia.
    + reflexivity.
Qed.

Theorem split_assemble p : un_parts_normal p = true -> un_split_url (un_assemble p) = Some p.
Proof.
  intros Hn. pose proof (parts_host_shape p Hn) as Hhs.
  destruct p as [sc user pass host port path q f]. cbn [p_host] in Hhs. parts_hyps Hn.
  cbn [p_scheme p_user p_pass p_host p_port p_path p_query p_frag] in *. set (sp := un_special sc) in *.
  unfold un_assemble, un_prefix. cbn [p_scheme p_user p_pass p_host p_port p_path p_query p_frag].
  set (R := path ++ un_opt_text 63 q ++ un_opt_text 35 f).
  assert (HR : stop3 R) by (apply (tail_stop3 sp), Hpath).
  set (A := un_userinfo_text user pass ++ host ++ un_port_text port).
  replace ((sc ++ [58; 47; 47] ++ A) ++ R) with (sc ++ 58 :: 47 :: 47 :: A ++ R) by (rewrite <- !app_assoc; reflexivity).
  unfold un_split_url.
  (* scheme *)
  assert (Hsc' : forallb (un_not 58) sc = true).
  { unfold un_scheme_normal in Hsc. destruct sc as [|c r]; [discriminate|]. apply andb_true_iff in Hsc. destruct Hsc as [Hc Hr]. cbn [forallb].
    apply andb_true_iff. split; [chars; lia|]. revert Hr. apply forallb_imp. intros b Hb. chars. lia. }
  rewrite (span_app (un_not 58) sc (58 :: 47 :: 47 :: A ++ R) Hsc' eq_refl). change ((47 =? 47) && (47 =? 47)) with true. cbv iota.
  (* authority *)
  assert (HuA : forallb achar (un_userinfo_text user pass) = true).
  { unfold un_userinfo_text. rewrite !forallb_app.
    assert (Hu : forallb achar user = true) by (revert Huser; apply forallb_imp; intros b Hb; apply (plain_ui_facts b Hb)).
    assert (Hp : forallb achar pass = true) by (revert Hpass; apply forallb_imp; intros b Hb; apply (plain_ui_facts b Hb)).
    rewrite Hu. destruct pass as [|p0 pr]; [destruct user; reflexivity|]. cbn [forallb] in *. rewrite Hp. destruct user; reflexivity. }
  assert (HA : forallb achar A = true).
  { unfold A. rewrite !forallb_app, HuA, (ui_char_achar false _ (host_shape_ui false host Hhs)), (ui_char_achar false _ (port_text_ui false port)). reflexivity. }
  rewrite (span_app (fun c => negb ((c =? 47) || (c =? 63) || (c =? 35))) A R HA); [|destruct R as [|c r]; [exact I|unfold stop3 in HR; rewrite HR; reflexivity]].
  (* path *)
  assert (Hpc : forallb (fun c => negb ((c =? 63) || (c =? 35))) path = true).
  { unfold un_path_normal in Hpath. apply andb_true_iff in Hpath. destruct Hpath as [Hpath _]. apply andb_true_iff in Hpath. destruct Hpath as [_ Hpath].
    revert Hpath. apply forallb_imp. intros b Hb. apply andb_true_iff in Hb. destruct Hb as [Hb _]. chars. lia. }
  unfold R. rewrite (span_app _ path (un_opt_text 63 q ++ un_opt_text 35 f) Hpc);
    [|destruct q; cbn [un_opt_text app]; [reflexivity|]; destruct f; cbn [un_opt_text]; [reflexivity|exact I]].
  (* query and fragment *)
  assert (Hqf : match un_opt_text 63 q ++ un_opt_text 35 f with
                | [] => (None, None)
                | c :: r => if c =? 63 then let '(q0, r4) := un_span (un_not 35) r in (Some q0, match r4 with [] => None | _ :: f0 => Some f0 end)
                            else (None, Some r)
                end = (q, f)).
  { destruct q as [qq|]; cbn [un_opt_text app].
    - change (63 =? 63) with true. cbv iota. rewrite (span_app (un_not 35) qq (un_opt_text 35 f)).
      + destruct f; reflexivity.
      + cbn [un_opt_all] in Hquery. revert Hquery. apply forallb_imp. intros b Hb. destruct sp; chars; lia.
      + destruct f; cbn [un_opt_text]; [reflexivity|exact I].
    - destruct f; reflexivity. }
  rewrite Hqf.
  (* userinfo *)
  assert (Hh64 : forallb (un_not 64) (host ++ un_port_text port) = true).
  { rewrite forallb_app. apply andb_true_iff. split; [generalize (host_shape_ui false host Hhs)|generalize (port_text_ui false port)];
      apply forallb_imp; intros b Hb; unfold ui_char in Hb; unfold un_not; lia. }
  assert (Hui : (let '(ui, hp) := let '(a, b) := un_span (un_not 64) A in match b with [] => ([], A) | _ :: hp => (a, hp) end in
                 let '(user0, pr) := un_span (un_not 58) ui in (user0, match pr with [] => [] | _ :: x => x end, hp)) =
                (user, pass, host ++ un_port_text port)).
  { assert (Hu64 : forallb (un_not 64) user = true) by (revert Huser; apply forallb_imp; intros b Hb; apply (plain_ui_facts b Hb)).
    assert (Hp64 : forallb (un_not 64) pass = true) by (revert Hpass; apply forallb_imp; intros b Hb; apply (plain_ui_facts b Hb)).
    assert (Hu58 : forallb (un_not 58) user = true) by (revert Huser; apply forallb_imp; intros b Hb; apply (plain_ui_facts b Hb)).
    unfold A. destruct pass as [|p0 pr].
    - destruct user as [|u0 ur].
      + cbn [un_userinfo_text app]. rewrite (span_all _ _ Hh64). reflexivity.
      + rewrite ui_text_user, <- app_assoc. cbn [app]. change (u0 :: ur ++ 64 :: host ++ un_port_text port) with ((u0 :: ur) ++ 64 :: host ++ un_port_text port).
        rewrite (span_app (un_not 64) (u0 :: ur) (64 :: host ++ un_port_text port) Hu64 eq_refl). rewrite (span_all _ _ Hu58). reflexivity.
    - rewrite ui_text_pass, <- app_assoc. cbn [app].
      assert (HU : forallb (un_not 64) (user ++ 58 :: p0 :: pr) = true) by (rewrite forallb_app, Hu64; exact Hp64).
      rewrite (span_app (un_not 64) (user ++ 58 :: p0 :: pr) (64 :: host ++ un_port_text port) HU eq_refl). rewrite (span_app (un_not 58) user (58 :: p0 :: pr) Hu58 eq_refl). reflexivity. }
  assert (Hport' : match port with Some n => n <= 65535 | None => True end).
  { destruct port as [n|]; [|exact I]. apply andb_true_iff in Hport. destruct Hport as [Hle _]. lia. }
  pose proof (split_hostport_fixed host port Hhs Hport') as Hhp.
  destruct (let '(a, b) := un_span (un_not 64) A in match b with [] => ([], A) | _ :: hp => (a, hp) end) as [ui hp].
  destruct (un_span (un_not 58) ui) as [user0 pr]. injection Hui as -> -> ->. rewrite Hhp. reflexivity.
Qed.

(** whatever the parser returns is a text that the syntactic predicate accepts *)
Theorem u_norm_normal u v : u_norm u = Some (Some v) -> is_normal_url v = true.
Proof.
  intros H. destruct (u_norm_normal_parts u v H) as (p & -> & Hp). unfold is_normal_url. rewrite (split_assemble p Hp), Hp, beq_refl. reflexivity.
Qed.

(* ------------------------------------------------------------------ the model as the [url_norm] of Magnet.v / Summary.v *)

Lemma url_norm_with_fixed ext u : is_normal_url u = true -> u_url_norm_with ext u = Some u.
Proof. intros H. unfold u_url_norm_with. rewrite (u_norm_fixed u H). reflexivity. Qed.

(** the hypothesis of the magnet round trip ("every tracker is a fixed point of the url crate") holds for normal URLs *)
Theorem url_norm_with_fixed_all ext ts : forallb is_normal_url ts = true -> Forall (fun t => u_url_norm_with ext t = Some t) ts.
Proof.
  induction ts as [|t r IH]; [constructor|]. cbn [forallb]. intros H. apply andb_true_iff in H. destruct H as [Ht Hr].
  constructor; [apply url_norm_with_fixed, Ht|apply IH, Hr].
Qed.

(** and for everything the model returns: what `create` / `link` store inside the fragment satisfies it *)
Theorem url_norm_with_stored ext t u : u_norm t = Some (Some u) -> u_url_norm_with ext t = Some u /\ u_url_norm_with ext u = Some u.
Proof.
  intros H. split; unfold u_url_norm_with; [rewrite H|rewrite (u_norm_idempotent t u H)]; reflexivity.
Qed.
