(** Concrete instances for the end-to-end theorems of X5 (`show` / `link` of what `create` wrote): the
    hypotheses are satisfiable, the reports are the expected ones, and each hypothesis is needed (drop it
    and the loader refuses the bytes the model of create writes). Everything is closed by computation. *)
From Coq Require Import String.
From Coq Require Import NArith List Bool.
From Imdl Require Import Model.Bencode Model.EndToEndShow.
From Imdl Require Model.BencodeWide Model.Schema Model.Metainfo Model.Summary Model.Magnet Model.Infohash Proofs.MetainfoProofs.
Import ListNotations.
Local Open Scope N_scope.

Module MI := Imdl.Model.Metainfo.
Module SU := Imdl.Model.Summary.
Module MG := Imdl.Model.Magnet.
Module IH := Imdl.Model.Infohash.
Notation T := SU.bs (only parsing).

(** stand-ins for the external code: the url crate leaves these URLs and hosts alone, apart from the
    brackets around an IPv6 address; no calendar, sizes in plain decimal; a 20-byte digest *)
Definition idb (b : bytes) : bytes := b.
Definition some_url (u : bytes) : option bytes := Some u.
Definition host_brackets (h : bytes) : option bytes :=
  Some (if existsb (N.eqb 58) h then [91] ++ h ++ [93] else h).
Definition no_cal (_ : N) : option bytes := None.
Definition ex_sha (b : bytes) : bytes := map (fun x => x mod 256) (firstn 20 (b ++ repeat 0 20)).
Definition ex_ih : bytes := T "0123456789abcdef0123456789abcdef01234567".

(** every option given: C05's example command line (announce, two tiers, comment, source, three nodes of
    which one IPv6, private, update URL, md5, no created-by) plus --name, --piece-length,
    --no-creation-date; content: a directory of two files *)
Definition all_opts : MI.opts :=
  {| MI.o_announce := MI.o_announce MetainfoProofs.ex_opts; MI.o_tiers := MI.o_tiers MetainfoProofs.ex_opts;
     MI.o_comment := Some (T "hello"); MI.o_source := Some (T "SRC"); MI.o_nodes := MI.o_nodes MetainfoProofs.ex_opts;
     MI.o_private := true; MI.o_update_url := Some (T "https://example.com/feed"); MI.o_name := Some (T "my name");
     MI.o_piece_length := Some 32768; MI.o_md5 := true; MI.o_no_created_by := true; MI.o_no_creation_date := true;
     MI.o_allow_small := false; MI.o_allow_uneven := false; MI.o_allow_private_trackerless := false;
     MI.o_now := 1790000000 |}.

(** no option given; content: one file *)
Definition no_opts : MI.opts :=
  {| MI.o_announce := None; MI.o_tiers := []; MI.o_comment := None; MI.o_source := None; MI.o_nodes := [];
     MI.o_private := false; MI.o_update_url := None; MI.o_name := None; MI.o_piece_length := None; MI.o_md5 := false;
     MI.o_no_created_by := false; MI.o_no_creation_date := false; MI.o_allow_small := false; MI.o_allow_uneven := false;
     MI.o_allow_private_trackerless := false; MI.o_now := 1790000000 |}.

Definition one_file : MI.content :=
  {| MI.c_input := MI.InFile (T "file.bin") 5 (T "5d41402abc4b2a76b9719d911017c592"); MI.c_pieces := repeat 7 20 |}.

Definition ex_suffix : bytes := T " (0123456789ab)".

Definition hyps (o : MI.opts) (c : MI.content) : bool :=
  MI.input_ok (MI.c_input c) && MI.opts_ok o && (MI.piece_length_of o (MI.c_input c) <? 2 ^ 63)
  && texts_utf8 idb idb ex_suffix o c && content_shown_ok (MI.o_md5 o) c.

Definition built (o : MI.opts) (c : MI.content) : option bytes :=
  option_map encode (MI.build idb idb ex_suffix o c).

Definition shown (o : MI.opts) (c : MI.content) : option SU.outcome :=
  option_map (fun tb => SU.show no_cal dec host_brackets some_url SU.FromPath tb ex_ih) (built o c).

Definition shown_json (o : MI.opts) (c : MI.content) : option (list SU.jv) :=
  match shown o c with Some (SU.ShowPrinted j _ _) => Some (map snd j) | _ => None end.

Definition JS (s : string) : SU.jv := SU.JvStr (SU.bs s).
Arguments JS s%string.

Lemma ex_all_hyps :
  hyps all_opts MetainfoProofs.ex_content = true /\
  MI.name_of all_opts (MI.c_input MetainfoProofs.ex_content) = Some (T "my name") /\
  nodes_text idb host_brackets all_opts
    = Some (Some [T "router.example.com:6881"; T "[2001:db8::1]:6882"; T "203.0.113.5:1"]) /\
  update_text idb some_url all_opts = Some (Some (T "https://example.com/feed")) /\
  exists v, MI.build idb idb ex_suffix all_opts MetainfoProofs.ex_content = Some v /\
            IH.depth_ok Generated.GenInfohash.max_depth v = true.
Proof.
  split; [vm_compute; reflexivity|]. split; [vm_compute; reflexivity|]. split; [vm_compute; reflexivity|].
  split; [vm_compute; reflexivity|]. eexists. split; vm_compute; reflexivity.
Qed.

(** the report for the command line with every option: suppressed fields null, everything else as given *)
Lemma ex_all_report :
  shown_json all_opts MetainfoProofs.ex_content =
  Some [ JS "my name"; JS "hello"; SU.JvNull; SU.JvNull; JS "SRC"; SU.JvStr ex_ih;
         SU.JvNum (match built all_opts MetainfoProofs.ex_content with Some tb => N.of_nat (length tb) | None => 0 end);
         SU.JvNum 3; SU.JvBool true; JS "http://example.com/announce";
         SU.JvArr [SU.JvArr [JS "http://a.example/announce"; JS "udp://b.example:1337/announce"];
                   SU.JvArr [JS "http://c.example/announce"]];
         JS "https://example.com/feed";
         SU.JvArr [JS "router.example.com:6881"; JS "[2001:db8::1]:6882"; JS "203.0.113.5:1"];
         SU.JvNum 32768; SU.JvNum 1; SU.JvNum 2; SU.JvArr [JS "my name/a"; JS "my name/sub/b"] ].
Proof. vm_compute. reflexivity. Qed.

Lemma ex_none_hyps :
  hyps no_opts one_file = true /\ MI.name_of no_opts (MI.c_input one_file) = Some (T "file.bin") /\
  nodes_text idb host_brackets no_opts = Some None /\ update_text idb some_url no_opts = Some None /\
  exists v, MI.build idb idb ex_suffix no_opts one_file = Some v /\
            IH.depth_ok Generated.GenInfohash.max_depth v = true.
Proof.
  split; [vm_compute; reflexivity|]. split; [vm_compute; reflexivity|]. split; [vm_compute; reflexivity|].
  split; [vm_compute; reflexivity|]. eexists. split; vm_compute; reflexivity.
Qed.

(** the report for the command line with no option: every optional field null / empty, creation date = the
    clock, created by = imdl's own text, piece size = the picker's choice *)
Lemma ex_none_report :
  shown_json no_opts one_file =
  Some [ JS "file.bin"; SU.JvNull; SU.JvNum 1790000000;
         SU.JvStr (Generated.GenCreate.created_by_prefix ++ ex_suffix); SU.JvNull; SU.JvStr ex_ih;
         SU.JvNum (match built no_opts one_file with Some tb => N.of_nat (length tb) | None => 0 end);
         SU.JvNum 5; SU.JvBool false; SU.JvNull; SU.JvArr []; SU.JvNull; SU.JvArr []; SU.JvNum 16384; SU.JvNum 1;
         SU.JvNum 1; SU.JvArr [JS "file.bin"] ].
Proof. vm_compute. reflexivity. Qed.

(* ---------- links ---------- *)

Definition linked (md : option N) (o : MI.opts) (c : MI.content) (peers : list bytes) (sel : list N) : option bytes :=
  match built o c with
  | Some tb => link_file ex_sha host_brackets some_url md tb peers sel
  | None => None
  end.

Definition decoded (plus : bool) (uri : option bytes) : option (list (bytes * bytes)) :=
  match uri with
  | Some u => option_map (MG.std_parse plus) (MG.uri_query u)
  | None => None
  end.

(** `link` of the bytes with every option: xt = the digest of the info span (C04: [hashed_bytes]), dn = the
    name, tr = announce then the tier members, and `create --link` prints the same link *)
Lemma ex_all_link :
  forall plus,
  decoded plus (linked Generated.GenInfohash.max_depth all_opts MetainfoProofs.ex_content [T "[::1]:80"] [2; 0; 2]) =
  Some ([ (T "xt", T "urn:btih:" ++ MG.hex_lower
              (ex_sha (match built all_opts MetainfoProofs.ex_content with
                       | Some tb => match IH.hashed_bytes Generated.GenInfohash.max_depth tb with Some s => s | None => [] end
                       | None => [] end)));
          (T "dn", T "my name"); (T "tr", T "http://example.com/announce"); (T "tr", T "http://a.example/announce");
          (T "tr", T "udp://b.example:1337/announce"); (T "tr", T "http://c.example/announce");
          (T "x.pe", T "[::1]:80"); (T "so", T "0,2") ]) /\
  linked Generated.GenInfohash.max_depth all_opts MetainfoProofs.ex_content [T "[::1]:80"] []
  = create_link idb ex_sha some_url all_opts MetainfoProofs.ex_content [T "[::1]:80"] /\
  linked Generated.GenInfohash.max_depth all_opts MetainfoProofs.ex_content [] [] <> None.
Proof. intros [|]; (split; [vm_compute; reflexivity|split; [vm_compute; reflexivity|vm_compute; discriminate]]). Qed.

(** a tracker given twice (as --announce and inside a tier) appears once, where it first appeared *)
Definition dup_opts : MI.opts :=
  {| MI.o_announce := Some (T "udp://a:1"); MI.o_tiers := [T "udp://b:2,udp://a:1"; T "udp://b:2"];
     MI.o_comment := None; MI.o_source := None; MI.o_nodes := []; MI.o_private := false; MI.o_update_url := None;
     MI.o_name := None; MI.o_piece_length := None; MI.o_md5 := false; MI.o_no_created_by := false;
     MI.o_no_creation_date := false; MI.o_allow_small := false; MI.o_allow_uneven := false;
     MI.o_allow_private_trackerless := false; MI.o_now := 1 |}.

Lemma ex_dup_link :
  option_map (map snd) (decoded true (linked None dup_opts one_file [] [])) =
  Some [ T "urn:btih:" ++ MG.hex_lower
              (ex_sha (match built dup_opts one_file with
                       | Some tb => match IH.hashed_bytes None tb with Some s => s | None => [] end
                       | None => [] end));
         T "file.bin"; T "udp://a:1"; T "udp://b:2" ].
Proof. vm_compute. reflexivity. Qed.

(* ---------- each hypothesis is needed ---------- *)

Definition with_comment (o : MI.opts) (s : bytes) : MI.opts :=
  {| MI.o_announce := MI.o_announce o; MI.o_tiers := MI.o_tiers o; MI.o_comment := Some s; MI.o_source := MI.o_source o;
     MI.o_nodes := MI.o_nodes o; MI.o_private := MI.o_private o; MI.o_update_url := MI.o_update_url o;
     MI.o_name := MI.o_name o; MI.o_piece_length := MI.o_piece_length o; MI.o_md5 := MI.o_md5 o;
     MI.o_no_created_by := MI.o_no_created_by o; MI.o_no_creation_date := MI.o_no_creation_date o;
     MI.o_allow_small := MI.o_allow_small o; MI.o_allow_uneven := MI.o_allow_uneven o;
     MI.o_allow_private_trackerless := MI.o_allow_private_trackerless o; MI.o_now := MI.o_now o |}.

Definition with_md5 (o : MI.opts) : MI.opts :=
  {| MI.o_announce := MI.o_announce o; MI.o_tiers := MI.o_tiers o; MI.o_comment := MI.o_comment o; MI.o_source := MI.o_source o;
     MI.o_nodes := MI.o_nodes o; MI.o_private := MI.o_private o; MI.o_update_url := MI.o_update_url o;
     MI.o_name := MI.o_name o; MI.o_piece_length := MI.o_piece_length o; MI.o_md5 := true;
     MI.o_no_created_by := MI.o_no_created_by o; MI.o_no_creation_date := MI.o_no_creation_date o;
     MI.o_allow_small := MI.o_allow_small o; MI.o_allow_uneven := MI.o_allow_uneven o;
     MI.o_allow_private_trackerless := MI.o_allow_private_trackerless o; MI.o_now := MI.o_now o |}.

Definition with_node (o : MI.opts) (n : bytes * N) : MI.opts :=
  {| MI.o_announce := MI.o_announce o; MI.o_tiers := MI.o_tiers o; MI.o_comment := MI.o_comment o; MI.o_source := MI.o_source o;
     MI.o_nodes := [n]; MI.o_private := MI.o_private o; MI.o_update_url := MI.o_update_url o;
     MI.o_name := MI.o_name o; MI.o_piece_length := MI.o_piece_length o; MI.o_md5 := MI.o_md5 o;
     MI.o_no_created_by := MI.o_no_created_by o; MI.o_no_creation_date := MI.o_no_creation_date o;
     MI.o_allow_small := MI.o_allow_small o; MI.o_allow_uneven := MI.o_allow_uneven o;
     MI.o_allow_private_trackerless := MI.o_allow_private_trackerless o; MI.o_now := MI.o_now o |}.

Definition with_piece_length (o : MI.opts) (p : N) : MI.opts :=
  {| MI.o_announce := MI.o_announce o; MI.o_tiers := MI.o_tiers o; MI.o_comment := MI.o_comment o; MI.o_source := MI.o_source o;
     MI.o_nodes := MI.o_nodes o; MI.o_private := MI.o_private o; MI.o_update_url := MI.o_update_url o;
     MI.o_name := MI.o_name o; MI.o_piece_length := Some p; MI.o_md5 := MI.o_md5 o;
     MI.o_no_created_by := MI.o_no_created_by o; MI.o_no_creation_date := MI.o_no_creation_date o;
     MI.o_allow_small := MI.o_allow_small o; MI.o_allow_uneven := MI.o_allow_uneven o;
     MI.o_allow_private_trackerless := MI.o_allow_private_trackerless o; MI.o_now := MI.o_now o |}.

Definition a_file (p : list bytes) (len : N) : MI.file := {| MI.f_path := p; MI.f_length := len; MI.f_md5 := [] |}.
Definition a_dir (fs : list MI.file) (pieces : bytes) : MI.content :=
  {| MI.c_input := MI.InDir (T "dir") fs; MI.c_pieces := pieces |}.

(** which of the five side conditions hold, and what `show` makes of the bytes *)
Definition verdict (o : MI.opts) (c : MI.content) : (bool * bool * bool * bool * bool) * option SU.outcome :=
  ((MI.input_ok (MI.c_input c), MI.opts_ok o, MI.piece_length_of o (MI.c_input c) <? 2 ^ 63,
    texts_utf8 idb idb ex_suffix o c, content_shown_ok (MI.o_md5 o) c), shown o c).

(** texts must be UTF-8: a comment of the single byte FF is written, and refused by the loader *)
Lemma ex_needs_utf8 :
  verdict (with_comment no_opts [255]) one_file = ((true, true, true, false, true), Some SU.ShowRejected).
Proof. vm_compute. reflexivity. Qed.

(** an MD5 text that is not 32 hex digits *)
Lemma ex_needs_md5_shape :
  verdict (with_md5 no_opts) {| MI.c_input := MI.InFile (T "f") 5 (T "xyz"); MI.c_pieces := repeat 7 20 |}
  = ((true, true, true, true, false), Some SU.ShowRejected).
Proof. vm_compute. reflexivity. Qed.

(** a path component that is not a normal component *)
Lemma ex_needs_plain_component :
  verdict no_opts (a_dir [a_file [T ".."; T "x"] 1] (repeat 7 20)) = ((true, true, true, true, false), Some SU.ShowRejected).
Proof. vm_compute. reflexivity. Qed.

(** a piece string that is not whole digests *)
Lemma ex_needs_whole_pieces :
  verdict no_opts (a_dir [a_file [T "x"] 1] (repeat 7 19)) = ((true, true, true, true, false), Some SU.ShowRejected).
Proof. vm_compute. reflexivity. Qed.

(** three files of 2^63-1 bytes: each length is written and read, their sum does not fit u64 (repair 0006) *)
Lemma ex_needs_total_fits :
  verdict no_opts (a_dir [a_file [T "a"] 9223372036854775807; a_file [T "b"] 9223372036854775807;
                          a_file [T "c"] 9223372036854775807] (repeat 7 20))
  = ((true, true, true, true, false), Some SU.ShowRejected).
Proof. vm_compute. reflexivity. Qed.

(** a length of 2^63 does not fit bendy's i64 *)
Lemma ex_needs_input_ok :
  verdict no_opts {| MI.c_input := MI.InFile (T "f") 9223372036854775808 []; MI.c_pieces := repeat 7 20 |}
  = ((false, true, true, true, true), Some SU.ShowRejected).
Proof. vm_compute. reflexivity. Qed.

(** a port above u16 (clap refuses it; the model's [opts] does not) *)
Lemma ex_needs_opts_ok :
  verdict (with_node no_opts (T "h.example", 65536)) one_file = ((true, false, true, true, true), Some SU.ShowRejected).
Proof. vm_compute. reflexivity. Qed.

(** a piece length of 2^63 ([run_create] bounds it by 2^32) *)
Lemma ex_needs_piece_length :
  verdict (with_piece_length no_opts 9223372036854775808) one_file = ((true, true, false, true, true), Some SU.ShowRejected).
Proof. vm_compute. reflexivity. Qed.

(** a stored host the url crate would not read back: refused (the `None` case of [nodes_text]) *)
Lemma ex_needs_host_readback :
  nodes_text idb (fun _ => None) (with_node no_opts (T "h.example", 1)) = None /\
  option_map (fun tb => SU.show no_cal dec (fun _ => None) some_url SU.FromPath tb ex_ih)
             (built (with_node no_opts (T "h.example", 1)) one_file) = Some SU.ShowRejected.
Proof. split; vm_compute; reflexivity. Qed.

(** a depth limit below the nesting of a metainfo: `link` refuses the file, `create --link` prints a link *)
Lemma ex_needs_depth :
  (exists v, MI.build idb idb ex_suffix no_opts one_file = Some v /\ IH.depth_ok (Some 1) v = false) /\
  linked (Some 1) no_opts one_file [] [] = None /\ create_link idb ex_sha some_url no_opts one_file [] <> None.
Proof. split; [eexists; split; vm_compute; reflexivity|]. split; [vm_compute; reflexivity|vm_compute; discriminate]. Qed.

(* ---------- the MD5 values and the nesting (X5b, on the models of X4) ---------- *)

(** what [Summary.from_input] - the loader of `show`, `link` and `verify` - makes of the created bytes *)
Definition loaded (o : MI.opts) (c : MI.content) : option SU.metainfo :=
  match built o c with Some tb => SU.from_input host_brackets some_url tb | None => None end.

(** the loaded metainfo carries the MD5 texts create wrote under --md5, and none without the flag *)
Definition without_md5 (o : MI.opts) : MI.opts :=
  {| MI.o_announce := MI.o_announce o; MI.o_tiers := MI.o_tiers o; MI.o_comment := MI.o_comment o; MI.o_source := MI.o_source o;
     MI.o_nodes := MI.o_nodes o; MI.o_private := MI.o_private o; MI.o_update_url := MI.o_update_url o;
     MI.o_name := MI.o_name o; MI.o_piece_length := MI.o_piece_length o; MI.o_md5 := false;
     MI.o_no_created_by := MI.o_no_created_by o; MI.o_no_creation_date := MI.o_no_creation_date o;
     MI.o_allow_small := MI.o_allow_small o; MI.o_allow_uneven := MI.o_allow_uneven o;
     MI.o_allow_private_trackerless := MI.o_allow_private_trackerless o; MI.o_now := MI.o_now o |}.

Lemma ex_md5_carried :
  option_map SU.m_mode (loaded (with_md5 no_opts) one_file)
    = Some (SU.Single 5 (Some (T "5d41402abc4b2a76b9719d911017c592"))) /\
  option_map SU.m_mode (loaded no_opts one_file) = Some (SU.Single 5 None) /\
  option_map SU.m_mode (loaded all_opts MetainfoProofs.ex_content)
    = Some (SU.Multiple [ {| SU.f_length := 3; SU.f_path := [T "a"];
                             SU.f_md5 := Some (T "900150983cd24fb0d6963f7d28e17f72") |};
                          {| SU.f_length := 0; SU.f_path := [T "sub"; T "b"];
                             SU.f_md5 := Some (T "d41d8cd98f00b204e9800998ecf8427e") |} ]) /\
  option_map SU.m_mode (loaded (without_md5 all_opts) MetainfoProofs.ex_content)
    = Some (SU.Multiple [ {| SU.f_length := 3; SU.f_path := [T "a"]; SU.f_md5 := None |};
                          {| SU.f_length := 0; SU.f_path := [T "sub"; T "b"]; SU.f_md5 := None |} ]).
Proof. repeat split; vm_compute; reflexivity. Qed.

(** the deepest created metainfo (a directory) nests exactly 5 deep - far below the 2048 of bendy's readers *)
Lemma ex_depth :
  option_map BencodeWide.depth (MI.build idb idb ex_suffix all_opts MetainfoProofs.ex_content) = Some 5 /\
  option_map BencodeWide.depth (MI.build idb idb ex_suffix no_opts one_file) = Some 2 /\
  BencodeWide.max_depth = 2048.
Proof. repeat split; vm_compute; reflexivity. Qed.
