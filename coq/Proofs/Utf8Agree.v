(** The UTF-8 validity predicates of the development are one predicate (X12).

    [Utf8.utf8_valid] is stated over the loop body of Rust's Utf8Chunks ([Utf8.scan1]); [Summary.utf8_valid] (C07, C10's
    end-to-end theorems), [Crash.utf8_ok] (C08), [Peer.utf8_valid] (C11) and [Verify.utf8_ok] (C02 / C03) are written
    as nested matches over Unicode table 3-7. They agree on every byte string. *)
From Coq Require Import NArith Lia Bool List ZifyN ZifyBool.
From Imdl Require Import Model.Bencode Model.Utf8 Proofs.Utf8Proofs.
From Imdl Require Model.Summary Model.Crash Model.Peer Model.Verify Proofs.LoaderProofs.
Import ListNotations.
Local Open Scope N_scope.

Lemma second3_alt b0 b1 : 224 <= b0 < 240 ->
  (if b0 =? 224 then Summary.inr 160 191 b1 else if b0 =? 237 then Summary.inr 128 159 b1 else Summary.cont b1) = second3 b0 b1.
Proof.
  intros L. unfold second3, Summary.cont, Summary.inr, between.
  destruct (N.eqb_spec b0 224) as [->|N1]; [lia|]. destruct (N.eqb_spec b0 237) as [->|N2]; lia.
Qed.

Lemma second4_alt b0 b1 : 240 <= b0 < 245 ->
  (if b0 =? 240 then Summary.inr 144 191 b1 else if b0 =? 244 then Summary.inr 128 143 b1 else Summary.cont b1) = second4 b0 b1.
Proof.
  intros L. unfold second4, Summary.cont, Summary.inr, between.
  destruct (N.eqb_spec b0 240) as [->|N1]; [lia|]. destruct (N.eqb_spec b0 244) as [->|N2]; lia.
Qed.

(** the nested-match validator takes the same step as the loop body *)
Lemma summary_step b0 r :
  Summary.utf8_valid (b0 :: r) = (let (ok, c) := scan1 b0 r in ok && Summary.utf8_valid (after c r)).
Proof.
  cbn [Summary.utf8_valid]. unfold Summary.inr.
  destruct (width_cases b0) as [[W L]|[[W L]|[[W L]|[[W L]|[W L]]]]].
  - unfold scan1. destruct (N.ltb_spec b0 128); [reflexivity|lia].
  - rewrite (scan1_w0 _ _ W). destruct (N.ltb_spec b0 128); [lia|].
    replace ((194 <=? b0) && (b0 <=? 223)) with false by lia. replace ((224 <=? b0) && (b0 <=? 239)) with false by lia.
    replace ((240 <=? b0) && (b0 <=? 244)) with false by lia. reflexivity.
  - rewrite (scan1_w2 _ _ W). destruct (N.ltb_spec b0 128); [lia|].
    replace ((194 <=? b0) && (b0 <=? 223)) with true by lia.
    destruct r as [|b1 r1]; [reflexivity|]. cbn [safe_get nth]. change (Summary.cont b1) with (cont b1).
    destruct (cont b1); reflexivity.
  - rewrite (scan1_w3 _ _ W). destruct (N.ltb_spec b0 128); [lia|].
    replace ((194 <=? b0) && (b0 <=? 223)) with false by lia. replace ((224 <=? b0) && (b0 <=? 239)) with true by lia.
    destruct r as [|b1 [|b2 r2]]; cbn [safe_get nth].
    + rewrite second3_zero. reflexivity.
    + destruct (second3 b0 b1); reflexivity.
    + change (match b0 =? 224 with true => (160 <=? b1) && (b1 <=? 191) | false => if b0 =? 237 then (128 <=? b1) && (b1 <=? 159) else Summary.cont b1 end)
        with (if b0 =? 224 then Summary.inr 160 191 b1 else if b0 =? 237 then Summary.inr 128 159 b1 else Summary.cont b1).
      rewrite (second3_alt b0 b1 L). change (Summary.cont b2) with (cont b2).
      destruct (second3 b0 b1); [|reflexivity]. destruct (cont b2); reflexivity.
  - rewrite (scan1_w4 _ _ W). destruct (N.ltb_spec b0 128); [lia|].
    replace ((194 <=? b0) && (b0 <=? 223)) with false by lia. replace ((224 <=? b0) && (b0 <=? 239)) with false by lia.
    replace ((240 <=? b0) && (b0 <=? 244)) with true by lia.
    destruct r as [|b1 [|b2 [|b3 r3]]]; cbn [safe_get nth].
    + rewrite second4_zero. reflexivity.
    + destruct (second4 b0 b1); reflexivity.
    + destruct (second4 b0 b1); [|reflexivity]. destruct (cont b2); reflexivity.
    + change (match b0 =? 240 with true => (144 <=? b1) && (b1 <=? 191) | false => if b0 =? 244 then (128 <=? b1) && (b1 <=? 143) else Summary.cont b1 end)
        with (if b0 =? 240 then Summary.inr 144 191 b1 else if b0 =? 244 then Summary.inr 128 143 b1 else Summary.cont b1).
      rewrite (second4_alt b0 b1 L). change (Summary.cont b2) with (cont b2). change (Summary.cont b3) with (cont b3).
      destruct (second4 b0 b1); [|reflexivity]. destruct (cont b2); [|reflexivity]. destruct (cont b3); reflexivity.
Qed.

Theorem summary_utf8_agrees s : Summary.utf8_valid s = utf8_valid s.
Proof.
  induction s as [|b0 r IH] using scan_ind; [reflexivity|].
  rewrite summary_step. cbn [utf8_valid]. destruct (scan1 b0 r) as [ok c]. cbn [snd] in IH. rewrite IH. reflexivity.
Qed.

(** Crash's and Peer's copies are the same function as Summary's, definitionally *)
Theorem crash_utf8_agrees s : Crash.utf8_ok s = utf8_valid s.
Proof. exact (summary_utf8_agrees s). Qed.

Theorem peer_utf8_agrees s : Peer.utf8_valid s = utf8_valid s.
Proof. exact (summary_utf8_agrees s). Qed.

Theorem verify_utf8_agrees s : Verify.utf8_ok s = utf8_valid s.
Proof. rewrite LoaderProofs.utf8_eq. apply summary_utf8_agrees. Qed.

Theorem utf8_validators_agree s :
  Summary.utf8_valid s = utf8_valid s /\ Crash.utf8_ok s = utf8_valid s /\
  Peer.utf8_valid s = utf8_valid s /\ Verify.utf8_ok s = utf8_valid s.
Proof.
  exact (conj (summary_utf8_agrees s) (conj (crash_utf8_agrees s) (conj (peer_utf8_agrees s) (verify_utf8_agrees s)))).
Qed.
