(** Proofs about Model/Bencode.v: [decode_exact] (what strict decoding consumed is exactly the
    re-encoding of what it returned) and [encode_decode] (every well-formed value decodes back). *)
From Coq Require Import Decimal DecimalN DecimalFacts.
From Coq Require Import NArith ZArith Lia Bool List.
From Imdl Require Import Model.Bencode.
Import ListNotations.
Local Open Scope N_scope.

Section ValueInd.
  Variable P : value -> Prop.
  Hypothesis HInt : forall z, P (Int z).
  Hypothesis HStr : forall s, P (Str s).
  Hypothesis HLst : forall l, Forall P l -> P (Lst l).
  Hypothesis HDict : forall d, Forall (fun kv => P (snd kv)) d -> P (Dict d).
  Fixpoint value_ind' (v : value) : P v :=
    match v with
    | Int z => HInt z
    | Str s => HStr s
    | Lst l => HLst l ((fix go (l : list value) : Forall P l :=
                          match l with [] => Forall_nil _ | x :: xs => Forall_cons _ (value_ind' x) (go xs) end) l)
    | Dict d => HDict d ((fix go (d : list (bytes * value)) : Forall (fun kv => P (snd kv)) d :=
                          match d with [] => Forall_nil _
                                  | x :: xs => Forall_cons _ (value_ind' (snd x)) (go xs) end) d)
    end.
End ValueInd.

Lemma canon_unorm u : canon u = true -> unorm u = u.
Proof. destruct u as [|u|u|u|u|u|u|u|u|u|u]; cbn; intros H; try discriminate; try reflexivity.
  destruct u; try discriminate. reflexivity. Qed.

Lemma unorm_canon u : canon (unorm u) = true.
Proof.
  unfold unorm. destruct (nzhead u) eqn:E; try reflexivity.
  exfalso. revert E. induction u; cbn; try congruence; auto. Qed.

Lemma take_digits_app u r :
  (match r with [] => true | b :: _ => negb (is_digit b) end) = true ->
  take_digits (uint_bytes u ++ r) = (u, r).
Proof.
  intros Hr. induction u; simpl; try (rewrite IHu; reflexivity).
  destruct r as [|b r]; [reflexivity|]. unfold is_digit in Hr. simpl.
  destruct (digit_of b); [discriminate|reflexivity].
Qed.

Lemma digit_of_some b d : digit_of b = Some d -> forall u, uint_bytes (d u) = b :: uint_bytes u.
Proof.
  unfold digit_of. intros H u.
  destruct b as [|p]; [discriminate|].
  do 6 (destruct p as [p|p|]; try discriminate);
  inversion H; subst; reflexivity.
Qed.

Lemma take_digits_exact bs u r : take_digits bs = (u, r) -> bs = uint_bytes u ++ r.
Proof.
  revert u r. induction bs as [|b bs IH]; intros u r H; cbn in H.
  - inversion H; reflexivity.
  - destruct (digit_of b) eqn:E.
    + destruct (take_digits bs) as [u' r'] eqn:E'. inversion H; subst.
      rewrite (digit_of_some _ _ E). cbn. f_equal. apply IH. reflexivity.
    + inversion H; subst. reflexivity.
Qed.

Lemma hd_is_some c bs r : hd_is c bs = Some r -> bs = c :: r.
Proof. destruct bs as [|b t]; cbn; [discriminate|]. destruct (N.eqb_spec b c); [|discriminate].
  intros H; inversion H; subst; reflexivity. Qed.

Lemma nonzero_start_canon u : nonzero_start u = true -> canon u = true.
Proof. destruct u; cbn; congruence. Qed.

Lemma dec_str_exact bs s r : dec_str bs = Some (s, r) -> bs = enc_str s ++ r.
Proof.
  unfold dec_str, enc_str, dec. destruct (take_digits bs) as [u r0] eqn:E.
  destruct (canon u) eqn:C; [|discriminate].
  destruct (hd_is 58 r0) as [r1|] eqn:E58; [|discriminate]. apply hd_is_some in E58. subst r0.
  destruct (Nat.leb _ _) eqn:L; [|discriminate]. intros H; inversion H; subst; clear H.
  apply Nat.leb_le in L.
  rewrite firstn_length_le by exact L. rewrite Nnat.N2Nat.id.
  rewrite DecimalN.Unsigned.to_of, (canon_unorm _ C).
  apply take_digits_exact in E. rewrite E. rewrite <- app_assoc. cbn. rewrite firstn_skipn. reflexivity.
Qed.

Lemma of_uint_canon_nonzero u : nonzero_start u = true -> N.of_uint u <> 0.
Proof.
  intros Hn Z0. pose proof (DecimalN.Unsigned.to_of u) as T. rewrite Z0 in T.
  rewrite (canon_unorm u (nonzero_start_canon u Hn)) in T. subst u. discriminate.
Qed.

Lemma dec_int_exact r v rest : dec_int r = Some (v, rest) -> 105 :: r = encode v ++ rest.
Proof.
  unfold dec_int. destruct (hd_is 45 r) as [r1|] eqn:E45.
  - apply hd_is_some in E45. subst r.
    destruct (take_digits r1) as [u r2] eqn:E. apply take_digits_exact in E.
    destruct (nonzero_start u) eqn:C; [|discriminate].
    destruct (hd_is 101 r2) as [r3|] eqn:E101; [|discriminate]. apply hd_is_some in E101. subst r2.
    cbv zeta. destruct (i64_ok _); [|discriminate]. intros HH; inversion HH; subst; clear HH.
    pose proof (of_uint_canon_nonzero u C) as Hnz.
    cbn [encode]. unfold enc_int.
    assert (Hz : (- Z.of_N (N.of_uint u) <? 0)%Z = true) by (apply Z.ltb_lt; lia).
    rewrite Hz. unfold dec. rewrite Zabs2N.inj_opp, Zabs2N.id, DecimalN.Unsigned.to_of,
      (canon_unorm _ (nonzero_start_canon _ C)).
    simpl. rewrite <- ?app_assoc. simpl. reflexivity.
  - destruct (take_digits r) as [u r2] eqn:E. apply take_digits_exact in E.
    destruct (canon u) eqn:C; [|discriminate].
    destruct (hd_is 101 r2) as [r3|] eqn:E101; [|discriminate]. apply hd_is_some in E101. subst r2.
    cbv zeta. destruct (i64_ok _); [|discriminate]. intros HH; inversion HH; subst; clear HH.
    cbn [encode]. unfold enc_int.
    assert (Hz : (Z.of_N (N.of_uint u) <? 0)%Z = false) by (apply Z.ltb_ge; lia).
    rewrite Hz. unfold dec. rewrite Zabs2N.id, DecimalN.Unsigned.to_of, (canon_unorm _ C).
    simpl. rewrite <- ?app_assoc. simpl. reflexivity.
Qed.

Theorem decode_exact :
  forall fuel,
    (forall bs v rest, decode fuel bs = Some (v, rest) -> bs = encode v ++ rest) /\
    (forall bs l rest, decode_list fuel bs = Some (l, rest) ->
                       bs = flat_map encode l ++ 101 :: rest) /\
    (forall last bs d rest, decode_dict fuel last bs = Some (d, rest) ->
        bs = flat_map (fun kv => enc_str (fst kv) ++ encode (snd kv)) d ++ 101 :: rest).
Proof.
  induction fuel as [|f [IHv [IHl IHd]]].
  - repeat split; intros; discriminate.
  - split; [|split].
    + intros bs v rest H. cbn [decode] in H.
      destruct (hd_is 105 bs) as [r|] eqn:E1.
      { apply hd_is_some in E1. subst bs. apply dec_int_exact; exact H. }
      destruct (hd_is 108 bs) as [r|] eqn:E2.
      { apply hd_is_some in E2. subst bs.
        destruct (decode_list f r) as [[l r']|] eqn:E; [|discriminate].
        inversion H; subst. apply IHl in E. subst r. cbn. rewrite <- app_assoc. reflexivity. }
      destruct (hd_is 100 bs) as [r|] eqn:E3.
      { apply hd_is_some in E3. subst bs.
        destruct (decode_dict f None r) as [[d r']|] eqn:E; [|discriminate].
        inversion H; subst. apply IHd in E. subst r. cbn. rewrite <- app_assoc. reflexivity. }
      destruct (dec_str bs) as [[s r]|] eqn:E; [|discriminate].
      inversion H; subst. apply dec_str_exact in E. exact E.
    + intros bs l rest H. cbn [decode_list] in H.
      destruct (hd_is 101 bs) as [r|] eqn:E0.
      { apply hd_is_some in E0. inversion H; subst. reflexivity. }
      destruct (decode f bs) as [[v r]|] eqn:E1; [|discriminate].
      destruct (decode_list f r) as [[vs r']|] eqn:E2; [|discriminate].
      inversion H; subst. apply IHv in E1. apply IHl in E2. subst.
      cbn. rewrite <- app_assoc. reflexivity.
    + intros last bs d rest H. cbn [decode_dict] in H.
      destruct (hd_is 101 bs) as [r|] eqn:E0.
      { apply hd_is_some in E0. inversion H; subst. reflexivity. }
      destruct (dec_str bs) as [[k r]|] eqn:Es; [|discriminate].
      destruct (match last with None => true | Some l => bytes_ltb l k end); [|discriminate].
      destruct (decode f r) as [[v r1]|] eqn:E1; [|discriminate].
      destruct (decode_dict f (Some k) r1) as [[kvs r2]|] eqn:E2; [|discriminate].
      inversion H; subst. apply dec_str_exact in Es. apply IHv in E1. apply IHd in E2.
      subst. cbn. rewrite <- !app_assoc. reflexivity.
Qed.

Lemma decode_mono :
  forall f,
    (forall bs r, decode f bs = Some r -> decode (S f) bs = Some r) /\
    (forall bs r, decode_list f bs = Some r -> decode_list (S f) bs = Some r) /\
    (forall last bs r, decode_dict f last bs = Some r -> decode_dict (S f) last bs = Some r).
Proof.
  induction f as [|f [IHv [IHl IHd]]].
  - repeat split; intros; discriminate.
  - split; [|split].
    + intros bs r H. cbn [decode] in H. change (decode (S (S f)) bs) with
        (match hd_is 105 bs with
         | Some r => dec_int r
         | None => match hd_is 108 bs with
           | Some r => match decode_list (S f) r with Some (l, r') => Some (Lst l, r') | None => None end
           | None => match hd_is 100 bs with
             | Some r => match decode_dict (S f) None r with Some (d, r') => Some (Dict d, r') | None => None end
             | None => match dec_str bs with Some (s, r) => Some (Str s, r) | None => None end
             end end end).
      destruct (hd_is 105 bs); [exact H|].
      destruct (hd_is 108 bs) as [r1|].
      { destruct (decode_list f r1) as [[l r']|] eqn:E; [|discriminate]. rewrite (IHl _ _ E). exact H. }
      destruct (hd_is 100 bs) as [r1|].
      { destruct (decode_dict f None r1) as [[d r']|] eqn:E; [|discriminate]. rewrite (IHd _ _ _ E). exact H. }
      exact H.
    + intros bs r H. cbn [decode_list] in H. change (decode_list (S (S f)) bs) with
        (match hd_is 101 bs with
         | Some r => Some ([], r)
         | None => match decode (S f) bs with
                   | Some (v, r) => match decode_list (S f) r with
                                    | Some (vs, r') => Some (v :: vs, r') | None => None end
                   | None => None end end).
      destruct (hd_is 101 bs); [exact H|].
      destruct (decode f bs) as [[v r0]|] eqn:E1; [|discriminate]. rewrite (IHv _ _ E1).
      destruct (decode_list f r0) as [[vs r']|] eqn:E2; [|discriminate]. rewrite (IHl _ _ E2). exact H.
    + intros last bs r H. cbn [decode_dict] in H. change (decode_dict (S (S f)) last bs) with
        (match hd_is 101 bs with
         | Some r => Some ([], r)
         | None => match dec_str bs with
                   | Some (k, r) =>
                       if (match last with None => true | Some l => bytes_ltb l k end) then
                         match decode (S f) r with
                         | Some (v, r1) => match decode_dict (S f) (Some k) r1 with
                                           | Some (kvs, r2) => Some ((k, v) :: kvs, r2) | None => None end
                         | None => None end
                       else None
                   | None => None end end).
      destruct (hd_is 101 bs); [exact H|].
      destruct (dec_str bs) as [[k r0]|]; [|discriminate].
      destruct (match last with None => true | Some l => bytes_ltb l k end); [|discriminate].
      destruct (decode f r0) as [[v r1]|] eqn:E1; [|discriminate]. rewrite (IHv _ _ E1).
      destruct (decode_dict f (Some k) r1) as [[kvs r2]|] eqn:E2; [|discriminate].
      rewrite (IHd _ _ _ E2). exact H.
Qed.

Lemma decode_mono_le (f g : nat) bs r : (f <= g)%nat -> decode f bs = Some r -> decode g bs = Some r.
Proof. induction 1; auto. intros. apply decode_mono. auto. Qed.

Lemma decode_list_mono_le (f g : nat) bs r : (f <= g)%nat -> decode_list f bs = Some r -> decode_list g bs = Some r.
Proof. induction 1; auto. intros. apply decode_mono. auto. Qed.

Lemma decode_dict_mono_le (f g : nat) l bs r : (f <= g)%nat -> decode_dict f l bs = Some r -> decode_dict g l bs = Some r.
Proof. induction 1; auto. intros. apply decode_mono. auto. Qed.

Lemma to_uint_canon n : canon (N.to_uint n) = true.
Proof.
  pose proof (DecimalN.Unsigned.to_of (N.to_uint n)) as T.
  rewrite DecimalN.Unsigned.of_to in T. rewrite T. apply unorm_canon.
Qed.

Lemma uint_bytes_hd u : canon u = true -> exists b t, uint_bytes u = b :: t /\ is_digit b = true.
Proof. destruct u; cbn; try discriminate; intros _; eexists _, _; split; reflexivity. Qed.

Lemma is_digit_not c b : is_digit b = true -> is_digit c = false -> (b =? c) = false.
Proof. intros Hb Hc. destruct (N.eqb_spec b c); [subst; congruence|reflexivity]. Qed.

Lemma dec_hd n : exists b t, dec n = b :: t /\ is_digit b = true.
Proof. apply uint_bytes_hd, to_uint_canon. Qed.

Lemma hd_is_digit_none c b t : is_digit b = true -> is_digit c = false -> hd_is c (b :: t) = None.
Proof. intros Hb Hc. cbn. rewrite (is_digit_not c b Hb Hc). reflexivity. Qed.

Lemma dec_str_enc s rest : dec_str (enc_str s ++ rest) = Some (s, rest).
Proof.
  unfold dec_str, enc_str, dec. rewrite <- app_assoc. cbn [app].
  rewrite take_digits_app by reflexivity.
  rewrite to_uint_canon. rewrite <- ?app_comm_cons. cbn [hd_is]. rewrite ?N.eqb_refl.
  rewrite DecimalN.Unsigned.of_to, Nnat.Nat2N.id.
  rewrite app_length.
  rewrite (proj2 (Nat.leb_le (length s) (length s + length rest)%nat)) by lia.
  rewrite firstn_app, Nat.sub_diag, firstn_O, app_nil_r, firstn_all.
  rewrite skipn_app, Nat.sub_diag, skipn_O, skipn_all. reflexivity.
Qed.

Lemma enc_str_hd s : exists b t, enc_str s = b :: t /\ is_digit b = true.
Proof. unfold enc_str. destruct (dec_hd (N.of_nat (length s))) as (b & t & E & Hd).
  rewrite E. cbn. eauto. Qed.

Lemma nonzero_to_uint n : n <> 0 -> nonzero_start (N.to_uint n) = true.
Proof.
  intros Hn. pose proof (to_uint_canon n) as C.
  destruct (N.to_uint n) eqn:E; cbn in *; try reflexivity; try discriminate.
  destruct u; try discriminate. exfalso. apply Hn.
  rewrite <- (DecimalN.Unsigned.of_to n), E. reflexivity.
Qed.

Lemma dec_int_enc z rest : i64_ok z = true -> dec_int (tl (enc_int z) ++ rest) = Some (Int z, rest).
Proof.
  intros Hok. unfold enc_int, dec_int. cbn [tl].
  destruct (z <? 0)%Z eqn:Hz.
  - apply Z.ltb_lt in Hz. cbn [app hd_is]. rewrite ?N.eqb_refl. rewrite <- app_assoc. cbn [app].
    unfold dec. rewrite take_digits_app by reflexivity.
    rewrite nonzero_to_uint by lia. cbn [hd_is]. rewrite ?N.eqb_refl.
    rewrite DecimalN.Unsigned.of_to. cbv zeta.
    replace (- Z.of_N (Z.abs_N z))%Z with z by lia. rewrite Hok. reflexivity.
  - apply Z.ltb_ge in Hz. cbn [app]. rewrite <- app_assoc. cbn [app].
    destruct (dec_hd (Z.abs_N z)) as (b & t & E & Hd).
    rewrite E. cbn [app]. rewrite (hd_is_digit_none 45 b _ Hd eq_refl). rewrite app_comm_cons, <- E.
    unfold dec. rewrite take_digits_app by reflexivity.
    rewrite to_uint_canon. cbn [hd_is]. rewrite ?N.eqb_refl.
    rewrite DecimalN.Unsigned.of_to. cbv zeta.
    replace (Z.of_N (Z.abs_N z)) with z by lia. rewrite Hok. reflexivity.
Qed.

Lemma encode_hd v : exists b t, encode v = b :: t /\
  match kind_of v with KInt => b = 105 | KLst => b = 108 | KDict => b = 100 | KStr => is_digit b = true end.
Proof.
  destruct v; cbn [encode kind_of].
  - unfold enc_int. eauto.
  - destruct (enc_str_hd s) as (b & t & E & H). eauto.
  - eauto.
  - eauto.
Qed.

Lemma hd_is_encode_101 v rest : hd_is 101 (encode v ++ rest) = None.
Proof.
  destruct (encode_hd v) as (b & t & E & K). rewrite E. cbn [app hd_is].
  destruct (kind_of v); try (subst b; reflexivity).
  rewrite (is_digit_not 101 b K eq_refl). reflexivity.
Qed.

Lemma decode_list_enc (l : list value) :
  Forall (fun v => wfb v = true -> forall rest, decode (vsize v) (encode v ++ rest) = Some (v, rest)) l ->
  forallb wfb l = true ->
  forall rest, decode_list (lfuel l) (flat_map encode l ++ 101 :: rest) = Some (l, rest).
Proof.
  induction l as [|x xs IHxs]; intros IH Hwf rest.
  - cbn. reflexivity.
  - inversion IH as [|? ? IHx IHxs']; subst.
    cbn [forallb] in Hwf. apply andb_prop in Hwf. destruct Hwf as [Hwx Hwxs].
    unfold lfuel. cbn [fold_right flat_map]. fold (lfuel xs). rewrite <- app_assoc.
    replace (vsize x + S (lfuel xs))%nat with (S (vsize x + lfuel xs)) by lia.
    cbn [decode_list]. rewrite hd_is_encode_101.
    rewrite (decode_mono_le (vsize x) (vsize x + lfuel xs) _ _ ltac:(lia) (IHx Hwx _)).
    rewrite (decode_list_mono_le (lfuel xs) (vsize x + lfuel xs) _ _ ltac:(lia) (IHxs IHxs' Hwxs rest)).
    reflexivity.
Qed.

Lemma decode_dict_enc (d : list (bytes * value)) :
  Forall (fun kv => wfb (snd kv) = true ->
                    forall rest, decode (vsize (snd kv)) (encode (snd kv) ++ rest) = Some (snd kv, rest)) d ->
  forallb (fun kv => wfb (snd kv)) d = true ->
  forall last rest, keys_sorted last (map fst d) = true ->
    decode_dict (dfuel d) last (flat_map enc_kv d ++ 101 :: rest) = Some (d, rest).
Proof.
  induction d as [|[k v] xs IHxs]; intros IH Hwf last rest Hs.
  - cbn. reflexivity.
  - inversion IH as [|? ? IHx IHxs']; subst. cbn [snd] in IHx.
    cbn [forallb snd] in Hwf. apply andb_prop in Hwf. destruct Hwf as [Hwx Hwxs].
    cbn [map fst keys_sorted] in Hs. apply andb_prop in Hs. destruct Hs as [Hk Hs].
    unfold dfuel. cbn [fold_right flat_map snd]. fold (dfuel xs).
    unfold enc_kv at 1. cbn [fst snd]. rewrite <- !app_assoc.
    replace (vsize v + S (dfuel xs))%nat with (S (vsize v + dfuel xs)) by lia.
    cbn [decode_dict].
    destruct (enc_str_hd k) as (b & t & E & Hd). rewrite E. cbn [app].
    rewrite (hd_is_digit_none 101 b _ Hd eq_refl).
    rewrite app_comm_cons, <- E, dec_str_enc. rewrite Hk.
    rewrite (decode_mono_le (vsize v) (vsize v + dfuel xs) _ _ ltac:(lia) (IHx Hwx _)).
    rewrite (decode_dict_mono_le (dfuel xs) (vsize v + dfuel xs) _ _ _ ltac:(lia) (IHxs IHxs' Hwxs (Some k) rest Hs)).
    reflexivity.
Qed.

Theorem encode_decode v :
  wfb v = true -> forall rest, decode (vsize v) (encode v ++ rest) = Some (v, rest).
Proof.
  induction v as [z|s|l IH|d IH] using value_ind'; intros Hwf rest; cbn [wfb] in Hwf.
  - cbn [vsize decode encode]. unfold enc_int at 1. cbn [app hd_is]. rewrite ?N.eqb_refl.
    change ((if (z <? 0)%Z then [45] else []) ++ dec (Z.abs_N z) ++ [101]) with (tl (enc_int z)).
    apply dec_int_enc; exact Hwf.
  - cbn [vsize decode encode].
    destruct (enc_str_hd s) as (b & t & E & Hd). rewrite E. cbn [app].
    rewrite (hd_is_digit_none 105 b _ Hd eq_refl), (hd_is_digit_none 108 b _ Hd eq_refl),
      (hd_is_digit_none 100 b _ Hd eq_refl).
    rewrite app_comm_cons, <- E, dec_str_enc. reflexivity.
  - cbn [vsize encode]. fold (lfuel l). cbn [decode app]. cbn [hd_is].
    change (108 =? 105) with false. cbv iota. rewrite ?N.eqb_refl. rewrite <- app_assoc. cbn [app].
    rewrite (decode_list_enc l IH Hwf rest). reflexivity.
  - cbn [vsize encode]. fold (dfuel d). cbn [decode app]. cbn [hd_is].
    change (100 =? 105) with false. change (100 =? 108) with false. cbv iota. rewrite ?N.eqb_refl.
    rewrite <- app_assoc. cbn [app].
    apply andb_prop in Hwf. destruct Hwf as [Hs Hw].
    change (flat_map (fun kv => enc_str (fst kv) ++ encode (snd kv)) d) with (flat_map enc_kv d).
    rewrite (decode_dict_enc d IH Hw None rest Hs). reflexivity.
Qed.
