(** C17 / X9 — proofs about Model/UrlHost.v: the printers of IPv4 / IPv6 addresses are inverted by the url crate's
    parsers for EVERY address, the shapes of the printed texts, and `Host::parse` on the fragment satisfies every
    field of [url_lib]. Per-group / per-octet facts are finite sweeps ([vm_compute] over 0..65535 resp. 0..255,
    lifted with [forallb_forall]); the `::` compression is a list argument: groups before the run, `::`, groups
    after; the compress pointer and the swap loop put the zeros back. *)
From Coq Require Import Decimal DecimalN DecimalFacts.
From Coq Require Import NArith ZArith Lia Bool List ZifyN ZifyBool.
From Imdl Require Import Model.Bencode Model.HostPort Model.UrlHost Proofs.HostPortProofs.
Import ListNotations.
Local Open Scope N_scope.

Ltac Zify.zify_post_hook ::= Z.to_euclidean_division_equations.

(* ------------------------------------------------------------------ finite sweeps *)

Definition nrange (n : N) : list N := N.peano_rect (fun _ => list N) [] (fun k l => k :: l) n.

Lemma nrange_In n d : d < n -> In d (nrange n).
Proof.
  unfold nrange. induction n as [|n IH] using N.peano_ind; [lia|].
  rewrite N.peano_rect_succ. intros H. destruct (N.eq_dec d n) as [->|Hne]; [left; reflexivity|].
  right. apply IH. lia.
Qed.

Lemma sweep (P : N -> bool) n : forallb P (nrange n) = true -> forall d, d < n -> P d = true.
Proof. intros H d Hd. rewrite forallb_forall in H. apply H, nrange_In, Hd. Qed.

Fixpoint all_bools (n : nat) : list (list bool) :=
  match n with
  | O => [[]]
  | S k => map (cons true) (all_bools k) ++ map (cons false) (all_bools k)
  end.

Lemma all_bools_In n : forall zs, length zs = n -> In zs (all_bools n).
Proof.
  induction n as [|n IH]; intros [|z zs] H; simpl in H; try discriminate; [left; reflexivity|].
  simpl. apply in_or_app. destruct z; [left|right]; apply in_map, IH; lia.
Qed.

Lemma sweep_bools (P : list bool -> bool) n :
  forallb P (all_bools n) = true -> forall zs, length zs = n -> P zs = true.
Proof. intros H zs Hz. rewrite forallb_forall in H. apply H, all_bools_In, Hz. Qed.

Fixpoint bytes_eqb (a b : bytes) : bool :=
  match a, b with
  | [], [] => true
  | x :: a', y :: b' => (x =? y) && bytes_eqb a' b'
  | _, _ => false
  end.

Lemma bytes_eqb_eq a : forall b, bytes_eqb a b = true -> a = b.
Proof.
  induction a as [|x a IH]; intros [|y b] H; simpl in H; try discriminate; [reflexivity|].
  apply andb_true_iff in H. destruct H as [H1 H2]. apply N.eqb_eq in H1. subst. f_equal. apply IH, H2.
Qed.

(* ------------------------------------------------------------------ characters *)

Definition is_hexc (b : byte) : bool := match u_hexval b with Some _ => true | None => false end.
Definition no_hex_head (s : bytes) : Prop := match s with [] => True | c :: _ => u_hexval c = None end.
Definition no_dig_head (s : bytes) : Prop := match s with [] => True | c :: _ => hp_is_dig c = false end.

(** what one printed group is, to the parser *)
Definition hex_ok (g : N) : bool :=
  let t := u_hex g in
  forallb is_hexl t && forallb is_hexc t && negb (u_is_empty t) && (length t <=? 4)%nat &&
  match u_read_hex 4 t 0 O with (v, cnt, []) => (v =? g) && negb (Nat.eqb cnt 0) | _ => false end.

Lemma hex_ok_all : forall g, g < 65536 -> hex_ok g = true.
Proof. apply sweep. vm_compute. reflexivity. Qed.

(** what one printed octet is, to the three parsers that read it *)
Definition octet_ok (o : N) : bool :=
  let t := u_dec_octet o in
  forallb hp_is_dig t && negb (u_is_empty t) && (length t <=? 3)%nat &&
  match u_read_hex 4 t 0 O with (_, cnt, []) => negb (Nat.eqb cnt 0) | _ => false end &&
  match u_p6_dec t None with Some (Some v, []) => v =? o | _ => false end &&
  match u_ipv4number t with Some (Some v) => v =? o | _ => false end &&
  negb (u_puny_label t) && bytes_eqb t (dec o).

Lemma octet_ok_all : forall o, o < 256 -> octet_ok o = true.
Proof. apply sweep. vm_compute. reflexivity. Qed.

Lemma dig_is_hexc c : hp_is_dig c = true -> is_hexc c = true.
Proof. unfold is_hexc, u_hexval. intros ->. reflexivity. Qed.

Lemma forallb_dig_hexc s : forallb hp_is_dig s = true -> forallb is_hexc s = true.
Proof.
  induction s as [|c s IH]; simpl; [reflexivity|]. intros H. apply andb_true_iff in H. destruct H as [H1 H2].
  rewrite (dig_is_hexc c H1), IH by assumption. reflexivity.
Qed.

(* ------------------------------------------------------------------ the readers on `prefix ++ rest` *)

Lemma read_hex_app s1 : forall n rest v cnt,
  forallb is_hexc s1 = true -> (length s1 <= n)%nat -> no_hex_head rest ->
  u_read_hex n (s1 ++ rest) v cnt =
  (let '(v', c', _) := u_read_hex n s1 v cnt in (v', c', rest)).
Proof.
  induction s1 as [|c s1 IH]; intros n rest v cnt Hh Hl Hr.
  - simpl. destruct n as [|n]; [reflexivity|]. simpl. destruct rest as [|d rest]; [reflexivity|].
    simpl in Hr. rewrite Hr. reflexivity.
  - simpl in Hh. apply andb_true_iff in Hh. destruct Hh as [Hc Hh]. simpl in Hl.
    destruct n as [|n]; [lia|]. simpl. unfold is_hexc in Hc. destruct (u_hexval c) as [d|]; [|discriminate].
    apply IH; [assumption|lia|assumption].
Qed.

Lemma p6_dec_app s1 : forall rest cur,
  forallb hp_is_dig s1 = true -> no_dig_head rest ->
  u_p6_dec (s1 ++ rest) cur =
  match u_p6_dec s1 cur with Some (c, _) => Some (c, rest) | None => None end.
Proof.
  induction s1 as [|c s1 IH]; intros rest cur Hd Hr.
  - simpl. destruct rest as [|d rest]; [reflexivity|]. simpl in Hr. simpl. rewrite Hr. reflexivity.
  - simpl in Hd. apply andb_true_iff in Hd. destruct Hd as [Hc Hd]. simpl. rewrite Hc.
    destruct cur as [v|]; [|apply IH; assumption].
    destruct (v =? 0); [reflexivity|]. destruct (255 <? v * 10 + (c - 48)); [reflexivity|]. apply IH; assumption.
Qed.

Lemma hex_ok_parts g : g < 65536 ->
  forallb is_hexl (u_hex g) = true /\ forallb is_hexc (u_hex g) = true /\ u_hex g <> [] /\
  (length (u_hex g) <= 4)%nat /\ exists cnt, cnt <> O /\ u_read_hex 4 (u_hex g) 0 O = (g, cnt, []).
Proof.
  intros Hg. pose proof (hex_ok_all g Hg) as H. unfold hex_ok in H.
  apply andb_true_iff in H. destruct H as [H H5]. apply andb_true_iff in H. destruct H as [H H4].
  apply andb_true_iff in H. destruct H as [H H3]. apply andb_true_iff in H. destruct H as [H1 H2].
  split; [assumption|]. split; [assumption|].
  split; [destruct (u_hex g); [discriminate|discriminate]|]. split; [apply Nat.leb_le; assumption|].
  destruct (u_read_hex 4 (u_hex g) 0 O) as [[v cnt] [|? ?]]; [|discriminate].
  apply andb_true_iff in H5. destruct H5 as [K1 K2]. apply N.eqb_eq in K1. subst v.
  exists cnt. split; [|reflexivity]. destruct cnt; [discriminate|discriminate].
Qed.

Lemma hex_read g rest : g < 65536 -> no_hex_head rest ->
  exists cnt, cnt <> O /\ u_read_hex 4 (u_hex g ++ rest) 0 O = (g, cnt, rest).
Proof.
  intros Hg Hr. destruct (hex_ok_parts g Hg) as (_ & H2 & _ & H4 & cnt & Hc & E).
  rewrite read_hex_app; [|assumption|assumption|assumption]. rewrite E. exists cnt. split; [assumption|reflexivity].
Qed.

Lemma hex_head g : g < 65536 -> exists c tl, u_hex g = c :: tl /\ (c =? 58) = false /\ is_hexc c = true.
Proof.
  intros Hg. destruct (hex_ok_parts g Hg) as (_ & H2 & H3 & _).
  destruct (u_hex g) as [|c tl]; [congruence|]. exists c, tl. split; [reflexivity|].
  simpl in H2. apply andb_true_iff in H2. destruct H2 as [K _].
  split; [|assumption]. destruct (c =? 58) eqn:E; [|reflexivity]. apply N.eqb_eq in E. subst c. vm_compute in K. discriminate.
Qed.

Lemma hex_shape g : g < 65536 -> forallb is_hexl (u_hex g) = true.
Proof. intros Hg. apply (hex_ok_parts g Hg). Qed.

Lemma hex_length g : g < 65536 -> (1 <= length (u_hex g))%nat.
Proof. intros Hg. destruct (hex_head g Hg) as (c & tl & -> & _). simpl. lia. Qed.

(** octets *)
Lemma octet_facts o : o < 256 ->
  forallb hp_is_dig (u_dec_octet o) = true /\ u_dec_octet o <> [] /\
  u_p6_dec (u_dec_octet o) None = Some (Some o, []) /\
  u_ipv4number (u_dec_octet o) = Some (Some o) /\
  u_puny_label (u_dec_octet o) = false /\ u_dec_octet o = dec o /\
  (exists v cnt, cnt <> O /\ u_read_hex 4 (u_dec_octet o) 0 O = (v, cnt, [])) /\ (length (u_dec_octet o) <= 3)%nat.
Proof.
  intros Ho. pose proof (octet_ok_all o Ho) as H. unfold octet_ok in H.
  apply andb_true_iff in H. destruct H as [H H8]. apply andb_true_iff in H. destruct H as [H H7].
  apply andb_true_iff in H. destruct H as [H H6]. apply andb_true_iff in H. destruct H as [H H5].
  apply andb_true_iff in H. destruct H as [H H4]. apply andb_true_iff in H. destruct H as [H H3].
  apply andb_true_iff in H. destruct H as [H1 H2].
  apply negb_true_iff in H7.
  split; [assumption|]. split; [destruct (u_dec_octet o); [discriminate|discriminate]|].
  split; [destruct (u_p6_dec (u_dec_octet o) None) as [[[v|] [|? ?]]|]; try discriminate;
          apply N.eqb_eq in H5; subst; reflexivity|].
  split; [destruct (u_ipv4number (u_dec_octet o)) as [[v|]|]; try discriminate;
          apply N.eqb_eq in H6; subst; reflexivity|].
  split; [assumption|]. split; [apply bytes_eqb_eq; assumption|].
  split; [|apply Nat.leb_le; assumption].
  destruct (u_read_hex 4 (u_dec_octet o) 0 O) as [[v cnt] [|? ?]]; [|discriminate].
  exists v, cnt. split; [|reflexivity]. destruct cnt; [discriminate|discriminate].
Qed.

(* ------------------------------------------------------------------ the main loop of the IPv6 parser, step by step *)

Lemma p6_loop_eq f c r acc comp :
  u_p6_loop (S f) (c :: r) acc comp =
  if Nat.eqb (length acc) 8 then None
  else if c =? 58 then
    match comp with
    | Some _ => None
    | None => u_p6_loop f r (acc ++ [0]) (Some (S (length acc)))
    end
  else
    let '(v, cnt, rest) := u_read_hex 4 (c :: r) 0 O in
    match rest with
    | [] => Some (acc ++ [v], comp)
    | d :: rest' =>
        if d =? 46 then
          if Nat.eqb cnt 0 then None
          else if Nat.ltb 6 (length acc) then None
          else match u_p6_v4 4 true (c :: r) with
               | Some [n0; n1; n2; n3] => Some (acc ++ [n0 * 256 + n1; n2 * 256 + n3], comp)
               | _ => None
               end
        else if d =? 58 then
          match rest' with
          | [] => None
          | _ => u_p6_loop f rest' (acc ++ [v]) comp
          end
        else None
    end.
Proof. reflexivity. Qed.

Lemma len8_false (acc : list N) : (length acc < 8)%nat -> Nat.eqb (length acc) 8 = false.
Proof. intros H. apply Nat.eqb_neq. lia. Qed.

(** a group followed by `:` and more text *)
Lemma loop_group_colon f g rest acc comp :
  g < 65536 -> rest <> [] -> (length acc < 8)%nat ->
  u_p6_loop (S f) (u_hex g ++ 58 :: rest) acc comp = u_p6_loop f rest (acc ++ [g]) comp.
Proof.
  intros Hg Hr Ha. destruct (hex_head g Hg) as (c & tl & E & Hc & _).
  destruct (hex_read g (58 :: rest) Hg) as (cnt & Hcnt & R); [reflexivity|].
  rewrite E in *. change ((c :: tl) ++ 58 :: rest) with (c :: (tl ++ 58 :: rest)) in *.
  rewrite p6_loop_eq, (len8_false acc Ha), Hc, R.
  change (58 =? 46) with false. change (58 =? 58) with true. cbv iota.
  destruct rest as [|x rest]; [congruence|reflexivity].
Qed.

(** a group at the end of the text *)
Lemma loop_group_end f g acc comp :
  g < 65536 -> (length acc < 8)%nat ->
  u_p6_loop (S f) (u_hex g) acc comp = Some (acc ++ [g], comp).
Proof.
  intros Hg Ha. destruct (hex_head g Hg) as (c & tl & E & Hc & _).
  destruct (hex_read g [] Hg) as (cnt & Hcnt & R); [exact I|]. rewrite app_nil_r in R.
  rewrite E in *. rewrite p6_loop_eq, (len8_false acc Ha), Hc, R. reflexivity.
Qed.

(** the `:` that opens a compression *)
Lemma loop_colon f r acc :
  (length acc < 8)%nat ->
  u_p6_loop (S f) (58 :: r) acc None = u_p6_loop f r (acc ++ [0]) (Some (S (length acc))).
Proof. intros Ha. rewrite p6_loop_eq, (len8_false acc Ha). reflexivity. Qed.

Lemma join_cons2 g g2 tl : u_join (g :: g2 :: tl) = u_hex g ++ 58 :: u_join (g2 :: tl).
Proof. reflexivity. Qed.

Lemma join_length_pos g tl : Forall (fun x => x < 65536) (g :: tl) -> (1 <= length (u_join (g :: tl)))%nat.
Proof.
  intros H. inversion H as [|? ? Hg _]; subst. unfold u_join. rewrite app_length. pose proof (hex_length g Hg). lia.
Qed.

Lemma join_nonempty g tl : Forall (fun x => x < 65536) (g :: tl) -> u_join (g :: tl) <> [].
Proof. intros H E. pose proof (join_length_pos g tl H) as L. rewrite E in L. simpl in L. lia. Qed.

(** groups separated by `:` up to the end of the text *)
Lemma loop_join_end gs : forall acc comp fuel,
  Forall (fun x => x < 65536) gs -> gs <> [] -> (length acc + length gs <= 8)%nat ->
  (length (u_join gs) <= fuel)%nat ->
  u_p6_loop fuel (u_join gs) acc comp = Some (acc ++ gs, comp).
Proof.
  induction gs as [|g gs IH]; intros acc comp fuel HF Hne Hl Hf; [congruence|].
  inversion HF as [|? ? Hg HF']; subst. simpl in Hl.
  destruct gs as [|g2 tl].
  - change (u_join [g]) with (u_hex g ++ []) in *. rewrite app_nil_r in *.
    pose proof (hex_length g Hg). destruct fuel as [|f]; [lia|]. apply loop_group_end; [assumption|lia].
  - rewrite join_cons2 in *. rewrite app_length in Hf. cbn [length] in Hf, Hl.
    pose proof (hex_length g Hg). destruct fuel as [|f]; [lia|].
    rewrite loop_group_colon; [|assumption|apply join_nonempty; assumption|lia].
    rewrite IH; [|assumption|discriminate|rewrite last_length; cbn [length]; lia|lia].
    rewrite <- app_assoc. reflexivity.
Qed.

(** groups, each followed by `:`, then the second `:` of a compression and more text [X] *)
Lemma loop_join_cc gs : forall acc fuel X,
  Forall (fun x => x < 65536) gs -> gs <> [] -> (length acc + length gs < 8)%nat ->
  (length (u_join gs) + 2 + length X <= fuel)%nat ->
  exists f', (length X <= f')%nat /\
    u_p6_loop fuel (u_join gs ++ 58 :: 58 :: X) acc None =
    u_p6_loop f' X (acc ++ gs ++ [0]) (Some (S (length acc + length gs))).
Proof.
  induction gs as [|g gs IH]; intros acc fuel X HF Hne Hl Hf; [congruence|].
  inversion HF as [|? ? Hg HF']; subst. cbn [length] in Hl.
  destruct gs as [|g2 tl].
  - change (u_join [g]) with (u_hex g ++ []) in *. rewrite app_nil_r in *.
    pose proof (hex_length g Hg).
    destruct fuel as [|f]; [lia|]. rewrite loop_group_colon; [|assumption|discriminate|lia].
    destruct f as [|f]; [lia|]. rewrite loop_colon; [|rewrite last_length; lia].
    exists f. split; [lia|]. rewrite last_length, <- app_assoc. cbn [length app]. repeat f_equal. lia.
  - rewrite join_cons2 in *. rewrite <- app_assoc. cbn [app].
    rewrite app_length in Hf. cbn [length] in Hf, Hl. pose proof (hex_length g Hg).
    destruct fuel as [|f]; [lia|].
    rewrite loop_group_colon; [|assumption| |lia].
    2:{ intros E. apply app_eq_nil in E. destruct E as [E _]. revert E. apply join_nonempty. assumption. }
    destruct (IH (acc ++ [g]) f X HF') as (f' & Hf' & E); [discriminate|rewrite last_length; cbn [length]; lia| |]. 1: lia.
    exists f'. split; [assumption|]. rewrite E, last_length, <- app_assoc. cbn [length app].
    replace (S (length acc) + S (length tl))%nat with (length acc + S (S (length tl)))%nat by lia. reflexivity.
Qed.

(* ------------------------------------------------------------------ the swap loop puts the zeros back *)

Lemma finish_compress before after :
  (length before + length after <= 7)%nat ->
  u_p6_finish (before ++ 0 :: after, Some (S (length before))) =
  Some (before ++ repeat 0 (8 - length before - length after)%nat ++ after).
Proof.
  intros H.
  do 8 (destruct before as [|? before];
        [do 8 (destruct after as [|? after]; [first [exfalso; cbn [length] in H; lia|reflexivity]|]);
         exfalso; cbn [length] in H; lia|]).
  exfalso; cbn [length] in H; lia.
Qed.

Lemma finish_plain gs : length gs = 8%nat -> u_p6_finish (gs, None) = Some gs.
Proof. intros H. unfold u_p6_finish. rewrite H. reflexivity. Qed.

(* ------------------------------------------------------------------ the IPv6 parser on the two printed forms *)

Notation small := (fun x : N => x < 65536).

Definition render (before after : list N) : bytes := u_join before ++ 58 :: 58 :: u_join after.

Lemma loop_nil f acc comp : u_p6_loop f [] acc comp = Some (acc, comp).
Proof. destruct f; reflexivity. Qed.

Lemma parse6_cc r :
  u_parse6_groups (58 :: 58 :: r) =
  match u_p6_loop (length r) r [0] (Some 1%nat) with Some res => u_p6_finish res | None => None end.
Proof. reflexivity. Qed.

Lemma parse6_plain c0 c1 r : (c0 =? 58) = false ->
  u_parse6_groups (c0 :: c1 :: r) =
  match u_p6_loop (length (c0 :: c1 :: r)) (c0 :: c1 :: r) [] None with Some res => u_p6_finish res | None => None end.
Proof. intros H. unfold u_parse6_groups. rewrite H. reflexivity. Qed.

(** a text that starts with a printed group has the shape the prelude of the parser wants *)
Lemma join_starts g tl W : small g ->
  exists c0 c1 r, u_join (g :: tl) ++ 58 :: W = c0 :: c1 :: r /\ (c0 =? 58) = false.
Proof.
  intros Hg. destruct (hex_head g Hg) as (c & t & E & Hc & _). unfold u_join. rewrite E.
  cbn [app]. destruct (t ++ flat_map (fun x : N => 58 :: u_hex x) tl) as [|c1 r] eqn:E2.
  - exists c, 58, W. split; [reflexivity|assumption].
  - exists c, c1, (r ++ 58 :: W). split; [reflexivity|assumption].
Qed.

Lemma hex_starts g V : small g -> V <> [] ->
  exists c0 c1 r, u_hex g ++ V = c0 :: c1 :: r /\ (c0 =? 58) = false.
Proof.
  intros Hg HV. destruct (hex_head g Hg) as (c & t & E & Hc & _). rewrite E. cbn [app].
  destruct t as [|c1 t]; cbn [app].
  - destruct V as [|v V]; [congruence|]. exists c, v, V. split; [reflexivity|assumption].
  - exists c, c1, (t ++ V). split; [reflexivity|assumption].
Qed.

Lemma loop_after after : forall acc comp f,
  Forall small after -> (length acc + length after <= 8)%nat -> (length (u_join after) <= f)%nat ->
  u_p6_loop f (u_join after) acc comp = Some (acc ++ after, comp).
Proof.
  intros acc comp f HF Hl Hf. destruct after as [|a after].
  - cbn [u_join]. rewrite loop_nil, app_nil_r. reflexivity.
  - apply loop_join_end; [assumption|discriminate|assumption|assumption].
Qed.

Theorem parse6_render before after :
  Forall small before -> Forall small after -> (length before + length after <= 7)%nat ->
  u_parse6_groups (render before after) =
  Some (before ++ repeat 0 (8 - length before - length after)%nat ++ after).
Proof.
  intros HB HA Hl. unfold render. destruct before as [|b bs].
  - cbn [u_join app]. rewrite parse6_cc, loop_after; [|assumption|cbn [length] in *; lia|lia].
    exact (finish_compress [] after Hl).
  - inversion HB as [|? ? Hb _]; subst.
    destruct (join_starts b bs (58 :: u_join after) Hb) as (c0 & c1 & r & E & Hc).
    rewrite E, parse6_plain, <- E by assumption.
    destruct (loop_join_cc (b :: bs) [] (length (u_join (b :: bs) ++ 58 :: 58 :: u_join after)) (u_join after) HB)
      as (f' & Hf' & EL); [discriminate|cbn [length] in *; lia|rewrite app_length; cbn [length]; lia|].
    rewrite EL, loop_after; [|assumption|rewrite !app_length; cbn [length] in *; lia|assumption].
    rewrite <- (finish_compress (b :: bs) after Hl).
    cbn [app length Nat.add]. rewrite <- app_assoc. reflexivity.
Qed.

Theorem parse6_join gs :
  Forall small gs -> length gs = 8%nat -> u_parse6_groups (u_join gs) = Some gs.
Proof.
  intros HF Hl. destruct gs as [|g [|g2 tl]]; try discriminate.
  inversion HF as [|? ? Hg HF']; subst.
  destruct (hex_starts g (58 :: u_join (g2 :: tl)) Hg) as (c0 & c1 & r & E & Hc); [discriminate|].
  rewrite <- join_cons2 in E.
  rewrite E, parse6_plain, <- E by assumption.
  rewrite loop_join_end; [|assumption|discriminate|rewrite Hl; cbn [length]; lia|lia].
  apply finish_plain. assumption.
Qed.

(* ------------------------------------------------------------------ the two printers produce one of the two forms *)

Definition lz_ok (zs : list bool) : bool :=
  let '(cs, ce) := u_longest_zero_b zs in
  (((cs =? -1) && (ce =? -2)) ||
   ((0 <=? cs) && (cs + 2 <=? ce) && (ce <=? 8) &&
    forallb (fun b : bool => b) (firstn (Z.to_nat (ce - cs)) (skipn (Z.to_nat cs) zs))))%Z.

Lemma lz_ok_all zs : length zs = 8%nat -> lz_ok zs = true.
Proof. apply sweep_bools. vm_compute. reflexivity. Qed.

Definition span_ok (zs : list bool) : bool :=
  let '(st, len) := u_span_b zs in
  (len <=? 1)%nat || ((st + len <=? 8)%nat && forallb (fun b : bool => b) (firstn len (skipn st zs))).

Lemma span_ok_all zs : length zs = 8%nat -> span_ok zs = true.
Proof. apply sweep_bools. vm_compute. reflexivity. Qed.

Ltac eight gs :=
  destruct gs as [|?g [|?g [|?g [|?g [|?g [|?g [|?g [|?g [|? ?]]]]]]]]]; try discriminate.

Ltac enum2 cs k tac :=
  do 9 (destruct cs as [|cs];
        [do 9 (destruct k as [|k]; [first [exfalso; lia|tac]|]); exfalso; lia|]);
  exfalso; lia.

Lemma write6_none gs : length gs = 8%nat -> u_write6 9 gs (-1) (-2) 0 = u_join gs.
Proof. intros H. eight gs. cbn -[u_hex]. rewrite ?app_nil_r. reflexivity. Qed.

Lemma write6_render cs k gs : length gs = 8%nat -> (2 <= k)%nat -> (cs + k <= 8)%nat ->
  u_write6 9 gs (Z.of_nat cs) (Z.of_nat (cs + k)) 0 = render (firstn cs gs) (skipn (cs + k) gs).
Proof.
  intros H Hk Hc. eight gs. unfold render.
  enum2 cs k ltac:(cbn -[u_hex]; rewrite ?app_nil_r; repeat (rewrite <- app_assoc; cbn [app]); reflexivity).
Qed.

Lemma zeros_run cs k gs : length gs = 8%nat -> (2 <= k)%nat -> (cs + k <= 8)%nat ->
  forallb (fun b : bool => b) (firstn k (skipn cs (map (N.eqb 0) gs))) = true ->
  gs = firstn cs gs ++ repeat 0 (8 - length (firstn cs gs) - length (skipn (cs + k) gs))%nat ++ skipn (cs + k) gs /\
  (length (firstn cs gs) + length (skipn (cs + k) gs) <= 7)%nat.
Proof.
  intros H Hk Hc Hz. eight gs.
  enum2 cs k ltac:(cbn [firstn skipn map forallb] in Hz;
                   repeat (apply andb_true_iff in Hz; let E := fresh "E" in destruct Hz as [E Hz]; apply N.eqb_eq in E; subst);
                   split; [reflexivity|cbn; lia]).
Qed.

Lemma small_zero_pattern gs : length (map (N.eqb 0) gs) = length gs.
Proof. apply map_length. Qed.

Theorem parse6_url6_groups gs :
  Forall small gs -> length gs = 8%nat -> u_parse6_groups (u_url6_groups gs) = Some gs.
Proof.
  intros HF Hl. unfold u_url6_groups, u_longest_zero.
  pose proof (lz_ok_all (map (N.eqb 0) gs)) as K. rewrite map_length in K. specialize (K Hl).
  unfold lz_ok in K. destruct (u_longest_zero_b (map (N.eqb 0) gs)) as [cs ce].
  apply orb_true_iff in K. destruct K as [K|K].
  - apply andb_true_iff in K. destruct K as [K1 K2]. apply Z.eqb_eq in K1, K2. subst.
    rewrite write6_none by assumption. apply parse6_join; assumption.
  - apply andb_true_iff in K. destruct K as [K K4]. apply andb_true_iff in K. destruct K as [K K3].
    apply andb_true_iff in K. destruct K as [K1 K2].
    apply Z.leb_le in K1, K2, K3.
    remember (Z.to_nat cs) as c eqn:Ec. remember (Z.to_nat (ce - cs)) as k eqn:Ek.
    assert (Hcs : cs = Z.of_nat c) by lia. assert (Hce : ce = Z.of_nat (c + k)) by lia.
    rewrite Hcs, Hce. assert (Hk : (2 <= k)%nat) by lia. assert (Hc : (c + k <= 8)%nat) by lia.
    rewrite write6_render by assumption.
    destruct (zeros_run c k gs Hl Hk Hc K4) as [E L].
    remember (firstn c gs) as A eqn:EA. remember (skipn (c + k) gs) as B eqn:EB.
    assert (HF' := HF). rewrite E in HF'. apply Forall_app in HF'. destruct HF' as [HA HB].
    apply Forall_app in HB. destruct HB as [_ HB].
    rewrite parse6_render by assumption. rewrite <- E. reflexivity.
Qed.

Theorem parse6_std6_groups gs :
  Forall small gs -> length gs = 8%nat -> u_parse6_groups (u_std6_groups gs) = Some gs.
Proof.
  intros HF Hl. unfold u_std6_groups.
  pose proof (span_ok_all (map (N.eqb 0) gs)) as K. rewrite map_length in K. specialize (K Hl).
  unfold span_ok in K. destruct (u_span_b (map (N.eqb 0) gs)) as [st len].
  destruct (Nat.ltb 1 len) eqn:E1.
  - apply Nat.ltb_lt in E1. apply orb_true_iff in K. destruct K as [K|K]; [apply Nat.leb_le in K; lia|].
    apply andb_true_iff in K. destruct K as [K1 K2]. apply Nat.leb_le in K1.
    assert (Hk : (2 <= len)%nat) by lia.
    destruct (zeros_run st len gs Hl Hk K1 K2) as [E L].
    fold (render (firstn st gs) (skipn (st + len) gs)).
    remember (firstn st gs) as A eqn:EA. remember (skipn (st + len) gs) as B eqn:EB.
    assert (HF' := HF). rewrite E in HF'. apply Forall_app in HF'. destruct HF' as [HA HB].
    apply Forall_app in HB. destruct HB as [_ HB].
    rewrite parse6_render by assumption. rewrite <- E. reflexivity.
  - apply parse6_join; assumption.
Qed.

(* ------------------------------------------------------------------ addresses and their groups *)

Lemma groups_n_length k : forall a, length (u_groups_n k a) = k.
Proof. induction k as [|k IH]; intros a; [reflexivity|]. cbn [u_groups_n]. rewrite last_length, IH. reflexivity. Qed.

Lemma groups_n_small k : forall a, Forall small (u_groups_n k a).
Proof.
  induction k as [|k IH]; intros a; [constructor|]. cbn [u_groups_n]. apply Forall_app. split; [apply IH|].
  constructor; [|constructor]. apply N.mod_lt. discriminate.
Qed.

Lemma of_groups_app l x : u_of_groups (l ++ [x]) = u_of_groups l * 65536 + x.
Proof. unfold u_of_groups. rewrite fold_left_app. reflexivity. Qed.

Lemma of_groups_n k : forall a, a < 65536 ^ N.of_nat k -> u_of_groups (u_groups_n k a) = a.
Proof.
  induction k as [|k IH]; intros a Ha.
  - change (65536 ^ N.of_nat 0) with 1 in Ha. cbn [u_groups_n]. unfold u_of_groups. cbn [fold_left]. lia.
  - cbn [u_groups_n]. rewrite of_groups_app, IH.
    + pose proof (N.div_mod a 65536). lia.
    + rewrite Nat2N.inj_succ, N.pow_succ_r' in Ha. apply N.div_lt_upper_bound; [discriminate|assumption].
Qed.

Lemma of_groups_bound gs : Forall small gs -> u_of_groups gs < 65536 ^ N.of_nat (length gs).
Proof.
  induction gs as [|x gs IH] using rev_ind; intros HF.
  - cbv. reflexivity.
  - apply Forall_app in HF. destruct HF as [HF Hx]. inversion Hx as [|? ? Hx' _]; subst.
    rewrite of_groups_app, last_length, Nat2N.inj_succ, N.pow_succ_r'. specialize (IH HF). nia.
Qed.

Lemma pow_128 : 65536 ^ N.of_nat 8 = 2 ^ 128.
Proof. reflexivity. Qed.

Lemma groups_facts a : a < 2 ^ 128 ->
  Forall small (u_groups a) /\ length (u_groups a) = 8%nat /\ u_of_groups (u_groups a) = a.
Proof.
  intros Ha. split; [apply groups_n_small|]. split; [apply groups_n_length|].
  apply of_groups_n. rewrite pow_128. assumption.
Qed.

Theorem parse6_url6 a : a < 2 ^ 128 -> u_parse6 (u_url6 a) = Some a.
Proof.
  intros Ha. destruct (groups_facts a Ha) as (HF & Hl & E).
  unfold u_parse6, u_url6. rewrite parse6_url6_groups by assumption. cbn [option_map]. rewrite E. reflexivity.
Qed.

(* ------------------------------------------------------------------ dotted decimal: the IPv4 tail and the IPv4 parser *)

Lemma octet_lt a k : a / k mod 256 < 256.
Proof. apply N.mod_lt. discriminate. Qed.

Lemma p6_v4_step k (first : bool) o rest : o < 256 -> no_dig_head rest ->
  u_p6_v4 (S k) first ((if first then [] else [46]) ++ u_dec_octet o ++ rest) =
  match u_p6_v4 k false rest with Some vs => Some (o :: vs) | None => None end.
Proof.
  intros Ho Hr. destruct (octet_facts o Ho) as (Hd & Hne & Hp & _).
  assert (E : u_p6_dec (u_dec_octet o ++ rest) None = Some (Some o, rest)).
  { rewrite p6_dec_app, Hp by assumption. reflexivity. }
  destruct first; cbn [app].
  - destruct (u_dec_octet o ++ rest) as [|c t] eqn:E2.
    + apply app_eq_nil in E2. destruct E2 as [E2 _]. congruence.
    + cbn [u_p6_v4]. rewrite E. reflexivity.
  - cbn [u_p6_v4]. change (hd_is 46 (46 :: u_dec_octet o ++ rest)) with (Some (u_dec_octet o ++ rest)). cbv beta iota. rewrite E. reflexivity.
Qed.

Lemma p6_v4_first k o rest : o < 256 -> no_dig_head rest ->
  u_p6_v4 (S k) true (u_dec_octet o ++ rest) =
  match u_p6_v4 k false rest with Some vs => Some (o :: vs) | None => None end.
Proof. exact (p6_v4_step k true o rest). Qed.

Lemma p6_v4_next k o rest : o < 256 -> no_dig_head rest ->
  u_p6_v4 (S k) false (46 :: u_dec_octet o ++ rest) =
  match u_p6_v4 k false rest with Some vs => Some (o :: vs) | None => None end.
Proof. exact (p6_v4_step k false o rest). Qed.

Lemma v4_text o1 o2 o3 o4 : o1 < 256 -> o2 < 256 -> o3 < 256 -> o4 < 256 ->
  u_p6_v4 4 true (u_dec_octet o1 ++ 46 :: u_dec_octet o2 ++ 46 :: u_dec_octet o3 ++ 46 :: u_dec_octet o4) =
  Some [o1; o2; o3; o4].
Proof.
  intros H1 H2 H3 H4.
  rewrite p6_v4_first by (assumption || reflexivity).
  rewrite p6_v4_next by (assumption || reflexivity).
  rewrite p6_v4_next by (assumption || reflexivity).
  rewrite <- (app_nil_r (u_dec_octet o4)).
  rewrite p6_v4_next by (assumption || exact I). reflexivity.
Qed.

Lemma loop_v4 f v acc comp : v < 4294967296 -> (length acc <= 6)%nat ->
  u_p6_loop (S f) (u_std4 v) acc comp = Some (acc ++ [v / 65536; v mod 65536], comp).
Proof.
  intros Hv Ha. unfold u_std4.
  set (o1 := v / 16777216 mod 256). set (o2 := v / 65536 mod 256). set (o3 := v / 256 mod 256). set (o4 := v mod 256).
  assert (H1 : o1 < 256) by apply octet_lt. assert (H2 : o2 < 256) by apply octet_lt.
  assert (H3 : o3 < 256) by apply octet_lt. assert (H4 : o4 < 256) by (apply N.mod_lt; discriminate).
  pose proof (v4_text o1 o2 o3 o4 H1 H2 H3 H4) as V.
  destruct (octet_facts o1 H1) as (Hd & Hne & _ & _ & _ & _ & (x & cnt & Hcnt & R) & Hlen).
  set (rest := u_dec_octet o2 ++ 46 :: u_dec_octet o3 ++ 46 :: u_dec_octet o4) in *.
  assert (RH : u_read_hex 4 (u_dec_octet o1 ++ 46 :: rest) 0 O = (x, cnt, 46 :: rest)).
  { rewrite read_hex_app; [rewrite R; reflexivity|apply forallb_dig_hexc; assumption|lia|reflexivity]. }
  destruct (u_dec_octet o1) as [|c t] eqn:E1; [congruence|].
  cbn [app] in *. rewrite p6_loop_eq, len8_false by lia.
  assert (Hc : (c =? 58) = false).
  { cbn [forallb] in Hd. apply andb_true_iff in Hd. destruct Hd as [Hd _]. unfold hp_is_dig in Hd. lia. }
  rewrite Hc, RH. change (46 =? 46) with true. cbv iota.
  destruct cnt as [|cnt]; [congruence|]. cbn [Nat.eqb].
  replace (Nat.ltb 6 (length acc)) with false by (symmetry; apply Nat.ltb_ge; lia).
  rewrite V. replace (o1 * 256 + o2) with (v / 65536) by (subst o1 o2 o3 o4; lia).
  replace (o3 * 256 + o4) with (v mod 65536) by (subst o1 o2 o3 o4; lia). reflexivity.
Qed.

Lemma hex_ffff : u_hex 65535 = [102; 102; 102; 102].
Proof. reflexivity. Qed.

Lemma mapped_groups a : a < 2 ^ 128 -> u_is_mapped a = true ->
  a = u_of_groups [0; 0; 0; 0; 0; 65535; a mod 4294967296 / 65536; a mod 4294967296 mod 65536].
Proof.
  unfold u_is_mapped. intros Ha H. apply N.eqb_eq in H. unfold u_of_groups. cbn [fold_left]. lia.
Qed.

Theorem parse6_std6 a : a < 2 ^ 128 -> u_parse6 (u_std6 a) = Some a.
Proof.
  intros Ha. unfold u_std6. destruct (u_is_mapped a) eqn:M.
  - unfold u_parse6. cbn [app]. rewrite parse6_cc.
    change (102 :: 102 :: 102 :: 102 :: 58 :: u_std4 (a mod 4294967296)) with (u_hex 65535 ++ 58 :: u_std4 (a mod 4294967296)).
    assert (Hv : a mod 4294967296 < 4294967296) by (apply N.mod_lt; discriminate).
    assert (Hne : u_std4 (a mod 4294967296) <> []).
    { unfold u_std4. intros E. apply app_eq_nil in E. destruct E as [_ E]. discriminate. }
    rewrite hex_ffff. cbn [app length].
    change (102 :: 102 :: 102 :: 102 :: 58 :: u_std4 (a mod 4294967296)) with (u_hex 65535 ++ 58 :: u_std4 (a mod 4294967296)).
    rewrite loop_group_colon; [|reflexivity|assumption|cbn; lia].
    rewrite loop_v4; [|assumption|cbn; lia].
    cbn [app]. change (u_p6_finish ([0; 65535; a mod 4294967296 / 65536; a mod 4294967296 mod 65536], Some 1%nat))
      with (Some [0; 0; 0; 0; 0; 65535; a mod 4294967296 / 65536; a mod 4294967296 mod 65536]).
    cbn [option_map]. rewrite <- mapped_groups by assumption. reflexivity.
  - destruct (groups_facts a Ha) as (HF & Hl & E).
    unfold u_parse6. rewrite parse6_std6_groups by assumption. cbn [option_map]. rewrite E. reflexivity.
Qed.

(** `str::split` on a text without the separator, and on `s1 ++ c :: s2` *)
Lemma split_none c s : hp_mem c s = false -> u_split c s = [s].
Proof.
  induction s as [|b s IH]; [reflexivity|]. rewrite mem_cons. intros H. apply orb_false_iff in H. destruct H as [H1 H2].
  cbn [u_split]. rewrite N.eqb_sym, H1, IH by assumption. reflexivity.
Qed.

Lemma split_app c s1 s2 : hp_mem c s1 = false -> u_split c (s1 ++ c :: s2) = s1 :: u_split c s2.
Proof.
  induction s1 as [|b s1 IH]; intros H.
  - cbn [app u_split]. rewrite N.eqb_refl. reflexivity.
  - rewrite mem_cons in H. apply orb_false_iff in H. destruct H as [H1 H2].
    cbn [app u_split]. rewrite N.eqb_sym, H1, IH by assumption. reflexivity.
Qed.

Lemma dig_no_dot s : forallb hp_is_dig s = true -> hp_mem 46 s = false.
Proof. intros H. apply (forallb_mem_false hp_is_dig); [assumption|reflexivity]. Qed.

Lemma std4_split v :
  let o1 := v / 16777216 mod 256 in let o2 := v / 65536 mod 256 in let o3 := v / 256 mod 256 in let o4 := v mod 256 in
  u_split 46 (u_std4 v) = [u_dec_octet o1; u_dec_octet o2; u_dec_octet o3; u_dec_octet o4].
Proof.
  intros o1 o2 o3 o4. unfold u_std4. fold o1 o2 o3 o4.
  assert (H1 : o1 < 256) by apply octet_lt. assert (H2 : o2 < 256) by apply octet_lt.
  assert (H3 : o3 < 256) by apply octet_lt. assert (H4 : o4 < 256) by (apply N.mod_lt; discriminate).
  rewrite !split_app, split_none; try reflexivity; apply dig_no_dot; apply octet_facts; assumption.
Qed.

Theorem parse4_std4 v : v < 4294967296 -> u_parse4 (u_std4 v) = Some v.
Proof.
  intros Hv. unfold u_parse4. rewrite std4_split.
  set (o1 := v / 16777216 mod 256). set (o2 := v / 65536 mod 256). set (o3 := v / 256 mod 256). set (o4 := v mod 256).
  assert (H1 : o1 < 256) by apply octet_lt. assert (H2 : o2 < 256) by apply octet_lt.
  assert (H3 : o3 < 256) by apply octet_lt. assert (H4 : o4 < 256) by (apply N.mod_lt; discriminate).
  destruct (octet_facts o1 H1) as (_ & _ & _ & N1 & _). destruct (octet_facts o2 H2) as (_ & _ & _ & N2 & _).
  destruct (octet_facts o3 H3) as (_ & _ & _ & N3 & _). destruct (octet_facts o4 H4) as (_ & Hne4 & _ & N4 & _).
  cbn [rev app]. destruct (u_dec_octet o4) as [|c4 t4] eqn:E4; [congruence|]. rewrite <- E4. rewrite <- E4 in N4.
  cbn [length Nat.ltb Nat.leb u_numbers]. rewrite N1, N2, N3, N4. cbn [rev app length].
  change (4294967295 / 2 ^ (8 * N.of_nat 3)) with 255.
  replace (255 <? o4) with false by lia. cbn [existsb].
  replace (255 <? o1) with false by lia. replace (255 <? o2) with false by lia. replace (255 <? o3) with false by lia.
  cbn [orb u_shift_sum]. f_equal.
  change (2 ^ (8 * (3 - 0))) with 16777216. change (2 ^ (8 * (3 - (0 + 1)))) with 65536. change (2 ^ (8 * (3 - (0 + 1 + 1)))) with 256.
  subst o1 o2 o3 o4. lia.
Qed.

(* ------------------------------------------------------------------ what the parsers return is in range *)

Lemma hexval_lt c d : u_hexval c = Some d -> d < 16.
Proof.
  unfold u_hexval, hp_is_dig. intros H.
  destruct ((48 <=? c) && (c <=? 57)) eqn:E1; [injection H as <-; lia|].
  destruct ((97 <=? c) && (c <=? 102)) eqn:E2; [injection H as <-; lia|].
  destruct ((65 <=? c) && (c <=? 70)) eqn:E3; [injection H as <-; lia|discriminate].
Qed.

Lemma read_hex_bound n : forall s v cnt k, v < 16 ^ N.of_nat k ->
  fst (fst (u_read_hex n s v cnt)) < 16 ^ N.of_nat (k + n).
Proof.
  induction n as [|n IH]; intros s v cnt k Hv.
  - cbn [u_read_hex fst]. rewrite Nat.add_0_r. assumption.
  - cbn [u_read_hex]. assert (Hmono : 16 ^ N.of_nat k <= 16 ^ N.of_nat (k + S n)) by (apply N.pow_le_mono_r; lia).
    destruct s as [|c r]; [cbn [fst]; lia|].
    destruct (u_hexval c) as [d|] eqn:E; [|cbn [fst]; lia].
    apply hexval_lt in E. replace (k + S n)%nat with (S k + n)%nat by lia. apply IH.
    rewrite Nat2N.inj_succ, N.pow_succ_r'. lia.
Qed.

Lemma read_hex4_small s v cnt rest : u_read_hex 4 s 0 O = (v, cnt, rest) -> small v.
Proof.
  intros H. pose proof (read_hex_bound 4 s 0 O 0) as B. rewrite H in B. cbn [fst] in B.
  change (16 ^ N.of_nat (0 + 4)) with 65536 in B. apply B. reflexivity.
Qed.

Lemma p6_dec_bound s : forall cur v rest,
  (forall x, cur = Some x -> x <= 255) -> u_p6_dec s cur = Some (Some v, rest) -> v <= 255.
Proof.
  induction s as [|c s IH]; intros cur v rest Hc H.
  - cbn [u_p6_dec] in H. injection H as H _. apply Hc. assumption.
  - cbn [u_p6_dec] in H. destruct (hp_is_dig c) eqn:Ed.
    + destruct cur as [x|].
      * destruct (x =? 0); [discriminate|]. destruct (255 <? x * 10 + (c - 48)) eqn:E; [discriminate|].
        eapply IH; [|exact H]. intros y Hy. injection Hy as <-. lia.
      * unfold hp_is_dig in Ed. eapply IH; [|exact H]. intros y Hy. injection Hy as <-. lia.
    + injection H as H _. apply Hc. assumption.
Qed.

Lemma p6_v4_bound k : forall first s vs, u_p6_v4 k first s = Some vs -> Forall (fun x => x <= 255) vs.
Proof.
  induction k as [|k IH]; intros first s vs H.
  - cbn [u_p6_v4] in H. destruct s; [injection H as <-; constructor|discriminate].
  - cbn [u_p6_v4] in H. destruct s as [|c s]; [discriminate|].
    destruct (if first then Some (c :: s) else hd_is 46 (c :: s)) as [s1|]; [|discriminate].
    destruct (u_p6_dec s1 None) as [[[v|] rest]|] eqn:E; try discriminate.
    destruct (u_p6_v4 k false rest) as [vs'|] eqn:E2; [|discriminate]. injection H as <-.
    constructor; [|apply (IH _ _ _ E2)]. eapply p6_dec_bound; [|exact E]. intros x Hx. discriminate.
Qed.

Definition good (acc : list N) : Prop := Forall small acc /\ (length acc <= 8)%nat.

Lemma good_snoc acc x : good acc -> small x -> (length acc < 8)%nat -> good (acc ++ [x]).
Proof.
  intros [HF Hl] Hx Hlt. split; [apply Forall_app; split; [assumption|constructor; [assumption|constructor]]|].
  rewrite last_length. lia.
Qed.

Lemma p6_loop_good fuel : forall s acc comp acc' comp',
  good acc -> u_p6_loop fuel s acc comp = Some (acc', comp') -> good acc'.
Proof.
  induction fuel as [|f IH]; intros s acc comp acc' comp' G H.
  - destruct s; cbn [u_p6_loop] in H; [injection H as <- _; assumption|discriminate].
  - destruct s as [|c r]; [cbn [u_p6_loop] in H; injection H as <- _; assumption|].
    rewrite p6_loop_eq in H. destruct (Nat.eqb (length acc) 8) eqn:E8; [discriminate|].
    apply Nat.eqb_neq in E8. assert (Hlt : (length acc < 8)%nat) by (destruct G; lia).
    destruct (c =? 58).
    + destruct comp; [discriminate|]. apply (IH _ _ _ _ _ (good_snoc acc 0 G ltac:(reflexivity) Hlt) H).
    + destruct (u_read_hex 4 (c :: r) 0 O) as [[v cnt] rest] eqn:ER. pose proof (read_hex4_small _ _ _ _ ER) as Hv.
      destruct rest as [|d rest'].
      * injection H as <- _. apply good_snoc; assumption.
      * destruct (d =? 46).
        { destruct (Nat.eqb cnt 0); [discriminate|]. destruct (Nat.ltb 6 (length acc)) eqn:E6; [discriminate|].
          apply Nat.ltb_ge in E6.
          destruct (u_p6_v4 4 true (c :: r)) as [vs|] eqn:EV; [|discriminate].
          pose proof (p6_v4_bound _ _ _ _ EV) as B.
          destruct vs as [|n0 [|n1 [|n2 [|n3 [|? ?]]]]]; try discriminate. injection H as <- _.
          inversion B as [|? ? B0 B']; subst. inversion B' as [|? ? B1 B'']; subst.
          inversion B'' as [|? ? B2 B''']; subst. inversion B''' as [|? ? B3 _]; subst.
          destruct G as [HF Hl]. split.
          - apply Forall_app. split; [assumption|]. constructor; [lia|constructor; [lia|constructor]].
          - rewrite app_length. cbn [length]. lia. }
        { destruct (d =? 58); [|discriminate]. destruct rest'; [discriminate|].
          apply (IH _ _ _ _ _ (good_snoc acc v G Hv Hlt) H). }
Qed.

Lemma set_nth_good i x l : Forall small l -> small x -> Forall small (u_set_nth i x l) /\ length (u_set_nth i x l) = length l.
Proof.
  revert i. induction l as [|y l IH]; intros i HF Hx; [destruct i; split; [constructor|reflexivity|constructor|reflexivity]|].
  inversion HF as [|? ? Hy HF']; subst. destruct i as [|i]; cbn [u_set_nth].
  - split; [constructor; assumption|reflexivity].
  - destruct (IH i HF' Hx) as [A B]. split; [constructor; assumption|cbn [length]; rewrite B; reflexivity].
Qed.

Lemma nth_small l i : Forall small l -> small (nth i l 0).
Proof.
  intros HF. destruct (nth_in_or_default i l 0) as [H|H]; [|rewrite H; reflexivity].
  rewrite Forall_forall in HF. apply HF. assumption.
Qed.

Lemma swap_loop_good swaps : forall pp cp l, Forall small l ->
  Forall small (u_swap_loop swaps pp cp l) /\ length (u_swap_loop swaps pp cp l) = length l.
Proof.
  induction swaps as [|k IH]; intros pp cp l HF; [split; [assumption|reflexivity]|].
  cbn [u_swap_loop]. unfold u_swap.
  destruct (set_nth_good (cp + S k - 1) (nth pp l 0) l HF (nth_small l pp HF)) as [A1 B1].
  destruct (set_nth_good pp (nth (cp + S k - 1) l 0) _ A1 (nth_small l _ HF)) as [A2 B2].
  destruct (IH (pp - 1)%nat cp _ A2) as [A3 B3]. split; [assumption|]. rewrite B3, B2, B1. reflexivity.
Qed.

Lemma parse6_groups_good s gs : u_parse6_groups s = Some gs -> Forall small gs /\ length gs = 8%nat.
Proof.
  unfold u_parse6_groups. intros H. destruct s as [|c0 [|c1 r]]; try discriminate.
  set (start := if c0 =? 58 then if c1 =? 58 then Some (r, [0], Some 1%nat) else None else Some (c0 :: c1 :: r, [], None)) in H.
  assert (Hs : forall s' acc comp, start = Some (s', acc, comp) -> good acc).
  { subst start. intros s' acc comp E. destruct (c0 =? 58); [destruct (c1 =? 58); [|discriminate]|];
      injection E as _ <- _; split; try (cbn; lia); repeat constructor. }
  destruct start as [[[s' acc] comp]|]; [|discriminate]. specialize (Hs _ _ _ eq_refl).
  destruct (u_p6_loop (length s') s' acc comp) as [[acc' comp']|] eqn:EL; [|discriminate].
  destruct (p6_loop_good _ _ _ _ _ _ Hs EL) as [HF Hl].
  unfold u_p6_finish in H. destruct comp' as [cp|].
  - injection H as <-.
    assert (HP : Forall small (u_pad8 acc')).
    { unfold u_pad8. apply Forall_app. split; [assumption|]. apply Forall_forall. intros x Hx. apply repeat_spec in Hx. subst. reflexivity. }
    destruct (swap_loop_good (length acc' - cp) 7 cp _ HP) as [A B]. split; [assumption|].
    rewrite B. unfold u_pad8. rewrite app_length, repeat_length. lia.
  - destruct (Nat.eqb (length acc') 8) eqn:E; [|discriminate]. injection H as <-. apply Nat.eqb_eq in E. split; assumption.
Qed.

Lemma parse6_range s a : u_parse6 s = Some a -> a < 2 ^ 128.
Proof.
  unfold u_parse6. destruct (u_parse6_groups s) as [gs|] eqn:E; [|discriminate]. cbn [option_map]. intros H. injection H as <-.
  destruct (parse6_groups_good _ _ E) as [HF Hl]. pose proof (of_groups_bound gs HF) as B. rewrite Hl, pow_128 in B. assumption.
Qed.

Lemma ipv4number_range s v : u_ipv4number s = Some (Some v) -> v <= 4294967295.
Proof.
  unfold u_ipv4number. destruct s as [|c s]; [discriminate|].
  destruct (match hd_is 48 (c :: s) with Some (x :: t) => if (x =? 120) || (x =? 88) then (16, t) else (8, x :: t) | _ => (10, c :: s) end) as [r body].
  destruct body as [|b body]; [intros H; injection H as <-; lia|].
  destruct (u_radix_val r 0 (b :: body)) as [w|]; [|discriminate].
  destruct (w <=? 4294967295) eqn:E; [|discriminate]. intros H. injection H as <-. lia.
Qed.

Lemma numbers_facts parts : forall nums, u_numbers parts = Some nums ->
  length nums = length parts /\ Forall (fun x => x <= 4294967295) nums.
Proof.
  induction parts as [|p ps IH]; intros nums H; cbn [u_numbers] in H.
  - injection H as <-. split; [reflexivity|constructor].
  - destruct (u_ipv4number p) as [[n|]|] eqn:E; try discriminate.
    destruct (u_numbers ps) as [ns|]; [|discriminate]. injection H as <-. destruct (IH _ eq_refl) as [A B].
    split; [cbn [length]; rewrite A; reflexivity|constructor; [apply (ipv4number_range _ _ E)|assumption]].
Qed.

Lemma parse4_range s a : u_parse4 s = Some a -> a < 4294967296.
Proof.
  unfold u_parse4. set (parts := match rev (u_split 46 s) with [] :: more => rev more | _ => u_split 46 s end).
  destruct (Nat.ltb 4 (length parts)) eqn:E4; [discriminate|]. apply Nat.ltb_ge in E4.
  destruct (u_numbers parts) as [nums|] eqn:EN; [|discriminate]. destruct (numbers_facts _ _ EN) as [Hlen _].
  destruct (rev nums) as [|last front_rev] eqn:ER; [discriminate|].
  assert (Hl : (length front_rev <= 3)%nat).
  { assert (length (rev nums) = length nums) by apply rev_length. rewrite ER in H. cbn [length] in H. lia. }
  rewrite <- (rev_length front_rev) in Hl. set (front := rev front_rev) in *. clearbody front.
  destruct (4294967295 / 2 ^ (8 * N.of_nat (length front)) <? last) eqn:E1; [discriminate|].
  destruct (existsb (fun x => 255 <? x) front) eqn:E2; [discriminate|]. intros H. injection H as <-.
  destruct front as [|f0 [|f1 [|f2 [|? ?]]]]; cbn [length] in *; try lia; cbn [existsb] in E2;
    repeat (apply orb_false_iff in E2; destruct E2 as [? E2]); cbn [u_shift_sum].
  - change (4294967295 / 2 ^ (8 * N.of_nat 0)) with 4294967295 in E1. lia.
  - change (4294967295 / 2 ^ (8 * N.of_nat 1)) with 16777215 in E1. change (2 ^ (8 * (3 - 0))) with 16777216. lia.
  - change (4294967295 / 2 ^ (8 * N.of_nat 2)) with 65535 in E1. change (2 ^ (8 * (3 - 0))) with 16777216.
    change (2 ^ (8 * (3 - (0 + 1)))) with 65536. lia.
  - change (4294967295 / 2 ^ (8 * N.of_nat 3)) with 255 in E1. change (2 ^ (8 * (3 - 0))) with 16777216.
    change (2 ^ (8 * (3 - (0 + 1)))) with 65536. change (2 ^ (8 * (3 - (0 + 1 + 1)))) with 256. lia.
Qed.

(* ------------------------------------------------------------------ shapes of the printed texts *)

Lemma forallb_impl (P Q : N -> bool) s : (forall b, P b = true -> Q b = true) -> forallb P s = true -> forallb Q s = true.
Proof.
  intros HPQ. induction s as [|b s IH]; [reflexivity|]. cbn [forallb]. intros H. apply andb_true_iff in H. destruct H as [H1 H2].
  rewrite (HPQ b H1), IH by assumption. reflexivity.
Qed.

Lemma dig_v4 b : hp_is_dig b = true -> v4_char b = true.
Proof. unfold v4_char. intros ->. reflexivity. Qed.
Lemma hexl_v6 b : is_hexl b = true -> v6_char b = true.
Proof. unfold v6_char. intros ->. reflexivity. Qed.
Lemma v4_v6 b : v4_char b = true -> v6_char b = true.
Proof. unfold v4_char, v6_char, is_hexl. intros H. apply orb_true_iff in H. destruct H as [->| ->]; [reflexivity|]. apply orb_true_r. Qed.

Theorem std4_shape_all a : forallb v4_char (u_std4 a) = true.
Proof.
  unfold u_std4. rewrite !forallb_app. cbn [forallb]. rewrite !forallb_app. cbn [forallb]. rewrite !forallb_app. cbn [forallb].
  change (v4_char 46) with true.
  rewrite !(forallb_impl _ _ _ dig_v4); try reflexivity; apply octet_facts; try apply octet_lt; apply N.mod_lt; discriminate.
Qed.

Lemma std4_nonempty a : u_std4 a <> [].
Proof. unfold u_std4. intros E. apply app_eq_nil in E. destruct E as [_ E]. discriminate. Qed.

Lemma join_shape gs : Forall small gs -> forallb v6_char (u_join gs) = true.
Proof.
  intros HF. destruct gs as [|g tl]; [reflexivity|]. inversion HF as [|? ? Hg HF']; subst.
  unfold u_join. rewrite forallb_app, (forallb_impl _ _ _ hexl_v6 (hex_shape g Hg)). cbn [andb].
  induction tl as [|x tl IH]; [reflexivity|]. inversion HF' as [|? ? Hx HF'']; subst.
  cbn [flat_map app forallb]. rewrite forallb_app, (forallb_impl _ _ _ hexl_v6 (hex_shape x Hx)).
  change (v6_char 58) with true. cbn [andb]. apply IH; [constructor|]; assumption.
Qed.

Lemma render_shape A B : Forall small A -> Forall small B ->
  forallb v6_char (render A B) = true /\ hp_mem 58 (render A B) = true.
Proof.
  intros HA HB. unfold render. split.
  - rewrite forallb_app. cbn [forallb]. rewrite !join_shape by assumption. reflexivity.
  - rewrite mem_app, mem_cons. change (58 =? 58) with true. rewrite orb_true_r. reflexivity.
Qed.

Definition two_forms (gs : list N) (T : bytes) : Prop :=
  T = u_join gs \/
  exists A B, T = render A B /\ Forall small A /\ Forall small B /\ (length A + length B <= 7)%nat /\
              gs = A ++ repeat 0 (8 - length A - length B)%nat ++ B.

Lemma run_forms c k gs : Forall small gs -> length gs = 8%nat -> (2 <= k)%nat -> (c + k <= 8)%nat ->
  forallb (fun b : bool => b) (firstn k (skipn c (map (N.eqb 0) gs))) = true ->
  two_forms gs (render (firstn c gs) (skipn (c + k) gs)).
Proof.
  intros HF Hl Hk Hc K4. right. destruct (zeros_run c k gs Hl Hk Hc K4) as [E L].
  exists (firstn c gs), (skipn (c + k) gs).
  remember (firstn c gs) as A eqn:EA. remember (skipn (c + k) gs) as B eqn:EB.
  assert (HF' := HF). rewrite E in HF'. apply Forall_app in HF'. destruct HF' as [HA HB].
  apply Forall_app in HB. destruct HB as [_ HB]. repeat split; assumption.
Qed.

Lemma url6_form gs : Forall small gs -> length gs = 8%nat -> two_forms gs (u_url6_groups gs).
Proof.
  intros HF Hl. unfold u_url6_groups, u_longest_zero.
  pose proof (lz_ok_all (map (N.eqb 0) gs)) as K. rewrite map_length in K. specialize (K Hl).
  unfold lz_ok in K. destruct (u_longest_zero_b (map (N.eqb 0) gs)) as [cs ce].
  apply orb_true_iff in K. destruct K as [K|K].
  - apply andb_true_iff in K. destruct K as [K1 K2]. apply Z.eqb_eq in K1, K2. subst.
    rewrite write6_none by assumption. left. reflexivity.
  - apply andb_true_iff in K. destruct K as [K K4]. apply andb_true_iff in K. destruct K as [K K3].
    apply andb_true_iff in K. destruct K as [K1 K2]. apply Z.leb_le in K1, K2, K3.
    remember (Z.to_nat cs) as c eqn:Ec. remember (Z.to_nat (ce - cs)) as k eqn:Ek.
    assert (Hcs : cs = Z.of_nat c) by lia. assert (Hce : ce = Z.of_nat (c + k)) by lia.
    rewrite Hcs, Hce. assert (Hk : (2 <= k)%nat) by lia. assert (Hc : (c + k <= 8)%nat) by lia.
    rewrite write6_render by assumption. apply run_forms; assumption.
Qed.

Lemma std6_form gs : Forall small gs -> length gs = 8%nat -> two_forms gs (u_std6_groups gs).
Proof.
  intros HF Hl. unfold u_std6_groups.
  pose proof (span_ok_all (map (N.eqb 0) gs)) as K. rewrite map_length in K. specialize (K Hl).
  unfold span_ok in K. destruct (u_span_b (map (N.eqb 0) gs)) as [st len].
  destruct (Nat.ltb 1 len) eqn:E1; [|left; reflexivity].
  apply Nat.ltb_lt in E1. apply orb_true_iff in K. destruct K as [K|K]; [apply Nat.leb_le in K; lia|].
  apply andb_true_iff in K. destruct K as [K1 K2]. apply Nat.leb_le in K1.
  apply (run_forms st len gs HF Hl); [lia|assumption|assumption].
Qed.

Lemma forms_shape gs T : Forall small gs -> length gs = 8%nat -> two_forms gs T ->
  forallb v6_char T = true /\ hp_mem 58 T = true.
Proof.
  intros HF Hl [->|(A & B & -> & HA & HB & _)]; [|apply render_shape; assumption].
  split; [apply join_shape; assumption|]. destruct gs as [|g [|g2 tl]]; try discriminate.
  rewrite join_cons2, mem_app, mem_cons. change (58 =? 58) with true. rewrite orb_true_r. reflexivity.
Qed.

Theorem url6_shape_all a : forallb v6_char (u_url6 a) = true /\ hp_mem 58 (u_url6 a) = true.
Proof.
  unfold u_url6. apply (forms_shape (u_groups a)); [apply groups_n_small|apply groups_n_length|].
  apply url6_form; [apply groups_n_small|apply groups_n_length].
Qed.

Theorem std6_shape_all a : hp_mem 58 (u_std6 a) = true /\ forallb v6_char (u_std6 a) = true.
Proof.
  unfold u_std6. destruct (u_is_mapped a).
  - split; [reflexivity|]. rewrite forallb_app. rewrite (forallb_impl _ _ _ v4_v6 (std4_shape_all _)). reflexivity.
  - destruct (forms_shape (u_groups a) (u_std6_groups (u_groups a))) as [A B];
      [apply groups_n_small|apply groups_n_length|apply std6_form; [apply groups_n_small|apply groups_n_length]|].
    split; assumption.
Qed.

(* ------------------------------------------------------------------ Host::parse on the fragment *)

Lemma hparse_bracket r :
  u_hparse (91 :: r) =
  Some (match u_strip_last 93 r with Some inner => option_map HIp6 (u_parse6 inner) | None => None end).
Proof. reflexivity. Qed.

Lemma strip_last_app s : u_strip_last 93 (s ++ [93]) = Some s.
Proof. unfold u_strip_last. rewrite rev_app_distr. cbn [rev app]. change (93 =? 93) with true. rewrite rev_involutive. reflexivity. Qed.

Lemma hparse_plain t : hd_is 91 t = None ->
  u_hparse t =
  if u_in_fragment t then
    let d := map u_lower t in
    Some (if u_is_empty d then None
          else if existsb u_invalid_domain_char d then None
          else if u_ends_in_number d then option_map HIp4 (u_parse4 d)
          else Some (HDomain d))
  else None.
Proof. intros H. unfold u_hparse. rewrite H. reflexivity. Qed.

Theorem hparse_ip6_text T a : u_parse6 T = Some a -> u_hparse (91 :: T ++ [93]) = Some (Some (HIp6 a)).
Proof. intros H. rewrite hparse_bracket, strip_last_app, H. reflexivity. Qed.

(** per-character facts *)
Lemma v4_facts b : v4_char b = true ->
  (b <? 128) = true /\ (b =? 37) = false /\ u_lower b = b /\ u_invalid_domain_char b = false /\ (b =? 91) = false.
Proof.
  unfold v4_char, hp_is_dig, u_lower, u_invalid_domain_char, hp_forbidden. intros H.
  assert (Hb : b = 46 \/ (48 <= b /\ b <= 57)) by lia.
  replace ((65 <=? b) && (b <=? 90)) with false by lia. repeat split; lia.
Qed.

Lemma map_lower_id s : forallb v4_char s = true -> map u_lower s = s.
Proof.
  induction s as [|b s IH]; [reflexivity|]. cbn [forallb map]. intros H. apply andb_true_iff in H. destruct H as [H1 H2].
  destruct (v4_facts b H1) as (_ & _ & -> & _). rewrite IH by assumption. reflexivity.
Qed.

Lemma existsb_false_of (P Q : N -> bool) s : (forall b, P b = true -> Q b = false) -> forallb P s = true -> existsb Q s = false.
Proof.
  intros HPQ. induction s as [|b s IH]; [reflexivity|]. cbn [forallb existsb]. intros H. apply andb_true_iff in H. destruct H as [H1 H2].
  rewrite (HPQ b H1), IH by assumption. reflexivity.
Qed.

Theorem hparse_std4 a : a < 4294967296 -> u_hparse (u_std4 a) = Some (Some (HIp4 a)).
Proof.
  intros Ha. pose proof (std4_shape_all a) as S4. pose proof (std4_split a) as SP. cbv zeta in SP.
  set (o1 := a / 16777216 mod 256) in *. set (o2 := a / 65536 mod 256) in *. set (o3 := a / 256 mod 256) in *. set (o4 := a mod 256) in *.
  assert (H1 : o1 < 256) by apply octet_lt. assert (H2 : o2 < 256) by apply octet_lt.
  assert (H3 : o3 < 256) by apply octet_lt. assert (H4 : o4 < 256) by (apply N.mod_lt; discriminate).
  assert (Hhd : hd_is 91 (u_std4 a) = None).
  { destruct (u_std4 a) as [|c t] eqn:E; [reflexivity|]. cbn [forallb] in S4. apply andb_true_iff in S4. destruct S4 as [S4 _].
    destruct (v4_facts c S4) as (_ & _ & _ & _ & Hc). unfold hd_is. rewrite Hc. reflexivity. }
  rewrite hparse_plain by assumption. rewrite (map_lower_id _ S4).
  assert (Hfrag : u_in_fragment (u_std4 a) = true).
  { unfold u_in_fragment. rewrite (map_lower_id _ S4), SP.
    rewrite (forallb_impl v4_char (fun b => b <? 128)) by (assumption || intros b Hb; apply (v4_facts b Hb)).
    replace (hp_mem 37 (u_std4 a)) with false.
    2:{ symmetry. apply (forallb_mem_false v4_char); [assumption|reflexivity]. }
    cbn [existsb]. destruct (octet_facts o1 H1) as (_ & _ & _ & _ & -> & _). destruct (octet_facts o2 H2) as (_ & _ & _ & _ & -> & _).
    destruct (octet_facts o3 H3) as (_ & _ & _ & _ & -> & _). destruct (octet_facts o4 H4) as (_ & _ & _ & _ & -> & _). reflexivity. }
  rewrite Hfrag. cbv zeta.
  replace (u_is_empty (u_std4 a)) with false by (pose proof (std4_nonempty a); destruct (u_std4 a); [congruence|reflexivity]).
  rewrite (existsb_false_of v4_char u_invalid_domain_char) by (assumption || intros b Hb; apply (v4_facts b Hb)).
  replace (u_ends_in_number (u_std4 a)) with true.
  2:{ unfold u_ends_in_number. rewrite SP. cbn [rev app]. destruct (octet_facts o4 H4) as (Hd & Hne & _).
      destruct (u_dec_octet o4) as [|c t] eqn:E; [congruence|]. rewrite Hd. reflexivity. }
  rewrite parse4_std4 by assumption. reflexivity.
Qed.

(** lower-casing *)
Lemma lower_idem b : u_lower (u_lower b) = u_lower b.
Proof. unfold u_lower. destruct ((65 <=? b) && (b <=? 90)) eqn:E; [|rewrite E; reflexivity]. replace ((65 <=? b + 32) && (b + 32 <=? 90)) with false by lia. reflexivity. Qed.

Lemma map_lower_idem s : map u_lower (map u_lower s) = map u_lower s.
Proof. rewrite map_map. apply map_ext. intros b. apply lower_idem. Qed.

Lemma lower_ascii b : (b <? 128) = true -> (u_lower b <? 128) = true.
Proof. unfold u_lower. destruct ((65 <=? b) && (b <=? 90)) eqn:E; lia. Qed.

Lemma lower_forbidden b : hp_forbidden (u_lower b) = hp_forbidden b.
Proof. unfold u_lower. destruct ((65 <=? b) && (b <=? 90)) eqn:E; [|reflexivity]. unfold hp_forbidden. lia. Qed.

Lemma existsb_map (P : N -> bool) (f : N -> N) s : existsb P (map f s) = existsb (fun b => P (f b)) s.
Proof. induction s as [|b s IH]; [reflexivity|]. cbn [map existsb]. rewrite IH. reflexivity. Qed.

Lemma existsb_false_mem (P : N -> bool) c s : existsb P s = false -> P c = true -> hp_mem c s = false.
Proof.
  induction s as [|b s IH]; [reflexivity|]. cbn [existsb]. intros H Hc. apply orb_false_iff in H. destruct H as [H1 H2].
  rewrite mem_cons, (IH H2 Hc), orb_false_r. destruct (c =? b) eqn:E; [|reflexivity]. apply N.eqb_eq in E. congruence.
Qed.

Lemma existsb_false_forall (P : N -> bool) s : existsb P s = false -> forallb (fun b => negb (P b)) s = true.
Proof. induction s as [|b s IH]; [reflexivity|]. cbn [existsb forallb]. intros H. apply orb_false_iff in H. destruct H as [-> H2]. rewrite IH by assumption. reflexivity. Qed.

(** a domain that `Host::parse` returned, parsed again *)
Theorem hparse_domain t d : hd_is 91 t = None -> u_hparse t = Some (Some (HDomain d)) ->
  u_hparse d = Some (Some (HDomain d)) /\ d <> [] /\ forallb (fun b => negb (hp_forbidden b)) d = true.
Proof.
  intros Hhd H. rewrite hparse_plain in H by assumption. destruct (u_in_fragment t) eqn:F; [|discriminate].
  cbv zeta in H. set (d0 := map u_lower t) in *.
  destruct (u_is_empty d0) eqn:E1; [discriminate|]. destruct (existsb u_invalid_domain_char d0) eqn:E2; [discriminate|].
  destruct (u_ends_in_number d0) eqn:E3; [destruct (u_parse4 d0); discriminate|]. injection H as H. subst d.
  assert (Hne : d0 <> []) by (destruct d0; [discriminate|discriminate]).
  assert (Hhd0 : hd_is 91 d0 = None).
  { destruct d0 as [|c r]; [reflexivity|]. cbn [existsb] in E2. apply orb_false_iff in E2. destruct E2 as [E2 _].
    unfold hd_is. destruct (c =? 91) eqn:E; [|reflexivity]. apply N.eqb_eq in E. subst c. discriminate. }
  assert (Hl : map u_lower d0 = d0) by apply map_lower_idem.
  assert (F0 : u_in_fragment d0 = true).
  { unfold u_in_fragment in *. rewrite Hl. apply andb_true_iff in F. destruct F as [F F3]. apply andb_true_iff in F. destruct F as [F1 F2].
    fold d0 in F3. rewrite F3, andb_true_r. apply andb_true_iff. split.
    - unfold d0. rewrite forallb_forall in *. intros x Hx. apply in_map_iff in Hx. destruct Hx as (b & <- & Hb). apply lower_ascii, F1, Hb.
    - apply negb_true_iff. apply (existsb_false_mem u_invalid_domain_char); [assumption|reflexivity]. }
  split; [|split; [assumption|]].
  - rewrite hparse_plain by assumption. rewrite F0. cbv zeta. rewrite Hl, E1, E2, E3. reflexivity.
  - apply existsb_false_forall in E2. revert E2. apply forallb_impl. intros b Hb. unfold u_invalid_domain_char in Hb.
    apply negb_true_iff in Hb. apply orb_false_iff in Hb. destruct Hb as [-> _]. reflexivity.
Qed.

Theorem hparse_forbidden t : hd_is 91 t = None -> existsb hp_forbidden t = true -> u_hparse t = Some None \/ u_hparse t = None.
Proof.
  intros Hhd H. rewrite hparse_plain by assumption. destruct (u_in_fragment t); [left|right; reflexivity]. cbv zeta.
  destruct (u_is_empty (map u_lower t)); [reflexivity|].
  replace (existsb u_invalid_domain_char (map u_lower t)) with true; [reflexivity|]. symmetry.
  rewrite existsb_map. rewrite existsb_exists in *. destruct H as (b & Hb & Hf). exists b. split; [assumption|].
  unfold u_invalid_domain_char. rewrite lower_forbidden, Hf. reflexivity.
Qed.

(** inversion of an accepted text *)
Theorem hparse_cases t h : u_hparse t = Some (Some h) ->
  (exists a, h = HIp6 a /\ a < 2 ^ 128) \/ (exists a, h = HIp4 a /\ a < 4294967296) \/
  (exists d, h = HDomain d /\ hd_is 91 t = None).
Proof.
  intros H. destruct (hd_is 91 t) as [r|] eqn:Hhd.
  - left. destruct t as [|c t]; [discriminate|]. unfold hd_is in Hhd. destruct (c =? 91) eqn:E; [|discriminate].
    apply N.eqb_eq in E. subst c. injection Hhd as <-. rewrite hparse_bracket in H. injection H as H.
    destruct (u_strip_last 93 t) as [inner|]; [|discriminate]. destruct (u_parse6 inner) as [a|] eqn:E6; [|discriminate].
    injection H as <-. exists a. split; [reflexivity|apply (parse6_range _ _ E6)].
  - right. rewrite hparse_plain in H by assumption. destruct (u_in_fragment t); [|discriminate]. cbv zeta in H.
    destruct (u_is_empty (map u_lower t)); [discriminate|]. destruct (existsb u_invalid_domain_char (map u_lower t)); [discriminate|].
    destruct (u_ends_in_number (map u_lower t)).
    + left. destruct (u_parse4 (map u_lower t)) as [a|] eqn:E4; [|discriminate]. injection H as <-. exists a. split; [reflexivity|apply (parse4_range _ _ E4)].
    + right. injection H as <-. eexists. split; reflexivity.
Qed.

(** whatever `Host::parse` returns on the fragment, the printed form parses back to it *)
Theorem hparse_print_parse t h : u_hparse t = Some (Some h) -> u_hparse (hshow u_std4 u_url6 h) = Some (Some h).
Proof.
  intros H. destruct (hparse_cases t h H) as [(a & -> & Ha)|[(a & -> & Ha)|(d & -> & Hhd)]]; cbn [hshow].
  - apply hparse_ip6_text, parse6_url6, Ha.
  - apply hparse_std4, Ha.
  - apply (hparse_domain t d Hhd H).
Qed.

(* ------------------------------------------------------------------ url_lib for the concrete functions *)

Section RealLib.
  Variable nd : bytes -> bool.
  Variable ext : bytes -> option hp_host.
  Hypothesis nd_ascii' : forall p, p <> [] -> forallb hp_is_dig p = true -> nd p = true.
  Hypothesis nd_bytes' : forall p, nd p = true -> p <> [] /\ forallb (fun b => hp_is_dig b || (128 <=? b)) p = true.

  (** what remains assumed: the behaviour of `Host::parse` OUTSIDE the fragment (IDNA on non-ASCII text and
      punycode labels, percent-decoding), and only these four facts about it *)
  Record ext_lib : Prop := {
    ext_print_parse : forall t h, u_hparse t = None -> ext t = Some h ->
                        u_hparse_with ext (hshow u_std4 u_url6 h) = Some h;
    ext_no_ip6 : forall t a, u_hparse t = None -> ext t <> Some (HIp6 a);
    ext_domain_shape : forall t d, u_hparse t = None -> ext t = Some (HDomain d) ->
                        d <> [] /\ forallb (fun b => negb (hp_forbidden b)) d = true;
    ext_forbidden : forall t, u_hparse t = None -> hd_is 91 t = None -> existsb hp_forbidden t = true -> ext t = None
  }.

  Lemma with_modelled t r : u_hparse t = Some r -> u_hparse_with ext t = r.
  Proof. unfold u_hparse_with. intros ->. reflexivity. Qed.

  Theorem real_lib : ext_lib -> url_lib nd (u_hparse_with ext) u_std4 u_std6 u_url6.
  Proof.
    intros X. constructor.
    - exact nd_ascii'.
    - exact nd_bytes'.
    - intros t h H. unfold u_hparse_with in H. destruct (u_hparse t) as [r|] eqn:E.
      + subst r. apply with_modelled. apply (hparse_print_parse t h E).
      + apply (ext_print_parse X t h E H).
    - intros t a H. unfold u_hparse_with in H. destruct (u_hparse t) as [r|] eqn:E.
      + subst r. destruct (hparse_cases t _ E) as [(a' & Ea & Ha)|[(a' & Ea & _)|(d & Ea & _)]]; try discriminate.
        injection Ea as <-. apply with_modelled. apply hparse_ip6_text, parse6_std6, Ha.
      + exfalso. apply (ext_no_ip6 X t a E H).
    - intros t d H. unfold u_hparse_with in H. destruct (u_hparse t) as [r|] eqn:E.
      + subst r. destruct (hparse_cases t _ E) as [(a' & Ea & _)|[(a' & Ea & _)|(d' & Ea & Hhd)]]; try discriminate.
        apply (hparse_domain t d Hhd E).
      + apply (ext_domain_shape X t d E H).
    - exact std4_shape_all.
    - exact std6_shape_all.
    - intros a. apply url6_shape_all.
    - reflexivity.
    - intros t Hhd Hf. unfold u_hparse_with. destruct (hparse_forbidden t Hhd Hf) as [-> | E]; [reflexivity|].
      rewrite E. apply (ext_forbidden X t E Hhd Hf).
  Qed.
End RealLib.

Lemma ascii_nd_ascii p : p <> [] -> forallb hp_is_dig p = true -> u_ascii_nd p = true.
Proof. unfold u_ascii_nd. intros Hp ->. destruct p; [congruence|reflexivity]. Qed.

Lemma ascii_nd_bytes p : u_ascii_nd p = true -> p <> [] /\ forallb (fun b => hp_is_dig b || (128 <=? b)) p = true.
Proof.
  unfold u_ascii_nd. intros H. apply andb_true_iff in H. destruct H as [H1 H2]. split; [destruct p; [discriminate|discriminate]|].
  revert H2. apply forallb_impl. intros b ->. reflexivity.
Qed.

Lemma no_ext_lib : ext_lib u_no_ext.
Proof. constructor; unfold u_no_ext; intros; try discriminate; reflexivity. Qed.

(** the library that knows the fragment and nothing else satisfies every hypothesis, without assumptions *)
Theorem strict_lib : url_lib u_ascii_nd (u_hparse_with u_no_ext) u_std4 u_std6 u_url6.
Proof. exact (real_lib u_ascii_nd u_no_ext ascii_nd_ascii ascii_nd_bytes no_ext_lib). Qed.

(** transfer: on a text whose host part is inside the fragment every extension agrees with the strict library *)
Lemma with_agree ext t : u_hparse t <> None -> u_hparse_with ext t = u_hparse_with u_no_ext t.
Proof. unfold u_hparse_with. destruct (u_hparse t); [reflexivity|congruence]. Qed.

Lemma with_strict_some ext t h : u_hparse_with u_no_ext t = Some h -> u_hparse_with ext t = Some h.
Proof. unfold u_hparse_with, u_no_ext. destruct (u_hparse t); [trivial|discriminate]. Qed.

Theorem parse_transfer nd ext s hp :
  hp_parse nd (u_hparse_with u_no_ext) s = HpOk hp -> hp_parse nd (u_hparse_with ext) s = HpOk hp.
Proof.
  unfold hp_parse. destruct (hp_split nd s) as [[ht pt]|]; [|discriminate].
  destruct (u_hparse_with u_no_ext ht) as [h|] eqn:E; [|discriminate]. rewrite (with_strict_some ext ht h E). trivial.
Qed.

Theorem unben_transfer ext bs hp :
  hp_from_bencode (u_hparse_with u_no_ext) bs = Some hp -> hp_from_bencode (u_hparse_with ext) bs = Some hp.
Proof.
  unfold hp_from_bencode. destruct (hp_dec_tuple bs) as [[[t z] rest]|]; [|discriminate].
  destruct ((0 <=? z)%Z && (z <=? 65535)%Z); [|discriminate].
  destruct (u_hparse_with u_no_ext (hp_rebracket t)) as [h|] eqn:E; [|discriminate]. rewrite (with_strict_some ext _ h E). trivial.
Qed.

(* ------------------------------------------------------------------ C17 for IP literals and fragment domains, any extension *)

Lemma strict_range h : (exists t, u_hparse t = Some (Some h)) -> in_range (u_hparse_with u_no_ext) h.
Proof. intros [t H]. exists t. exact (with_modelled u_no_ext t _ H). Qed.

Theorem ip_printed_form_parses_back ext h n :
  (exists t, u_hparse t = Some (Some h)) -> n <= 65535 ->
  hp_parse u_ascii_nd (u_hparse_with ext) (hp_display u_std4 u_url6 (h, n)) = HpOk (h, n).
Proof.
  intros Hr Hn. apply parse_transfer. exact (parse_display _ _ _ _ _ strict_lib h n (strict_range h Hr) Hn).
Qed.

Theorem ip_stored_pair_reads_back ext h n rest :
  (exists t, u_hparse t = Some (Some h)) -> n <= 65535 ->
  hp_from_bencode (u_hparse_with ext) (hp_to_bencode u_std4 u_std6 (h, n) ++ rest) = Some (h, n).
Proof.
  intros Hr Hn. apply unben_transfer. exact (bencode_roundtrip _ _ _ _ _ strict_lib h n rest (strict_range h Hr) Hn).
Qed.

Theorem ip_accepted_values_survive ext s hp :
  hp_parse u_ascii_nd (u_hparse_with u_no_ext) s = HpOk hp ->
  hp_parse u_ascii_nd (u_hparse_with ext) s = HpOk hp /\
  hp_parse u_ascii_nd (u_hparse_with ext) (hp_display u_std4 u_url6 hp) = HpOk hp /\
  forall rest, hp_from_bencode (u_hparse_with ext) (hp_to_bencode u_std4 u_std6 hp ++ rest) = Some hp.
Proof.
  intros H. destruct (parsed_survives _ _ _ _ _ strict_lib s hp H) as [A Bq].
  exact (conj (parse_transfer _ ext s hp H) (conj (parse_transfer _ ext _ hp A) (fun rest => unben_transfer ext _ hp (Bq rest)))).
Qed.

Theorem ip_reread_values_survive ext bs hp :
  hp_from_bencode (u_hparse_with u_no_ext) bs = Some hp ->
  hp_from_bencode (u_hparse_with ext) bs = Some hp /\
  hp_parse u_ascii_nd (u_hparse_with ext) (hp_display u_std4 u_url6 hp) = HpOk hp /\
  forall rest, hp_from_bencode (u_hparse_with ext) (hp_to_bencode u_std4 u_std6 hp ++ rest) = Some hp.
Proof.
  intros H. destruct hp as [h n]. destruct (reread_then_print _ _ _ _ _ strict_lib bs (h, n) H) as [A Bq].
  exact (conj (unben_transfer ext bs _ H) (conj (parse_transfer _ ext _ _ A) (fun rest => unben_transfer ext _ _ (Bq rest)))).
Qed.

(* ------------------------------------------------------------------ the fuel of the main loop is never the reason for a rejection *)

Lemma read_hex_rest n : forall s v cnt, (length (snd (u_read_hex n s v cnt)) <= length s)%nat.
Proof.
  induction n as [|n IH]; intros s v cnt; [cbn; lia|]. cbn [u_read_hex]. destruct s as [|c r]; [cbn; lia|].
  destruct (u_hexval c); [|cbn; lia]. specialize (IH r (v * 16 + n0) (S cnt)). cbn [length]. lia.
Qed.

Theorem p6_loop_fuel f1 : forall f2 s acc comp, (length s <= f1)%nat -> (length s <= f2)%nat ->
  u_p6_loop f1 s acc comp = u_p6_loop f2 s acc comp.
Proof.
  induction f1 as [|f1 IH]; intros f2 s acc comp H1 H2.
  - destruct s; [rewrite !loop_nil; reflexivity|cbn [length] in H1; lia].
  - destruct s as [|c r]; [rewrite !loop_nil; reflexivity|]. cbn [length] in H1, H2. destruct f2 as [|f2]; [lia|].
    rewrite !p6_loop_eq. destruct (Nat.eqb (length acc) 8); [reflexivity|]. destruct (c =? 58).
    + destruct comp; [reflexivity|]. apply IH; lia.
    + pose proof (read_hex_rest 4 (c :: r) 0 O) as L. destruct (u_read_hex 4 (c :: r) 0 O) as [[v cnt] rest]. cbn [snd length] in L.
      destruct rest as [|d rest']; [reflexivity|]. destruct (d =? 46); [reflexivity|]. destruct (d =? 58); [|reflexivity].
      destruct rest'; [reflexivity|]. cbn [length] in L. apply IH; cbn [length]; lia.
Qed.
