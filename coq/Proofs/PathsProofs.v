(** The path algebra of C02 over Model/Paths.v and Model/CreateFs.v: create's default torrent
    location is the input's sibling `NAME.torrent`; verify's default content root is the
    torrent's sibling `NAME`; hence, when the name is the input's own file name, verify looks
    exactly where create read. For every working directory and every input path text
    (relative, absolute, with `.`/`..`/repeated separators). *)
From Coq Require Import NArith List Bool Lia.
From Imdl Require Import Model.CreateFs Model.Paths.
Import ListNotations.
Local Open Scope N_scope.

Lemma list_eqb_length {A} (eqb : A -> A -> bool) : forall a b, list_eqb eqb a b = true -> length a = length b.
Proof.
  induction a as [|x a IH]; intros [|y b] E; cbn in *; try discriminate; [reflexivity|].
  apply andb_prop in E. f_equal. apply IH. exact (proj2 E).
Qed.

Lemma clean_run_app abs st l1 l2 : clean_run abs st (l1 ++ l2) = clean_run abs (clean_run abs st l1) l2.
Proof. unfold clean_run. apply fold_left_app. Qed.

Lemma clean_step_normal abs st c : is_dotdot c = false -> clean_step abs st c = c :: st.
Proof. unfold clean_step. intros ->. reflexivity. Qed.

Lemma clean_step_pop abs l st c : is_dotdot c = true -> is_dotdot l = false -> clean_step abs (l :: st) c = st.
Proof. unfold clean_step. intros -> ->. reflexivity. Qed.

(** cleaning what has been cleaned: a path cleaned on its own (relative: onto any stack;
    absolute: from the root) and then cleaned again behaves like the path itself *)
Lemma reclean (b : bool) st : (b = true -> st = []) -> forall l s,
  clean_run true st (rev (clean_run b s l)) = clean_run true (clean_run true st (rev s)) l.
Proof.
  intros Hb. induction l as [|c l IH]; intros s; [reflexivity|].
  change (clean_run b s (c :: l)) with (clean_run b (clean_step b s c) l).
  change (clean_run true (clean_run true st (rev s)) (c :: l))
    with (clean_run true (clean_step true (clean_run true st (rev s)) c) l).
  rewrite IH. f_equal.
  unfold clean_step at 1. destruct (is_dotdot c) eqn:Ec.
  - destruct s as [|x r].
    + destruct b.
      * rewrite (Hb eq_refl). cbn. unfold clean_step. rewrite Ec. reflexivity.
      * reflexivity.
    + destruct (is_dotdot x) eqn:Ex.
      * change (rev (c :: x :: r)) with (rev (x :: r) ++ [c]). rewrite clean_run_app. reflexivity.
      * cbn [rev]. rewrite clean_run_app. cbn [clean_run fold_left].
        rewrite (clean_step_normal true _ x Ex), (clean_step_pop true x _ c Ec Ex). reflexivity.
  - cbn [rev]. rewrite clean_run_app. reflexivity.
Qed.

(** the stack [Env::resolve] ends with (last component first) *)
Definition resolved (cwd : path) (p : ppath) : path :=
  clean_run true [] (if p_abs p then p_comps p else cwd ++ p_comps p).

Lemma env_resolve_resolved cwd p : env_resolve cwd p = rev (resolved cwd p).
Proof.
  unfold env_resolve, resolved, join, dir_of. cbn [p_abs p_comps]. destruct p as [[|] cs]; reflexivity.
Qed.

Lemma resolved_snoc cwd a X Y :
  resolved cwd {| p_abs := a; p_comps := X ++ Y |} = clean_run true (resolved cwd {| p_abs := a; p_comps := X |}) Y.
Proof.
  unfold resolved. cbn [p_abs p_comps]. destruct a; [|rewrite app_assoc]; apply clean_run_app.
Qed.

Lemma resolved_reclean cwd a X Y :
  resolved cwd {| p_abs := a; p_comps := rev (clean_run a [] X) ++ Y |} =
  clean_run true (resolved cwd {| p_abs := a; p_comps := X |}) Y.
Proof.
  rewrite resolved_snoc. f_equal. unfold resolved. cbn [p_abs p_comps]. destruct a.
  - rewrite (reclean true [] (fun _ => eq_refl) X []). reflexivity.
  - rewrite !clean_run_app. rewrite (reclean false _ ltac:(discriminate) X []). reflexivity.
Qed.

(** absolute stacks never hold `..` *)
Lemma abs_stack_no_dotdot : forall l st,
  Forall (fun c => is_dotdot c = false) st -> Forall (fun c => is_dotdot c = false) (clean_run true st l).
Proof.
  induction l as [|c l IH]; intros st Hst; [exact Hst|]. cbn [clean_run fold_left]. apply IH.
  unfold clean_step. destruct (is_dotdot c) eqn:Ec.
  - destruct st as [|x r]; [constructor|]. inversion Hst as [|? ? Hx Hr]; subst. rewrite Hx. exact Hr.
  - constructor; assumption.
Qed.

Lemma resolved_no_dotdot cwd p : Forall (fun c => is_dotdot c = false) (resolved cwd p).
Proof. apply abs_stack_no_dotdot. constructor. Qed.

(** ** a plain name is one relative component *)
Lemma split_slash_nosep : forall s cur,
  forallb (fun b => negb (b =? 47)) s = true -> split_slash s cur = [rev cur ++ s].
Proof.
  induction s as [|b r IH]; intros cur Hs; cbn [split_slash].
  - rewrite app_nil_r. reflexivity.
  - cbn [forallb] in Hs. apply andb_prop in Hs. destruct Hs as [Hb Hr].
    apply negb_true_iff in Hb. rewrite Hb, (IH _ Hr). cbn [rev]. rewrite <- app_assoc. reflexivity.
Qed.

Lemma plain_name_facts c : plain_name c = true ->
  is_nil c = false /\ is_dot c = false /\ is_dotdot c = false /\ forallb (fun b => negb (b =? 47)) c = true.
Proof.
  unfold plain_name. intros Hp.
  apply andb_prop in Hp. destruct Hp as [Hp H4]. apply andb_prop in Hp. destruct Hp as [Hp H3].
  apply andb_prop in Hp. destruct Hp as [H1 H2]. apply negb_true_iff in H1, H2, H3. auto.
Qed.

Lemma parse_plain c : plain_name c = true -> parse_path c = {| p_abs := false; p_comps := [c] |}.
Proof.
  intros Hp. destruct (plain_name_facts c Hp) as (H1 & H2 & _ & H4).
  unfold parse_path. rewrite (split_slash_nosep c [] H4). cbn [rev app filter]. rewrite H1, H2. cbn [negb andb].
  f_equal. destruct c as [|b r]; [discriminate|]. cbn [forallb] in H4. apply andb_prop in H4.
  apply negb_true_iff. exact (proj1 H4).
Qed.

Lemma plain_name_torrent c : plain_name c = true -> plain_name (name_torrent c) = true.
Proof.
  intros Hp. destruct (plain_name_facts c Hp) as (H1 & _ & _ & H4).
  unfold plain_name, name_torrent.
  assert (Hl : (8 <= length (c ++ dot_torrent))%nat) by (rewrite app_length; cbn; lia).
  assert (E1 : is_nil (c ++ dot_torrent) = false) by (destruct c; [discriminate|reflexivity]).
  assert (E2 : is_dot (c ++ dot_torrent) = false).
  { destruct (is_dot (c ++ dot_torrent)) eqn:E; [|reflexivity]. apply list_eqb_length in E. cbn in E. lia. }
  assert (E3 : is_dotdot (c ++ dot_torrent) = false).
  { destruct (is_dotdot (c ++ dot_torrent)) eqn:E; [|reflexivity]. apply list_eqb_length in E. cbn in E. lia. }
  rewrite E1, E2, E3, forallb_app, H4. reflexivity.
Qed.

(** ** the three statements *)

(** create's default output: the sibling of the input called NAME.torrent (whatever NAME is) *)
Theorem torrent_next_to_input cwd ip nm D last_ :
  env_resolve cwd ip = D ++ [last_] -> plain_name nm = true ->
  env_resolve cwd (torrent_path ip nm) = D ++ [name_torrent nm].
Proof.
  intros Hr Hp. rewrite env_resolve_resolved in *.
  assert (Hs : resolved cwd ip = last_ :: rev D).
  { rewrite <- (rev_involutive (resolved cwd ip)), Hr, rev_app_distr. reflexivity. }
  pose proof (resolved_no_dotdot cwd ip) as Hnd. rewrite Hs in Hnd. inversion Hnd as [|? ? Hl _]; subst.
  unfold torrent_path. rewrite (parse_plain _ (plain_name_torrent nm Hp)).
  destruct ip as [a I]. unfold join at 2. unfold dotdot_path at 1. cbn [p_abs p_comps].
  unfold lexiclean. cbn [p_abs p_comps]. unfold join. cbn [p_abs p_comps].
  rewrite resolved_reclean, resolved_snoc, Hs. unfold dotdot_path. cbn [p_comps clean_run fold_left].
  rewrite (clean_step_pop true last_ _ [46; 46] eq_refl Hl).
  destruct (plain_name_facts _ (plain_name_torrent nm Hp)) as (_ & _ & H3 & _).
  rewrite (clean_step_normal true _ _ H3). cbn [rev]. rewrite rev_involutive. reflexivity.
Qed.

(** verify's default content root: the sibling of the torrent file called NAME *)
Theorem content_next_to_torrent cwd tp nm D tfile :
  env_resolve cwd tp = D ++ [tfile] -> plain_name nm = true ->
  env_resolve cwd (verify_default_root tp nm) = D ++ [nm].
Proof.
  intros Hr Hp. rewrite env_resolve_resolved in *.
  assert (Hs : resolved cwd tp = tfile :: rev D).
  { rewrite <- (rev_involutive (resolved cwd tp)), Hr, rev_app_distr. reflexivity. }
  pose proof (resolved_no_dotdot cwd tp) as Hnd. rewrite Hs in Hnd. inversion Hnd as [|? ? Hl _]; subst.
  unfold verify_default_root. rewrite (parse_plain nm Hp).
  destruct tp as [a T]. unfold join, dotdot_path. cbn [p_abs p_comps].
  unfold lexiclean. cbn [p_abs p_comps].
  rewrite <- (app_nil_r (rev (clean_run a [] ((T ++ [[46; 46]]) ++ [nm])))), resolved_reclean.
  cbn [clean_run fold_left]. rewrite !resolved_snoc, Hs. cbn [app clean_run fold_left].
  rewrite (clean_step_pop true tfile _ [46; 46] eq_refl Hl).
  destruct (plain_name_facts nm Hp) as (_ & _ & H3 & _).
  rewrite (clean_step_normal true _ _ H3). cbn [rev]. rewrite rev_involutive. reflexivity.
Qed.

(** ... so with the name not overridden (NAME = the resolved input's own file name) verify,
    given the torrent create wrote and no --content, looks exactly where create read *)
Theorem default_locations_inverse cwd ip nm D :
  env_resolve cwd ip = D ++ [nm] -> plain_name nm = true ->
  env_resolve cwd (verify_default_root (torrent_path ip nm) nm) = env_resolve cwd ip.
Proof.
  intros Hr Hp. rewrite Hr.
  apply (content_next_to_torrent cwd _ nm D (name_torrent nm)); [|exact Hp].
  exact (torrent_next_to_input cwd ip nm D nm Hr Hp).
Qed.

(** the components of a resolved path are plain names, so the hypothesis on NAME holds by
    itself when the name is derived *)
Lemma split_slash_nosep_all : forall s cur,
  Forall (fun c => forallb (fun b => negb (b =? 47)) c = true) (tl (split_slash s cur)) /\
  (forallb (fun b => negb (b =? 47)) (rev cur) = true ->
   forallb (fun b => negb (b =? 47)) (hd [] (split_slash s cur)) = true).
Proof.
  induction s as [|b r IH]; intros cur; cbn [split_slash].
  - split; [constructor|intros Hc; exact Hc].
  - destruct (b =? 47) eqn:Eb.
    + cbn [tl hd]. destruct (IH []) as [Ht Hh]. split; [|intros Hc; exact Hc].
      specialize (Hh eq_refl). destruct (split_slash r []) as [|x xs]; [constructor|].
      constructor; assumption.
    + destruct (IH (b :: cur)) as [Ht Hh]. split; [exact Ht|]. intros Hc. apply Hh.
      cbn [rev]. rewrite forallb_app, Hc. cbn. rewrite Eb. reflexivity.
Qed.

Lemma parse_path_comps_plain s :
  Forall (fun c => is_nil c = false /\ is_dot c = false /\ forallb (fun b => negb (b =? 47)) c = true)
         (p_comps (parse_path s)).
Proof.
  unfold parse_path. cbn [p_comps]. apply Forall_forall. intros c Hc. apply filter_In in Hc.
  destruct Hc as [Hin Hf]. apply andb_prop in Hf. destruct Hf as [H1 H2]. apply negb_true_iff in H1, H2.
  split; [exact H1|]. split; [exact H2|].
  destruct (split_slash_nosep_all s []) as [Ht Hh]. specialize (Hh eq_refl).
  destruct (split_slash s []) as [|x xs]; [contradiction|]. cbn [hd tl] in *.
  destruct Hin as [<-|Hin]; [exact Hh|]. rewrite Forall_forall in Ht. auto.
Qed.

Lemma clean_run_forall (P : list N -> Prop) : forall l st,
  Forall P st -> Forall P l -> Forall P (clean_run true st l).
Proof.
  induction l as [|c l IH]; intros st Hst Hl; [exact Hst|]. inversion Hl as [|? ? Hc Hl']; subst.
  cbn [clean_run fold_left]. apply IH; [|exact Hl'].
  unfold clean_step. destruct (is_dotdot c).
  - destruct st as [|x r]; [constructor|]. inversion Hst; subst. destruct (is_dotdot x); [constructor|]; assumption.
  - constructor; assumption.
Qed.

(** every component of a resolved path (working directory and input both given as text) is a
    plain name *)
Lemma resolved_plain cwd input :
  Forall (fun c => plain_name c = true) (env_resolve (p_comps (parse_path cwd)) (parse_path input)).
Proof.
  rewrite env_resolve_resolved. apply Forall_rev.
  pose proof (resolved_no_dotdot (p_comps (parse_path cwd)) (parse_path input)) as Hnd.
  assert (Hp : Forall (fun c => is_nil c = false /\ is_dot c = false /\ forallb (fun b => negb (b =? 47)) c = true)
                      (resolved (p_comps (parse_path cwd)) (parse_path input))).
  { unfold resolved. apply clean_run_forall; [constructor|].
    destruct (p_abs (parse_path input)); [apply parse_path_comps_plain|].
    apply Forall_app. split; apply parse_path_comps_plain. }
  rewrite Forall_forall in *. intros c Hc. destruct (Hp c Hc) as (H1 & H2 & H4).
  unfold plain_name. rewrite H1, H2, (Hnd c Hc), H4. reflexivity.
Qed.

(** the executable [default_locations] (what the correspondence run evaluates): whenever the
    input has a file name at all, the torrent goes next to the input as NAME.torrent and
    verify's default root is the resolved input itself *)
Theorem default_locations_spec cwd input nm tp root :
  default_locations cwd input = Some (nm, (tp, root)) ->
  root = env_resolve (p_comps (parse_path cwd)) (parse_path input) /\
  exists D, root = D ++ [nm] /\ tp = D ++ [name_torrent nm].
Proof.
  unfold default_locations. set (cw := p_comps (parse_path cwd)). set (ip := parse_path input).
  unfold file_name. destruct (rev (env_resolve cw ip)) as [|c r] eqn:Er; [discriminate|].
  intros E. inversion E; subst nm tp root. clear E.
  assert (Hr : env_resolve cw ip = rev r ++ [c]).
  { rewrite <- (rev_involutive (env_resolve cw ip)), Er. reflexivity. }
  assert (Hp : plain_name c = true).
  { pose proof (resolved_plain cwd input) as Hpl. fold cw ip in Hpl. rewrite Hr in Hpl.
    apply Forall_app in Hpl. destruct Hpl as [_ Hl]. inversion Hl; assumption. }
  split; [exact (default_locations_inverse cw ip c (rev r) Hr Hp)|].
  exists (rev r). split.
  - rewrite (default_locations_inverse cw ip c (rev r) Hr Hp). exact Hr.
  - exact (torrent_next_to_input cw ip c (rev r) c Hr Hp).
Qed.
