(** Proofs about Model/Completions.v (C19). *)
From Coq Require Import NArith List String Ascii Bool Lia ZifyN ZifyBool.
From Imdl Require Import Model.Completions Generated.GenShell.
Import ListNotations.
Import Cpl.
Local Open Scope N_scope.

(** ---- text equality, directory lookups *)

Lemma text_eqb_eq : forall a b, text_eqb a b = true <-> a = b.
Proof.
  induction a as [|x a IHa]; destruct b as [|y b]; cbn [text_eqb]; split; intros Hab;
    try reflexivity; try discriminate.
  - apply andb_true_iff in Hab. destruct Hab as [Hxy Hr].
    apply N.eqb_eq in Hxy. apply IHa in Hr. subst. reflexivity.
  - injection Hab as Hx Hr. subst. apply andb_true_iff. split; [apply N.eqb_refl | apply IHa; reflexivity].
Qed.

Lemma text_eqb_refl : forall a, text_eqb a a = true.
Proof. intros a. apply text_eqb_eq. reflexivity. Qed.

Lemma text_eqb_neq : forall a b, a <> b -> text_eqb a b = false.
Proof.
  intros a b Hne. destruct (text_eqb a b) eqn:E; [|reflexivity].
  apply text_eqb_eq in E. contradiction.
Qed.

Lemma lookup_write_same : forall n t d, lookup n (write_file n t d) = Some t.
Proof. intros n t d. unfold write_file. cbn [lookup]. rewrite text_eqb_refl. reflexivity. Qed.

Lemma lookup_write_other : forall n m t d, m <> n -> lookup m (write_file n t d) = lookup m d.
Proof. intros n m t d Hne. unfold write_file. cbn [lookup]. rewrite (text_eqb_neq _ _ Hne). reflexivity. Qed.

(** ---- the two tables of the model *)

Lemma byte_tables_agree : forall s,
  shell_arg s = bytes_of_string (shell_name s) /\ fname s = bytes_of_string (filename s).
Proof. intros s; destruct s; split; reflexivity. Qed.

Lemma fname_inj : forall s1 s2, fname s1 = fname s2 -> s1 = s2.
Proof. intros s1 s2; destruct s1, s2; vm_compute; intros H; first [reflexivity | discriminate H]. Qed.

Lemma parse_shell_arg : forall s, parse_shell (shell_arg s) = Some s.
Proof. intros s; destruct s; vm_compute; reflexivity. Qed.

Lemma parse_shell_some : forall n s, parse_shell n = Some s -> n = shell_arg s.
Proof.
  intros n s. unfold parse_shell, all_shells. cbn [parse_shell_in].
  repeat match goal with
         | |- context [text_eqb n (shell_arg ?x)] =>
             let E := fresh "E" in
             destruct (text_eqb n (shell_arg x)) eqn:E;
             [ apply text_eqb_eq in E; intros Hs; injection Hs as Hs; subst; reflexivity | ]
         end.
  intros Hs; discriminate Hs.
Qed.

Lemma shell_value_valid : forall v, shell_value v <> None <-> valid_value v.
Proof.
  intros [n|]; cbn [shell_value valid_value].
  - destruct (parse_shell n) as [s|] eqn:E.
    + split; [intros _; exists s; apply parse_shell_some; exact E | intros _ Hd; discriminate Hd].
    + split; [intros Hc; exfalso; apply Hc; reflexivity |].
      intros [s Hs] _. subst n. rewrite parse_shell_arg in E. discriminate E.
  - split; [intros _; exact I | intros _ Hd; discriminate Hd].
Qed.

Lemma shell_value_arg : forall s, shell_value (Some (shell_arg s)) = Some (Some s).
Proof. intros s. cbn [shell_value]. rewrite parse_shell_arg. reflexivity. Qed.

(** ---- what clap lets through *)

Lemma clap_parse_some : forall a f p d,
  clap_parse a = Some (f, p, d) ->
  shell_value (a_flag a) = Some f /\ shell_value (a_pos a) = Some p /\ d = a_dir a /\
  d <> Some [] /\ is_some f && is_some p = false /\ (is_some p || is_some d || is_some f) = true.
Proof.
  intros a f p d. unfold clap_parse.
  destruct (shell_value (a_flag a)) as [f'|]; [|intros Hd; discriminate Hd].
  destruct (shell_value (a_pos a)) as [p'|]; [|intros Hd; discriminate Hd].
  destruct (a_dir a) as [[|c path]|];
    try (intros Hd; discriminate Hd);
    destruct f' as [sf|], p' as [sp|]; cbn [is_some andb orb negb];
    intros Hd; try discriminate Hd; injection Hd as Hf Hp Hdd; subst;
    repeat split; try reflexivity; intros Hc; discriminate Hc.
Qed.

Definition usage (tgt : option dir) : outcome := {| o_status := UsageError; o_stdout := []; o_dir := tgt |}.

Lemma run_rejected : forall gen a tgt, clap_parse a = None -> run gen a tgt = usage tgt.
Proof. intros gen a tgt Hc. unfold run. rewrite Hc. reflexivity. Qed.

(** ---- stdout mode *)

Lemma one_shell_parse : forall a s d,
  one_shell a s -> a_dir a = d -> d <> Some [] ->
  (clap_parse a = Some (Some s, None, d) \/ clap_parse a = Some (None, Some s, d)).
Proof.
  intros a s d [[Hf Hp]|[Hf Hp]] Hd Hne; unfold clap_parse; rewrite Hf, Hp, Hd;
    rewrite shell_value_arg; cbn [shell_value];
    destruct d as [[|c path]|]; try (exfalso; apply Hne; reflexivity);
    cbn [is_some andb orb negb]; auto.
Qed.

Lemma stdout_mode : forall gen s a tgt,
  one_shell a s -> a_dir a = None ->
  run gen a tgt = {| o_status := Success; o_stdout := script gen s; o_dir := tgt |}.
Proof.
  intros gen s a tgt Hone Hd.
  destruct (one_shell_parse a s None Hone Hd) as [Hc|Hc]; try (intros Hx; discriminate Hx);
    unfold run; rewrite Hc; reflexivity.
Qed.

(** ---- directory mode, one shell *)

Lemma dir_mode_one_eq : forall gen s a path d,
  one_shell a s -> a_dir a = Some path -> path <> [] ->
  run gen a (Some d) =
  {| o_status := Success; o_stdout := []; o_dir := Some (write_file (fname s) (script gen s) d) |}.
Proof.
  intros gen s a path d Hone Hd Hne.
  assert (Hne' : Some path <> Some []) by (intros Hx; injection Hx as Hx; contradiction).
  destruct (one_shell_parse a s (Some path) Hone Hd Hne') as [Hc|Hc];
    unfold run; rewrite Hc; reflexivity.
Qed.

Lemma dir_mode_one : forall gen s a path d,
  one_shell a s -> a_dir a = Some path -> path <> [] ->
  let o := run gen a (Some d) in
  o_status o = Success /\ o_stdout o = [] /\
  exists d', o_dir o = Some d' /\
    lookup (fname s) d' = Some (script gen s) /\
    (forall m, m <> fname s -> lookup m d' = lookup m d).
Proof.
  intros gen s a path d Hone Hd Hne o. subst o. rewrite (dir_mode_one_eq gen s a path d Hone Hd Hne).
  cbn [o_status o_stdout o_dir]. repeat split.
  eexists. split; [reflexivity|]. split.
  - apply lookup_write_same.
  - intros m Hm. apply lookup_write_other. exact Hm.
Qed.

Lemma dir_and_stdout_same_text : forall gen s a1 a2 path d tgt,
  one_shell a1 s -> a_dir a1 = None ->
  one_shell a2 s -> a_dir a2 = Some path -> path <> [] ->
  o_stdout (run gen a1 tgt) <> [] /\
  exists d', o_dir (run gen a2 (Some d)) = Some d' /\
             lookup (fname s) d' = Some (o_stdout (run gen a1 tgt)).
Proof.
  intros gen s a1 a2 path d tgt H1 Hd1 H2 Hd2 Hne.
  rewrite (stdout_mode gen s a1 tgt H1 Hd1). cbn [o_stdout]. split.
  - unfold script. intros Hx. apply app_eq_nil in Hx. destruct Hx as [_ Hx]. discriminate Hx.
  - rewrite (dir_mode_one_eq gen s a2 path d H2 Hd2 Hne). cbn [o_dir].
    eexists. split; [reflexivity | apply lookup_write_same].
Qed.

(** ---- directory mode, no shell: all five *)

Definition write_five (gen : shell -> text) (d : dir) : dir :=
  write_file (fname Elvish) (script gen Elvish)
    (write_file (fname Powershell) (script gen Powershell)
      (write_file (fname Fish) (script gen Fish)
        (write_file (fname Bash) (script gen Bash)
          (write_file (fname Zsh) (script gen Zsh) d)))).

Lemma all_mode_eq : forall gen a path d,
  a_flag a = None -> a_pos a = None -> a_dir a = Some path -> path <> [] ->
  run gen a (Some d) = {| o_status := Success; o_stdout := []; o_dir := Some (write_five gen d) |}.
Proof.
  intros gen a path d Hf Hp Hd Hne. unfold run, clap_parse. rewrite Hf, Hp, Hd. cbn [shell_value].
  destruct path as [|c path]; [exfalso; apply Hne; reflexivity|]. reflexivity.
Qed.

Lemma lookup_write_five_same : forall gen d s, lookup (fname s) (write_five gen d) = Some (script gen s).
Proof.
  intros gen d s. unfold write_five.
  destruct s;
    repeat first [ rewrite lookup_write_same; reflexivity
                 | rewrite lookup_write_other by (intros Hx; apply fname_inj in Hx; discriminate Hx) ].
Qed.

Lemma lookup_write_five_other : forall gen d m, (forall s, m <> fname s) -> lookup m (write_five gen d) = lookup m d.
Proof.
  intros gen d m Hm. unfold write_five. rewrite !lookup_write_other by apply Hm. reflexivity.
Qed.

Lemma dir_without_shell_writes_all_five : forall gen a path d,
  a_flag a = None -> a_pos a = None -> a_dir a = Some path -> path <> [] ->
  let o := run gen a (Some d) in
  o_status o = Success /\ o_stdout o = [] /\
  exists d', o_dir o = Some d' /\
    (forall s, lookup (fname s) d' = Some (script gen s)) /\
    (forall m, (forall s, m <> fname s) -> lookup m d' = lookup m d).
Proof.
  intros gen a path d Hf Hp Hd Hne o. subst o. rewrite (all_mode_eq gen a path d Hf Hp Hd Hne).
  cbn [o_status o_stdout o_dir]. repeat split.
  eexists. split; [reflexivity|]. split.
  - apply lookup_write_five_same.
  - apply lookup_write_five_other.
Qed.

(** ---- usage errors *)

Lemma both_is_usage_error : forall gen a f p tgt,
  a_flag a = Some f -> a_pos a = Some p -> run gen a tgt = usage tgt.
Proof.
  intros gen a f p tgt Hf Hp. apply run_rejected. unfold clap_parse. rewrite Hf, Hp.
  cbn [shell_value]. destruct (parse_shell f); [|reflexivity]. destruct (parse_shell p); [|reflexivity].
  destruct (a_dir a) as [[|c path]|]; reflexivity.
Qed.

Lemma neither_is_usage_error : forall gen a tgt,
  a_flag a = None -> a_pos a = None -> a_dir a = None -> run gen a tgt = usage tgt.
Proof.
  intros gen a tgt Hf Hp Hd. apply run_rejected. unfold clap_parse. rewrite Hf, Hp, Hd. reflexivity.
Qed.

Lemma bad_value_is_usage_error : forall gen a tgt,
  ~ valid_value (a_flag a) \/ ~ valid_value (a_pos a) \/ a_dir a = Some [] -> run gen a tgt = usage tgt.
Proof.
  intros gen a tgt H. apply run_rejected. unfold clap_parse.
  destruct (shell_value (a_flag a)) as [f|] eqn:Ef.
  2: reflexivity.
  destruct (shell_value (a_pos a)) as [p|] eqn:Ep.
  2: reflexivity.
  destruct H as [H|[H|H]].
  - exfalso. apply H. apply shell_value_valid. rewrite Ef. intros Hd; discriminate Hd.
  - exfalso. apply H. apply shell_value_valid. rewrite Ep. intros Hd; discriminate Hd.
  - rewrite H. reflexivity.
Qed.

Lemma usage_error_iff : forall gen a tgt,
  o_status (run gen a tgt) = UsageError <->
  (~ valid_value (a_flag a) \/ ~ valid_value (a_pos a) \/ a_dir a = Some [] \/
   (is_some (a_flag a) && is_some (a_pos a) = true) \/
   (a_flag a = None /\ a_pos a = None /\ a_dir a = None)).
Proof.
  intros gen a tgt. split.
  - unfold run. destruct (clap_parse a) as [[[f p] d]|] eqn:Ec.
    + intros Hs. exfalso.
      destruct (clap_parse_some a f p d Ec) as (_ & _ & _ & _ & Hfp & Hreq).
      unfold run_body in Hs.
      destruct f as [sf|], p as [sp|], d as [path|], tgt as [dd|];
        cbn in Hs; try discriminate Hs; cbn in Hfp, Hreq; discriminate.
    + intros _. unfold clap_parse in Ec.
      destruct (shell_value (a_flag a)) as [f|] eqn:Ef.
      2:{ left. intros Hv. apply shell_value_valid in Hv. apply Hv. exact Ef. }
      destruct (shell_value (a_pos a)) as [p|] eqn:Ep.
      2:{ right; left. intros Hv. apply shell_value_valid in Hv. apply Hv. exact Ep. }
      destruct (a_dir a) as [[|c path]|] eqn:Ed.
      * right; right; left. reflexivity.
      * destruct (a_flag a) as [nf|], (a_pos a) as [np|]; cbn [is_some andb]; auto;
          cbn [shell_value] in Ef, Ep;
          repeat match goal with
                 | H : match parse_shell ?n with _ => _ end = Some _ |- _ => destruct (parse_shell n); [|discriminate H]
                 | H : Some _ = Some _ |- _ => injection H as H; subst
                 end; cbn in Ec; try discriminate Ec; auto 10.
      * destruct (a_flag a) as [nf|], (a_pos a) as [np|]; cbn [is_some andb]; auto 10;
          cbn [shell_value] in Ef, Ep;
          repeat match goal with
                 | H : match parse_shell ?n with _ => _ end = Some _ |- _ => destruct (parse_shell n); [|discriminate H]
                 | H : Some _ = Some _ |- _ => injection H as H; subst
                 end; cbn in Ec; try discriminate Ec; auto 10.
  - intros H. destruct H as [H|[H|[H|[H|H]]]].
    + rewrite bad_value_is_usage_error by auto. reflexivity.
    + rewrite bad_value_is_usage_error by auto. reflexivity.
    + rewrite bad_value_is_usage_error by auto. reflexivity.
    + destruct (a_flag a) as [f|] eqn:Ef; [|discriminate H].
      destruct (a_pos a) as [p|] eqn:Ep; [|discriminate H].
      rewrite (both_is_usage_error gen a f p tgt Ef Ep). reflexivity.
    + destruct H as (Hf & Hp & Hd). rewrite (neither_is_usage_error gen a tgt Hf Hp Hd). reflexivity.
Qed.

(** a usage error has no effect at all *)
Lemma usage_error_no_effect : forall gen a tgt,
  o_status (run gen a tgt) = UsageError -> run gen a tgt = usage tgt.
Proof.
  intros gen a tgt. unfold run. destruct (clap_parse a) as [[[f p] d]|] eqn:Ec; [|reflexivity].
  intros Hs. exfalso.
  destruct (clap_parse_some a f p d Ec) as (_ & _ & _ & _ & Hfp & Hreq).
  unfold run_body in Hs.
  destruct f as [sf|], p as [sp|], d as [path|], tgt as [dd|];
    cbn in Hs; try discriminate Hs; cbn in Hfp, Hreq; discriminate.
Qed.

(** clap's validation screens both `Error::internal` branches of Completions::run *)
Lemma no_internal_error : forall gen a tgt, o_status (run gen a tgt) <> InternalError.
Proof.
  intros gen a tgt. unfold run. destruct (clap_parse a) as [[[f p] d]|] eqn:Ec.
  2:{ cbn [o_status]. intros Hd; discriminate Hd. }
  destruct (clap_parse_some a f p d Ec) as (_ & _ & _ & _ & Hfp & Hreq).
  unfold run_body.
  destruct f as [sf|], p as [sp|], d as [path|], tgt as [dd|];
    cbn; try (intros Hd; discriminate Hd); cbn in Hfp, Hreq; discriminate.
Qed.

(** a missing directory: I/O error, nothing printed, nothing created; and only then *)
Lemma io_error_iff : forall gen a tgt,
  o_status (run gen a tgt) = IoError ->
  tgt = None /\ is_some (a_dir a) = true /\ run gen a tgt = {| o_status := IoError; o_stdout := []; o_dir := None |}.
Proof.
  intros gen a tgt. unfold run. destruct (clap_parse a) as [[[f p] d]|] eqn:Ec.
  2:{ cbn [o_status]. intros Hd; discriminate Hd. }
  destruct (clap_parse_some a f p d Ec) as (_ & _ & Hd & _ & _ & _). subst d.
  unfold run_body.
  destruct f as [sf|], p as [sp|], (a_dir a) as [path|], tgt as [dd|];
    cbn; intros Hs; try discriminate Hs; repeat split.
Qed.

Lemma missing_dir_is_io_error : forall gen a path,
  valid_value (a_flag a) -> valid_value (a_pos a) -> is_some (a_flag a) && is_some (a_pos a) = false ->
  a_dir a = Some path -> path <> [] ->
  run gen a None = {| o_status := IoError; o_stdout := []; o_dir := None |}.
Proof.
  intros gen a path Hvf Hvp Hx Hd Hne. unfold run, clap_parse. rewrite Hd.
  destruct (a_flag a) as [nf|], (a_pos a) as [np|]; cbn [is_some andb] in Hx; try discriminate Hx;
    cbn [valid_value] in Hvf, Hvp;
    repeat match goal with H : exists s, _ = shell_arg s |- _ => destruct H as [? H]; subst end;
    rewrite ?shell_value_arg; cbn [shell_value];
    (destruct path as [|c path]; [exfalso; apply Hne; reflexivity|]); reflexivity.
Qed.

(** ---- nothing else: whatever the arguments, stdout is empty or a script, and every file of the
    directory is either untouched or a documented name holding that shell's script *)

Lemma fname_dec : forall m, (exists s, m = fname s) \/ (forall s, m <> fname s).
Proof.
  intros m.
  destruct (text_eqb m (fname Zsh)) eqn:E1; [left; exists Zsh; apply text_eqb_eq; exact E1|].
  destruct (text_eqb m (fname Bash)) eqn:E2; [left; exists Bash; apply text_eqb_eq; exact E2|].
  destruct (text_eqb m (fname Fish)) eqn:E3; [left; exists Fish; apply text_eqb_eq; exact E3|].
  destruct (text_eqb m (fname Powershell)) eqn:E4; [left; exists Powershell; apply text_eqb_eq; exact E4|].
  destruct (text_eqb m (fname Elvish)) eqn:E5; [left; exists Elvish; apply text_eqb_eq; exact E5|].
  right. intros s Hx. subst m. destruct s; rewrite text_eqb_refl in *; discriminate.
Qed.

Definition untouched_or_script (gen : shell -> text) (d d' : dir) : Prop :=
  forall m, lookup m d' = lookup m d \/ exists s, m = fname s /\ lookup m d' = Some (script gen s).

Lemma uos_refl : forall gen d, untouched_or_script gen d d.
Proof. intros gen d m. left. reflexivity. Qed.

Lemma uos_write_one : forall gen d s, untouched_or_script gen d (write_file (fname s) (script gen s) d).
Proof.
  intros gen d s m. destruct (text_eqb m (fname s)) eqn:E.
  - apply text_eqb_eq in E. subst m. right. exists s. split; [reflexivity | apply lookup_write_same].
  - left. apply lookup_write_other. intros Hx. subst m. rewrite text_eqb_refl in E. discriminate E.
Qed.

Lemma uos_write_five : forall gen d, untouched_or_script gen d (write_five gen d).
Proof.
  intros gen d m. destruct (fname_dec m) as [[s Hs]|Hno].
  - subst m. right. exists s. split; [reflexivity | apply lookup_write_five_same].
  - left. apply lookup_write_five_other. exact Hno.
Qed.

Lemma nothing_else : forall gen a tgt,
  let o := run gen a tgt in
  (o_stdout o = [] \/ exists s, o_stdout o = script gen s) /\
  match tgt, o_dir o with
  | Some d, Some d' => untouched_or_script gen d d'
  | None, None => True
  | _, _ => False
  end.
Proof.
  intros gen a tgt o. subst o. unfold run.
  destruct (clap_parse a) as [[[f p] d]|] eqn:Ec.
  2:{ cbn [o_stdout o_dir]. split; [left; reflexivity|]. destruct tgt as [dd|]; [apply uos_refl | exact I]. }
  unfold run_body.
  destruct f as [sf|], p as [sp|], d as [path|], tgt as [dd|]; cbn;
    (split; [first [left; reflexivity | right; eexists; reflexivity] | ]);
    first [ exact I | apply uos_refl | apply uos_write_one | apply uos_write_five ].
Qed.

(** ---- shape of every script: a body without white space at either end, then one LF *)

Lemma drop_ws_idem : forall t, drop_ws (drop_ws t) = drop_ws t.
Proof.
  induction t as [|b r IH]; [reflexivity|]. cbn [drop_ws]. destruct (is_ws b) eqn:E; [exact IH|].
  cbn [drop_ws]. rewrite E. reflexivity.
Qed.

Lemma drop_ws_snoc : forall l c, is_ws c = false -> exists w, drop_ws (l ++ [c]) = w ++ [c].
Proof.
  induction l as [|b r IH]; intros c Hc.
  - exists []. cbn [app drop_ws]. rewrite Hc. reflexivity.
  - cbn [app drop_ws]. destruct (is_ws b); [apply IH; exact Hc|]. exists (b :: r). reflexivity.
Qed.

Lemma trim_no_ws_ends : forall t, drop_ws (trim t) = trim t /\ drop_ws (rev (trim t)) = rev (trim t).
Proof.
  intros t. unfold trim. split.
  - destruct (drop_ws t) as [|c u] eqn:Eu; [reflexivity|].
    assert (Hc : is_ws c = false).
    { destruct (is_ws c) eqn:E; [|reflexivity]. exfalso.
      assert (Hi := drop_ws_idem t). rewrite Eu in Hi. cbn [drop_ws] in Hi. rewrite E in Hi.
      (* drop_ws u = c :: u is impossible: drop_ws never lengthens *)
      assert (Hlen : forall x, (List.length (drop_ws x) <= List.length x)%nat).
      { induction x as [|y x IHx]; [apply le_n|]. cbn [drop_ws]. destruct (is_ws y); cbn [List.length]; lia. }
      specialize (Hlen u). rewrite Hi in Hlen. cbn [List.length] in Hlen. lia. }
    cbn [rev]. destruct (drop_ws_snoc (rev u) c Hc) as [w Hw]. rewrite Hw.
    rewrite rev_app_distr. cbn [rev app drop_ws]. rewrite Hc. reflexivity.
  - rewrite rev_involutive. apply drop_ws_idem.
Qed.

Lemma script_shape : forall gen s,
  script gen s <> [] /\
  exists body, script gen s = body ++ [10] /\ drop_ws body = body /\ drop_ws (rev body) = rev body.
Proof.
  intros gen s. unfold script. split.
  - intros Hx. apply app_eq_nil in Hx. destruct Hx as [_ Hx]. discriminate Hx.
  - exists (trim (gen s)). split; [reflexivity | apply trim_no_ws_ends].
Qed.

(** ---- names survive the post-processing *)

Lemma infix_drop_ws : forall n t, nonws_ends n = true -> infix n t -> infix n (drop_ws t).
Proof.
  intros n t Hn [pre [post Ht]]. subst t.
  destruct n as [|c n']; [discriminate Hn|].
  cbn [nonws_ends] in Hn. apply andb_true_iff in Hn. destruct Hn as [Hc _].
  apply negb_true_iff in Hc.
  induction pre as [|b pre IH].
  - exists [], post. cbn [app drop_ws]. rewrite Hc. reflexivity.
  - cbn [app drop_ws]. destruct (is_ws b); [exact IH|]. exists (b :: pre), post. reflexivity.
Qed.

Lemma infix_rev : forall n t, infix n t -> infix (rev n) (rev t).
Proof.
  intros n t [pre [post Ht]]. subst t. exists (rev post), (rev pre).
  rewrite !rev_app_distr. rewrite app_assoc. reflexivity.
Qed.

Lemma last_rev_cons : forall (c : N) l d, last (rev (c :: l)) d = c.
Proof. intros c l d. cbn [rev]. apply last_last. Qed.

Lemma nonws_ends_rev : forall n, nonws_ends n = true -> nonws_ends (rev n) = true.
Proof.
  intros n Hn. destruct n as [|c n']; [discriminate Hn|].
  cbn [nonws_ends] in Hn. apply andb_true_iff in Hn. destruct Hn as [Hc Hl].
  destruct (rev (c :: n')) as [|x r] eqn:Er.
  - apply (f_equal (@List.length N)) in Er. rewrite rev_length in Er. discriminate Er.
  - cbn [nonws_ends]. apply andb_true_iff. split.
    + (* x = hd of rev = last of the original *)
      assert (Hx : last (c :: n') 32 = x).
      { rewrite <- (rev_involutive (c :: n')). rewrite Er. apply last_rev_cons. }
      rewrite <- Hx. exact Hl.
    + rewrite <- Er. rewrite last_rev_cons. exact Hc.
Qed.

Lemma infix_trim : forall n t, nonws_ends n = true -> infix n t -> infix n (trim t).
Proof.
  intros n t Hn Hi. unfold trim.
  rewrite <- (rev_involutive n). apply infix_rev.
  apply infix_drop_ws; [apply nonws_ends_rev; exact Hn|].
  apply infix_rev. apply infix_drop_ws; assumption.
Qed.

Lemma infix_app_l : forall n t u, infix n t -> infix n (t ++ u).
Proof.
  intros n t u [pre [post Ht]]. subst t. exists pre, (post ++ u). rewrite <- !app_assoc. reflexivity.
Qed.

Lemma name_char_not_ws : forall b, name_char b = true -> is_ws b = false.
Proof. intros b. unfold name_char, is_ws. lia. Qed.

Lemma last_in : forall (l : list N) d, l <> [] -> In (last l d) l.
Proof.
  induction l as [|x l IH]; intros d Hne; [contradiction|].
  destruct l as [|y l']; [left; reflexivity|]. right. apply (IH d). intros Hx; discriminate Hx.
Qed.

Lemma name_ok_nonws_ends : forall n, name_ok n = true -> nonws_ends n = true.
Proof.
  intros n Hn. destruct n as [|c n']; [discriminate Hn|].
  unfold name_ok in Hn. rewrite forallb_forall in Hn.
  cbn [nonws_ends]. apply andb_true_iff. split; apply negb_true_iff; apply name_char_not_ws; apply Hn.
  - left; reflexivity.
  - apply last_in. intros Hx; discriminate Hx.
Qed.

(** if clap's generator names every element of [names] for every shell, so does every script *)
Lemma scripts_name : forall gen names,
  forallb name_ok names = true ->
  (forall s n, In n names -> infix n (gen s)) ->
  forall s n, In n names -> infix n (script gen s).
Proof.
  intros gen names Hok Hgen s n Hin. unfold script. apply infix_app_l. apply infix_trim.
  - apply name_ok_nonws_ends. rewrite forallb_forall in Hok. apply Hok. exact Hin.
  - apply Hgen. exact Hin.
Qed.

Lemma infix_concat_in : forall n (l : list text), In n l -> infix n (List.concat l).
Proof.
  intros n l. induction l as [|x l IH]; intros Hin; [contradiction|].
  cbn [List.concat]. destruct Hin as [Hx|Hin].
  - subst x. exists [], (List.concat l). reflexivity.
  - destruct (IH Hin) as [pre [post Hc]]. exists (x ++ pre), post. rewrite Hc. rewrite <- app_assoc. reflexivity.
Qed.

(** ---- the names of the current command-line interface, from the regenerated tree *)
Definition cli_names : list text := map bytes_of_string (List.concat GenShell.cli_subcommands).
