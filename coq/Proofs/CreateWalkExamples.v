(** Concrete instances for the whole create pipeline (X7): every hypothesis of the composed
    theorems is satisfiable and the outcomes are not vacuous.

    /w/in = { .h = "HID" (hidden), Thumbs.db = "JNK" (junk), skip.log = "LOG" (excluded by
              `--glob '!skip.log'`), b = "fghijk", d/a = "abcde" }
    Default flags, piece length 4: the walker selects b and d/a, in that order. The stand-in
    hash is the identity (collision free); globs are [Walk.table_match] tables as in C06. *)
From Coq Require Import NArith List Bool String Sorting.Permutation.
From Imdl Require Import Base.Chunks Model.Bencode Model.Fs Model.Verify Model.CreateVerify Model.CreateWalk
     Proofs.VerifyProofs Proofs.CreateVerifyProofs Proofs.CreateVerifyExamples Proofs.CreateWalkProofs.
From Imdl Require Model.Walk Proofs.WalkProofs Model.Hasher Model.Metainfo Model.EndToEnd Proofs.EndToEndProofs
     Proofs.MetainfoProofs.
Import ListNotations.
Local Open Scope N_scope.

Definition nm := Walk.name_of_string.
Definition bs := Walk.name_of_string.

Definition w_dir (hid jnk log b_bytes a_bytes : node) : node :=
  Dir [ (nm ".h", hid); (nm "Thumbs.db", jnk); (nm "skip.log", log); (nm "b", b_bytes);
        (nm "d", Dir [(nm "a", a_bytes)]) ].

Definition w_src : node :=
  w_dir (File (bs "HID")) (File (bs "JNK")) (File (bs "LOG")) (File (bs "fghijk")) (File (bs "abcde")).
(** the same directory enumerated in another order *)
Definition w_src_shuffled : node := match w_src with Dir ch => Dir (rev ch) | n => n end.

Definition w_fs : node := fs_of w_src.
(** every excluded file edited: the hidden one rewritten, the junk one replaced by a directory,
    the glob-excluded one deleted, an unrelated file added *)
Definition w_fs_excluded_edited : node :=
  fs_of (Dir [ (nm ".h", File (bs "other")); (nm "Thumbs.db", Dir []); (nm "b", File (bs "fghijk"));
               (nm "d", Dir [(nm "a", File (bs "abcde")); (nm "new", File [1])]) ]).
(** one included file edited: last byte of d/a, inside the last, partial piece *)
Definition w_fs_included_edited : node :=
  fs_of (w_dir (File (bs "HID")) (File (bs "JNK")) (File (bs "LOG")) (File (bs "fghijk")) (File (bs "abcdX"))).

(** default flags, `--glob '!skip.log'` *)
Definition w_cfg : Walk.cfg gtable := Walk.Build_cfg false false false [(false, [[nm "skip.log"]])] [].
(** the same with `--sort-by size` (ascending): d/a (5 bytes) now precedes b (6 bytes) *)
Definition w_cfg_size : Walk.cfg gtable :=
  Walk.Build_cfg false false false [(false, [[nm "skip.log"]])] [(Walk.KSize, Walk.Ascending)].
(** every flag on, no glob: all five files *)
Definition w_cfg_all : Walk.cfg gtable := Walk.Build_cfg true true true [] [].

(** names for the statements (Properties/C02.v has no string literals) *)
Definition p_b : list (list N) := [nm "b"].
Definition p_da : list (list N) := [nm "d"; nm "a"].
Definition p_hidden : list (list N) := [nm ".h"].
Definition p_junk : list (list N) := [nm "Thumbs.db"].
Definition p_log : list (list N) := [nm "skip.log"].
Definition c_b : list N := bs "fghijk".
Definition c_da : list N := bs "abcde".
Definition c_hid : list N := bs "HID".
Definition c_junk : list N := bs "JNK".
Definition c_log : list N := bs "LOG".
Definition w_sel : list (list (list N)) := [p_b; p_da].
Definition w_pieces : list (list N) := [bs "fghi"; bs "jkab"; bs "cde"].
Definition w_sel_size : list (list (list N)) := [p_da; p_b].
Definition w_pieces_size : list (list N) := [bs "abcd"; bs "efgh"; bs "ijk"].
Definition w_sel_all : list (list (list N)) := [p_hidden; p_junk; p_b; p_da; p_log].
Definition w_single : node := File c_da.
Definition w_single_pieces : list (list N) := [bs "abcd"; bs "e"].
Definition w_dup : node := Dir [(nm "a", File (bs "one")); (nm "a", File (bs "two"))].
Definition w_dup_pieces : list (list N) := [bs "oneo"; bs "ne"].
Definition w_dotdot : node := Dir [([46; 46], File (bs "x"))].

Definition w_create (c : Walk.cfg gtable) (src : node) : option torrent :=
  create_walk gtable Walk.table_match idh idh c true 4 IN csch0 src.

Ltac nodup_names :=
  repeat (constructor; [cbn; intuition discriminate|]); constructor.

Lemma w_src_wf : wf_node w_src.
Proof.
  constructor; [cbn; nodup_names|repeat constructor|].
  repeat (constructor; [cbn [snd]; try apply wf_file|]); [|constructor].
  constructor; [cbn; nodup_names|repeat constructor|repeat constructor].
Qed.

Lemma w_src_utf8 : utf8_node w_src.
Proof. repeat constructor. Qed.

Lemma w_src_perm : node_perm w_src w_src_shuffled.
Proof. constructor. apply children_perm_of_Permutation, Permutation_rev. Qed.

(** hypotheses of create_walk_then_verify / create_walk_end_to_end *)
Example ex_walk_hyps :
  resolve w_fs root0 = Some w_src /\ wf_node w_src /\ utf8_node w_src /\ utf8_ok IN = true.
Proof. split; [vm_compute; reflexivity|]. split; [exact w_src_wf|]. split; [exact w_src_utf8|reflexivity]. Qed.

(** what the walker selects and what is written: b then d/a; the pieces of "fghijk" ++ "abcde" *)
Example ex_walk_created :
  selection gtable Walk.table_match w_cfg w_src = Some w_sel /\
  exists t, w_create w_cfg w_src = Some t /\
            paths_of t = w_sel /\
            tpieces t = w_pieces.
Proof. split; [vm_compute; reflexivity|]. eexists. split; [vm_compute; reflexivity|]. split; reflexivity. Qed.

(** [walker_selects] on the example: the two included files are selected, the hidden, the junk
    and the glob-excluded one are not *)
Example ex_walker_selects :
  walker_selects gtable Walk.table_match w_cfg w_src p_b c_b /\
  walker_selects gtable Walk.table_match w_cfg w_src p_da c_da /\
  ~ walker_selects gtable Walk.table_match w_cfg w_src p_hidden c_hid /\
  ~ walker_selects gtable Walk.table_match w_cfg w_src p_junk c_junk /\
  ~ walker_selects gtable Walk.table_match w_cfg w_src p_log c_log.
Proof.
  repeat split; try (vm_compute; reflexivity); intros [_ Hs]; vm_compute in Hs; discriminate Hs.
Qed.

(** user sort keys decide WHICH torrent results: with `--sort-by size` d/a comes first *)
Example ex_walk_sorted_by_size :
  exists t, w_create w_cfg_size w_src = Some t /\
            paths_of t = w_sel_size /\
            tpieces t = w_pieces_size.
Proof. eexists. split; [vm_compute; reflexivity|]. split; reflexivity. Qed.

(** all flags on: every file, through the same composition *)
Example ex_walk_all_flags :
  exists t, w_create w_cfg_all w_src = Some t /\
            paths_of t = w_sel_all.
Proof. eexists. split; [vm_compute; reflexivity|]. reflexivity. Qed.

Definition w_verdict (c : Walk.cfg gtable) (fs : node) : option (option bool) :=
  match w_create c w_src with Some t => Some (verify idh idh vsch0 fs root0 t) | None => None end.

(** created, verified; every excluded file edited: still verified; one included file edited: failed.
    With all flags on the first edit does matter. *)
Example ex_walk_verdicts :
  w_verdict w_cfg w_fs = Some (Some true) /\
  w_verdict w_cfg w_fs_excluded_edited = Some (Some true) /\
  w_verdict w_cfg w_fs_included_edited = Some (Some false) /\
  w_verdict w_cfg_all w_fs_excluded_edited = Some (Some false).
Proof. repeat split; vm_compute; reflexivity. Qed.

(** the hypothesis of create_walk_excluded_edits_irrelevant is satisfiable by a filesystem that
    differs, and the one of create_walk_included_edit_fails by one that differs in a selected file *)
Example ex_selected_hold :
  selected_hold gtable Walk.table_match w_cfg w_src w_fs_excluded_edited root0 /\
  w_fs_excluded_edited <> w_fs /\
  ~ selected_hold gtable Walk.table_match w_cfg w_src w_fs_included_edited root0.
Proof.
  destruct (w_create w_cfg w_src) as [t|] eqn:Et; [|vm_compute in Et; discriminate Et].
  destruct (create_walk_tracks_content gtable Walk.table_match idh idh w_cfg true 4 IN csch0 vsch0 w_src t root0 w_src_wf Et)
    as (c0 & _ & Htr).
  assert (Hcf : forall old new, collision_free idh 4 old new) by (intros old new a b _ _ E; exact E).
  split; [|split].
  - apply (Htr _ (Hcf _ _)). vm_compute in Et. inversion Et; subst t. vm_compute. reflexivity.
  - intros E. discriminate E.
  - intros Hh. apply (Htr _ (Hcf _ _)) in Hh. vm_compute in Et. inversion Et; subst t. vm_compute in Hh. discriminate Hh.
Qed.

(** enumeration order: a different tree, the same torrent *)
Example ex_walk_order :
  wf_node w_src /\ node_perm w_src w_src_shuffled /\ w_src <> w_src_shuffled /\
  w_create w_cfg w_src = w_create w_cfg w_src_shuffled /\ w_create w_cfg w_src <> None.
Proof.
  split; [exact w_src_wf|]. split; [exact w_src_perm|]. split; [intros E; discriminate E|].
  split; [vm_compute; reflexivity|vm_compute; discriminate].
Qed.

(** end to end with digests of the right shape and C05's example command line: the hypotheses of
    create_walk_end_to_end hold, the written bytes load back, verify succeeds / ignores the
    excluded files / fails on the included one *)
Definition we_t : option torrent :=
  create_walk gtable Walk.table_match EndToEndProofs.ex_H EndToEndProofs.ex_MD5 w_cfg true 4 IN csch0 w_src.

Definition we_bytes : option (list N) :=
  match we_t with
  | Some t => create_walk_bytes gtable Walk.table_match EndToEndProofs.ex_H EndToEndProofs.ex_MD5 idh idh []
                (EndToEnd.opts_of MetainfoProofs.ex_opts true t) w_cfg true 4 IN csch0 w_src
  | None => None
  end.

Example ex_walk_e2e :
  Metainfo.opts_ok MetainfoProofs.ex_opts = true /\
  match we_t, we_bytes with
  | Some t, Some tb =>
      Metainfo.input_ok (EndToEnd.input_of t) = true /\
      EndToEnd.agrees (EndToEnd.opts_of MetainfoProofs.ex_opts true t) true t /\
      load tb = Some t /\
      EndToEnd.verify_bytes EndToEndProofs.ex_H EndToEndProofs.ex_MD5 vsch0 w_fs root0 tb = Some true /\
      EndToEnd.verify_bytes EndToEndProofs.ex_H EndToEndProofs.ex_MD5 vsch0 w_fs_excluded_edited root0 tb = Some true /\
      EndToEnd.verify_bytes EndToEndProofs.ex_H EndToEndProofs.ex_MD5 vsch0 w_fs_included_edited root0 tb = Some false
  | _, _ => False
  end.
Proof. split; [reflexivity|]. vm_compute. repeat split. Qed.

(** a regular file as the input: nothing to select, the hasher is given the file itself *)
Example ex_walk_single :
  selection gtable Walk.table_match w_cfg w_single = Some [] /\
  exists t, w_create w_cfg w_single = Some t /\ paths_of t = [[]] /\ tpieces t = w_single_pieces.
Proof. split; [reflexivity|]. eexists. split; [vm_compute; reflexivity|]. split; reflexivity. Qed.

(** [wf_node] is needed: with two entries of one name (no filesystem shows that) the walker
    lists the path twice while the lookup finds the first only; the composed model then hashes
    the first file twice and what it lists is not what [walker_selects] describes *)
Example ex_needs_distinct_names :
  ~ wf_node w_dup /\
  exists t, w_create w_cfg_all w_dup = Some t /\ paths_of t = [[[97]]; [[97]]] /\
            tpieces t = w_dup_pieces.
Proof.
  split.
  - intros W. inversion W as [|? Hnd Hpl Hwf]; subst. cbn in Hnd. inversion Hnd as [|? ? Hx Hr]; subst. apply Hx. left. reflexivity.
  - eexists. split; [vm_compute; reflexivity|]. split; reflexivity.
Qed.

(** ... and so are plain names: an entry called `..` (no filesystem shows that) would be looked up
    by the verifier outside the input *)
Example ex_needs_plain_names :
  ~ wf_node w_dotdot /\
  match w_create w_cfg_all w_dotdot with
  | Some t => verify idh idh vsch0 (fs_of w_dotdot) root0 t = Some false
  | None => False
  end.
Proof.
  split.
  - intros W. inversion W as [|? Hnd Hpl Hwf]; subst. inversion Hpl as [|? ? Hx Hr]; subst. vm_compute in Hx. discriminate Hx.
  - vm_compute. reflexivity.
Qed.
