(** Proofs about Model/Peer.v (C11): big-endian integers, framing, totality of the reader,
    authenticity for every classifier and every item sequence, absence of the slice panic
    ([reencode_le]), completeness for the honest peer of BEP 3/9/10, and the behaviour on
    dictionaries that the typed round trip changes. *)
From Coq Require Import Decimal DecimalN DecimalFacts.
From Coq Require Import NArith ZArith Lia Bool List Arith ZifyN ZifyBool ZifyNat.
From Imdl Require Import Model.Bencode Proofs.BencodeProofs Model.Peer.
Import ListNotations.
Local Open Scope N_scope.

(* ================= bytes ================= *)
Lemma bytes_eqb_eq a : forall b, bytes_eqb a b = true <-> a = b.
Proof.
  induction a as [|x a IH]; intros [|y b]; cbn [bytes_eqb]; split; intros E; try discriminate; try reflexivity.
  - apply andb_prop in E. destruct E as [E1 E2]. apply N.eqb_eq in E1. apply IH in E2. subst. reflexivity.
  - inversion E; subst. rewrite N.eqb_refl. cbn [andb]. apply IH. reflexivity.
Qed.

Lemma bytes_eqb_refl a : bytes_eqb a a = true.
Proof. apply bytes_eqb_eq. reflexivity. Qed.

Lemma le_length w : forall n, length (le w n) = w.
Proof. induction w as [|w IH]; intros n; cbn [le length]; [reflexivity|]. rewrite IH. reflexivity. Qed.

Lemma be_length w n : length (be w n) = w.
Proof. unfold be. rewrite rev_length. apply le_length. Qed.

Lemma unle_le w : forall n, n < 256 ^ N.of_nat w -> unle (le w n) = n.
Proof.
  induction w as [|w IH]; intros n Hn.
  - cbn in *. lia.
  - cbn [le unle]. rewrite Nat2N.inj_succ, N.pow_succ_r' in Hn.
    rewrite IH by (apply N.div_lt_upper_bound; lia).
    pose proof (N.div_mod n 256 ltac:(lia)) as E. lia.
Qed.

Theorem unbe_be w n : n < 256 ^ N.of_nat w -> unbe (be w n) = n.
Proof. intros Hn. unfold unbe, be. rewrite rev_involutive. apply unle_le. exact Hn. Qed.

Lemma firstn_app_len {A} (a b : list A) n : length a = n -> firstn n (a ++ b) = a.
Proof. intros <-. rewrite firstn_app, Nat.sub_diag, firstn_O, app_nil_r, firstn_all. reflexivity. Qed.
Lemma skipn_app_len {A} (a b : list A) n : length a = n -> skipn n (a ++ b) = b.
Proof. intros <-. rewrite skipn_app, Nat.sub_diag, skipn_O, skipn_all. reflexivity. Qed.

(* ================= framing ================= *)
Lemma parse_frames_mono f : forall s l, parse_frames f s = Some l -> forall g, (f <= g)%nat -> parse_frames g s = Some l.
Proof.
  induction f as [|f IH]; intros s l Hp g Hg; [discriminate|].
  destruct g as [|g]; [lia|]. cbn [parse_frames] in *.
  destruct (Nat.ltb (length s) 4); [exact Hp|].
  destruct (unbe (firstn 4 s) =? 0).
  - destruct (parse_frames f (skipn 4 s)) as [l'|] eqn:E; [|discriminate].
    rewrite (IH _ _ E g) by lia. exact Hp.
  - destruct (skipn 4 s) as [|fl r1]; [exact Hp|].
    match type of Hp with context [parse_frames f ?x] => destruct (parse_frames f x) as [l'|] eqn:E; [|discriminate] end.
    rewrite (IH _ _ E g) by lia. exact Hp.
Qed.

Lemma parse_frames_fuel f : forall s, (length s < f)%nat -> exists l, parse_frames f s = Some l.
Proof.
  induction f as [|f IH]; intros s Hs; [lia|]. cbn [parse_frames].
  destruct (Nat.ltb (length s) 4) eqn:E4; [eexists; reflexivity|]. apply Nat.ltb_ge in E4.
  assert (Hsk : (length (skipn 4 s) = length s - 4)%nat) by apply skipn_length.
  destruct (unbe (firstn 4 s) =? 0).
  - destruct (IH (skipn 4 s)) as [l El]; [lia|]. rewrite El. eexists; reflexivity.
  - destruct (skipn 4 s) as [|fl r1] eqn:Er; [eexists; reflexivity|].
    match goal with |- context [parse_frames f ?x] => destruct (IH x) as [l El] end.
    { rewrite skipn_length. cbn [length] in Hsk. lia. }
    rewrite El. eexists; reflexivity.
Qed.

Theorem parse_all_total s : exists l, parse_all s = Some l.
Proof. apply parse_frames_fuel. lia. Qed.

Lemma frame_length_ge it : (4 <= length (frame it))%nat.
Proof. destruct it as [|fl p]; cbn [frame]; rewrite ?app_length, be_length; lia. Qed.

Lemma framing_app items :
  Forall ok_item items ->
  forall fuel tail l, parse_frames fuel tail = Some l ->
  parse_frames (length items + fuel) (concat (map frame items) ++ tail) = Some (items ++ l).
Proof.
  induction 1 as [|it items Hit Hall IH]; intros fuel tail l Htail; [exact Htail|].
  cbn [length Nat.add map concat parse_frames]. rewrite <- app_assoc.
  set (rest := concat (map frame items) ++ tail).
  assert (Hlen4 : forall n, length (be 4 n) = 4%nat) by (intros; apply be_length).
  destruct it as [|fl p]; cbn [frame].
  - replace (Nat.ltb (length (be 4 0 ++ rest)) 4) with false
      by (symmetry; apply Nat.ltb_ge; rewrite app_length, Hlen4; lia).
    rewrite (firstn_app_len _ _ 4%nat (Hlen4 0)), (skipn_app_len _ _ 4%nat (Hlen4 0)).
    rewrite unbe_be by (cbn; lia). rewrite N.eqb_refl.
    unfold rest. rewrite (IH fuel tail l Htail). reflexivity.
  - cbn [ok_item] in Hit. set (L := 1 + N.of_nat (length p)) in *.
    rewrite <- app_assoc.
    replace (Nat.ltb (length (be 4 L ++ (fl :: p) ++ rest)) 4) with false
      by (symmetry; apply Nat.ltb_ge; rewrite app_length, Hlen4; lia).
    rewrite (firstn_app_len _ _ 4%nat (Hlen4 L)), (skipn_app_len _ _ 4%nat (Hlen4 L)).
    rewrite unbe_be by (change (256 ^ N.of_nat 4) with (2 ^ 32); exact Hit).
    replace (L =? 0) with false by (symmetry; apply N.eqb_neq; unfold L; lia).
    cbn [app].
    replace (N.to_nat (N.min (L - 1) (N.of_nat (length (p ++ rest))))) with (length p)
      by (rewrite app_length; unfold L; lia).
    rewrite (firstn_app_len _ _ _ eq_refl), (skipn_app_len _ _ _ eq_refl).
    unfold rest. rewrite (IH fuel tail l Htail). reflexivity.
Qed.

Lemma concat_frames_length items : (4 * length items <= length (concat (map frame items)))%nat.
Proof.
  induction items as [|it items IH]; cbn [map concat length]; [lia|].
  rewrite app_length. pose proof (frame_length_ge it). lia.
Qed.

(* the reader recovers exactly the frames that were sent, whatever follows them *)
Theorem framing items tail :
  Forall ok_item items ->
  exists l, parse_all tail = Some l /\ parse_all (concat (map frame items) ++ tail) = Some (items ++ l).
Proof.
  intros Hok. destruct (parse_all_total tail) as [l El]. exists l. split; [exact El|].
  unfold parse_all in *.
  apply (parse_frames_mono (length items + S (length tail))).
  - apply framing_app; assumption.
  - rewrite app_length. pose proof (concat_frames_length items). lia.
Qed.

Corollary framing_exact items :
  Forall ok_item items -> parse_all (concat (map frame items)) = Some items.
Proof.
  intros Hok. destruct (framing items [] Hok) as (l & El & E).
  rewrite app_nil_r in E. cbn in El. inversion El; subst l. rewrite app_nil_r in E. exact E.
Qed.

(* ================= authenticity, for every reading of the payloads ================= *)
Section Generic.
  Variable cl : bytes -> cls.
  Variable acc : bytes -> option bytes.

  Lemma step_done s it i : step cl acc s it = Done i -> exists b, acc b = Some i.
  Proof.
    unfold step. destruct it as [|fl p]; [discriminate|].
    destruct (negb (fl =? EXTENDED)); [discriminate|].
    destruct (cl p) as [| |[m|] [id|]| |piece tail|]; try discriminate.
    - destruct (ext s); discriminate.
    - destruct (ext s) as [[m id]|]; [|discriminate].
      destruct (negb _); [discriminate|]. destruct (PIECE <? _); [discriminate|].
      destruct (_ ?= _); try discriminate.
      destruct (acc (buf s ++ tail)) as [j|] eqn:E; [|discriminate].
      intros H; inversion H; subst. eexists; exact E.
    - destruct (ext s); discriminate.
  Qed.

  Theorem run_got items : forall s i o, run cl acc s items = (Got i, o) -> exists b, acc b = Some i.
  Proof.
    induction items as [|it r IH]; intros s i o Hr; cbn [run] in Hr; [discriminate|].
    destruct (step cl acc s it) as [s' o1|j| |] eqn:E; try discriminate.
    - destruct (run cl acc s' r) as [out o2] eqn:Er. inversion Hr; subst. eapply IH; exact Er.
    - inversion Hr; subst. eapply step_done; exact E.
  Qed.

  Theorem session_got target s i o : session cl acc target s = (Got i, o) -> exists b, acc b = Some i.
  Proof.
    unfold session. destruct (recv_handshake target s) as [rest|]; [|discriminate].
    destruct (parse_all rest) as [items|]; [|discriminate].
    destruct (run cl acc init items) as [[s'|j| |] o'] eqn:E; try discriminate.
    intros Hr; inversion Hr; subst. eapply run_got; exact E.
  Qed.

  (* no panic unless the classifier reports the slice out of range *)
  Lemma run_no_crash (Hcl : forall p, cl p <> UtPanic) items : forall s, fst (run cl acc s items) <> Crashed.
  Proof.
    induction items as [|it r IH]; intros s; cbn [run fst]; [discriminate|].
    destruct (step cl acc s it) as [s' o1|j| |] eqn:E; cbn [fst]; try discriminate.
    - specialize (IH s'). destruct (run cl acc s' r) as [out o2]. exact IH.
    - exfalso. unfold step in E. destruct it as [|fl p]; [discriminate|].
      destruct (negb (fl =? EXTENDED)); [discriminate|].
      pose proof (Hcl p) as Hp.
      destruct (cl p) as [| |[m|] [id|]| |piece tail|]; try discriminate; try congruence.
      + destruct (ext s); discriminate.
      + destruct (ext s) as [[m id]|]; [|discriminate].
        destruct (negb _); [discriminate|]. destruct (PIECE <? _); [discriminate|].
        destruct (_ ?= _); try discriminate. destruct (acc _); discriminate.
  Qed.

  Lemma session_no_crash (Hcl : forall p, cl p <> UtPanic) target s : fst (session cl acc target s) <> Crashed.
  Proof.
    unfold session. destruct (recv_handshake target s) as [rest|]; [|discriminate].
    destruct (parse_all rest) as [items|]; [|discriminate].
    pose proof (run_no_crash Hcl items init) as Hn.
    destruct (run cl acc init items) as [[s'|j| |] o']; cbn [fst] in *; try discriminate. congruence.
  Qed.

  Lemma session_never_pending target s st' : fst (session cl acc target s) <> Pending st'.
  Proof.
    unfold session. destruct (recv_handshake target s) as [rest|]; [|discriminate].
    destruct (parse_all rest) as [items|]; [|discriminate].
    destruct (run cl acc init items) as [[s'|j| |] o']; cbn [fst]; discriminate.
  Qed.
End Generic.

(* verification factors out: the extracted [assemble] followed by [accept] is [fetch] *)
Definition finish (acc : bytes -> option bytes) (r : outcome * list req) : outcome * list req :=
  match r with
  | (Got b, o) => (match acc b with Some i => Got i | None => GaveUp end, o)
  | r => r
  end.

Lemma step_factor cl acc s it :
  step cl acc s it =
  match step cl (fun b => Some b) s it with
  | Done b => match acc b with Some i => Done i | None => Fail end
  | r => r
  end.
Proof.
  unfold step. destruct it as [|fl p]; [reflexivity|].
  destruct (negb (fl =? EXTENDED)); [reflexivity|].
  destruct (cl p) as [| |[m|] [id|]| |piece tail|]; try reflexivity;
    destruct (ext s) as [[m' id']|]; try reflexivity.
  destruct (negb _); [reflexivity|]. destruct (PIECE <? _); [reflexivity|].
  destruct (_ ?= _); reflexivity.
Qed.

Lemma run_factor cl acc items : forall s, run cl acc s items = finish acc (run cl (fun b => Some b) s items).
Proof.
  induction items as [|it r IH]; intros s; cbn [run]; [reflexivity|].
  rewrite step_factor. destruct (step cl (fun b => Some b) s it) as [s' o1|j| |]; cbn [finish]; try reflexivity.
  - rewrite IH. destruct (run cl (fun b => Some b) s' r) as [[s2|j| |] o2]; cbn [finish]; reflexivity.
  - destruct (acc j); reflexivity.
Qed.

Theorem fetch_factor norm H target s :
  fetch norm H target s = finish (accept norm H target) (assemble target s).
Proof.
  unfold fetch, assemble, session.
  destruct (recv_handshake target s) as [rest|]; [|reflexivity].
  destruct (parse_all rest) as [items|]; [|reflexivity].
  rewrite run_factor.
  destruct (run classify (fun b => Some b) init items) as [[s2|j| |] o2]; cbn [finish]; try reflexivity.
  destruct (accept norm H target j); reflexivity.
Qed.

Lemma accept_some norm H target b i :
  accept norm H target b = Some i -> norm b = Some i /\ H i = target.
Proof.
  unfold accept. destruct (norm b) as [j|]; [|discriminate].
  destruct (bytes_eqb (H j) target) eqn:E; [|discriminate].
  intros Hs; inversion Hs; subst. split; [reflexivity|]. apply bytes_eqb_eq. exact E.
Qed.

(* AUTHENTICITY: whatever bytes the peer sends *)
Theorem authentic norm H target s i o :
  fetch norm H target s = (Got i, o) -> H i = target /\ exists b, norm b = Some i.
Proof.
  intros Hf. apply session_got in Hf. destruct Hf as [b Hb]. apply accept_some in Hb.
  destruct Hb as [Hn Hh]. split; [exact Hh|]. exists b. exact Hn.
Qed.

(* ================= the slice payload[piece_offset..] is always in range ================= *)
Lemma encode_dict_length d : length (encode (Dict d)) = S (S (length (flat_map enc_kv d))).
Proof.
  cbn [encode]. change (flat_map (fun kv => enc_str (fst kv) ++ encode (snd kv)) d) with (flat_map enc_kv d).
  cbn [length]. rewrite app_length. cbn [length]. lia.
Qed.

Lemma dget_remove k v : forall d, dget k d = Some v ->
  exists d', length (flat_map enc_kv d) = (length (enc_kv (k, v)) + length (flat_map enc_kv d'))%nat /\
             forall k', bytes_eqb k k' = false -> dget k' d' = dget k' d.
Proof.
  induction d as [|[k0 v0] d IH]; cbn [dget]; intros Hg; [discriminate|].
  destruct (bytes_eqb k0 k) eqn:E.
  - apply bytes_eqb_eq in E. subst k0. inversion Hg; subst v0. exists d. split.
    + cbn [flat_map]. rewrite app_length. reflexivity.
    + intros k' Hk. rewrite Hk. reflexivity.
  - destruct (IH Hg) as (d' & Hl & Hd). exists ((k0, v0) :: d'). split.
    + cbn [flat_map]. rewrite !app_length, Hl. lia.
    + intros k' Hk. cbn [dget]. destruct (bytes_eqb k0 k'); [reflexivity|]. apply Hd; exact Hk.
Qed.

Lemma uint_of_int bits v n : uint_of bits v = Some n -> v = Int (Z.of_N n).
Proof.
  destruct v as [z|s|l|d]; cbn [uint_of]; try discriminate.
  destruct ((0 <=? z)%Z && (z <? 2 ^ Z.of_N bits)%Z) eqn:E; [|discriminate].
  intros Hs; inversion Hs; subst. f_equal. apply andb_prop in E. destruct E as [E _]. lia.
Qed.

Lemma uint_of_of_N bits n : n < 2 ^ bits -> uint_of bits (Int (Z.of_N n)) = Some n.
Proof.
  intros Hn. cbn [uint_of].
  assert (Hz : (Z.of_N n < 2 ^ Z.of_N bits)%Z).
  { change 2%Z with (Z.of_N 2). rewrite <- N2Z.inj_pow. lia. }
  replace ((0 <=? Z.of_N n)%Z && (Z.of_N n <? 2 ^ Z.of_N bits)%Z) with true by lia.
  rewrite N2Z.id. reflexivity.
Qed.

(* closed comparisons of the key constants are settled by computation *)
Ltac closed_keys :=
  repeat match goal with
         | |- context [bytes_eqb ?a ?b] =>
             let r := eval vm_compute in (bytes_eqb a b) in
             match r with true => idtac | false => idtac end; change (bytes_eqb a b) with r
         | |- context [utf8_valid ?a] =>
             let r := eval vm_compute in (utf8_valid a) in
             match r with true => idtac | false => idtac end; change (utf8_valid a) with r
         end.

(* the typed header, written back, is never longer than the dictionary it was read from:
   dropping unknown keys only shortens a canonical dictionary *)
Lemma reencode_le v mt pc ts :
  view_utm v = Some (mt, pc, ts) -> (length (encode (utm_value mt pc ts)) <= length (encode v))%nat.
Proof.
  destruct v as [z|s|l|d]; cbn [view_utm]; try discriminate.
  destruct (forallb utm_entry_ok d); [|discriminate].
  destruct (dget k_msg_type d) as [a|] eqn:Ea; [|discriminate].
  destruct (dget k_piece d) as [b|] eqn:Eb; [|discriminate].
  destruct (uint_of 8 a) as [mt'|] eqn:Ua; [|discriminate].
  destruct (uint_of 64 b) as [pc'|] eqn:Ub; [|discriminate].
  destruct (dget k_total_size d) as [x|] eqn:Ex.
  - destruct (uint_of 64 x) as [t|] eqn:Ux; intros Hs; inversion Hs; subst mt' pc' ts; clear Hs;
      apply uint_of_int in Ua, Ub; subst a b;
      destruct (dget_remove _ _ _ Ea) as (d1 & L1 & G1);
      rewrite <- (G1 k_piece eq_refl) in Eb;
      destruct (dget_remove _ _ _ Eb) as (d2 & L2 & G2).
    + apply uint_of_int in Ux. subst x.
      rewrite <- (G1 k_total_size eq_refl), <- (G2 k_total_size eq_refl) in Ex.
      destruct (dget_remove _ _ _ Ex) as (d3 & L3 & G3).
      unfold utm_value. rewrite !encode_dict_length. cbn [flat_map]. rewrite !app_length. cbn [length]. lia.
    + unfold utm_value. rewrite !encode_dict_length. cbn [flat_map]. rewrite !app_length. cbn [length]. lia.
  - intros Hs; inversion Hs; subst mt' pc' ts; clear Hs.
    apply uint_of_int in Ua, Ub; subst a b.
    destruct (dget_remove _ _ _ Ea) as (d1 & L1 & G1).
    rewrite <- (G1 k_piece eq_refl) in Eb.
    destruct (dget_remove _ _ _ Eb) as (d2 & L2 & G2).
    unfold utm_value. rewrite !encode_dict_length. cbn [flat_map]. rewrite !app_length. cbn [length]. lia.
Qed.

(* SAFETY: the concrete classifier never reports the out-of-range slice *)
Theorem classify_no_panic p : classify p <> UtPanic.
Proof.
  unfold classify. destruct p as [|id p]; [discriminate|].
  destruct (id =? ID_HANDSHAKE).
  - destruct (decode (bfuel p) p) as [[v r]|]; [|discriminate].
    destruct (view_hs v) as [[ms ut]|]; discriminate.
  - destruct (id =? ID_UT_METADATA); [|discriminate].
    destruct (decode (bfuel p) p) as [[v r]|] eqn:Ed; [|discriminate].
    destruct (view_utm v) as [[[mt pc] ts]|] eqn:Ev; [|discriminate].
    destruct (mt =? MT_DATA); [|discriminate].
    apply (proj1 (decode_exact _)) in Ed. apply reencode_le in Ev. cbv zeta.
    destruct (Nat.ltb (length p) (length (encode (utm_value mt pc ts)))) eqn:E; [|discriminate].
    apply Nat.ltb_lt in E. subst p. rewrite app_length in E. lia.
Qed.

Theorem never_crashes norm H target s : fst (fetch norm H target s) <> Crashed.
Proof. apply session_no_crash. exact classify_no_panic. Qed.

(* ================= fuel: twice the length is enough for every value ================= *)
Lemma dec_nonempty n : (1 <= length (dec n))%nat.
Proof. destruct (dec_hd n) as (b & t & E & _). rewrite E. cbn [length]. lia. Qed.

Lemma vsize_bound v : (vsize v + 2 <= 2 * length (encode v))%nat.
Proof.
  induction v as [z|s|l IH|d IH] using value_ind'.
  - cbn [vsize encode]. unfold enc_int. cbn [length]. rewrite !app_length. cbn [length]. lia.
  - cbn [vsize encode]. unfold enc_str. rewrite app_length. cbn [length].
    pose proof (dec_nonempty (N.of_nat (length s))). lia.
  - cbn [vsize encode]. fold (lfuel l). cbn [length]. rewrite app_length. cbn [length].
    assert (Hl : (lfuel l <= 2 * length (flat_map encode l) + 1)%nat).
    { induction IH as [|v l Hv Hall IHl]; [cbn; lia|].
      cbn [lfuel fold_right flat_map]. fold (lfuel l). rewrite app_length. lia. }
    lia.
  - cbn [vsize encode]. fold (dfuel d). cbn [length]. rewrite app_length. cbn [length].
    assert (Hl : (dfuel d <= 2 * length (flat_map (fun kv => enc_str (fst kv) ++ encode (snd kv)) d) + 1)%nat).
    { induction IH as [|kv d Hv Hall IHd]; [cbn; lia|].
      cbn [dfuel fold_right flat_map]. fold (dfuel d). rewrite !app_length. lia. }
    lia.
Qed.

Lemma decode_enc v rest :
  wfb v = true -> decode (bfuel (encode v ++ rest)) (encode v ++ rest) = Some (v, rest).
Proof.
  intros Hw. apply (decode_mono_le (vsize v)); [|apply encode_decode; exact Hw].
  unfold bfuel. rewrite app_length. pose proof (vsize_bound v). lia.
Qed.

(* ================= how the client reads the honest peer's two kinds of message ================= *)
Lemma classify_hs v ms ut :
  wfb v = true -> view_hs v = Some (ms, ut) -> classify (ID_HANDSHAKE :: encode v) = ExtHandshake ms ut.
Proof.
  intros Hw Hv. unfold classify. rewrite N.eqb_refl.
  pose proof (decode_enc v [] Hw) as E. rewrite app_nil_r in E. rewrite E, Hv. reflexivity.
Qed.

Lemma keys_utm_sorted : keys_sorted None [k_msg_type; k_piece; k_total_size] = true.
Proof. vm_compute. reflexivity. Qed.

Lemma i64_of_N n : n < 2 ^ 63 -> i64_ok (Z.of_N n) = true.
Proof.
  intros Hn. unfold i64_ok.
  assert ((Z.of_N n < 2 ^ 63)%Z) by (change (2 ^ 63)%Z with (Z.of_N (2 ^ 63)); lia).
  assert ((- 2 ^ 63 <= 0)%Z) by (vm_compute; discriminate). lia.
Qed.

Lemma wfb_utm mt pc n : mt < 2 ^ 63 -> pc < 2 ^ 63 -> n < 2 ^ 63 -> wfb (utm_value mt pc (Some n)) = true.
Proof.
  intros H1 H2 H3. unfold utm_value. cbn [wfb map fst snd forallb].
  rewrite keys_utm_sorted, !i64_of_N by assumption. reflexivity.
Qed.

Lemma view_utm_value mt pc n :
  mt < 2 ^ 8 -> pc < 2 ^ 64 -> n < 2 ^ 64 -> view_utm (utm_value mt pc (Some n)) = Some (mt, pc, Some n).
Proof.
  intros H1 H2 H3. unfold utm_value, view_utm, utm_entry_ok. cbn [forallb dget].
  closed_keys. cbv iota. rewrite !uint_of_of_N by assumption. reflexivity.
Qed.

Lemma classify_data pc n tail :
  pc < 2 ^ 63 -> n < 2 ^ 63 ->
  classify (ID_UT_METADATA :: encode (utm_value MT_DATA pc (Some n)) ++ tail) = UtData pc tail.
Proof.
  intros Hp Hn. unfold classify.
  change (ID_UT_METADATA =? ID_HANDSHAKE) with false. cbv iota. rewrite N.eqb_refl.
  assert (H63 : 2 ^ 63 < 2 ^ 64) by (vm_compute; reflexivity).
  rewrite decode_enc by (apply wfb_utm; try assumption; vm_compute; reflexivity).
  rewrite view_utm_value by (try lia; vm_compute; reflexivity).
  rewrite N.eqb_refl. cbv zeta.
  replace (Nat.ltb _ _) with false by (symmetry; apply Nat.ltb_ge; rewrite app_length; lia).
  rewrite (skipn_app_len _ _ _ eq_refl). reflexivity.
Qed.

(* ================= completeness: the honest peer, with anything ignorable in between ================= *)
Lemma PIECE_val : PIECE = 16384.
Proof. reflexivity. Qed.

Section Complete.
  Variable acc : bytes -> option bytes.
  Variable d : bytes.                      (* the dictionary the honest peer serves *)
  Hypothesis d_nonempty : d <> [].
  Hypothesis d_small : N.of_nat (length d) < 2 ^ 63.
  Variable id : N.                         (* the id the peer assigned to ut_metadata *)
  Variable ign : nat -> list item.
  Hypothesis Hign : forall i, Forall ignorable (ign i).

  Local Notation p := (N.to_nat PIECE).

  Definition verdict : outcome := match acc d with Some i => Got i | None => GaveUp end.

  Lemma run_ignorable s ig rest :
    Forall ignorable ig -> run classify acc s (ig ++ rest) = run classify acc s rest.
  Proof.
    induction 1 as [|it ig Hit Hig IH]; [reflexivity|].
    cbn [app run]. destruct it as [|fl pl]; cbn [step].
    - rewrite IH. destruct (run classify acc s rest) as [out o]. reflexivity.
    - cbn [ignorable] in Hit. destruct (N.eqb_spec fl EXTENDED) as [->|Hne]; cbn [negb].
      + destruct Hit as [Hc|Hc]; [congruence|]. rewrite Hc.
        rewrite IH. destruct (run classify acc s rest) as [out o]. reflexivity.
      + rewrite IH. destruct (run classify acc s rest) as [out o]. reflexivity.
  Qed.

  Lemma firstn_chunk i : firstn (i * p) d ++ chunk d i = firstn (S i * p) d.
  Proof.
    unfold chunk. replace (S i * p)%nat with (i * p + p)%nat by lia.
    rewrite <- (firstn_skipn (i * p) d) at 3.
    rewrite firstn_app. rewrite firstn_firstn.
    destruct (Nat.le_gt_cases (i * p) (length d)) as [Hle|Hgt].
    - rewrite firstn_length_le by exact Hle.
      replace (Nat.min (i * p + p) (i * p)) with (i * p)%nat by lia.
      f_equal. f_equal. lia.
    - rewrite (firstn_all2 d) at 2 by lia.
      rewrite (skipn_all2 d) by lia. rewrite !firstn_nil, !app_nil_r.
      rewrite firstn_all2 by lia. rewrite firstn_all2 by lia. reflexivity.
  Qed.

  Lemma npieces_spec : ((npieces d - 1) * p < length d <= npieces d * p)%nat /\ (0 < npieces d)%nat.
  Proof.
    pose proof PIECE_val as HP.
    assert (Hd : (0 < length d)%nat) by (destruct d; [congruence|cbn; lia]).
    unfold npieces.
    pose proof (N.div_mod (N.of_nat (length d) + PIECE - 1) PIECE ltac:(lia)) as E.
    pose proof (N.mod_lt (N.of_nat (length d) + PIECE - 1) PIECE ltac:(lia)) as U.
    set (q := (N.of_nat (length d) + PIECE - 1) / PIECE) in *.
    set (r := (N.of_nat (length d) + PIECE - 1) mod PIECE) in *.
    lia.
  Qed.

  Lemma run_serve tail :
    forall k i, (i + k = npieces d)%nat -> (0 < k)%nat ->
      run classify acc {| buf := firstn (i * p) d; ext := Some (N.of_nat (length d), id) |}
          (serve d ign i k ++ tail)
      = (verdict, map (fun j => (id, N.of_nat j)) (seq (S i) (k - 1))).
  Proof.
    pose proof PIECE_val as HP. pose proof npieces_spec as [Hn Hn0].
    induction k as [|k IH]; intros i Hik Hk; [lia|].
    cbn [serve]. rewrite <- app_assoc. rewrite run_ignorable by apply Hign.
    cbn [app run]. unfold data_msg. cbn [step]. rewrite N.eqb_refl. cbn [negb].
    assert (Hi : (i * p < length d)%nat) by nia.
    rewrite classify_data by lia.
    cbn [ext buf].
    rewrite firstn_length_le by lia.
    replace (N.of_nat (i * p)) with (N.of_nat i * PIECE) by lia.
    rewrite N.div_mul by lia. rewrite N.eqb_refl. cbn [negb].
    replace (PIECE <? N.of_nat (length (chunk d i))) with false
      by (symmetry; apply N.ltb_ge; unfold chunk; rewrite firstn_length; lia).
    rewrite firstn_chunk.
    destruct k as [|k'].
    - assert (S i = npieces d) by lia.
      rewrite firstn_all2 by nia. rewrite N.compare_refl. unfold verdict.
      destruct (acc d); reflexivity.
    - assert ((S i * p < length d)%nat) by nia.
      rewrite firstn_length_le by lia.
      replace (N.of_nat (S i * p) ?= N.of_nat (length d)) with Lt
        by (symmetry; apply N.compare_lt_iff; lia).
      rewrite (IH (S i)) by lia.
      cbn [Nat.sub seq map app]. rewrite Nat.sub_0_r.
      replace (N.of_nat i + 1) with (N.of_nat (S i)) by lia. reflexivity.
  Qed.

  Variable hsv : value.                    (* the peer's extension handshake dictionary *)
  Hypothesis hsv_wf : wfb hsv = true.
  Hypothesis hsv_view : view_hs hsv = Some (Some (N.of_nat (length d)), Some id).
  Variable ign0 : list item.
  Hypothesis Hign0 : Forall ignorable ign0.

  Local Notation items := (honest_items d ign hsv ign0).

  Theorem run_honest more :
    run classify acc init (items ++ more) = (verdict, honest_requests id d).
  Proof.
    pose proof npieces_spec as [Hn Hn0].
    unfold honest_items, honest_requests. rewrite <- app_assoc. rewrite run_ignorable by exact Hign0.
    cbn [app run]. unfold hs_msg. cbn [step]. rewrite N.eqb_refl. cbn [negb].
    rewrite (classify_hs _ _ _ hsv_wf hsv_view). cbn [init buf].
    change (@nil N) with (firstn (0 * p) d).
    rewrite (run_serve more (npieces d) 0) by lia.
    destruct (npieces d) as [|n]; [lia|].
    cbn [Nat.sub seq map app]. rewrite Nat.sub_0_r. reflexivity.
  Qed.

  (* the whole session, from the BitTorrent handshake on, for any bytes after the last piece *)
  Variable target reserved peer_id : bytes.
  Hypothesis target_len : length target = 20%nat.
  Hypothesis reserved_len : length reserved = 8%nat.
  Hypothesis reserved_bit : (0 <? N.land (nth EXT_INDEX reserved 0) EXT_BIT) = true.
  Hypothesis frames_ok : Forall ok_item items.

  Hypothesis peer_id_len : length peer_id = 20%nat.

  Lemma recv_handshake_honest rest :
    recv_handshake target (hs_bytes reserved target peer_id ++ rest) = Some rest.
  Proof.
    assert (Hh : length HS_HEADER = 20%nat) by reflexivity.
    assert (Hl : length (hs_bytes reserved target peer_id) = HS_LENGTH).
    { unfold hs_bytes. rewrite !app_length, Hh, reserved_len, target_len, peer_id_len. reflexivity. }
    unfold recv_handshake.
    replace (Nat.ltb (length (hs_bytes reserved target peer_id ++ rest)) HS_LENGTH) with false
      by (symmetry; apply Nat.ltb_ge; rewrite app_length; lia).
    rewrite (firstn_app_len _ _ _ Hl), (skipn_app_len _ _ _ Hl).
    unfold hs_bytes at 1. rewrite (firstn_app_len _ _ _ Hh), bytes_eqb_refl. cbn [negb].
    unfold hs_bytes at 1.
    replace (HS_HEADER ++ reserved ++ target ++ peer_id) with ((HS_HEADER ++ reserved) ++ target ++ peer_id)
      by (rewrite <- app_assoc; reflexivity).
    rewrite (skipn_app_len (HS_HEADER ++ reserved) _ 28%nat)
      by (rewrite app_length, Hh, reserved_len; reflexivity).
    rewrite (firstn_app_len _ _ _ target_len), bytes_eqb_refl. cbn [negb].
    unfold hs_bytes. rewrite (skipn_app_len _ _ _ Hh).
    rewrite app_nth1 by (rewrite reserved_len; unfold EXT_INDEX; lia).
    rewrite reserved_bit. reflexivity.
  Qed.

  Theorem session_honest tail :
    session classify acc target (honest_stream d ign hsv ign0 target reserved peer_id tail)
    = (verdict, honest_requests id d).
  Proof.
    unfold session, honest_stream. rewrite recv_handshake_honest.
    destruct (framing items tail frames_ok) as (l & El & E). rewrite E.
    rewrite run_honest. unfold verdict. destruct (acc d); reflexivity.
  Qed.
End Complete.

(* COMPLETENESS *)
Theorem complete norm H d id ign hsv ign0 target reserved peer_id tail :
  d <> [] -> N.of_nat (length d) < 2 ^ 63 ->
  norm d = Some d -> H d = target ->
  (forall i, Forall ignorable (ign i)) -> Forall ignorable ign0 ->
  wfb hsv = true -> view_hs hsv = Some (Some (N.of_nat (length d)), Some id) ->
  length target = 20%nat -> length reserved = 8%nat -> length peer_id = 20%nat ->
  (0 <? N.land (nth EXT_INDEX reserved 0) EXT_BIT) = true ->
  Forall ok_item (honest_items d ign hsv ign0) ->
  fetch norm H target (honest_stream d ign hsv ign0 target reserved peer_id tail)
  = (Got d, honest_requests id d).
Proof.
  intros Hne Hsm Hnorm Hh Hign Hign0 Hwf Hview Ht Hr Hp Hbit Hok.
  unfold fetch. rewrite (session_honest (accept norm H target) d Hne Hsm id ign Hign hsv Hwf Hview ign0 Hign0
                           target reserved peer_id Ht Hr Hbit Hok Hp tail).
  unfold verdict, accept. rewrite Hnorm, Hh, bytes_eqb_refl. reflexivity.
Qed.

(* the same honest peer serving a dictionary that the typed round trip changes: the client ends
   with the changed dictionary if that one happens to hash to the target, and gives up otherwise;
   it never ends with the dictionary served *)
Theorem honest_but_not_typed_normal norm H d d' id ign hsv ign0 target reserved peer_id tail :
  d <> [] -> N.of_nat (length d) < 2 ^ 63 ->
  norm d = Some d' ->
  (forall i, Forall ignorable (ign i)) -> Forall ignorable ign0 ->
  wfb hsv = true -> view_hs hsv = Some (Some (N.of_nat (length d)), Some id) ->
  length target = 20%nat -> length reserved = 8%nat -> length peer_id = 20%nat ->
  (0 <? N.land (nth EXT_INDEX reserved 0) EXT_BIT) = true ->
  Forall ok_item (honest_items d ign hsv ign0) ->
  fst (fetch norm H target (honest_stream d ign hsv ign0 target reserved peer_id tail))
  = if bytes_eqb (H d') target then Got d' else GaveUp.
Proof.
  intros Hne Hsm Hnorm Hign Hign0 Hwf Hview Ht Hr Hp Hbit Hok.
  unfold fetch. rewrite (session_honest (accept norm H target) d Hne Hsm id ign Hign hsv Hwf Hview ign0 Hign0
                           target reserved peer_id Ht Hr Hbit Hok Hp tail).
  unfold verdict, accept. rewrite Hnorm. cbn [fst]. destruct (bytes_eqb (H d') target); reflexivity.
Qed.

Corollary not_typed_normal_refuted norm H d d' id ign hsv ign0 target reserved peer_id tail :
  d <> [] -> N.of_nat (length d) < 2 ^ 63 ->
  norm d = Some d' -> d' <> d ->
  (forall i, Forall ignorable (ign i)) -> Forall ignorable ign0 ->
  wfb hsv = true -> view_hs hsv = Some (Some (N.of_nat (length d)), Some id) ->
  length target = 20%nat -> length reserved = 8%nat -> length peer_id = 20%nat ->
  (0 <? N.land (nth EXT_INDEX reserved 0) EXT_BIT) = true ->
  Forall ok_item (honest_items d ign hsv ign0) ->
  fst (fetch norm H target (honest_stream d ign hsv ign0 target reserved peer_id tail)) <> Got d.
Proof.
  intros Hne Hsm Hnorm Hdd Hign Hign0 Hwf Hview Ht Hr Hp Hbit Hok.
  rewrite (honest_but_not_typed_normal norm H d d' id ign hsv ign0 target reserved peer_id tail) by assumption.
  destruct (bytes_eqb (H d') target); [|discriminate]. intros E; inversion E; congruence.
Qed.

(* ================= what is written ================= *)
Lemma wfb_strs l : forallb wfb (map Str l) = true.
Proof. induction l as [|x l IH]; cbn [map forallb wfb]; [reflexivity|exact IH]. Qed.

Theorem written_info_span trackers i :
  wfb (Dict i) = true -> info_of_file (written_file trackers (Dict i)) = Some (encode (Dict i)).
Proof.
  intros Hw. unfold info_of_file, written_file.
  match goal with |- context [decode (bfuel (encode ?v)) (encode ?v)] =>
    pose proof (decode_enc v []) as E end.
  rewrite app_nil_r in E. rewrite E.
  - cbn [dget]. closed_keys. reflexivity.
  - cbn [wfb map fst snd forallb].
    replace (keys_sorted None _) with true by (vm_compute; reflexivity).
    cbn [wfb] in Hw. rewrite Hw, wfb_strs. reflexivity.
Qed.
