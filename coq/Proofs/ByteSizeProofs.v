(** Proofs about Model/ByteSize.v (C16). *)
From Coq Require Import Decimal DecimalN DecimalFacts.
From Coq Require Import NArith ZArith Lia Bool List ZifyN ZifyBool.
From Imdl Require Import Model.Bencode Model.Float53 Model.ByteSize Generated.GenBytes
  Proofs.Float53Proofs Proofs.BencodeProofs.
Import ListNotations.
Local Open Scope N_scope.

(* ================================================================ numeric core *)

Lemma to53_exp a b m e : 0 < a -> 0 < b -> to53 a b = (m, e) ->
  (Z.of_N (N.log2 a) - Z.of_N (N.log2 b) - 53 <= e <= Z.of_N (N.log2 a) - Z.of_N (N.log2 b) - 52)%Z.
Proof.
  intros Ha Hb. unfold to53. cbv zeta.
  destruct (scaled a b _) as [a0 b0].
  destruct (a0 <? b0 * 2 ^ 52); destruct (scaled a b _) as [a1 b1]; intros H; inversion H; subst; lia.
Qed.

Lemma shl_pos x s : 0 < x -> 0 < shl x s.
Proof. intros H. unfold shl. destruct (0 <=? s)%Z; [|exact H].
  apply N.mul_pos_pos; [exact H|]. apply pow2_pos. Qed.

Lemma to53_err a b m e : 0 < a -> 0 < b -> to53 a b = (m, e) ->
  let a1 := shl a (- e) in let b1 := shl b e in
  0 < b1 /\ 2 * (m * b1) <= 2 * a1 + b1 /\ 2 * a1 <= 2 * (m * b1) + b1.
Proof.
  intros Ha Hb. unfold to53. cbv zeta.
  destruct (scaled a b (Z.of_N (N.log2 a) - Z.of_N (N.log2 b) - 52)) as [a0 b0].
  remember (if a0 <? b0 * 2 ^ 52 then _ else _) as e' eqn:Ee'. clear Ee'.
  unfold scaled. intros H. inversion H as [[Hm He]]. clear H. subst e'.
  assert (Hb1 : 0 < shl b e) by (apply shl_pos; exact Hb).
  split; [exact Hb1|]. apply rne_div_err. exact Hb1.
Qed.

Lemma pow10_pos f : 0 < 10 ^ f.
Proof. apply N.neq_0_lt_0, N.pow_nonzero. lia. Qed.

Lemma parse_val_pos n f sh : 0 < n ->
  parse_val n f sh = let '(m, e) := to53 n (10 ^ f) in f64_to_u64 m (e + Z.of_N sh).
Proof. intros Hn. unfold parse_val. destruct (N.eqb_spec n 0); [lia|reflexivity]. Qed.

(** fractions: exact truncation below 2^46 when the fractional part of the product is 0 or
    between 1% and 99% (always the case with at most two decimals) *)
Theorem parse_val_fraction n f sh :
  0 < n ->
  let D := 10 ^ f in let A := n * 2 ^ sh in let R := A mod D in
  A < D * 2 ^ 46 ->
  (R = 0 \/ (D <= 100 * R /\ 100 * R <= 99 * D)) ->
  parse_val n f sh = A / D.
Proof.
  intros Hn D A R HA HR. rewrite parse_val_pos by exact Hn. change (10 ^ f) with D.
  assert (HD : 0 < D) by apply pow10_pos.
  destruct (to53 n D) as [m e] eqn:T.
  pose proof (to53_exp n D m e Hn HD T) as [_ He].
  pose proof (to53_err n D m e Hn HD T) as Herr.
  assert (HA0 : 0 < A) by (unfold A; apply N.mul_pos_pos; [lia|apply pow2_pos]).
  assert (HlogA : N.log2 A = N.log2 n + sh).
  { unfold A. rewrite N.log2_mul_pow2 by lia. lia. }
  assert (HlA : N.log2 A <= N.log2 D + 46).
  { destruct (log2_bounds A HA0) as [L1 _]. destruct (log2_bounds D HD) as [_ L2].
    assert (Hlt : 2 ^ N.log2 A < 2 ^ (N.log2 D + 1 + 46)).
    { rewrite N.pow_add_r. nia. }
    apply N.pow_lt_mono_r_iff in Hlt; lia. }
  set (E := (e + Z.of_N sh)%Z).
  assert (HE : (E <= -6)%Z) by (unfold E; lia).
  assert (He0 : (e <= -6)%Z) by (unfold E in HE; lia).
  cbv zeta in Herr. unfold shl in Herr.
  replace (0 <=? - e)%Z with true in Herr by (symmetry; apply Z.leb_le; lia).
  replace (0 <=? e)%Z with false in Herr by (symmetry; apply Z.leb_gt; lia).
  destruct Herr as (_ & Hlo & Hhi).
  set (s := Z.to_N (- E)).
  assert (Hs : 6 <= s) by (unfold s; lia).
  assert (Hsplit : Z.to_N (- e) = sh + s) by (unfold s, E; lia).
  rewrite Hsplit, N.pow_add_r in Hlo, Hhi.
  set (S := 2 ^ s) in *.
  assert (HS : 64 <= S).
  { unfold S. change 64 with (2 ^ 6). apply N.pow_le_mono_r; lia. }
  fold A in Hlo, Hhi.
  assert (HAS : n * (2 ^ sh * S) = A * S) by (unfold A; lia).
  rewrite HAS in Hlo, Hhi.
  unfold f64_to_u64, trunc. fold E. replace (0 <=? E)%Z with false by (symmetry; apply Z.leb_gt; lia).
  fold s. fold S.
  pose proof (N.div_mod A D ltac:(lia)) as EA. fold R in EA. set (F := A / D) in *.
  pose proof (N.mod_lt A D ltac:(lia)) as HRlt. fold R in HRlt.
  assert (Hdiv : m / S = F).
  { symmetry. apply N.div_unique with (r := m - F * S).
    - assert (Hm : m < (F + 1) * S); [|lia].
      destruct HR as [HR0|[HR1 HR2]].
      + assert (2 * (m * D) <= 2 * (F * D * S) + D) by nia.
        assert (2 * (m * D) < 2 * ((F + 1) * S * D)) by nia. nia.
      + assert (Hx : 2 * (m * D) < 2 * ((F + 1) * S * D)); [|nia].
        assert (100 * (2 * (m * D)) < 100 * (2 * ((F + 1) * S * D))); [|lia]. nia.
    - assert (Hm : F * S <= m); [|lia].
      destruct HR as [HR0|[HR1 HR2]].
      + assert (2 * (F * S * D) <= 2 * (m * D) + D) by nia.
        assert (F * S * D < (m + 1) * D) by nia. nia.
      + assert (Hx : 2 * (F * S * D) <= 2 * (m * D)); [|nia].
        assert (100 * (2 * (F * S * D)) <= 100 * (2 * (m * D))); [|lia]. nia. }
  rewrite Hdiv. apply N.min_l.
  assert (F < 2 ^ 46) by (apply N.div_lt_upper_bound; lia).
  assert (2 ^ 46 < U64_MAX) by (vm_compute; reflexivity). lia.
Qed.

(** integers: exact whenever the integer has at most 53 significant bits and the product is
    a u64 (in particular whenever the product is below 2^53) *)
Theorem parse_val_integer_wide n sh :
  0 < n -> n < 2 ^ 53 -> n * 2 ^ sh < 2 ^ 64 -> parse_val n 0 sh = n * 2 ^ sh.
Proof.
  intros Hn Hn53 HA. rewrite parse_val_pos by exact Hn. change (10 ^ 0) with 1.
  set (l := N.log2 n).
  assert (Hl : l <= 52).
  { assert (Hlg : N.log2 n < 53) by (apply N.log2_lt_pow2; assumption). fold l in Hlg. lia. }
  destruct (log2_bounds n Hn) as [L1 L2]. fold l in L1, L2.
  unfold to53. cbv zeta. change (N.log2 1) with 0. fold l.
  set (e0 := (Z.of_N l - Z.of_N 0 - 52)%Z).
  assert (He0 : (e0 <= 0)%Z) by (unfold e0; lia).
  assert (Hb : forall e, (e <= 0)%Z -> shl 1 e = 1).
  { intros e He. unfold shl. destruct (Z.leb_spec 0 e); [|reflexivity].
    replace e with 0%Z by lia. reflexivity. }
  assert (Ha : shl n (- e0) = n * 2 ^ (52 - l)).
  { unfold shl. replace (0 <=? - e0)%Z with true by (symmetry; apply Z.leb_le; lia).
    f_equal. f_equal. unfold e0. lia. }
  unfold scaled. rewrite (Hb e0 He0), Ha.
  assert (Hnorm : 1 * 2 ^ 52 <= n * 2 ^ (52 - l)).
  { replace (1 * 2 ^ 52) with (2 ^ l * 2 ^ (52 - l)).
    - apply N.mul_le_mono_r. exact L1.
    - rewrite <- N.pow_add_r. rewrite N.mul_1_l. f_equal. lia. }
  replace (n * 2 ^ (52 - l) <? 1 * 2 ^ 52) with false by (symmetry; apply N.ltb_ge; exact Hnorm).
  rewrite (Hb e0 He0), Ha, rne_div_1.
  unfold f64_to_u64, trunc.
  set (E := (e0 + Z.of_N sh)%Z).
  assert (Hres : (if (0 <=? E)%Z then n * 2 ^ (52 - l) * 2 ^ Z.to_N E
                  else n * 2 ^ (52 - l) / 2 ^ Z.to_N (- E)) = n * 2 ^ sh).
  { destruct (Z.leb_spec 0 E).
    - rewrite <- N.mul_assoc, <- N.pow_add_r. f_equal. f_equal. unfold E, e0 in *. lia.
    - replace (52 - l) with (sh + Z.to_N (- E)) by (unfold E, e0 in *; lia).
      rewrite N.pow_add_r, N.mul_assoc. apply N.div_mul. apply N.pow_nonzero. lia. }
  rewrite Hres. apply N.min_l. unfold U64_MAX. lia.
Qed.

Theorem parse_val_integer n sh :
  0 < n -> n * 2 ^ sh < 2 ^ 53 -> parse_val n 0 sh = n * 2 ^ sh.
Proof.
  intros Hn HA. pose proof (pow2_pos sh) as Hp.
  assert (2 ^ 53 < 2 ^ 64) by (vm_compute; reflexivity).
  apply parse_val_integer_wide; [exact Hn|nia|lia].
Qed.

(* ---- the quotient is normalised: 2^52 <= a1 / b1 < 2^53 ---- *)
Lemma shl_eq x z : shl x z = x * 2 ^ Z.to_N z.
Proof.
  unfold shl. destruct (Z.leb_spec 0 z); [reflexivity|].
  replace (Z.to_N z) with 0 by lia. rewrite N.mul_1_r. reflexivity.
Qed.

Lemma to53_norm a b m e : 0 < a -> 0 < b -> to53 a b = (m, e) ->
  2 ^ 52 * shl b e <= shl a (- e) /\ shl a (- e) < 2 ^ 53 * shl b e.
Proof.
  intros Ha Hb. unfold to53. cbv zeta. unfold scaled.
  set (la := N.log2 a). set (lb := N.log2 b).
  set (e0 := (Z.of_N la - Z.of_N lb - 52)%Z).
  destruct (log2_bounds a Ha) as [A1 A2]. destruct (log2_bounds b Hb) as [B1 B2]. fold la in A1, A2. fold lb in B1, B2.
  rewrite N.add_1_r, N.pow_succ_r' in A2, B2.
  set (PA := 2 ^ la) in *. set (PB := 2 ^ lb) in *.
  assert (K0 : PA * 2 ^ Z.to_N (- e0) = PB * 2 ^ 52 * 2 ^ Z.to_N e0).
  { unfold PA, PB. rewrite <- !N.pow_add_r. f_equal. unfold e0. lia. }
  pose proof (pow2_pos (Z.to_N (- e0))) as HP0. pose proof (pow2_pos (Z.to_N e0)) as HQ0.
  assert (U0 : shl a (- e0) < 2 ^ 53 * shl b e0).
  { rewrite !shl_eq. change (2 ^ 53) with (2 * 2 ^ 52).
    set (P0 := 2 ^ Z.to_N (- e0)) in *. set (Q0 := 2 ^ Z.to_N e0) in *. set (C := 2 ^ 52) in *.
    assert (a * P0 < 2 * PA * P0) by nia.
    assert (2 * (PB * C * Q0) <= 2 * C * (b * Q0)) by nia. nia. }
  assert (L0 : 2 ^ 52 * shl b e0 < 2 * shl a (- e0)).
  { rewrite !shl_eq.
    set (P0 := 2 ^ Z.to_N (- e0)) in *. set (Q0 := 2 ^ Z.to_N e0) in *. set (C := 2 ^ 52) in *.
    assert (2 * (PA * P0) <= 2 * (a * P0)) by nia.
    assert (C * (b * Q0) < 2 * (PB * C * Q0)) by nia. nia. }
  destruct (N.ltb_spec (shl a (- e0)) (shl b e0 * 2 ^ 52)) as [Hlt|Hge]; intros H; inversion H; subst e; clear H.
  - (* one more bit *)
    rewrite !shl_eq in *.
    destruct (Z.leb_spec e0 0) as [Hneg|Hpos].
    + replace (Z.to_N (e0 - 1)) with 0 by lia. replace (Z.to_N e0) with 0 in * by lia.
      replace (Z.to_N (- (e0 - 1))) with (Z.to_N (- e0) + 1) by lia.
      rewrite N.pow_add_r. change (2 ^ 1) with 2. change (2 ^ 0) with 1 in *.
      set (P0 := 2 ^ Z.to_N (- e0)) in *. change (2 ^ 53) with (2 * 2 ^ 52). set (C := 2 ^ 52) in *. nia.
    + replace (Z.to_N (- (e0 - 1))) with 0 by lia. replace (Z.to_N (- e0)) with 0 in * by lia.
      replace (Z.to_N e0) with (Z.to_N (e0 - 1) + 1) in * by lia.
      rewrite N.pow_add_r in *. change (2 ^ 1) with 2 in *. change (2 ^ 0) with 1 in *.
      set (Q1 := 2 ^ Z.to_N (e0 - 1)) in *. change (2 ^ 53) with (2 * 2 ^ 52). set (C := 2 ^ 52) in *. nia.
  - split; [lia|exact U0].
Qed.

(** fractions whose product is a whole number below 2^53: exact *)
Theorem parse_val_integral n f sh :
  0 < n ->
  let D := 10 ^ f in let A := n * 2 ^ sh in
  A mod D = 0 -> A / D < 2 ^ 53 -> parse_val n f sh = A / D.
Proof.
  intros Hn D A HR HP. rewrite parse_val_pos by exact Hn. change (10 ^ f) with D.
  assert (HD : 0 < D) by apply pow10_pos.
  destruct (to53 n D) as [m e] eqn:T.
  destruct (to53_norm n D m e Hn HD T) as [N1 N2].
  assert (Hm : m = rne_div (shl n (- e)) (shl D e)).
  { unfold to53 in T. cbv zeta in T. unfold scaled in T.
    destruct (_ <? _) in T; inversion T; reflexivity. }
  rewrite !shl_eq in *.
  set (P := A / D) in *.
  assert (EA : n * 2 ^ sh = P * D).
  { fold A. pose proof (N.div_mod A D ltac:(lia)) as E. rewrite HR in E. fold P in E. lia. }
  set (E := (e + Z.of_N sh)%Z).
  pose proof (pow2_pos sh) as Hsh.
  unfold f64_to_u64, trunc. fold E.
  assert (HE : (E <= 0)%Z).
  { destruct (Z.leb_spec E 0) as [|Hpos]; [assumption|exfalso].
    destruct (Z.leb_spec e 0) as [He|He].
    - replace (Z.to_N e) with 0 in * by lia. change (2 ^ 0) with 1 in *.
      assert (Es : sh = Z.to_N (- e) + Z.to_N E) by (unfold E in *; lia).
      rewrite Es, N.pow_add_r in EA.
      assert (2 <= 2 ^ Z.to_N E).
      { change 2 with (2 ^ 1) at 1. apply N.pow_le_mono_r; lia. }
      set (X := 2 ^ Z.to_N (- e)) in *. set (Y := 2 ^ Z.to_N E) in *.
      change (2 ^ 53) with (2 * 2 ^ 52) in *. set (C := 2 ^ 52) in *. nia.
    - replace (Z.to_N (- e)) with 0 in * by lia. change (2 ^ 0) with 1 in *.
      assert (2 <= 2 ^ Z.to_N e).
      { change 2 with (2 ^ 1) at 1. apply N.pow_le_mono_r; lia. }
      set (Y := 2 ^ Z.to_N e) in *. set (S := 2 ^ sh) in *.
      change (2 ^ 53) with (2 * 2 ^ 52) in *. set (C := 2 ^ 52) in *. nia. }
  assert (He : (e <= 0)%Z) by (unfold E in HE; lia).
  replace (Z.to_N e) with 0 in * by lia. change (2 ^ 0) with 1 in *. rewrite N.mul_1_r in *.
  set (s := Z.to_N (- E)).
  assert (Es : Z.to_N (- e) = sh + s) by (unfold s, E in *; lia).
  rewrite Es, N.pow_add_r, N.mul_assoc, EA in Hm.
  assert (Hm' : m = P * 2 ^ s).
  { rewrite Hm. rewrite rne_div_exact; [|exact HD|].
    - replace (P * D * 2 ^ s) with (P * 2 ^ s * D) by lia. apply N.div_mul. lia.
    - replace (P * D * 2 ^ s) with (P * 2 ^ s * D) by lia. apply N.mod_mul. lia. }
  assert (Hres : (if (0 <=? E)%Z then m * 2 ^ Z.to_N E else m / 2 ^ s) = P).
  { rewrite Hm'. destruct (Z.leb_spec 0 E).
    - replace (Z.to_N E) with 0 by lia. replace s with 0 by (unfold s; lia). cbn. lia.
    - apply N.div_mul. apply N.pow_nonzero. lia. }
  rewrite Hres. apply N.min_l.
  assert (2 ^ 53 < U64_MAX) by (vm_compute; reflexivity). lia.
Qed.

(* ================================================================ display *)

Lemma pow1024_pos i : 0 < 1024 ^ i.
Proof. apply N.neq_0_lt_0, N.pow_nonzero. lia. Qed.

Lemma pow1024_succ i : 1024 * 1024 ^ i = 1024 ^ (i + 1).
Proof. rewrite N.add_1_r, N.pow_succ_r'. reflexivity. Qed.

Lemma unit_loop_S fu v i :
  unit_loop (S fu) v i = if 1024 ^ (i + 1) <=? v then unit_loop fu v (i + 1) else Some i.
Proof. cbn [unit_loop]. rewrite pow1024_succ. reflexivity. Qed.

Lemma unit_loop_spec fu : forall v i,
  v < 1024 ^ (i + 1 + N.of_nat fu) -> (i = 0 \/ 1024 ^ i <= v) ->
  exists j, unit_loop (S fu) v i = Some j /\ i <= j /\ (j = 0 \/ 1024 ^ j <= v) /\ v < 1024 ^ (j + 1).
Proof.
  induction fu as [|fu IH]; intros v i Hlt Hge; rewrite unit_loop_S.
  - rewrite N.add_0_r in Hlt. exists i.
    destruct (N.leb_spec (1024 ^ (i + 1)) v) as [Hle|Hgt]; [lia|].
    repeat split; [lia|exact Hge|exact Hlt].
  - destruct (N.leb_spec (1024 ^ (i + 1)) v) as [Hle|Hgt].
    + destruct (IH v (i + 1)) as (j & Hj & Hij & Hjv & Hvj).
      * rewrite Nat2N.inj_succ in Hlt.
        replace (i + 1 + 1 + N.of_nat fu) with (i + 1 + N.succ (N.of_nat fu)) by lia. exact Hlt.
      * right. exact Hle.
      * exists j. repeat split; [exact Hj|lia|exact Hjv|exact Hvj].
    + exists i. repeat split; [lia|exact Hge|exact Hgt].
Qed.

(** the unit index the loop leaves with *)
Definition unit_of (n : N) : N :=
  match unit_loop 8 (round53 n) 0 with Some i => i | None => 0 end.

Lemma round53_u64 n : n < 2 ^ 64 -> round53 n <= 2 ^ 64.
Proof. intros H. apply round53_le_pow. lia. Qed.

Lemma unit_of_spec n : n < 2 ^ 64 ->
  let v := round53 n in let i := unit_of n in
  unit_loop 8 v 0 = Some i /\ i <= 6 /\ (i = 0 \/ 1024 ^ i <= v) /\ v < 1024 ^ (i + 1).
Proof.
  intros Hn v i. pose proof (round53_u64 n Hn) as Hv. fold v in Hv.
  destruct (unit_loop_spec 7 v 0) as (j & Hj & _ & Hjv & Hvj).
  - assert (2 ^ 64 < 1024 ^ (0 + 1 + N.of_nat 7)) by (vm_compute; reflexivity). lia.
  - left. reflexivity.
  - assert (Hi : i = j) by (unfold i, unit_of; fold v; rewrite Hj; reflexivity).
    rewrite Hi. repeat split; [exact Hj| |exact Hjv|exact Hvj].
    destruct Hjv as [->|Hjv]; [lia|].
    assert (Hp : 1024 ^ j < 1024 ^ 7).
    { assert (2 ^ 64 < 1024 ^ 7) by (vm_compute; reflexivity). lia. }
    apply N.pow_lt_mono_r_iff in Hp; lia.
Qed.

(** the word printed after the number *)
Definition word_of (i n : N) : text :=
  if i =? 0 then (if n =? 1 then GenBytes.word_one else GenBytes.word_many)
  else nth (N.to_nat (i - 1)) GenBytes.display_suffixes [].

Lemma round53_eq_1 n : (round53 n =? 1) = (n =? 1).
Proof.
  destruct (N.le_gt_cases n (2 ^ 53)) as [Hs|Hb].
  - rewrite round53_small by exact Hs. reflexivity.
  - pose proof (round53_mono_pow 53 n ltac:(lia)) as Hr.
    assert (2 <= 2 ^ 53) by (vm_compute; discriminate).
    destruct (N.eqb_spec (round53 n) 1); destruct (N.eqb_spec n 1); try reflexivity; lia.
Qed.

Lemma unit_word_ok i n : i <= 6 -> unit_word i (round53 n) = Some (word_of i n).
Proof.
  intros Hi. unfold unit_word, word_of. rewrite round53_eq_1.
  destruct (N.eqb_spec i 0) as [|Hne]; [reflexivity|].
  assert (Hc : i = 1 \/ i = 2 \/ i = 3 \/ i = 4 \/ i = 5 \/ i = 6) by lia.
  destruct Hc as [->|[->|[->|[->|[->| ->]]]]]; vm_compute; reflexivity.
Qed.

(* ---- "{:.2}" then the two trims = at most two decimals, no trailing zeros ---- *)

(** the printed numeral for h hundredths, in the property's words: the integer part, then
    nothing if the fraction is zero, one decimal if the second would be 0, else two *)
Definition two_dec (h : N) : text :=
  let q := h / 100 in let r := h mod 100 in
  if r =? 0 then dec q
  else if r mod 10 =? 0 then dec q ++ [46; 48 + r / 10]
  else dec q ++ [46; 48 + r / 10; 48 + r mod 10].

Lemma uint_bytes_digits u : Forall (fun c => 48 <= c <= 57) (uint_bytes u).
Proof. induction u; cbn [uint_bytes]; constructor; try assumption; lia. Qed.

Lemma dec_digits q : Forall (fun c => 48 <= c <= 57) (dec q).
Proof. apply uint_bytes_digits. Qed.

Lemma trim_end_snoc_eq c l : trim_end c (l ++ [c]) = trim_end c l.
Proof. unfold trim_end. rewrite rev_app_distr. cbn [rev app skip_while]. rewrite N.eqb_refl. reflexivity. Qed.

Lemma trim_end_snoc_ne c x l : x <> c -> trim_end c (l ++ [x]) = l ++ [x].
Proof.
  intros Hx. unfold trim_end. rewrite rev_app_distr. cbn [rev app skip_while].
  destruct (N.eqb_spec c x) as [He|_]; [congruence|].
  change (x :: rev l) with (rev [x] ++ rev l). rewrite <- rev_app_distr. apply rev_involutive.
Qed.

Lemma trim_end_digits c l : (c < 48 \/ 57 < c) -> Forall (fun x => 48 <= x <= 57) l -> trim_end c l = l.
Proof.
  intros Hc Hl. unfold trim_end. apply Forall_rev in Hl.
  destruct (rev l) as [|x r] eqn:E.
  - cbn. rewrite <- (rev_involutive l), E. reflexivity.
  - inversion Hl as [|x' r' Hx Hr]; subst. cbn [skip_while].
    destruct (N.eqb_spec c x); [lia|]. rewrite <- E. apply rev_involutive.
Qed.

Lemma trim_fmt2 h : trim (fmt2 h) = two_dec h.
Proof.
  unfold trim, fmt2, two_dec. cbv zeta.
  set (q := h / 100). set (r := h mod 100).
  assert (Hr : r < 100) by (apply N.mod_lt; lia).
  assert (Hm : h mod 10 = r mod 10).
  { unfold r. pose proof (N.div_mod h 100 ltac:(lia)) as E.
    rewrite E at 1. replace (100 * (h / 100) + h mod 100) with (h mod 100 + (10 * (h / 100)) * 10) by lia.
    apply N.mod_add. lia. }
  rewrite Hm.
  set (a := r / 10). set (b := r mod 10).
  assert (Hab : r = 10 * a + b) by (unfold a, b; apply N.div_mod; lia).
  assert (Hb : b < 10) by (unfold b; apply N.mod_lt; lia).
  assert (Ha : a < 10) by (unfold a; apply N.div_lt_upper_bound; lia).
  pose proof (dec_digits q) as Hq.
  replace (dec q ++ [46; 48 + a; 48 + b]) with (((dec q ++ [46]) ++ [48 + a]) ++ [48 + b])
    by (rewrite <- !app_assoc; reflexivity).
  destruct (N.eqb_spec b 0) as [Hb0|Hb0].
  - rewrite Hb0, N.add_0_r, trim_end_snoc_eq.
    destruct (N.eqb_spec a 0) as [Ha0|Ha0].
    + rewrite Ha0, N.add_0_r, trim_end_snoc_eq.
      rewrite (trim_end_snoc_ne 48 46) by lia.
      rewrite trim_end_snoc_eq, trim_end_digits by (try assumption; lia).
      replace (r =? 0) with true by (symmetry; apply N.eqb_eq; lia). reflexivity.
    + rewrite (trim_end_snoc_ne 48 (48 + a)) by lia.
      rewrite (trim_end_snoc_ne 46 (48 + a)) by lia.
      replace (r =? 0) with false by (symmetry; apply N.eqb_neq; lia).
      rewrite <- !app_assoc. reflexivity.
  - rewrite (trim_end_snoc_ne 48 (48 + b)) by lia.
    rewrite (trim_end_snoc_ne 46 (48 + b)) by lia.
    replace (r =? 0) with false by (symmetry; apply N.eqb_neq; lia).
    rewrite <- !app_assoc. reflexivity.
Qed.

(** what [bs_display] returns, for every u64 *)
Theorem display_eq n : n < 2 ^ 64 ->
  bs_display n = Some (two_dec (hundredths (round53 n) (unit_of n)) ++ 32 :: word_of (unit_of n) n).
Proof.
  intros Hn. destruct (unit_of_spec n Hn) as (Hl & Hi & _ & _).
  unfold bs_display. rewrite Hl, (unit_word_ok _ _ Hi), trim_fmt2. reflexivity.
Qed.

(** the unit is the largest power of 1024 not exceeding the value as a double *)
Theorem display_unit n : n < 2 ^ 64 ->
  let v := round53 n in let i := unit_of n in
  i <= 6 /\ (1 <= v -> 1024 ^ i <= v) /\ v < 1024 ^ (i + 1) /\ (v = 0 -> i = 0).
Proof.
  intros Hn v i. destruct (unit_of_spec n Hn) as (_ & Hi & Hge & Hlt). fold v i in Hi, Hge, Hlt.
  repeat split; [exact Hi| |exact Hlt|].
  - intros Hv. destruct Hge as [->|Hge]; [exact Hv|exact Hge].
  - intros Hv. destruct Hge as [Hge|Hge]; [exact Hge|]. pose proof (pow1024_pos i). lia.
Qed.

(** printed hundredths are within half a hundredth of the double's value in that unit *)
Theorem display_error n :
  let v := round53 n in let u := 1024 ^ unit_of n in let h := hundredths v (unit_of n) in
  2 * (h * u) <= 2 * (100 * v) + u /\ 2 * (100 * v) <= 2 * (h * u) + u.
Proof. cbv zeta. apply rne_div_err. apply pow1024_pos. Qed.

(** hence within half a hundredth of the TRUE value up to 2^53 *)
Theorem display_error_true n : n <= 2 ^ 53 ->
  let u := 1024 ^ unit_of n in let h := hundredths (round53 n) (unit_of n) in
  2 * (h * u) <= 2 * (100 * n) + u /\ 2 * (100 * n) <= 2 * (h * u) + u.
Proof. intros Hn. pose proof (display_error n) as H. rewrite (round53_small n Hn) in *. exact H. Qed.

(** above 2^53 the conversion to double adds at most one part in 2^53 *)
Lemma round53_rel_err n : 2 ^ 53 * round53 n <= 2 ^ 53 * n + n /\ 2 ^ 53 * n <= 2 ^ 53 * round53 n + n.
Proof.
  destruct (N.le_gt_cases n (2 ^ 53)) as [Hs|Hb].
  - rewrite round53_small by exact Hs. lia.
  - unfold round53. destruct (N.ltb_spec n (2 ^ 53)) as [Hlt|_]; [lia|]. cbv zeta.
    assert (Hn : 0 < n) by lia.
    destruct (log2_bounds n Hn) as [L1 _].
    assert (HL : 53 <= N.log2 n) by (apply N.log2_le_pow2; lia).
    set (s := N.log2 n - 52) in *.
    assert (E1 : 2 ^ N.log2 n = 2 ^ 52 * 2 ^ s).
    { rewrite <- N.pow_add_r. f_equal. unfold s. lia. }
    pose proof (pow2_pos s) as Hs.
    destruct (rne_div_err n (2 ^ s) Hs) as [R1 R2].
    set (S := 2 ^ s) in *. set (r := rne_div n S) in *.
    change (2 ^ 53) with (2 * 2 ^ 52). nia.
Qed.

(** the singular word appears exactly for one byte *)
Theorem display_byte_iff n : n < 2 ^ 64 ->
  (word_of (unit_of n) n = GenBytes.word_one <-> n = 1).
Proof.
  intros Hn. destruct (unit_of_spec n Hn) as (_ & Hi & Hge & _).
  unfold word_of. split.
  - destruct (N.eqb_spec (unit_of n) 0) as [_|Hne].
    + destruct (N.eqb_spec n 1); [trivial|]. intros H. vm_compute in H. discriminate.
    + assert (Hc : unit_of n = 1 \/ unit_of n = 2 \/ unit_of n = 3 \/ unit_of n = 4 \/ unit_of n = 5 \/ unit_of n = 6) by lia.
      destruct Hc as [->|[->|[->|[->|[->| ->]]]]]; intros H; vm_compute in H; discriminate.
  - intros ->. reflexivity.
Qed.

(* ================================================================ text level: parse *)

Lemma take_skip_while p l : take_while p l ++ skip_while p l = l.
Proof. induction l as [|c r IH]; [reflexivity|]. cbn. destruct (p c); [cbn; f_equal; exact IH|reflexivity]. Qed.

Lemma take_while_all p l : Forall (fun c => p c = true) (take_while p l).
Proof. induction l as [|c r IH]; cbn; [constructor|]. destruct (p c) eqn:E; constructor; assumption. Qed.

Definition starts_other (p : N -> bool) (s : text) : Prop :=
  match s with [] => True | c :: _ => p c = false end.

Lemma split_while p ds s : Forall (fun c => p c = true) ds -> starts_other p s ->
  take_while p (ds ++ s) = ds /\ skip_while p (ds ++ s) = s.
Proof.
  intros Hd Hs. induction Hd as [|c r Hc Hr IH]; cbn.
  - destruct s as [|c r]; [split; reflexivity|]. cbn in Hs. cbn. rewrite Hs. split; reflexivity.
  - rewrite Hc. destruct IH as [I1 I2]. rewrite I1, I2. split; reflexivity.
Qed.

Lemma skip_while_starts p l : starts_other p (skip_while p l).
Proof. induction l as [|c r IH]; cbn; [trivial|]. destruct (p c) eqn:E; [exact IH|exact E]. Qed.

Lemma uint_bytes_numch u : Forall (fun c => is_numch c = true) (uint_bytes u).
Proof.
  pose proof (uint_bytes_digits u) as H. induction H as [|c r Hc Hr IH]; constructor; [|exact IH].
  unfold is_numch. lia.
Qed.

Lemma is_digit_46 : is_digit 46 = false.
Proof. reflexivity. Qed.

(** number text: integer digits, optionally a dot and fraction digits *)
Definition num_text (ui : uint) (uf : option uint) : text :=
  match uf with None => uint_bytes ui | Some u => uint_bytes ui ++ 46 :: uint_bytes u end.

Definition num_ok (ui : uint) (uf : option uint) : bool :=
  match uf with None => negb (is_nil ui) | Some u => negb (is_nil ui && is_nil u) end.

(** numerator and number of fraction digits denoted by a number text *)
Definition num_frac (uf : option uint) : N := match uf with None => 0 | Some u => N.of_nat (nb_digits u) end.
Definition num_value (ui : uint) (uf : option uint) : N :=
  match uf with None => N.of_uint ui | Some u => N.of_uint ui * 10 ^ N.of_nat (nb_digits u) + N.of_uint u end.

Lemma num_text_numch ui uf : Forall (fun c => is_numch c = true) (num_text ui uf).
Proof.
  destruct uf as [u|]; cbn [num_text]; [|apply uint_bytes_numch].
  apply Forall_app. split; [apply uint_bytes_numch|]. constructor; [reflexivity|apply uint_bytes_numch].
Qed.

Lemma parse_number_text ui uf : num_ok ui uf = true ->
  parse_number (num_text ui uf) = Some (num_value ui uf, num_frac uf).
Proof.
  intros Hok. unfold parse_number. destruct uf as [u|]; cbn [num_text num_ok num_value num_frac] in *.
  - rewrite take_digits_app by reflexivity.
    replace (46 =? 46) with true by reflexivity.
    rewrite <- (app_nil_r (uint_bytes u)). rewrite take_digits_app by reflexivity.
    destruct (is_nil ui && is_nil u); [discriminate|]. reflexivity.
  - rewrite <- (app_nil_r (uint_bytes ui)). rewrite take_digits_app by reflexivity.
    destruct (is_nil ui); [discriminate|]. reflexivity.
Qed.

(** conversely every accepted digit string has that shape *)
Lemma parse_number_shape ds n f : parse_number ds = Some (n, f) ->
  exists ui uf, ds = num_text ui uf /\ num_ok ui uf = true /\ n = num_value ui uf /\ f = num_frac uf.
Proof.
  unfold parse_number. destruct (take_digits ds) as [ui r] eqn:T.
  apply take_digits_exact in T. destruct r as [|c r1].
  - destruct (is_nil ui) eqn:En; [discriminate|]. intros H; inversion H; subst.
    exists ui, None. cbn. rewrite En, app_nil_r. repeat split; reflexivity.
  - destruct (N.eqb_spec c 46) as [->|_]; [|discriminate].
    destruct (take_digits r1) as [uf r2] eqn:T2. apply take_digits_exact in T2.
    destruct r2 as [|c2 r2]; [|discriminate].
    destruct (is_nil ui && is_nil uf) eqn:En; [discriminate|]. intros H; inversion H; subst.
    exists ui, (Some uf). cbn. rewrite En, app_nil_r. repeat split; reflexivity.
Qed.

(* ---- suffix table ---- *)
Lemma text_eqb_eq a : forall b, text_eqb a b = true <-> a = b.
Proof.
  induction a as [|x a IH]; intros [|y b]; cbn; split; intros H; try reflexivity; try discriminate.
  - apply andb_true_iff in H. destruct H as [H1 H2]. apply N.eqb_eq in H1. apply IH in H2. congruence.
  - inversion H; subst. rewrite N.eqb_refl. apply IH. reflexivity.
Qed.

Lemma lookup_some tbl s v : lookup tbl s = Some v -> In (s, v) tbl.
Proof.
  induction tbl as [|[k w] r IH]; cbn; [discriminate|].
  destruct (text_eqb k s) eqn:E.
  - apply text_eqb_eq in E. intros H; inversion H; subst. left. reflexivity.
  - intros H. right. apply IH. exact H.
Qed.

Lemma lookup_none tbl s : lookup tbl s = None -> ~ In s (map fst tbl).
Proof.
  induction tbl as [|[k w] r IH]; cbn; [tauto|].
  destruct (text_eqb k s) eqn:E; [discriminate|].
  intros H [Hk|Hr]; [|exact (IH H Hr)].
  apply text_eqb_eq in Hk. congruence.
Qed.

(** every row of the generated table is found under its own key (no shadowed duplicates) *)
Definition row_found (row : text * N) : bool :=
  match lookup GenBytes.units (fst row) with Some x => x =? snd row | None => false end.

Lemma units_lookup k sh : In (k, sh) GenBytes.units -> lookup GenBytes.units k = Some sh.
Proof.
  assert (H : forallb row_found GenBytes.units = true) by (vm_compute; reflexivity).
  rewrite forallb_forall in H. intros Hin. specialize (H _ Hin).
  unfold row_found in H. cbn [fst snd] in H.
  destruct (lookup GenBytes.units k) as [x|]; [|discriminate]. apply N.eqb_eq in H. congruence.
Qed.

(** no spelling starts with a digit or a dot *)
Definition row_start (row : text * N) : bool :=
  match fst row with [] => true | c :: _ => negb (is_numch c) end.

Lemma units_start k sh : In (k, sh) GenBytes.units -> starts_other is_numch k.
Proof.
  assert (H : forallb row_start GenBytes.units = true) by (vm_compute; reflexivity).
  rewrite forallb_forall in H. intros Hin. specialize (H _ Hin).
  unfold row_start in H. cbn [fst] in H.
  destruct k as [|c r]; cbn [starts_other]; [trivial|]. destruct (is_numch c); [discriminate|reflexivity].
Qed.

Lemma lower_numch c : is_numch c = true -> lower c = c.
Proof.
  unfold is_numch, lower. intros H.
  destruct (N.leb_spec 65 c); destruct (N.leb_spec c 90); cbn [andb]; try lia;
  destruct (N.eqb_spec c 8490); try lia; reflexivity.
Qed.

Lemma lower_starts s : starts_other is_numch (map lower s) -> starts_other is_numch s.
Proof.
  destruct s as [|c r]; cbn; [trivial|]. intros H.
  destruct (is_numch c) eqn:E; [|reflexivity]. rewrite (lower_numch c E) in H. congruence.
Qed.

(** [s] spells, in any letter case, a unit of the table with shift [sh] *)
Definition spells (s : text) (sh : N) : Prop := In (map lower s, sh) GenBytes.units.

Lemma spells_lookup s sh : spells s sh -> lookup_unit s = Some sh.
Proof. apply units_lookup. Qed.

Lemma spells_starts s sh : spells s sh -> starts_other is_numch s.
Proof. intros H. apply lower_starts. exact (units_start _ _ H). Qed.

(** a well-formed number followed by a unit in any case parses to the float-path value *)
Theorem parse_text ui uf s sh : num_ok ui uf = true -> spells s sh ->
  bs_parse (num_text ui uf ++ s) = BsOk (parse_val (num_value ui uf) (num_frac uf) sh).
Proof.
  intros Hok Hs. unfold bs_parse.
  destruct (split_while is_numch (num_text ui uf) s (num_text_numch ui uf) (spells_starts s sh Hs)) as [E1 E2].
  rewrite E1, E2, (parse_number_text ui uf Hok), (spells_lookup s sh Hs). reflexivity.
Qed.

(** and nothing else parses: every accepted text is such a number followed by such a unit *)
Theorem parse_accepts_only t v : bs_parse t = BsOk v ->
  exists ui uf s sh, t = num_text ui uf ++ s /\ num_ok ui uf = true /\ spells s sh /\
                     v = parse_val (num_value ui uf) (num_frac uf) sh.
Proof.
  unfold bs_parse. destruct (parse_number (take_while is_numch t)) as [[n f]|] eqn:P; [|discriminate].
  destruct (lookup_unit (skip_while is_numch t)) as [sh|] eqn:L; [|discriminate].
  intros H; inversion H; subst.
  destruct (parse_number_shape _ _ _ P) as (ui & uf & E & Hok & -> & ->).
  exists ui, uf, (skip_while is_numch t), sh. repeat split; try assumption.
  - rewrite <- E. symmetry. apply take_skip_while.
  - apply lookup_some. exact L.
Qed.

(** rejection, stated directly: unknown suffix *)
Theorem parse_rejects_suffix t :
  ~ In (map lower (skip_while is_numch t)) (map fst GenBytes.units) -> forall v, bs_parse t <> BsOk v.
Proof.
  intros Hn v H. apply parse_accepts_only in H. destruct H as (ui & uf & s & sh & E & _ & Hs & _).
  apply Hn. subst t.
  destruct (split_while is_numch (num_text ui uf) s (num_text_numch ui uf) (spells_starts s sh Hs)) as [_ E2].
  rewrite E2. apply (in_map fst) in Hs. exact Hs.
Qed.

(** rejection, stated directly: the digits-and-dots prefix has no digit or more than one dot *)
Definition ndots (l : text) : nat := length (filter (N.eqb 46) l).
Definition ndigits (l : text) : nat := length (filter is_digit l).

Lemma uint_bytes_counts u : ndots (uint_bytes u) = 0%nat /\ ndigits (uint_bytes u) = nb_digits u.
Proof. unfold ndots, ndigits. induction u; cbn; try (destruct IHu as [I1 I2]; rewrite I1, I2); split; reflexivity. Qed.

Lemma is_nil_digits u : is_nil u = false -> (1 <= nb_digits u)%nat.
Proof. destruct u; cbn; intros H; try discriminate; lia. Qed.

Theorem parse_rejects_number t :
  let ds := take_while is_numch t in
  (ndigits ds = 0 \/ 2 <= ndots ds)%nat -> forall v, bs_parse t <> BsOk v.
Proof.
  intros ds Hbad v H. apply parse_accepts_only in H. destruct H as (ui & uf & s & sh & E & Hok & Hs & _).
  subst t.
  destruct (split_while is_numch (num_text ui uf) s (num_text_numch ui uf) (spells_starts s sh Hs)) as [E1 _].
  unfold ds in Hbad. rewrite E1 in Hbad. clear E1.
  destruct (uint_bytes_counts ui) as [D1 G1].
  destruct uf as [u|]; cbn [num_text num_ok] in *.
  - destruct (uint_bytes_counts u) as [D2 G2].
    unfold ndots, ndigits in *. rewrite !filter_app, !app_length in Hbad. cbn [filter] in Hbad.
    rewrite is_digit_46 in Hbad. replace (46 =? 46) with true in Hbad by reflexivity.
    cbn [length] in Hbad. rewrite D1, D2, G1, G2 in Hbad.
    destruct (is_nil ui) eqn:N1; destruct (is_nil u) eqn:N2; cbn in Hok; try discriminate;
      try (apply is_nil_digits in N1); try (apply is_nil_digits in N2); lia.
  - rewrite D1, G1 in Hbad. destruct (is_nil ui) eqn:N1; [discriminate|]. apply is_nil_digits in N1. lia.
Qed.

(* ================================================================ headline statements *)

Lemma parse_val_zero f sh : parse_val 0 f sh = 0.
Proof. reflexivity. Qed.

(** integers (any number of leading zeros) with every spelling and case of every unit:
    exact whenever the integer has at most 53 significant bits and the product is a u64 *)
Theorem parse_integer_wide ui s sh :
  is_nil ui = false -> spells s sh -> N.of_uint ui < 2 ^ 53 -> N.of_uint ui * 2 ^ sh < 2 ^ 64 ->
  bs_parse (uint_bytes ui ++ s) = BsOk (N.of_uint ui * 2 ^ sh).
Proof.
  intros Hn Hs H53 Hlt. change (uint_bytes ui) with (num_text ui None).
  rewrite (parse_text ui None s sh) by (cbn [num_ok]; try rewrite Hn; trivial).
  cbn [num_value num_frac]. f_equal.
  destruct (N.eq_dec (N.of_uint ui) 0) as [E|E].
  - rewrite E. reflexivity.
  - apply parse_val_integer_wide; [lia|exact H53|exact Hlt].
Qed.

(** in particular whenever the product fits in 53 bits *)
Theorem parse_integer_exact ui s sh :
  is_nil ui = false -> spells s sh -> N.of_uint ui * 2 ^ sh < 2 ^ 53 ->
  bs_parse (uint_bytes ui ++ s) = BsOk (N.of_uint ui * 2 ^ sh).
Proof.
  intros Hn Hs Hlt. pose proof (pow2_pos sh) as Hp.
  assert (2 ^ 53 < 2 ^ 64) by (vm_compute; reflexivity).
  apply parse_integer_wide; [exact Hn|exact Hs|nia|lia].
Qed.

Corollary parse_canonical_integer n s sh :
  spells s sh -> n * 2 ^ sh < 2 ^ 53 -> bs_parse (dec n ++ s) = BsOk (n * 2 ^ sh).
Proof.
  intros Hs Hlt. unfold dec. rewrite <- (DecimalN.Unsigned.of_to n) at 2.
  apply parse_integer_exact; [|exact Hs|rewrite DecimalN.Unsigned.of_to; exact Hlt].
  pose proof (to_uint_canon n) as Hc. destruct (N.to_uint n); [discriminate|reflexivity..].
Qed.

(** decimal fractions whose product is a whole number below 2^53 (1.5pib, 0.25gib, …) *)
Theorem parse_fraction_integral ui u s sh :
  num_ok ui (Some u) = true -> spells s sh ->
  let D := 10 ^ N.of_nat (nb_digits u) in
  let A := (N.of_uint ui * D + N.of_uint u) * 2 ^ sh in
  A mod D = 0 -> A / D < 2 ^ 53 ->
  bs_parse (uint_bytes ui ++ 46 :: uint_bytes u ++ s) = BsOk (A / D).
Proof.
  intros Hok Hs D A HR HP.
  replace (uint_bytes ui ++ 46 :: uint_bytes u ++ s) with (num_text ui (Some u) ++ s)
    by (cbn [num_text]; rewrite <- app_assoc; reflexivity).
  rewrite (parse_text ui (Some u) s sh Hok Hs). cbn [num_value num_frac]. f_equal.
  fold D. set (n := N.of_uint ui * D + N.of_uint u) in *.
  destruct (N.eq_dec n 0) as [E|E].
  - unfold A. rewrite E. cbn [N.mul].
    rewrite N.div_0_l by (pose proof (pow10_pos (N.of_nat (nb_digits u))) as HD; fold D in HD; lia). reflexivity.
  - apply parse_val_integral; [lia|exact HR|exact HP].
Qed.

(** decimal fractions: I.F with any digits, product below 2^46, fractional part of the
    product zero or between 1% and 99% *)
Theorem parse_fraction_exact ui u s sh :
  num_ok ui (Some u) = true -> spells s sh ->
  let D := 10 ^ N.of_nat (nb_digits u) in
  let A := (N.of_uint ui * D + N.of_uint u) * 2 ^ sh in
  let R := A mod D in
  A < D * 2 ^ 46 -> (R = 0 \/ (D <= 100 * R /\ 100 * R <= 99 * D)) ->
  bs_parse (uint_bytes ui ++ 46 :: uint_bytes u ++ s) = BsOk (A / D).
Proof.
  intros Hok Hs D A R HA HR.
  replace (uint_bytes ui ++ 46 :: uint_bytes u ++ s) with (num_text ui (Some u) ++ s)
    by (cbn [num_text]; rewrite <- app_assoc; reflexivity).
  rewrite (parse_text ui (Some u) s sh Hok Hs). cbn [num_value num_frac]. f_equal.
  fold D. set (n := N.of_uint ui * D + N.of_uint u) in *.
  destruct (N.eq_dec n 0) as [E|E].
  - unfold A. rewrite E. cbn [N.mul]. rewrite N.div_0_l by (pose proof (pow10_pos (N.of_nat (nb_digits u))); fold D in H; lia). reflexivity.
  - apply parse_val_fraction; [lia|exact HA|exact HR].
Qed.

(** with at most two decimals the side condition on the fractional part always holds *)
Theorem parse_two_decimals ui u s sh :
  num_ok ui (Some u) = true -> spells s sh -> (nb_digits u <= 2)%nat ->
  let D := 10 ^ N.of_nat (nb_digits u) in
  let A := (N.of_uint ui * D + N.of_uint u) * 2 ^ sh in
  A < D * 2 ^ 46 ->
  bs_parse (uint_bytes ui ++ 46 :: uint_bytes u ++ s) = BsOk (A / D).
Proof.
  intros Hok Hs Hf D A HA. apply parse_fraction_exact; try assumption. fold D. fold A.
  assert (HD : D = 1 \/ D = 10 \/ D = 100).
  { unfold D. destruct (nb_digits u) as [|[|[|k]]]; [left|right; left|right; right|lia]; reflexivity. }
  pose proof (N.mod_lt A D) as HR.
  destruct HD as [E|[E|E]]; rewrite E in *; specialize (HR ltac:(lia)); lia.
Qed.

(** the residual class of fractional parsing, and the theorem outside it: every fraction with
    at most two decimals whose product fits in 53 bits is the exact truncated product, unless
    the product is not a whole number and is at least 2^46 *)
Definition known_parse (A D : N) : Prop := D * 2 ^ 46 <= A /\ A mod D <> 0.

Theorem parse_two_decimals_unless_known ui u s sh :
  num_ok ui (Some u) = true -> spells s sh -> (nb_digits u <= 2)%nat ->
  let D := 10 ^ N.of_nat (nb_digits u) in
  let A := (N.of_uint ui * D + N.of_uint u) * 2 ^ sh in
  A / D < 2 ^ 53 -> ~ known_parse A D ->
  bs_parse (uint_bytes ui ++ 46 :: uint_bytes u ++ s) = BsOk (A / D).
Proof.
  intros Hok Hs Hf D A HP Hk.
  destruct (N.eq_dec (A mod D) 0) as [HR|HR].
  - apply parse_fraction_integral; assumption.
  - apply parse_two_decimals; try assumption. fold D. fold A.
    destruct (N.lt_ge_cases A (D * 2 ^ 46)) as [Hlt|Hge]; [exact Hlt|].
    exfalso. apply Hk. split; assumption.
Qed.

(** the two residual classes of the float path (DESIGN section C16), by witness *)
Definition txt_4503599627370496_75 : text :=
  [52;53;48;51;53;57;57;54;50;55;51;55;48;52;57;54;46;55;53].

Lemma parse_fraction_residual :
  exists ui u, uint_bytes ui ++ 46 :: uint_bytes u = txt_4503599627370496_75 /\
    let D := 10 ^ N.of_nat (nb_digits u) in let A := (N.of_uint ui * D + N.of_uint u) * 2 ^ 0 in
    (nb_digits u <= 2)%nat /\ known_parse A D /\ A / D < 2 ^ 53 /\
    bs_parse (uint_bytes ui ++ 46 :: uint_bytes u ++ []) = BsOk (A / D + 1).
Proof.
  exists (N.to_uint 4503599627370496), (D7 (D5 Nil)). unfold known_parse. vm_compute.
  split; [reflexivity|]. split; [apply le_n|]. split; [split; discriminate|]. split; reflexivity.
Qed.

Lemma display_residual :
  exists n, 2 ^ 53 < n /\ n < 2 ^ 64 /\
    let u := 1024 ^ unit_of n in let h := hundredths (round53 n) (unit_of n) in
    2 * (h * u) + u < 2 * (100 * n).
Proof. exists (2 ^ 53 + 2 ^ 47 + 1). vm_compute. repeat split; reflexivity. Qed.

(* ================================================================ the printed numeral denotes h / 100 *)

(** hundredths denoted by a numeral with at most two decimals, read with the model's own
    number reader *)
Definition numeral_hundredths (t : text) : option N :=
  match parse_number t with
  | Some (n, f) => if f <=? 2 then Some (n * 10 ^ (2 - f)) else None
  | None => None
  end.

Definition dg (a : N) (u : uint) : uint :=
  if a =? 0 then D0 u else if a =? 1 then D1 u else if a =? 2 then D2 u else if a =? 3 then D3 u
  else if a =? 4 then D4 u else if a =? 5 then D5 u else if a =? 6 then D6 u else if a =? 7 then D7 u
  else if a =? 8 then D8 u else D9 u.

Ltac ten_cases a Ha :=
  let H := fresh "Hc" in
  assert (H : a = 0 \/ a = 1 \/ a = 2 \/ a = 3 \/ a = 4 \/ a = 5 \/ a = 6 \/ a = 7 \/ a = 8 \/ a = 9) by lia;
  clear Ha; destruct H as [->|[->|[->|[->|[->|[->|[->|[->|[->| ->]]]]]]]]].

Lemma dg_bytes a u : a < 10 -> uint_bytes (dg a u) = (48 + a) :: uint_bytes u.
Proof. intros Ha. ten_cases a Ha; reflexivity. Qed.

Lemma dg1_value a : a < 10 -> N.of_uint (dg a Nil) = a /\ nb_digits (dg a Nil) = 1%nat.
Proof. intros Ha. ten_cases a Ha; split; reflexivity. Qed.

Lemma dg2_value a b : a < 10 -> b < 10 ->
  N.of_uint (dg a (dg b Nil)) = 10 * a + b /\ nb_digits (dg a (dg b Nil)) = 2%nat.
Proof. intros Ha Hb. ten_cases a Ha; ten_cases b Hb; split; reflexivity. Qed.

Lemma to_uint_not_nil q : is_nil (N.to_uint q) = false.
Proof. pose proof (to_uint_canon q) as Hc. destruct (N.to_uint q); [discriminate|reflexivity..]. Qed.

Theorem two_dec_denotes h : numeral_hundredths (two_dec h) = Some h.
Proof.
  unfold numeral_hundredths, two_dec. cbv zeta.
  pose proof (N.div_mod h 100 ltac:(lia)) as Eh.
  set (q := h / 100) in *. set (r := h mod 100) in *.
  assert (Hr : r < 100) by (apply N.mod_lt; lia).
  set (a := r / 10). set (b := r mod 10).
  assert (Hab : r = 10 * a + b) by (unfold a, b; apply N.div_mod; lia).
  assert (Hb : b < 10) by (unfold b; apply N.mod_lt; lia).
  assert (Ha : a < 10) by (unfold a; apply N.div_lt_upper_bound; lia).
  pose proof (to_uint_not_nil q) as Hq.
  destruct (N.eqb_spec r 0) as [Hr0|Hr0].
  - change (dec q) with (num_text (N.to_uint q) None).
    rewrite parse_number_text by (cbn [num_ok]; rewrite Hq; reflexivity).
    cbn [num_value num_frac]. rewrite DecimalN.Unsigned.of_to.
    change (0 <=? 2) with true. change (10 ^ (2 - 0)) with 100. cbv iota. f_equal. lia.
  - destruct (N.eqb_spec b 0) as [Hb0|Hb0].
    + destruct (dg1_value a Ha) as [V1 V2].
      replace (dec q ++ [46; 48 + a]) with (num_text (N.to_uint q) (Some (dg a Nil)))
        by (cbn [num_text]; rewrite dg_bytes by exact Ha; reflexivity).
      rewrite parse_number_text by (cbn [num_ok]; rewrite Hq; reflexivity).
      cbn [num_value num_frac]. rewrite V1, V2, DecimalN.Unsigned.of_to.
      change (N.of_nat 1 <=? 2) with true. change (10 ^ (2 - N.of_nat 1)) with 10. change (10 ^ N.of_nat 1) with 10.
      cbv iota. f_equal. lia.
    + destruct (dg2_value a b Ha Hb) as [V1 V2].
      replace (dec q ++ [46; 48 + a; 48 + b]) with (num_text (N.to_uint q) (Some (dg a (dg b Nil))))
        by (cbn [num_text]; rewrite !dg_bytes by assumption; reflexivity).
      rewrite parse_number_text by (cbn [num_ok]; rewrite Hq; reflexivity).
      cbn [num_value num_frac]. rewrite V1, V2, DecimalN.Unsigned.of_to.
      change (N.of_nat 2 <=? 2) with true. change (10 ^ (2 - N.of_nat 2)) with 1. change (10 ^ N.of_nat 2) with 100.
      cbv iota. f_equal. lia.
Qed.

(** for every u64, against the TRUE value: half a hundredth of the unit plus the relative
    2^-53 of the conversion to double (scaled by 2^53 to stay in integers) *)
Theorem display_error_all n :
  let u := 1024 ^ unit_of n in let h := hundredths (round53 n) (unit_of n) in
  2 ^ 53 * (2 * (h * u)) <= 2 ^ 53 * (2 * (100 * n) + u) + 200 * n /\
  2 ^ 53 * (2 * (100 * n)) <= 2 ^ 53 * (2 * (h * u) + u) + 200 * n.
Proof.
  cbv zeta. destruct (display_error n) as [E1 E2]. destruct (round53_rel_err n) as [R1 R2].
  cbv zeta in E1, E2.
  set (u := 1024 ^ unit_of n) in *. set (h := hundredths (round53 n) (unit_of n)) in *.
  set (v := round53 n) in *. set (C := 2 ^ 53) in *. nia.
Qed.
