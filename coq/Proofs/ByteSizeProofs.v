(** Proofs about Model/ByteSize.v (C16). *)
From Coq Require Import Decimal DecimalN DecimalFacts.
From Coq Require Import NArith ZArith Lia Bool List ZifyN ZifyBool.
From Imdl Require Import Model.Bencode Model.Float53 Model.ByteSize Generated.GenBytes
  Proofs.Float53Proofs Proofs.BencodeProofs.
Import ListNotations.
Local Open Scope N_scope.

(* ================================================================ numeric core: parsing *)

Lemma pow10_pos f : 0 < 10 ^ f.
Proof. apply N.neq_0_lt_0, N.pow_nonzero. lia. Qed.

Lemma U128_MAX_eq : U128_MAX = 340282366920938463463374607431768211455.
Proof. reflexivity. Qed.
Lemma U64_MAX_eq : U64_MAX = 18446744073709551615.
Proof. reflexivity. Qed.

Lemma chk128_ok x : x <= U128_MAX -> chk128 x = Some x.
Proof. intros H. unfold chk128. destruct (N.leb_spec x U128_MAX); [reflexivity|lia]. Qed.

(** all characters are decimal digits *)
Definition all_dec (l : text) : Prop := Forall (fun c => 48 <= c <= 57) l.

(** value of a digit string, most significant digit first *)
Fixpoint tval (l : text) : N :=
  match l with [] => 0 | c :: r => (c - 48) * 10 ^ N.of_nat (length r) + tval r end.

Lemma digit_val_dec c : 48 <= c <= 57 -> digit_val c = Some (c - 48).
Proof.
  intros H. unfold digit_val.
  destruct (N.leb_spec 48 c); destruct (N.leb_spec c 57); cbn [andb]; try lia; reflexivity.
Qed.

Lemma pow10_succ_len {A} (c : A) (r : list A) :
  10 ^ N.of_nat (length (c :: r)) = 10 * 10 ^ N.of_nat (length r).
Proof. cbn [length]. rewrite Nat2N.inj_succ, N.pow_succ_r'. reflexivity. Qed.

Lemma tval_lt l : all_dec l -> tval l < 10 ^ N.of_nat (length l).
Proof.
  intros H. induction H as [|c r Hc Hr IH].
  - cbn. lia.
  - rewrite pow10_succ_len. cbn [tval]. set (P := 10 ^ N.of_nat (length r)) in *. nia.
Qed.

(** the plain (unsaturated) digit loop *)
Definition dstep (acc c : N) : N := acc * 10 + (c - 48).

Lemma dstep_fold l : forall acc, fold_left dstep l acc = acc * 10 ^ N.of_nat (length l) + tval l.
Proof.
  induction l as [|c r IH]; intros acc.
  - cbn. lia.
  - cbn [fold_left]. rewrite IH. rewrite pow10_succ_len. cbn [tval]. unfold dstep. lia.
Qed.

Lemma of_uint_acc_fold u : forall p, N.pos (Pos.of_uint_acc u p) = fold_left dstep (uint_bytes u) (N.pos p).
Proof.
  induction u as [|u IH|u IH|u IH|u IH|u IH|u IH|u IH|u IH|u IH|u IH]; intros p;
    cbn [Pos.of_uint_acc uint_bytes fold_left]; [reflexivity|..];
    rewrite IH; f_equal; unfold dstep; lia.
Qed.

Lemma of_uint_fold u : N.of_uint u = fold_left dstep (uint_bytes u) 0.
Proof.
  unfold N.of_uint.
  induction u as [|u IH|u IH|u IH|u IH|u IH|u IH|u IH|u IH|u IH|u IH];
    cbn [Pos.of_uint uint_bytes fold_left]; [reflexivity|exact IH|..];
    rewrite of_uint_acc_fold; reflexivity.
Qed.

(** the digit string of [u] denotes [N.of_uint u] *)
Lemma tval_uint u : tval (uint_bytes u) = N.of_uint u.
Proof. rewrite of_uint_fold, dstep_fold. lia. Qed.

Lemma length_uint_bytes u : length (uint_bytes u) = nb_digits u.
Proof. induction u; cbn; try rewrite IHu; reflexivity. Qed.

(** whole part: the saturating loop computes the saturated value *)
Lemma whole_step_sat acc c : 48 <= c <= 57 ->
  whole_step (sat128 acc) c = sat128 (dstep acc c).
Proof.
  intros Hc. unfold whole_step, dstep. rewrite (digit_val_dec c Hc).
  change GenBytes.parse_base with 10. unfold sat128. rewrite U128_MAX_eq. lia.
Qed.

Lemma whole_fold l : all_dec l -> forall acc,
  fold_left whole_step l (sat128 acc) = sat128 (fold_left dstep l acc).
Proof.
  intros H. induction H as [|c r Hc Hr IH]; intros acc; [reflexivity|].
  cbn [fold_left]. rewrite whole_step_sat by exact Hc. apply IH.
Qed.

Lemma whole_fold_value l : all_dec l -> fold_left whole_step l 0 = sat128 (tval l).
Proof.
  intros H. change 0 with (sat128 0) at 1. rewrite (whole_fold l H 0), dstep_fold. f_equal; lia.
Qed.

(** fraction part: the loop from the last digit computes floor(multiple * 0.d1…dk), and no
    operator overflows for any multiplier that fits in a u64 *)
Lemma frac_fold m l : m <= 2 ^ 64 -> all_dec l ->
  fold_right (frac_step m) (Some 0) l = Some (m * tval l / 10 ^ N.of_nat (length l)).
Proof.
  intros Hm H. induction H as [|c r Hc Hr IH].
  - cbn. rewrite N.mul_0_r. reflexivity.
  - cbn [fold_right]. rewrite IH. unfold frac_step. rewrite (digit_val_dec c Hc).
    rewrite pow10_succ_len. cbn [tval].
    set (P := 10 ^ N.of_nat (length r)). set (d := c - 48). set (a := m * tval r / P).
    assert (HP : 0 < P) by apply pow10_pos.
    assert (Hd : d <= 9) by (unfold d; lia).
    assert (Ha : a <= m).
    { unfold a. apply N.div_le_upper_bound; [lia|]. pose proof (tval_lt r Hr) as Ht. fold P in Ht. nia. }
    assert (H64 : 2 ^ 64 = 18446744073709551616) by reflexivity.
    rewrite chk128_ok by (rewrite U128_MAX_eq; nia).
    rewrite chk128_ok by (rewrite U128_MAX_eq; nia).
    change GenBytes.parse_base with 10. f_equal.
    replace (m * (d * P + tval r)) with (d * m * P + m * tval r) by lia.
    rewrite (N.mul_comm 10 P), <- N.div_div by lia.
    rewrite N.div_add_l by lia. reflexivity.
Qed.

(** digits.split_once('.') *)
Lemma split_dot_app w f : all_dec w -> split_dot (w ++ 46 :: f) = (w, f).
Proof.
  intros H. induction H as [|c r Hc Hr IH]; cbn [app split_dot].
  - rewrite N.eqb_refl. reflexivity.
  - destruct (N.eqb_spec c 46); [lia|]. rewrite IH. reflexivity.
Qed.

Lemma split_dot_nodot w : all_dec w -> split_dot w = (w, []).
Proof.
  intros H. induction H as [|c r Hc Hr IH]; cbn [split_dot]; [reflexivity|].
  destruct (N.eqb_spec c 46); [lia|]. rewrite IH. reflexivity.
Qed.

(** the saturating combination followed by the conversion to u64 is one clamp at 2^64-1 *)
Lemma sat_combine W m P : 1 <= m ->
  to_u64_sat (sat128 (sat128 (sat128 W * m) + P)) = N.min (W * m + P) U64_MAX.
Proof.
  intros Hm. unfold to_u64_sat, sat128. rewrite U64_MAX_eq, U128_MAX_eq.
  set (M := 340282366920938463463374607431768211455).
  destruct (N.le_gt_cases W M) as [HW|HW].
  - rewrite (N.min_l W M HW). set (X := W * m).
    destruct (N.leb_spec (N.min (N.min X M + P) M) 18446744073709551615); unfold M in *; lia.
  - rewrite (N.min_r W M) by lia.
    assert (M <= M * m) by nia. assert (M < W * m) by nia.
    set (X := W * m) in *. set (Y := M * m) in *.
    destruct (N.leb_spec (N.min (N.min Y M + P) M) 18446744073709551615); unfold M in *; lia.
Qed.

(* ================================================================ display *)

Lemma pow1024_pos i : 0 < 1024 ^ i.
Proof. apply N.neq_0_lt_0, N.pow_nonzero. lia. Qed.

Lemma pow1024_succ i : 1024 * 1024 ^ i = 1024 ^ (i + 1).
Proof. rewrite N.add_1_r, N.pow_succ_r'. reflexivity. Qed.

Lemma unit_loop_S fu v i u :
  unit_loop (S fu) v i u =
  if 1024 ^ (i + 1) <=? v then unit_loop fu v (i + 1) (sat128 (u * 1024)) else Some (i, u).
Proof. cbn [unit_loop]. rewrite pow1024_succ. reflexivity. Qed.

Lemma pow1024_le_128 i : i <= 12 -> 1024 ^ i <= U128_MAX.
Proof.
  intros Hi. assert (H : 1024 ^ i <= 1024 ^ 12) by (apply N.pow_le_mono_r; lia).
  assert (1024 ^ 12 <= U128_MAX) by (vm_compute; discriminate). lia.
Qed.

(** the loop leaves with the largest unit not above v, and with unit = 1024^i (the saturating
    multiplication never saturates) *)
Lemma unit_loop_spec fu : forall v i,
  v < 1024 ^ (i + 1 + N.of_nat fu) -> i + 1 + N.of_nat fu <= 12 -> (i = 0 \/ 1024 ^ i <= v) ->
  exists j, unit_loop (S fu) v i (1024 ^ i) = Some (j, 1024 ^ j) /\ i <= j /\ (j = 0 \/ 1024 ^ j <= v) /\ v < 1024 ^ (j + 1).
Proof.
  induction fu as [|fu IH]; intros v i Hlt Hb Hge; rewrite unit_loop_S.
  - rewrite N.add_0_r in Hlt. exists i.
    destruct (N.leb_spec (1024 ^ (i + 1)) v) as [Hle|Hgt]; [lia|].
    repeat split; [lia|exact Hge|exact Hlt].
  - destruct (N.leb_spec (1024 ^ (i + 1)) v) as [Hle|Hgt].
    + assert (Hu : sat128 (1024 ^ i * 1024) = 1024 ^ (i + 1)).
      { rewrite N.mul_comm, pow1024_succ. unfold sat128. apply N.min_l. apply pow1024_le_128. lia. }
      rewrite Hu.
      destruct (IH v (i + 1)) as (j & Hj & Hij & Hjv & Hvj).
      * rewrite Nat2N.inj_succ in Hlt.
        replace (i + 1 + 1 + N.of_nat fu) with (i + 1 + N.succ (N.of_nat fu)) by lia. exact Hlt.
      * rewrite Nat2N.inj_succ in Hb. lia.
      * right. exact Hle.
      * exists j. repeat split; [exact Hj|lia|exact Hjv|exact Hvj].
    + exists i. repeat split; [lia|exact Hge|exact Hgt].
Qed.

(** the unit index the loop leaves with *)
Definition unit_of (n : N) : N :=
  match unit_loop 8 (round53 n) 0 1 with Some (i, _) => i | None => 0 end.

Lemma round53_u64 n : n < 2 ^ 64 -> round53 n <= 2 ^ 64.
Proof. intros H. apply round53_le_pow. lia. Qed.

Lemma unit_of_spec n : n < 2 ^ 64 ->
  let v := round53 n in let i := unit_of n in
  unit_loop 8 v 0 1 = Some (i, 1024 ^ i) /\ i <= 6 /\ (i = 0 \/ 1024 ^ i <= v) /\ v < 1024 ^ (i + 1).
Proof.
  intros Hn v i. pose proof (round53_u64 n Hn) as Hv. fold v in Hv.
  destruct (unit_loop_spec 7 v 0) as (j & Hj & _ & Hjv & Hvj).
  - assert (2 ^ 64 < 1024 ^ (0 + 1 + N.of_nat 7)) by (vm_compute; reflexivity). lia.
  - vm_compute. discriminate.
  - left. reflexivity.
  - change (1024 ^ 0) with 1 in Hj.
    assert (Hi : i = j) by (unfold i, unit_of; fold v; rewrite Hj; reflexivity).
    rewrite Hi. repeat split; [exact Hj| |exact Hjv|exact Hvj].
    destruct Hjv as [->|Hjv]; [lia|].
    assert (Hp : 1024 ^ j < 1024 ^ 7).
    { assert (2 ^ 64 < 1024 ^ 7) by (vm_compute; reflexivity). lia. }
    apply N.pow_lt_mono_r_iff in Hp; lia.
Qed.

(** the word printed after the number *)
Definition word_of (i n : N) : text :=
  if i =? 0 then (if n =? 1 then GenBytes.word_one else GenBytes.word_many)
  else nth (N.to_nat (i - 1)) GenBytes.display_suffixes [].

Lemma round53_eq_1 n : (round53 n =? 1) = (n =? 1).
Proof.
  destruct (N.le_gt_cases n (2 ^ 53)) as [Hs|Hb].
  - rewrite round53_small by exact Hs. reflexivity.
  - pose proof (round53_mono_pow 53 n ltac:(lia)) as Hr.
    assert (2 <= 2 ^ 53) by (vm_compute; discriminate).
    destruct (N.eqb_spec (round53 n) 1); destruct (N.eqb_spec n 1); try reflexivity; lia.
Qed.

Lemma unit_word_ok i n : i <= 6 -> unit_word i (round53 n) = Some (word_of i n).
Proof.
  intros Hi. unfold unit_word, word_of. rewrite round53_eq_1.
  destruct (N.eqb_spec i 0) as [|Hne]; [reflexivity|].
  assert (Hc : i = 1 \/ i = 2 \/ i = 3 \/ i = 4 \/ i = 5 \/ i = 6) by lia.
  destruct Hc as [->|[->|[->|[->|[->| ->]]]]]; vm_compute; reflexivity.
Qed.

(* ---- "{:.2}" then the two trims = at most two decimals, no trailing zeros ---- *)

(** the printed numeral for h hundredths, in the property's words: the integer part, then
    nothing if the fraction is zero, one decimal if the second would be 0, else two *)
Definition two_dec (h : N) : text :=
  let q := h / 100 in let r := h mod 100 in
  if r =? 0 then dec q
  else if r mod 10 =? 0 then dec q ++ [46; 48 + r / 10]
  else dec q ++ [46; 48 + r / 10; 48 + r mod 10].

Lemma uint_bytes_digits u : Forall (fun c => 48 <= c <= 57) (uint_bytes u).
Proof. induction u; cbn [uint_bytes]; constructor; try assumption; lia. Qed.

Lemma dec_digits q : Forall (fun c => 48 <= c <= 57) (dec q).
Proof. apply uint_bytes_digits. Qed.

Lemma trim_end_snoc_eq c l : trim_end c (l ++ [c]) = trim_end c l.
Proof. unfold trim_end. rewrite rev_app_distr. cbn [rev app skip_while]. rewrite N.eqb_refl. reflexivity. Qed.

Lemma trim_end_snoc_ne c x l : x <> c -> trim_end c (l ++ [x]) = l ++ [x].
Proof.
  intros Hx. unfold trim_end. rewrite rev_app_distr. cbn [rev app skip_while].
  destruct (N.eqb_spec c x) as [He|_]; [congruence|].
  change (x :: rev l) with (rev [x] ++ rev l). rewrite <- rev_app_distr. apply rev_involutive.
Qed.

Lemma trim_end_digits c l : (c < 48 \/ 57 < c) -> Forall (fun x => 48 <= x <= 57) l -> trim_end c l = l.
Proof.
  intros Hc Hl. unfold trim_end. apply Forall_rev in Hl.
  destruct (rev l) as [|x r] eqn:E.
  - cbn. rewrite <- (rev_involutive l), E. reflexivity.
  - inversion Hl as [|x' r' Hx Hr]; subst. cbn [skip_while].
    destruct (N.eqb_spec c x); [lia|]. rewrite <- E. apply rev_involutive.
Qed.

Lemma trim_fmt2 h : trim (fmt2 h) = two_dec h.
Proof.
  unfold trim, fmt2, two_dec. cbv zeta.
  set (q := h / 100). set (r := h mod 100).
  assert (Hr : r < 100) by (apply N.mod_lt; lia).
  assert (Hm : h mod 10 = r mod 10).
  { unfold r. pose proof (N.div_mod h 100 ltac:(lia)) as E.
    rewrite E at 1. replace (100 * (h / 100) + h mod 100) with (h mod 100 + (10 * (h / 100)) * 10) by lia.
    apply N.mod_add. lia. }
  rewrite Hm.
  set (a := r / 10). set (b := r mod 10).
  assert (Hab : r = 10 * a + b) by (unfold a, b; apply N.div_mod; lia).
  assert (Hb : b < 10) by (unfold b; apply N.mod_lt; lia).
  assert (Ha : a < 10) by (unfold a; apply N.div_lt_upper_bound; lia).
  pose proof (dec_digits q) as Hq.
  replace (dec q ++ [46; 48 + a; 48 + b]) with (((dec q ++ [46]) ++ [48 + a]) ++ [48 + b])
    by (rewrite <- !app_assoc; reflexivity).
  destruct (N.eqb_spec b 0) as [Hb0|Hb0].
  - rewrite Hb0, N.add_0_r, trim_end_snoc_eq.
    destruct (N.eqb_spec a 0) as [Ha0|Ha0].
    + rewrite Ha0, N.add_0_r, trim_end_snoc_eq.
      rewrite (trim_end_snoc_ne 48 46) by lia.
      rewrite trim_end_snoc_eq, trim_end_digits by (try assumption; lia).
      replace (r =? 0) with true by (symmetry; apply N.eqb_eq; lia). reflexivity.
    + rewrite (trim_end_snoc_ne 48 (48 + a)) by lia.
      rewrite (trim_end_snoc_ne 46 (48 + a)) by lia.
      replace (r =? 0) with false by (symmetry; apply N.eqb_neq; lia).
      rewrite <- !app_assoc. reflexivity.
  - rewrite (trim_end_snoc_ne 48 (48 + b)) by lia.
    rewrite (trim_end_snoc_ne 46 (48 + b)) by lia.
    replace (r =? 0) with false by (symmetry; apply N.eqb_neq; lia).
    rewrite <- !app_assoc. reflexivity.
Qed.

(* ---- the two decimals, computed from the integer ---- *)

Lemma even_mod2 q : N.even q = (q mod 2 =? 0).
Proof.
  pose proof (N.div_mod q 2 ltac:(lia)) as E. pose proof (N.mod_lt q 2 ltac:(lia)) as L.
  rewrite E at 1. rewrite N.add_comm, N.even_add_mul_2.
  assert (Hc : q mod 2 = 0 \/ q mod 2 = 1) by lia. destruct Hc as [->| ->]; reflexivity.
Qed.

(** the three-way match of the code is round-half-even division, and none of its u128
    operators can overflow or divide by zero for a u64 value and a unit up to 2^64 *)
Lemma hundredths_spec n u : n < 2 ^ 64 -> 0 < u -> u <= 2 ^ 64 ->
  hundredths n u = Some (rne_div (100 * n) u).
Proof.
  intros Hn Hu0 Hu. unfold hundredths. change GenBytes.disp_scale with 100.
  assert (H64 : 2 ^ 64 = 18446744073709551616) by reflexivity.
  rewrite chk128_ok by (rewrite U128_MAX_eq; lia).
  destruct (N.eqb_spec u 0) as [|_]; [lia|].
  set (a := 100 * n). pose proof (N.mod_lt a u ltac:(lia)) as Hr.
  rewrite chk128_ok by (rewrite U128_MAX_eq; lia).
  assert (Hq : a / u <= a) by (apply N.div_le_upper_bound; [lia|nia]).
  unfold rne_div. cbv zeta.
  set (q := a / u) in *. set (r := a mod u) in *.
  assert (Ha : a < 100 * 2 ^ 64) by (unfold a; lia). clearbody q r a.
  destruct (N.compare_spec (2 * r) u) as [He|Hl|Hg].
  - destruct (N.ltb_spec (2 * r) u); [lia|]. destruct (N.ltb_spec u (2 * r)); [lia|].
    pose proof (N.mod_lt q 2 ltac:(lia)) as Hm.
    rewrite chk128_ok by (rewrite U128_MAX_eq; lia).
    rewrite even_mod2. destruct (N.eqb_spec (q mod 2) 0) as [E0|E0]; cbv iota; f_equal; lia.
  - destruct (N.ltb_spec (2 * r) u); [reflexivity|lia].
  - destruct (N.ltb_spec (2 * r) u); [lia|]. destruct (N.ltb_spec u (2 * r)); [|lia].
    apply chk128_ok. rewrite U128_MAX_eq. lia.
Qed.

(** hundredths of the unit printed for n: the TRUE value 100 n / 1024^i, ties to even *)
Definition hund (n : N) : N := rne_div (100 * n) (1024 ^ unit_of n).

(** what [bs_display] returns, for every u64 (in particular: never a panic) *)
Theorem display_eq n : n < 2 ^ 64 ->
  bs_display n = Some (two_dec (hund n) ++ 32 :: word_of (unit_of n) n).
Proof.
  intros Hn. destruct (unit_of_spec n Hn) as (Hl & Hi & _ & _).
  unfold bs_display. rewrite Hl, (unit_word_ok _ _ Hi).
  rewrite hundredths_spec; [rewrite trim_fmt2; reflexivity|exact Hn|apply pow1024_pos|].
  assert (H : 1024 ^ unit_of n <= 1024 ^ 6) by (apply N.pow_le_mono_r; lia).
  assert (1024 ^ 6 <= 2 ^ 64) by (vm_compute; discriminate). lia.
Qed.

(** the unit is the largest power of 1024 not exceeding the value as a double *)
Theorem display_unit n : n < 2 ^ 64 ->
  let v := round53 n in let i := unit_of n in
  i <= 6 /\ (1 <= v -> 1024 ^ i <= v) /\ v < 1024 ^ (i + 1) /\ (v = 0 -> i = 0).
Proof.
  intros Hn v i. destruct (unit_of_spec n Hn) as (_ & Hi & Hge & Hlt). fold v i in Hi, Hge, Hlt.
  repeat split; [exact Hi| |exact Hlt|].
  - intros Hv. destruct Hge as [->|Hge]; [exact Hv|exact Hge].
  - intros Hv. destruct Hge as [Hge|Hge]; [exact Hge|]. pose proof (pow1024_pos i). lia.
Qed.

(** printed hundredths are within half a hundredth of the unit of the TRUE value, for every n *)
Theorem display_error n :
  let u := 1024 ^ unit_of n in let h := hund n in
  2 * (h * u) <= 2 * (100 * n) + u /\ 2 * (100 * n) <= 2 * (h * u) + u.
Proof. cbv zeta. apply rne_div_err. apply pow1024_pos. Qed.

(** the singular word appears exactly for one byte *)
Theorem display_byte_iff n : n < 2 ^ 64 ->
  (word_of (unit_of n) n = GenBytes.word_one <-> n = 1).
Proof.
  intros Hn. destruct (unit_of_spec n Hn) as (_ & Hi & Hge & _).
  unfold word_of. split.
  - destruct (N.eqb_spec (unit_of n) 0) as [_|Hne].
    + destruct (N.eqb_spec n 1); [trivial|]. intros H. vm_compute in H. discriminate.
    + assert (Hc : unit_of n = 1 \/ unit_of n = 2 \/ unit_of n = 3 \/ unit_of n = 4 \/ unit_of n = 5 \/ unit_of n = 6) by lia.
      destruct Hc as [->|[->|[->|[->|[->| ->]]]]]; intros H; vm_compute in H; discriminate.
  - intros ->. reflexivity.
Qed.

(* ================================================================ text level: parse *)

Lemma take_skip_while p l : take_while p l ++ skip_while p l = l.
Proof. induction l as [|c r IH]; [reflexivity|]. cbn. destruct (p c); [cbn; f_equal; exact IH|reflexivity]. Qed.

Lemma take_while_all p l : Forall (fun c => p c = true) (take_while p l).
Proof. induction l as [|c r IH]; cbn; [constructor|]. destruct (p c) eqn:E; constructor; assumption. Qed.

Definition starts_other (p : N -> bool) (s : text) : Prop :=
  match s with [] => True | c :: _ => p c = false end.

Lemma split_while p ds s : Forall (fun c => p c = true) ds -> starts_other p s ->
  take_while p (ds ++ s) = ds /\ skip_while p (ds ++ s) = s.
Proof.
  intros Hd Hs. induction Hd as [|c r Hc Hr IH]; cbn.
  - destruct s as [|c r]; [split; reflexivity|]. cbn in Hs. cbn. rewrite Hs. split; reflexivity.
  - rewrite Hc. destruct IH as [I1 I2]. rewrite I1, I2. split; reflexivity.
Qed.

Lemma skip_while_starts p l : starts_other p (skip_while p l).
Proof. induction l as [|c r IH]; cbn; [trivial|]. destruct (p c) eqn:E; [exact IH|exact E]. Qed.

Lemma uint_bytes_numch u : Forall (fun c => is_numch c = true) (uint_bytes u).
Proof.
  pose proof (uint_bytes_digits u) as H. induction H as [|c r Hc Hr IH]; constructor; [|exact IH].
  unfold is_numch. lia.
Qed.

Lemma is_digit_46 : is_digit 46 = false.
Proof. reflexivity. Qed.

(** number text: integer digits, optionally a dot and fraction digits *)
Definition num_text (ui : uint) (uf : option uint) : text :=
  match uf with None => uint_bytes ui | Some u => uint_bytes ui ++ 46 :: uint_bytes u end.

Definition num_ok (ui : uint) (uf : option uint) : bool :=
  match uf with None => negb (is_nil ui) | Some u => negb (is_nil ui && is_nil u) end.

(** numerator and number of fraction digits denoted by a number text *)
Definition num_frac (uf : option uint) : N := match uf with None => 0 | Some u => N.of_nat (nb_digits u) end.
Definition num_value (ui : uint) (uf : option uint) : N :=
  match uf with None => N.of_uint ui | Some u => N.of_uint ui * 10 ^ N.of_nat (nb_digits u) + N.of_uint u end.

Lemma num_text_numch ui uf : Forall (fun c => is_numch c = true) (num_text ui uf).
Proof.
  destruct uf as [u|]; cbn [num_text]; [|apply uint_bytes_numch].
  apply Forall_app. split; [apply uint_bytes_numch|]. constructor; [reflexivity|apply uint_bytes_numch].
Qed.

Lemma parse_number_text ui uf : num_ok ui uf = true ->
  parse_number (num_text ui uf) = Some (num_value ui uf, num_frac uf).
Proof.
  intros Hok. unfold parse_number. destruct uf as [u|]; cbn [num_text num_ok num_value num_frac] in *.
  - rewrite take_digits_app by reflexivity.
    replace (46 =? 46) with true by reflexivity.
    rewrite <- (app_nil_r (uint_bytes u)). rewrite take_digits_app by reflexivity.
    destruct (is_nil ui && is_nil u); [discriminate|]. reflexivity.
  - rewrite <- (app_nil_r (uint_bytes ui)). rewrite take_digits_app by reflexivity.
    destruct (is_nil ui); [discriminate|]. reflexivity.
Qed.

(** conversely every accepted digit string has that shape *)
Lemma parse_number_shape ds n f : parse_number ds = Some (n, f) ->
  exists ui uf, ds = num_text ui uf /\ num_ok ui uf = true /\ n = num_value ui uf /\ f = num_frac uf.
Proof.
  unfold parse_number. destruct (take_digits ds) as [ui r] eqn:T.
  apply take_digits_exact in T. destruct r as [|c r1].
  - destruct (is_nil ui) eqn:En; [discriminate|]. intros H; inversion H; subst.
    exists ui, None. cbn. rewrite En, app_nil_r. repeat split; reflexivity.
  - destruct (N.eqb_spec c 46) as [->|_]; [|discriminate].
    destruct (take_digits r1) as [uf r2] eqn:T2. apply take_digits_exact in T2.
    destruct r2 as [|c2 r2]; [|discriminate].
    destruct (is_nil ui && is_nil uf) eqn:En; [discriminate|]. intros H; inversion H; subst.
    exists ui, (Some uf). cbn. rewrite En, app_nil_r. repeat split; reflexivity.
Qed.

(* ---- suffix table ---- *)
Lemma text_eqb_eq a : forall b, text_eqb a b = true <-> a = b.
Proof.
  induction a as [|x a IH]; intros [|y b]; cbn; split; intros H; try reflexivity; try discriminate.
  - apply andb_true_iff in H. destruct H as [H1 H2]. apply N.eqb_eq in H1. apply IH in H2. congruence.
  - inversion H; subst. rewrite N.eqb_refl. apply IH. reflexivity.
Qed.

Lemma lookup_some tbl s v : lookup tbl s = Some v -> In (s, v) tbl.
Proof.
  induction tbl as [|[k w] r IH]; cbn; [discriminate|].
  destruct (text_eqb k s) eqn:E.
  - apply text_eqb_eq in E. intros H; inversion H; subst. left. reflexivity.
  - intros H. right. apply IH. exact H.
Qed.

Lemma lookup_none tbl s : lookup tbl s = None -> ~ In s (map fst tbl).
Proof.
  induction tbl as [|[k w] r IH]; cbn; [tauto|].
  destruct (text_eqb k s) eqn:E; [discriminate|].
  intros H [Hk|Hr]; [|exact (IH H Hr)].
  apply text_eqb_eq in Hk. congruence.
Qed.

(** every row of the generated table is found under its own key (no shadowed duplicates) *)
Definition row_found (row : text * N) : bool :=
  match lookup GenBytes.units (fst row) with Some x => x =? snd row | None => false end.

Lemma units_lookup k sh : In (k, sh) GenBytes.units -> lookup GenBytes.units k = Some sh.
Proof.
  assert (H : forallb row_found GenBytes.units = true) by (vm_compute; reflexivity).
  rewrite forallb_forall in H. intros Hin. specialize (H _ Hin).
  unfold row_found in H. cbn [fst snd] in H.
  destruct (lookup GenBytes.units k) as [x|]; [|discriminate]. apply N.eqb_eq in H. congruence.
Qed.

(** no spelling starts with a digit or a dot *)
Definition row_start (row : text * N) : bool :=
  match fst row with [] => true | c :: _ => negb (is_numch c) end.

Lemma units_start k sh : In (k, sh) GenBytes.units -> starts_other is_numch k.
Proof.
  assert (H : forallb row_start GenBytes.units = true) by (vm_compute; reflexivity).
  rewrite forallb_forall in H. intros Hin. specialize (H _ Hin).
  unfold row_start in H. cbn [fst] in H.
  destruct k as [|c r]; cbn [starts_other]; [trivial|]. destruct (is_numch c); [discriminate|reflexivity].
Qed.

Lemma lower_numch c : is_numch c = true -> lower c = c.
Proof.
  unfold is_numch, lower. intros H.
  destruct (N.leb_spec 65 c); destruct (N.leb_spec c 90); cbn [andb]; try lia;
  destruct (N.eqb_spec c 8490); try lia; reflexivity.
Qed.

Lemma lower_starts s : starts_other is_numch (map lower s) -> starts_other is_numch s.
Proof.
  destruct s as [|c r]; cbn; [trivial|]. intros H.
  destruct (is_numch c) eqn:E; [|reflexivity]. rewrite (lower_numch c E) in H. congruence.
Qed.

(** [s] spells, in any letter case, a unit of the table with shift [sh] *)
Definition spells (s : text) (sh : N) : Prop := In (map lower s, sh) GenBytes.units.

Lemma spells_lookup s sh : spells s sh -> lookup_unit s = Some sh.
Proof. apply units_lookup. Qed.

Lemma spells_starts s sh : spells s sh -> starts_other is_numch s.
Proof. intros H. apply lower_starts. exact (units_start _ _ H). Qed.

(** no multiplier of the table exceeds 2^60 (so it fits the u64 the code declares it as) *)
Definition row_shift (row : text * N) : bool := snd row <=? 60.

Lemma units_shift k sh : In (k, sh) GenBytes.units -> sh <= 60.
Proof.
  assert (H : forallb row_shift GenBytes.units = true) by (vm_compute; reflexivity).
  rewrite forallb_forall in H. intros Hin. specialize (H _ Hin).
  unfold row_shift in H. cbn [snd] in H. lia.
Qed.

Lemma uint_bytes_dec u : all_dec (uint_bytes u).
Proof. apply uint_bytes_digits. Qed.

(** the integer evaluation of an accepted digit string: the exact product, truncated to whole
    bytes, clamped at 2^64-1; no operator panics *)
Lemma parse_count_text ui uf sh : sh <= 64 ->
  parse_count (num_text ui uf) (2 ^ sh) =
  Some (N.min (num_value ui uf * 2 ^ sh / 10 ^ num_frac uf) U64_MAX).
Proof.
  intros Hsh. set (m := 2 ^ sh).
  assert (Hm1 : 1 <= m) by (pose proof (pow2_pos sh); fold m in H; lia).
  assert (Hm2 : m <= 2 ^ 64) by (apply N.pow_le_mono_r; lia).
  unfold parse_count. destruct uf as [u|]; cbn [num_text num_value num_frac].
  - rewrite split_dot_app by apply uint_bytes_dec.
    rewrite whole_fold_value by apply uint_bytes_dec.
    rewrite frac_fold by (try apply uint_bytes_dec; exact Hm2).
    rewrite sat_combine by exact Hm1.
    rewrite !tval_uint, length_uint_bytes. f_equal. f_equal.
    set (D := 10 ^ N.of_nat (nb_digits u)).
    assert (HD : 0 < D) by apply pow10_pos.
    replace ((N.of_uint ui * D + N.of_uint u) * m) with (N.of_uint ui * m * D + m * N.of_uint u) by lia.
    rewrite N.div_add_l by lia. reflexivity.
  - rewrite split_dot_nodot by apply uint_bytes_dec.
    rewrite whole_fold_value by apply uint_bytes_dec.
    cbn [fold_right]. rewrite sat_combine by exact Hm1.
    rewrite tval_uint. change (10 ^ 0) with 1. rewrite N.div_1_r, N.add_0_r. reflexivity.
Qed.

(** THE parsing theorem: every well-formed number I.F (any number of digits, either part
    possibly empty but not both, leading zeros) followed by any spelling and letter case of a
    unit parses to floor((I * 10^f + F) * 1024^k / 10^f), clamped at 2^64 - 1 *)
Theorem parse_exact ui uf s sh : num_ok ui uf = true -> spells s sh ->
  bs_parse (num_text ui uf ++ s) =
  BsOk (N.min (num_value ui uf * 2 ^ sh / 10 ^ num_frac uf) (2 ^ 64 - 1)).
Proof.
  intros Hok Hs. unfold bs_parse.
  destruct (split_while is_numch (num_text ui uf) s (num_text_numch ui uf) (spells_starts s sh Hs)) as [E1 E2].
  rewrite E1, E2, (parse_number_text ui uf Hok), (spells_lookup s sh Hs).
  rewrite parse_count_text; [reflexivity|]. pose proof (units_shift _ _ Hs). lia.
Qed.

(** and nothing else parses: every accepted text is such a number followed by such a unit *)
Theorem parse_accepts_only t v : bs_parse t = BsOk v ->
  exists ui uf s sh, t = num_text ui uf ++ s /\ num_ok ui uf = true /\ spells s sh /\
                     v = N.min (num_value ui uf * 2 ^ sh / 10 ^ num_frac uf) (2 ^ 64 - 1).
Proof.
  intros H. pose proof H as H0. unfold bs_parse in H.
  destruct (parse_number (take_while is_numch t)) as [[n f]|] eqn:P; [|discriminate].
  destruct (lookup_unit (skip_while is_numch t)) as [sh|] eqn:L; [|discriminate]. clear H.
  destruct (parse_number_shape _ _ _ P) as (ui & uf & E & Hok & _ & _).
  assert (Hs : spells (skip_while is_numch t) sh) by (apply lookup_some; exact L).
  assert (Et : t = num_text ui uf ++ skip_while is_numch t) by (rewrite <- E; symmetry; apply take_skip_while).
  exists ui, uf, (skip_while is_numch t), sh. repeat split; try assumption.
  rewrite Et in H0 at 1. rewrite (parse_exact ui uf _ sh Hok Hs) in H0. inversion H0. reflexivity.
Qed.

(** parsing never panics: whatever the text, the result is a size or one of the two errors *)
Theorem parse_total t : bs_parse t <> BsPanic.
Proof.
  intros H. pose proof H as H0. unfold bs_parse in H.
  destruct (parse_number (take_while is_numch t)) as [[n f]|] eqn:P; [|discriminate].
  destruct (lookup_unit (skip_while is_numch t)) as [sh|] eqn:L; [|discriminate]. clear H.
  destruct (parse_number_shape _ _ _ P) as (ui & uf & E & Hok & _ & _).
  assert (Hs : spells (skip_while is_numch t) sh) by (apply lookup_some; exact L).
  assert (Et : t = num_text ui uf ++ skip_while is_numch t) by (rewrite <- E; symmetry; apply take_skip_while).
  rewrite Et in H0 at 1. rewrite (parse_exact ui uf _ sh Hok Hs) in H0. discriminate.
Qed.

(** rejection, stated directly: unknown suffix *)
Theorem parse_rejects_suffix t :
  ~ In (map lower (skip_while is_numch t)) (map fst GenBytes.units) -> forall v, bs_parse t <> BsOk v.
Proof.
  intros Hn v H. apply parse_accepts_only in H. destruct H as (ui & uf & s & sh & E & _ & Hs & _).
  apply Hn. subst t.
  destruct (split_while is_numch (num_text ui uf) s (num_text_numch ui uf) (spells_starts s sh Hs)) as [_ E2].
  rewrite E2. apply (in_map fst) in Hs. exact Hs.
Qed.

(** rejection, stated directly: the digits-and-dots prefix has no digit or more than one dot *)
Definition ndots (l : text) : nat := length (filter (N.eqb 46) l).
Definition ndigits (l : text) : nat := length (filter is_digit l).

Lemma uint_bytes_counts u : ndots (uint_bytes u) = 0%nat /\ ndigits (uint_bytes u) = nb_digits u.
Proof. unfold ndots, ndigits. induction u; cbn; try (destruct IHu as [I1 I2]; rewrite I1, I2); split; reflexivity. Qed.

Lemma is_nil_digits u : is_nil u = false -> (1 <= nb_digits u)%nat.
Proof. destruct u; cbn; intros H; try discriminate; lia. Qed.

Theorem parse_rejects_number t :
  let ds := take_while is_numch t in
  (ndigits ds = 0 \/ 2 <= ndots ds)%nat -> forall v, bs_parse t <> BsOk v.
Proof.
  intros ds Hbad v H. apply parse_accepts_only in H. destruct H as (ui & uf & s & sh & E & Hok & Hs & _).
  subst t.
  destruct (split_while is_numch (num_text ui uf) s (num_text_numch ui uf) (spells_starts s sh Hs)) as [E1 _].
  unfold ds in Hbad. rewrite E1 in Hbad. clear E1.
  destruct (uint_bytes_counts ui) as [D1 G1].
  destruct uf as [u|]; cbn [num_text num_ok] in *.
  - destruct (uint_bytes_counts u) as [D2 G2].
    unfold ndots, ndigits in *. rewrite !filter_app, !app_length in Hbad. cbn [filter] in Hbad.
    rewrite is_digit_46 in Hbad. replace (46 =? 46) with true in Hbad by reflexivity.
    cbn [length] in Hbad. rewrite D1, D2, G1, G2 in Hbad.
    destruct (is_nil ui) eqn:N1; destruct (is_nil u) eqn:N2; cbn in Hok; try discriminate;
      try (apply is_nil_digits in N1); try (apply is_nil_digits in N2); lia.
  - rewrite D1, G1 in Hbad. destruct (is_nil ui) eqn:N1; [discriminate|]. apply is_nil_digits in N1. lia.
Qed.

(* ================================================================ headline statements *)

(** integers (any number of leading zeros) with every spelling and case of every unit:
    exact whenever the product is a u64 *)
Theorem parse_integer_exact ui s sh :
  is_nil ui = false -> spells s sh -> N.of_uint ui * 2 ^ sh < 2 ^ 64 ->
  bs_parse (uint_bytes ui ++ s) = BsOk (N.of_uint ui * 2 ^ sh).
Proof.
  intros Hn Hs Hlt. change (uint_bytes ui) with (num_text ui None).
  rewrite (parse_exact ui None s sh) by (cbn [num_ok]; try rewrite Hn; trivial).
  cbn [num_value num_frac]. change (10 ^ 0) with 1. rewrite N.div_1_r. f_equal. lia.
Qed.

(** the property's own wording: whenever the product fits in 53 bits *)
Corollary parse_integer_53 ui s sh :
  is_nil ui = false -> spells s sh -> N.of_uint ui * 2 ^ sh < 2 ^ 53 ->
  bs_parse (uint_bytes ui ++ s) = BsOk (N.of_uint ui * 2 ^ sh).
Proof.
  intros Hn Hs Hlt. assert (2 ^ 53 < 2 ^ 64) by (vm_compute; reflexivity).
  apply parse_integer_exact; [exact Hn|exact Hs|lia].
Qed.

Corollary parse_canonical_integer n s sh :
  spells s sh -> n * 2 ^ sh < 2 ^ 64 -> bs_parse (dec n ++ s) = BsOk (n * 2 ^ sh).
Proof.
  intros Hs Hlt. unfold dec. rewrite <- (DecimalN.Unsigned.of_to n) at 2.
  apply parse_integer_exact; [|exact Hs|rewrite DecimalN.Unsigned.of_to; exact Hlt].
  pose proof (to_uint_canon n) as Hc. destruct (N.to_uint n); [discriminate|reflexivity..].
Qed.

(** decimal fractions I.F with ANY number of decimals: the exact product A / D truncated to
    whole bytes, A = (I * 10^f + F) * 1024^k, D = 10^f, whenever it is a u64 *)
Theorem parse_fraction_exact ui u s sh :
  num_ok ui (Some u) = true -> spells s sh ->
  let D := 10 ^ N.of_nat (nb_digits u) in
  let A := (N.of_uint ui * D + N.of_uint u) * 2 ^ sh in
  A / D < 2 ^ 64 ->
  bs_parse (uint_bytes ui ++ 46 :: uint_bytes u ++ s) = BsOk (A / D).
Proof.
  intros Hok Hs D A HP.
  replace (uint_bytes ui ++ 46 :: uint_bytes u ++ s) with (num_text ui (Some u) ++ s)
    by (cbn [num_text]; rewrite <- app_assoc; reflexivity).
  rewrite (parse_exact ui (Some u) s sh Hok Hs). cbn [num_value num_frac]. fold D. fold A.
  f_equal. lia.
Qed.

(** beyond the u64 range the result is 2^64 - 1 (as `f64 as u64` saturated before the repair) *)
Theorem parse_saturates ui uf s sh : num_ok ui uf = true -> spells s sh ->
  2 ^ 64 <= num_value ui uf * 2 ^ sh / 10 ^ num_frac uf ->
  bs_parse (num_text ui uf ++ s) = BsOk (2 ^ 64 - 1).
Proof. intros Hok Hs Hge. rewrite (parse_exact ui uf s sh Hok Hs). f_equal. lia. Qed.

(* ================================================================ the printed numeral denotes h / 100 *)

(** hundredths denoted by a numeral with at most two decimals, read with the model's own
    number reader *)
Definition numeral_hundredths (t : text) : option N :=
  match parse_number t with
  | Some (n, f) => if f <=? 2 then Some (n * 10 ^ (2 - f)) else None
  | None => None
  end.

Definition dg (a : N) (u : uint) : uint :=
  if a =? 0 then D0 u else if a =? 1 then D1 u else if a =? 2 then D2 u else if a =? 3 then D3 u
  else if a =? 4 then D4 u else if a =? 5 then D5 u else if a =? 6 then D6 u else if a =? 7 then D7 u
  else if a =? 8 then D8 u else D9 u.

Ltac ten_cases a Ha :=
  let H := fresh "Hc" in
  assert (H : a = 0 \/ a = 1 \/ a = 2 \/ a = 3 \/ a = 4 \/ a = 5 \/ a = 6 \/ a = 7 \/ a = 8 \/ a = 9) by lia;
  clear Ha; destruct H as [->|[->|[->|[->|[->|[->|[->|[->|[->| ->]]]]]]]]].

Lemma dg_bytes a u : a < 10 -> uint_bytes (dg a u) = (48 + a) :: uint_bytes u.
Proof. intros Ha. ten_cases a Ha; reflexivity. Qed.

Lemma dg1_value a : a < 10 -> N.of_uint (dg a Nil) = a /\ nb_digits (dg a Nil) = 1%nat.
Proof. intros Ha. ten_cases a Ha; split; reflexivity. Qed.

Lemma dg2_value a b : a < 10 -> b < 10 ->
  N.of_uint (dg a (dg b Nil)) = 10 * a + b /\ nb_digits (dg a (dg b Nil)) = 2%nat.
Proof. intros Ha Hb. ten_cases a Ha; ten_cases b Hb; split; reflexivity. Qed.

Lemma to_uint_not_nil q : is_nil (N.to_uint q) = false.
Proof. pose proof (to_uint_canon q) as Hc. destruct (N.to_uint q); [discriminate|reflexivity..]. Qed.

Theorem two_dec_denotes h : numeral_hundredths (two_dec h) = Some h.
Proof.
  unfold numeral_hundredths, two_dec. cbv zeta.
  pose proof (N.div_mod h 100 ltac:(lia)) as Eh.
  set (q := h / 100) in *. set (r := h mod 100) in *.
  assert (Hr : r < 100) by (apply N.mod_lt; lia).
  set (a := r / 10). set (b := r mod 10).
  assert (Hab : r = 10 * a + b) by (unfold a, b; apply N.div_mod; lia).
  assert (Hb : b < 10) by (unfold b; apply N.mod_lt; lia).
  assert (Ha : a < 10) by (unfold a; apply N.div_lt_upper_bound; lia).
  pose proof (to_uint_not_nil q) as Hq.
  destruct (N.eqb_spec r 0) as [Hr0|Hr0].
  - change (dec q) with (num_text (N.to_uint q) None).
    rewrite parse_number_text by (cbn [num_ok]; rewrite Hq; reflexivity).
    cbn [num_value num_frac]. rewrite DecimalN.Unsigned.of_to.
    change (0 <=? 2) with true. change (10 ^ (2 - 0)) with 100. cbv iota. f_equal. lia.
  - destruct (N.eqb_spec b 0) as [Hb0|Hb0].
    + destruct (dg1_value a Ha) as [V1 V2].
      replace (dec q ++ [46; 48 + a]) with (num_text (N.to_uint q) (Some (dg a Nil)))
        by (cbn [num_text]; rewrite dg_bytes by exact Ha; reflexivity).
      rewrite parse_number_text by (cbn [num_ok]; rewrite Hq; reflexivity).
      cbn [num_value num_frac]. rewrite V1, V2, DecimalN.Unsigned.of_to.
      change (N.of_nat 1 <=? 2) with true. change (10 ^ (2 - N.of_nat 1)) with 10. change (10 ^ N.of_nat 1) with 10.
      cbv iota. f_equal. lia.
    + destruct (dg2_value a b Ha Hb) as [V1 V2].
      replace (dec q ++ [46; 48 + a; 48 + b]) with (num_text (N.to_uint q) (Some (dg a (dg b Nil))))
        by (cbn [num_text]; rewrite !dg_bytes by assumption; reflexivity).
      rewrite parse_number_text by (cbn [num_ok]; rewrite Hq; reflexivity).
      cbn [num_value num_frac]. rewrite V1, V2, DecimalN.Unsigned.of_to.
      change (N.of_nat 2 <=? 2) with true. change (10 ^ (2 - N.of_nat 2)) with 1. change (10 ^ N.of_nat 2) with 100.
      cbv iota. f_equal. lia.
Qed.

