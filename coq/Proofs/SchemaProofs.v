(** Proofs about Model/Schema.v: the ordered-map builder that mirrors bendy's struct serializer.
    Main result [mk_dict_spec]: when the field keys are pairwise distinct the serialisation
    succeeds, the dictionary is strictly sorted, a reader finds under every key exactly what the
    field list says ([lookup]), and nothing else is in it. *)
From Coq Require Import Ascii String.
From Coq Require Import NArith ZArith Lia Bool List.
From Imdl Require Import Model.Bencode Model.Schema.
Import ListNotations.
Local Open Scope N_scope.

(* ---------- byte-string equality and order ---------- *)

Lemma bytes_eqb_eq a : forall b, bytes_eqb a b = true <-> a = b.
Proof.
  induction a as [|x a IHa]; intros [|y b]; cbn [bytes_eqb]; split; intros H; try reflexivity; try discriminate.
  - apply andb_prop in H. destruct H as [Hxy Hab]. apply N.eqb_eq in Hxy. apply IHa in Hab. subst. reflexivity.
  - inversion H; subst. rewrite N.eqb_refl. cbn [andb]. apply IHa. reflexivity.
Qed.

Lemma bytes_eqb_refl a : bytes_eqb a a = true.
Proof. apply bytes_eqb_eq. reflexivity. Qed.

Lemma bytes_eqb_neq a b : bytes_eqb a b = false <-> a <> b.
Proof.
  split.
  - intros H E. apply bytes_eqb_eq in E. rewrite E in H. discriminate.
  - intros H. destruct (bytes_eqb a b) eqn:E; [|reflexivity]. apply bytes_eqb_eq in E. contradiction.
Qed.

Lemma bytes_ltb_irrefl a : bytes_ltb a a = false.
Proof.
  induction a as [|x a IHa]; cbn [bytes_ltb]; [reflexivity|].
  rewrite N.ltb_irrefl. exact IHa.
Qed.

Lemma bytes_ltb_tricho a : forall b, bytes_ltb a b = false -> bytes_ltb b a = false -> a = b.
Proof.
  induction a as [|x a IHa]; intros [|y b] Hab Hba; cbn [bytes_ltb] in Hab, Hba; try reflexivity; try discriminate.
  destruct (x <? y) eqn:Exy; [discriminate|].
  destruct (y <? x) eqn:Eyx; [discriminate|].
  apply N.ltb_ge in Exy. apply N.ltb_ge in Eyx.
  assert (Hxy : x = y) by lia. subst y. f_equal. apply IHa; assumption.
Qed.

Lemma existsb_eqb_false k l :
  existsb (bytes_eqb k) l = false -> forall k2, In k2 l -> bytes_eqb k2 k = false.
Proof.
  induction l as [|x l IHl]; intros H k2 Hin; [destruct Hin|].
  cbn [existsb] in H. apply orb_false_elim in H. destruct H as [Hx Hl].
  destruct Hin as [Hin|Hin].
  - subst x. apply bytes_eqb_neq. intros E. subst k2. rewrite bytes_eqb_refl in Hx. discriminate.
  - apply IHl; assumption.
Qed.

(* ---------- dict_insert ---------- *)

Definition lt_last (last : option bytes) (k : bytes) : bool :=
  match last with None => true | Some l => bytes_ltb l k end.

Definition sorted_from (last : option bytes) (d : dict) : Prop := keys_sorted last (map fst d) = true.
Definition sorted (d : dict) : Prop := sorted_from None d.

Lemma dict_insert_sorted k v : forall d last d',
  sorted_from last d -> lt_last last k = true -> dict_insert k v d = Some d' -> sorted_from last d'.
Proof.
  unfold sorted_from.
  induction d as [|[k' v'] r IHr]; intros last d' Hs Hl Hi; cbn [dict_insert] in Hi.
  - inversion Hi; subst d'. cbn [map fst keys_sorted]. unfold lt_last in Hl. rewrite Hl. reflexivity.
  - cbn [map fst keys_sorted] in Hs. apply andb_prop in Hs. destruct Hs as [Hlk' Hr].
    destruct (bytes_ltb k k') eqn:E1.
    + inversion Hi; subst d'. cbn [map fst keys_sorted].
      unfold lt_last in Hl. rewrite Hl, E1, Hr. reflexivity.
    + destruct (bytes_ltb k' k) eqn:E2; [|discriminate].
      destruct (dict_insert k v r) as [r'|] eqn:Er; [|discriminate].
      inversion Hi; subst d'. cbn [map fst keys_sorted]. rewrite Hlk'. cbn [andb].
      apply (IHr (Some k') r' Hr); [exact E2|reflexivity].
Qed.

Lemma dget_insert k v : forall d d', dict_insert k v d = Some d' ->
  forall q, dget q d' = if bytes_eqb q k then Some v else dget q d.
Proof.
  induction d as [|[k' v'] r IHr]; intros d' Hi q; cbn [dict_insert] in Hi.
  - inversion Hi; subst d'. reflexivity.
  - destruct (bytes_ltb k k') eqn:E1.
    + inversion Hi; subst d'. reflexivity.
    + destruct (bytes_ltb k' k) eqn:E2; [|discriminate].
      destruct (dict_insert k v r) as [r'|] eqn:Er; [|discriminate].
      inversion Hi; subst d'. cbn [dget]. rewrite (IHr r' eq_refl q).
      destruct (bytes_eqb q k) eqn:Eqk; destruct (bytes_eqb q k') eqn:Eqk'; try reflexivity.
      apply bytes_eqb_eq in Eqk. apply bytes_eqb_eq in Eqk'. subst. subst.
      rewrite bytes_ltb_irrefl in E2. discriminate.
Qed.

Lemma dict_insert_total k v : forall d, dget k d = None -> exists d', dict_insert k v d = Some d'.
Proof.
  induction d as [|[k' v'] r IHr]; intros Hg; cbn [dict_insert].
  - eexists. reflexivity.
  - cbn [dget] in Hg. destruct (bytes_eqb k k') eqn:Ekk'; [discriminate|].
    destruct (bytes_ltb k k') eqn:E1; [eexists; reflexivity|].
    destruct (bytes_ltb k' k) eqn:E2.
    + destruct (IHr Hg) as [r' Hr']. rewrite Hr'. eexists. reflexivity.
    + exfalso. apply bytes_eqb_neq in Ekk'. apply Ekk'. apply bytes_ltb_tricho; assumption.
Qed.

Lemma dict_insert_In k v : forall d d', dict_insert k v d = Some d' ->
  forall kv, In kv d' -> kv = (k, v) \/ In kv d.
Proof.
  induction d as [|[k' v'] r IHr]; intros d' Hi kv Hin; cbn [dict_insert] in Hi.
  - inversion Hi; subst d'. destruct Hin as [Hin|[]]. left. symmetry. exact Hin.
  - destruct (bytes_ltb k k') eqn:E1.
    + inversion Hi; subst d'. destruct Hin as [Hin|Hin]; [left; symmetry; exact Hin|right; exact Hin].
    + destruct (bytes_ltb k' k) eqn:E2; [|discriminate].
      destruct (dict_insert k v r) as [r'|] eqn:Er; [|discriminate].
      inversion Hi; subst d'. destruct Hin as [Hin|Hin].
      * right. left. exact Hin.
      * destruct (IHr r' eq_refl kv Hin) as [H|H]; [left; exact H|right; right; exact H].
Qed.

(* ---------- lookup on the field list ---------- *)

Lemma lookup_notin k es : existsb (bytes_eqb k) (map fst es) = false -> lookup k es = None.
Proof.
  induction es as [|[k' ov] r IHr]; intros H; [reflexivity|].
  cbn [map fst existsb] in H. apply orb_false_elim in H. destruct H as [Hk Hr].
  cbn [lookup]. rewrite Hk. apply IHr. exact Hr.
Qed.

Lemma lookup_some_key q es x : lookup q es = Some x -> In q (map fst es).
Proof.
  induction es as [|[k' ov] r IHr]; intros H; [discriminate|].
  cbn [lookup] in H. cbn [map fst]. destruct (bytes_eqb q k') eqn:E.
  - left. apply bytes_eqb_eq in E. symmetry. exact E.
  - right. apply IHr. exact H.
Qed.

Lemma lookup_some_In q es x : lookup q es = Some x -> In (q, Some x) es.
Proof.
  induction es as [|[k' ov] r IHr]; intros H; [discriminate|].
  cbn [lookup] in H. destruct (bytes_eqb q k') eqn:E.
  - left. apply bytes_eqb_eq in E. subst. reflexivity.
  - right. apply IHr. exact H.
Qed.

(* ---------- save_all / mk_dict ---------- *)

Lemma save_all_spec : forall es d,
  sorted d ->
  distinct_keys (map fst es) = true ->
  (forall k, In k (map fst es) -> dget k d = None) ->
  exists d', save_all es d = Some d' /\ sorted d' /\
    (forall q, dget q d' = match lookup q es with Some x => Some x | None => dget q d end) /\
    (forall kv, In kv d' -> In kv d \/ In (fst kv, Some (snd kv)) es).
Proof.
  induction es as [|[k ov] r IHr]; intros d Hs Hd Hfresh.
  - exists d. cbn [save_all lookup]. repeat split; auto.
  - cbn [map fst distinct_keys] in Hd. apply andb_prop in Hd. destruct Hd as [Hk Hdr].
    apply negb_true_iff in Hk.
    destruct ov as [v|].
    + destruct (dict_insert_total k v d) as [d1 Hd1]; [apply Hfresh; left; reflexivity|].
      assert (Hs1 : sorted d1) by (apply (dict_insert_sorted k v d None d1 Hs eq_refl Hd1)).
      assert (Hfresh1 : forall k2, In k2 (map fst r) -> dget k2 d1 = None).
      { intros k2 Hin. rewrite (dget_insert k v d d1 Hd1 k2).
        rewrite (existsb_eqb_false k _ Hk k2 Hin). apply Hfresh. right. exact Hin. }
      destruct (IHr d1 Hs1 Hdr Hfresh1) as (d' & Hsave & Hs' & Hget & Hin).
      exists d'. cbn [save_all]. rewrite Hd1. repeat split; [exact Hsave|exact Hs'| |].
      * intros q. rewrite Hget. cbn [lookup]. rewrite (dget_insert k v d d1 Hd1 q).
        destruct (bytes_eqb q k) eqn:Eqk.
        -- apply bytes_eqb_eq in Eqk. subst q. rewrite (lookup_notin k r Hk). reflexivity.
        -- reflexivity.
      * intros kv Hkv. destruct (Hin kv Hkv) as [H|H].
        -- destruct (dict_insert_In k v d d1 Hd1 kv H) as [H1|H1].
           ++ right. left. subst kv. reflexivity.
           ++ left. exact H1.
        -- right. right. exact H.
    + assert (Hfresh1 : forall k2, In k2 (map fst r) -> dget k2 d = None)
        by (intros k2 Hin; apply Hfresh; right; exact Hin).
      destruct (IHr d Hs Hdr Hfresh1) as (d' & Hsave & Hs' & Hget & Hin).
      exists d'. cbn [save_all]. repeat split; [exact Hsave|exact Hs'| |].
      * intros q. rewrite Hget. cbn [lookup].
        destruct (bytes_eqb q k) eqn:Eqk.
        -- apply bytes_eqb_eq in Eqk. subst q. rewrite (lookup_notin k r Hk). reflexivity.
        -- reflexivity.
      * intros kv Hkv. destruct (Hin kv Hkv) as [H|H]; [left; exact H|right; right; exact H].
Qed.

Theorem mk_dict_spec es :
  distinct_keys (map fst es) = true ->
  exists d, mk_dict es = Some (Dict d) /\ sorted d /\
    (forall q, dget q d = lookup q es) /\
    (forall kv, In kv d -> In (fst kv, Some (snd kv)) es).
Proof.
  intros Hd.
  destruct (save_all_spec es [] eq_refl Hd (fun _ _ => eq_refl)) as (d & Hsave & Hs & Hget & Hin).
  exists d. unfold mk_dict. rewrite Hsave. repeat split; [exact Hs| |].
  - intros q. rewrite Hget. destruct (lookup q es); reflexivity.
  - intros kv Hkv. destruct (Hin kv Hkv) as [[]|H]. exact H.
Qed.

(** a repeated key is refused, as bendy refuses it (so [distinct_keys] is not a convenience) *)
Lemma save_all_duplicate_fails k v w :
  save_all [(k, Some v); (k, Some w)] [] = None.
Proof.
  cbn [save_all dict_insert]. rewrite bytes_ltb_irrefl. reflexivity.
Qed.

(** well-formedness of a built dictionary *)
Lemma mk_dict_wfb es v :
  distinct_keys (map fst es) = true ->
  (forall k x, In (k, Some x) es -> wfb x = true) ->
  mk_dict es = Some v -> wfb v = true.
Proof.
  intros Hd Hw Hm. destruct (mk_dict_spec es Hd) as (d & Hmk & Hs & _ & Hin).
  rewrite Hmk in Hm. inversion Hm; subst v. cbn [wfb]. apply andb_true_intro. split; [exact Hs|].
  apply forallb_forall. intros [k x] Hkx. cbn [snd]. apply (Hw k x). apply (Hin (k, x) Hkx).
Qed.

(* ---------- all_some ---------- *)

Lemma all_some_Forall2 {A B} (f : A -> option B) : forall l r,
  all_some (map f l) = Some r -> Forall2 (fun a b => f a = Some b) l r.
Proof.
  induction l as [|a l IHl]; intros r H; cbn [map all_some] in H.
  - inversion H. constructor.
  - destruct (f a) as [b|] eqn:Ea; [|discriminate].
    destruct (all_some (map f l)) as [xs|] eqn:El; [|discriminate].
    inversion H; subst r. constructor; [exact Ea|apply IHl; reflexivity].
Qed.

Lemma all_some_total {A B} (f : A -> option B) : forall l,
  (forall a, In a l -> exists b, f a = Some b) -> exists r, all_some (map f l) = Some r.
Proof.
  induction l as [|a l IHl]; intros H; cbn [map all_some]; [eexists; reflexivity|].
  destruct (H a (or_introl eq_refl)) as [b Hb]. rewrite Hb.
  destruct (IHl (fun a' Hin => H a' (or_intror Hin))) as [r Hr]. rewrite Hr. eexists. reflexivity.
Qed.
