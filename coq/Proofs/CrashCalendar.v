(** C08 with chrono's range made concrete (work package X11): where the crash model of `torrent show` takes
    chrono's answer as a variable ([in_chrono_range]), Model/Calendar.v's [chrono_accepts] can stand; the range it
    decides is exactly 0 .. 8210266876799 ([CalendarProofs.accepts_iff]). *)
From Coq Require Import NArith ZArith Bool String List.
From Imdl Require Import Model.Bencode Model.Crash Proofs.CrashProofs.
From Imdl Require Model.Calendar Proofs.CalendarProofs.
Import ListNotations.
Local Open Scope N_scope.

Theorem show_no_panic_calendar (url_ok node_ok : bytes -> bool) (stack_budget : N) :
  max_depth <= stack_budget ->
  forall (term : bool) (ws : list N) (data : bytes),
  alloc_ok url_ok node_ok data ->
  finish (show_model url_ok node_ok stack_budget Calendar.chrono_accepts term ws data) <> Panic101.
Proof. intros Hb term ws data Ha. apply show_no_panic; assumption. Qed.

(** the creation-date row of the crash model at chrono's concrete range: never an abort, for any u64 or beyond *)
Theorem date_row_calendar (d : N) : date_row Calendar.chrono_accepts d = Val tt.
Proof. unfold date_row. destruct (d <? 2 ^ 63); [destruct (Calendar.chrono_accepts d)|]; reflexivity. Qed.

(** a torrent with a creation date (2000-02-29) is shown normally under the concrete range *)
Definition dated_witness : bytes :=
  bytes_of_string "d13:creation datei951782400e4:infod6:lengthi5e4:name1:n12:piece lengthi1e6:pieces0:ee".

Lemma dated_witness_loads :
  exists v m, load (fun _ => true) (fun _ => true) dated_witness = Val (v, m) /\
              m_creation_date m = Some 951782400 /\ m_announce_list m = None.
Proof. vm_compute. eexists. eexists. repeat split; reflexivity. Qed.

Lemma dated_witness_shows :
  max_depth <= max_depth /\
  alloc_ok (fun _ => true) (fun _ => true) dated_witness /\
  Calendar.chrono_accepts 951782400 = true /\
  finish (show_model (fun _ => true) (fun _ => true) max_depth Calendar.chrono_accepts true [4; 7] dated_witness) = Ok0.
Proof.
  split; [apply N.le_refl|]. split; [|split; vm_compute; reflexivity].
  intros v m H. destruct dated_witness_loads as [v' [m' [H' [_ Hal]]]].
  rewrite H' in H. injection H as _ <-. unfold vec_ok. rewrite Hal. vm_compute. reflexivity.
Qed.
