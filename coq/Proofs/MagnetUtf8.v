(** C10 with the concrete model of String::from_utf8_lossy (X12): the hypotheses about [lossy] of
    Proofs/MagnetProofs.v become statements about the UTF-8 validity of the link's fields, and the parser's treatment of
    a name that is not valid UTF-8 is stated exactly. *)
From Coq Require Import String.
From Coq Require Import NArith Lia Bool List ZifyN ZifyBool.
From Imdl Require Import Model.Bencode Model.Magnet Model.MagnetLossy Proofs.MagnetProofs.
From Imdl Require Model.Utf8 Proofs.Utf8Proofs.
From Imdl Require Import Model.HostPort Model.UrlHost Model.UrlNorm Proofs.UrlNormProofs Proofs.UrlNormUses.
Import ListNotations.
Local Open Scope N_scope.

Definition opt_valid (o : option bytes) : bool := match o with Some n => Utf8.utf8_valid n | None => true end.

(** name, tracker texts and peer texts are valid UTF-8 (they are Rust `String`s in a MagnetLink) *)
Definition link_utf8 (l : link) : bool :=
  opt_valid (l_name l) && forallb Utf8.utf8_valid (l_trackers l) && forallb Utf8.utf8_valid (l_peers l).

(** the two hypotheses of [own_parse_print] hold of [Utf8.lossy] *)
Lemma lossy_fixes_ascii : forall s, ascii s -> Utf8.lossy s = s.
Proof. exact Utf8Proofs.lossy_ascii. Qed.

Lemma forallb_valid_fixed ts : forallb Utf8.utf8_valid ts = true -> Forall (fun t => Utf8.lossy t = t) ts.
Proof.
  intros H. apply Forall_forall. intros t Hin. apply Utf8Proofs.lossy_valid.
  rewrite forallb_forall in H. apply H, Hin.
Qed.

Lemma utf8_fixed_of_valid l : link_utf8 l = true -> utf8_fixed Utf8.lossy l.
Proof.
  unfold link_utf8. intros H. apply andb_true_iff in H. destruct H as [H Hp]. apply andb_true_iff in H. destruct H as [Hn Ht].
  split; [|split; apply forallb_valid_fixed; assumption].
  intros n E. rewrite E in Hn. apply Utf8Proofs.lossy_valid, Hn.
Qed.

(** second clause of C10 with nothing assumed about from_utf8_lossy *)
Theorem own_parse_print_utf8 url_norm hp_norm l :
  wf_link l -> length (l_ih l) = 20%nat -> link_utf8 l = true ->
  Forall (fun t => url_norm t = Some t) (l_trackers l) ->
  Forall (fun p => hp_norm p = Some p) (l_peers l) ->
  own_parse Utf8.lossy url_norm hp_norm (print l) = Parsed (l_ih l) (l_name l) (l_trackers l) (l_peers l).
Proof.
  intros Hwf Hlen Hu Ht Hp. apply own_parse_print; try assumption; [exact lossy_fixes_ascii|apply utf8_fixed_of_valid, Hu].
Qed.

(** a tracker in url-crate normal form is ASCII, hence valid UTF-8 *)
Lemma normal_url_valid t : is_normal_url t = true -> Utf8.utf8_valid t = true.
Proof.
  intros H. apply Utf8Proofs.valid_ascii. pose proof (u_norm_ascii t t (u_norm_fixed t H)) as A.
  apply Forall_forall. intros b Hb. rewrite forallb_forall in A. specialize (A b Hb). lia.
Qed.

Lemma normal_urls_valid ts : forallb is_normal_url ts = true -> forallb Utf8.utf8_valid ts = true.
Proof.
  intros H. apply forallb_forall. intros t Hin. rewrite forallb_forall in H. apply normal_url_valid, H, Hin.
Qed.

(** ... and with the concrete url normaliser of X10 as well: only the peers' typed parser remains a hypothesis *)
Theorem own_parse_print_utf8_normal_trackers ext hp_norm l :
  wf_link l -> length (l_ih l) = 20%nat ->
  opt_valid (l_name l) = true -> forallb is_normal_url (l_trackers l) = true -> forallb Utf8.utf8_valid (l_peers l) = true ->
  Forall (fun p => hp_norm p = Some p) (l_peers l) ->
  own_parse Utf8.lossy (u_url_norm_with ext) hp_norm (print l) = Parsed (l_ih l) (l_name l) (l_trackers l) (l_peers l).
Proof.
  intros Hwf Hlen Hn Ht Hpv Hp. apply own_parse_print_utf8; try assumption.
  - unfold link_utf8. rewrite Hn, (normal_urls_valid _ Ht), Hpv. reflexivity.
  - apply url_norm_with_fixed_all, Ht.
Qed.

(* ------------------------------------------------------------------ a name that is not valid UTF-8 *)

Definition with_name (l : link) (n : option bytes) : link := Link (l_ih l) n (l_trackers l) (l_peers l) (l_indices l).

Lemma key_fixed k : forallb safe k = true -> Utf8.lossy k = k.
Proof. intros H. apply lossy_fixes_ascii, (key_ascii id_bytes some_bytes some_bytes), H. Qed.

(** what form_urlencoded::parse hands to MagnetLink::parse for a printed link whose name is any byte string *)
Lemma lossy_expected_name l :
  wf_link l -> forallb Utf8.utf8_valid (l_trackers l) = true -> forallb Utf8.utf8_valid (l_peers l) = true ->
  map (fun kv => (Utf8.lossy (fst kv), Utf8.lossy (snd kv))) (expected l) = expected (with_name l (option_map Utf8.lossy (l_name l))).
Proof.
  intros (Hih & _) Ht Hp. unfold expected, with_name. cbn [l_ih l_name l_trackers l_peers l_indices map fst snd].
  rewrite (key_fixed k_xt) by reflexivity. rewrite (lossy_fixes_ascii _ (all_safe_ascii id_bytes some_bytes some_bytes _ (topic_safe _ Hih))).
  f_equal. rewrite !map_app. f_equal; [|f_equal; [|f_equal]].
  - destruct (l_name l) as [n|]; [|reflexivity]. cbn [map fst snd option_map]. rewrite (key_fixed k_dn) by reflexivity. reflexivity.
  - rewrite map_map. apply map_ext_in. intros t Hin. cbn [fst snd]. rewrite (key_fixed k_tr) by reflexivity.
    rewrite forallb_forall in Ht. rewrite (Utf8Proofs.lossy_valid _ (Ht _ Hin)). reflexivity.
  - rewrite map_map. apply map_ext_in. intros t Hin. cbn [fst snd]. rewrite (key_fixed k_pe) by reflexivity.
    rewrite forallb_forall in Hp. rewrite (Utf8Proofs.lossy_valid _ (Hp _ Hin)). reflexivity.
  - destruct (l_indices l) as [|i r]; [reflexivity|]. cbn [map fst snd]. rewrite (key_fixed k_so) by reflexivity.
    rewrite (lossy_fixes_ascii _ (all_safe_ascii id_bytes some_bytes some_bytes _ (so_value_safe _))). reflexivity.
Qed.

(** For every byte string in the `dn` value - the percent-encoding of arbitrary bytes, as a third party may write it -
    the parser reports exactly [Utf8.lossy] of it; infohash, trackers and peers are unaffected *)
Theorem own_parse_print_any_name url_norm hp_norm l :
  wf_link l -> length (l_ih l) = 20%nat ->
  forallb Utf8.utf8_valid (l_trackers l) = true -> forallb Utf8.utf8_valid (l_peers l) = true ->
  Forall (fun t => url_norm t = Some t) (l_trackers l) ->
  Forall (fun p => hp_norm p = Some p) (l_peers l) ->
  own_parse Utf8.lossy url_norm hp_norm (print l) =
    Parsed (l_ih l) (option_map Utf8.lossy (l_name l)) (l_trackers l) (l_peers l).
Proof.
  intros Hwf Hlen Htv Hpv Ht Hp. unfold own_parse. rewrite url_query_print by exact Hwf.
  rewrite to_query_pairs by exact Hwf.
  rewrite (form_pairs_pairs_query Utf8.lossy url_norm hp_norm); [|discriminate|apply expected_ok, Hwf].
  rewrite lossy_expected_name by assumption.
  set (l' := with_name l (option_map Utf8.lossy (l_name l))).
  unfold parse_pairs. rewrite (collect_expected url_norm hp_norm l') by assumption.
  replace (find_topic (expected l')) with (@inr perr _ (l_ih l)); [reflexivity|].
  unfold expected. cbn [find_topic]. change (bytes_eqb k_xt k_xt) with true. cbv iota.
  change (l_ih l') with (l_ih l).
  rewrite strip_prefix_app, (length_hex_lower id_bytes some_bytes some_bytes), Hlen. cbn [Nat.mul Nat.add Nat.eqb].
  destruct Hwf as (Hih & _). rewrite unhex_hex_lower by exact Hih. reflexivity.
Qed.

Corollary own_parse_print_invalid_name url_norm hp_norm l n :
  wf_link l -> length (l_ih l) = 20%nat -> l_name l = Some n -> Utf8.utf8_valid n = false ->
  forallb Utf8.utf8_valid (l_trackers l) = true -> forallb Utf8.utf8_valid (l_peers l) = true ->
  Forall (fun t => url_norm t = Some t) (l_trackers l) ->
  Forall (fun p => hp_norm p = Some p) (l_peers l) ->
  own_parse Utf8.lossy url_norm hp_norm (print l) = Parsed (l_ih l) (Some (Utf8.lossy n)) (l_trackers l) (l_peers l) /\
  Utf8.lossy n <> n /\ Utf8.utf8_valid (Utf8.lossy n) = true.
Proof.
  intros Hwf Hlen En Hinv Htv Hpv Ht Hp. split; [|split].
  - rewrite (own_parse_print_any_name url_norm hp_norm l) by assumption. rewrite En. reflexivity.
  - apply Utf8Proofs.lossy_changes_invalid, Hinv.
  - apply Utf8Proofs.valid_lossy.
Qed.

(* ------------------------------------------------------------------ whatever the text *)

(** every key and value MagnetLink::parse sees is valid UTF-8 *)
Theorem form_pairs_valid q :
  Forall (fun kv => Utf8.utf8_valid (fst kv) = true /\ Utf8.utf8_valid (snd kv) = true) (form_pairs Utf8.lossy q).
Proof.
  unfold form_pairs. apply Forall_map. apply Forall_forall. intros seg _.
  destruct (split_first 61 seg) as [k v]. cbn [fst snd]. split; apply Utf8Proofs.valid_lossy.
Qed.

Lemma collect_name_valid url_norm hp_norm pairs :
  Forall (fun kv => Utf8.utf8_valid (snd kv) = true) pairs ->
  forall name trs prs name' trs' prs', opt_valid name = true ->
    collect url_norm hp_norm pairs name trs prs = inr (name', trs', prs') -> opt_valid name' = true.
Proof.
  induction 1 as [|[k v] r Hv Hr IH]; intros name trs prs name' trs' prs' Hn; cbn [collect].
  - intros E. inversion E; subst. exact Hn.
  - cbn [snd] in Hv. destruct (bytes_eqb k k_tr).
    + destruct (url_norm v); [apply IH; exact Hn|discriminate].
    + destruct (bytes_eqb k k_dn); [apply IH; exact Hv|].
      destruct (bytes_eqb k k_pe); [|apply IH; exact Hn].
      destruct (hp_norm v); [apply IH; exact Hn|discriminate].
Qed.

(** the name imdl's parser reports is valid UTF-8, for every input text *)
Theorem own_parse_name_valid url_norm hp_norm text ih name trs prs :
  own_parse Utf8.lossy url_norm hp_norm text = Parsed ih name trs prs -> opt_valid name = true.
Proof.
  unfold own_parse. destruct (url_query text) as [[q|]|e|]; try discriminate.
  unfold parse_pairs. destruct (find_topic (form_pairs Utf8.lossy q)); [discriminate|].
  destruct (collect url_norm hp_norm (form_pairs Utf8.lossy q) None [] []) as [e|[[n t] p]] eqn:E; [discriminate|].
  intros H. inversion H; subst.
  refine (collect_name_valid url_norm hp_norm _ _ None [] [] name trs prs eq_refl E).
  eapply Forall_impl; [|apply form_pairs_valid]. intros kv [_ Hv]. exact Hv.
Qed.
