(** C08 - classification of the panic sites inventoried by tools/rs2v_panics.py
    (Generated/GenPanicSites.v, regenerated from the anchored sources on every run).

    Every site is mapped either to its guard lemma ([Guarded _ lemma note]: the lemma is a
    term of this development, so it must exist and be proved for this file to compile) or to
    the recorded reason why it cannot fire or is not on an input path ([Argued why]).
    A site of the current tree whose key (file, function, kind, normalised expression,
    occurrence) is not in the table makes [all_sites_discharged] fail: a new unwrap, index or
    arithmetic operation in an anchored file has to be classified here before the check passes.
    This table is maintained by hand. *)
From Coq Require Import NArith Bool String List.
From Imdl Require Import Model.Crash Proofs.CrashProofs Generated.GenPanicSites.
From Imdl Require Proofs.ByteSizeProofs.
Import ListNotations.
Local Open Scope string_scope.

Inductive reason :=
| Guarded (P : Prop) (proof : P) (note : string)
| Argued (why : string).

Definition site := (string * string * string * string * N)%type.

Definition classification : list (string * string * string * string * N * reason) :=
  [
    ("src/torrent_summary.rs", "TorrentSummary::table", "arith", "value.push((format!(""Tier {}"", i + 1), tier.clone()));", 1%N, Guarded _ tiers_guard "enumerate index + 1; modelled by tiers_rows, hypothesis vec_ok (a Vec has fewer than 2^64 elements)");
    ("src/table.rs", "Tree::insert", "index", "tree.children[index]", 1%N, Guarded _ tree_insert_spec "index is the position of an existing child, or len - 1 right after a push; modelled by tree_insert, proved equal to the recursive insert_spec");
    ("src/table.rs", "Tree::insert", "arith", "tree.children.len() - 1", 1%N, Guarded _ tree_insert_spec "right after children.push(..), so len >= 1; modelled by tree_insert");
    ("src/table.rs", "Tree::lines", "api", "prefix.truncate(*indent);", 1%N, Guarded _ tree_lines_spec "String::truncate panics off a char boundary: indent is the length the prefix had when the frame was pushed and everything pushed since starts a character (stack_ok, boundary_keep); modelled by lines_loop / truncate");
    ("src/table.rs", "Tree::lines", "api", "prefix.truncate(*indent);", 2%N, Guarded _ tree_lines_spec "second cut of the round, after the connector was pushed at the same indent; modelled by lines_loop / truncate");
    ("src/table.rs", "Table::write_human_readable", "arith", "width = name_width - UnicodeWidthStr::width(*name),", 1%N, Guarded _ pad_rows_guard "name_width is the maximum of the widths; modelled by pad_rows");
    ("src/table.rs", "Table::write_human_readable", "arith", "padding(out, name_width + 2)?;", 1%N, Argued "sum of display widths of the fixed row labels (at most 13 columns) and of ""Tier N:"" labels: bounded by the decimal width of a Vec index plus constants");
    ("src/table.rs", "Table::write_human_readable", "arith", "width = tier_name_width + 1", 1%N, Argued "sum of display widths of the fixed row labels (at most 13 columns) and of ""Tier N:"" labels: bounded by the decimal width of a Vec index plus constants");
    ("src/table.rs", "Table::write_human_readable", "arith", "padding(out, name_width + 2 + tier_name_width + 1)?;", 1%N, Argued "sum of display widths of the fixed row labels (at most 13 columns) and of ""Tier N:"" labels: bounded by the decimal width of a Vec index plus constants");
    ("src/table.rs", "Table::write_human_readable", "arith", "padding(out, name_width + 2 + tier_name_width + 1)?;", 2%N, Argued "sum of display widths of the fixed row labels (at most 13 columns) and of ""Tier N:"" labels: bounded by the decimal width of a Vec index plus constants");
    ("src/table.rs", "Table::write_human_readable", "arith", "padding(out, name_width + 2 + tier_name_width + 1)?;", 3%N, Argued "sum of display widths of the fixed row labels (at most 13 columns) and of ""Tier N:"" labels: bounded by the decimal width of a Vec index plus constants");
    ("src/bytes.rs", "Bytes as Display::fmt", "index", "DISPLAY_SUFFIXES[i - 1]", 1%N, Guarded _ display_guard "a u64 is below 1024^7, so 1 <= i <= 6 in the else branch; modelled by bytes_display");
    ("src/bytes.rs", "Bytes::absolute_difference", "arith", "self - other", 1%N, Argued "not on an input path of show/link/verify/dump/stats or of an argument parser: used by create (piece-length picker, lints) with operands from the walked files, properties C14/C15");
    ("src/bytes.rs", "Bytes::absolute_difference", "arith", "other - self", 1%N, Argued "not on an input path of show/link/verify/dump/stats or of an argument parser: used by create (piece-length picker, lints) with operands from the walked files, properties C14/C15");
    ("src/bytes.rs", "Bytes as FromStr::from_str", "arith", "partial = (u128::from(digit) * multiple + partial) / 10;", 1%N, Guarded _ ByteSizeProofs.parse_total "digit <= 9, multiple <= 2^60 and partial <= multiple, so neither the product nor the sum leaves u128, and the divisor is the literal 10; modelled by ByteSize.frac_step with checked operators (chk128), C16 theorem parse_total: no text makes bs_parse panic");
    ("src/bytes.rs", "Bytes as FromStr::from_str", "arith", "partial = (u128::from(digit) * multiple + partial) / 10;", 2%N, Guarded _ ByteSizeProofs.parse_total "digit <= 9, multiple <= 2^60 and partial <= multiple, so neither the product nor the sum leaves u128, and the divisor is the literal 10; modelled by ByteSize.frac_step with checked operators (chk128), C16 theorem parse_total: no text makes bs_parse panic");
    ("src/bytes.rs", "Bytes as FromStr::from_str", "arith", "partial = (u128::from(digit) * multiple + partial) / 10;", 3%N, Guarded _ ByteSizeProofs.parse_total "digit <= 9, multiple <= 2^60 and partial <= multiple, so neither the product nor the sum leaves u128, and the divisor is the literal 10; modelled by ByteSize.frac_step with checked operators (chk128), C16 theorem parse_total: no text makes bs_parse panic");
    ("src/bytes.rs", "Bytes as Div::div", "arith", "self.0 / rhs.0", 1%N, Argued "not on an input path of show/link/verify/dump/stats or of an argument parser: used by create (piece-length picker, lints) with operands from the walked files, properties C14/C15");
    ("src/bytes.rs", "Bytes as Sub::sub", "arith", "Bytes(self.count() - rhs.count())", 1%N, Argued "not on an input path of show/link/verify/dump/stats or of an argument parser: used by create (piece-length picker, lints) with operands from the walked files, properties C14/C15");
    ("src/bytes.rs", "Bytes as Div::div", "arith", "Bytes::from(self.0 / rhs)", 1%N, Argued "not on an input path of show/link/verify/dump/stats or of an argument parser: used by create (piece-length picker, lints) with operands from the walked files, properties C14/C15");
    ("src/bytes.rs", "Bytes as Mul::mul", "arith", "Bytes::from(self.0 * rhs)", 1%N, Argued "not on an input path of show/link/verify/dump/stats or of an argument parser: used by create (piece-length picker, lints) with operands from the walked files, properties C14/C15");
    ("src/bytes.rs", "Bytes as DivAssign::div_assign", "arith", "self.0 /= rhs;", 1%N, Argued "not on an input path of show/link/verify/dump/stats or of an argument parser: used by create (piece-length picker, lints) with operands from the walked files, properties C14/C15");
    ("src/bytes.rs", "Bytes as MulAssign::mul_assign", "arith", "self.0 *= rhs;", 1%N, Argued "not on an input path of show/link/verify/dump/stats or of an argument parser: used by create (piece-length picker, lints) with operands from the walked files, properties C14/C15");
    ("src/bytes.rs", "Bytes as AddAssign::add_assign", "arith", "self.0 += rhs.0;", 1%N, Guarded _ content_size_guard "the only sum on an input path is Mode::content_size, guarded by content_size_fits in Metainfo::deserialize (repair 0006); modelled by sum_u64");
    ("src/bytes.rs", "Bytes as SubAssign::sub_assign", "arith", "self.0 -= rhs;", 1%N, Argued "not on an input path of show/link/verify/dump/stats or of an argument parser: used by create (piece-length picker, lints) with operands from the walked files, properties C14/C15");
    ("src/bytes.rs", "Bytes as Sum::sum", "arith", "sum += item;", 1%N, Guarded _ content_size_guard "the only sum on an input path is Mode::content_size, guarded by content_size_fits in Metainfo::deserialize (repair 0006); modelled by sum_u64");
    ("src/bytes.rs", "Bytes as Display::fmt", "arith", "value /= 1024.0;", 1%N, Argued "f64 division never panics");
    ("src/bytes.rs", "Bytes as Display::fmt", "arith", "i += 1;", 1%N, Guarded _ suffix_index_le "loop counter: at most 6 iterations for a u64");
    ("src/bytes.rs", "Bytes as Display::fmt", "arith", "DISPLAY_SUFFIXES[i - 1]", 1%N, Guarded _ display_guard "a u64 is below 1024^7, so 1 <= i <= 6 in the else branch; modelled by bytes_display");
    ("src/bytes.rs", "Bytes as Display::fmt", "arith", "let scaled = 100 * u128::from(self.0);", 1%N, Guarded _ ByteSizeProofs.display_eq "for a u64 value 100 n < 2^71, the unit is 1024^i with i <= 6 (never 0, the saturating product never saturates), twice the remainder is below 2^61 and quotient + 1 <= 100 n + 1: no u128 operator overflows or divides by zero; modelled by ByteSize.hundredths with checked operators (chk128, unit = 0), C16 theorem display_eq: bs_display n is Some text for every n < 2^64");
    ("src/bytes.rs", "Bytes as Display::fmt", "arith", "let quotient = scaled / unit;", 1%N, Guarded _ ByteSizeProofs.display_eq "for a u64 value 100 n < 2^71, the unit is 1024^i with i <= 6 (never 0, the saturating product never saturates), twice the remainder is below 2^61 and quotient + 1 <= 100 n + 1: no u128 operator overflows or divides by zero; modelled by ByteSize.hundredths with checked operators (chk128, unit = 0), C16 theorem display_eq: bs_display n is Some text for every n < 2^64");
    ("src/bytes.rs", "Bytes as Display::fmt", "arith", "let hundredths = match (2 * (scaled % unit)).cmp(&unit) {", 1%N, Guarded _ ByteSizeProofs.display_eq "for a u64 value 100 n < 2^71, the unit is 1024^i with i <= 6 (never 0, the saturating product never saturates), twice the remainder is below 2^61 and quotient + 1 <= 100 n + 1: no u128 operator overflows or divides by zero; modelled by ByteSize.hundredths with checked operators (chk128, unit = 0), C16 theorem display_eq: bs_display n is Some text for every n < 2^64");
    ("src/bytes.rs", "Bytes as Display::fmt", "arith", "let hundredths = match (2 * (scaled % unit)).cmp(&unit) {", 2%N, Guarded _ ByteSizeProofs.display_eq "for a u64 value 100 n < 2^71, the unit is 1024^i with i <= 6 (never 0, the saturating product never saturates), twice the remainder is below 2^61 and quotient + 1 <= 100 n + 1: no u128 operator overflows or divides by zero; modelled by ByteSize.hundredths with checked operators (chk128, unit = 0), C16 theorem display_eq: bs_display n is Some text for every n < 2^64");
    ("src/bytes.rs", "Bytes as Display::fmt", "arith", "Ordering::Equal => quotient + quotient % 2,", 1%N, Guarded _ ByteSizeProofs.display_eq "for a u64 value 100 n < 2^71, the unit is 1024^i with i <= 6 (never 0, the saturating product never saturates), twice the remainder is below 2^61 and quotient + 1 <= 100 n + 1: no u128 operator overflows or divides by zero; modelled by ByteSize.hundredths with checked operators (chk128, unit = 0), C16 theorem display_eq: bs_display n is Some text for every n < 2^64");
    ("src/bytes.rs", "Bytes as Display::fmt", "arith", "Ordering::Equal => quotient + quotient % 2,", 2%N, Guarded _ ByteSizeProofs.display_eq "for a u64 value 100 n < 2^71, the unit is 1024^i with i <= 6 (never 0, the saturating product never saturates), twice the remainder is below 2^61 and quotient + 1 <= 100 n + 1: no u128 operator overflows or divides by zero; modelled by ByteSize.hundredths with checked operators (chk128, unit = 0), C16 theorem display_eq: bs_display n is Some text for every n < 2^64");
    ("src/bytes.rs", "Bytes as Display::fmt", "arith", "Ordering::Greater => quotient + 1,", 1%N, Guarded _ ByteSizeProofs.display_eq "for a u64 value 100 n < 2^71, the unit is 1024^i with i <= 6 (never 0, the saturating product never saturates), twice the remainder is below 2^61 and quotient + 1 <= 100 n + 1: no u128 operator overflows or divides by zero; modelled by ByteSize.hundredths with checked operators (chk128, unit = 0), C16 theorem display_eq: bs_display n is Some text for every n < 2^64");
    ("src/bytes.rs", "Bytes as Display::fmt", "arith", "let formatted = format!(""{}.{:02}"", hundredths / 100, hundredths % 100);", 1%N, Argued "quotient and remainder by the non-zero literal 100 never panic");
    ("src/bytes.rs", "Bytes as Display::fmt", "arith", "let formatted = format!(""{}.{:02}"", hundredths / 100, hundredths % 100);", 2%N, Argued "quotient and remainder by the non-zero literal 100 never panic");
    ("src/piece_list.rs", "PieceList as Deserialize::deserialize", "invariant", "chunk .try_into() .invariant_unwrap(""chunks are all Sha1Digest::LENGTH""),", 1%N, Guarded _ pieces_guard "chunks_exact(20) yields 20-byte chunks; modelled by de_pieces");
    ("src/piece_list.rs", "PieceList as Deserialize::deserialize", "api", "let piece_hashes = bytes .chunks_exact(Sha1Digest::LENGTH)", 1%N, Argued "chunks_exact with the constant Sha1Digest::LENGTH = 20, never zero");
    ("src/piece_list.rs", "PieceList as Serialize::serialize", "arith", "let mut bytes = Vec::with_capacity(self.piece_hashes.len() * sha1::DIGEST_LENGTH);", 1%N, Argued "not on an input path (serialisation in create / from-link); len * 20 is the byte size of an existing Vec of 20-byte digests");
    ("src/piece_list.rs", "PieceList as Deserialize::deserialize", "arith", "if bytes.len() % Sha1Digest::LENGTH != 0 {", 1%N, Argued "remainder by the constant Sha1Digest::LENGTH = 20, never zero");
    ("src/file_path.rs", "FilePath::name", "index", "self.components[self.components.len() - 1]", 1%N, Argued "FilePath::name is only called by the walker (create) on paths built by from_relative_path, which rejects the empty path; not on an input path of show/link/verify/dump/stats");
    ("src/file_path.rs", "FilePath::name", "arith", "&self.components[self.components.len() - 1]", 1%N, Argued "FilePath::name is only called by the walker (create) on paths built by from_relative_path, which rejects the empty path; not on an input path of show/link/verify/dump/stats");
    ("src/host_port.rs", "HostPort as FromStr::from_str", "invariant", """, ) .invariant_unwrap(""regex is valid"");", 1%N, Argued "invariant of a constant: the regular expression literal compiles; exercised by every --node/--peer/x.pe argument of the run");
    ("src/host_port.rs", "HostPort as FromStr::from_str", "invariant", "let host_text = captures .name(""host"") .invariant_unwrap(""Capture group `host` always present"")", 1%N, Argued "invariant of a constant: the groups `host` and `port` are not optional in the pattern, so a match has both; exercised by every accepted host:port of the run");
    ("src/host_port.rs", "HostPort as FromStr::from_str", "invariant", "let port_text = captures .name(""port"") .invariant_unwrap(""Capture group `port` always present"")", 1%N, Argued "invariant of a constant: the groups `host` and `port` are not optional in the pattern, so a match has both; exercised by every accepted host:port of the run");
    ("src/magnet_link.rs", "MagnetLink::to_url", "invariant", "let mut url = Url::parse(""magnet:"").invariant_unwrap(""`magnet:` is valid URL"");", 1%N, Guarded _ link_no_panic "Url::parse of the constant ""magnet:"": hypothesis magnet_scheme_is_a_url, exercised by every successful `torrent link` of the run");
    ("src/magnet_link.rs", "MagnetLink::parse", "invariant", "buf .as_slice() .try_into() .invariant_unwrap(""bounds are checked above""),", 1%N, Guarded _ magnet_topic_guard "40 hex digits decode to 20 bytes; modelled by magnet_topic");
    ("src/subcommand/torrent/stats.rs", "Extractor::new", "invariant", "let regex_set = RegexSet::new(regexes.iter().map(Regex::as_str)) .invariant_unwrap(""Regexes already validated by compilation"");", 1%N, Argued "every pattern was compiled by clap into a Regex before RegexSet::new sees its text; not reachable from torrent bytes");
    ("src/subcommand/torrent/stats.rs", "Extractor::extract", "api", "self.current_path.truncate(starting_length);", 1%N, Argued "String::truncate(starting_length): starting_length is the length of current_path at entry, a prefix made of whole pushed strings, hence a char boundary");
    ("src/subcommand/torrent/stats.rs", "Extractor::extract", "api", "self.current_path.truncate(starting_length);", 2%N, Argued "String::truncate(starting_length): starting_length is the length of current_path at entry, a prefix made of whole pushed strings, hence a char boundary");
    ("src/subcommand/torrent/stats.rs", "Extractor::extract", "index", "self.regex_set.patterns()[i]", 1%N, Argued "i comes from RegexSet::matches over the same set, so it is below patterns().len()");
    ("src/subcommand/torrent/stats.rs", "Extractor::process", "arith", "if self.torrents % 10000 == 0 {", 1%N, Guarded _ stats_no_panic "counters move once per directory entry; modelled by stats_files (io_errors moves like bencode_decode_errors)");
    ("src/subcommand/torrent/stats.rs", "Extractor::process", "arith", "self.torrents += 1;", 1%N, Guarded _ stats_no_panic "counters move once per directory entry; modelled by stats_files (io_errors moves like bencode_decode_errors)");
    ("src/subcommand/torrent/stats.rs", "Extractor::process", "arith", "self.io_errors += 1;", 1%N, Guarded _ stats_no_panic "counters move once per directory entry; modelled by stats_files (io_errors moves like bencode_decode_errors)");
    ("src/subcommand/torrent/stats.rs", "Extractor::process", "arith", "self.bencode_decode_errors += 1;", 1%N, Guarded _ stats_no_panic "counters move once per directory entry; modelled by stats_files (io_errors moves like bencode_decode_errors)");
    ("src/invariant.rs", "invariant_unwrap", "unwrap", "self.invariant(invariant).unwrap()", 1%N, Argued "the definition of invariant_unwrap itself; every use is inventoried separately with kind `invariant`")
  ].

Definition site_eqb (a b : site) : bool :=
  let '(f1, g1, k1, e1, n1) := a in
  let '(f2, g2, k2, e2, n2) := b in
  String.eqb f1 f2 && String.eqb g1 g2 && String.eqb k1 k2 && String.eqb e1 e2 && N.eqb n1 n2.

Definition discharged (s : site) : bool := existsb (fun e => site_eqb s (fst e)) classification.

Definition is_guarded (r : reason) : bool := match r with Guarded _ _ _ => true | Argued _ => false end.

Lemma all_sites_discharged : forallb discharged panic_sites = true.
Proof. vm_compute. reflexivity. Qed.

(** the translator understood the sources and looked at all twenty anchored files *)
Lemma inventory_translated : GenPanicSites.translated = true /\ length anchored_files = 20%nat.
Proof. split; reflexivity. Qed.

Lemma guarded_count : length (filter (fun e => is_guarded (snd e)) classification) = 28%nat.
Proof. vm_compute. reflexivity. Qed.
