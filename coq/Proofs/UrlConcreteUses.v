(** X14 - the headline theorems of C05 / C07 / C10 / C08 restated at the concrete url-crate instances of
    Model/UrlConcrete.v: no `Section` variable for the url crate is left, the library hypotheses are gone, and what remains
    are boolean premises that place the INPUTS inside the modelled fragments. *)
From Coq Require Import Decimal DecimalN DecimalFacts.
From Coq Require Import String.
From Coq Require Import NArith ZArith Bool List Lia ZifyN ZifyBool.
From Imdl Require Import Model.Bencode Model.HostPort Model.UrlHost Model.UrlNorm Model.UrlConcrete.
From Imdl Require Import Proofs.HostPortProofs Proofs.UrlHostProofs Proofs.UrlNormProofs Proofs.UrlConcreteProofs.
From Imdl Require Model.Magnet Proofs.MagnetProofs Proofs.MagnetUtf8 Model.Utf8 Proofs.Utf8Proofs Proofs.Utf8Agree.
From Imdl Require Model.Crash Proofs.CrashProofs Model.Calendar.
From Imdl Require Model.Schema Model.Metainfo Proofs.MetainfoProofs.
From Imdl Require Model.Summary Model.SummarySpec Proofs.SummaryProofs Model.ShowConcrete Proofs.ShowConcreteProofs
  Model.EndToEndShow Proofs.EndToEndShowProofs Proofs.ShowConcreteE2E.
Import ListNotations.
Local Open Scope N_scope.

Lemma ascii_Forall s : forallb (fun b => b <? 128) s = true -> Forall (fun b => b < 128) s.
Proof. intros H. apply Forall_forall. intros b Hb. rewrite forallb_forall in H. specialize (H b Hb). lia. Qed.

Lemma ascii_valid s : forallb (fun b => b <? 128) s = true -> Utf8.utf8_valid s = true.
Proof. intros H. apply Utf8Proofs.valid_ascii, ascii_Forall, H. Qed.

Lemma ascii_wfb s : forallb (fun b => b <? 128) s = true -> MagnetProofs.wfb s.
Proof. intros H. apply Forall_forall. intros b Hb. rewrite forallb_forall in H. specialize (H b Hb). lia. Qed.

(* ================================================================== C10 *)
Section C10.
Import Magnet MagnetProofs MagnetUtf8.

Lemma c_url_norm_wfb t u : c_url_norm t = Some u -> wfb u.
Proof. intros H. apply ascii_wfb, visible_lt128, (c_url_norm_ascii t u H). Qed.

Lemma c_hp_fixed_valid ps : forallb c_hp_fixed ps = true -> forallb Utf8.utf8_valid ps = true.
Proof.
  intros H. apply forallb_forall. intros p Hin. rewrite forallb_forall in H. apply ascii_valid, c_hp_fixed_ascii, H, Hin.
Qed.

(** the own-parser round trip with NOTHING assumed of any library: for links whose trackers are normal URLs and whose peers
    are printed host:port values, `parse (print l)` recovers exactly the fields *)
Theorem c_own_parse_print l :
  wf_link l -> length (l_ih l) = 20%nat -> opt_valid (l_name l) = true ->
  forallb is_normal_url (l_trackers l) = true -> forallb c_hp_fixed (l_peers l) = true ->
  c_own_parse (print l) = Parsed (l_ih l) (l_name l) (l_trackers l) (l_peers l).
Proof.
  intros Hwf Hlen Hn Ht Hp. unfold c_own_parse. apply own_parse_print_utf8; try assumption.
  - unfold link_utf8. rewrite Hn, (normal_urls_valid _ Ht), (c_hp_fixed_valid _ Hp). reflexivity.
  - apply c_url_norm_all_fixed, Ht.
  - apply c_hp_fixed_all, Hp.
Qed.

(** the same for any name, valid UTF-8 or not: the parser reports [Utf8.lossy] of it *)
Theorem c_own_parse_print_any_name l :
  wf_link l -> length (l_ih l) = 20%nat ->
  forallb is_normal_url (l_trackers l) = true -> forallb c_hp_fixed (l_peers l) = true ->
  c_own_parse (print l) = Parsed (l_ih l) (option_map Utf8.lossy (l_name l)) (l_trackers l) (l_peers l).
Proof.
  intros Hwf Hlen Ht Hp. unfold c_own_parse. apply own_parse_print_any_name; try assumption.
  - apply normal_urls_valid, Ht.
  - apply c_hp_fixed_valid, Hp.
  - apply c_url_norm_all_fixed, Ht.
  - apply c_hp_fixed_all, Hp.
Qed.

(** what the concrete parser returns is in normal form again: every tracker a normal URL, every peer a printed value *)
Lemma collect_normal pairs : forall name trs prs name' trs' prs',
  forallb is_normal_url trs = true -> forallb c_hp_fixed prs = true ->
  collect c_url_norm c_hp_norm pairs name trs prs = inr (name', trs', prs') ->
  forallb is_normal_url trs' = true /\ forallb c_hp_fixed prs' = true.
Proof.
  induction pairs as [|[k v] r IH]; intros name trs prs name' trs' prs' Ht Hp H; cbn [collect] in H.
  - injection H as _ <- <-. split; assumption.
  - destruct (bytes_eqb k k_tr).
    + destruct (c_url_norm v) as [u|] eqn:E; [|discriminate]. apply IH in H; [exact H| |exact Hp].
      rewrite forallb_app, Ht. cbn [forallb]. rewrite (c_url_norm_normal v u E). reflexivity.
    + destruct (bytes_eqb k k_dn); [apply IH in H; [exact H|exact Ht|exact Hp]|].
      destruct (bytes_eqb k k_pe); [|apply IH in H; [exact H|exact Ht|exact Hp]].
      destruct (c_hp_norm v) as [p|] eqn:E; [|discriminate]. apply IH in H; [exact H|exact Ht|].
      rewrite forallb_app, Hp. cbn [forallb]. unfold c_hp_fixed. rewrite (c_hp_norm_idempotent v p E), beq_refl. reflexivity.
Qed.

Theorem c_own_parse_normal text ih name trs prs :
  c_own_parse text = Parsed ih name trs prs -> forallb is_normal_url trs = true /\ forallb c_hp_fixed prs = true.
Proof.
  unfold c_own_parse, own_parse. destruct (url_query text) as [[q|]|e|]; try discriminate; unfold parse_pairs.
  destruct (find_topic _) as [e|h]; [discriminate|].
  destruct (collect c_url_norm c_hp_norm _ None [] []) as [e|[[n t] p]] eqn:E; [discriminate|].
  intros H. injection H as _ _ <- <-. exact (collect_normal _ None [] [] n t p eq_refl eq_refl E).
Qed.

(** `torrent link`: the decoding theorem with the url crate concrete (its side condition on [url_norm] is proved) *)
Theorem c_link_cmd_decodes plus ih name announce tiers peers select_only uri :
  wfb ih -> wfb name -> Forall wfb peers ->
  c_link_cmd ih name announce tiers peers select_only = Some uri ->
  exists q trs,
    map_opt c_url_norm (tracker_texts announce tiers) = Some trs /\ forallb is_normal_url trs = true /\
    uri_query uri = Some q /\
    std_parse plus q =
      (k_xt, k_urn_btih ++ hex_lower ih) :: (k_dn, name)
      :: map (fun t => (k_tr, t)) trs ++ map (fun p => (k_pe, p)) peers
      ++ match index_set select_only with [] => [] | _ :: _ => [(k_so, so_value (index_set select_only))] end.
Proof.
  intros Hih Hn Hp H.
  destruct (link_cmd_decodes c_url_norm plus ih name announce tiers peers select_only uri Hih Hn Hp c_url_norm_wfb H)
    as (q & trs & Hm & Hq & Hs).
  exists q, trs. split; [exact Hm|]. split; [|split; assumption].
  clear - Hm. revert trs Hm. induction (tracker_texts announce tiers) as [|t r IH]; intros trs Hm; cbn [map_opt] in Hm.
  - injection Hm as <-. reflexivity.
  - destruct (c_url_norm t) as [u|] eqn:E; [|discriminate]. destruct (map_opt c_url_norm r) as [us|]; [|discriminate].
    injection Hm as <-. cbn [forallb]. rewrite (c_url_norm_normal t u E), (IH us eq_refl). reflexivity.
Qed.
End C10.

(* ================================================================== C08 *)
Section C08.
Import Crash CrashProofs.

Theorem c_show_no_panic (stack_budget : N) :
  max_depth <= stack_budget ->
  forall (term : bool) (ws : list N) (data : bytes),
  alloc_ok c_url_ok c_node_ok data ->
  finish (show_model c_url_ok c_node_ok stack_budget Calendar.chrono_accepts term ws data) <> Panic101.
Proof. intros Hb term ws data Ha. apply show_no_panic; assumption. Qed.

(** the one library hypothesis of [link_no_panic] - `Url::parse("magnet:")` succeeds - is a theorem of the instance *)
Theorem c_link_no_panic (stack_budget : N) :
  max_depth <= stack_budget -> forall data : bytes, finish (link_model c_url_ok c_node_ok stack_budget data) <> Panic101.
Proof. intros Hb data. apply link_no_panic; [exact Hb|exact (proj1 c_url_ok_magnet)]. Qed.

Theorem c_verify_no_panic (verdict : metainfo -> bool) (data : bytes) :
  finish (verify_model c_url_ok c_node_ok verdict data) <> Panic101.
Proof. apply verify_no_panic. Qed.

(** a torrent with a tracker URL with port and path, an update URL and an IPv6 node: loaded, shown and linked normally *)
Definition url_witness : bytes :=
  bytes_of_string "d8:announce36:http://tracker.example:8080/announce4:infod6:lengthi5e4:name1:n12:piece lengthi1e6:pieces0:10:update-url24:https://example.com/feede5:nodesll3:::1i6881eeee"%string.

Definition ok_tracker : bytes := bytes_of_string "http://tracker.example:8080/announce"%string.
Definition ok_node : bytes := bytes_of_string "l3:::1i6881ee"%string.
Definition bad_tracker : bytes := bytes_of_string "http://tracker.example:80800/announce"%string.
Definition bad_node : bytes := bytes_of_string "l3:a:bi6881ee"%string.

Lemma url_witness_loads :
  exists v m, load c_url_ok c_node_ok url_witness = Val (v, m) /\ m_announce_list m = None.
Proof. vm_compute. eexists. eexists. split; reflexivity. Qed.

Lemma url_witness_shows :
  max_depth <= max_depth /\
  alloc_ok c_url_ok c_node_ok url_witness /\
  finish (show_model c_url_ok c_node_ok max_depth Calendar.chrono_accepts true [4; 7] url_witness) = Ok0 /\
  finish (link_model c_url_ok c_node_ok max_depth url_witness) = Ok0 /\
  c_url_ok ok_tracker = true /\ c_node_ok ok_node = true /\
  (* the same file with an unparseable update URL or a node host the url crate refuses is refused, not shown *)
  c_url_ok bad_tracker = false /\ c_node_ok bad_node = false.
Proof.
  split; [apply N.le_refl|]. split; [|repeat split; vm_compute; reflexivity].
  intros v m H. destruct url_witness_loads as [v' [m' [H' Hal]]].
  rewrite H' in H. injection H as _ <-. unfold vec_ok. rewrite Hal. exact I.
Qed.
End C08.

(* ================================================================== C05 *)
Section C05.
Import Schema Metainfo MetainfoProofs.

Lemma opts_in_fragment_parts o : opts_in_fragment o = true ->
  opt_url_accepted (o_announce o) = true /\ opt_url_accepted (o_update_url o) = true /\
  forallb (fun t => forallb url_ok_in_fragment t) (tiers_of o) = true /\
  forallb (fun n => c_host_ok (unbracket (fst n))) (o_nodes o) = true.
Proof.
  unfold opts_in_fragment. intros H. apply andb_true_iff in H. destruct H as [H H4]. apply andb_true_iff in H. destruct H as [H H3].
  apply andb_true_iff in H. destruct H as [H1 H2]. repeat split; assumption.
Qed.

Definition node_stored (n : bytes * N) : value := Lst [Str (c_host_canon (unbracket (fst n))); Int (Z.of_N (snd n))].

(** create stores exactly the normal form of each URL and host given *)
Theorem c_create_stores_normal_forms sfx o c v :
  c_build sfx o c = Some v -> opts_in_fragment o = true ->
  vget (txt "announce") v = option_map (fun u => Str (c_norm u)) (o_announce o) /\
  iget (txt "update-url") v = option_map (fun u => Str (c_norm u)) (o_update_url o) /\
  vget (txt "nodes") v = (match o_nodes o with [] => None | _ => Some (Lst (map node_stored (o_nodes o))) end) /\
  (forall u, o_announce o = Some u \/ o_update_url o = Some u ->
     u_norm u = Some (Some (c_norm u)) /\ is_normal_url (c_norm u) = true /\ c_norm (c_norm u) = c_norm u /\
     (is_normal_url u = true -> c_norm u = u)) /\
  (forall n, In n (o_nodes o) ->
     exists h, u_hparse (hp_rebracket (unbracket (fst n))) = Some (Some h) /\
               c_host_canon (unbracket (fst n)) = hp_plain u_std4 u_std6 h /\
               c_host_canon (c_host_canon (unbracket (fst n))) = c_host_canon (unbracket (fst n))).
Proof.
  intros Hb Hf. destruct (opts_in_fragment_parts o Hf) as (Ha & Hu & _ & Hn). unfold c_build in Hb.
  split; [exact (get_announce _ _ _ o c v Hb)|]. split; [exact (get_info_update_url _ _ _ o c v Hb)|].
  split; [exact (get_nodes _ _ _ o c v Hb)|]. split.
  - intros u [E|E]; rewrite E in *; [destruct (c_norm_accepted u Ha) as (K1 & K2 & _ & _ & _ & _ & K3 & K4)
                                     |destruct (c_norm_accepted u Hu) as (K1 & K2 & _ & _ & _ & _ & K3 & K4)]; repeat split; assumption.
  - intros n Hin. rewrite forallb_forall in Hn. destruct (c_host_canon_spec _ (Hn n Hin)) as (h & K1 & K2 & _ & _ & _ & K6).
    exists h. repeat split; assumption.
Qed.

Lemma nodes_again (l l' : list (bytes * N)) :
  forallb (fun n => c_host_ok (unbracket (fst n))) l = true ->
  map (fun n => (unbracket (fst n), snd n)) l' = map (fun n => (c_host_canon (unbracket (fst n)), snd n)) l ->
  map node_stored l' = map node_stored l /\ forallb (fun n => c_host_ok (unbracket (fst n))) l' = true.
Proof.
  revert l'. induction l as [|n l IH]; intros l' Hn En; destruct l' as [|n' l']; try discriminate.
  - split; reflexivity.
  - cbn [map] in En. injection En as E1 E2 E3. cbn [forallb] in Hn. apply andb_true_iff in Hn. destruct Hn as [Hn1 Hn2].
    destruct (IH l' Hn2 E3) as [I1 I2]. destruct (c_host_canon_spec _ Hn1) as (h & _ & _ & _ & _ & K5 & K6).
    cbn [map forallb]. rewrite I1, I2. unfold node_stored at 1 3. rewrite E1, E2, K6, K5. split; reflexivity.
Qed.

(** storing what was stored again changes nothing: a second command line that gives back the stored announce, update URL
    and node hosts (hosts compared without their brackets, which the command line adds around an IPv6 literal) stores the
    same three values, and is inside the fragments again *)
Theorem c_create_again_changes_nothing sfx o c v sfx' o' c' v' :
  c_build sfx o c = Some v -> opts_in_fragment o = true -> c_build sfx' o' c' = Some v' ->
  o_announce o' = option_map c_norm (o_announce o) ->
  o_update_url o' = option_map c_norm (o_update_url o) ->
  map (fun n => (unbracket (fst n), snd n)) (o_nodes o') =
    map (fun n => (c_host_canon (unbracket (fst n)), snd n)) (o_nodes o) ->
  vget (txt "announce") v' = vget (txt "announce") v /\
  iget (txt "update-url") v' = iget (txt "update-url") v /\
  vget (txt "nodes") v' = vget (txt "nodes") v /\
  opt_url_accepted (o_announce o') = true /\ opt_url_accepted (o_update_url o') = true /\
  forallb (fun n => c_host_ok (unbracket (fst n))) (o_nodes o') = true.
Proof.
  intros Hb Hf Hb' Ea Eu En. destruct (opts_in_fragment_parts o Hf) as (Ha & Hu & _ & Hn).
  destruct (c_create_stores_normal_forms sfx o c v Hb Hf) as (G1 & G2 & G3 & _ & _).
  unfold c_build in Hb'. rewrite G1, G2, G3.
  rewrite (get_announce _ _ _ o' c' v' Hb'), (get_info_update_url _ _ _ o' c' v' Hb'), (get_nodes _ _ _ o' c' v' Hb'), Ea, Eu.
  assert (Acc : forall x, opt_url_accepted x = true ->
                  option_map (fun u => Str (c_norm u)) (option_map c_norm x) = option_map (fun u => Str (c_norm u)) x /\
                  opt_url_accepted (option_map c_norm x) = true).
  { intros [u|] Hx; [|split; reflexivity]. destruct (c_norm_accepted u Hx) as (_ & _ & _ & K & _ & _ & K3 & _). cbn [option_map].
    rewrite K3. split; [reflexivity|]. unfold opt_url_accepted. apply c_url_norm_spec in K. rewrite K. reflexivity. }
  destruct (Acc _ Ha) as [A1 A2]. destruct (Acc _ Hu) as [U1 U2].
  split; [exact A1|]. split; [exact U1|].
  destruct (nodes_again _ _ Hn En) as [N1 N2].
  split; [|split; [exact A2|split; [exact U2|exact N2]]].
  change (fun n : bytes * N => Lst [Str (c_host_canon (unbracket (fst n))); Int (Z.of_N (snd n))]) with node_stored.
  rewrite N1. destruct (o_nodes o') as [|a l'], (o_nodes o) as [|b l]; try discriminate; reflexivity.
Qed.
End C05.

(* ================================================================== C07 *)
Section C07.
Import Summary SummarySpec SummaryProofs ShowConcrete ShowConcreteProofs.

(** how the report shows one stored node [host, port] *)
Definition node_shown (nv : value) (t : bytes) : Prop :=
  exists h p x, nv = Lst [Str h; Int p] /\ (0 <= p < 65536)%Z /\ u_hparse (hp_rebracket h) = Some (Some x) /\
                host_in_fragment h = true /\ t = hshow u_std4 u_url6 x ++ [58] ++ dec (Z.to_N p).

Lemma as_node_concrete v t : as_node c_host_disp v = Some t -> node_shown v t.
Proof.
  destruct v as [| |l|]; cbn [as_node]; try discriminate.
  destruct l as [|h [|p [|x r]]]; try discriminate.
  destruct (as_string h) as [hs|] eqn:Eh; [|discriminate]. apply as_string_inv in Eh. subst h.
  destruct (as_uint 16 p) as [pn|] eqn:Ep; [|discriminate].
  destruct (as_uint_inv _ _ _ Ep) as (z & -> & -> & Hz).
  unfold c_host_disp. destruct (u_hparse (hp_rebracket hs)) as [[x|]|] eqn:E; try discriminate.
  intros H. injection H as <-. exists hs, z, x. change (2 ^ Z.of_N 16)%Z with 65536%Z in Hz. unfold host_in_fragment. rewrite E.
  split; [reflexivity|]. split; [lia|]. split; [reflexivity|]. split; reflexivity.
Qed.

Lemma nodes_concrete l : forall ts, map_opt (as_node c_host_disp) l = Some ts -> Forall2 node_shown l ts.
Proof.
  induction l as [|nv l IH]; intros ts H; cbn [map_opt] in H.
  - injection H as <-. constructor.
  - destruct (as_node c_host_disp nv) as [t|] eqn:E; [|discriminate].
    destruct (map_opt (as_node c_host_disp) l) as [ts'|]; [|discriminate]. injection H as <-.
    constructor; [apply as_node_concrete, E|apply IH; reflexivity].
Qed.

Lemma nodes_in_fragment l ts : Forall2 node_shown l ts -> forallb node_value_in_fragment l = true.
Proof.
  induction 1 as [|nv t l ts (h & p & x & -> & _ & _ & Hf & _) _ IH]; [reflexivity|]. cbn [forallb node_value_in_fragment]. rewrite Hf, IH. reflexivity.
Qed.

(** show prints update_url / dht_nodes as the normal form of what the file says; a file written in normal form is printed
    byte for byte; and a printed report never rests on a text outside the fragments *)
Theorem c_show_reports src input ih j tab term :
  c_show src input ih = ShowPrinted j tab term ->
  exists v rest m,
    input = encode v ++ rest /\ c_typed_of_value v = Some m /\ value_in_fragment v = true /\
    jfield j k_update_url_json = jopt_str (m_update_url m) /\
    jfield j k_dht_nodes_json = JvArr (map JvStr (match m_nodes m with Some l => l | None => [] end)) /\
    (forall s, get_str k_update_url (info_of v) = Some s ->
       exists u, u_norm s = Some (Some u) /\ m_update_url m = Some u /\ is_normal_url u = true /\
                 (is_normal_url s = true -> u = s)) /\
    (get_str k_update_url (info_of v) = None -> m_update_url m = None) /\
    (forall l, lookup k_nodes (top_of v) = Some (Lst l) -> exists ts, m_nodes m = Some ts /\ Forall2 node_shown l ts) /\
    (lookup k_nodes (top_of v) = None -> m_nodes m = None).
Proof.
  intros H. unfold c_show in H.
  destruct (concrete_show_reports_decoded _ _ _ _ _ _ _ _ H) as (v & rest & m & Hin & Ht & Hj & _ & _).
  exists v, rest, m. split; [exact Hin|]. split; [exact Ht|].
  assert (Hc : content_size_debug (m_mode m) = Some (total_length (m_mode m)))
    by apply (content_size_is_true_sum _ _ _ _ Ht).
  pose proof (json_is_direct_reading c_host_disp c_url_norm v m _ (N.of_nat (List.length input)) ih Ht Hc) as Hd.
  destruct (typed_inv _ _ _ _ Ht) as (d & i & -> & Ei & _ & _ & _ & _ & _ & A7 & _ & _ & _ & _ & _ & _ & B7 & _).
  assert (Ii : info_of (Dict d) = i) by (unfold info_of; cbn [top_of]; rewrite Ei; reflexivity).
  rewrite Ii. cbn [top_of].
  (* the update URL *)
  assert (U1 : forall s, get_str k_update_url i = Some s ->
                 exists u, u_norm s = Some (Some u) /\ m_update_url m = Some u /\ is_normal_url u = true /\
                           (is_normal_url s = true -> u = s)).
  { intros s Hs. pose proof (opt_url_get c_url_norm _ _ _ B7) as G. rewrite Hs in G.
    destruct (opt_inv _ _ _ _ B7) as [[E _]|(pv & x & E & F & Ex)].
    - unfold get_str in Hs. rewrite E in Hs. discriminate.
    - rewrite Ex in G. apply c_url_norm_spec in G. exists x. split; [exact G|]. split; [exact Ex|].
      split; [exact (u_norm_normal s x G)|]. intros Hn. rewrite (u_norm_fixed s Hn) in G. congruence. }
  assert (U2 : get_str k_update_url i = None -> m_update_url m = None).
  { intros Hs. pose proof (opt_url_get c_url_norm _ _ _ B7) as G. rewrite Hs in G. symmetry. exact G. }
  (* the nodes *)
  assert (N1 : forall l, lookup k_nodes d = Some (Lst l) -> exists ts, m_nodes m = Some ts /\ Forall2 node_shown l ts).
  { intros l Hl. destruct (opt_inv _ _ _ _ A7) as [[E _]|(pv & x & E & F & Ex)]; [congruence|].
    rewrite E in Hl. injection Hl as ->. cbn [as_list] in F. exists x. split; [exact Ex|apply nodes_concrete, F]. }
  assert (N2 : lookup k_nodes d = None -> m_nodes m = None).
  { intros Hl. destruct (opt_inv _ _ _ _ A7) as [[_ E]|(pv & x & E & _)]; [exact E|congruence]. }
  split.
  { unfold value_in_fragment. rewrite Ii. cbn [top_of]. apply andb_true_iff. split.
    - destruct (lookup k_update_url i) as [[z|s|l0|d0]|] eqn:E; try reflexivity.
      destruct (U1 s) as (u & G & _); [unfold get_str; rewrite E; reflexivity|]. unfold url_in_fragment. rewrite G. reflexivity.
    - destruct (lookup k_nodes d) as [[z|s|l|d0]|] eqn:E; try reflexivity.
      destruct (N1 l eq_refl) as (ts & _ & F). exact (nodes_in_fragment l ts F). }
  split; [rewrite Hj, <- Hd; reflexivity|]. split; [rewrite Hj, <- Hd; reflexivity|].
  repeat split; assumption.
Qed.
End C07.

(* ================================================================== C07, end to end with create *)
Section C07E2E.
Import EndToEndShow EndToEndShowProofs.

Definition c_node_shown (n : bytes * N) : bytes :=
  match c_host_disp (Metainfo.unbracket (fst n)) with Some t => t ++ [58] ++ dec (snd n) | None => [] end.

Definition c_nodes_shown (o : Metainfo.opts) : option (list bytes) :=
  match Metainfo.o_nodes o with [] => None | ns => Some (map c_node_shown ns) end.

Lemma c_node_texts ns : forallb (fun n => c_host_ok (Metainfo.unbracket (fst n))) ns = true ->
  Summary.map_opt (node_text c_host_canon c_host_disp) ns = Some (map c_node_shown ns).
Proof.
  induction ns as [|n ns IH]; [reflexivity|]. cbn [forallb]. intros H. apply andb_true_iff in H. destruct H as [H1 H2].
  cbn [Summary.map_opt map]. rewrite (IH H2). unfold node_text, c_node_shown.
  destruct (c_host_canon_spec _ H1) as (h & _ & _ & K3 & K4 & _). rewrite K3, K4. reflexivity.
Qed.

(** the loader reads back every host create stored, and shows it as Display prints the host given *)
Theorem c_nodes_text o : forallb (fun n => c_host_ok (Metainfo.unbracket (fst n))) (Metainfo.o_nodes o) = true ->
  nodes_text c_host_canon c_host_disp o = Some (c_nodes_shown o).
Proof.
  intros H. unfold nodes_text, c_nodes_shown. destruct (Metainfo.o_nodes o) as [|n ns] eqn:E; [reflexivity|].
  rewrite (c_node_texts _ H). reflexivity.
Qed.

(** ... and the update URL it stored, unchanged *)
Theorem c_update_text o : opt_url_accepted (Metainfo.o_update_url o) = true ->
  update_text c_norm c_url_norm o = Some (option_map c_norm (Metainfo.o_update_url o)).
Proof.
  intros H. unfold update_text. destruct (Metainfo.o_update_url o) as [u|]; [|reflexivity].
  destruct (c_norm_accepted u H) as (_ & _ & _ & K & _). rewrite K. reflexivity.
Qed.

(** `show` of the bytes `create` wrote, with the url crate concrete on both sides: the two `Some` hypotheses of
    c07_written_bytes_show_back (the url crate reads back what it printed) are theorems inside the fragments *)
Theorem c_written_bytes_show_back sfx src o c tb name ih :
  Metainfo.input_ok (Metainfo.c_input c) = true -> Metainfo.opts_ok o = true ->
  texts_utf8 c_norm c_host_canon sfx o c = true -> content_shown_ok (Metainfo.o_md5 o) c = true ->
  c_create_bytes sfx o c = Some tb -> Metainfo.name_of o (Metainfo.c_input c) = Some name ->
  opts_in_fragment o = true ->
  let nodes := c_nodes_shown o in
  let upd := option_map c_norm (Metainfo.o_update_url o) in
  let len := N.of_nat (List.length tb) in
  let t := Summary.table_of Calendar.cal (requested c_norm sfx o c name nodes upd)
             (Metainfo.total_size (Metainfo.c_input c)) len ih in
  c_show src tb ih =
  Summary.ShowPrinted (requested_json c_norm sfx o c name nodes upd len ih) (Summary.render_tab t)
    (Summary.render_term ShowConcrete.human_display t).
Proof.
  intros H1 H2 H3 H4 H5 H6 Hf. destruct (opts_in_fragment_parts o Hf) as (_ & Hu & _ & Hn). cbv zeta. unfold c_show.
  apply (ShowConcreteE2E.concrete_written_bytes_show_back c_norm c_host_canon sfx c_host_disp c_url_norm c_url_ok); try assumption.
  - apply c_nodes_text, Hn.
  - apply c_update_text, Hu.
Qed.

(** the texts the url crate printed at creation are valid UTF-8 (they are ASCII): that part of [texts_utf8] holds *)
Theorem c_stored_texts_utf8 o : opts_in_fragment o = true ->
  opt_utf8 (option_map c_norm (Metainfo.o_announce o)) = true /\
  opt_utf8 (option_map c_norm (Metainfo.o_update_url o)) = true /\
  forallb (fun n => Summary.utf8_valid (c_host_canon (Metainfo.unbracket (fst n)))) (Metainfo.o_nodes o) = true.
Proof.
  intros Hf. destruct (opts_in_fragment_parts o Hf) as (Ha & Hu & _ & Hn).
  assert (K : forall x, opt_url_accepted x = true -> opt_utf8 (option_map c_norm x) = true).
  { intros [u|] Hx; [|reflexivity]. destruct (c_norm_accepted u Hx) as (_ & _ & G & _). cbn [option_map opt_utf8].
    rewrite (proj1 (Utf8Agree.utf8_validators_agree _)). apply ascii_valid, visible_lt128, (c_url_norm_ascii u _ G). }
  split; [apply K, Ha|]. split; [apply K, Hu|].
  apply forallb_forall. intros n Hin. rewrite forallb_forall in Hn.
  rewrite (proj1 (Utf8Agree.utf8_validators_agree _)). apply ascii_valid, c_host_canon_ascii, Hn, Hin.
Qed.
End C07E2E.
