(** Proofs about Model/HostPort.v (C17). *)
From Coq Require Import Decimal DecimalN DecimalFacts.
From Coq Require Import NArith ZArith Lia Bool List ZifyN ZifyBool.
From Imdl Require Import Model.Bencode Proofs.BencodeProofs Model.HostPort.
Import ListNotations.
Local Open Scope N_scope.

(* ---------- small list facts ---------- *)
Lemma mem_app c a b : hp_mem c (a ++ b) = hp_mem c a || hp_mem c b.
Proof. unfold hp_mem. apply existsb_app. Qed.

Lemma mem_cons c x s : hp_mem c (x :: s) = (c =? x) || hp_mem c s.
Proof. reflexivity. Qed.

Lemma forallb_mem_false (P : N -> bool) c s : forallb P s = true -> P c = false -> hp_mem c s = false.
Proof.
  intros Hs Hc. induction s as [|x s IH]; [reflexivity|].
  cbn [forallb] in Hs. apply andb_prop in Hs. destruct Hs as [Hx Hs].
  rewrite mem_cons, (IH Hs), orb_false_r.
  destruct (N.eqb_spec c x) as [E|E]; [subst; congruence|reflexivity].
Qed.

Lemma mem_In c s : hp_mem c s = true <-> In c s.
Proof.
  unfold hp_mem. rewrite existsb_exists. split.
  - intros (x & Hx & E). apply N.eqb_eq in E. subst. exact Hx.
  - intros H. exists c. split; [exact H|apply N.eqb_refl].
Qed.

(* ---------- decimal text and u16 ---------- *)
Lemma is_dig_uint_bytes u : forallb hp_is_dig (uint_bytes u) = true.
Proof. induction u; cbn [uint_bytes forallb]; try rewrite IHu; reflexivity. Qed.

Lemma digits_val_acc u : forall acc,
  hp_digits_val (Npos acc) (uint_bytes u) = Some (Npos (Pos.of_uint_acc u acc)).
Proof.
  induction u; intros acc; cbn [uint_bytes hp_digits_val Pos.of_uint_acc]; try reflexivity.
  all: match goal with |- context [hp_is_dig ?c] => change (hp_is_dig c) with true end; cbv iota.
  all: match goal with |- hp_digits_val ?a _ = Some (Npos (Pos.of_uint_acc _ ?b)) =>
         replace a with (Npos b) by lia end.
  all: apply IHu.
Qed.

Lemma digits_val_of_uint u : hp_digits_val 0 (uint_bytes u) = Some (N.of_uint u).
Proof.
  induction u; cbn [uint_bytes hp_digits_val]; try reflexivity.
  all: match goal with |- context [hp_is_dig ?c] => change (hp_is_dig c) with true end; cbv iota.
  1: exact IHu.
  all: match goal with |- hp_digits_val ?a _ = _ =>
         let v := eval vm_compute in a in change a with v end.
  all: rewrite digits_val_acc; reflexivity.
Qed.

Lemma digits_val_dec n : hp_digits_val 0 (dec n) = Some n.
Proof. unfold dec. rewrite digits_val_of_uint, DecimalN.Unsigned.of_to. reflexivity. Qed.

Lemma is_dig_dec n : forallb hp_is_dig (dec n) = true.
Proof. apply is_dig_uint_bytes. Qed.

Lemma dec_nonempty n : dec n <> [].
Proof. destruct (dec_hd n) as (b & t & E & _). rewrite E. discriminate. Qed.

Lemma parse_u16_dec n : n <= 65535 -> parse_u16 (dec n) = Some n.
Proof.
  intros Hn. unfold parse_u16.
  pose proof (is_dig_dec n) as Hd. pose proof (digits_val_dec n) as Hv.
  destruct (dec n) as [|b t] eqn:E; [exfalso; exact (dec_nonempty n E)|].
  cbn [forallb] in Hd. apply andb_prop in Hd. destruct Hd as [Hb _].
  cbn [hd_is]. replace (b =? 43) with false by (unfold hp_is_dig in Hb; lia).
  rewrite Hv. replace (n <=? 65535) with true by lia. reflexivity.
Qed.

Lemma digits_val_some acc p v : hp_digits_val acc p = Some v -> forallb hp_is_dig p = true.
Proof.
  revert acc. induction p as [|c r IH]; intros acc H; [reflexivity|].
  cbn [hp_digits_val] in H. cbn [forallb]. destruct (hp_is_dig c); [|discriminate].
  exact (IH _ H).
Qed.

(** the only texts `u16::from_str` accepts: optional '+', then one or more ASCII digits whose
    value is at most 65535 *)
Lemma parse_u16_some p n : parse_u16 p = Some n ->
  n <= 65535 /\ exists ds, (p = ds \/ p = 43 :: ds) /\ ds <> [] /\ forallb hp_is_dig ds = true /\
                           hp_digits_val 0 ds = Some n.
Proof.
  unfold parse_u16. intros H.
  set (ds := match hd_is 43 p with Some r => r | None => p end) in *.
  assert (Hp : p = ds \/ p = 43 :: ds).
  { subst ds. destruct (hd_is 43 p) as [r|] eqn:E; [right; exact (hd_is_some _ _ _ E)|left; reflexivity]. }
  destruct ds as [|c r] eqn:Eds; [discriminate|].
  destruct (hp_digits_val 0 (c :: r)) as [v|] eqn:Ev; [|discriminate].
  destruct (v <=? 65535) eqn:Ele; [|discriminate]. inversion H; subst v.
  split; [lia|]. exists (c :: r). repeat split; auto; try discriminate.
  exact (digits_val_some _ _ _ Ev).
Qed.

(* ---------- the typed tuple reader against the generic bencode model ---------- *)
Lemma dec_tuple_enc t z rest : i64_ok z = true ->
  hp_dec_tuple (encode (Lst [Str t; Int z]) ++ rest) = Some (t, z, rest).
Proof.
  intros Hz. unfold hp_dec_tuple. cbn [encode flat_map]. rewrite app_nil_r.
  cbn [app hd_is]. rewrite N.eqb_refl. rewrite <- !app_assoc.
  rewrite dec_str_enc.
  unfold enc_int at 1. cbn [app hd_is]. rewrite N.eqb_refl.
  change ((if (z <? 0)%Z then [45] else []) ++ dec (Z.abs_N z) ++ [101]) with (tl (enc_int z)).
  rewrite <- ?app_assoc. rewrite (dec_int_enc z _ Hz).
  cbn [app hd_is]. rewrite N.eqb_refl. reflexivity.
Qed.

Lemma dec_int_is_int r v rest : dec_int r = Some (v, rest) -> exists z, v = Int z.
Proof.
  unfold dec_int. intros H.
  destruct (hd_is 45 r) as [r1|].
  - destruct (take_digits r1) as [u r2]. destruct (nonzero_start u); [|discriminate].
    destruct (hd_is 101 r2); [|discriminate].
    match type of H with (if ?c then _ else _) = _ => destruct c end; [|discriminate].
    inversion H. eauto.
  - destruct (take_digits r) as [u r2]. destruct (canon u); [|discriminate].
    destruct (hd_is 101 r2); [|discriminate].
    match type of H with (if ?c then _ else _) = _ => destruct c end; [|discriminate].
    inversion H. eauto.
Qed.

(** what the typed reader consumed is exactly the canonical encoding of the pair it returned *)
Lemma dec_tuple_exact bs t z rest :
  hp_dec_tuple bs = Some (t, z, rest) -> bs = encode (Lst [Str t; Int z]) ++ rest.
Proof.
  unfold hp_dec_tuple. intros H.
  destruct (hd_is 108 bs) as [r0|] eqn:E0; [|discriminate].
  destruct (dec_str r0) as [[t' r1]|] eqn:E1; [|discriminate].
  destruct (hd_is 105 r1) as [r2|] eqn:E2; [|discriminate].
  destruct (dec_int r2) as [[v r3]|] eqn:E3; [|discriminate].
  destruct v as [z'| | |]; try discriminate.
  destruct (hd_is 101 r3) as [rest'|] eqn:E4; [|discriminate].
  inversion H; subst t' z' rest'.
  apply hd_is_some in E0, E2, E4. apply dec_str_exact in E1. apply dec_int_exact in E3.
  subst bs r0 r3. rewrite <- E2 in E3. rewrite E3.
  cbn [encode flat_map]. rewrite app_nil_r. cbn [app]. rewrite <- !app_assoc. reflexivity.
Qed.

Section Proofs.
  Variable all_nd : bytes -> bool.
  Variable hparse : bytes -> option hp_host.
  Variables std4 std6 url6 : N -> bytes.
  Hypothesis L : url_lib all_nd hparse std4 std6 url6.

  Notation hp_split := (hp_split all_nd).
  Notation hp_parse := (hp_parse all_nd hparse).
  Notation hshow := (hshow std4 url6).
  Notation hp_display := (hp_display std4 url6).
  Notation hp_plain := (hp_plain std4 std6).
  Notation hp_to_bencode := (hp_to_bencode std4 std6).
  Notation hp_from_bencode := (hp_from_bencode hparse).
  Notation in_range := (in_range hparse).

  (* ----- the regex split ----- *)
  Lemma nd_no_colon p : all_nd p = true -> hp_mem 58 p = false.
  Proof.
    intros H. destruct (nd_bytes _ _ _ _ _ L p H) as [_ Hb].
    exact (forallb_mem_false _ 58 p Hb eq_refl).
  Qed.

  Lemma split_no_colon s : hp_mem 58 s = false -> hp_split s = None.
  Proof.
    induction s as [|c r IH]; intros H; [reflexivity|].
    rewrite mem_cons in H. apply orb_false_elim in H. destruct H as [Hc Hr].
    cbn [HostPort.hp_split]. rewrite (N.eqb_sym c 58), Hc. cbn [andb].
    destruct (c =? 10); [reflexivity|]. rewrite (IH Hr). reflexivity.
  Qed.

  (** the lazy, leftmost-first regex splits at the LAST colon, and only there *)
  Lemma split_last ht pt : hp_mem 58 pt = false ->
    hp_split (ht ++ 58 :: pt) = if all_nd pt && negb (hp_mem 10 ht) then Some (ht, pt) else None.
  Proof.
    intros Hpt. induction ht as [|c r IH].
    - cbn [app HostPort.hp_split hp_mem existsb negb]. rewrite N.eqb_refl, andb_true_r. cbn [andb].
      destruct (all_nd pt); [reflexivity|].
      change (58 =? 10) with false. cbv iota. rewrite (split_no_colon _ Hpt). reflexivity.
    - cbn [app HostPort.hp_split]. rewrite mem_cons.
      assert (Hnd : all_nd (r ++ 58 :: pt) = false).
      { destruct (all_nd (r ++ 58 :: pt)) eqn:E; [|reflexivity].
        apply nd_no_colon in E. rewrite mem_app, mem_cons, N.eqb_refl, orb_true_r in E. discriminate. }
      rewrite Hnd, andb_false_r. rewrite (N.eqb_sym 10 c).
      destruct (c =? 10).
      + cbn [orb negb]. rewrite andb_false_r. reflexivity.
      + cbn [orb]. rewrite IH. destruct (all_nd pt && negb (hp_mem 10 r)); reflexivity.
  Qed.

  Lemma last_colon_decomp s : hp_mem 58 s = true ->
    exists ht pt, s = ht ++ 58 :: pt /\ hp_mem 58 pt = false.
  Proof.
    induction s as [|c r IH]; intros H; [discriminate|].
    destruct (hp_mem 58 r) eqn:Er.
    - destruct (IH eq_refl) as (ht & pt & E & Hp). exists (c :: ht), pt. subst r. auto.
    - rewrite mem_cons, Er, orb_false_r in H. apply N.eqb_eq in H. subst c.
      exists [], r. auto.
  Qed.

  Lemma last_colon_unique h1 p1 h2 p2 :
    hp_mem 58 p1 = false -> hp_mem 58 p2 = false -> h1 ++ 58 :: p1 = h2 ++ 58 :: p2 -> h1 = h2 /\ p1 = p2.
  Proof.
    revert h2. induction h1 as [|a h1 IH]; intros h2 H1 H2 E; destruct h2 as [|b h2]; cbn [app] in E.
    - inversion E. auto.
    - inversion E; subst. rewrite mem_app, mem_cons, N.eqb_refl, orb_true_r in H1. discriminate.
    - inversion E; subst. rewrite mem_app, mem_cons, N.eqb_refl, orb_true_r in H2. discriminate.
    - inversion E; subst. destruct (IH h2 H1 H2 H3). subst. auto.
  Qed.

  Theorem split_spec s h p :
    hp_split s = Some (h, p) <-> s = h ++ 58 :: p /\ all_nd p = true /\ hp_mem 10 h = false.
  Proof.
    split.
    - revert h. induction s as [|c r IH]; intros h H; [discriminate|].
      cbn [HostPort.hp_split] in H.
      destruct ((c =? 58) && all_nd r) eqn:E.
      + inversion H; subst. apply andb_prop in E. destruct E as [Ec En].
        apply N.eqb_eq in Ec. subst c. auto.
      + destruct (c =? 10) eqn:E10; [discriminate|].
        destruct (HostPort.hp_split all_nd r) as [[h' p']|] eqn:Es; [|discriminate].
        inversion H; subst. destruct (IH _ eq_refl) as (E1 & E2 & E3). subst r.
        repeat split; auto. rewrite mem_cons, E3, (N.eqb_sym 10 c), E10. reflexivity.
    - intros (E & Hn & Hl). subst s. rewrite (split_last _ _ (nd_no_colon _ Hn)), Hn, Hl. reflexivity.
  Qed.

  Corollary split_at_last_colon s h p : hp_split s = Some (h, p) -> hp_mem 58 p = false.
  Proof. intros H. apply split_spec in H. destruct H as (_ & Hn & _). exact (nd_no_colon _ Hn). Qed.

  (* ----- parse: exact characterisation ----- *)
  Theorem parse_spec s h n :
    hp_parse s = HpOk (h, n) <->
    exists ht pt, s = ht ++ 58 :: pt /\ hp_mem 10 ht = false /\ all_nd pt = true /\
                  hparse ht = Some h /\ parse_u16 pt = Some n.
  Proof.
    unfold HostPort.hp_parse. split.
    - destruct (hp_split s) as [[ht pt]|] eqn:Es; [|discriminate].
      destruct (hparse ht) as [h'|] eqn:Eh; [|discriminate].
      destruct (parse_u16 pt) as [n'|] eqn:Ep; [|discriminate].
      intros H. inversion H; subst. apply split_spec in Es. destruct Es as (E1 & E2 & E3).
      exists ht, pt. auto.
    - intros (ht & pt & E & Hl & Hn & Hh & Hp).
      assert (Es : hp_split s = Some (ht, pt)) by (apply split_spec; auto).
      rewrite Es, Hh, Hp. reflexivity.
  Qed.

  Lemma parse_ok_range s h n : hp_parse s = HpOk (h, n) -> in_range h /\ n <= 65535.
  Proof.
    intros H. apply parse_spec in H. destruct H as (ht & pt & _ & _ & _ & Hh & Hp).
    split; [exists ht; exact Hh|]. apply parse_u16_some in Hp. tauto.
  Qed.

  (* ----- shapes of what is printed ----- *)
  Lemma domain_clean c t d : hparse t = Some (HDomain d) -> hp_forbidden c = true -> hp_mem c d = false.
  Proof.
    intros H Hc. destruct (domain_shape _ _ _ _ _ L t d H) as [_ Hd].
    apply (forallb_mem_false _ c d Hd). rewrite Hc. reflexivity.
  Qed.

  Lemma hshow_no_newline h : in_range h -> hp_mem 10 (hshow h) = false.
  Proof.
    intros [t Ht]. destruct h as [d|a|a]; cbn [HostPort.hshow].
    - exact (domain_clean 10 t d Ht eq_refl).
    - exact (forallb_mem_false _ 10 _ (std4_shape _ _ _ _ _ L a) eq_refl).
    - rewrite mem_cons, mem_app, (forallb_mem_false _ 10 _ (url6_shape _ _ _ _ _ L a) eq_refl).
      reflexivity.
  Qed.

  Lemma plain_no_bracket h : in_range h -> hp_mem 91 (hp_plain h) = false /\ hp_mem 93 (hp_plain h) = false.
  Proof.
    intros [t Ht]. destruct h as [d|a|a]; cbn [HostPort.hp_plain].
    - split; [exact (domain_clean 91 t d Ht eq_refl)|exact (domain_clean 93 t d Ht eq_refl)].
    - split; [exact (forallb_mem_false _ 91 _ (std4_shape _ _ _ _ _ L a) eq_refl)
             |exact (forallb_mem_false _ 93 _ (std4_shape _ _ _ _ _ L a) eq_refl)].
    - destruct (std6_shape _ _ _ _ _ L a) as [_ H6].
      split; [exact (forallb_mem_false _ 91 _ H6 eq_refl)|exact (forallb_mem_false _ 93 _ H6 eq_refl)].
  Qed.

  (** re-adding brackets "when the host contains a colon" is right for every parsed host *)
  Lemma rebracket_plain h : in_range h -> hparse (hp_rebracket (hp_plain h)) = Some h.
  Proof.
    intros [t Ht]. unfold hp_rebracket. destruct h as [d|a|a]; cbn [HostPort.hp_plain].
    - rewrite (domain_clean 58 t d Ht eq_refl). exact (print_parse _ _ _ _ _ L t _ Ht).
    - rewrite (forallb_mem_false _ 58 _ (std4_shape _ _ _ _ _ L a) eq_refl).
      exact (print_parse _ _ _ _ _ L t _ Ht).
    - destruct (std6_shape _ _ _ _ _ L a) as [H6 _]. rewrite H6.
      exact (plain_parse6 _ _ _ _ _ L t a Ht).
  Qed.

  (** the printed host is the stored host with brackets re-added, whenever the two IPv6
      serialisers agree on the address (they differ only in how they choose to write it) *)
  Lemma hshow_rebracket_plain h :
    in_range h -> (forall a, h = HIp6 a -> std6 a = url6 a) -> hshow h = hp_rebracket (hp_plain h).
  Proof.
    intros [t Ht] Hag. unfold hp_rebracket. destruct h as [d|a|a]; cbn [HostPort.hp_plain HostPort.hshow].
    - rewrite (domain_clean 58 t d Ht eq_refl). reflexivity.
    - rewrite (forallb_mem_false _ 58 _ (std4_shape _ _ _ _ _ L a) eq_refl). reflexivity.
    - destruct (std6_shape _ _ _ _ _ L a) as [H6 _]. rewrite H6, (Hag a eq_refl). reflexivity.
  Qed.

  (* ----- print then parse ----- *)
  Theorem parse_display h n : in_range h -> n <= 65535 -> hp_parse (hp_display (h, n)) = HpOk (h, n).
  Proof.
    intros Hr Hn. apply parse_spec. exists (hshow h), (dec n). unfold HostPort.hp_display. cbn [fst snd].
    repeat split.
    - exact (hshow_no_newline h Hr).
    - apply (nd_ascii _ _ _ _ _ L); [apply dec_nonempty|apply is_dig_dec].
    - destruct Hr as [t Ht]. exact (print_parse _ _ _ _ _ L t _ Ht).
    - exact (parse_u16_dec n Hn).
  Qed.

  Corollary parse_display_fixpoint s hp : hp_parse s = HpOk hp -> hp_parse (hp_display hp) = HpOk hp.
  Proof.
    destruct hp as [h n]. intros H. destruct (parse_ok_range _ _ _ H). apply parse_display; auto.
  Qed.

  (* ----- bencode ----- *)
  Theorem bencode_form hp :
    hp_to_bencode hp = encode (Lst [Str (hp_plain (fst hp)); Int (Z.of_N (snd hp))]).
  Proof. reflexivity. Qed.

  Theorem bencode_roundtrip h n rest :
    in_range h -> n <= 65535 -> hp_from_bencode (hp_to_bencode (h, n) ++ rest) = Some (h, n).
  Proof.
    intros Hr Hn. unfold HostPort.hp_from_bencode, HostPort.hp_to_bencode, hp_to_value. cbn [fst snd].
    rewrite dec_tuple_enc by (unfold i64_ok; lia).
    replace ((0 <=? Z.of_N n) && (Z.of_N n <=? 65535))%Z with true by lia.
    rewrite (rebracket_plain h Hr), N2Z.id. reflexivity.
  Qed.

  Theorem from_bencode_sound bs h n :
    hp_from_bencode bs = Some (h, n) ->
    in_range h /\ n <= 65535 /\
    exists t rest, bs = encode (Lst [Str t; Int (Z.of_N n)]) ++ rest /\ hparse (hp_rebracket t) = Some h.
  Proof.
    unfold HostPort.hp_from_bencode. intros H.
    destruct (hp_dec_tuple bs) as [[[t z] rest]|] eqn:Ed; [|discriminate].
    destruct ((0 <=? z) && (z <=? 65535))%Z eqn:Ez; [|discriminate].
    destruct (hparse (hp_rebracket t)) as [h'|] eqn:Eh; [|discriminate].
    inversion H; subst h' n. split; [exists (hp_rebracket t); exact Eh|]. split; [lia|].
    exists t, rest. rewrite Z2N.id by lia. split; [exact (dec_tuple_exact _ _ _ _ Ed)|exact Eh].
  Qed.

  (** every value that was read from a torrent prints, re-parses and re-encodes as itself *)
  Corollary reread_then_print bs hp :
    hp_from_bencode bs = Some hp ->
    hp_parse (hp_display hp) = HpOk hp /\ forall rest, hp_from_bencode (hp_to_bencode hp ++ rest) = Some hp.
  Proof.
    destruct hp as [h n]. intros H. destruct (from_bencode_sound _ _ _ H) as (Hr & Hn & _).
    split; [apply parse_display; auto|intros rest; apply bencode_roundtrip; auto].
  Qed.

  (** every value accepted at the command line survives both representations *)
  Corollary parsed_survives s hp :
    hp_parse s = HpOk hp ->
    hp_parse (hp_display hp) = HpOk hp /\ forall rest, hp_from_bencode (hp_to_bencode hp ++ rest) = Some hp.
  Proof.
    destruct hp as [h n]. intros H. destruct (parse_ok_range _ _ _ H) as [Hr Hn].
    split; [apply parse_display; auto|intros rest; apply bencode_roundtrip; auto].
  Qed.

  (* ----- rejections ----- *)
  Lemma parse_at_last_colon ht pt : hp_mem 58 pt = false ->
    hp_parse (ht ++ 58 :: pt) =
      if all_nd pt && negb (hp_mem 10 ht) then
        match hparse ht with
        | None => HpErr BadHost
        | Some h => match parse_u16 pt with None => HpErr BadPort | Some n => HpOk (h, n) end
        end
      else HpErr PortMissing.
  Proof.
    intros Hp. unfold HostPort.hp_parse. rewrite (split_last ht pt Hp).
    destruct (all_nd pt && negb (hp_mem 10 ht)); reflexivity.
  Qed.

  Definition rejected (s : bytes) : Prop := exists e, hp_parse s = HpErr e.

  Theorem rejects_no_colon s : hp_mem 58 s = false -> hp_parse s = HpErr PortMissing.
  Proof. intros H. unfold HostPort.hp_parse. rewrite (split_no_colon s H). reflexivity. Qed.

  Lemma rejected_of_not_ok s : (forall h n, hp_parse s <> HpOk (h, n)) -> rejected s.
  Proof.
    intros H. unfold rejected. destruct (hp_parse s) as [[h n]|e] eqn:E; [destruct (H h n eq_refl)|eauto].
  Qed.

  (** [ht] is everything before the last colon, [pt] everything after it *)
  Theorem rejects ht pt : hp_mem 58 pt = false ->
    pt = []                                            (* missing port *)
    \/ forallb hp_is_dig pt = false                       (* sign, space, letters, non-ASCII digits *)
    \/ (exists v, hp_digits_val 0 pt = Some v /\ 65535 < v)   (* port above 65535 *)
    \/ ht = []                                         (* empty host *)
    \/ (hd_is 91 ht = None /\ hp_mem 58 ht = true)        (* IPv6 without brackets *)
    \/ (hd_is 91 ht = None /\ existsb hp_forbidden ht = true)  (* forbidden host character *)
    \/ hp_mem 10 ht = true ->
    rejected (ht ++ 58 :: pt).
  Proof.
    intros Hp Hbad. apply rejected_of_not_ok. intros h n Hok.
    apply parse_spec in Hok. destruct Hok as (ht' & pt' & E & Hl & Hn & Hh & Hu).
    destruct (last_colon_unique _ _ _ _ Hp (nd_no_colon _ Hn) E) as [E1 E2]. subst ht' pt'.
    destruct (parse_u16_some _ _ Hu) as (Hle & ds & Hds & Hne & Hdig & Hv).
    assert (Hpt : pt = ds).
    { destruct Hds as [Hds|Hds]; [exact Hds|]. exfalso.
      destruct (nd_bytes _ _ _ _ _ L pt Hn) as [_ Hb]. rewrite Hds in Hb. discriminate Hb. }
    subst ds.
    destruct Hbad as [H|[H|[H|[H|[H|[H|H]]]]]].
    - contradiction.
    - congruence.
    - destruct H as (v & Hv' & Hgt). rewrite Hv in Hv'. inversion Hv'; subst v. lia.
    - subst ht. rewrite (empty_rejected _ _ _ _ _ L) in Hh. discriminate.
    - destruct H as [Hb Hc].
      rewrite (forbidden_rejected _ _ _ _ _ L ht Hb) in Hh; [discriminate|].
      unfold hp_mem in Hc. apply existsb_exists in Hc. destruct Hc as (x & Hx & Ex).
      apply N.eqb_eq in Ex. subst x. apply existsb_exists. exists 58. auto.
    - destruct H as [Hb Hf]. rewrite (forbidden_rejected _ _ _ _ _ L ht Hb Hf) in Hh. discriminate.
    - congruence.
  Qed.
End Proofs.

(* ---------- the library hypotheses are satisfiable ---------- *)
Lemma toy_hparse_cases t h : toy_hparse t = Some h ->
  (t = toy_dom /\ h = HDomain toy_dom) \/ (t = toy_v4 /\ h = HIp4 16909060) \/
  (t = 91 :: toy_v6 ++ [93] /\ h = HIp6 1).
Proof.
  unfold toy_hparse. intros H.
  destruct (list_eq_dec N.eq_dec t toy_dom); [inversion H; auto|].
  destruct (list_eq_dec N.eq_dec t toy_v4); [inversion H; auto|].
  destruct (list_eq_dec N.eq_dec t (91 :: toy_v6 ++ [93])); [inversion H; auto|discriminate].
Qed.

Lemma toy_lib : url_lib toy_nd toy_hparse toy4 toy6 toy6.
Proof.
  constructor.
  - intros p Hne Hd. destruct p; [contradiction|exact Hd].
  - intros p H. destruct p as [|b r]; [discriminate|]. split; [discriminate|].
    unfold toy_nd in H. revert H. generalize (b :: r). intros l Hl.
    induction l as [|x l IH]; [reflexivity|]. cbn [forallb] in *. apply andb_prop in Hl.
    destruct Hl as [Hx Hl]. rewrite Hx, (IH Hl). reflexivity.
  - intros t h H. destruct (toy_hparse_cases t h H) as [[_ E]|[[_ E]|[_ E]]]; subst h; reflexivity.
  - intros t a H. destruct (toy_hparse_cases t _ H) as [[_ E]|[[_ E]|[_ E]]]; inversion E; reflexivity.
  - intros t d H. destruct (toy_hparse_cases t _ H) as [[_ E]|[[_ E]|[_ E]]]; inversion E.
    split; [discriminate|reflexivity].
  - intros a. reflexivity.
  - intros a. split; reflexivity.
  - intros a. reflexivity.
  - reflexivity.
  - intros t Hb Hf. destruct (toy_hparse t) as [h|] eqn:E; [|reflexivity].
    destruct (toy_hparse_cases t h E) as [[Et _]|[[Et _]|[Et _]]]; subst t; discriminate.
Qed.
