(** End to end (X5): what create serialises (C05's [build], C04's [encode]) is accepted by the typed
    loader of `torrent show` / `torrent link` (C07's [typed_of_value]) as exactly the metainfo the
    command line asked for; the report and the magnet link follow.

    - bridges between the layers: [Summary.lookup] is [Schema.dget]; the loader's keys are the BEP keys of
      the generated schema; each typed reader on the value the serialiser wrote; [Metainfo.total_size] is
      [Summary.list_sum]; C05's ordered-map builder [Schema.mk_dict] and C04's [Infohash.ser_struct] build
      the same dictionary ([ser_struct_of_mk_dict]: a strictly sorted association list is determined by
      its members);
    - [built_readings]: every reader of the loader on [build o c], as an equation;
    - [built_value_loads] / [built_value_refused]: the loader accepts exactly when the url crate reads
      back the hosts / update URL it printed, and then returns [requested];
    - [build_depth] / [build_depth_within_limit]: a created metainfo nests at most 5 deep, so the depth tests of
      bendy's readers (X4: in [Summary.show] and [Summary.from_input]) pass - proved and used, never assumed;
    - [created_bytes_from_input], [created_md5_carried] (X5b): the same through [Summary.from_input], the loader
      shared with `link` and `verify`; the MD5 texts the typed record carries since X4 are the ones create wrote
      under --md5 and absent otherwise;
    - [created_bytes_show_back]: `show` of the bytes prints [requested_json] and the renderings of it;
    - [link_file_created], [create_link_created], [created_bytes_link_back]: `link` of the bytes and
      `create --link`. *)
From Coq Require Import Ascii String.
From Coq Require Import NArith ZArith List Bool Lia ZifyN ZifyBool.
From Imdl Require Import Model.Bencode Proofs.BencodeProofs Model.EndToEndShow.
From Imdl Require Model.BencodeWide Model.Schema Model.Metainfo Model.Summary Model.SummarySpec Model.Magnet Model.Infohash
     Proofs.SchemaProofs Proofs.MetainfoProofs Proofs.SummaryProofs Proofs.InfohashProofs Proofs.MagnetProofs
     Proofs.LoaderProofs Generated.GenCreate Generated.GenInfohash.
Import ListNotations.
Local Open Scope N_scope.

Module SC := Imdl.Model.Schema.
Module MI := Imdl.Model.Metainfo.
Module SU := Imdl.Model.Summary.
Module SS := Imdl.Model.SummarySpec.
Module MG := Imdl.Model.Magnet.
Module IH := Imdl.Model.Infohash.
Module SCP := Imdl.Proofs.SchemaProofs.
Module MIP := Imdl.Proofs.MetainfoProofs.
Module SUP := Imdl.Proofs.SummaryProofs.
Module IHP := Imdl.Proofs.InfohashProofs.
Module MGP := Imdl.Proofs.MagnetProofs.
Module BW := Imdl.Model.BencodeWide.
Module LDP := Imdl.Proofs.LoaderProofs.

Notation txt := SC.txt (only parsing).

(* ---------- powers of two ---------- *)
Lemma pow63_64 : 2 ^ 63 < 2 ^ 64. Proof. reflexivity. Qed.
Lemma pow16_64 : 2 ^ 16 < 2 ^ 64. Proof. reflexivity. Qed.

(* ---------- dictionaries: the loader's lookup is the serialiser's ---------- *)

Lemma su_sc_eqb a : forall b, SU.bytes_eqb a b = SC.bytes_eqb b a.
Proof.
  induction a as [|x a IH]; intros [|y b]; cbn [SU.bytes_eqb SC.bytes_eqb]; try reflexivity.
  rewrite IH, N.eqb_sym. reflexivity.
Qed.

Lemma lookup_dget k d : SU.lookup k d = SC.dget k d.
Proof.
  unfold SU.lookup. induction d as [|[k' x] d IH]; cbn [find SC.dget fst snd]; [reflexivity|].
  rewrite su_sc_eqb. destruct (SC.bytes_eqb k k'); [reflexivity|exact IH].
Qed.

(** the keys the loader asks for are the BEP keys *)
Lemma loader_keys_are_bep :
  SU.k_announce = txt "announce" /\ SU.k_announce_list = txt "announce-list" /\ SU.k_comment = txt "comment" /\
  SU.k_created_by = txt "created by" /\ SU.k_creation_date = txt "creation date" /\ SU.k_encoding = txt "encoding" /\
  SU.k_info = txt "info" /\ SU.k_nodes = txt "nodes" /\ SU.k_private = txt "private" /\
  SU.k_piece_length = txt "piece length" /\ SU.k_name = txt "name" /\ SU.k_source = txt "source" /\
  SU.k_pieces = txt "pieces" /\ SU.k_update_url = txt "update-url" /\ SU.k_length = txt "length" /\
  SU.k_md5sum = txt "md5sum" /\ SU.k_files = txt "files" /\ SU.k_path = txt "path".
Proof. repeat split; reflexivity. Qed.

Lemma opt_dget {B} (f : value -> option B) k d :
  SU.opt f k d = match SC.dget k d with
                 | None => Some None
                 | Some v => match f v with Some x => Some (Some x) | None => None end
                 end.
Proof. unfold SU.opt. rewrite lookup_dget. reflexivity. Qed.

Lemma req_dget {B} (f : value -> option B) k d :
  SU.req f k d = match SC.dget k d with Some v => f v | None => None end.
Proof. unfold SU.req. rewrite lookup_dget. reflexivity. Qed.

(* ---------- the typed readers on what the serialiser wrote ---------- *)

Lemma as_uint_of_N bits n : n < 2 ^ bits -> SU.as_uint bits (MI.int_of n) = Some n.
Proof.
  intros Hn. unfold SU.as_uint, MI.int_of.
  assert (R : ((0 <=? Z.of_N n) && (Z.of_N n <? 2 ^ Z.of_N bits))%Z = true).
  { apply andb_true_intro. split; [apply Z.leb_le; lia|].
    apply Z.ltb_lt. change (2 ^ Z.of_N bits)%Z with (Z.of_N 2 ^ Z.of_N bits)%Z.
    rewrite <- N2Z.inj_pow. apply N2Z.inj_lt. exact Hn. }
  rewrite R, N2Z.id. reflexivity.
Qed.

Lemma as_string_str s : SU.utf8_valid s = true -> SU.as_string (Str s) = Some s.
Proof. intros Hu. cbn [SU.as_string]. rewrite Hu. reflexivity. Qed.

Lemma as_strings_ok l :
  forallb SU.utf8_valid l = true -> SU.map_opt SU.as_string (map Str l) = Some l.
Proof.
  induction l as [|s l IH]; intros Hf; [reflexivity|].
  cbn [forallb] in Hf. apply andb_prop in Hf. destruct Hf as [Hs Hl].
  cbn [map SU.map_opt]. rewrite (as_string_str s Hs), (IH Hl). reflexivity.
Qed.

Lemma as_tiers_ok ts :
  forallb (forallb SU.utf8_valid) ts = true ->
  SU.as_list (SU.as_list SU.as_string) (MI.tiers_value ts) = Some ts.
Proof.
  unfold MI.tiers_value. cbn [SU.as_list].
  induction ts as [|t ts IH]; intros Hf; [reflexivity|].
  cbn [forallb] in Hf. apply andb_prop in Hf. destruct Hf as [Ht Hts].
  cbn [map SU.map_opt SU.as_list]. rewrite (as_strings_ok t Ht), (IH Hts). reflexivity.
Qed.

(** hex digits are ASCII, so an MD5 text that passes the digit test is UTF-8 *)
Lemma hex_utf8 m : forallb SU.is_hex m = true -> SU.utf8_valid m = true.
Proof.
  induction m as [|b m IH]; intros Hf; [reflexivity|].
  cbn [forallb] in Hf. apply andb_prop in Hf. destruct Hf as [Hb Hm].
  cbn [SU.utf8_valid].
  assert (Hlt : (b <? 128) = true).
  { unfold SU.is_hex, SU.inr in Hb. lia. }
  rewrite Hlt. exact (IH Hm).
Qed.

Lemma opt_md5_ok md5 m d :
  md5_ok md5 m = true ->
  SC.dget SU.k_md5sum d = (if md5 then Some (Str m) else None) ->
  SU.opt SU.as_md5 SU.k_md5sum d = Some (opt_if md5 m).
Proof.
  intros Hok Hg. rewrite opt_dget, Hg. destruct md5; [|reflexivity].
  unfold md5_ok in Hok. cbn [negb orb] in Hok. apply andb_prop in Hok. destruct Hok as [Hl Hh].
  unfold SU.as_md5. rewrite (as_string_str m (hex_utf8 m Hh)), Hl, Hh. reflexivity.
Qed.

Lemma as_path_ok p : forallb comp_ok p = true -> SU.as_path (Lst (map Str p)) = Some p.
Proof.
  unfold SU.as_path. cbn [SU.as_list]. induction p as [|c p IH]; intros Hf; [reflexivity|].
  cbn [forallb] in Hf. apply andb_prop in Hf. destruct Hf as [Hc Hp].
  unfold comp_ok in Hc. apply andb_prop in Hc. destruct Hc as [Hu Hn].
  cbn [map SU.map_opt]. unfold SU.as_component at 1. rewrite (as_string_str c Hu), Hn, (IH Hp). reflexivity.
Qed.

Lemma as_file_ok md5 f e :
  file_shown_ok md5 f = true -> MI.f_length f < 2 ^ 63 ->
  SC.vget (txt "length") e = Some (Int (Z.of_N (MI.f_length f))) ->
  SC.vget (txt "path") e = Some (Lst (map Str (MI.f_path f))) ->
  SC.vget (txt "md5sum") e = (if md5 then Some (Str (MI.f_md5 f)) else None) ->
  SU.as_file e = Some (sfile_of md5 f).
Proof.
  intros Hok Hlen Hl Hp Hm. destruct e as [z|s|l|d]; try discriminate Hl.
  cbn [SC.vget] in Hl, Hp, Hm. unfold file_shown_ok in Hok. apply andb_prop in Hok. destruct Hok as [Hpa Hmd].
  cbn [SU.as_file]. rewrite !req_dget.
  rewrite (Hl : SC.dget SU.k_length d = _), (Hp : SC.dget SU.k_path d = _).
  change (Int (Z.of_N (MI.f_length f))) with (MI.int_of (MI.f_length f)).
  rewrite (as_uint_of_N 63 _ Hlen), (as_path_ok _ Hpa).
  rewrite (opt_md5_ok md5 (MI.f_md5 f) d Hmd Hm). reflexivity.
Qed.

Lemma as_files_ok md5 : forall fs es,
  forallb (file_shown_ok md5) fs = true -> forallb MI.file_ok fs = true ->
  Forall2 (fun f e =>
    SC.vget (txt "length") e = Some (Int (Z.of_N (MI.f_length f))) /\
    SC.vget (txt "path") e = Some (Lst (map Str (MI.f_path f))) /\
    SC.vget (txt "md5sum") e = (if md5 then Some (Str (MI.f_md5 f)) else None) /\
    (forall q x, SC.vget q e = Some x -> In q [txt "length"; txt "path"; txt "md5sum"])) fs es ->
  SU.map_opt SU.as_file es = Some (map (sfile_of md5) fs).
Proof.
  induction fs as [|f fs IH]; intros es Hok Hlen HF; inversion HF as [|f' e fs' es' Hfe HF' E1 E2]; subst.
  - reflexivity.
  - cbn [forallb] in Hok, Hlen. apply andb_prop in Hok. apply andb_prop in Hlen.
    destruct Hok as [Hf Hfs]. destruct Hlen as [Hl Hls]. destruct Hfe as (Gl & Gp & Gm & _).
    unfold MI.file_ok in Hl. apply N.ltb_lt in Hl.
    cbn [SU.map_opt map]. rewrite (as_file_ok md5 f e Hf Hl Gl Gp Gm), (IH es' Hfs Hls HF'). reflexivity.
Qed.

Lemma list_sum_total md5 fs :
  SU.list_sum (map SU.f_length (map (sfile_of md5) fs)) = fold_right (fun f a => MI.f_length f + a) 0 fs.
Proof.
  induction fs as [|f fs IH]; [reflexivity|].
  cbn [map SU.list_sum fold_right sfile_of SU.f_length]. rewrite IH. reflexivity.
Qed.

Lemma total_length_mode md5 i : SUP.total_length (mode_of md5 i) = MI.total_size i.
Proof.
  destruct i as [n l m|n fs|l m]; cbn [mode_of SUP.total_length MI.total_size]; try reflexivity.
  apply list_sum_total.
Qed.

Lemma map_opt_some_nonempty {A B} (f : A -> option B) a l r :
  SU.map_opt f (a :: l) = Some r -> r <> [].
Proof.
  cbn [SU.map_opt]. destruct (f a); [|discriminate]. destruct (SU.map_opt f l); [|discriminate].
  intros E. inversion E. discriminate.
Qed.

(** the loader's fuel suffices for canonical bytes *)
Lemma show_decode v : wfb v = true -> decode (2 * length (encode v) + 2) (encode v) = Some (v, []).
Proof.
  intros Hw. apply (decode_mono_le (vsize v)).
  - pose proof (IHP.vsize_bound v). lia.
  - pose proof (encode_decode v Hw []) as E. rewrite app_nil_r in E. exact E.
Qed.

(* ====================================================================================================== *)
(** * the nesting of a created metainfo is at most 5 (top, info, files, one file, its path), far below bendy's
      limits: the depth test of [Summary.show] / [Summary.from_input] passes ([build_depth_within_limit], used
      below - never assumed) and the hypothesis [depth_ok] of the link theorems holds for the tree's limit *)

(** the two layers define the nesting depth separately ([BencodeWide.depth] for serde's reader, [Infohash.vdepth]
    for the generic decoding): the same function *)
Lemma depth_vdepth v : BW.depth v = IH.vdepth v.
Proof.
  (* written twice with the same text: the two fixpoints are convertible *)
  reflexivity.
Qed.

Lemma fold_max_le {A} (f : A -> N) (l : list A) n :
  (forall x, In x l -> f x <= n) -> fold_right (fun x m => N.max (f x) m) 0 l <= n.
Proof.
  induction l as [|a l IHl]; intros Hl; cbn [fold_right]; [apply N.le_0_l|].
  apply N.max_lub; [apply Hl; left; reflexivity|]. apply IHl. intros x Hx. apply Hl. right. exact Hx.
Qed.

Lemma vdepth_lst l n : (forall x, In x l -> IH.vdepth x <= n) -> IH.vdepth (Lst l) <= 1 + n.
Proof. intros Hl. cbn [IH.vdepth]. apply N.add_le_mono_l. apply fold_max_le. exact Hl. Qed.

Lemma vdepth_dict d n : (forall kv, In kv d -> IH.vdepth (snd kv) <= n) -> IH.vdepth (Dict d) <= 1 + n.
Proof.
  intros Hd. cbn [IH.vdepth]. apply N.add_le_mono_l.
  apply (fold_max_le (fun kv => IH.vdepth (snd kv))). exact Hd.
Qed.

Lemma vdepth_strs l : IH.vdepth (Lst (map Str l)) <= 1 + 0.
Proof.
  apply vdepth_lst. intros x Hx. apply in_map_iff in Hx. destruct Hx as (s & <- & _). apply N.le_refl.
Qed.

Lemma opt_depth (b : bool) (a x : value) n :
  (if b then Some a else None) = Some x -> IH.vdepth a <= n -> IH.vdepth x <= n.
Proof. destruct b; intros E Ha; [inversion E; subst; exact Ha|discriminate]. Qed.

Lemma file_entry_depth md5 f e : MI.file_entry md5 f = Some e -> IH.vdepth e <= 2.
Proof.
  intros He. destruct (MIP.file_entry_spec md5 f) as (d & Hd & _ & _ & Hin). rewrite Hd in He. inversion He; subst e.
  apply (vdepth_dict d 1). intros kv Hkv. apply Hin in Hkv. unfold MIP.file_entries in Hkv.
  destruct Hkv as [E|[E|[E|[]]]]; injection E as _ Ex.
  - rewrite <- Ex. apply N.le_0_l.
  - rewrite <- Ex. apply vdepth_strs.
  - destruct md5; [|discriminate]. inversion Ex. apply N.le_0_l.
Qed.

Lemma mode_entries_depth md5 i me k x :
  MI.mode_entries md5 i = Some me -> In (k, Some x) me -> IH.vdepth x <= 3.
Proof.
  intros Hme Hin. destruct i as [n l m|n fs|l m]; cbn [MI.mode_entries] in Hme.
  - inversion Hme; subst me. destruct Hin as [E|[E|[]]]; injection E as _ Ex.
    + rewrite <- Ex. apply N.le_0_l.
    + destruct md5; [|discriminate]. inversion Ex. apply N.le_0_l.
  - destruct (SC.all_some (map (MI.file_entry md5) fs)) as [es|] eqn:Ees; [|discriminate].
    inversion Hme; subst me. destruct Hin as [E|[]]. injection E as _ Ex. rewrite <- Ex.
    apply (vdepth_lst es 2). intros e He. apply SCP.all_some_Forall2 in Ees.
    clear - Ees He. induction Ees as [|f e' fs' es' Hfe _ IHf]; [destruct He|].
    destruct He as [<-|He]; [exact (file_entry_depth md5 f e' Hfe)|exact (IHf He)].
  - inversion Hme; subst me. destruct Hin as [E|[E|[]]]; injection E as _ Ex.
    + rewrite <- Ex. apply N.le_0_l.
    + destruct md5; [|discriminate]. inversion Ex. apply N.le_0_l.
Qed.

Section Depth.
  Variable norm : bytes -> bytes.
  Variable host_canon : bytes -> bytes.
  Variable git_suffix : bytes.

  Lemma build_info_depth o c info : MI.build_info norm o c = Some info -> IH.vdepth info <= 4.
  Proof.
    intros Hi. destruct (MIP.build_info_spec norm o c info Hi) as (name & me & di & _ & Hme & -> & _ & _ & Hin).
    apply (vdepth_dict di 3). intros kv Hkv. apply Hin in Hkv. unfold MI.info_entries in Hkv.
    apply in_app_or in Hkv. destruct Hkv as [Hkv|Hkv].
    - destruct Hkv as [E|[E|[E|[E|[E|[]]]]]]; injection E as _ Ex.
      + destruct (MI.o_private o); [|discriminate]. inversion Ex. apply N.le_0_l.
      + rewrite <- Ex. apply N.le_0_l.
      + rewrite <- Ex. apply N.le_0_l.
      + destruct (MI.o_source o); [|discriminate]. inversion Ex. apply N.le_0_l.
      + rewrite <- Ex. apply N.le_0_l.
    - apply in_app_or in Hkv. destruct Hkv as [Hkv|Hkv].
      + exact (mode_entries_depth _ _ _ _ _ Hme Hkv).
      + destruct Hkv as [E|[]]. injection E as _ Ex.
        destruct (MI.o_update_url o); [|discriminate]. inversion Ex. apply N.le_0_l.
  Qed.

  Theorem build_depth o c v : MI.build norm host_canon git_suffix o c = Some v -> IH.vdepth v <= 5.
  Proof.
    intros Hb. destruct (MIP.build_spec norm host_canon git_suffix o c v Hb) as (info & d & Hi & -> & _ & _ & Hin).
    apply (vdepth_dict d 4). intros kv Hkv. apply Hin in Hkv. unfold MI.metainfo_entries in Hkv.
    destruct Hkv as [E|[E|[E|[E|[E|[E|[E|[E|[]]]]]]]]]; injection E as _ Ex.
    - destruct (MI.o_announce o); [|discriminate]. inversion Ex. apply N.le_0_l.
    - destruct (MI.tiers_of o) as [|t ts]; [discriminate|]. injection Ex as Ex. rewrite <- Ex.
      transitivity (1 + (1 + 0)); [|discriminate]. unfold MI.tiers_value. apply vdepth_lst. intros x Hx.
      change (In x (map (fun t0 => Lst (map Str t0)) (t :: ts))) in Hx.
      apply in_map_iff in Hx. destruct Hx as (tier & <- & _). apply vdepth_strs.
    - destruct (MI.o_comment o); [|discriminate]. inversion Ex. apply N.le_0_l.
    - destruct (MI.o_no_created_by o); [discriminate|]. inversion Ex. apply N.le_0_l.
    - destruct (MI.o_no_creation_date o); [discriminate|]. inversion Ex. apply N.le_0_l.
    - rewrite <- Ex. apply N.le_0_l.
    - rewrite <- Ex. exact (build_info_depth o c info Hi).
    - destruct (MI.o_nodes o) as [|n ns]; [discriminate|]. injection Ex as Ex. rewrite <- Ex.
      transitivity (1 + (1 + 0)); [|discriminate]. apply vdepth_lst. intros x Hx.
      change (In x (map (MI.node_value host_canon) (n :: ns))) in Hx.
      apply in_map_iff in Hx. destruct Hx as (nd & <- & _). unfold MI.node_value. apply vdepth_lst.
      intros y [<-|[<-|[]]]; apply N.le_refl.
  Qed.

  (** so [depth_ok] holds without a limit, for every limit of at least 5, and for the limit of this tree *)
  Corollary build_depth_ok o c v :
    MI.build norm host_canon git_suffix o c = Some v ->
    IH.depth_ok None v = true /\ (forall m, 5 <= m -> IH.depth_ok (Some m) v = true) /\
    IH.depth_ok GenInfohash.max_depth v = true.
  Proof.
    intros Hb. pose proof (build_depth o c v Hb) as Hd. split; [reflexivity|].
    assert (Hm : forall m, 5 <= m -> IH.depth_ok (Some m) v = true).
    { intros m Hm. cbn [IH.depth_ok]. apply N.leb_le. exact (N.le_trans _ _ _ Hd Hm). }
    split; [exact Hm|]. apply Hm. discriminate.
  Qed.

  (** ... and the bound of bendy's serde reader (X4: [Summary.show] and [Summary.from_input] refuse nesting deeper
      than [BencodeWide.max_depth] = 2048) never bites on what create wrote *)
  Corollary build_depth_within_limit o c v :
    MI.build norm host_canon git_suffix o c = Some v -> (BW.depth v <=? BW.max_depth) = true.
  Proof.
    intros Hb. apply N.leb_le. rewrite depth_vdepth.
    apply (N.le_trans _ 5 _ (build_depth o c v Hb)). discriminate.
  Qed.

  Corollary build_depth_serde o c v :
    MI.build norm host_canon git_suffix o c = Some v ->
    BW.depth v = IH.vdepth v /\ BW.depth v <= 5 /\ (BW.depth v <=? BW.max_depth) = true.
  Proof.
    intros Hb. split; [exact (depth_vdepth v)|]. split; [rewrite depth_vdepth; exact (build_depth o c v Hb)|].
    exact (build_depth_within_limit o c v Hb).
  Qed.

  Corollary build_depth_all o c v :
    MI.build norm host_canon git_suffix o c = Some v ->
    (IH.vdepth v <= 5) /\
    (IH.depth_ok None v = true /\ (forall m, 5 <= m -> IH.depth_ok (Some m) v = true) /\
     IH.depth_ok GenInfohash.max_depth v = true) /\
    (BW.depth v = IH.vdepth v /\ (BW.depth v <=? BW.max_depth) = true).
  Proof.
    intros Hb.
    exact (conj (build_depth o c v Hb)
             (conj (build_depth_ok o c v Hb) (conj (depth_vdepth v) (build_depth_within_limit o c v Hb)))).
  Qed.
End Depth.

Section ShowBack.
  Variable norm : bytes -> bytes.
  Variable host_canon : bytes -> bytes.
  Variable git_suffix : bytes.
  Variable host_disp : bytes -> option bytes.
  Variable url_norm : bytes -> option bytes.

  Notation build := (MI.build norm host_canon git_suffix).
  Notation texts_utf8 := (texts_utf8 norm host_canon git_suffix).
  Notation nodes_text := (nodes_text host_canon host_disp).
  Notation update_text := (update_text norm url_norm).
  Notation requested := (requested norm git_suffix).
  Notation requested_json := (requested_json norm git_suffix).

  Lemma as_node_ok n :
    SU.utf8_valid (host_canon (MI.unbracket (fst n))) = true -> snd n < 2 ^ 16 ->
    SU.as_node host_disp (MI.node_value host_canon n) = node_text host_canon host_disp n.
  Proof.
    intros Hu Hp. unfold MI.node_value, node_text. cbn [SU.as_node].
    rewrite (as_string_str _ Hu), (as_uint_of_N 16 _ Hp). reflexivity.
  Qed.

  Lemma as_nodes_ok ns :
    forallb (fun n => SU.utf8_valid (host_canon (MI.unbracket (fst n)))) ns = true ->
    forallb (fun n => snd n <? 2 ^ 16) ns = true ->
    SU.as_list (SU.as_node host_disp) (Lst (map (MI.node_value host_canon) ns))
    = SU.map_opt (node_text host_canon host_disp) ns.
  Proof.
    cbn [SU.as_list]. induction ns as [|n ns IH]; intros Hu Hp; [reflexivity|].
    cbn [forallb] in Hu, Hp. apply andb_prop in Hu. apply andb_prop in Hp.
    destruct Hu as [Hu Hus]. destruct Hp as [Hp Hps]. apply N.ltb_lt in Hp.
    cbn [map SU.map_opt]. rewrite (as_node_ok n Hu Hp), (IH Hus Hps). reflexivity.
  Qed.

  (** every reader of the typed loader, on the value create serialises *)
  Lemma built_readings o c v name :
    MI.input_ok (MI.c_input c) = true -> MI.opts_ok o = true ->
    MI.piece_length_of o (MI.c_input c) < 2 ^ 63 ->
    texts_utf8 o c = true -> content_shown_ok (MI.o_md5 o) c = true ->
    build o c = Some v -> MI.name_of o (MI.c_input c) = Some name ->
    exists d di,
      v = Dict d /\ SU.lookup SU.k_info d = Some (Dict di) /\
      SU.keys_utf8 d = true /\ SU.keys_utf8 di = true /\
      SU.opt SU.as_string SU.k_announce d = Some (option_map norm (MI.o_announce o)) /\
      SU.opt (SU.as_list (SU.as_list SU.as_string)) SU.k_announce_list d
        = Some (match MI.tiers_of o with [] => None | ts => Some ts end) /\
      SU.opt SU.as_string SU.k_comment d = Some (MI.o_comment o) /\
      SU.opt SU.as_string SU.k_created_by d
        = Some (if MI.o_no_created_by o then None else Some (MI.created_by_text git_suffix)) /\
      SU.opt (SU.as_uint 64) SU.k_creation_date d
        = Some (if MI.o_no_creation_date o then None else Some (MI.o_now o)) /\
      SU.opt SU.as_string SU.k_encoding d = Some (Some GenCreate.encoding_utf8) /\
      SU.opt (SU.as_list (SU.as_node host_disp)) SU.k_nodes d = nodes_text o /\
      SU.opt SU.as_bool SU.k_private di = Some (if MI.o_private o then Some true else None) /\
      SU.req (SU.as_uint 64) SU.k_piece_length di = Some (MI.piece_length_of o (MI.c_input c)) /\
      SU.req SU.as_string SU.k_name di = Some name /\
      SU.opt SU.as_string SU.k_source di = Some (MI.o_source o) /\
      SU.req SU.as_pieces SU.k_pieces di = Some (MI.c_pieces c) /\
      SU.as_mode di = Some (mode_of (MI.o_md5 o) (MI.c_input c)) /\
      SU.opt (SU.as_url url_norm) SU.k_update_url di = update_text o /\
      SU.content_size_fits (mode_of (MI.o_md5 o) (MI.c_input c)) = true.
  Proof.
    intros Hin Ho Hpl Htx Hct Hb Hname.
    (* side conditions, taken apart *)
    unfold EndToEndShow.texts_utf8 in Htx.
    apply andb_prop in Htx. destruct Htx as [Htx Tupd].
    apply andb_prop in Htx. destruct Htx as [Htx Tnodes].
    apply andb_prop in Htx. destruct Htx as [Htx Tname].
    apply andb_prop in Htx. destruct Htx as [Htx Tsrc].
    apply andb_prop in Htx. destruct Htx as [Htx Tcb].
    apply andb_prop in Htx. destruct Htx as [Htx Tcom].
    apply andb_prop in Htx. destruct Htx as [Tann Ttiers].
    unfold content_shown_ok in Hct.
    apply andb_prop in Hct. destruct Hct as [Hct Ctot]. apply N.ltb_lt in Ctot.
    apply andb_prop in Hct. destruct Hct as [Cinp Cpcs].
    unfold MI.opts_ok in Ho. apply andb_prop in Ho. destruct Ho as [Onow Oports]. apply N.ltb_lt in Onow.
    (* the two dictionaries *)
    destruct (MIP.build_spec norm host_canon git_suffix o c v Hb) as (info & d & Hi & Hv & _ & Hget & Hind).
    destruct (MIP.build_info_spec norm o c info Hi) as (name' & me & di & Hn' & Hme & Hinfo & _ & Hgi & Hini).
    rewrite Hname in Hn'. inversion Hn'; subst name'; clear Hn'.
    assert (Hdi : SC.dget (txt "info") d = Some (Dict di)).
    { rewrite Hget.
      change (SC.lookup (txt "info") (MI.metainfo_entries norm host_canon git_suffix o info)) with (Some info).
      rewrite Hinfo. reflexivity. }
    assert (Higet : forall k, SC.dget k di = MIP.iget k v).
    { intros k. unfold MIP.iget. rewrite Hv. cbn [SC.vget]. rewrite Hdi. reflexivity. }
    assert (Hb' : build o c = Some (Dict d)) by (rewrite <- Hv; exact Hb).
    exists d, di. split; [exact Hv|]. split; [rewrite lookup_dget; exact Hdi|].
    (* keys *)
    split.
    { unfold SU.keys_utf8. apply forallb_forall. intros kv Hkv. apply Hind in Hkv.
      apply (in_map fst) in Hkv. cbn [fst] in Hkv. unfold MI.metainfo_entries in Hkv. cbn [map fst] in Hkv.
      repeat (destruct Hkv as [<-|Hkv]; [reflexivity|]). destruct Hkv. }
    split.
    { unfold SU.keys_utf8. apply forallb_forall. intros kv Hkv. apply Hini in Hkv.
      apply (in_map fst) in Hkv. cbn [fst] in Hkv. unfold MI.info_entries in Hkv.
      destruct (MI.c_input c) as [n l m|n fs|l m]; cbn [MI.mode_entries] in Hme.
      - inversion Hme; subst me. cbn [map fst app] in Hkv.
        repeat (destruct Hkv as [<-|Hkv]; [reflexivity|]). destruct Hkv.
      - destruct (SC.all_some _) as [l|]; [|discriminate]. inversion Hme; subst me. cbn [map fst app] in Hkv.
        repeat (destruct Hkv as [<-|Hkv]; [reflexivity|]). destruct Hkv.
      - inversion Hme; subst me. cbn [map fst app] in Hkv.
        repeat (destruct Hkv as [<-|Hkv]; [reflexivity|]). destruct Hkv. }
    (* top level *)
    split.
    { rewrite opt_dget. rewrite (MIP.get_announce norm host_canon git_suffix o c _ Hb' : SC.dget SU.k_announce d = _).
      destruct (MI.o_announce o) as [u|]; cbn [option_map] in *; [|reflexivity].
      cbn [opt_utf8] in Tann. rewrite (as_string_str _ Tann). reflexivity. }
    split.
    { rewrite opt_dget. rewrite (Hget SU.k_announce_list).
      change (SC.lookup SU.k_announce_list (MI.metainfo_entries norm host_canon git_suffix o info))
        with (match MI.tiers_of o with [] => None | ts => Some (MI.tiers_value ts) end).
      destruct (MI.tiers_of o) as [|t ts] eqn:Et; [reflexivity|].
      rewrite (as_tiers_ok (t :: ts) Ttiers). reflexivity. }
    split.
    { rewrite opt_dget. rewrite (MIP.get_comment norm host_canon git_suffix o c _ Hb' : SC.dget SU.k_comment d = _).
      destruct (MI.o_comment o) as [s|]; cbn [option_map]; [|reflexivity].
      cbn [opt_utf8] in Tcom. rewrite (as_string_str _ Tcom). reflexivity. }
    split.
    { rewrite opt_dget. rewrite (MIP.get_created_by norm host_canon git_suffix o c _ Hb' : SC.dget SU.k_created_by d = _).
      destruct (MI.o_no_created_by o); [reflexivity|]. cbn [orb] in Tcb.
      unfold MI.created_by_text in Tcb |- *. rewrite (as_string_str _ Tcb). reflexivity. }
    split.
    { rewrite opt_dget. rewrite (MIP.get_creation_date norm host_canon git_suffix o c _ Hb' : SC.dget SU.k_creation_date d = _).
      destruct (MI.o_no_creation_date o); [reflexivity|].
      change (Int (Z.of_N (MI.o_now o))) with (MI.int_of (MI.o_now o)).
      rewrite (as_uint_of_N 64 (MI.o_now o)) by exact (N.lt_trans _ _ _ Onow pow63_64). reflexivity. }
    split.
    { rewrite opt_dget. rewrite (MIP.get_encoding norm host_canon git_suffix o c _ Hb' : SC.dget SU.k_encoding d = _).
      reflexivity. }
    split.
    { rewrite opt_dget. rewrite (Hget SU.k_nodes).
      change (SC.lookup SU.k_nodes (MI.metainfo_entries norm host_canon git_suffix o info))
        with (match MI.o_nodes o with [] => None | ns => Some (Lst (map (MI.node_value host_canon) ns)) end).
      unfold EndToEndShow.nodes_text. destruct (MI.o_nodes o) as [|n ns]; [reflexivity|].
      rewrite (as_nodes_ok (n :: ns) Tnodes Oports). reflexivity. }
    (* info *)
    split.
    { rewrite opt_dget, Higet, (MIP.get_info_private norm host_canon git_suffix o c v Hb : MIP.iget SU.k_private v = _).
      destruct (MI.o_private o); reflexivity. }
    split.
    { rewrite req_dget, Higet, (MIP.get_info_piece_length norm host_canon git_suffix o c v Hb : MIP.iget SU.k_piece_length v = _).
      change (Int (Z.of_N (MI.piece_length_of o (MI.c_input c)))) with (MI.int_of (MI.piece_length_of o (MI.c_input c))).
      apply as_uint_of_N. exact (N.lt_trans _ _ _ Hpl pow63_64). }
    split.
    { rewrite req_dget, Higet, (MIP.get_info_name norm host_canon git_suffix o c v Hb : MIP.iget SU.k_name v = _), Hname. cbn [option_map].
      rewrite Hname in Tname. cbn [opt_utf8] in Tname. exact (as_string_str _ Tname). }
    split.
    { rewrite opt_dget, Higet, (MIP.get_info_source norm host_canon git_suffix o c v Hb : MIP.iget SU.k_source v = _).
      destruct (MI.o_source o) as [s|]; cbn [option_map]; [|reflexivity].
      cbn [opt_utf8] in Tsrc. rewrite (as_string_str _ Tsrc). reflexivity. }
    split.
    { rewrite req_dget, Higet, (MIP.get_info_pieces norm host_canon git_suffix o c v Hb : MIP.iget SU.k_pieces v = _).
      cbn [SU.as_pieces]. rewrite Cpcs. reflexivity. }
    split.
    { unfold SU.as_mode, SU.try_single, SU.try_multiple. rewrite !req_dget.
      destruct (MI.c_input c) as [n l m|n fs|l m] eqn:Ei.
      - destruct (MIP.single_shape norm host_canon git_suffix o c v l m Hb) as (Gl & Gm & _);
          [rewrite Ei; reflexivity|].
        rewrite (Higet SU.k_length), (Gl : MIP.iget SU.k_length v = _).
        change (Int (Z.of_N l)) with (MI.int_of l).
        cbn [MI.input_ok] in Hin. apply N.ltb_lt in Hin. rewrite (as_uint_of_N 63 l Hin).
        cbn [input_shown_ok] in Cinp.
        rewrite (opt_md5_ok (MI.o_md5 o) m di Cinp) by (rewrite Higet; exact Gm). reflexivity.
      - destruct (MIP.multi_shape norm host_canon git_suffix o c v n fs Hb Ei) as (Gl & _ & es & Gf & HF).
        rewrite (Higet SU.k_length), (Gl : MIP.iget SU.k_length v = _).
        rewrite (Higet SU.k_files), (Gf : MIP.iget SU.k_files v = _).
        cbn [SU.as_list]. cbn [input_shown_ok] in Cinp. cbn [MI.input_ok] in Hin.
        rewrite (as_files_ok (MI.o_md5 o) fs es Cinp Hin HF). reflexivity.
      - destruct (MIP.single_shape norm host_canon git_suffix o c v l m Hb) as (Gl & Gm & _);
          [rewrite Ei; reflexivity|].
        rewrite (Higet SU.k_length), (Gl : MIP.iget SU.k_length v = _).
        change (Int (Z.of_N l)) with (MI.int_of l).
        cbn [MI.input_ok] in Hin. apply N.ltb_lt in Hin. rewrite (as_uint_of_N 63 l Hin).
        cbn [input_shown_ok] in Cinp.
        rewrite (opt_md5_ok (MI.o_md5 o) m di Cinp) by (rewrite Higet; exact Gm). reflexivity. }
    split.
    { rewrite opt_dget, Higet, (MIP.get_info_update_url norm host_canon git_suffix o c v Hb : MIP.iget SU.k_update_url v = _).
      unfold EndToEndShow.update_text. destruct (MI.o_update_url o) as [u|]; cbn [option_map] in *; [|reflexivity].
      cbn [opt_utf8] in Tupd. unfold SU.as_url. rewrite (as_string_str _ Tupd). reflexivity. }
    destruct (MI.c_input c) as [n l m|n fs|l m]; cbn [mode_of]; try reflexivity.
    apply SUP.fits_iff. rewrite list_sum_total. cbn [MI.total_size] in Ctot. exact Ctot.
  Qed.

  (** the loader accepts the value create serialises, as the metainfo that was requested ... *)
  Theorem built_value_loads o c v name nodes upd :
    MI.input_ok (MI.c_input c) = true -> MI.opts_ok o = true ->
    MI.piece_length_of o (MI.c_input c) < 2 ^ 63 ->
    texts_utf8 o c = true -> content_shown_ok (MI.o_md5 o) c = true ->
    build o c = Some v -> MI.name_of o (MI.c_input c) = Some name ->
    nodes_text o = Some nodes -> update_text o = Some upd ->
    SU.typed_of_value host_disp url_norm v = Some (requested o c name nodes upd).
  Proof.
    intros Hin Ho Hpl Htx Hct Hb Hname Hnodes Hupd.
    destruct (built_readings o c v name Hin Ho Hpl Htx Hct Hb Hname)
      as (d & di & -> & Ei & K1 & K2 & A1 & A2 & A3 & A4 & A5 & A6 & A7 & B1 & B2 & B3 & B4 & B5 & B6 & B7 & Fit).
    unfold SU.typed_of_value.
    rewrite K1, A1, A2, A3, A4, A5, A6, A7, Hnodes, Ei, K2, B1, B2, B3, B4, B5, B6, B7, Hupd, Fit.
    reflexivity.
  Qed.

  (** ... and refuses it exactly when the url crate does not read back a host or the update URL it printed *)
  Theorem built_value_refused o c v name :
    MI.input_ok (MI.c_input c) = true -> MI.opts_ok o = true ->
    MI.piece_length_of o (MI.c_input c) < 2 ^ 63 ->
    texts_utf8 o c = true -> content_shown_ok (MI.o_md5 o) c = true ->
    build o c = Some v -> MI.name_of o (MI.c_input c) = Some name ->
    nodes_text o = None \/ update_text o = None ->
    SU.typed_of_value host_disp url_norm v = None.
  Proof.
    intros Hin Ho Hpl Htx Hct Hb Hname Hno.
    destruct (built_readings o c v name Hin Ho Hpl Htx Hct Hb Hname)
      as (d & di & -> & Ei & K1 & K2 & A1 & A2 & A3 & A4 & A5 & A6 & A7 & B1 & B2 & B3 & B4 & B5 & B6 & B7 & Fit).
    unfold SU.typed_of_value. rewrite K1, A1, A2, A3, A4, A5, A6, A7.
    destruct (nodes_text o) as [nodes|]; [|reflexivity].
    destruct Hno as [Hno|Hno]; [discriminate|].
    rewrite Ei, K2, B1, B2, B3, B4, B5, B6, B7, Hno. reflexivity.
  Qed.

  (** the same through [Summary.from_input] - the one typed loader of `show`, `link` and `verify` as X4 models it
      (serde's reader: wide integers, nesting at most 2048, i64 for what is skipped or buffered): none of its three
      extra tests bites on canonical bytes whose nesting is at most 5 *)
  Theorem created_bytes_from_input o c v name nodes upd :
    MI.input_ok (MI.c_input c) = true -> MI.opts_ok o = true ->
    MI.piece_length_of o (MI.c_input c) < 2 ^ 63 ->
    texts_utf8 o c = true -> content_shown_ok (MI.o_md5 o) c = true ->
    build o c = Some v -> MI.name_of o (MI.c_input c) = Some name ->
    nodes_text o = Some nodes -> update_text o = Some upd ->
    SU.from_input host_disp url_norm (encode v) = Some (requested o c name nodes upd).
  Proof.
    intros Hin Ho Hpl Htx Hct Hb Hname Hnodes Hupd.
    pose proof (MIP.build_wfb norm (fun _ => true) host_canon git_suffix o c v Hin Ho Hpl Hb) as Hw.
    rewrite (LDP.show_loads_through_from_input host_disp url_norm (encode v) v [] (show_decode v Hw)).
    rewrite (build_depth_within_limit norm host_canon git_suffix o c v Hb).
    exact (built_value_loads o c v name nodes upd Hin Ho Hpl Htx Hct Hb Hname Hnodes Hupd).
  Qed.

  (** what link.rs takes from the loaded metainfo: the name and the trackers *)
  Corollary created_bytes_link_fields o c v name nodes upd :
    MI.input_ok (MI.c_input c) = true -> MI.opts_ok o = true ->
    MI.piece_length_of o (MI.c_input c) < 2 ^ 63 ->
    texts_utf8 o c = true -> content_shown_ok (MI.o_md5 o) c = true ->
    build o c = Some v -> MI.name_of o (MI.c_input c) = Some name ->
    nodes_text o = Some nodes -> update_text o = Some upd ->
    exists m, SU.from_input host_disp url_norm (encode v) = Some m /\
              SU.m_name m = name /\ SU.m_announce m = option_map norm (MI.o_announce o) /\
              (match SU.m_announce_list m with Some t => t | None => [] end) = MI.tiers_of o.
  Proof.
    intros Hin Ho Hpl Htx Hct Hb Hname Hnodes Hupd. exists (requested o c name nodes upd).
    split; [exact (created_bytes_from_input o c v name nodes upd Hin Ho Hpl Htx Hct Hb Hname Hnodes Hupd)|].
    split; [reflexivity|]. split; [reflexivity|].
    cbn [EndToEndShow.requested SU.m_announce_list]. destruct (MI.tiers_of o); reflexivity.
  Qed.

  Theorem created_bytes_from_input_refused o c v name :
    MI.input_ok (MI.c_input c) = true -> MI.opts_ok o = true ->
    MI.piece_length_of o (MI.c_input c) < 2 ^ 63 ->
    texts_utf8 o c = true -> content_shown_ok (MI.o_md5 o) c = true ->
    build o c = Some v -> MI.name_of o (MI.c_input c) = Some name ->
    nodes_text o = None \/ update_text o = None ->
    SU.from_input host_disp url_norm (encode v) = None.
  Proof.
    intros Hin Ho Hpl Htx Hct Hb Hname Hno.
    pose proof (MIP.build_wfb norm (fun _ => true) host_canon git_suffix o c v Hin Ho Hpl Hb) as Hw.
    rewrite (LDP.show_loads_through_from_input host_disp url_norm (encode v) v [] (show_decode v Hw)).
    rewrite (build_depth_within_limit norm host_canon git_suffix o c v Hb).
    exact (built_value_refused o c v name Hin Ho Hpl Htx Hct Hb Hname Hno).
  Qed.

  (** the MD5 values the loaded metainfo carries (X4 added them to the typed record) are the ones create wrote: the
      `md5sum` entries of the created value hold the hasher's hex texts exactly under --md5 (C05), and the loader
      hands on exactly those - present under --md5, absent otherwise - next to the lengths and paths *)
  Theorem created_md5_carried o c v name nodes upd :
    MI.input_ok (MI.c_input c) = true -> MI.opts_ok o = true ->
    MI.piece_length_of o (MI.c_input c) < 2 ^ 63 ->
    texts_utf8 o c = true -> content_shown_ok (MI.o_md5 o) c = true ->
    build o c = Some v -> MI.name_of o (MI.c_input c) = Some name ->
    nodes_text o = Some nodes -> update_text o = Some upd ->
    exists m,
      SU.from_input host_disp url_norm (encode v) = Some m /\
      SU.typed_of_value host_disp url_norm v = Some m /\
      match MI.c_input c with
      | MI.InFile _ l x | MI.InStdin l x =>
          SU.m_mode m = SU.Single l (if MI.o_md5 o then Some x else None) /\
          MIP.iget (txt "md5sum") v = (if MI.o_md5 o then Some (Str x) else None)
      | MI.InDir _ fs =>
          exists sfs es,
            SU.m_mode m = SU.Multiple sfs /\ MIP.iget (txt "files") v = Some (Lst es) /\
            map SU.f_length sfs = map MI.f_length fs /\ map SU.f_path sfs = map MI.f_path fs /\
            map SU.f_md5 sfs = map (fun f => if MI.o_md5 o then Some (MI.f_md5 f) else None) fs /\
            Forall2 (fun f e => SC.vget (txt "md5sum") e = (if MI.o_md5 o then Some (Str (MI.f_md5 f)) else None)) fs es
      end.
  Proof.
    intros Hin Ho Hpl Htx Hct Hb Hname Hnodes Hupd.
    exists (requested o c name nodes upd).
    split; [exact (created_bytes_from_input o c v name nodes upd Hin Ho Hpl Htx Hct Hb Hname Hnodes Hupd)|].
    split; [exact (built_value_loads o c v name nodes upd Hin Ho Hpl Htx Hct Hb Hname Hnodes Hupd)|].
    cbn [EndToEndShow.requested SU.m_mode].
    destruct (MI.c_input c) as [n l x|n fs|l x] eqn:Ei; cbn [mode_of].
    - destruct (MIP.single_shape norm host_canon git_suffix o c v l x Hb) as (_ & Gm & _); [rewrite Ei; reflexivity|].
      split; [reflexivity|exact Gm].
    - destruct (MIP.multi_shape norm host_canon git_suffix o c v n fs Hb Ei) as (_ & _ & es & Gf & HF).
      exists (map (sfile_of (MI.o_md5 o)) fs), es. split; [reflexivity|]. split; [exact Gf|].
      rewrite !map_map. split; [reflexivity|]. split; [reflexivity|]. split; [reflexivity|].
      clear - HF. induction HF as [|f e fs' es' Hfe _ IHF]; constructor; [|exact IHF].
      destruct Hfe as (_ & _ & Gm & _). exact Gm.
    - destruct (MIP.single_shape norm host_canon git_suffix o c v l x Hb) as (_ & Gm & _); [rewrite Ei; reflexivity|].
      split; [reflexivity|exact Gm].
  Qed.

  (** the entry point of the correspondence run for the MD5 values: the list the loader carries is the requested one *)
  Corollary e2e_md5s_created o c v name nodes upd :
    MI.input_ok (MI.c_input c) = true -> MI.opts_ok o = true ->
    MI.piece_length_of o (MI.c_input c) < 2 ^ 63 ->
    texts_utf8 o c = true -> content_shown_ok (MI.o_md5 o) c = true ->
    build o c = Some v -> MI.name_of o (MI.c_input c) = Some name ->
    nodes_text o = Some nodes -> update_text o = Some upd ->
    e2e_md5s norm host_canon git_suffix host_disp url_norm o c = Some (requested_md5s (MI.o_md5 o) (MI.c_input c)).
  Proof.
    intros Hin Ho Hpl Htx Hct Hb Hname Hnodes Hupd. unfold e2e_md5s. rewrite Hb.
    rewrite (created_bytes_from_input o c v name nodes upd Hin Ho Hpl Htx Hct Hb Hname Hnodes Hupd).
    cbn [EndToEndShow.requested SU.m_mode].
    destruct (MI.c_input c) as [n l x|n fs|l x]; cbn [mode_of mode_md5s requested_md5s]; try reflexivity.
    rewrite map_map. reflexivity.
  Qed.

  (** the JSON object of the requested metainfo is the requested report *)
  Lemma json_of_requested o c name nodes upd len ih :
    SU.json_of (requested o c name nodes upd) (MI.total_size (MI.c_input c)) len ih
    = requested_json o c name nodes upd len ih.
  Proof.
    unfold SU.json_of, EndToEndShow.requested_json, SU.piece_count, SU.file_count, SU.file_paths, SU.is_single,
      SU.private_flag, SU.hex_text, MI.created_by_text.
    cbn [EndToEndShow.requested SU.m_name SU.m_comment SU.m_creation_date SU.m_created_by SU.m_source SU.m_private
         SU.m_announce SU.m_announce_list SU.m_update_url SU.m_nodes SU.m_piece_length SU.m_pieces SU.m_mode].
    cbv zeta.
    assert (Et : (match (match MI.tiers_of o with [] => None | ts => Some ts end) with Some t => t | None => [] end)
                 = MI.tiers_of o) by (destruct (MI.tiers_of o); reflexivity).
    rewrite Et. unfold MI.tiers_of. rewrite map_map.
    assert (Ep : (match (if MI.o_private o then Some true else None) with Some b => b | None => false end)
                 = MI.o_private o) by (destruct (MI.o_private o); reflexivity).
    rewrite Ep.
    destruct (MI.c_input c) as [n l m|n fs|l m]; cbn [mode_of is_dir listed_files]; try reflexivity.
    rewrite !map_length, !map_map. reflexivity.
  Qed.

  (** `torrent show` on the bytes create wrote *)
  Theorem created_bytes_show_back cal human src o c v name nodes upd ih :
    MI.input_ok (MI.c_input c) = true -> MI.opts_ok o = true ->
    MI.piece_length_of o (MI.c_input c) < 2 ^ 63 ->
    texts_utf8 o c = true -> content_shown_ok (MI.o_md5 o) c = true ->
    build o c = Some v -> MI.name_of o (MI.c_input c) = Some name ->
    nodes_text o = Some nodes -> update_text o = Some upd ->
    let len := N.of_nat (length (encode v)) in
    let t := SU.table_of cal (requested o c name nodes upd) (MI.total_size (MI.c_input c)) len ih in
    SU.show cal human host_disp url_norm src (encode v) ih
    = SU.ShowPrinted (requested_json o c name nodes upd len ih) (SU.render_tab t) (SU.render_term human t).
  Proof.
    intros Hin Ho Hpl Htx Hct Hb Hname Hnodes Hupd. cbv zeta.
    pose proof (MIP.build_wfb norm (fun _ => true) host_canon git_suffix o c v Hin Ho Hpl Hb) as Hw.
    pose proof (built_value_loads o c v name nodes upd Hin Ho Hpl Htx Hct Hb Hname Hnodes Hupd) as Ht.
    unfold SU.show. rewrite (show_decode v Hw), (build_depth_within_limit norm host_canon git_suffix o c v Hb).
    unfold SU.show_value. rewrite Ht.
    destruct (SUP.content_size_is_true_sum host_disp url_norm v _ Ht) as (Hc & _ & _).
    rewrite Hc. cbn [EndToEndShow.requested SU.m_mode]. rewrite total_length_mode, json_of_requested. reflexivity.
  Qed.

  (** the same for the bytes written once the checks of Create::run have passed: they bound the piece length *)
  Corollary written_bytes_show_back url_ok cal human src o c tb name nodes upd ih :
    MI.input_ok (MI.c_input c) = true -> MI.opts_ok o = true ->
    texts_utf8 o c = true -> content_shown_ok (MI.o_md5 o) c = true ->
    MI.create_bytes norm url_ok host_canon git_suffix o c = Some tb -> MI.name_of o (MI.c_input c) = Some name ->
    nodes_text o = Some nodes -> update_text o = Some upd ->
    let len := N.of_nat (length tb) in
    let t := SU.table_of cal (requested o c name nodes upd) (MI.total_size (MI.c_input c)) len ih in
    SU.show cal human host_disp url_norm src tb ih
    = SU.ShowPrinted (requested_json o c name nodes upd len ih) (SU.render_tab t) (SU.render_term human t).
  Proof.
    intros Hin Ho Htx Hct Hcb Hname Hnodes Hupd. unfold MI.create_bytes in Hcb.
    destruct (MI.run_create norm url_ok host_canon git_suffix o c) as [v|] eqn:Er; [|discriminate].
    inversion Hcb; subst tb; clear Hcb.
    destruct (MIP.run_create_build norm url_ok host_canon git_suffix o c v Er) as (Hb & Hp & _).
    apply created_bytes_show_back; try assumption.
    destruct Hp as [_ Hp]. exact (N.lt_trans _ _ _ Hp (eq_refl : 2 ^ 32 < 2 ^ 63)).
  Qed.

  (** ... and when the loader refuses, `show` prints nothing *)
  Theorem created_bytes_show_refused cal human src o c v name ih :
    MI.input_ok (MI.c_input c) = true -> MI.opts_ok o = true ->
    MI.piece_length_of o (MI.c_input c) < 2 ^ 63 ->
    texts_utf8 o c = true -> content_shown_ok (MI.o_md5 o) c = true ->
    build o c = Some v -> MI.name_of o (MI.c_input c) = Some name ->
    nodes_text o = None \/ update_text o = None ->
    SU.show cal human host_disp url_norm src (encode v) ih = SU.ShowRejected.
  Proof.
    intros Hin Ho Hpl Htx Hct Hb Hname Hno.
    pose proof (MIP.build_wfb norm (fun _ => true) host_canon git_suffix o c v Hin Ho Hpl Hb) as Hw.
    unfold SU.show. rewrite (show_decode v Hw), (build_depth_within_limit norm host_canon git_suffix o c v Hb).
    unfold SU.show_value.
    rewrite (built_value_refused o c v name Hin Ho Hpl Htx Hct Hb Hname Hno). reflexivity.
  Qed.

  (** every optional field is null / empty in the report exactly when its option was not given *)
  Theorem requested_absent_iff o c name nodes upd len ih :
    nodes_text o = Some nodes -> update_text o = Some upd ->
    let j := requested_json o c name nodes upd len ih in
    (SS.jfield j (SU.bs "comment") = SU.JvNull <-> MI.o_comment o = None) /\
    (SS.jfield j (SU.bs "creation_date") = SU.JvNull <-> MI.o_no_creation_date o = true) /\
    (SS.jfield j (SU.bs "created_by") = SU.JvNull <-> MI.o_no_created_by o = true) /\
    (SS.jfield j (SU.bs "source") = SU.JvNull <-> MI.o_source o = None) /\
    (SS.jfield j (SU.bs "tracker") = SU.JvNull <-> MI.o_announce o = None) /\
    (SS.jfield j (SU.bs "announce_list") = SU.JvArr [] <-> MI.o_tiers o = []) /\
    (SS.jfield j (SU.bs "update_url") = SU.JvNull <-> MI.o_update_url o = None) /\
    (SS.jfield j (SU.bs "dht_nodes") = SU.JvArr [] <-> MI.o_nodes o = []) /\
    SS.jfield j (SU.bs "private") = SU.JvBool (MI.o_private o).
  Proof.
    intros Hnodes Hupd. cbv zeta.
    change (SS.jfield (requested_json o c name nodes upd len ih) (SU.bs "comment")) with (SU.jopt_str (MI.o_comment o)).
    change (SS.jfield (requested_json o c name nodes upd len ih) (SU.bs "creation_date"))
      with (SU.jopt_num (if MI.o_no_creation_date o then None else Some (MI.o_now o))).
    change (SS.jfield (requested_json o c name nodes upd len ih) (SU.bs "created_by"))
      with (SU.jopt_str (if MI.o_no_created_by o then None else Some (GenCreate.created_by_prefix ++ git_suffix))).
    change (SS.jfield (requested_json o c name nodes upd len ih) (SU.bs "source")) with (SU.jopt_str (MI.o_source o)).
    change (SS.jfield (requested_json o c name nodes upd len ih) (SU.bs "tracker"))
      with (SU.jopt_str (option_map norm (MI.o_announce o))).
    change (SS.jfield (requested_json o c name nodes upd len ih) (SU.bs "announce_list"))
      with (SU.JvArr (map (fun t => SU.JvArr (map SU.JvStr (MI.split_on 44 t))) (MI.o_tiers o))).
    change (SS.jfield (requested_json o c name nodes upd len ih) (SU.bs "update_url")) with (SU.jopt_str upd).
    change (SS.jfield (requested_json o c name nodes upd len ih) (SU.bs "dht_nodes"))
      with (SU.JvArr (map SU.JvStr (match nodes with Some l => l | None => [] end))).
    change (SS.jfield (requested_json o c name nodes upd len ih) (SU.bs "private")) with (SU.JvBool (MI.o_private o)).
    repeat split.
    - destruct (MI.o_comment o); [discriminate|reflexivity].
    - destruct (MI.o_comment o); [discriminate|reflexivity].
    - destruct (MI.o_no_creation_date o); [reflexivity|discriminate].
    - intros ->. reflexivity.
    - destruct (MI.o_no_created_by o); [reflexivity|discriminate].
    - intros ->. reflexivity.
    - destruct (MI.o_source o); [discriminate|reflexivity].
    - destruct (MI.o_source o); [discriminate|reflexivity].
    - destruct (MI.o_announce o); [discriminate|reflexivity].
    - intros ->. reflexivity.
    - destruct (MI.o_tiers o); [reflexivity|discriminate].
    - intros ->. reflexivity.
    - unfold EndToEndShow.update_text in Hupd. destruct (MI.o_update_url o) as [u|]; [|reflexivity].
      destruct (url_norm (norm u)); [|discriminate]. inversion Hupd; subst. discriminate.
    - unfold EndToEndShow.update_text in Hupd. intros E. rewrite E in Hupd. inversion Hupd; subst. reflexivity.
    - unfold EndToEndShow.nodes_text in Hnodes. destruct (MI.o_nodes o) as [|n ns]; [reflexivity|].
      destruct (SU.map_opt _ (n :: ns)) as [l|] eqn:El; [|discriminate]. inversion Hnodes; subst.
      pose proof (map_opt_some_nonempty _ _ _ _ El) as Hne. destruct l; [contradiction|discriminate].
    - unfold EndToEndShow.nodes_text in Hnodes. intros E. rewrite E in Hnodes. inversion Hnodes; subst. reflexivity.
  Qed.
End ShowBack.

(* ====================================================================================================== *)
(** * `torrent link` of the bytes, and `create --link` *)

(* ---------- C05's ordered-map builder and C04's build the same dictionary ---------- *)

Lemma present_in es k v : In (k, v) (present es) <-> In (k, Some v) es.
Proof.
  induction es as [|[k' [x|]] r IH]; cbn [present In]; [tauto| |].
  - rewrite IH. split; (intros [E|E]; [left; inversion E; reflexivity|right; exact E]).
  - rewrite IH. split; [intros E; right; exact E|intros [E|E]; [discriminate|exact E]].
Qed.

Lemma present_app a b : present (a ++ b) = present a ++ present b.
Proof.
  induction a as [|[k [x|]] r IH]; cbn [present app]; [reflexivity| |]; rewrite IH; reflexivity.
Qed.

Lemma present_keys_in es k : In k (map fst (present es)) -> In k (map fst es).
Proof.
  induction es as [|[k' [x|]] r IH]; cbn [present map fst In]; [tauto| |].
  - intros [E|E]; [left; exact E|right; exact (IH E)].
  - intros E. right. exact (IH E).
Qed.

Lemma distinct_present es :
  SC.distinct_keys (map fst es) = true -> SC.distinct_keys (map fst (present es)) = true.
Proof.
  induction es as [|[k [x|]] r IH]; intros Hd; cbn [present map fst SC.distinct_keys] in *; [reflexivity| |].
  - apply andb_prop in Hd. destruct Hd as [Hk Hr]. rewrite (IH Hr), andb_true_r.
    apply negb_true_iff. apply negb_true_iff in Hk.
    destruct (existsb (SC.bytes_eqb k) (map fst (present r))) eqn:E; [|reflexivity].
    apply existsb_exists in E. destruct E as (k2 & Hin & Heq). apply present_keys_in in Hin.
    assert (X : existsb (SC.bytes_eqb k) (map fst r) = true) by (apply existsb_exists; exists k2; split; assumption).
    rewrite X in Hk. discriminate.
  - apply andb_prop in Hd. destruct Hd as [_ Hr]. exact (IH Hr).
Qed.

Lemma lookup_in_distinct es k v :
  SC.distinct_keys (map fst es) = true -> In (k, Some v) es -> SC.lookup k es = Some v.
Proof.
  induction es as [|[k' ov] r IH]; intros Hd Hin; [destruct Hin|].
  cbn [map fst SC.distinct_keys] in Hd. apply andb_prop in Hd. destruct Hd as [Hk Hr].
  apply negb_true_iff in Hk. cbn [SC.lookup]. destruct Hin as [E|Hin].
  - inversion E; subst. rewrite SCP.bytes_eqb_refl. reflexivity.
  - assert (F : SC.bytes_eqb k k' = false).
    { apply (SCP.existsb_eqb_false k' _ Hk k). apply (in_map fst) in Hin. exact Hin. }
    rewrite F. apply IH; assumption.
Qed.

Lemma dget_in k v : forall d, SC.dget k d = Some v -> In (k, v) d.
Proof.
  induction d as [|[k' x] r IH]; cbn [SC.dget]; [discriminate|].
  destruct (SC.bytes_eqb k k') eqn:E.
  - intros Hx; inversion Hx; subst. apply SCP.bytes_eqb_eq in E. subst. left. reflexivity.
  - intros Hx. right. exact (IH Hx).
Qed.

Lemma insert_entry_total kv : forall s,
  (forall y, In y s -> fst y <> fst kv) -> exists s', IH.insert_entry kv s = Some s'.
Proof.
  induction s as [|x r IHr]; intros Hne; cbn [IH.insert_entry]; [eexists; reflexivity|].
  destruct (bytes_ltb (fst kv) (fst x)) eqn:E1; [eexists; reflexivity|].
  destruct (bytes_ltb (fst x) (fst kv)) eqn:E2.
  - destruct IHr as [s' Hs']; [intros y Hy; apply Hne; right; exact Hy|]. rewrite Hs'. eexists. reflexivity.
  - exfalso. apply (Hne x (or_introl eq_refl)). symmetry. apply SCP.bytes_ltb_tricho; assumption.
Qed.

Lemma sort_entries_total e :
  SC.distinct_keys (map fst e) = true -> exists s, IH.sort_entries e = Some s.
Proof.
  induction e as [|kv r IHr]; intros Hd; [eexists; reflexivity|].
  cbn [map SC.distinct_keys] in Hd. apply andb_prop in Hd. destruct Hd as [Hk Hr]. apply negb_true_iff in Hk.
  destruct (IHr Hr) as [s Hs]. cbn [IH.sort_entries]. rewrite Hs.
  apply insert_entry_total. intros y Hy E.
  destruct (IHP.sort_entries_spec r s Hs) as [_ Hin]. apply Hin in Hy.
  pose proof (SCP.existsb_eqb_false (fst kv) _ Hk (fst y) (in_map fst _ _ Hy)) as F.
  rewrite E, SCP.bytes_eqb_refl in F. discriminate.
Qed.

(** a strictly sorted association list is determined by its members *)
Lemma sorted_unique : forall (a b : list (bytes * value)) last,
  keys_sorted last (map fst a) = true -> keys_sorted last (map fst b) = true ->
  (forall y, In y a <-> In y b) -> a = b.
Proof.
  induction a as [|x a IHa]; intros [|y b] last Ha Hb Hin.
  - reflexivity.
  - exfalso. apply (proj2 (Hin y)). left. reflexivity.
  - exfalso. apply (proj1 (Hin x)). left. reflexivity.
  - cbn [map keys_sorted] in Ha, Hb. apply andb_prop in Ha. apply andb_prop in Hb.
    destruct Ha as [Hlx Ha]. destruct Hb as [Hly Hb].
    pose proof (IHP.keys_sorted_all_above _ _ Ha) as Aa. pose proof (IHP.keys_sorted_all_above _ _ Hb) as Ab.
    rewrite Forall_forall in Aa, Ab.
    assert (Exy : x = y).
    { destruct (proj1 (Hin x) (or_introl eq_refl)) as [E|Hxb]; [symmetry; exact E|].
      destruct (proj2 (Hin y) (or_introl eq_refl)) as [E|Hya]; [exact E|].
      exfalso. pose proof (Ab (fst x) (in_map fst _ _ Hxb)) as L1.
      pose proof (Aa (fst y) (in_map fst _ _ Hya)) as L2.
      pose proof (IHP.bytes_ltb_trans _ _ _ L1 L2) as L3. rewrite IHP.bytes_ltb_irrefl in L3. discriminate. }
    subst y. rewrite Hlx in Hly. f_equal. apply (IHa b (Some (fst x)) Ha Hb).
    intros z. split; intros Hz.
    + destruct (proj1 (Hin z) (or_intror Hz)) as [E|Hzb]; [|exact Hzb].
      exfalso. subst z. pose proof (Aa (fst x) (in_map fst _ _ Hz)) as L.
      rewrite IHP.bytes_ltb_irrefl in L. discriminate.
    + destruct (proj2 (Hin z) (or_intror Hz)) as [E|Hza]; [|exact Hza].
      exfalso. subst z. pose proof (Ab (fst x) (in_map fst _ _ Hz)) as L.
      rewrite IHP.bytes_ltb_irrefl in L. discriminate.
Qed.

(** bendy's struct serialiser as C04 models it (sort, then refuse duplicates) and as C05 models it
    (insert one by one, refusing duplicates) agree on every field list with distinct keys, in
    whatever order the fields are handed over *)
Theorem ser_struct_of_mk_dict es e :
  SC.distinct_keys (map fst es) = true -> SC.distinct_keys (map fst e) = true ->
  (forall y, In y e <-> In y (present es)) -> IH.ser_struct e = SC.mk_dict es.
Proof.
  intros Hd He Hin. destruct (SCP.mk_dict_spec es Hd) as (d & Hmk & Hs & Hget & Hind).
  destruct (sort_entries_total e He) as [s Hse]. destruct (IHP.sort_entries_spec e s Hse) as [Hss Hins].
  unfold IH.ser_struct. rewrite Hse, Hmk. f_equal. f_equal.
  apply (sorted_unique s d None Hss Hs).
  intros [k x]. rewrite Hins, Hin, present_in. split.
  - intros Hy. apply dget_in. rewrite Hget. apply lookup_in_distinct; assumption.
  - intros Hy. apply (Hind (k, x) Hy).
Qed.

Corollary mk_dict_ser_struct es :
  SC.distinct_keys (map fst es) = true -> IH.ser_struct (present es) = SC.mk_dict es.
Proof.
  intros Hd. apply ser_struct_of_mk_dict; [exact Hd|exact (distinct_present es Hd)|]. intros y. reflexivity.
Qed.

Lemma all_some_same {A} (l : list (option A)) : IH.all_some l = SC.all_some l.
Proof.
  induction l as [|[a|] r IHr]; cbn [IH.all_some SC.all_some]; [reflexivity| |reflexivity].
  rewrite IHr. reflexivity.
Qed.

(* ---------- the typed structs of create.rs, serialised ---------- *)

Lemma file_value_same md5 f : IH.file_info_value (tfile_of md5 f) = MI.file_entry md5 f.
Proof.
  unfold IH.file_info_value. change (MI.file_entry md5 f) with (SC.mk_dict (MIP.file_entries md5 f)).
  rewrite <- (mk_dict_ser_struct _ (eq_refl : SC.distinct_keys (map fst (MIP.file_entries md5 f)) = true)).
  unfold MIP.file_entries. destruct md5; reflexivity.
Qed.

Lemma mode_entries_same md5 i :
  IH.mode_entries (tmode_of md5 i) = option_map present (MI.mode_entries md5 i).
Proof.
  destruct i as [n l m|n fs|l m]; cbn [tmode_of IH.mode_entries MI.mode_entries].
  - destruct md5; reflexivity.
  - rewrite map_map, all_some_same.
    rewrite (map_ext _ _ (file_value_same md5)).
    destruct (SC.all_some (map (MI.file_entry md5) fs)); reflexivity.
  - destruct md5; reflexivity.
Qed.

Section LinkBack.
  Variable norm : bytes -> bytes.
  Variable host_canon : bytes -> bytes.
  Variable git_suffix : bytes.
  Variable H : bytes -> bytes.
  Variable host_disp : bytes -> option bytes.
  Variable url_norm : bytes -> option bytes.

  Notation build := (MI.build norm host_canon git_suffix).
  Notation others := (present (other_entries norm host_canon git_suffix _)).

  (** `Info::serialize` of the struct create holds is the `info` value C05 assembles *)
  Lemma info_value_built o c name me :
    MI.mode_entries (MI.o_md5 o) (MI.c_input c) = Some me ->
    IH.info_value (tinfo_of norm o c name) = SC.mk_dict (MI.info_entries norm o c name me).
  Proof.
    clear H host_disp url_norm. intros Hme.
    rewrite <- (mk_dict_ser_struct _ (MIP.info_keys_distinct norm o c name me Hme)).
    unfold IH.info_value, IH.info_entries.
    cbn [tinfo_of IH.ti_mode IH.ti_private IH.ti_piece_length IH.ti_name IH.ti_source IH.ti_pieces IH.ti_update_url].
    rewrite mode_entries_same, Hme. cbn [option_map]. f_equal.
    unfold MI.info_entries. rewrite !present_app.
    destruct (MI.o_private o), (MI.o_source o), (MI.o_update_url o); reflexivity.
  Qed.

  Lemma build_unfold o c v :
    build o c = Some v ->
    exists info name me,
      MI.name_of o (MI.c_input c) = Some name /\ MI.mode_entries (MI.o_md5 o) (MI.c_input c) = Some me /\
      SC.mk_dict (MI.info_entries norm o c name me) = Some info /\
      SC.mk_dict (MI.metainfo_entries norm host_canon git_suffix o info) = Some v.
  Proof.
    clear H host_disp url_norm. unfold MI.build, MI.build_info. intros Hb.
    destruct (MI.name_of o (MI.c_input c)) as [name|]; [|discriminate].
    destruct (MI.mode_entries (MI.o_md5 o) (MI.c_input c)) as [me|]; [|discriminate].
    destruct (SC.mk_dict (MI.info_entries norm o c name me)) as [info|] eqn:Ei; [|discriminate].
    exists info, name, me. split; [reflexivity|]. split; [reflexivity|]. split; [exact Ei|exact Hb].
  Qed.

  Lemma entries_split o info k x :
    In (k, Some x) ((MI.kM_info, Some info) :: other_entries norm host_canon git_suffix o)
    <-> In (k, Some x) (MI.metainfo_entries norm host_canon git_suffix o info).
  Proof. clear H host_disp url_norm. unfold other_entries, MI.metainfo_entries. cbn [In]. tauto. Qed.

  (** `Metainfo::serialize` of the struct create holds is the value C05 assembles *)
  Lemma metainfo_value_built o c v name :
    build o c = Some v -> MI.name_of o (MI.c_input c) = Some name ->
    IH.metainfo_value (present (other_entries norm host_canon git_suffix o)) (tinfo_of norm o c name) = Some v.
  Proof.
    clear H host_disp url_norm.
    intros Hb Hname. destruct (build_unfold o c v Hb) as (info & name' & me & Hn & Hme & Hi & Hv).
    rewrite Hname in Hn. inversion Hn; subst name'; clear Hn.
    unfold IH.metainfo_value. rewrite (info_value_built o c name me Hme), Hi, <- Hv.
    apply ser_struct_of_mk_dict; [reflexivity| |].
    - apply (distinct_present ((MI.kM_info, Some info) :: other_entries norm host_canon git_suffix o)). reflexivity.
    - intros [k x]. change ((GenInfohash.metainfo_info_key, info) :: present (other_entries norm host_canon git_suffix o))
        with (present ((MI.kM_info, Some info) :: other_entries norm host_canon git_suffix o)).
      rewrite !present_in. apply entries_split.
  Qed.

  Lemma info_small_built o c name :
    MI.input_ok (MI.c_input c) = true -> MI.piece_length_of o (MI.c_input c) < 2 ^ 63 ->
    IH.info_small (tinfo_of norm o c name) = true.
  Proof.
    clear H host_disp url_norm. intros Hin Hpl. unfold IH.info_small. cbn [tinfo_of IH.ti_piece_length IH.ti_mode].
    apply andb_true_intro. split; [apply N.ltb_lt; exact Hpl|].
    destruct (MI.c_input c) as [n l m|n fs|l m]; [exact Hin| |exact Hin].
    cbn [tmode_of]. cbn [MI.input_ok] in Hin. clear Hpl. revert Hin.
    induction fs as [|f fs IHf]; intros Hin; [reflexivity|]. cbn [forallb map] in Hin |- *.
    apply andb_prop in Hin. destruct Hin as [Hf Hfs]. rewrite (IHf Hfs), andb_true_r. exact Hf.
  Qed.

  (** C04's lossy path on what create holds: `create --link` / `create --show` hash what `link` / `show`
      hash on the file, and the typed serialisation is the file *)
  Theorem lossy_created md o c v name trailing :
    MI.input_ok (MI.c_input c) = true -> MI.opts_ok o = true ->
    MI.piece_length_of o (MI.c_input c) < 2 ^ 63 ->
    build o c = Some v -> MI.name_of o (MI.c_input c) = Some name -> IH.depth_ok md v = true ->
    exists typed,
      IH.ser_info (tinfo_of norm o c name) = Some typed /\
      IH.ser_metainfo (present (other_entries norm host_canon git_suffix o)) (tinfo_of norm o c name) = Some (encode v) /\
      IH.infohash_of bytes H md (encode v ++ trailing) = Some (H typed).
  Proof.
    clear host_disp url_norm. intros Hin Ho Hpl Hb Hname Hdep.
    apply IHP.lossy_agrees_on_created; [exact (info_small_built o c name Hin Hpl)| |
      exact (metainfo_value_built o c v name Hb Hname)|exact Hdep].
    pose proof (MIP.build_wfb norm (fun _ => true) host_canon git_suffix o c v Hin Ho Hpl Hb) as Hw.
    destruct (MIP.build_spec norm host_canon git_suffix o c v Hb) as (info & d & Hi & Hv & _ & Hget & _).
    subst v. cbn [wfb] in Hw. apply andb_prop in Hw. destruct Hw as [_ Hw].
    apply forallb_forall. intros [k x] Hkx. cbn [snd].
    apply present_in in Hkx.
    assert (Hin' : In (k, Some x) (MI.metainfo_entries norm host_canon git_suffix o info))
      by (apply entries_split; right; exact Hkx).
    apply (lookup_in_distinct (MI.metainfo_entries norm host_canon git_suffix o info) k x eq_refl) in Hin'.
    rewrite <- Hget in Hin'. apply dget_in in Hin'.
    exact (proj1 (forallb_forall _ _) Hw (k, x) Hin').
  Qed.

  (** `torrent link` of the bytes and `create --link`, both as [link_cmd] of the requested name and trackers
      and of the hash of the info dictionary as stored *)
  Theorem created_link_back md o c v name nodes upd peers select_only :
    MI.input_ok (MI.c_input c) = true -> MI.opts_ok o = true ->
    MI.piece_length_of o (MI.c_input c) < 2 ^ 63 ->
    texts_utf8 norm host_canon git_suffix o c = true -> content_shown_ok (MI.o_md5 o) c = true ->
    build o c = Some v -> MI.name_of o (MI.c_input c) = Some name ->
    nodes_text host_canon host_disp o = Some nodes -> update_text norm url_norm o = Some upd ->
    IH.depth_ok md v = true ->
    exists info,
      SC.vget (txt "info") v = Some info /\
      IH.hashed_bytes md (encode v) = Some (encode info) /\
      IH.ser_info (tinfo_of norm o c name) = Some (encode info) /\
      link_file H host_disp url_norm md (encode v) peers select_only
        = MG.link_cmd url_norm (H (encode info)) name (option_map norm (MI.o_announce o)) (MI.tiers_of o)
                      peers select_only /\
      create_link norm H url_norm o c peers
        = MG.link_cmd url_norm (H (encode info)) name (option_map norm (MI.o_announce o)) (MI.tiers_of o) peers [].
  Proof.
    intros Hin Ho Hpl Htx Hct Hb Hname Hnodes Hupd Hdep.
    pose proof (MIP.build_wfb norm (fun _ => true) host_canon git_suffix o c v Hin Ho Hpl Hb) as Hw.
    destruct (MIP.build_spec norm host_canon git_suffix o c v Hb) as (info & d & Hi & Hvd & _ & Hget & _).
    destruct (MIP.build_info_spec norm o c info Hi) as (name' & me & di & Hn' & Hme & Hinfo & _).
    rewrite Hname in Hn'. inversion Hn'; subst name'; clear Hn'.
    assert (Hmk : SC.mk_dict (MI.info_entries norm o c name me) = Some info).
    { unfold MI.build_info in Hi. rewrite Hname, Hme in Hi. exact Hi. }
    exists info.
    assert (Hdi : SC.dget (txt "info") d = Some info).
    { rewrite Hget. reflexivity. }
    assert (Hser : IH.ser_info (tinfo_of norm o c name) = Some (encode info)).
    { unfold IH.ser_info. rewrite (info_value_built o c name me Hme), Hmk. reflexivity. }
    assert (Hhash : IH.hashed_bytes md (encode v) = Some (encode info)).
    { apply IHP.hashed_iff_shape. pose proof (dget_in _ _ _ Hdi) as Hmem.
      apply in_split in Hmem. destruct Hmem as (before & after & Hsplit).
      rewrite Hinfo in Hsplit |- *.
      exists before, di, after, []. cbv zeta.
      change IH.info_key with (txt "info"). rewrite <- Hsplit, <- Hvd, app_nil_r.
      repeat split; [exact Hw|exact Hdep]. }
    split; [rewrite Hvd; exact Hdi|]. split; [exact Hhash|]. split; [exact Hser|]. split.
    - unfold link_file, IH.infohash_of. rewrite Hhash. cbn [option_map].
      rewrite (created_bytes_from_input norm host_canon git_suffix host_disp url_norm o c v name nodes upd
                 Hin Ho Hpl Htx Hct Hb Hname Hnodes Hupd).
      cbn [EndToEndShow.requested SU.m_name SU.m_announce SU.m_announce_list].
      destruct (MI.tiers_of o); reflexivity.
    - unfold create_link. rewrite Hname, Hser. reflexivity.
  Qed.

  (** C10 on top: the link `torrent link` prints for the created bytes decodes, under either `+`
      convention, to the hash of the stored info dictionary, the requested name, announce followed by
      the tier members (first appearance only), the peers and the selection; and `create --link`
      prints the same link *)
  Theorem created_bytes_link_back md plus o c v name nodes upd peers select_only uri :
    MI.input_ok (MI.c_input c) = true -> MI.opts_ok o = true ->
    MI.piece_length_of o (MI.c_input c) < 2 ^ 63 ->
    texts_utf8 norm host_canon git_suffix o c = true -> content_shown_ok (MI.o_md5 o) c = true ->
    build o c = Some v -> MI.name_of o (MI.c_input c) = Some name ->
    nodes_text host_canon host_disp o = Some nodes -> update_text norm url_norm o = Some upd ->
    IH.depth_ok md v = true ->
    (forall x, MGP.wfb (H x)) -> MGP.wfb name -> Forall MGP.wfb peers ->
    (forall t u, url_norm t = Some u -> MGP.wfb u) ->
    link_file H host_disp url_norm md (encode v) peers select_only = Some uri ->
    exists info q trs,
      SC.vget (txt "info") v = Some info /\
      IH.hashed_bytes md (encode v) = Some (encode info) /\
      MG.map_opt url_norm (MG.tracker_texts (option_map norm (MI.o_announce o)) (MI.tiers_of o)) = Some trs /\
      MG.uri_query uri = Some q /\
      MG.std_parse plus q =
        (MG.k_xt, MG.k_urn_btih ++ MG.hex_lower (H (encode info))) :: (MG.k_dn, name)
        :: map (fun t => (MG.k_tr, t)) trs ++ map (fun p => (MG.k_pe, p)) peers
        ++ match MG.index_set select_only with
           | [] => []
           | _ :: _ => [(MG.k_so, MG.so_value (MG.index_set select_only))]
           end /\
      (select_only = [] -> create_link norm H url_norm o c peers = Some uri).
  Proof.
    intros Hin Ho Hpl Htx Hct Hb Hname Hnodes Hupd Hdep HH Hwn Hwp Hwu Hlink.
    destruct (created_link_back md o c v name nodes upd peers select_only Hin Ho Hpl Htx Hct Hb Hname Hnodes Hupd Hdep)
      as (info & Hvi & Hhash & _ & Hl & Hc).
    rewrite Hl in Hlink.
    destruct (MGP.link_cmd_decodes url_norm plus _ _ _ _ _ _ _ (HH _) Hwn Hwp Hwu Hlink) as (q & trs & Hm & Hq & Hs).
    exists info, q, trs. repeat split; try assumption.
    intros ->. rewrite Hc. exact Hlink.
  Qed.
End LinkBack.
