(** Proofs about Model/Tracker.v (C12). Generic lemmas are stated for arbitrary layouts, parse
    tables, guards, retry counts and strides; the property-level lemmas instantiate them with the
    definitions of Generated/GenTracker.v, so they are re-checked against the Rust source on every run. *)
From Coq Require Import NArith List Bool Arith Lia ZifyN ZifyBool ZifyNat.
From Imdl Require Import Base.Key Base.BE Base.Chunks Generated.GenTracker Model.Tracker.
Import ListNotations.
Local Open Scope N_scope.

(* ================================================================ serialiser / layouts *)

(** offset, width and kind of the first field called [name] *)
Fixpoint offset_of (name : key) (lay : list field) : option (nat * nat * bool) :=
  match lay with
  | [] => None
  | (n, w, k) :: r =>
      if key_eqb name n then Some (O, w, k)
      else match offset_of name r with
           | Some (a, w', k') => Some ((w + a)%nat, w', k')
           | None => None
           end
  end.

Definition total (lay : list field) : nat := fold_right (fun f n => (snd (fst f) + n)%nat) O lay.

(** every field is encoded in exactly its declared width (true of `uN::to_be_bytes` and `[u8; K]`) *)
Definition widths_ok (lay : list field) (ints : key -> N) (raws : key -> bytes) : Prop :=
  Forall (fun f => length (enc_field ints raws f) = snd (fst f)) lay.

Lemma ser_length lay ints raws : widths_ok lay ints raws -> length (ser lay ints raws) = total lay.
Proof.
  induction 1 as [|f r Hf Hr IH]; [reflexivity|].
  cbn [ser flat_map total fold_right]. rewrite app_length, Hf. f_equal. exact IH.
Qed.

Lemma ser_slice lay ints raws : widths_ok lay ints raws ->
  forall name a w k, offset_of name lay = Some (a, w, k) ->
  slice a w (ser lay ints raws) = enc_field ints raws (name, w, k).
Proof.
  induction 1 as [|f r Hf Hr IH]; intros name a w k Ho; [discriminate|].
  destruct f as [[n w0] k0]. cbn [offset_of] in Ho. cbn [ser flat_map].
  destruct (key_eqb name n) eqn:E.
  - apply key_eqb_eq in E. subst n. injection Ho as <- <- <-.
    apply slice_app_here. exact Hf.
  - destruct (offset_of name r) as [[[a' w'] k']|] eqn:Er; [|discriminate].
    injection Ho as <- <- <-.
    rewrite (slice_app_skip _ _ w0) by exact Hf. apply IH. exact Er.
Qed.

Lemma connect_widths txid : widths_ok connect_request_layout (connect_ints txid) (fun _ => []).
Proof. unfold connect_request_layout, widths_ok. repeat constructor; apply be_length. Qed.

Lemma announce_widths conn ih pid port txid :
  length ih = 20%nat -> length pid = 20%nat ->
  widths_ok announce_request_layout (announce_ints conn port txid)
            (new_raws announce_request_new (announce_rparams ih pid)).
Proof.
  intros Hih Hpid. unfold announce_request_layout, widths_ok.
  repeat constructor; try apply be_length; [exact Hih|exact Hpid].
Qed.

(** BEP 15 connect request, over the generated layout / initialisers / magic *)
Lemma connect_layout txid :
  let d := connect_req txid in
  length d = 16%nat /\
  slice 0 8 d = be 8 4497486125440 (* 0x41727101980 *) /\
  slice 8 4 d = be 4 0 /\
  slice 12 4 d = be 4 txid /\
  connect_ints txid "action"%key = 0 /\
  connect_ints txid "transaction_id"%key = txid /\
  N.to_nat connect_request_length = 16%nat /\
  udp_tracker_magic = 4497486125440.
Proof.
  intros d. pose proof (connect_widths txid) as W.
  split; [exact (ser_length _ _ _ W)|].
  split; [exact (ser_slice _ _ _ W "protocol_id"%key _ _ _ eq_refl)|].
  split; [exact (ser_slice _ _ _ W "action"%key _ _ _ eq_refl)|].
  split; [exact (ser_slice _ _ _ W "transaction_id"%key _ _ _ eq_refl)|].
  repeat split.
Qed.

(** BEP 15 announce request, over the generated layout / initialisers *)
Lemma announce_layout conn ih pid port txid :
  length ih = 20%nat -> length pid = 20%nat ->
  let d := announce_req conn ih pid port txid in
  length d = 98%nat /\
  slice 0 8 d = be 8 conn /\
  slice 8 4 d = be 4 1 /\
  slice 12 4 d = be 4 txid /\
  slice 16 20 d = ih /\
  slice 36 20 d = pid /\
  slice 56 8 d = be 8 0 (* downloaded *) /\
  slice 64 8 d = be 8 18446744073709551615 (* left = u64::MAX *) /\
  slice 72 8 d = be 8 0 (* uploaded *) /\
  slice 80 8 d = be 8 0 (* BEP 15: event (none) and IP address (default) *) /\
  slice 88 4 d = be 4 0 (* BEP 15: key *) /\
  slice 92 4 d = be 4 4294967295 (* num_want = -1 *) /\
  slice 96 2 d = be 2 port /\
  announce_ints conn port txid "action"%key = 1 /\
  announce_ints conn port txid "transaction_id"%key = txid /\
  N.to_nat announce_request_length = 98%nat.
Proof.
  intros Hih Hpid d. pose proof (announce_widths conn ih pid port txid Hih Hpid) as W.
  split; [exact (ser_length _ _ _ W)|].
  split; [exact (ser_slice _ _ _ W "connection_id"%key _ _ _ eq_refl)|].
  split; [exact (ser_slice _ _ _ W "action"%key _ _ _ eq_refl)|].
  split; [exact (ser_slice _ _ _ W "transaction_id"%key _ _ _ eq_refl)|].
  split; [exact (ser_slice _ _ _ W "infohash"%key _ _ _ eq_refl)|].
  split; [exact (ser_slice _ _ _ W "peer_id"%key _ _ _ eq_refl)|].
  split; [exact (ser_slice _ _ _ W "downloaded"%key _ _ _ eq_refl)|].
  split; [exact (ser_slice _ _ _ W "left"%key _ _ _ eq_refl)|].
  split; [exact (ser_slice _ _ _ W "uploaded"%key _ _ _ eq_refl)|].
  split; [exact (ser_slice _ _ _ W "event"%key _ _ _ eq_refl)|].
  split; [exact (ser_slice _ _ _ W "ip_address"%key _ _ _ eq_refl)|].
  split; [exact (ser_slice _ _ _ W "num_want"%key _ _ _ eq_refl)|].
  split; [exact (ser_slice _ _ _ W "port"%key _ _ _ eq_refl)|].
  repeat split.
Qed.

(** `left` is not zero (the client announces as a downloader), and a u16 port is sent as it is *)
Lemma announce_left_port conn ih pid port txid :
  length ih = 20%nat -> length pid = 20%nat -> port < 2 ^ 16 ->
  let d := announce_req conn ih pid port txid in
  unbe (slice 64 8 d) <> 0 /\ unbe (slice 96 2 d) = port.
Proof.
  intros Hih Hpid Hport d.
  destruct (announce_layout conn ih pid port txid Hih Hpid)
    as (_ & _ & _ & _ & _ & _ & _ & Hleft & _ & _ & _ & _ & Hp & _).
  fold d in Hleft, Hp. rewrite Hleft, Hp. split.
  - rewrite unbe_be by (cbn; lia). lia.
  - apply unbe_be. exact Hport.
Qed.

(* ================================================================ deserialisers *)

Fixpoint lookup_range (name : key) (tbl : list (key * nat * nat)) : option (nat * nat) :=
  match tbl with
  | [] => None
  | (n, a, b) :: r => if key_eqb name n then Some (a, b) else lookup_range name r
  end.

(** every fixed range of the table lies inside the guarded length *)
Definition tbl_within (len : nat) (tbl : list (key * nat * nat)) : bool :=
  forallb (fun '(_, a, b) => ((a <=? b) && (b <=? len))%nat) tbl.

Definition guard_known (op : key) : bool :=
  key_eqb op "lt" || key_eqb op "ne" || key_eqb op "le".

Lemma guard_sound op len n : guard_known op = true -> guard_rejects op len n = false -> (len <= n)%nat.
Proof.
  unfold guard_known, guard_rejects. intros Hk Hg.
  destruct (key_eqb op "lt"); [apply Nat.ltb_ge in Hg; lia|].
  destruct (key_eqb op "ne"); [apply negb_false_iff, Nat.eqb_eq in Hg; lia|].
  destruct (key_eqb op "le"); [apply Nat.leb_gt in Hg; lia|].
  discriminate.
Qed.

Lemma index_opt_in a b buf : (a <= b)%nat -> (b <= length buf)%nat ->
  index_opt a b buf = Some (slice a (b - a) buf).
Proof.
  intros Hab Hb. unfold index_opt.
  replace ((a <=? b)%nat) with true by (symmetry; apply Nat.leb_le; exact Hab).
  replace ((b <=? length buf)%nat) with true by (symmetry; apply Nat.leb_le; exact Hb).
  reflexivity.
Qed.

Lemma parse_fields_total len tbl buf :
  tbl_within len tbl = true -> (len <= length buf)%nat -> exists fs, parse_fields tbl buf = Some fs.
Proof.
  intros Hw Hl. induction tbl as [|[[n a] b] r IH]; [exists []; reflexivity|].
  cbn [tbl_within forallb] in Hw. apply andb_true_iff in Hw. destruct Hw as [Hab Hr].
  apply andb_true_iff in Hab. destruct Hab as [Hab Hb].
  apply Nat.leb_le in Hab. apply Nat.leb_le in Hb.
  destruct (IH Hr) as [fs Hfs]. cbn [parse_fields].
  rewrite index_opt_in by lia. rewrite Hfs. eexists. reflexivity.
Qed.

Lemma parse_fields_get tbl buf : forall fs, parse_fields tbl buf = Some fs ->
  forall name a b, lookup_range name tbl = Some (a, b) ->
  get name fs = unbe (slice a (b - a) buf) /\ (a <= b)%nat /\ (b <= length buf)%nat.
Proof.
  induction tbl as [|[[n a0] b0] r IH]; intros fs Hp name a b Hl; [discriminate|].
  cbn [parse_fields] in Hp. cbn [lookup_range] in Hl.
  destruct (index_opt a0 b0 buf) as [s|] eqn:Ei; [|discriminate].
  destruct (parse_fields r buf) as [fs'|] eqn:Er; [|discriminate].
  injection Hp as <-. unfold get. cbn [lookup].
  destruct (key_eqb name n) eqn:E.
  - injection Hl as <- <-. unfold index_opt in Ei.
    destruct ((a0 <=? b0)%nat) eqn:E1; [|discriminate].
    destruct ((b0 <=? length buf)%nat) eqn:E2; [|discriminate].
    cbn [andb] in Ei. injection Ei as <-.
    apply Nat.leb_le in E1. apply Nat.leb_le in E2. repeat split; assumption.
  - exact (IH fs' eq_refl name a b Hl).
Qed.

(** no datagram, of any length, makes a guarded fixed-offset parser index out of bounds *)
Lemma deserialize_total op len tbl buf :
  guard_known op = true -> tbl_within len tbl = true -> deserialize op len tbl buf <> Panic.
Proof.
  intros Hk Hw. unfold deserialize.
  destruct (guard_rejects op len (length buf)) eqn:G; [discriminate|].
  pose proof (guard_sound _ _ _ Hk G) as Hl.
  destruct (parse_fields_total len tbl buf Hw Hl) as [fs Hfs]. rewrite Hfs.
  unfold tail_opt. replace ((len <=? length buf)%nat) with true by (symmetry; apply Nat.leb_le; exact Hl).
  discriminate.
Qed.

Lemma deserialize_ok op len tbl buf fs payload :
  guard_known op = true ->
  deserialize op len tbl buf = Ok (fs, payload) ->
  (len <= length buf)%nat /\ parse_fields tbl buf = Some fs /\ payload = skipn len buf.
Proof.
  intros Hk. unfold deserialize.
  destruct (guard_rejects op len (length buf)) eqn:G; [discriminate|].
  pose proof (guard_sound _ _ _ Hk G) as Hl.
  destruct (parse_fields tbl buf) as [fs'|]; [|discriminate].
  unfold tail_opt. destruct ((len <=? length buf)%nat); [|discriminate].
  intros H. injection H as <- <-. auto.
Qed.

Lemma deser_connect_total buf : deser_connect buf <> Panic.
Proof. apply deserialize_total; reflexivity. Qed.

Lemma deser_announce_total buf : deser_announce buf <> Panic.
Proof. apply deserialize_total; reflexivity. Qed.

(* ================================================================ the send/receive loop *)

(** position and content of the first request that gets an answer *)
Fixpoint first_answer (ans : list (option bytes)) : option (nat * bytes) :=
  match ans with
  | [] => None
  | Some d :: _ => Some (O, d)
  | None :: r => match first_answer r with Some (i, d) => Some (S i, d) | None => None end
  end.

Lemma send_recv_spec buflen : forall tries ans sent,
  send_recv tries ans buflen sent =
  match first_answer ans with
  | Some (i, d) => if (i <? tries)%nat then ((sent + S i)%nat, firstn buflen d) else ((sent + tries)%nat, [])
  | None => ((sent + tries)%nat, [])
  end.
Proof.
  induction tries as [|t IH]; intros ans sent.
  - cbn [send_recv]. destruct (first_answer ans) as [[i d]|]; cbn [Nat.ltb Nat.leb]; f_equal; lia.
  - cbn [send_recv]. destruct ans as [|[d|] rest].
    + rewrite IH. cbn [first_answer]. f_equal. lia.
    + cbn [first_answer]. replace ((0 <? S t)%nat) with true by reflexivity. f_equal. lia.
    + rewrite IH. cbn [first_answer]. destruct (first_answer rest) as [[i d]|].
      * change ((S i <? S t)%nat) with ((i <? t)%nat). destruct ((i <? t)%nat); f_equal; lia.
      * f_equal. lia.
Qed.

(** number of datagrams sent by one exchange: min(retry count, index of the first answer + 1) *)
Definition sends_spec (tries : nat) (ans : list (option bytes)) : nat :=
  match first_answer ans with Some (i, _) => Nat.min tries (S i) | None => tries end.

Lemma exchange_sends req buflen deser ans :
  fst (exchange req buflen deser ans) = sends_spec (N.to_nat retry_count) ans.
Proof.
  unfold exchange, sends_spec. rewrite send_recv_spec.
  destruct (first_answer ans) as [[i d]|]; [|reflexivity].
  destruct ((i <? N.to_nat retry_count)%nat) eqn:E; cbn [fst].
  - apply Nat.ltb_lt in E. lia.
  - apply Nat.ltb_ge in E. lia.
Qed.

Lemma sends_spec_le tries ans : (sends_spec tries ans <= tries)%nat.
Proof. unfold sends_spec. destruct (first_answer ans) as [[i d]|]; lia. Qed.

Lemma retry_is_three : N.to_nat retry_count = 3%nat.
Proof. reflexivity. Qed.

(** an exchange succeeds only on an answer to one of the first [retry_count] sends, whose received
    part passes the length guard and echoes the request's transaction id and action *)
Lemma exchange_accept req buflen op len tbl ans n fs payload :
  guard_known op = true ->
  exchange req buflen (deserialize op len tbl) ans = (n, Ok (fs, payload)) ->
  exists i d, first_answer ans = Some (i, d) /\ (i < N.to_nat retry_count)%nat /\ n = S i /\
    let data := firstn buflen d in
    (len <= length data)%nat /\ parse_fields tbl data = Some fs /\ payload = skipn len data /\
    get "transaction_id" fs = req "transaction_id"%key /\ get "action" fs = req "action"%key.
Proof.
  intros Hk. unfold exchange. rewrite send_recv_spec.
  destruct (first_answer ans) as [[i d]|]; [|intros H; discriminate].
  destruct ((i <? N.to_nat retry_count)%nat) eqn:E; [|intros H; discriminate].
  apply Nat.ltb_lt in E. cbn [Nat.add]. intros H.
  destruct (firstn buflen d) as [|x data'] eqn:Ed; [discriminate|]. rewrite <- Ed in *. clear Ed.
  injection H as <- H.
  destruct (deserialize op len tbl (firstn buflen d)) as [[fs' p']|e|] eqn:D; [|discriminate|discriminate].
  destruct (negb (get "transaction_id" fs' =? req "transaction_id"%key)
            || negb (get "action" fs' =? req "action"%key)) eqn:C; [discriminate|].
  injection H as <- <-.
  apply orb_false_iff in C. destruct C as [C1 C2].
  apply negb_false_iff, N.eqb_eq in C1. apply negb_false_iff, N.eqb_eq in C2.
  destruct (deserialize_ok _ _ _ _ _ _ Hk D) as (Hl & Hp & Hpay).
  exists i, d. repeat split; try assumption; lia.
Qed.

Lemma exchange_total req buflen deser ans :
  (forall b, deser b <> Panic) -> snd (exchange req buflen deser ans) <> Panic.
Proof.
  intros Ht. unfold exchange. destruct (send_recv (N.to_nat retry_count) ans buflen 0) as [sent data].
  cbn [snd]. destruct data as [|x data']; [discriminate|].
  specialize (Ht (x :: data')). destruct (deser (x :: data')) as [[fs p]|e|]; [|discriminate|congruence].
  destruct (_ || _); discriminate.
Qed.

(* ================================================================ compact peer lists *)

Lemma take_chunks_chunks s (Hs : (0 < s)%nat) : forall n (l : bytes),
  length l = (n * s)%nat -> take_chunks n s l = chunks s l.
Proof.
  induction n as [|n IH]; intros l Hl.
  - destruct l; [reflexivity|cbn in Hl; lia].
  - cbn [take_chunks]. rewrite <- (firstn_skipn s l) at 3.
    rewrite chunks_app_full; [|exact Hs|rewrite firstn_length; lia].
    f_equal. apply IH. rewrite skipn_length. lia.
Qed.

Lemma chunks_exact_spec s (Hs : (0 < s)%nat) (l : bytes) :
  (snd (chunks_exact s l) = [] <-> (length l mod s = 0)%nat) /\
  ((length l mod s = 0)%nat -> fst (chunks_exact s l) = chunks s l).
Proof.
  unfold chunks_exact. cbn [fst snd].
  pose proof (Nat.mod_upper_bound (length l) s ltac:(lia)) as Hm.
  pose proof (Nat.mod_le (length l) s ltac:(lia)) as Hle.
  split; [split|].
  - intros H. apply (f_equal (@length _)) in H. rewrite skipn_length in H. cbn in H. lia.
  - intros H. rewrite H. rewrite Nat.sub_0_r. apply skipn_all.
  - intros H. rewrite H, Nat.sub_0_r, firstn_all.
    apply take_chunks_chunks; [exact Hs|].
    pose proof (Nat.div_mod (length l) s ltac:(lia)) as Hd. lia.
Qed.

Lemma stride_ge2 v6 : (2 <= stride v6)%nat.
Proof. destruct v6; vm_compute; repeat constructor. Qed.

Lemma stride_values : stride false = 6%nat /\ stride true = 18%nat.
Proof. split; reflexivity. Qed.

(** the peers are exactly the stride-sized records of the payload, in order, and only when the
    payload is a whole number of records *)
Lemma peers_exact v6 p l :
  peers v6 p = Ok l <->
  (length p mod stride v6 = 0)%nat /\ l = map (record (stride v6)) (chunks (stride v6) p).
Proof.
  pose proof (stride_ge2 v6) as Hs. unfold peers.
  replace ((stride v6 <? 2)%nat) with false by (symmetry; apply Nat.ltb_ge; exact Hs).
  destruct (chunks_exact_spec (stride v6) ltac:(lia) p) as [Hr Hc].
  destruct (chunks_exact (stride v6) p) as [cs r]. cbn [fst snd] in *.
  destruct r as [|x r'].
  - assert (Hm : (length p mod stride v6 = 0)%nat) by (apply Hr; reflexivity).
    rewrite (Hc Hm). split.
    + intros H. injection H as <-. auto.
    + intros [_ ->]. reflexivity.
  - split; [discriminate|]. intros [Hm _]. apply Hr in Hm. discriminate.
Qed.

Lemma peers_ragged v6 p : peers v6 p = Fail FPeerList <-> (length p mod stride v6 <> 0)%nat.
Proof.
  pose proof (stride_ge2 v6) as Hs. unfold peers.
  replace ((stride v6 <? 2)%nat) with false by (symmetry; apply Nat.ltb_ge; exact Hs).
  destruct (chunks_exact_spec (stride v6) ltac:(lia) p) as [Hr _].
  destruct (chunks_exact (stride v6) p) as [cs r]. cbn [fst snd] in *.
  destruct r as [|x r'].
  - split; [discriminate|]. intros Hn. exfalso. apply Hn. apply Hr. reflexivity.
  - split; [|reflexivity]. intros _ Hm. apply Hr in Hm. discriminate.
Qed.

Lemma peers_total v6 p : peers v6 p <> Panic.
Proof.
  pose proof (stride_ge2 v6) as Hs. unfold peers.
  replace ((stride v6 <? 2)%nat) with false by (symmetry; apply Nat.ltb_ge; exact Hs).
  destruct (chunks_exact (stride v6) p) as [cs [|x r']]; discriminate.
Qed.

(** every record is [stride] bytes of the payload: the list of peers re-concatenates to it *)
Lemma peers_cover v6 p l : peers v6 p = Ok l ->
  concat (chunks (stride v6) p) = p /\ length l = (length p / stride v6)%nat /\
  Forall (fun c => length c = stride v6) (chunks (stride v6) p).
Proof.
  intros H. apply peers_exact in H. destruct H as [Hm ->].
  pose proof (stride_ge2 v6) as Hs.
  split; [apply concat_chunks; lia|]. split.
  - rewrite map_length, length_chunks by lia.
    pose proof (Nat.div_mod (length p) (stride v6) ltac:(lia)) as Hd. rewrite Hm in Hd.
    remember (length p / stride v6)%nat as q eqn:Eq. clear Eq.
    replace (length p + stride v6 - 1)%nat with (q * stride v6 + (stride v6 - 1))%nat by nia.
    rewrite Nat.div_add_l by lia. rewrite Nat.div_small by lia. lia.
  - remember (length p / stride v6)%nat as n eqn:En.
    assert (Hl : length p = (n * stride v6)%nat).
    { pose proof (Nat.div_mod (length p) (stride v6) ltac:(lia)) as Hd. lia. }
    clear En Hm. revert p Hl. induction n as [|n IH]; intros p Hl.
    + destruct p; [constructor|cbn in Hl; lia].
    + rewrite <- (firstn_skipn (stride v6) p).
      rewrite chunks_app_full; [|lia|rewrite firstn_length; lia].
      constructor; [rewrite firstn_length; lia|]. apply IH. rewrite skipn_length. lia.
Qed.

(* ================================================================ the two exchanges and the session *)

(** what BEP 15 asks of a reply header: long enough, the expected action, the request's transaction id *)
Definition valid_reply (hdr_len : nat) (action txid : N) (data : bytes) : Prop :=
  (hdr_len <= length data)%nat /\ unbe (slice 0 4 data) = action /\ unbe (slice 4 4 data) = txid.

Definition connect_buf : nat := N.to_nat connect_rx_buf_len.
Definition announce_buf : nat := N.to_nat rx_buf_len.

Lemma connect_buf_value : connect_buf = 16%nat.
Proof. reflexivity. Qed.

Lemma connect_accept txid ans n fs payload :
  connect_exchange txid ans = (n, Ok (fs, payload)) ->
  exists i d, first_answer ans = Some (i, d) /\ (i < 3)%nat /\ n = S i /\
    valid_reply 16 0 txid (firstn connect_buf d) /\
    get "connection_id" fs = unbe (slice 8 8 (firstn connect_buf d)).
Proof.
  unfold connect_exchange, deser_connect. intros H.
  apply exchange_accept in H; [|reflexivity].
  destruct H as (i & d & Hf & Hi & Hn & Hl & Hp & _ & Ht & Ha).
  exists i, d. fold connect_buf in Hl, Hp. split; [exact Hf|]. split; [exact Hi|]. split; [exact Hn|].
  destruct (parse_fields_get _ _ _ Hp "transaction_id"%key 4%nat 8%nat eq_refl) as (Gt & _).
  destruct (parse_fields_get _ _ _ Hp "action"%key 0%nat 4%nat eq_refl) as (Ga & _).
  destruct (parse_fields_get _ _ _ Hp "connection_id"%key 8%nat 16%nat eq_refl) as (Gc & _).
  split; [|exact Gc].
  split; [exact Hl|]. split.
  - change (slice 0 4 (firstn connect_buf d)) with (slice 0 (4 - 0) (firstn connect_buf d)).
    rewrite <- Ga, Ha. reflexivity.
  - change (slice 4 4 (firstn connect_buf d)) with (slice 4 (8 - 4) (firstn connect_buf d)).
    rewrite <- Gt, Ht. reflexivity.
Qed.

Lemma announce_accept conn port txid v6 ans n l :
  announce_exchange conn port txid v6 ans = (n, Ok l) ->
  exists i d, first_answer ans = Some (i, d) /\ (i < 3)%nat /\ n = S i /\
    valid_reply 20 1 txid (firstn announce_buf d) /\
    peers v6 (skipn 20 (firstn announce_buf d)) = Ok l.
Proof.
  unfold announce_exchange, deser_announce.
  destruct (exchange _ _ _ ans) as [n' r] eqn:E. intros H. injection H as -> H.
  destruct r as [[fs payload]|e|]; [|discriminate|discriminate].
  apply exchange_accept in E; [|reflexivity].
  destruct E as (i & d & Hf & Hi & Hn & Hl & Hp & Hpay & Ht & Ha).
  exists i, d. fold announce_buf in Hl, Hp, Hpay. split; [exact Hf|]. split; [exact Hi|]. split; [exact Hn|].
  destruct (parse_fields_get _ _ _ Hp "transaction_id"%key 4%nat 8%nat eq_refl) as (Gt & _).
  destruct (parse_fields_get _ _ _ Hp "action"%key 0%nat 4%nat eq_refl) as (Ga & _).
  split; [|subst payload; exact H].
  split; [exact Hl|]. split.
  - change (slice 0 4 (firstn announce_buf d)) with (slice 0 (4 - 0) (firstn announce_buf d)).
    rewrite <- Ga, Ha. reflexivity.
  - change (slice 4 4 (firstn announce_buf d)) with (slice 4 (8 - 4) (firstn announce_buf d)).
    rewrite <- Gt, Ht. reflexivity.
Qed.

(** completeness: a reply that satisfies BEP 15 is accepted *)
Lemma exchange_complete req buflen len tbl ans i d :
  tbl_within len tbl = true ->
  first_answer ans = Some (i, d) -> (i < N.to_nat retry_count)%nat ->
  (0 < len)%nat -> (len <= length (firstn buflen d))%nat ->
  (forall fs, parse_fields tbl (firstn buflen d) = Some fs ->
     get "transaction_id" fs = req "transaction_id"%key /\ get "action" fs = req "action"%key) ->
  exists fs, parse_fields tbl (firstn buflen d) = Some fs /\
    exchange req buflen (deserialize "lt" len tbl) ans = (S i, Ok (fs, skipn len (firstn buflen d))).
Proof.
  intros Hw Hf Hi Hlen Hl Hecho.
  destruct (parse_fields_total len tbl _ Hw Hl) as [fs Hfs].
  exists fs. split; [exact Hfs|].
  unfold exchange. rewrite send_recv_spec, Hf.
  replace ((i <? N.to_nat retry_count)%nat) with true by (symmetry; apply Nat.ltb_lt; exact Hi).
  cbn [Nat.add]. destruct (firstn buflen d) as [|x data'] eqn:Ed; [cbn in Hl; lia|]. rewrite <- Ed in *. clear Ed.
  unfold deserialize. change (guard_rejects "lt" len (length (firstn buflen d))) with ((length (firstn buflen d) <? len)%nat).
  replace ((length (firstn buflen d) <? len)%nat) with false by (symmetry; apply Nat.ltb_ge; exact Hl).
  rewrite Hfs. unfold tail_opt.
  replace ((len <=? length (firstn buflen d))%nat) with true by (symmetry; apply Nat.leb_le; exact Hl).
  destruct (Hecho fs Hfs) as [-> ->]. rewrite !N.eqb_refl. reflexivity.
Qed.

Lemma parse_fields_get' tbl buf fs name a b :
  parse_fields tbl buf = Some fs -> lookup_range name tbl = Some (a, b) ->
  get name fs = unbe (slice a (b - a) buf).
Proof. intros Hp Hl. exact (proj1 (parse_fields_get tbl buf fs Hp name a b Hl)). Qed.

Lemma connect_complete txid ans i d :
  first_answer ans = Some (i, d) -> (i < 3)%nat -> valid_reply 16 0 txid (firstn connect_buf d) ->
  exists fs payload, connect_exchange txid ans = (S i, Ok (fs, payload)) /\
    get "connection_id" fs = unbe (slice 8 8 (firstn connect_buf d)).
Proof.
  intros Hf Hi (Hl & Ha & Ht). unfold connect_exchange, deser_connect.
  destruct (exchange_complete (connect_ints txid) connect_buf 16 connect_response_fields ans i d
              eq_refl Hf Hi ltac:(lia) Hl) as (fs & Hp & He).
  - intros fs Hp.
    rewrite (parse_fields_get' _ _ _ "transaction_id"%key 4%nat 8%nat Hp eq_refl).
    rewrite (parse_fields_get' _ _ _ "action"%key 0%nat 4%nat Hp eq_refl).
    split; [exact Ht|exact Ha].
  - exists fs, (skipn 16 (firstn connect_buf d)). split; [exact He|].
    exact (parse_fields_get' _ _ _ "connection_id"%key 8%nat 16%nat Hp eq_refl).
Qed.

Lemma announce_complete conn port txid v6 ans i d :
  first_answer ans = Some (i, d) -> (i < 3)%nat -> valid_reply 20 1 txid (firstn announce_buf d) ->
  announce_exchange conn port txid v6 ans = (S i, peers v6 (skipn 20 (firstn announce_buf d))).
Proof.
  intros Hf Hi (Hl & Ha & Ht). unfold announce_exchange, deser_announce.
  destruct (exchange_complete (announce_ints conn port txid) announce_buf 20 announce_response_fields ans i d
              eq_refl Hf Hi ltac:(lia) Hl) as (fs & Hp & He).
  - intros fs Hp.
    rewrite (parse_fields_get' _ _ _ "transaction_id"%key 4%nat 8%nat Hp eq_refl).
    rewrite (parse_fields_get' _ _ _ "action"%key 0%nat 4%nat Hp eq_refl).
    split; [exact Ht|exact Ha].
  - change (N.to_nat rx_buf_len) with announce_buf.
    change (N.to_nat announce_response_length) with 20%nat. change announce_response_guard with "lt"%key.
    rewrite He. reflexivity.
Qed.

(** ---- the session ---- *)

(** never a crash, whatever arrives (every datagram, every length, every drop pattern) *)
Lemma session_total txid1 txid2 ih pid port v6 ans1 ans2 :
  r_result (session txid1 txid2 ih pid port v6 ans1 ans2) <> Panic.
Proof.
  unfold session.
  pose proof (exchange_total (connect_ints txid1) (N.to_nat connect_rx_buf_len) deser_connect ans1 deser_connect_total) as T1.
  unfold connect_exchange. destruct (exchange _ _ deser_connect ans1) as [n1 r1]. cbn [snd] in T1.
  destruct r1 as [[fs p]|e|]; [|cbn; discriminate|congruence].
  unfold announce_exchange.
  pose proof (exchange_total (announce_ints (get "connection_id" fs) port txid2) (N.to_nat rx_buf_len)
                deser_announce ans2 deser_announce_total) as T2.
  destruct (exchange _ _ deser_announce ans2) as [n2 r2]. cbn [snd] in T2. cbn [r_result].
  destruct r2 as [[fs2 p2]|e|]; [apply peers_total|discriminate|congruence].
Qed.

(** an unanswered request is sent at most three times; exactly min(3, index of first answer + 1) *)
Lemma session_sends txid1 txid2 ih pid port v6 ans1 ans2 :
  let r := session txid1 txid2 ih pid port v6 ans1 ans2 in
  r_connect_sends r = sends_spec 3 ans1 /\ (r_connect_sends r <= 3)%nat /\
  (r_announce_sends r = 0%nat \/ r_announce_sends r = sends_spec 3 ans2) /\ (r_announce_sends r <= 3)%nat.
Proof.
  intros r. subst r. unfold session, connect_exchange.
  pose proof (exchange_sends (connect_ints txid1) (N.to_nat connect_rx_buf_len) deser_connect ans1) as S1.
  destruct (exchange _ _ deser_connect ans1) as [n1 r1]. cbn [fst] in S1. rewrite retry_is_three in S1.
  pose proof (sends_spec_le 3 ans1) as L1. pose proof (sends_spec_le 3 ans2) as L2.
  destruct r1 as [[fs p]|e|]; cbn [r_connect_sends r_announce_sends]; try (repeat split; auto; lia).
  unfold announce_exchange.
  pose proof (exchange_sends (announce_ints (get "connection_id" fs) port txid2) (N.to_nat rx_buf_len) deser_announce ans2) as S2.
  destruct (exchange _ _ deser_announce ans2) as [n2 r2]. cbn [fst] in S2. rewrite retry_is_three in S2.
  cbn [r_connect_sends r_announce_sends]. repeat split; auto; lia.
Qed.

(** the announce is sent only after a valid connect reply and carries the connection id of that reply *)
Lemma session_connect_gate txid1 txid2 ih pid port v6 ans1 ans2 :
  let r := session txid1 txid2 ih pid port v6 ans1 ans2 in
  r_connect_dgram r = connect_req txid1 /\
  ((exists i d, first_answer ans1 = Some (i, d) /\ (i < 3)%nat /\
      valid_reply 16 0 txid1 (firstn connect_buf d) /\
      r_announce_dgram r = announce_req (unbe (slice 8 8 (firstn connect_buf d))) ih pid port txid2 /\
      (1 <= r_announce_sends r)%nat)
   \/ (r_announce_sends r = 0%nat /\ r_announce_dgram r = [] /\ exists e, r_result r = Fail e)).
Proof.
  intros r. subst r. unfold session.
  pose proof (exchange_total (connect_ints txid1) (N.to_nat connect_rx_buf_len) deser_connect ans1 deser_connect_total) as T1.
  fold (connect_exchange txid1 ans1) in T1.
  destruct (connect_exchange txid1 ans1) as [n1 r1] eqn:E. cbn [snd] in T1.
  destruct r1 as [[fs p]|e|]; [|split; [reflexivity|right; cbn; eauto]|congruence].
  destruct (connect_accept _ _ _ _ _ E) as (i & d & Hf & Hi & Hn & Hv & Hc).
  pose proof (exchange_sends (announce_ints (get "connection_id" fs) port txid2) (N.to_nat rx_buf_len) deser_announce ans2) as S2.
  unfold announce_exchange.
  destruct (exchange _ _ deser_announce ans2) as [n2 r2]. cbn [fst] in S2.
  cbn [r_connect_dgram r_announce_dgram r_announce_sends]. split; [reflexivity|]. left.
  exists i, d. rewrite Hc. repeat split; try assumption; try apply Hv.
  rewrite S2. unfold sends_spec. rewrite retry_is_three. destruct (first_answer ans2) as [[j dj]|]; lia.
Qed.

(** peers are reported only from an accepted announce reply, and they are exactly its records *)
Lemma session_peers txid1 txid2 ih pid port v6 ans1 ans2 l :
  r_result (session txid1 txid2 ih pid port v6 ans1 ans2) = Ok l ->
  exists i d, first_answer ans2 = Some (i, d) /\ (i < 3)%nat /\
    let data := firstn announce_buf d in
    valid_reply 20 1 txid2 data /\
    (length (skipn 20 data) mod stride v6 = 0)%nat /\
    l = map (record (stride v6)) (chunks (stride v6) (skipn 20 data)).
Proof.
  unfold session. destruct (connect_exchange txid1 ans1) as [n1 r1].
  destruct r1 as [[fs p]|e|]; [|cbn; discriminate|cbn; discriminate].
  destruct (announce_exchange (get "connection_id" fs) port txid2 v6 ans2) as [n2 r2] eqn:E.
  cbn [r_result]. intros ->.
  destruct (announce_accept _ _ _ _ _ _ _ E) as (i & d & Hf & Hi & _ & Hv & Hp).
  exists i, d. split; [exact Hf|]. split; [exact Hi|]. cbn zeta. split; [exact Hv|].
  apply peers_exact in Hp. exact Hp.
Qed.

(** a datagram that fits the receive buffer is seen whole *)
Lemma fits_buffer (d : bytes) : (length d <= announce_buf)%nat -> firstn announce_buf d = d.
Proof. intros H. apply firstn_all2. exact H. Qed.

(** honest trackers are understood: valid connect and announce replies (the latter a whole number
    of records and within the receive buffer) yield exactly the records of the announce reply *)
Lemma session_complete txid1 txid2 ih pid port v6 ans1 ans2 i1 d1 i2 d2 :
  first_answer ans1 = Some (i1, d1) -> (i1 < 3)%nat -> valid_reply 16 0 txid1 (firstn connect_buf d1) ->
  first_answer ans2 = Some (i2, d2) -> (i2 < 3)%nat -> valid_reply 20 1 txid2 d2 ->
  (length d2 <= announce_buf)%nat ->
  let r := session txid1 txid2 ih pid port v6 ans1 ans2 in
  r_connect_sends r = S i1 /\ r_announce_sends r = S i2 /\
  r_result r = peers v6 (skipn 20 d2) /\
  ((length d2 - 20) mod stride v6 = 0 ->
     r_result r = Ok (map (record (stride v6)) (chunks (stride v6) (skipn 20 d2))))%nat /\
  ((length d2 - 20) mod stride v6 <> 0 -> r_result r = Fail FPeerList)%nat.
Proof.
  intros Hf1 Hi1 Hv1 Hf2 Hi2 Hv2 Hfit r. subst r. unfold session.
  destruct (connect_complete txid1 ans1 i1 d1 Hf1 Hi1 Hv1) as (fs & p & -> & Hc).
  rewrite <- (fits_buffer d2 Hfit) in Hv2.
  rewrite (announce_complete (get "connection_id" fs) port txid2 v6 ans2 i2 d2 Hf2 Hi2 Hv2).
  rewrite (fits_buffer d2 Hfit). cbn [r_connect_sends r_announce_sends r_result].
  split; [reflexivity|]. split; [reflexivity|]. split; [reflexivity|].
  rewrite <- (skipn_length 20 d2). split.
  - intros Hm. apply peers_exact. auto.
  - intros Hm. apply peers_ragged. exact Hm.
Qed.

(** UDP: the length field of a datagram is 16 bits and counts the 8-byte UDP header, so no payload
    exceeds 65527 bytes (65507 over IPv4, whose header takes another 20). This is the bound every
    datagram a socket can deliver satisfies; it is a fact about UDP, used as a named hypothesis. *)
Definition max_udp_payload : nat := N.to_nat 65527.
Definition udp_deliverable (d : bytes) : Prop := (length d <= max_udp_payload)%nat.

(** the receive buffer (RX_BUF_LEN, regenerated from the source) holds any such datagram *)
Lemma buffer_holds_any_datagram : (max_udp_payload <= announce_buf)%nat.
Proof.
  unfold max_udp_payload, announce_buf.
  assert (H : 65527 <= rx_buf_len) by (vm_compute; discriminate).
  lia.
Qed.

Lemma deliverable_fits d : udp_deliverable d -> firstn announce_buf d = d.
Proof.
  intros H. apply fits_buffer. unfold udp_deliverable in H.
  pose proof buffer_holds_any_datagram as Hb. lia.
Qed.

(** what would happen beyond the buffer (no UDP datagram gets there): the client sees a prefix *)
Lemma beyond_buffer_truncated (d : bytes) :
  (announce_buf <= length d)%nat -> length (firstn announce_buf d) = announce_buf.
Proof. intros H. apply firstn_length_le. exact H. Qed.

(* ================================================================ what is printed *)

Lemma printed_each_once l :
  NoDup (printed l) /\ (forall p, In p (printed l) <-> In p l).
Proof. unfold printed. split; [apply NoDup_nodup|intros p; apply nodup_In]. Qed.

(* ================================================================ tracker URL screening *)

Lemma screen_spec scheme host port :
  (screen scheme host port = Usable <-> scheme = "udp"%key /\ host = true /\ port = true) /\
  (scheme <> "udp"%key -> screen scheme host port = SkipNotUdp) /\
  (scheme = "udp"%key -> host && port = false -> screen scheme host port = SkipNoHostPort).
Proof.
  unfold screen. change udp_scheme with "udp"%key.
  destruct (key_eqb scheme "udp") eqn:E; cbn [negb].
  - apply key_eqb_eq in E. subst scheme. split; [|split].
    + destruct host, port; cbn; split; intros H; try discriminate; auto; destruct H as (_ & ? & ?); discriminate.
    + intros H. congruence.
    + intros _ ->. reflexivity.
  - apply key_eqb_neq in E. split; [|split].
    + split; [discriminate|]. intros [H _]. congruence.
    + reflexivity.
    + intros H. congruence.
Qed.

(* ================================================================ headline and instances *)

(** for every datagram UDP can deliver: valid connect and announce replies yield exactly the
    records of the whole announce reply *)
Lemma session_exact txid1 txid2 ih pid port v6 ans1 ans2 i1 d1 i2 d2 :
  udp_deliverable d2 ->
  first_answer ans1 = Some (i1, d1) -> (i1 < 3)%nat -> valid_reply 16 0 txid1 (firstn connect_buf d1) ->
  first_answer ans2 = Some (i2, d2) -> (i2 < 3)%nat -> valid_reply 20 1 txid2 d2 ->
  ((length d2 - 20) mod stride v6 = 0)%nat ->
  r_result (session txid1 txid2 ih pid port v6 ans1 ans2) =
    Ok (map (record (stride v6)) (chunks (stride v6) (skipn 20 d2))).
Proof.
  intros Hu Hf1 Hi1 Hv1 Hf2 Hi2 Hv2 Hm. unfold udp_deliverable in Hu.
  pose proof buffer_holds_any_datagram as Hb.
  destruct (session_complete txid1 txid2 ih pid port v6 ans1 ans2 i1 d1 i2 d2 Hf1 Hi1 Hv1 Hf2 Hi2 Hv2 ltac:(lia))
    as (_ & _ & _ & H & _).
  exact (H Hm).
Qed.

(** and conversely nothing but those records, stated on the datagram itself *)
Lemma session_peers_deliverable txid1 txid2 ih pid port v6 ans1 ans2 l :
  (forall i d, first_answer ans2 = Some (i, d) -> udp_deliverable d) ->
  r_result (session txid1 txid2 ih pid port v6 ans1 ans2) = Ok l ->
  exists i d, first_answer ans2 = Some (i, d) /\ (i < 3)%nat /\
    valid_reply 20 1 txid2 d /\
    (length (skipn 20 d) mod stride v6 = 0)%nat /\
    l = map (record (stride v6)) (chunks (stride v6) (skipn 20 d)).
Proof.
  intros Hu H. destruct (session_peers _ _ _ _ _ _ _ _ _ H) as (i & d & Hf & Hi & Hrest).
  exists i, d. split; [exact Hf|]. split; [exact Hi|].
  cbn zeta in Hrest. rewrite (deliverable_fits d (Hu i d Hf)) in Hrest. exact Hrest.
Qed.

(** a concrete honest exchange: connect answered on the 2nd send, announce on the 3rd, two IPv4 peers
    (one listed twice) *)
Definition ex_connect_reply : bytes := be 4 0 ++ be 4 5 ++ be 8 99.
Definition ex_announce_reply : bytes :=
  be 4 1 ++ be 4 7 ++ be 4 1800 ++ be 4 0 ++ be 4 2 ++ [10; 0; 0; 1] ++ be 2 6881 ++ [10; 0; 0; 2] ++ be 2 51413
  ++ [10; 0; 0; 1] ++ be 2 6881.

Lemma example_session :
  let r := session 5 7 (repeat 1 20) (repeat 2 20) 40000 false
                   [None; Some ex_connect_reply] [None; None; Some ex_announce_reply] in
  r_connect_sends r = 2%nat /\ r_announce_sends r = 3%nat /\
  slice 0 8 (r_announce_dgram r) = be 8 99 /\
  r_result r = Ok [([10; 0; 0; 1], 6881); ([10; 0; 0; 2], 51413); ([10; 0; 0; 1], 6881)] /\
  printed [([10; 0; 0; 1], 6881); ([10; 0; 0; 2], 51413); ([10; 0; 0; 1], 6881)]
    = [([10; 0; 0; 2], 51413); ([10; 0; 0; 1], 6881)].
Proof. vm_compute. repeat split. Qed.

Lemma example_valid_replies :
  first_answer [None; Some ex_connect_reply] = Some (1%nat, ex_connect_reply) /\
  valid_reply 16 0 5 (firstn connect_buf ex_connect_reply) /\
  first_answer [None; None; Some ex_announce_reply] = Some (2%nat, ex_announce_reply) /\
  valid_reply 20 1 7 ex_announce_reply /\ udp_deliverable ex_announce_reply /\
  ((length ex_announce_reply - 20) mod stride false = 0)%nat.
Proof.
  split; [reflexivity|]. split.
  { unfold valid_reply. split; [apply Nat.leb_le; reflexivity|split; reflexivity]. }
  split; [reflexivity|]. split.
  { unfold valid_reply. split; [apply Nat.leb_le; reflexivity|split; reflexivity]. }
  split; [|reflexivity].
  unfold udp_deliverable. apply Nat.leb_le. vm_compute. reflexivity.
Qed.

(** rejected replies: stale transaction id, error action, truncated header, ragged peer list, empty datagram *)
Lemma example_rejections :
  let run d := r_result (session 5 7 (repeat 1 20) (repeat 2 20) 40000 false [Some ex_connect_reply] [Some d]) in
  run (be 4 1 ++ be 4 8 ++ repeat 0 12) = Fail FResponse /\
  run (be 4 3 ++ be 4 7 ++ repeat 0 12) = Fail FResponse /\
  run (be 4 1 ++ be 4 7 ++ repeat 0 11) = Fail FResponse /\
  run (be 4 1 ++ be 4 7 ++ repeat 0 12 ++ [10; 0; 0; 1; 26]) = Fail FPeerList /\
  run [] = Fail FNoAnswer /\
  r_result (session 5 7 (repeat 1 20) (repeat 2 20) 40000 false [Some (be 4 0 ++ be 4 6 ++ be 8 99)] [Some ex_announce_reply])
    = Fail FResponse.
Proof. vm_compute. repeat split. Qed.
