(** Proofs about Model/CreateFs.v (C09): frame conditions of `torrent create`, the
    write target, the output path rule. *)
From Coq Require Import NArith List Bool Lia.
From Imdl Require Import Model.CreateFs.
Import ListNotations.
Local Open Scope N_scope.
Opaque FUEL.
Arguments final_target : simpl never.
Arguments from_create : simpl never.
Arguments out_path : simpl never.
Arguments path_exists : simpl never.
Arguments open_trunc : simpl never.
Arguments open_excl : simpl never.
Arguments N.ltb : simpl never.
Arguments N.eqb : simpl never.
Arguments is_pow2 : simpl never.

(* ---------- equality ---------- *)
Lemma list_eqb_eq {A} (eqb : A -> A -> bool) (H : forall x y, eqb x y = true <-> x = y) :
  forall a b, list_eqb eqb a b = true <-> a = b.
Proof.
  induction a as [|x a IH]; destruct b as [|y b]; cbn; try (split; congruence).
  rewrite andb_true_iff, H, IH. split.
  - intros [Hx Hy]; subst; reflexivity.
  - intros E; inversion E; auto.
Qed.

Lemma bytes_eqb_eq : forall a b, bytes_eqb a b = true <-> a = b.
Proof. apply list_eqb_eq. intros x y; apply N.eqb_eq. Qed.
Lemma path_eqb_eq : forall a b, path_eqb a b = true <-> a = b.
Proof. apply list_eqb_eq. exact bytes_eqb_eq. Qed.
Lemma path_eqb_refl : forall a, path_eqb a a = true.
Proof. intros a; apply path_eqb_eq; reflexivity. Qed.
Lemma path_eqb_neq : forall a b, a <> b -> path_eqb a b = false.
Proof. intros a b H. destruct (path_eqb a b) eqn:E; [apply path_eqb_eq in E; contradiction|reflexivity]. Qed.

Lemma lookup_update_same : forall fs p n, lookup (update fs p n) p = Some n.
Proof. intros; cbn. rewrite path_eqb_refl; reflexivity. Qed.
Lemma lookup_update_other : forall fs p q n, q <> p -> lookup (update fs q n) p = lookup fs p.
Proof. intros fs p q n H; cbn. rewrite (path_eqb_neq _ _ H); reflexivity. Qed.

(* ---------- kernel resolution ---------- *)
Lemma kres_absent : forall fuel fs fl cur p q,
  kres fuel fs fl cur p = RAbsent q -> lookup fs q = None.
Proof.
  induction fuel as [|k IH]; intros fs fl cur p q H; cbn in H; [discriminate|].
  destruct p as [|c r].
  - destruct cur as [|c0 cur']; [discriminate|].
    destruct (lookup fs (c0 :: cur')) eqn:E; inversion H; subst; exact E.
  - destruct (is_dotdot c); [eauto|].
    destruct (lookup fs (cur ++ [c])) as [[b| |t]|] eqn:E.
    + destruct (is_nil r); discriminate.
    + eauto.
    + destruct (is_nil r && negb fl); [discriminate | eauto].
    + destruct (is_nil r); [inversion H; subst; exact E | discriminate].
Qed.

Lemma kres_node : forall fuel fs fl cur p q n,
  kres fuel fs fl cur p = RNode q n -> (q = [] /\ n = NDir) \/ lookup fs q = Some n.
Proof.
  induction fuel as [|k IH]; intros fs fl cur p q n H; cbn in H; [discriminate|].
  destruct p as [|c r].
  - destruct cur as [|c0 cur']; [inversion H; auto|].
    destruct (lookup fs (c0 :: cur')) eqn:E; inversion H; subst; right; exact E.
  - destruct (is_dotdot c); [eauto|].
    destruct (lookup fs (cur ++ [c])) as [[b| |t]|] eqn:E.
    + destruct (is_nil r); [inversion H; subst; right; exact E | discriminate].
    + eauto.
    + destruct (is_nil r && negb fl); [inversion H; subst; right; exact E | eauto].
    + destruct (is_nil r); discriminate.
Qed.

Lemma open_excl_absent : forall fs p q, open_excl fs p = Some q -> lookup fs q = None.
Proof.
  unfold open_excl, sys_lstat; intros fs p q H.
  destruct (kres FUEL fs false [] p) eqn:E; try discriminate.
  inversion H; subst. eapply kres_absent; exact E.
Qed.

(** create+truncate only ever creates a new entry or replaces a regular file *)
Lemma open_trunc_target : forall fs p q, open_trunc fs p = Some q ->
  lookup fs q = None \/ exists b, lookup fs q = Some (NFile b).
Proof.
  unfold open_trunc, sys_stat; intros fs p q H.
  destruct (kres FUEL fs true [] p) as [q' n|q'|] eqn:E; try discriminate.
  - destruct n as [b| |t]; try discriminate. inversion H; subst.
    destruct (kres_node _ _ _ _ _ _ _ E) as [[_ Hd]|Hl]; [discriminate|]. right; eauto.
  - inversion H; subst. left; eapply kres_absent; exact E.
Qed.

Lemma kres_stat_lstat : forall fuel fs cur p q b q',
  kres fuel fs true cur p = RNode q (NFile b) -> kres fuel fs false cur p = RAbsent q' -> False.
Proof.
  induction fuel as [|k IH]; intros fs cur p q b q' H E; cbn in *; [discriminate|].
  destruct p as [|c r].
  - destruct cur as [|c0 cur']; [discriminate|]. destruct (lookup fs (c0 :: cur')); discriminate.
  - destruct (is_dotdot c); [eauto|].
    destruct (lookup fs (cur ++ [c])) as [[b'| |t]|].
    + destruct (is_nil r); discriminate.
    + eauto.
    + destruct (is_nil r); cbn in *; [discriminate | eauto].
    + destruct (is_nil r); discriminate.
Qed.

(** the file `exists()` saw is the one create+truncate would replace, and create_new refuses *)
Lemma exists_file_trunc : forall fs p q b,
  sys_stat fs p = RNode q (NFile b) -> open_trunc fs p = Some q /\ open_excl fs p = None.
Proof.
  intros fs p q b H. split; [unfold open_trunc; rewrite H; reflexivity|].
  unfold open_excl. destruct (sys_lstat fs p) eqn:E; try reflexivity.
  exfalso. unfold sys_stat, sys_lstat in *. eapply kres_stat_lstat; eauto.
Qed.

(* ---------- frame conditions of create ---------- *)
Definition write_open (c : cfg) (fs : fsT) (p : path) : option path :=
  if c_force c then open_trunc fs p else open_excl fs p.
Arguments write_open : simpl never.

Lemma do_write_cases : forall c fs t fs1 w, do_write c fs t = (fs1, w) ->
  (fs1 = fs /\ w <> Some EWriteIO) \/
  (exists p q, t = TPath p /\ write_open c fs p = Some q /\
     ((w = None /\ fs1 = update fs q (NFile (c_torrent c))) \/
      (w = Some EWriteIO /\ fs1 = update fs q (NFile [])))).
Proof.
  intros c fs t fs1 w H. destruct t as [|p]; cbn in H.
  - inversion H; subst. left; split; [reflexivity|]. destruct (f_stdout c); discriminate.
  - fold (write_open c fs p) in H. destruct (write_open c fs p) as [q|] eqn:E.
    + right. exists p, q. split; [reflexivity|]. split; [exact E|].
      destruct (f_write_io c); inversion H; subst; auto.
    + inversion H; subst. left; split; [reflexivity|discriminate].
Qed.

Lemma from_create_not_writeio : forall c fs, from_create c fs <> inl EWriteIO.
Proof.
  intros c fs. unfold from_create.
  destruct (c_input c) as [itext|].
  - destruct (f_glob c); [discriminate|].
    destruct (sys_lstat fs _) as [q ln|q|]; try discriminate.
    destruct (match ln with NLink _ => negb (c_follow c) | _ => false end); [discriminate|].
    destruct (sys_stat fs _) as [q' n|q'|]; try discriminate.
    destruct (match n with NDir => f_walk c | _ => false end); [discriminate|].
    destruct (rev _) as [|fname rest]; [discriminate|].
    destruct (c_name c) as [nm|].
    + destruct (negb (name_ok nm)); discriminate.
    + destruct (f_name_decode c); [discriminate|]. destruct (negb (name_ok fname)); discriminate.
  - destruct (c_name c) as [nm|]; [|discriminate].
    destruct (negb (name_ok nm)); [discriminate|].
    destruct (c_output c) as [[|t]|]; discriminate.
Qed.

(** what a run can do to the filesystem, in one statement *)
Lemma create_fx_cases : forall c fs,
  (fst (create_fx c fs) = fs /\ snd (create_fx c fs) <> CFail EWriteIO /\
     (snd (create_fx c fs) = CSuccess -> c_dry_run c = false -> out_path c fs = None)) \/
  (c_dry_run c = false /\ exists p q, out_path c fs = Some p /\ write_open c fs p = Some q /\
     (negb (c_force c) && path_exists fs p = false) /\
     ((fst (create_fx c fs) = update fs q (NFile (c_torrent c)) /\
         (snd (create_fx c fs) = CSuccess \/ snd (create_fx c fs) = CFail EPost)) \/
      (fst (create_fx c fs) = update fs q (NFile []) /\ snd (create_fx c fs) = CFail EWriteIO))).
Proof.
  intros c fs. unfold create_fx, out_path.
  destruct (f_clap c); [left; cbn; repeat split; discriminate|].
  destruct (f_tier c); [left; cbn; repeat split; discriminate|].
  destruct (f_private c); [left; cbn; repeat split; discriminate|].
  destruct (final_target c fs) as [e|[nm t]] eqn:Ft.
  { left; cbn. split; [reflexivity|]. split; [|discriminate].
    (* the failure stages of from_create are never EWriteIO *)
    intros H; inversion H; subst. unfold final_target in Ft.
    destruct (from_create c fs) as [e|[nm [o|]]] eqn:Fc; try discriminate.
    inversion Ft; subst. eapply from_create_not_writeio; eauto. }
  destruct (c_piece_length c =? 0); [left; cbn; repeat split; discriminate|].
  destruct (negb (c_allow_uneven c) && negb (is_pow2 (c_piece_length c))); [left; cbn; repeat split; discriminate|].
  destruct (negb (c_allow_small c) && (c_piece_length c <? 16384)); [left; cbn; repeat split; discriminate|].
  destruct (match t with TPath p => negb (c_force c) && path_exists fs p | TStdout => false end) eqn:Ex;
    [left; cbn; repeat split; discriminate|].
  destruct (4294967295 <? c_piece_length c); [left; cbn; repeat split; discriminate|].
  destruct (f_read c); [left; cbn; repeat split; discriminate|].
  destruct (f_serialize c); [left; cbn; repeat split; discriminate|].
  destruct (c_dry_run c) eqn:Dr.
  { left. destruct (f_post c); cbn; repeat split; try discriminate. }
  destruct (do_write c fs t) as [fs1 w] eqn:W.
  destruct (do_write_cases _ _ _ _ _ W) as [[-> Hw]|(p & q & -> & Ho & Hc)].
  - left. destruct w as [e|].
    + cbn; repeat split; try discriminate. intros H; inversion H; subst; apply Hw; reflexivity.
    + destruct t as [|p]; cbn in W.
      * destruct (f_post c); cbn; repeat split; try discriminate.
      * fold (write_open c fs p) in W. destruct (write_open c fs p).
        -- destruct (f_write_io c); inversion W. exfalso. eapply (n_Sn 0).
           (* update fs q _ = fs is impossible: lengths differ *)
           apply (f_equal (@length _)) in H0. cbn in H0. symmetry in H0. lia.
        -- inversion W.
  - right. split; [reflexivity|]. exists p, q. repeat split; try assumption.
    destruct Hc as [[-> ->]|[-> ->]].
    + left. destruct (f_post c); cbn; auto.
    + right. cbn; auto.
Qed.

Theorem dry_run_frame : forall c fs, c_dry_run c = true -> fst (create_fx c fs) = fs.
Proof.
  intros c fs H. destruct (create_fx_cases c fs) as [[E _]|[D _]]; [exact E|congruence].
Qed.

Theorem fail_frame : forall c fs e,
  snd (create_fx c fs) = CFail e -> e <> EWriteIO -> e <> EPost -> fst (create_fx c fs) = fs.
Proof.
  intros c fs e H H1 H2.
  destruct (create_fx_cases c fs) as [[E _]|[_ (p & q & _ & _ & _ & [[_ [S|S]]|[_ S]])]];
    [exact E| | |]; rewrite S in H; inversion H; subst; contradiction.
Qed.

(** without --force nothing that exists is ever changed, whatever else happens *)
Theorem no_clobber_frame : forall c fs, c_force c = false ->
  forall p n, lookup fs p = Some n -> lookup (fst (create_fx c fs)) p = Some n.
Proof.
  intros c fs Hf p n Hp.
  destruct (create_fx_cases c fs) as [[E _]|[_ (o & q & _ & Ho & _ & Hc)]]; [rewrite E; exact Hp|].
  unfold write_open in Ho. rewrite Hf in Ho. apply open_excl_absent in Ho.
  assert (q <> p) by (intros ->; congruence).
  destruct Hc as [[-> _]|[-> _]]; rewrite lookup_update_other; assumption.
Qed.

(** ... and when something is present at the output path the command fails, with the
    filesystem exactly as it was *)
Theorem no_clobber_fails : forall c fs p, c_force c = false ->
  out_path c fs = Some p -> path_exists fs p = true ->
  fst (create_fx c fs) = fs /\ exists e, snd (create_fx c fs) = CFail e /\ e <> EWriteIO /\ e <> EPost.
Proof.
  intros c fs p Hf Ho Hex.
  destruct (create_fx_cases c fs) as [[E [Hw Hs]]|[_ (o & q & Ho' & _ & Hne & _)]].
  - split; [exact E|]. unfold create_fx in *. unfold out_path in Ho.
    destruct (f_clap c); [eexists; cbn; repeat split; discriminate|].
    destruct (f_tier c); [eexists; cbn; repeat split; discriminate|].
    destruct (f_private c); [eexists; cbn; repeat split; discriminate|].
    destruct (final_target c fs) as [e|[nm [|t]]]; try discriminate. inversion Ho; subst.
    destruct (c_piece_length c =? 0); [eexists; cbn; repeat split; discriminate|].
    destruct (negb (c_allow_uneven c) && negb (is_pow2 (c_piece_length c))); [eexists; cbn; repeat split; discriminate|].
    destruct (negb (c_allow_small c) && (c_piece_length c <? 16384)); [eexists; cbn; repeat split; discriminate|].
    rewrite Hf, Hex. cbn. eexists; repeat split; discriminate.
  - rewrite Ho in Ho'. inversion Ho'; subst. rewrite Hf, Hex in Hne. discriminate.
Qed.

(** success without --dry-run: exactly one entry is new or replaced, it is a regular file
    holding the metainfo, at the place the open of the output path designates *)
Theorem success_exactly_one : forall c fs,
  snd (create_fx c fs) = CSuccess -> c_dry_run c = false ->
  (out_path c fs = None /\ fst (create_fx c fs) = fs) \/
  (exists p q, out_path c fs = Some p /\ write_open c fs p = Some q /\
     fst (create_fx c fs) = update fs q (NFile (c_torrent c)) /\
     lookup (fst (create_fx c fs)) q = Some (NFile (c_torrent c)) /\
     (forall r, r <> q -> lookup (fst (create_fx c fs)) r = lookup fs r) /\
     (lookup fs q = None \/ exists b, lookup fs q = Some (NFile b))).
Proof.
  intros c fs Hs Hd.
  destruct (create_fx_cases c fs) as [[E [_ Hn]]|[_ (p & q & Ho & Hw & _ & Hc)]].
  - left; split; [apply Hn; assumption|exact E].
  - right. exists p, q. destruct Hc as [[E _]|[_ S]]; [|congruence].
    rewrite E. repeat split; try assumption.
    + apply lookup_update_same.
    + intros r Hr. apply lookup_update_other; congruence.
    + unfold write_open in Hw. destruct (c_force c).
      * apply open_trunc_target in Hw; exact Hw.
      * left; eapply open_excl_absent; exact Hw.
Qed.

(** every path whose entry differs afterwards is the write target; in particular nothing
    under the input content other than an output path the user pointed there *)
Theorem only_target_changes : forall c fs r,
  lookup (fst (create_fx c fs)) r <> lookup fs r ->
  c_dry_run c = false /\ exists p, out_path c fs = Some p /\ write_open c fs p = Some r.
Proof.
  intros c fs r H.
  destruct (create_fx_cases c fs) as [[E _]|[D (p & q & Ho & Hw & _ & Hc)]]; [rewrite E in H; contradiction|].
  split; [exact D|]. exists p; split; [exact Ho|].
  destruct (list_eq_dec (list_eq_dec N.eq_dec) q r) as [->|Hn]; [exact Hw|].
  exfalso; apply H. destruct Hc as [[-> _]|[-> _]]; apply lookup_update_other; assumption.
Qed.

Definition is_under (root p : path) : Prop := exists s, p = root ++ s.

Theorem input_untouched : forall c fs root r,
  is_under root r ->
  (forall p q, out_path c fs = Some p -> write_open c fs p = Some q -> ~ is_under root q) ->
  lookup (fst (create_fx c fs)) r = lookup fs r.
Proof.
  intros c fs root r Hu Hout.
  assert (Dec : forall a b : option node, {a = b} + {a <> b}) by (repeat decide equality).
  destruct (Dec (lookup (fst (create_fx c fs)) r) (lookup fs r)) as [E|N]; [exact E|].
  destruct (only_target_changes _ _ _ N) as [_ (p & Ho & Hw)].
  exfalso; eapply Hout; eauto.
Qed.

(* ---------- verify / show / link ---------- *)
Theorem readonly : forall k m content good fs, fst (readonly_fx k m content good fs) = fs.
Proof.
  intros k m content good fs. unfold readonly_fx.
  destruct (negb (readable fs m)); [reflexivity|]. destruct k; reflexivity.
Qed.

(* ---------- lexiclean ---------- *)
Lemma clean_run_app : forall abs st a b, clean_run abs st (a ++ b) = clean_run abs (clean_run abs st a) b.
Proof. intros; unfold clean_run; apply fold_left_app. Qed.

Lemma clean_step_rev_false : forall st r c,
  clean_run true st (rev (clean_step false r c)) = clean_step true (clean_run true st (rev r)) c.
Proof.
  intros st r c. unfold clean_step at 1.
  destruct (is_dotdot c) eqn:Dc.
  - destruct r as [|l0 r0].
    + cbn. reflexivity.
    + destruct (is_dotdot l0) eqn:Dl.
      * cbn [rev]. rewrite clean_run_app. reflexivity.
      * cbn [rev]. rewrite clean_run_app. cbn. unfold clean_step at 2. rewrite Dl.
        unfold clean_step. rewrite Dc, Dl. reflexivity.
  - cbn [rev]. rewrite clean_run_app. reflexivity.
Qed.

(** cleaning a relative path first and then under an absolute prefix = cleaning once *)
Lemma clean_rel_then_abs : forall l r st,
  clean_run true st (rev (clean_run false r l)) = clean_run true (clean_run true st (rev r)) l.
Proof.
  induction l as [|c l IH]; intros r st; [reflexivity|].
  cbn [clean_run fold_left]. fold (clean_run false (clean_step false r c) l).
  rewrite IH, clean_step_rev_false. reflexivity.
Qed.

Lemma clean_step_rev_true : forall r c,
  clean_run true [] (rev (clean_step true r c)) = clean_step true (clean_run true [] (rev r)) c.
Proof.
  intros r c. unfold clean_step at 1.
  destruct (is_dotdot c) eqn:Dc.
  - destruct r as [|l0 r0].
    + cbn. unfold clean_step. rewrite Dc. reflexivity.
    + destruct (is_dotdot l0) eqn:Dl.
      * cbn [rev]. rewrite clean_run_app. reflexivity.
      * cbn [rev]. rewrite clean_run_app. cbn. unfold clean_step at 2. rewrite Dl.
        unfold clean_step. rewrite Dc, Dl. reflexivity.
  - cbn [rev]. rewrite clean_run_app. reflexivity.
Qed.

Lemma clean_abs_idem : forall l r,
  clean_run true [] (rev (clean_run true r l)) = clean_run true (clean_run true [] (rev r)) l.
Proof.
  induction l as [|c l IH]; intros r; [reflexivity|].
  cbn [clean_run fold_left]. fold (clean_run true (clean_step true r c) l).
  rewrite IH, clean_step_rev_true. reflexivity.
Qed.

Lemma clean_abs_no_dotdot : forall l st,
  Forall (fun c => is_dotdot c = false) st -> Forall (fun c => is_dotdot c = false) (clean_run true st l).
Proof.
  induction l as [|c l IH]; intros st H; [exact H|].
  cbn [clean_run fold_left]. apply IH. unfold clean_step.
  destruct (is_dotdot c) eqn:Dc.
  - destruct st as [|l0 r0]; [constructor|]. inversion H; subst.
    destruct (is_dotdot l0); [congruence|assumption].
  - constructor; assumption.
Qed.

(* ---------- plain names ---------- *)
(** [name_ok] (one normal path component) in particular excludes the separator *)
Lemma name_ok_no_sep : forall s, name_ok s = true -> no_sep s = true.
Proof. intros s H. unfold name_ok in H. apply andb_true_iff in H. exact (proj2 H). Qed.

Lemma name_ok_facts : forall s, name_ok s = true ->
  s <> [] /\ is_dot s = false /\ is_dotdot s = false /\ no_sep s = true.
Proof.
  intros s H. unfold name_ok in H.
  apply andb_true_iff in H. destruct H as [H H4]. apply andb_true_iff in H. destruct H as [H H3].
  apply andb_true_iff in H. destruct H as [H1 H2]. apply negb_true_iff in H1, H2, H3.
  repeat split; try assumption. intros ->. discriminate.
Qed.

Lemma split_noslash : forall s cur, no_sep s = true -> split_slash s cur = [rev cur ++ s].
Proof.
  unfold no_sep. induction s as [|b r IH]; intros cur H; cbn in *.
  - rewrite app_nil_r; reflexivity.
  - apply andb_true_iff in H. destruct H as [Hb Hr]. apply negb_true_iff in Hb. rewrite Hb.
    rewrite IH by assumption. cbn [rev]. rewrite <- app_assoc. reflexivity.
Qed.

Lemma bytes_eqb_length : forall a b, bytes_eqb a b = true -> length a = length b.
Proof. intros a b H. apply bytes_eqb_eq in H. subst; reflexivity. Qed.

Lemma name_torrent_normal : forall nm,
  is_nil (name_torrent nm) = false /\ is_dot (name_torrent nm) = false /\ is_dotdot (name_torrent nm) = false.
Proof.
  intros nm. unfold name_torrent. repeat split.
  - destruct nm; reflexivity.
  - destruct (is_dot _) eqn:E; [|reflexivity]. apply bytes_eqb_length in E.
    rewrite app_length in E. cbn in E. lia.
  - destruct (is_dotdot _) eqn:E; [|reflexivity]. apply bytes_eqb_length in E.
    rewrite app_length in E. cbn in E. lia.
Qed.

Lemma parse_plain : forall nm, no_sep nm = true ->
  parse_path (name_torrent nm) = {| p_abs := false; p_comps := [name_torrent nm] |}.
Proof.
  intros nm H. unfold parse_path.
  assert (Hp : no_sep (name_torrent nm) = true).
  { unfold no_sep, name_torrent. rewrite forallb_app. fold (no_sep nm). rewrite H. reflexivity. }
  rewrite split_noslash by assumption. cbn [rev app filter].
  destruct (name_torrent_normal nm) as (H1 & H2 & _). rewrite H1, H2. cbn [negb andb].
  f_equal. unfold name_torrent in *. destruct nm as [|b r]; [reflexivity|].
  cbn in H. apply andb_true_iff in H. destruct H as [Hb _]. apply negb_true_iff in Hb. exact Hb.
Qed.

(* ---------- the output path rule ---------- *)
(** an explicit --output is resolved against the working directory *)
Theorem rule_explicit : forall c fs nm o t,
  from_create c fs = inr (nm, Some o) -> c_output c = Some (OPath t) -> o = parse_path t.
Proof.
  intros c fs nm o t H Ho. unfold from_create in H. rewrite Ho in H.
  destruct (c_input c) as [itext|].
  - destruct (f_glob c); [discriminate|].
    destruct (sys_lstat fs _) as [q ln|q|]; try discriminate.
    destruct (match ln with NLink _ => negb (c_follow c) | _ => false end); [discriminate|].
    destruct (sys_stat fs _) as [q' n|q'|]; try discriminate.
    destruct (match n with NDir => f_walk c | _ => false end); [discriminate|].
    destruct (rev _) as [|fname rest]; [discriminate|].
    destruct (c_name c) as [nm'|].
    + destruct (negb (name_ok nm')); [discriminate|inversion H; reflexivity].
    + destruct (f_name_decode c); [discriminate|].
      destruct (negb (name_ok fname)); [discriminate|inversion H; reflexivity].
  - destruct (c_name c) as [nm'|]; [|discriminate].
    destruct (negb (name_ok nm')); [discriminate|inversion H; reflexivity].
Qed.

(** the name check: whatever from_create lets through - given with --name or taken from the
    input's file name - is exactly one normal path component *)
Theorem accepted_name_ok : forall c fs nm o, from_create c fs = inr (nm, o) -> name_ok nm = true.
Proof.
  intros c fs nm o H. unfold from_create in H.
  destruct (c_input c) as [itext|].
  - destruct (f_glob c); [discriminate|].
    destruct (sys_lstat fs _) as [q ln|q|]; try discriminate.
    destruct (match ln with NLink _ => negb (c_follow c) | _ => false end); [discriminate|].
    destruct (sys_stat fs _) as [q' n|q'|]; try discriminate.
    destruct (match n with NDir => f_walk c | _ => false end); [discriminate|].
    destruct (rev _) as [|fname rest]; [discriminate|].
    destruct (c_name c) as [nm'|].
    + destruct (name_ok nm') eqn:E; [inversion H; subst; exact E|discriminate].
    + destruct (f_name_decode c); [discriminate|].
      destruct (name_ok fname) eqn:E; [inversion H; subst; exact E|discriminate].
  - destruct (c_name c) as [nm'|]; [|discriminate].
    destruct (name_ok nm') eqn:E; [|discriminate].
    destruct (c_output c) as [[|t]|]; inversion H; subst; exact E.
Qed.

(** a successful run went through from_create, so its name passed the check *)
Theorem success_name_ok : forall c fs, snd (create_fx c fs) = CSuccess ->
  exists nm o, from_create c fs = inr (nm, o) /\ name_ok nm = true.
Proof.
  intros c fs H. unfold create_fx in H.
  destruct (f_clap c); [discriminate|]. destruct (f_tier c); [discriminate|].
  destruct (f_private c); [discriminate|].
  unfold final_target in H.
  destruct (from_create c fs) as [e|[nm o]] eqn:Fc; [discriminate|].
  exists nm, o. split; [reflexivity|]. eapply accepted_name_ok; exact Fc.
Qed.

(** the stages at which a run can stop before the name has been accepted (all of them before
    anything is hashed or opened for writing) *)
Definition before_hashing (e : stage) : bool :=
  match e with
  | EClap | ETier | EPrivate | EGlob | EInput | ESymlinkRoot | EWalk | ENameExtract | ENameInvalid => true
  | _ => false
  end.

Lemma bad_name_from_create : forall c fs nm, c_name c = Some nm -> name_ok nm = false ->
  exists e, from_create c fs = inl e /\ before_hashing e = true.
Proof.
  intros c fs nm Hn Hb. unfold from_create. rewrite Hn, Hb. cbn [negb].
  destruct (c_input c) as [itext|]; [|eexists; split; reflexivity].
  destruct (f_glob c); [eexists; split; reflexivity|].
  destruct (sys_lstat fs _) as [q ln|q|]; try (eexists; split; reflexivity).
  destruct (match ln with NLink _ => negb (c_follow c) | _ => false end); [eexists; split; reflexivity|].
  destruct (sys_stat fs _) as [q' n|q'|]; try (eexists; split; reflexivity).
  destruct (match n with NDir => f_walk c | _ => false end); [eexists; split; reflexivity|].
  destruct (rev _) as [|fname rest]; eexists; split; reflexivity.
Qed.

(** a `--name` that is not one normal path component (empty, `.`, `..`, or with a separator):
    the command fails, before hashing, and the filesystem is exactly as it was *)
Theorem bad_name_rejected : forall c fs nm, c_name c = Some nm -> name_ok nm = false ->
  fst (create_fx c fs) = fs /\
  exists e, snd (create_fx c fs) = CFail e /\ before_hashing e = true.
Proof.
  intros c fs nm Hn Hb. unfold create_fx.
  destruct (f_clap c); [split; [reflexivity|eexists; split; reflexivity]|].
  destruct (f_tier c); [split; [reflexivity|eexists; split; reflexivity]|].
  destruct (f_private c); [split; [reflexivity|eexists; split; reflexivity]|].
  destruct (bad_name_from_create c fs nm Hn Hb) as (e & Fc & He).
  unfold final_target. rewrite Fc. split; [reflexivity|]. exists e. split; [reflexivity|exact He].
Qed.

(** without --output the target is `<name>.torrent` in the directory that holds the input *)
Theorem rule_default : forall c fs nm o itext,
  from_create c fs = inr (nm, Some o) -> c_output c = None -> c_input c = Some itext ->
  name_ok nm = true /\
  env_resolve (c_cwd c) (parse_path itext) <> [] /\
  env_resolve (c_cwd c) o = removelast (env_resolve (c_cwd c) (parse_path itext)) ++ [name_torrent nm].
Proof.
  intros c fs nm o itext H Ho Hi.
  pose proof (accepted_name_ok _ _ _ _ H) as Hok. split; [exact Hok|].
  pose proof (name_ok_no_sep _ Hok) as Hp.
  unfold from_create in H. rewrite Ho, Hi in H.
  destruct (f_glob c); [discriminate|].
  destruct (sys_lstat fs _) as [q ln|q|]; try discriminate.
  destruct (match ln with NLink _ => negb (c_follow c) | _ => false end); [discriminate|].
  destruct (sys_stat fs _) as [q' n|q'|]; try discriminate.
  destruct (match n with NDir => f_walk c | _ => false end); [discriminate|].
  destruct (rev (env_resolve (c_cwd c) (parse_path itext))) as [|fname rest] eqn:Er; [discriminate|].
  assert (Ho' : o = torrent_path (parse_path itext) nm).
  { destruct (c_name c) as [nm'|].
    - destruct (negb (name_ok nm')); [discriminate|inversion H; reflexivity].
    - destruct (f_name_decode c); [discriminate|].
      destruct (negb (name_ok fname)); [discriminate|inversion H; reflexivity]. }
  clear H. subst o.
  split; [intros E; rewrite E in Er; discriminate|].
  set (ip := parse_path itext) in *.
  unfold torrent_path. rewrite (parse_plain nm Hp).
  destruct (name_torrent_normal nm) as (_ & _ & Hdd).
  unfold env_resolve, lexiclean, join, dir_of, dotdot_path in *. cbn [p_abs p_comps] in *.
  (* R = the reversed stack after cleaning the resolved input *)
  destruct (p_abs ip) eqn:Ab; cbn [p_abs p_comps] in *; rewrite ?Ab in *; cbn [p_abs p_comps] in *.
  - (* absolute input *)
    rewrite rev_involutive in Er.
    rewrite clean_run_app, clean_abs_idem. cbn [rev clean_run fold_left].
    fold (clean_run true [] (p_comps ip ++ [[46; 46]])). rewrite clean_run_app.
    fold (clean_run true [] (p_comps ip)). rewrite Er.
    assert (Hn : Forall (fun c => is_dotdot c = false) (clean_run true [] (p_comps ip)))
      by (apply clean_abs_no_dotdot; constructor).
    rewrite Er in Hn. inversion Hn; subst.
    cbn. unfold clean_step at 2. cbn [is_dotdot bytes_eqb list_eqb N.eqb Pos.eqb andb].
    rewrite H1. unfold clean_step. rewrite Hdd. cbn [rev].
    rewrite removelast_last. reflexivity.
  - (* relative input *)
    rewrite rev_involutive in Er.
    rewrite !clean_run_app, clean_rel_then_abs. cbn [rev clean_run fold_left].
    rewrite ?clean_rel_then_abs. cbn [rev clean_run fold_left].
    fold (clean_run true [] (c_cwd c)). fold (clean_run true (clean_run true [] (c_cwd c)) (p_comps ip)).
    assert (Hn : Forall (fun c => is_dotdot c = false) (clean_run true [] (c_cwd c ++ p_comps ip)))
      by (apply clean_abs_no_dotdot; constructor).
    rewrite clean_run_app in Er, Hn. rewrite Er in *. inversion Hn; subst.
    unfold clean_step at 2. cbn [is_dotdot bytes_eqb list_eqb N.eqb Pos.eqb andb].
    rewrite H1. unfold clean_step. rewrite Hdd. cbn [rev].
    rewrite removelast_last. reflexivity.
Qed.

(** a target that is a directory receives `<name>.torrent`; any other target is used as is *)
Theorem rule_directory : forall c fs nm o,
  from_create c fs = inr (nm, Some o) ->
  name_ok nm = true /\
  out_path c fs = Some (if path_is_dir fs (env_resolve (c_cwd c) o)
                        then env_resolve (c_cwd c) o ++ [name_torrent nm]
                        else env_resolve (c_cwd c) o).
Proof.
  intros c fs nm o H.
  pose proof (accepted_name_ok _ _ _ _ H) as Hok. split; [exact Hok|].
  unfold out_path, final_target. rewrite H.
  unfold push_str. rewrite (parse_plain nm (name_ok_no_sep _ Hok)). reflexivity.
Qed.

(** so on success the new file, if any, is directly inside the target directory / next to the
    input: its path is the resolved target plus one component *)
Theorem success_at_documented_path : forall c fs,
  snd (create_fx c fs) = CSuccess ->
  exists nm o, from_create c fs = inr (nm, o) /\ name_ok nm = true /\
    match o with
    | None => out_path c fs = None
    | Some t => out_path c fs = Some (if path_is_dir fs (env_resolve (c_cwd c) t)
                                      then env_resolve (c_cwd c) t ++ [name_torrent nm]
                                      else env_resolve (c_cwd c) t)
    end.
Proof.
  intros c fs H. destruct (success_name_ok c fs H) as (nm & o & Fc & Hok).
  exists nm, o. split; [exact Fc|]. split; [exact Hok|].
  destruct o as [t|].
  - exact (proj2 (rule_directory _ _ _ _ Fc)).
  - unfold out_path, final_target. rewrite Fc. reflexivity.
Qed.

(** the name is an opaque component: `.torrent` is appended to the whole name (a dot inside the
    name - `a.tar` - is not an extension to be replaced), so two different names never share a file *)
Theorem distinct_names_distinct_files : forall (d : path) a b,
  d ++ [name_torrent a] = d ++ [name_torrent b] -> a = b.
Proof.
  intros d a b H. apply app_inv_head in H. inversion H as [H0].
  unfold name_torrent in H0. apply app_inv_tail in H0. exact H0.
Qed.

(** the default target never lies under the input content unless it *is* the input *)
Theorem default_not_under_input : forall (root : path) nt,
  root <> [] -> is_under root (removelast root ++ [nt]) -> removelast root ++ [nt] = root.
Proof.
  intros root nt Hr [s Hs].
  assert (L : length (removelast root ++ [nt]) = length (root ++ s)) by (rewrite Hs; reflexivity).
  rewrite !app_length in L. cbn in L.
  assert (length (removelast root) + 1 = length root)%nat.
  { rewrite (app_removelast_last [] Hr) at 2. rewrite app_length. reflexivity. }
  destruct s; [rewrite app_nil_r in Hs; exact Hs|cbn in L; lia].
Qed.

(* ---------- concrete instances (hypotheses are satisfiable; the open finding) ---------- *)
Definition b_w : list N := [119].
Definition b_in : list N := [105; 110].
Definition b_d : list N := [100].
Definition b_old : list N := [111; 108; 100].
Definition ex_fs : fsT :=
  [ ([], NDir); ([b_w], NDir); ([b_w; b_in], NDir); ([b_w; b_in; [97]], NFile [1; 2; 3]);
    ([b_w; b_d], NDir); ([b_w; b_old], NFile [9]) ].
Definition mk (out : option otarget) (nm : option (list N)) (frc dry : bool) : cfg :=
  {| c_cwd := [b_w]; c_input := Some b_in; c_output := out; c_name := nm; c_force := frc; c_dry_run := dry;
     c_follow := false; c_piece_length := 16384; c_allow_uneven := false; c_allow_small := false;
     c_torrent := [100; 101];
     f_clap := false; f_tier := false; f_private := false; f_glob := false; f_walk := false;
     f_name_decode := false; f_read := false; f_serialize := false; f_write_io := false;
     f_stdout := false; f_post := false |}.

Example ex_default_success :
  create_fx (mk None None false false) ex_fs
  = (update ex_fs [b_w; name_torrent b_in] (NFile [100; 101]), CSuccess).
Proof. vm_compute. reflexivity. Qed.

Example ex_directory_target :
  out_path (mk (Some (OPath b_d)) None false false) ex_fs = Some [b_w; b_d; name_torrent b_in]
  /\ snd (create_fx (mk (Some (OPath b_d)) None false false) ex_fs) = CSuccess.
Proof. vm_compute. split; reflexivity. Qed.

Example ex_no_clobber :
  out_path (mk (Some (OPath b_old)) None false false) ex_fs = Some [b_w; b_old]
  /\ path_exists ex_fs [b_w; b_old] = true
  /\ create_fx (mk (Some (OPath b_old)) None false false) ex_fs = (ex_fs, CFail EExists).
Proof. vm_compute. repeat split; reflexivity. Qed.

Example ex_force_replaces :
  create_fx (mk (Some (OPath b_old)) None true false) ex_fs
  = (update ex_fs [b_w; b_old] (NFile [100; 101]), CSuccess).
Proof. vm_compute. reflexivity. Qed.

Example ex_dry_run :
  create_fx (mk None None true true) ex_fs = (ex_fs, CSuccess).
Proof. vm_compute. reflexivity. Qed.

(** REPAIRED FINDING (was: name-with-separator). `--name` used to be pushed onto the target as a
    path: with `--output d --name /x` the metainfo went to `/x.torrent`, outside the target
    directory; with `--name ../x` and no --output it was not written next to the input. Both
    runs are now refused by the name check, as is every other name that is not one component. *)
Definition nm_abs : list N := [47; 120].            (* "/x" *)
Definition nm_up : list N := [46; 46; 47; 120].     (* "../x" *)
Example ex_bad_name_abs :
  name_ok nm_abs = false /\
  create_fx (mk (Some (OPath b_d)) (Some nm_abs) false false) ex_fs = (ex_fs, CFail ENameInvalid).
Proof. vm_compute. split; reflexivity. Qed.
Example ex_bad_name_up :
  name_ok nm_up = false /\
  create_fx (mk None (Some nm_up) false false) ex_fs = (ex_fs, CFail ENameInvalid).
Proof. vm_compute. split; reflexivity. Qed.
(** every kind of bad name: empty, `.`, `..`, `a/b`, `/x`, `../x`, `x/` *)
Example ex_bad_name_kinds :
  forallb (fun nm => negb (name_ok nm))
          [ []; [46]; [46; 46]; [97; 47; 98]; nm_abs; nm_up; [120; 47] ] = true /\
  forallb name_ok [ [120]; [46; 46; 46]; [46; 120]; [120; 46]; [92] ] = true.
Proof. vm_compute. split; reflexivity. Qed.
(** dotted names: `a.tar` into the directory d gives d/a.tar.torrent, and `a.zip` after it a second file *)
Definition nm_tar : list N := [97; 46; 116; 97; 114].      (* "a.tar" *)
Definition nm_zip : list N := [97; 46; 122; 105; 112].     (* "a.zip" *)
Example ex_dotted_names :
  name_ok nm_tar = true /\
  create_fx (mk (Some (OPath b_d)) (Some nm_tar) false false) ex_fs
  = (update ex_fs [b_w; b_d; nm_tar ++ dot_torrent] (NFile [100; 101]), CSuccess) /\
  create_fx (mk (Some (OPath b_d)) (Some nm_zip) false false)
            (update ex_fs [b_w; b_d; nm_tar ++ dot_torrent] (NFile [100; 101]))
  = (update (update ex_fs [b_w; b_d; nm_tar ++ dot_torrent] (NFile [100; 101]))
            [b_w; b_d; nm_zip ++ dot_torrent] (NFile [100; 101]), CSuccess).
Proof. vm_compute. repeat split; reflexivity. Qed.

Example ex_plain_name_success :
  create_fx (mk (Some (OPath b_d)) (Some [120]) false false) ex_fs
  = (update ex_fs [b_w; b_d; name_torrent [120]] (NFile [100; 101]), CSuccess).
Proof. vm_compute. reflexivity. Qed.
