(** Proofs for C10 over Model/Magnet.v. *)
From Coq Require Import String.
From Coq Require Import Decimal DecimalN DecimalFacts.
From Coq Require Import NArith Lia Bool List Sorted ZifyN ZifyBool.
From Imdl Require Import Model.Bencode Model.Magnet Proofs.BencodeProofs.
Import ListNotations.
Local Open Scope N_scope.

Definition wfb (s : bytes) : Prop := Forall (fun b => b < 256) s.
Definition all_safe (s : bytes) : Prop := Forall (fun b => safe b = true) s.

(* ------------------------------------------------------------------ bytes *)

Lemma bytes_eqb_eq a : forall b, bytes_eqb a b = true <-> a = b.
Proof.
  induction a as [|x a IH]; intros [|y b]; cbn [bytes_eqb]; try (split; congruence).
  rewrite andb_true_iff, N.eqb_eq, IH. split; [intros [-> ->]; reflexivity|intros E; inversion E; auto].
Qed.

Lemma bytes_eqb_refl a : bytes_eqb a a = true.
Proof. apply bytes_eqb_eq. reflexivity. Qed.

Lemma bytes_eqb_neq a b : a <> b -> bytes_eqb a b = false.
Proof. intros H. destruct (bytes_eqb a b) eqn:E; [|reflexivity]. apply bytes_eqb_eq in E. contradiction. Qed.

Lemma strip_prefix_app p s : strip_prefix p (p ++ s) = Some s.
Proof. induction p as [|c p IH]; cbn [strip_prefix app]; [reflexivity|]. rewrite N.eqb_refl. exact IH. Qed.

Lemma strip_prefix_some p : forall s r, strip_prefix p s = Some r -> s = p ++ r.
Proof.
  induction p as [|c p IH]; intros s r H; cbn [strip_prefix] in H.
  - inversion H. reflexivity.
  - destruct s as [|d s]; [discriminate|]. destruct (N.eqb_spec c d) as [->|]; [|discriminate].
    cbn [app]. f_equal. apply IH. exact H.
Qed.

(* ------------------------------------------------------------------ percent coding *)

Lemma unhex_hexd_up d : d < 16 -> unhex (hexd_up d) = Some d.
Proof.
  intros H. unfold hexd_up, unhex, in_range.
  destruct (N.ltb_spec d 10).
  - replace ((48 <=? 48 + d) && (48 + d <=? 57)) with true by lia. f_equal. lia.
  - replace ((48 <=? 55 + d) && (55 + d <=? 57)) with false by lia.
    replace ((65 <=? 55 + d) && (55 + d <=? 70)) with true by lia. f_equal. lia.
Qed.

Lemma unhex_hexd_lo d : d < 16 -> unhex (hexd_lo d) = Some d.
Proof.
  intros H. unfold hexd_lo, unhex, in_range.
  destruct (N.ltb_spec d 10).
  - replace ((48 <=? 48 + d) && (48 + d <=? 57)) with true by lia. f_equal. lia.
  - replace ((48 <=? 87 + d) && (87 + d <=? 57)) with false by lia.
    replace ((65 <=? 87 + d) && (87 + d <=? 70)) with false by lia.
    replace ((97 <=? 87 + d) && (87 + d <=? 102)) with true by lia. f_equal. lia.
Qed.

Lemma byte_split b : b < 256 -> b / 16 < 16 /\ b mod 16 < 16 /\ 16 * (b / 16) + b mod 16 = b.
Proof.
  intros H. repeat split.
  - apply N.div_lt_upper_bound; lia.
  - apply N.mod_lt. lia.
  - symmetry. apply N.div_mod. lia.
Qed.

(** what a safe byte is not: nothing a query parser or the url crate treats specially *)
Lemma safe_clean b : safe b = true ->
  in_query_set b = false /\ is_tnl b = false /\ 32 < b /\
  b <> 35 /\ b <> 37 /\ b <> 38 /\ b <> 43.
Proof.
  unfold safe, in_range, safe_punct, in_query_set, is_tnl. cbn [existsb]. intros H. lia.
Qed.

Lemma hexd_up_safe d : d < 16 -> safe (hexd_up d) = true.
Proof.
  intros H. unfold hexd_up, safe, in_range.
  destruct (N.ltb_spec d 10); apply orb_true_iff; left; apply orb_true_iff; [left; apply orb_true_iff; left|left; apply orb_true_iff; right]; lia.
Qed.

Lemma hexd_lo_safe d : d < 16 -> safe (hexd_lo d) = true.
Proof.
  intros H. unfold hexd_lo, safe, in_range.
  destruct (N.ltb_spec d 10); apply orb_true_iff; left; [apply orb_true_iff; left; apply orb_true_iff; left|apply orb_true_iff; right]; lia.
Qed.

Theorem pct_roundtrip plus s : wfb s -> pct_decode plus (push_value s) = s.
Proof.
  induction 1 as [|b s Hb Hs IH]; [reflexivity|].
  unfold push_value in *. cbn [flat_map]. unfold enc1 at 1.
  destruct (safe b) eqn:S.
  - destruct (safe_clean b S) as (_ & _ & _ & _ & H37 & _ & H43).
    cbn [app pct_decode].
    replace (b =? 37) with false by lia. replace (b =? 43) with false by lia.
    rewrite andb_false_r. f_equal. exact IH.
  - unfold pct. cbn [app pct_decode]. rewrite N.eqb_refl.
    destruct (byte_split b Hb) as (Hq & Hr & E).
    rewrite !unhex_hexd_up by assumption. f_equal; [exact E|exact IH].
Qed.

Lemma push_value_safe s : all_safe s -> push_value s = s.
Proof.
  induction 1 as [|b s Hb Hs IH]; [reflexivity|].
  unfold push_value in *. cbn [flat_map]. unfold enc1 at 1. rewrite Hb. cbn [app]. f_equal. exact IH.
Qed.

Lemma pct_decode_safe plus k : all_safe k -> pct_decode plus k = k.
Proof.
  induction 1 as [|b k Hb Hk IH]; [reflexivity|].
  destruct (safe_clean b Hb) as (_ & _ & _ & _ & H37 & _ & H43). cbn [pct_decode].
  replace (b =? 37) with false by lia. replace (b =? 43) with false by lia.
  rewrite andb_false_r, IH. reflexivity.
Qed.

(** every byte the encoder emits is a safe byte or `%` *)
Definition vchar (b : byte) : Prop := safe b = true \/ b = 37.

Lemma push_value_chars v : wfb v -> Forall vchar (push_value v).
Proof.
  induction 1 as [|b v Hb Hv IH]; [constructor|].
  unfold push_value in *. cbn [flat_map]. apply Forall_app. split; [|exact IH].
  unfold enc1. destruct (safe b) eqn:S.
  - constructor; [left; exact S|constructor].
  - destruct (byte_split b Hb) as (Hq & Hr & _). unfold pct.
    constructor; [right; reflexivity|]. constructor; [left; apply hexd_up_safe; exact Hq|].
    constructor; [left; apply hexd_up_safe; exact Hr|constructor].
Qed.

Lemma all_safe_vchar s : all_safe s -> Forall vchar s.
Proof. apply Forall_impl. intros b H. left. exact H. Qed.

(* ------------------------------------------------------------------ split / join *)

Definition no (sep : N) (s : bytes) : Prop := Forall (fun b => b <> sep) s.

Lemma split_on_seg sep a tail : no sep a ->
  split_on sep (a ++ sep :: tail) = a :: split_on sep tail.
Proof.
  induction 1 as [|b a Hb Ha IH]; cbn [app split_on].
  - rewrite N.eqb_refl. reflexivity.
  - replace (b =? sep) with false by lia. rewrite IH. reflexivity.
Qed.

Lemma split_on_last sep a : no sep a -> split_on sep a = [a].
Proof.
  induction 1 as [|b a Hb Ha IH]; cbn [split_on]; [reflexivity|].
  replace (b =? sep) with false by lia. rewrite IH. reflexivity.
Qed.

Theorem split_join sep segs : segs <> [] -> Forall (no sep) segs -> split_on sep (join sep segs) = segs.
Proof.
  induction segs as [|a rest IH]; intros Hne Hall; [congruence|].
  inversion Hall as [|? ? Ha Hrest]; subst.
  destruct rest as [|b rest'].
  - cbn [join]. apply split_on_last. exact Ha.
  - change (join sep (a :: b :: rest')) with (a ++ sep :: join sep (b :: rest')).
    rewrite split_on_seg by exact Ha. f_equal. apply IH; [discriminate|exact Hrest].
Qed.

Lemma split_first_app sep k v : no sep k -> split_first sep (k ++ sep :: v) = (k, v).
Proof.
  induction 1 as [|b k Hb Hk IH]; cbn [app split_first].
  - rewrite N.eqb_refl. reflexivity.
  - replace (b =? sep) with false by lia. rewrite IH. reflexivity.
Qed.

Lemma join_cons sep a rest : join sep (a :: rest) = a ++ flat_map (fun s => sep :: s) rest.
Proof.
  revert a. induction rest as [|b rest IH]; intros a.
  - cbn [join flat_map]. rewrite app_nil_r. reflexivity.
  - change (join sep (a :: b :: rest)) with (a ++ sep :: join sep (b :: rest)).
    rewrite IH. reflexivity.
Qed.

Lemma join_forall (P : byte -> Prop) sep segs : P sep -> Forall (Forall P) segs -> Forall P (join sep segs).
Proof.
  intros Hs. induction 1 as [|a rest Ha Hrest IH]; [constructor|].
  rewrite join_cons. apply Forall_app. split; [exact Ha|].
  clear IH. induction Hrest as [|b r Hb Hr IH]; cbn [flat_map]; [constructor|].
  constructor; [exact Hs|]. apply Forall_app. split; assumption.
Qed.

(* ------------------------------------------------------------------ a standard parser on encoded pairs *)

Definition enc_pair (kv : bytes * bytes) : bytes := fst kv ++ 61 :: push_value (snd kv).
Definition pairs_query (pairs : list (bytes * bytes)) : bytes := join 38 (map enc_pair pairs).

(** keys are literal: safe bytes other than `=` *)
Definition key_ok (k : bytes) : Prop := Forall (fun b => safe b = true /\ b <> 61) k.

Lemma push_value_no38 v : wfb v -> no 38 (push_value v).
Proof.
  intros H. eapply Forall_impl; [|apply push_value_chars; exact H].
  intros b [S| ->]; [apply (safe_clean b S)|lia].
Qed.

Theorem std_parse_pairs_query plus pairs :
  pairs <> [] ->
  Forall (fun kv => key_ok (fst kv) /\ wfb (snd kv)) pairs ->
  std_parse plus (pairs_query pairs) = pairs.
Proof.
  intros Hne Hall. unfold std_parse, pairs_query.
  rewrite split_join.
  - rewrite map_map. rewrite <- (map_id pairs) at 2. apply map_ext_in.
    intros [k v] Hin. rewrite Forall_forall in Hall. destruct (Hall _ Hin) as [Hk Hv]. cbn [fst snd] in *.
    unfold enc_pair. cbn [fst snd].
    rewrite split_first_app.
    + rewrite pct_roundtrip by exact Hv. rewrite pct_decode_safe; [reflexivity|].
      eapply Forall_impl; [|exact Hk]. cbn. tauto.
    + eapply Forall_impl; [|exact Hk]. cbn. tauto.
  - destruct pairs; [congruence|discriminate].
  - rewrite Forall_map. eapply Forall_impl; [|exact Hall]. intros [k v] [Hk Hv]. cbn [fst snd] in *.
    unfold enc_pair. cbn [fst snd]. apply Forall_app. split.
    + eapply Forall_impl; [|exact Hk]. cbn. intros b [Hs _]. apply (safe_clean b Hs).
    + constructor; [lia|]. apply push_value_no38. exact Hv.
Qed.

(* ------------------------------------------------------------------ the query imdl prints *)

Definition wf_link (l : link) : Prop :=
  wfb (l_ih l) /\ (forall n, l_name l = Some n -> wfb n) /\
  Forall wfb (l_trackers l) /\ Forall wfb (l_peers l).

Lemma forallb_all_safe s : forallb safe s = true -> all_safe s.
Proof. intros H. apply Forall_forall. apply forallb_forall. exact H. Qed.

Lemma all_safe_wfb s : all_safe s -> wfb s.
Proof.
  apply Forall_impl. intros b H. unfold safe, in_range, safe_punct in H. cbn [existsb] in H. lia.
Qed.

Lemma hex_lower_safe s : wfb s -> all_safe (hex_lower s).
Proof.
  induction 1 as [|b s Hb Hs IH]; [constructor|].
  unfold hex_lower in *. cbn [flat_map app]. destruct (byte_split b Hb) as (Hq & Hr & _).
  constructor; [apply hexd_lo_safe; exact Hq|]. constructor; [apply hexd_lo_safe; exact Hr|]. exact IH.
Qed.

Lemma uint_bytes_digits u : Forall (fun b => 48 <= b <= 57) (uint_bytes u).
Proof. induction u; cbn [uint_bytes]; constructor; try assumption; lia. Qed.

Lemma digit_safe b : 48 <= b <= 57 -> safe b = true.
Proof. intros H. unfold safe, in_range. apply orb_true_iff; left. apply orb_true_iff; left. apply orb_true_iff; left. lia. Qed.

Lemma dec_safe n : all_safe (dec n).
Proof. unfold dec. eapply Forall_impl; [|apply uint_bytes_digits]. intros b. apply digit_safe. Qed.

Lemma so_value_safe s : all_safe (so_value s).
Proof.
  unfold so_value. apply (join_forall (fun b => safe b = true)); [reflexivity|].
  apply Forall_map. apply Forall_forall. intros n _. apply dec_safe.
Qed.

Lemma topic_safe ih : wfb ih -> all_safe (k_urn_btih ++ hex_lower ih).
Proof.
  intros H. apply Forall_app. split; [apply forallb_all_safe; reflexivity|apply hex_lower_safe; exact H].
Qed.

Lemma flat_amp_pairs key (f : bytes -> bytes) vals :
  (forall v, f v = 38 :: key ++ 61 :: push_value v) ->
  flat_map (fun s => 38 :: s) (map enc_pair (map (fun v => (key, v)) vals)) = flat_map f vals.
Proof.
  intros Hf. induction vals as [|v vals IH]; [reflexivity|].
  cbn [map flat_map]. rewrite IH, Hf. unfold enc_pair. cbn [fst snd].
  rewrite <- app_comm_cons. reflexivity.
Qed.

(** the string `to_url` builds is the `&`-join of `key=escaped value` over the expected pairs *)
Lemma to_query_pairs l : wf_link l -> to_query l = pairs_query (expected l).
Proof.
  intros (Hih & Hname & Htr & Hpe).
  unfold pairs_query, expected, to_query. cbn [map]. rewrite join_cons.
  unfold enc_pair at 1. cbn [fst snd].
  rewrite (push_value_safe _ (topic_safe _ Hih)).
  change (k_xt ++ 61 :: k_urn_btih ++ hex_lower (l_ih l)) with (k_xt_topic ++ hex_lower (l_ih l)).
  rewrite <- !app_assoc. f_equal. f_equal.
  rewrite !map_app, !flat_map_app.
  f_equal; [|f_equal; [|f_equal]].
  - destruct (l_name l) as [n|]; [|reflexivity]. cbn [map flat_map]. unfold enc_pair. cbn [fst snd].
    rewrite app_nil_r. reflexivity.
  - symmetry. apply flat_amp_pairs. intros v. reflexivity.
  - symmetry. apply flat_amp_pairs. intros v. reflexivity.
  - destruct (l_indices l) as [|i r]; [reflexivity|]. cbn [map flat_map]. unfold enc_pair. cbn [fst snd].
    rewrite app_nil_r, (push_value_safe _ (so_value_safe _)). reflexivity.
Qed.

Lemma key_ok_lit k : forallb (fun b => safe b && negb (b =? 61)) k = true -> key_ok k.
Proof.
  intros H. apply Forall_forall. intros b Hb. rewrite forallb_forall in H. specialize (H b Hb). lia.
Qed.

Lemma expected_ok l : wf_link l -> Forall (fun kv => key_ok (fst kv) /\ wfb (snd kv)) (expected l).
Proof.
  intros (Hih & Hname & Htr & Hpe). unfold expected.
  constructor; [split; [apply key_ok_lit; reflexivity|apply all_safe_wfb, topic_safe, Hih]|].
  apply Forall_app; split; [|apply Forall_app; split; [|apply Forall_app; split]].
  - destruct (l_name l) as [n|]; [|constructor]. constructor; [|constructor].
    split; [apply key_ok_lit; reflexivity|apply Hname; reflexivity].
  - apply Forall_map. eapply Forall_impl; [|exact Htr]. intros t Ht. split; [apply key_ok_lit; reflexivity|exact Ht].
  - apply Forall_map. eapply Forall_impl; [|exact Hpe]. intros t Ht. split; [apply key_ok_lit; reflexivity|exact Ht].
  - destruct (l_indices l) as [|i r]; [constructor|]. constructor; [|constructor].
    split; [apply key_ok_lit; reflexivity|apply all_safe_wfb, so_value_safe].
Qed.

(** every byte of the query is safe, `%` or `&` *)
Definition qchar (b : byte) : Prop := safe b = true \/ b = 37 \/ b = 38.

Lemma qchar_clean b : qchar b -> in_query_set b = false /\ is_tnl b = false /\ 32 < b /\ b <> 35.
Proof.
  intros [S|[->| ->]]; [destruct (safe_clean b S) as (A & C & D & E & _); auto| |]; cbn; repeat split; lia.
Qed.

Lemma pairs_query_chars pairs :
  Forall (fun kv => key_ok (fst kv) /\ wfb (snd kv)) pairs -> Forall qchar (pairs_query pairs).
Proof.
  intros H. unfold pairs_query. apply (join_forall qchar); [right; right; reflexivity|].
  apply Forall_map. eapply Forall_impl; [|exact H]. intros [k v] [Hk Hv]. cbn [fst snd] in *.
  unfold enc_pair. cbn [fst snd]. apply Forall_app. split.
  - eapply Forall_impl; [|exact Hk]. cbn. intros b [S _]. left. exact S.
  - constructor; [left; reflexivity|]. eapply Forall_impl; [|apply push_value_chars; exact Hv].
    intros b [S| ->]; [left; exact S|right; left; reflexivity].
Qed.

Lemma to_query_chars l : wf_link l -> Forall qchar (to_query l).
Proof. intros H. rewrite to_query_pairs by exact H. apply pairs_query_chars, expected_ok, H. Qed.

Lemma drop_tnl_clean q : Forall qchar q -> drop_tnl q = q.
Proof.
  induction 1 as [|b q Hb Hq IH]; [reflexivity|]. unfold drop_tnl in *. cbn [filter].
  destruct (qchar_clean b Hb) as (_ & -> & _). cbn [negb]. rewrite IH. reflexivity.
Qed.

Lemma query_encode_clean q : Forall qchar q -> query_encode q = q.
Proof.
  induction 1 as [|b q Hb Hq IH]; [reflexivity|]. unfold query_encode in *. cbn [flat_map].
  unfold qenc1 at 1. destruct (qchar_clean b Hb) as (-> & _). cbn [app]. rewrite IH. reflexivity.
Qed.

(** Url::set_query leaves the repaired encoder's output untouched *)
Lemma set_query_to_query l : wf_link l -> set_query (to_query l) = to_query l.
Proof.
  intros H. unfold set_query. rewrite drop_tnl_clean, query_encode_clean by (apply to_query_chars; exact H).
  reflexivity.
Qed.

Lemma print_eq l : wf_link l -> print l = k_magnet_q ++ to_query l.
Proof. intros H. unfold print. rewrite set_query_to_query by exact H. reflexivity. Qed.

(** C10, first clause: a standard query-string parser, with or without `+`-as-space, decodes the
    printed URI to exactly the expected pairs *)
Theorem std_parse_print plus l : wf_link l ->
  exists q, uri_query (print l) = Some q /\ std_parse plus q = expected l.
Proof.
  intros H. exists (to_query l). split.
  - rewrite print_eq by exact H. unfold uri_query. apply strip_prefix_app.
  - rewrite to_query_pairs by exact H. apply std_parse_pairs_query; [discriminate|apply expected_ok, H].
Qed.

(* ------------------------------------------------------------------ imdl's own parser on its own output *)

Lemma drop_ws_big s : Forall (fun b => 32 < b) s -> drop_ws s = s.
Proof. intros H. destruct H as [|b s Hb Hs]; [reflexivity|]. cbn [drop_ws]. replace (b <=? 32) with false by lia. reflexivity. Qed.

Lemma trim_big s : Forall (fun b => 32 < b) s -> trim s = s.
Proof.
  intros H. unfold trim. rewrite (drop_ws_big s H). rewrite drop_ws_big by (apply Forall_rev; exact H).
  apply rev_involutive.
Qed.

Lemma until_hash_none s : no 35 s -> until_hash s = s.
Proof. induction 1 as [|b s Hb Hs IH]; [reflexivity|]. cbn [until_hash]. replace (b =? 35) with false by lia. rewrite IH. reflexivity. Qed.

Lemma magnet_q_chars : Forall qchar k_magnet_q.
Proof. apply Forall_forall. intros b Hb. left. revert b Hb. apply forallb_forall. reflexivity. Qed.

Lemma parse_scheme_magnet q : parse_scheme (k_magnet_q ++ q) = Some (k_magnet, 63 :: q).
Proof. reflexivity. Qed.

(** Url::parse of a printed link gives back exactly the query that was set *)
Lemma url_query_print l : wf_link l -> url_query (print l) = UQ (Some (to_query l)).
Proof.
  intros H. rewrite print_eq by exact H.
  pose proof (to_query_chars l H) as Hq.
  assert (Hall : Forall qchar (k_magnet_q ++ to_query l)) by (apply Forall_app; split; [apply magnet_q_chars|exact Hq]).
  unfold url_query. rewrite trim_big by (eapply Forall_impl; [|exact Hall]; intros b Hb; apply (qchar_clean b Hb)).
  rewrite drop_tnl_clean by exact Hall. rewrite parse_scheme_magnet.
  change (bytes_eqb k_magnet k_magnet) with true. cbv iota.
  change (strip_prefix [47; 47] (63 :: to_query l)) with (@None (list N)). cbv iota.
  cbn [after_path]. change (63 =? 63) with true. cbv iota.
  rewrite until_hash_none by (eapply Forall_impl; [|exact Hq]; intros b Hb; apply (qchar_clean b Hb)).
  rewrite query_encode_clean by exact Hq. reflexivity.
Qed.

Lemma filter_nonempty_enc pairs : filter nonempty (map enc_pair pairs) = map enc_pair pairs.
Proof.
  induction pairs as [|[k v] pairs IH]; [reflexivity|]. cbn [map filter].
  replace (nonempty (enc_pair (k, v))) with true; [rewrite IH; reflexivity|].
  unfold enc_pair. cbn [fst snd]. destruct k; reflexivity.
Qed.

Section OwnProofs.
  Variable lossy : bytes -> bytes.
  Variable url_norm : bytes -> option bytes.
  Variable hp_norm : bytes -> option bytes.

  Lemma form_pairs_pairs_query pairs :
    pairs <> [] ->
    Forall (fun kv => key_ok (fst kv) /\ wfb (snd kv)) pairs ->
    form_pairs lossy (pairs_query pairs) = map (fun kv => (lossy (fst kv), lossy (snd kv))) pairs.
  Proof.
    intros Hne Hall. unfold form_pairs, pairs_query.
    rewrite split_join.
    - rewrite filter_nonempty_enc, map_map. apply map_ext_in.
      intros [k v] Hin. rewrite Forall_forall in Hall. destruct (Hall _ Hin) as [Hk Hv]. cbn [fst snd] in *.
      unfold enc_pair. cbn [fst snd].
      rewrite split_first_app.
      + rewrite pct_roundtrip by exact Hv. rewrite pct_decode_safe; [reflexivity|].
        eapply Forall_impl; [|exact Hk]. cbn. tauto.
      + eapply Forall_impl; [|exact Hk]. cbn. tauto.
    - destruct pairs; [congruence|discriminate].
    - rewrite Forall_map. eapply Forall_impl; [|exact Hall]. intros [k v] [Hk Hv]. cbn [fst snd] in *.
      unfold enc_pair. cbn [fst snd]. apply Forall_app. split.
      + eapply Forall_impl; [|exact Hk]. cbn. intros b [Hs _]. apply (safe_clean b Hs).
      + constructor; [lia|]. apply push_value_no38. exact Hv.
  Qed.

  (** the strings a link holds are Rust `String`s: valid UTF-8, which from_utf8_lossy returns unchanged *)
  Definition utf8_fixed (l : link) : Prop :=
    (forall n, l_name l = Some n -> lossy n = n) /\
    Forall (fun t => lossy t = t) (l_trackers l) /\ Forall (fun p => lossy p = p) (l_peers l).

  Definition ascii (s : bytes) : Prop := Forall (fun b => b < 128) s.

  Lemma all_safe_ascii s : all_safe s -> ascii s.
  Proof. apply Forall_impl. intros b H. unfold safe, in_range, safe_punct in H. cbn [existsb] in H. lia. Qed.

  Lemma key_ascii k : forallb safe k = true -> ascii k.
  Proof. intros H. apply all_safe_ascii, forallb_all_safe, H. Qed.

  Lemma lossy_expected l :
    wf_link l -> (forall s, ascii s -> lossy s = s) -> utf8_fixed l ->
    map (fun kv => (lossy (fst kv), lossy (snd kv))) (expected l) = expected l.
  Proof.
    intros (Hih & _) Ha (Hn & Ht & Hp). rewrite <- (map_id (expected l)) at 2. apply map_ext_in.
    intros [k v] Hin. cbn [fst snd]. unfold expected in Hin.
    destruct Hin as [E|Hin].
    { inversion E; subst. rewrite !Ha; [reflexivity|apply all_safe_ascii, topic_safe, Hih|apply key_ascii; reflexivity]. }
    apply in_app_or in Hin. destruct Hin as [Hin|Hin].
    { destruct (l_name l) as [n|]; [|destruct Hin]. destruct Hin as [E|[]]. inversion E; subst.
      rewrite Ha by (apply key_ascii; reflexivity). rewrite Hn; reflexivity. }
    apply in_app_or in Hin. destruct Hin as [Hin|Hin].
    { apply in_map_iff in Hin. destruct Hin as (t & E & Hin). inversion E; subst.
      rewrite Forall_forall in Ht. rewrite (Ht _ Hin), Ha by (apply key_ascii; reflexivity). reflexivity. }
    apply in_app_or in Hin. destruct Hin as [Hin|Hin].
    { apply in_map_iff in Hin. destruct Hin as (t & E & Hin). inversion E; subst.
      rewrite Forall_forall in Hp. rewrite (Hp _ Hin), Ha by (apply key_ascii; reflexivity). reflexivity. }
    destruct (l_indices l) as [|i r]; [destruct Hin|]. destruct Hin as [E|[]]. inversion E; subst.
    rewrite !Ha; [reflexivity|apply all_safe_ascii, so_value_safe|apply key_ascii; reflexivity].
  Qed.

  Lemma length_hex_lower s : length (hex_lower s) = (2 * length s)%nat.
  Proof. induction s as [|b s IH]; [reflexivity|]. unfold hex_lower in *. cbn [flat_map app length]. rewrite IH. lia. Qed.

  Lemma unhex_hex_lower s : wfb s -> unhex_str (hex_lower s) = Some s.
  Proof.
    induction 1 as [|b s Hb Hs IH]; [reflexivity|].
    unfold hex_lower in *. cbn [flat_map app unhex_str]. destruct (byte_split b Hb) as (Hq & Hr & E).
    rewrite !unhex_hexd_lo by assumption. rewrite IH, E. reflexivity.
  Qed.

  Lemma collect_tr ts : forall rest name trs prs,
    Forall (fun t => url_norm t = Some t) ts ->
    collect url_norm hp_norm (map (fun t => (k_tr, t)) ts ++ rest) name trs prs =
    collect url_norm hp_norm rest name (trs ++ ts) prs.
  Proof.
    induction ts as [|t ts IH]; intros rest name trs prs H.
    - cbn [map app]. rewrite app_nil_r. reflexivity.
    - inversion H as [|? ? Ht Hts]; subst. cbn [map app collect].
      change (bytes_eqb k_tr k_tr) with true. cbv iota. rewrite Ht, IH by exact Hts.
      rewrite <- app_assoc. reflexivity.
  Qed.

  Lemma collect_pe ps : forall rest name trs prs,
    Forall (fun p => hp_norm p = Some p) ps ->
    collect url_norm hp_norm (map (fun p => (k_pe, p)) ps ++ rest) name trs prs =
    collect url_norm hp_norm rest name trs (prs ++ ps).
  Proof.
    induction ps as [|p ps IH]; intros rest name trs prs H.
    - cbn [map app]. rewrite app_nil_r. reflexivity.
    - inversion H as [|? ? Hp Hps]; subst. cbn [map app collect].
      change (bytes_eqb k_pe k_tr) with false. change (bytes_eqb k_pe k_dn) with false.
      change (bytes_eqb k_pe k_pe) with true. cbv iota. rewrite Hp, IH by exact Hps.
      rewrite <- app_assoc. reflexivity.
  Qed.

  Lemma collect_expected l :
    Forall (fun t => url_norm t = Some t) (l_trackers l) ->
    Forall (fun p => hp_norm p = Some p) (l_peers l) ->
    collect url_norm hp_norm (expected l) None [] [] = inr (l_name l, l_trackers l, l_peers l).
  Proof.
    intros Ht Hp. unfold expected.
    change (collect url_norm hp_norm ((k_xt, k_urn_btih ++ hex_lower (l_ih l)) :: ?r) None [] [])
      with (collect url_norm hp_norm r None [] []).
    cbn [collect]. change (bytes_eqb k_xt k_tr) with false. change (bytes_eqb k_xt k_dn) with false.
    change (bytes_eqb k_xt k_pe) with false. cbv iota.
    assert (E : forall rest, collect url_norm hp_norm
                  (match l_name l with Some n => [(k_dn, n)] | None => [] end ++ rest) None [] [] =
                collect url_norm hp_norm rest (l_name l) [] []).
    { intros rest. destruct (l_name l) as [n|]; reflexivity. }
    rewrite E, collect_tr by exact Ht. rewrite collect_pe by exact Hp. cbn [app].
    destruct (l_indices l) as [|i r]; reflexivity.
  Qed.

  (** C10, second clause: imdl's own parser recovers infohash, name, trackers and peers *)
  Theorem own_parse_print l :
    wf_link l -> length (l_ih l) = 20%nat ->
    (forall s, ascii s -> lossy s = s) -> utf8_fixed l ->
    Forall (fun t => url_norm t = Some t) (l_trackers l) ->
    Forall (fun p => hp_norm p = Some p) (l_peers l) ->
    own_parse lossy url_norm hp_norm (print l) = Parsed (l_ih l) (l_name l) (l_trackers l) (l_peers l).
  Proof.
    intros Hwf Hlen Ha Hu Ht Hp. unfold own_parse. rewrite url_query_print by exact Hwf.
    rewrite to_query_pairs by exact Hwf.
    rewrite form_pairs_pairs_query; [|discriminate|apply expected_ok, Hwf].
    rewrite lossy_expected by assumption.
    unfold parse_pairs. rewrite collect_expected by assumption.
    replace (find_topic (expected l)) with (@inr perr _ (l_ih l)); [reflexivity|].
    unfold expected. cbn [find_topic]. change (bytes_eqb k_xt k_xt) with true. cbv iota.
    rewrite strip_prefix_app, length_hex_lower, Hlen. cbn [Nat.mul Nat.add Nat.eqb].
    destruct Hwf as (Hih & _). rewrite unhex_hex_lower by exact Hih. reflexivity.
  Qed.

  (* ---------------------------------------------------------------- rejection *)

  Lemma unhex_str_length h : forall ih, unhex_str h = Some ih -> length h = (2 * length ih)%nat.
  Proof.
    induction h as [h IH] using (well_founded_induction (Wf_nat.well_founded_ltof _ (@length N))).
    intros ih H. destruct h as [|a [|b r]]; cbn [unhex_str] in H.
    - inversion H. reflexivity.
    - discriminate.
    - destruct (unhex a), (unhex b); try discriminate. destruct (unhex_str r) as [t|] eqn:E; [|discriminate].
      inversion H; subst. cbn [length]. rewrite (IH r) with (ih := t); [lia| |exact E].
      unfold Wf_nat.ltof. cbn [length]. lia.
  Qed.

  Definition hexchar (c : byte) : Prop := exists d, unhex c = Some d /\ d < 16.

  Lemma unhex_lt c d : unhex c = Some d -> d < 16.
  Proof.
    unfold unhex, in_range. intros H.
    destruct ((48 <=? c) && (c <=? 57)) eqn:E1; [inversion H; lia|].
    destruct ((65 <=? c) && (c <=? 70)) eqn:E2; [inversion H; lia|].
    destruct ((97 <=? c) && (c <=? 102)) eqn:E3; [inversion H; lia|discriminate].
  Qed.

  Lemma unhex_str_chars h : forall ih, unhex_str h = Some ih -> Forall hexchar h.
  Proof.
    induction h as [h IH] using (well_founded_induction (Wf_nat.well_founded_ltof _ (@length N))).
    intros ih H. destruct h as [|a [|b r]]; cbn [unhex_str] in H.
    - constructor.
    - discriminate.
    - destruct (unhex a) as [x|] eqn:Ea; [|discriminate]. destruct (unhex b) as [y|] eqn:Eb; [|discriminate].
      destruct (unhex_str r) as [t|] eqn:E; [|discriminate].
      constructor; [exists x; split; [exact Ea|apply (unhex_lt a), Ea]|].
      constructor; [exists y; split; [exact Eb|apply (unhex_lt b), Eb]|].
      apply (IH r) with (ih := t); [|exact E]. unfold Wf_nat.ltof. cbn [length]. lia.
  Qed.

  Lemma find_topic_inr pairs ih : find_topic pairs = inr ih ->
    exists h, In (k_xt, k_urn_btih ++ h) pairs /\ length h = 40%nat /\ unhex_str h = Some ih.
  Proof.
    induction pairs as [|[k v] r IH]; cbn [find_topic]; intros H; [discriminate|].
    destruct (bytes_eqb k k_xt) eqn:Ek.
    - apply bytes_eqb_eq in Ek. subst k.
      destruct (strip_prefix k_urn_btih v) as [h|] eqn:Ev.
      + apply strip_prefix_some in Ev. subst v.
        destruct (Nat.eqb (length h) 40) eqn:El; [|discriminate].
        destruct (unhex_str h) as [x|] eqn:Eh; [|discriminate]. inversion H; subst.
        exists h. split; [left; reflexivity|]. split; [apply PeanoNat.Nat.eqb_eq, El|exact Eh].
      + destruct (IH H) as (h & Hin & Hl). exists h. split; [right; exact Hin|exact Hl].
    - destruct (IH H) as (h & Hin & Hl). exists h. split; [right; exact Hin|exact Hl].
  Qed.

  (** C10, third clause: whatever imdl's parser accepts has a `xt=urn:btih:<40 hex digits>` pair,
      and the infohash it reports is the value of those digits *)
  Theorem own_parse_accepts_topic text ih name trs prs :
    own_parse lossy url_norm hp_norm text = Parsed ih name trs prs ->
    exists q h, url_query text = UQ (Some q) /\
                In (k_xt, k_urn_btih ++ h) (form_pairs lossy q) /\
                length h = 40%nat /\ Forall hexchar h /\ unhex_str h = Some ih /\ length ih = 20%nat.
  Proof.
    unfold own_parse. intros H. destruct (url_query text) as [[q|]|e|] eqn:Eu; try discriminate.
    unfold parse_pairs in H. destruct (find_topic (form_pairs lossy q)) as [e|ih'] eqn:Ef; [discriminate|].
    destruct (collect url_norm hp_norm (form_pairs lossy q) None [] []) as [e|[[n t] p]]; [discriminate|].
    inversion H; subst. destruct (find_topic_inr _ _ Ef) as (h & Hin & Hl & Hh).
    exists q, h. repeat split; try assumption.
    - apply (unhex_str_chars h ih Hh).
    - pose proof (unhex_str_length h ih Hh). lia.
  Qed.

  Theorem reject_without_topic text :
    (forall q h, url_query text = UQ (Some q) -> In (k_xt, k_urn_btih ++ h) (form_pairs lossy q) ->
                 length h = 40%nat -> ~ Forall hexchar h) ->
    forall ih name trs prs, own_parse lossy url_norm hp_norm text <> Parsed ih name trs prs.
  Proof.
    intros Hno ih name trs prs H. destruct (own_parse_accepts_topic _ _ _ _ _ H) as (q & h & Hq & Hin & Hl & Hc & _).
    exact (Hno q h Hq Hin Hl Hc).
  Qed.
End OwnProofs.

(* ------------------------------------------------------------------ the tracker list *)

Lemma mem_in t seen : existsb (bytes_eqb t) seen = true <-> In t seen.
Proof.
  rewrite existsb_exists. split.
  - intros (x & Hin & E). apply bytes_eqb_eq in E. subst. exact Hin.
  - intros Hin. exists t. split; [exact Hin|apply bytes_eqb_refl].
Qed.

Lemma mem_not_in t seen : existsb (bytes_eqb t) seen = false <-> ~ In t seen.
Proof. rewrite <- mem_in. destruct (existsb (bytes_eqb t) seen); split; congruence. Qed.

Lemma dedup_loop_in seen l x : In x (dedup_loop seen l) <-> In x l /\ ~ In x seen.
Proof.
  revert seen. induction l as [|t r IH]; intros seen; cbn [dedup_loop].
  - cbn. tauto.
  - destruct (existsb (bytes_eqb t) seen) eqn:E.
    + apply mem_in in E. rewrite IH. cbn [In]. split; [tauto|]. intros [[->|H] Hn]; [contradiction|tauto].
    + apply mem_not_in in E. cbn [In]. rewrite IH. cbn [In]. split.
      * intros [->|[H Hn]]; [tauto|]. split; [tauto|]. intros Hs. apply Hn. right. exact Hs.
      * intros [[->|H] Hn]; [left; reflexivity|].
        destruct (list_eq_dec N.eq_dec t x) as [->|Hne]; [left; reflexivity|].
        right. split; [exact H|]. intros [->|Hs]; [congruence|contradiction].
Qed.

Lemma dedup_loop_nodup seen l : NoDup (dedup_loop seen l).
Proof.
  revert seen. induction l as [|t r IH]; intros seen; cbn [dedup_loop]; [constructor|].
  destruct (existsb (bytes_eqb t) seen) eqn:E; [apply IH|].
  constructor; [|apply IH]. rewrite dedup_loop_in. intros [_ Hn]. apply Hn. left. reflexivity.
Qed.

(** position of the first occurrence *)
Fixpoint first_idx (x : bytes) (l : list bytes) : nat :=
  match l with
  | [] => 0
  | y :: r => if bytes_eqb x y then 0 else S (first_idx x r)
  end.

Lemma StronglySorted_rel {A} (R R' : A -> A -> Prop) l :
  (forall a b, In a l -> In b l -> R a b -> R' a b) -> StronglySorted R l -> StronglySorted R' l.
Proof.
  intros Himp H. induction H as [|a l Hs IH Hall]; [constructor|].
  constructor.
  - apply IH. intros x y Hx Hy. apply Himp; right; assumption.
  - rewrite Forall_forall in *. intros y Hy. apply Himp; [left; reflexivity|right; exact Hy|apply Hall, Hy].
Qed.

Lemma dedup_loop_sorted seen l :
  StronglySorted (fun x y => (first_idx x l < first_idx y l)%nat) (dedup_loop seen l).
Proof.
  revert seen. induction l as [|t r IH]; intros seen; cbn [dedup_loop]; [constructor|].
  assert (Hshift : forall s', In t s' ->
                   StronglySorted (fun x y => (first_idx x (t :: r) < first_idx y (t :: r))%nat) (dedup_loop s' r)).
  { intros s' Ht. eapply StronglySorted_rel; [|apply (IH s')].
    intros a b Ha Hb Hlt. cbv beta in Hlt. apply dedup_loop_in in Ha, Hb. cbn [first_idx].
    rewrite (bytes_eqb_neq a t), (bytes_eqb_neq b t); [lia| |]; intros ->; tauto. }
  destruct (existsb (bytes_eqb t) seen) eqn:E.
  - apply mem_in in E. apply Hshift. exact E.
  - constructor.
    + apply Hshift. left. reflexivity.
    + apply Forall_forall. intros y Hy. apply dedup_loop_in in Hy. cbn [first_idx].
      rewrite bytes_eqb_refl, (bytes_eqb_neq y t); [lia|]. intros ->. apply (proj2 Hy). left. reflexivity.
Qed.

(** C10: one entry per distinct tracker text, in first-appearance order (announce first, then tiers) *)
Theorem trackers_order_dedup announce tiers :
  let all := match announce with Some a => [a] | None => [] end ++ concat tiers in
  let ts := tracker_texts announce tiers in
  NoDup ts /\ (forall t, In t ts <-> In t all) /\
  StronglySorted (fun x y => (first_idx x all < first_idx y all)%nat) ts.
Proof.
  cbv zeta. unfold tracker_texts. split; [apply dedup_loop_nodup|]. split; [|apply dedup_loop_sorted].
  intros t. rewrite dedup_loop_in. cbn [In]. tauto.
Qed.

Lemma tracker_texts_announce_first a tiers : exists r, tracker_texts (Some a) tiers = a :: r.
Proof. unfold tracker_texts. cbn [app dedup_loop existsb]. eexists. reflexivity. Qed.

(* ------------------------------------------------------------------ the index set *)

Lemma set_insert_in x s y : In y (set_insert x s) <-> y = x \/ In y s.
Proof.
  induction s as [|z r IH]; cbn [set_insert In]; [intuition|].
  destruct (x <? z); [cbn [In]; intuition|].
  destruct (N.eqb_spec x z) as [->|Hne]; cbn [In]; [intuition|]. rewrite IH. intuition.
Qed.

Lemma set_insert_hdrel a x s : HdRel N.lt a s -> a < x -> HdRel N.lt a (set_insert x s).
Proof.
  intros H Hax. destruct s as [|z r]; cbn [set_insert]; [constructor; exact Hax|].
  inversion H; subst. destruct (x <? z); [constructor; exact Hax|].
  destruct (x =? z); constructor; assumption.
Qed.

Lemma set_insert_sorted x s : Sorted N.lt s -> Sorted N.lt (set_insert x s).
Proof.
  induction 1 as [|z r Hs IH Hd]; cbn [set_insert]; [repeat constructor|].
  destruct (N.ltb_spec x z) as [Hlt|Hge].
  - constructor; [constructor; assumption|constructor; exact Hlt].
  - destruct (N.eqb_spec x z) as [->|Hne]; [constructor; assumption|].
    constructor; [exact IH|]. apply set_insert_hdrel; [exact Hd|lia].
Qed.

Lemma index_fold_spec l : forall s, Sorted N.lt s ->
  Sorted N.lt (fold_left (fun s x => set_insert x s) l s) /\
  forall y, In y (fold_left (fun s x => set_insert x s) l s) <-> In y l \/ In y s.
Proof.
  induction l as [|x l IH]; intros s Hs; cbn [fold_left].
  - split; [exact Hs|]. cbn. tauto.
  - destruct (IH (set_insert x s) (set_insert_sorted x s Hs)) as [H1 H2]. split; [exact H1|].
    intros y. rewrite H2, set_insert_in. cbn [In]. intuition.
Qed.

(** C10: `so` lists the requested indices ascending and without duplicates *)
Theorem indices_sorted_dedup l :
  StronglySorted N.lt (index_set l) /\ forall x, In x (index_set l) <-> In x l.
Proof.
  unfold index_set. destruct (index_fold_spec l [] (Sorted_nil _)) as [H1 H2]. split.
  - apply Sorted_StronglySorted; [|exact H1]. intros a b c. apply N.lt_trans.
  - intros x. rewrite H2. cbn. tauto.
Qed.

(* ------------------------------------------------------------------ reading `so` back *)

Lemma read_dec_dec n : read_dec (dec n) = Some n.
Proof.
  unfold read_dec. destruct (dec_hd n) as (b & t & E & _). rewrite E. rewrite <- E. unfold dec.
  rewrite <- (app_nil_r (uint_bytes (N.to_uint n))). rewrite take_digits_app by reflexivity.
  rewrite DecimalN.Unsigned.of_to. reflexivity.
Qed.

Lemma dec_no_comma n : no 44 (dec n).
Proof. unfold dec. eapply Forall_impl; [|apply uint_bytes_digits]. intros b H. cbv beta in H. lia. Qed.

Lemma map_opt_read_dec s : map_opt read_dec (map dec s) = Some s.
Proof. induction s as [|x s IH]; [reflexivity|]. cbn [map map_opt]. rewrite read_dec_dec, IH. reflexivity. Qed.

(** the printed `so` value reads back as exactly the index list *)
Theorem read_so_value s : s <> [] -> read_so (so_value s) = Some s.
Proof.
  intros Hne. unfold read_so, so_value. rewrite split_join.
  - apply map_opt_read_dec.
  - destruct s; [congruence|discriminate].
  - apply Forall_map. apply Forall_forall. intros n _. apply dec_no_comma.
Qed.

(* ------------------------------------------------------------------ `torrent link` as a whole *)

(** C10 for `torrent link`: the printed URI decodes, under either convention, to the infohash, the
    name, one `tr` per distinct tracker text in first-appearance order (in url normal form), one
    `x.pe` per peer, and the ascending duplicate-free selection *)
Theorem link_cmd_decodes url_norm plus ih name announce tiers peers select_only uri :
  wfb ih -> wfb name -> Forall wfb peers ->
  (forall t u, url_norm t = Some u -> wfb u) ->
  link_cmd url_norm ih name announce tiers peers select_only = Some uri ->
  exists q trs,
    map_opt url_norm (tracker_texts announce tiers) = Some trs /\
    uri_query uri = Some q /\
    std_parse plus q =
      (k_xt, k_urn_btih ++ hex_lower ih) :: (k_dn, name)
      :: map (fun t => (k_tr, t)) trs ++ map (fun p => (k_pe, p)) peers
      ++ match index_set select_only with [] => [] | _ :: _ => [(k_so, so_value (index_set select_only))] end.
Proof.
  intros Hih Hn Hp Hu H. unfold link_cmd in H.
  destruct (map_opt url_norm (tracker_texts announce tiers)) as [trs|] eqn:Em; [|discriminate].
  inversion H; subst uri. clear H.
  assert (Hwf : wf_link (Link ih (Some name) trs peers (index_set select_only))).
  { unfold wf_link. cbn [l_ih l_name l_trackers l_peers]. repeat split; try assumption.
    - intros n E. inversion E; subst. exact Hn.
    - apply Forall_forall. intros u Hin. apply In_nth_error in Hin. destruct Hin as [i Hi].
      clear - Em Hi Hu. revert trs i Em Hi. induction (tracker_texts announce tiers) as [|a l IH]; intros trs i Em Hi; cbn [map_opt] in Em.
      + inversion Em; subst. destruct i; discriminate.
      + destruct (url_norm a) as [c|] eqn:Ef; [|discriminate]. destruct (map_opt url_norm l) as [cs'|] eqn:Em'; [|discriminate].
        inversion Em; subst. destruct i as [|i]; cbn [nth_error] in Hi.
        * inversion Hi; subst. apply (Hu a). exact Ef.
        * apply (IH cs' i eq_refl Hi). }
  destruct (std_parse_print plus _ Hwf) as (q & Hq & Hs).
  exists q, trs. split; [reflexivity|]. split; [exact Hq|]. rewrite Hs. reflexivity.
Qed.
