(** C02 — a created torrent verifies against its content and fails after any real change.
    Only pinned statements, theorems closed by [exact], examples, [Print Assumptions].
    Model: Model/CreateVerify.v (create = Model/Hasher.v's loop over what the walker selected;
    verify = Model/Verify.v over Model/Fs.v), Model/Paths.v (default locations, over
    Model/CreateFs.v's path algebra). Proofs: Proofs/CreateVerifyProofs.v, Proofs/PathsProofs.v;
    instances: Proofs/CreateVerifyExamples.v.
    H = SHA-1, MD5, the hasher's read schedule csch and the verifier's read schedule vsch are
    universally quantified; so are the tree, the walker's selection, the piece length, --md5. *)
From Coq Require Import NArith List Bool.
From Imdl Require Import Base.Chunks Model.Bencode Model.Fs Model.Verify Model.CreateVerify Model.Paths
     Proofs.FsProofs Proofs.VerifyProofs Proofs.CreateVerifyProofs Proofs.PathsProofs Proofs.CreateVerifyExamples.
From Imdl Require Model.Hasher Model.CreateFs.
Import ListNotations.
Local Open Scope N_scope.

(** create writes what the hasher specification (C01) says: one hash per piece of the
    concatenation of the selected files, lengths, optional MD5s; piece length in 1..2^32-1 *)
Check create_t_spec : forall H MD5 md5 p name csch src sel t,
  create_t H MD5 md5 p name csch src sel = Some t ->
  exists c, gather src sel = Some c /\ 0 < p < 2 ^ 32 /\ t = spec_torrent H MD5 md5 p name c.
Theorem c02_create_writes_spec : forall H MD5 md5 p name csch src sel t,
  create_t H MD5 md5 p name csch src sel = Some t ->
  exists c, gather src sel = Some c /\ 0 < p < 2 ^ 32 /\ t = spec_torrent H MD5 md5 p name c.
Proof. exact create_t_spec. Qed.

(** verifying a torrent just created against the unmodified input succeeds: for every tree,
    every selection of plain relative paths, every piece length, --md5 on or off, and every pair
    of short-read schedules (the hasher's and the verifier's) *)
Check create_then_verify : forall H MD5 md5 p name csch vsch fs root src sel t,
  resolve fs root = Some src -> Forall plain_path sel ->
  create_t H MD5 md5 p name csch src sel = Some t ->
  verify H MD5 vsch fs root t = Some true.
Theorem c02_create_then_verify : forall H MD5 md5 p name csch vsch fs root src sel t,
  resolve fs root = Some src -> Forall plain_path sel ->
  create_t H MD5 md5 p name csch src sel = Some t ->
  verify H MD5 vsch fs root t = Some true.
Proof. exact create_then_verify. Qed.

(** on ANY later filesystem (= after any finite sequence of edits) the verdict is success
    exactly when every listed path is currently a regular file holding its creation-time bytes.
    The only hypothesis: no two different blocks among those compared have the same SHA-1
    (used left to right only). *)
Check verify_tracks_content : forall H MD5 md5 p name csch vsch src sel t root,
  create_t H MD5 md5 p name csch src sel = Some t ->
  exists c, gather src sel = Some c /\
    forall fs',
      collision_free H p (map snd (listing_of c)) (map (content fs') (entries root t)) ->
      (verify H MD5 vsch fs' root t = Some true <-> Forall (holds fs' root) (listing_of c)).
Theorem c02_verify_tracks_content : forall H MD5 md5 p name csch vsch src sel t root,
  create_t H MD5 md5 p name csch src sel = Some t ->
  exists c, gather src sel = Some c /\
    forall fs',
      collision_free H p (map snd (listing_of c)) (map (content fs') (entries root t)) ->
      (verify H MD5 vsch fs' root t = Some true <-> Forall (holds fs' root) (listing_of c)).
Proof. exact verify_tracks_content. Qed.

(** ... and otherwise there is a verdict and it is failure (exit status 1, never a crash or a
    third outcome of the verifier proper) *)
Theorem c02_real_change_fails : forall H MD5 md5 p name csch vsch src sel t root,
  create_t H MD5 md5 p name csch src sel = Some t ->
  exists c, gather src sel = Some c /\
    forall fs',
      collision_free H p (map snd (listing_of c)) (map (content fs') (entries root t)) ->
      ~ Forall (holds fs' root) (listing_of c) -> verify H MD5 vsch fs' root t = Some false.
Proof. exact real_change_fails. Qed.

Theorem c02_always_a_verdict : forall H MD5 vsch fs root t, exists b, verify H MD5 vsch fs root t = Some b.
Proof. exact verify_total. Qed.

(** unlisted files are irrelevant: filesystems that agree on what the listed paths resolve to
    get the same verdict and the same report (any torrent; no hypothesis on the hashes) *)
Check verify_ignores_unlisted : forall H MD5 vsch fs1 fs2 root t,
  (forall e, In e (entries root t) -> resolve fs1 (epath e) = resolve fs2 (epath e)) ->
  verify H MD5 vsch fs1 root t = verify H MD5 vsch fs2 root t /\
  verify_report H MD5 vsch fs1 root t = verify_report H MD5 vsch fs2 root t.
Theorem c02_verify_ignores_unlisted : forall H MD5 vsch fs1 fs2 root t,
  (forall e, In e (entries root t) -> resolve fs1 (epath e) = resolve fs2 (epath e)) ->
  verify H MD5 vsch fs1 root t = verify H MD5 vsch fs2 root t /\
  verify_report H MD5 vsch fs1 root t = verify_report H MD5 vsch fs2 root t.
Proof. exact verify_ignores_unlisted. Qed.

Theorem c02_created_ignores_unlisted : forall H MD5 md5 p name csch vsch src sel t root fs1 fs2,
  create_t H MD5 md5 p name csch src sel = Some t ->
  exists c, gather src sel = Some c /\
    ((forall e, In e (listing_of c) ->
        resolve fs1 (absolute root (fst e)) = resolve fs2 (absolute root (fst e))) ->
     verify H MD5 vsch fs1 root t = verify H MD5 vsch fs2 root t).
Proof. exact created_ignores_unlisted. Qed.

(** undoing the edits restores success: whatever happened in between and whatever else differs
    now, once every listed path resolves to what it resolved to at creation (no hypothesis on H) *)
Check revert_restores : forall H MD5 md5 p name csch vsch fs root src sel t fs_back,
  resolve fs root = Some src -> Forall plain_path sel ->
  create_t H MD5 md5 p name csch src sel = Some t ->
  (forall e, In e (entries root t) -> resolve fs_back (epath e) = resolve fs (epath e)) ->
  verify H MD5 vsch fs_back root t = Some true.
Theorem c02_revert_restores : forall H MD5 md5 p name csch vsch fs root src sel t fs_back,
  resolve fs root = Some src -> Forall plain_path sel ->
  create_t H MD5 md5 p name csch src sel = Some t ->
  (forall e, In e (entries root t) -> resolve fs_back (epath e) = resolve fs (epath e)) ->
  verify H MD5 vsch fs_back root t = Some true.
Proof. exact revert_restores. Qed.

(** what a failed verification says ([Status::print]): a failure always says something
    ("Pieces corrupted." or a named file); every listed file that is missing, is a directory,
    has another length, or (with --md5) another MD5 is named with that error; and only files
    that really differ are named *)
Check failed_names_files : forall H MD5 md5 p name csch vsch src sel t root,
  create_t H MD5 md5 p name csch src sel = Some t ->
  exists c, gather src sel = Some c /\
  forall fs', exists r,
    verify_report H MD5 vsch fs' root t = Some r /\
    verify H MD5 vsch fs' root t = Some (r_good r) /\
    (r_good r = false -> r_pieces r = false \/ r_named r <> []) /\
    (forall e, In e (listing_of c) ->
       (resolve fs' (absolute root (fst e)) = None -> In (fst e, Missing) (r_named r)) /\
       (forall ch, resolve fs' (absolute root (fst e)) = Some (Dir ch) -> In (fst e, IsDirectory) (r_named r)) /\
       (forall c', resolve fs' (absolute root (fst e)) = Some (File c') -> length c' <> length (snd e) ->
                   In (fst e, Surfeit) (r_named r) \/ In (fst e, Dearth) (r_named r)) /\
       (forall c', resolve fs' (absolute root (fst e)) = Some (File c') -> length c' = length (snd e) ->
                   md5 = true -> MD5 c' <> MD5 (snd e) -> In (fst e, BadMd5) (r_named r))) /\
    (forall pa err, In (pa, err) (r_named r) ->
       exists e, In e (listing_of c) /\ fst e = pa /\ ~ holds fs' root e).
Theorem c02_failed_names_files : forall H MD5 md5 p name csch vsch src sel t root,
  create_t H MD5 md5 p name csch src sel = Some t ->
  exists c, gather src sel = Some c /\
  forall fs', exists r,
    verify_report H MD5 vsch fs' root t = Some r /\
    verify H MD5 vsch fs' root t = Some (r_good r) /\
    (r_good r = false -> r_pieces r = false \/ r_named r <> []) /\
    (forall e, In e (listing_of c) ->
       (resolve fs' (absolute root (fst e)) = None -> In (fst e, Missing) (r_named r)) /\
       (forall ch, resolve fs' (absolute root (fst e)) = Some (Dir ch) -> In (fst e, IsDirectory) (r_named r)) /\
       (forall c', resolve fs' (absolute root (fst e)) = Some (File c') -> length c' <> length (snd e) ->
                   In (fst e, Surfeit) (r_named r) \/ In (fst e, Dearth) (r_named r)) /\
       (forall c', resolve fs' (absolute root (fst e)) = Some (File c') -> length c' = length (snd e) ->
                   md5 = true -> MD5 c' <> MD5 (snd e) -> In (fst e, BadMd5) (r_named r))) /\
    (forall pa err, In (pa, err) (r_named r) ->
       exists e, In e (listing_of c) /\ fst e = pa /\ ~ holds fs' root e).
Proof. exact failed_names_files. Qed.

(** histories: arbitrary edits (any function on the tree) interleaved with verify and
    `create --force`: every verdict equals content equality with the last creation *)
Check history_tracks_content : forall H MD5 md5 p name csch vsch root,
  0 < p < 2 ^ 32 -> (forall a b, H a = H b -> a = b) ->
  forall ops fs cur, wf_created H MD5 md5 p name cur ->
    run_history H MD5 md5 p name csch vsch root fs cur ops =
    map Some (spec_history H MD5 md5 p name csch root fs cur ops).
Theorem c02_history_tracks_content : forall H MD5 md5 p name csch vsch root,
  0 < p < 2 ^ 32 -> (forall a b, H a = H b -> a = b) ->
  forall ops fs cur, wf_created H MD5 md5 p name cur ->
    run_history H MD5 md5 p name csch vsch root fs cur ops =
    map Some (spec_history H MD5 md5 p name csch root fs cur ops).
Proof. exact history_tracks_content. Qed.

(** default locations. Create's default output is the input's sibling NAME.torrent; verify's
    default content root is the torrent's sibling NAME; so when NAME is the resolved input's own
    file name, verify given that torrent and no --content looks exactly where create read -
    for every working directory and every input path text *)
Check torrent_next_to_input : forall cwd ip nm D last_,
  CreateFs.env_resolve cwd ip = D ++ [last_] -> plain_name nm = true ->
  CreateFs.env_resolve cwd (CreateFs.torrent_path ip nm) = D ++ [CreateFs.name_torrent nm].
Theorem c02_torrent_next_to_input : forall cwd ip nm D last_,
  CreateFs.env_resolve cwd ip = D ++ [last_] -> plain_name nm = true ->
  CreateFs.env_resolve cwd (CreateFs.torrent_path ip nm) = D ++ [CreateFs.name_torrent nm].
Proof. exact torrent_next_to_input. Qed.

Check content_next_to_torrent : forall cwd tp nm D tfile,
  CreateFs.env_resolve cwd tp = D ++ [tfile] -> plain_name nm = true ->
  CreateFs.env_resolve cwd (verify_default_root tp nm) = D ++ [nm].
Theorem c02_content_next_to_torrent : forall cwd tp nm D tfile,
  CreateFs.env_resolve cwd tp = D ++ [tfile] -> plain_name nm = true ->
  CreateFs.env_resolve cwd (verify_default_root tp nm) = D ++ [nm].
Proof. exact content_next_to_torrent. Qed.

Check default_locations_inverse : forall cwd ip nm D,
  CreateFs.env_resolve cwd ip = D ++ [nm] -> plain_name nm = true ->
  CreateFs.env_resolve cwd (verify_default_root (CreateFs.torrent_path ip nm) nm) = CreateFs.env_resolve cwd ip.
Theorem c02_default_locations_inverse : forall cwd ip nm D,
  CreateFs.env_resolve cwd ip = D ++ [nm] -> plain_name nm = true ->
  CreateFs.env_resolve cwd (verify_default_root (CreateFs.torrent_path ip nm) nm) = CreateFs.env_resolve cwd ip.
Proof. exact default_locations_inverse. Qed.

(** the executable function the correspondence run evaluates against the binary, for working
    directory and input both given as text: no side condition left *)
Check default_locations_spec : forall cwd input nm tp root,
  default_locations cwd input = Some (nm, (tp, root)) ->
  root = CreateFs.env_resolve (CreateFs.p_comps (CreateFs.parse_path cwd)) (CreateFs.parse_path input) /\
  exists D, root = D ++ [nm] /\ tp = D ++ [CreateFs.name_torrent nm].
Theorem c02_default_locations_spec : forall cwd input nm tp root,
  default_locations cwd input = Some (nm, (tp, root)) ->
  root = CreateFs.env_resolve (CreateFs.p_comps (CreateFs.parse_path cwd)) (CreateFs.parse_path input) /\
  exists D, root = D ++ [nm] /\ tp = D ++ [CreateFs.name_torrent nm].
Proof. exact default_locations_spec. Qed.

(** instances: the hypotheses are satisfiable, the outcomes are not vacuous *)
Example c02_ex_hyps : resolve fs0 root0 = Some src0 /\ Forall plain_path sel0.
Proof. exact ex_hyps. Qed.
Example c02_ex_created :
  exists t, t0 = Some t /\ tpieces t = [[97;98;99;100]; [101;102;103;104]; [105;106;107;108]] /\
            paths_of t = sel0.
Proof. exact ex_created. Qed.
Example c02_ex_create_then_verify : verdict fs0 = Some (Some true).
Proof. exact ex_create_then_verify. Qed.
Example c02_ex_flip_in_last_partial_piece :
  verdict fs_flip = Some (Some false) /\
  reported fs_flip = Some (Some {| r_good := false; r_pieces := false; r_named := [([Dn; B], BadMd5)] |}).
Proof. exact ex_flip_in_last_partial_piece. Qed.
Example c02_ex_empty_file_becomes_directory :
  verdict fs_edir = Some (Some false) /\
  reported fs_edir = Some (Some {| r_good := false; r_pieces := true; r_named := [([En], IsDirectory)] |}).
Proof. exact ex_empty_file_becomes_directory. Qed.
Example c02_ex_unlisted_file_is_irrelevant : verdict fs_extra = Some (Some true).
Proof. exact ex_unlisted_file_is_irrelevant. Qed.
Example c02_ex_collision_free : forall p old new, collision_free idh p old new.
Proof. exact ex_collision_free. Qed.
Example c02_ex_history :
  match t0 with
  | Some t =>
      run_history idh idh true 4 IN csch0 vsch0 root0 fs0
        {| c_torrent := t; c_listing := [([A], abcde); ([Dn; B], fghijkl); ([En], [])] |}
        [DoVerify; Edit (fun _ => fs_flip); DoVerify;
         Edit (fun _ => fs_of (in_dir fghijkX (File []) [(Zn, File [1])])); DoVerify;
         Recreate sel0; DoVerify; Edit (fun _ => fs_extra); DoVerify]
  | None => []
  end = [Some true; Some false; Some false; Some true; Some false].
Proof. exact ex_history. Qed.
Example c02_ex_default_locations :
  default_locations [47; 119] IN = Some (IN, ([W; CreateFs.name_torrent IN], [W; IN])) /\
  default_locations [47; 119; 47; 105; 110] [46] = Some (IN, ([W; CreateFs.name_torrent IN], [W; IN])) /\
  default_locations [47; 119] [120; 47; 46; 46; 47; 105; 110; 47] = Some (IN, ([W; CreateFs.name_torrent IN], [W; IN])) /\
  default_locations [47; 122] [47; 119; 47; 105; 110] = Some (IN, ([W; CreateFs.name_torrent IN], [W; IN])).
Proof. exact ex_default_locations. Qed.
Example c02_ex_paths_hyp :
  CreateFs.env_resolve [W] (CreateFs.parse_path IN) = [W] ++ [IN] /\ plain_name IN = true.
Proof. exact ex_paths_hyp. Qed.

Print Assumptions c02_create_writes_spec.
Print Assumptions c02_create_then_verify.
Print Assumptions c02_verify_tracks_content.
Print Assumptions c02_real_change_fails.
Print Assumptions c02_always_a_verdict.
Print Assumptions c02_verify_ignores_unlisted.
Print Assumptions c02_created_ignores_unlisted.
Print Assumptions c02_revert_restores.
Print Assumptions c02_failed_names_files.
Print Assumptions c02_history_tracks_content.
Print Assumptions c02_torrent_next_to_input.
Print Assumptions c02_content_next_to_torrent.
Print Assumptions c02_default_locations_inverse.
Print Assumptions c02_default_locations_spec.
Print Assumptions c02_ex_hyps.
Print Assumptions c02_ex_created.
Print Assumptions c02_ex_create_then_verify.
Print Assumptions c02_ex_flip_in_last_partial_piece.
Print Assumptions c02_ex_empty_file_becomes_directory.
Print Assumptions c02_ex_unlisted_file_is_irrelevant.
Print Assumptions c02_ex_collision_free.
Print Assumptions c02_ex_history.
Print Assumptions c02_ex_default_locations.
Print Assumptions c02_ex_paths_hyp.
