(** C02 — a created torrent verifies against its content and fails after any real change.
    Only pinned statements, theorems closed by [exact], examples, [Print Assumptions].
    Model: Model/CreateVerify.v (create = Model/Hasher.v's loop over what the walker selected;
    verify = Model/Verify.v over Model/Fs.v), Model/Paths.v (default locations, over
    Model/CreateFs.v's path algebra). Proofs: Proofs/CreateVerifyProofs.v, Proofs/PathsProofs.v;
    instances: Proofs/CreateVerifyExamples.v.
    H = SHA-1, MD5, the hasher's read schedule csch and the verifier's read schedule vsch are
    universally quantified; so are the tree, the walker's selection, the piece length, --md5.
    End to end (last part): Model/EndToEnd.v, Proofs/EndToEndProofs.v, Proofs/EndToEndExamples.v
    compose the above with C05's metainfo assembly (Model/Metainfo.v), C04's strict bencode
    (Model/Bencode.v) and C03's loader (Model/Verify.v [load]). *)
From Coq Require Import NArith List Bool.
From Imdl Require Import Base.Chunks Model.Bencode Model.Fs Model.Verify Model.CreateVerify Model.Paths
     Proofs.FsProofs Proofs.VerifyProofs Proofs.CreateVerifyProofs Proofs.PathsProofs Proofs.CreateVerifyExamples.
From Imdl Require Import Model.EndToEnd Proofs.EndToEndProofs Proofs.EndToEndExamples.
From Imdl Require Model.Hasher Model.CreateFs Model.Schema Model.Metainfo Model.Picker Proofs.MetainfoProofs.
Import ListNotations.
Local Open Scope N_scope.

(** create writes what the hasher specification (C01) says: one hash per piece of the
    concatenation of the selected files, lengths, optional MD5s; piece length in 1..2^32-1 *)
Check create_t_spec : forall H MD5 md5 p name csch src sel t,
  create_t H MD5 md5 p name csch src sel = Some t ->
  exists c, gather src sel = Some c /\ 0 < p < 2 ^ 32 /\ t = spec_torrent H MD5 md5 p name c.
Theorem c02_create_writes_spec : forall H MD5 md5 p name csch src sel t,
  create_t H MD5 md5 p name csch src sel = Some t ->
  exists c, gather src sel = Some c /\ 0 < p < 2 ^ 32 /\ t = spec_torrent H MD5 md5 p name c.
Proof. exact create_t_spec. Qed.

(** verifying a torrent just created against the unmodified input succeeds: for every tree,
    every selection of plain relative paths, every piece length, --md5 on or off, and every pair
    of short-read schedules (the hasher's and the verifier's) *)
Check create_then_verify : forall H MD5 md5 p name csch vsch fs root src sel t,
  resolve fs root = Some src -> Forall plain_path sel ->
  create_t H MD5 md5 p name csch src sel = Some t ->
  verify H MD5 vsch fs root t = Some true.
Theorem c02_create_then_verify : forall H MD5 md5 p name csch vsch fs root src sel t,
  resolve fs root = Some src -> Forall plain_path sel ->
  create_t H MD5 md5 p name csch src sel = Some t ->
  verify H MD5 vsch fs root t = Some true.
Proof. exact create_then_verify. Qed.

(** on ANY later filesystem (= after any finite sequence of edits) the verdict is success
    exactly when every listed path is currently a regular file holding its creation-time bytes.
    The only hypothesis: no two different blocks among those compared have the same SHA-1
    (used left to right only). *)
Check verify_tracks_content : forall H MD5 md5 p name csch vsch src sel t root,
  create_t H MD5 md5 p name csch src sel = Some t ->
  exists c, gather src sel = Some c /\
    forall fs',
      collision_free H p (map snd (listing_of c)) (map (content fs') (entries root t)) ->
      (verify H MD5 vsch fs' root t = Some true <-> Forall (holds fs' root) (listing_of c)).
Theorem c02_verify_tracks_content : forall H MD5 md5 p name csch vsch src sel t root,
  create_t H MD5 md5 p name csch src sel = Some t ->
  exists c, gather src sel = Some c /\
    forall fs',
      collision_free H p (map snd (listing_of c)) (map (content fs') (entries root t)) ->
      (verify H MD5 vsch fs' root t = Some true <-> Forall (holds fs' root) (listing_of c)).
Proof. exact verify_tracks_content. Qed.

(** ... and otherwise there is a verdict and it is failure (exit status 1, never a crash or a
    third outcome of the verifier proper) *)
Theorem c02_real_change_fails : forall H MD5 md5 p name csch vsch src sel t root,
  create_t H MD5 md5 p name csch src sel = Some t ->
  exists c, gather src sel = Some c /\
    forall fs',
      collision_free H p (map snd (listing_of c)) (map (content fs') (entries root t)) ->
      ~ Forall (holds fs' root) (listing_of c) -> verify H MD5 vsch fs' root t = Some false.
Proof. exact real_change_fails. Qed.

Theorem c02_always_a_verdict : forall H MD5 vsch fs root t, exists b, verify H MD5 vsch fs root t = Some b.
Proof. exact verify_total. Qed.

(** unlisted files are irrelevant: filesystems that agree on what the listed paths resolve to
    get the same verdict and the same report (any torrent; no hypothesis on the hashes) *)
Check verify_ignores_unlisted : forall H MD5 vsch fs1 fs2 root t,
  (forall e, In e (entries root t) -> resolve fs1 (epath e) = resolve fs2 (epath e)) ->
  verify H MD5 vsch fs1 root t = verify H MD5 vsch fs2 root t /\
  verify_report H MD5 vsch fs1 root t = verify_report H MD5 vsch fs2 root t.
Theorem c02_verify_ignores_unlisted : forall H MD5 vsch fs1 fs2 root t,
  (forall e, In e (entries root t) -> resolve fs1 (epath e) = resolve fs2 (epath e)) ->
  verify H MD5 vsch fs1 root t = verify H MD5 vsch fs2 root t /\
  verify_report H MD5 vsch fs1 root t = verify_report H MD5 vsch fs2 root t.
Proof. exact verify_ignores_unlisted. Qed.

Theorem c02_created_ignores_unlisted : forall H MD5 md5 p name csch vsch src sel t root fs1 fs2,
  create_t H MD5 md5 p name csch src sel = Some t ->
  exists c, gather src sel = Some c /\
    ((forall e, In e (listing_of c) ->
        resolve fs1 (absolute root (fst e)) = resolve fs2 (absolute root (fst e))) ->
     verify H MD5 vsch fs1 root t = verify H MD5 vsch fs2 root t).
Proof. exact created_ignores_unlisted. Qed.

(** undoing the edits restores success: whatever happened in between and whatever else differs
    now, once every listed path resolves to what it resolved to at creation (no hypothesis on H) *)
Check revert_restores : forall H MD5 md5 p name csch vsch fs root src sel t fs_back,
  resolve fs root = Some src -> Forall plain_path sel ->
  create_t H MD5 md5 p name csch src sel = Some t ->
  (forall e, In e (entries root t) -> resolve fs_back (epath e) = resolve fs (epath e)) ->
  verify H MD5 vsch fs_back root t = Some true.
Theorem c02_revert_restores : forall H MD5 md5 p name csch vsch fs root src sel t fs_back,
  resolve fs root = Some src -> Forall plain_path sel ->
  create_t H MD5 md5 p name csch src sel = Some t ->
  (forall e, In e (entries root t) -> resolve fs_back (epath e) = resolve fs (epath e)) ->
  verify H MD5 vsch fs_back root t = Some true.
Proof. exact revert_restores. Qed.

(** what a failed verification says ([Status::print]): a failure always says something
    ("Pieces corrupted." or a named file); every listed file that is missing, is a directory,
    has another length, or (with --md5) another MD5 is named with that error; and only files
    that really differ are named *)
Check failed_names_files : forall H MD5 md5 p name csch vsch src sel t root,
  create_t H MD5 md5 p name csch src sel = Some t ->
  exists c, gather src sel = Some c /\
  forall fs', exists r,
    verify_report H MD5 vsch fs' root t = Some r /\
    verify H MD5 vsch fs' root t = Some (r_good r) /\
    (r_good r = false -> r_pieces r = false \/ r_named r <> []) /\
    (forall e, In e (listing_of c) ->
       (resolve fs' (absolute root (fst e)) = None -> In (fst e, Missing) (r_named r)) /\
       (forall ch, resolve fs' (absolute root (fst e)) = Some (Dir ch) -> In (fst e, IsDirectory) (r_named r)) /\
       (forall c', resolve fs' (absolute root (fst e)) = Some (File c') -> length c' <> length (snd e) ->
                   In (fst e, Surfeit) (r_named r) \/ In (fst e, Dearth) (r_named r)) /\
       (forall c', resolve fs' (absolute root (fst e)) = Some (File c') -> length c' = length (snd e) ->
                   md5 = true -> MD5 c' <> MD5 (snd e) -> In (fst e, BadMd5) (r_named r))) /\
    (forall pa err, In (pa, err) (r_named r) ->
       exists e, In e (listing_of c) /\ fst e = pa /\ ~ holds fs' root e).
Theorem c02_failed_names_files : forall H MD5 md5 p name csch vsch src sel t root,
  create_t H MD5 md5 p name csch src sel = Some t ->
  exists c, gather src sel = Some c /\
  forall fs', exists r,
    verify_report H MD5 vsch fs' root t = Some r /\
    verify H MD5 vsch fs' root t = Some (r_good r) /\
    (r_good r = false -> r_pieces r = false \/ r_named r <> []) /\
    (forall e, In e (listing_of c) ->
       (resolve fs' (absolute root (fst e)) = None -> In (fst e, Missing) (r_named r)) /\
       (forall ch, resolve fs' (absolute root (fst e)) = Some (Dir ch) -> In (fst e, IsDirectory) (r_named r)) /\
       (forall c', resolve fs' (absolute root (fst e)) = Some (File c') -> length c' <> length (snd e) ->
                   In (fst e, Surfeit) (r_named r) \/ In (fst e, Dearth) (r_named r)) /\
       (forall c', resolve fs' (absolute root (fst e)) = Some (File c') -> length c' = length (snd e) ->
                   md5 = true -> MD5 c' <> MD5 (snd e) -> In (fst e, BadMd5) (r_named r))) /\
    (forall pa err, In (pa, err) (r_named r) ->
       exists e, In e (listing_of c) /\ fst e = pa /\ ~ holds fs' root e).
Proof. exact failed_names_files. Qed.

(** histories: arbitrary edits (any function on the tree) interleaved with verify and
    `create --force`: every verdict equals content equality with the last creation *)
Check history_tracks_content : forall H MD5 md5 p name csch vsch root,
  0 < p < 2 ^ 32 -> (forall a b, H a = H b -> a = b) ->
  forall ops fs cur, wf_created H MD5 md5 p name cur ->
    run_history H MD5 md5 p name csch vsch root fs cur ops =
    map Some (spec_history H MD5 md5 p name csch root fs cur ops).
Theorem c02_history_tracks_content : forall H MD5 md5 p name csch vsch root,
  0 < p < 2 ^ 32 -> (forall a b, H a = H b -> a = b) ->
  forall ops fs cur, wf_created H MD5 md5 p name cur ->
    run_history H MD5 md5 p name csch vsch root fs cur ops =
    map Some (spec_history H MD5 md5 p name csch root fs cur ops).
Proof. exact history_tracks_content. Qed.

(** default locations. Create's default output is the input's sibling NAME.torrent; verify's
    default content root is the torrent's sibling NAME; so when NAME is the resolved input's own
    file name, verify given that torrent and no --content looks exactly where create read -
    for every working directory and every input path text *)
Check torrent_next_to_input : forall cwd ip nm D last_,
  CreateFs.env_resolve cwd ip = D ++ [last_] -> plain_name nm = true ->
  CreateFs.env_resolve cwd (CreateFs.torrent_path ip nm) = D ++ [CreateFs.name_torrent nm].
Theorem c02_torrent_next_to_input : forall cwd ip nm D last_,
  CreateFs.env_resolve cwd ip = D ++ [last_] -> plain_name nm = true ->
  CreateFs.env_resolve cwd (CreateFs.torrent_path ip nm) = D ++ [CreateFs.name_torrent nm].
Proof. exact torrent_next_to_input. Qed.

Check content_next_to_torrent : forall cwd tp nm D tfile,
  CreateFs.env_resolve cwd tp = D ++ [tfile] -> plain_name nm = true ->
  CreateFs.env_resolve cwd (verify_default_root tp nm) = D ++ [nm].
Theorem c02_content_next_to_torrent : forall cwd tp nm D tfile,
  CreateFs.env_resolve cwd tp = D ++ [tfile] -> plain_name nm = true ->
  CreateFs.env_resolve cwd (verify_default_root tp nm) = D ++ [nm].
Proof. exact content_next_to_torrent. Qed.

Check default_locations_inverse : forall cwd ip nm D,
  CreateFs.env_resolve cwd ip = D ++ [nm] -> plain_name nm = true ->
  CreateFs.env_resolve cwd (verify_default_root (CreateFs.torrent_path ip nm) nm) = CreateFs.env_resolve cwd ip.
Theorem c02_default_locations_inverse : forall cwd ip nm D,
  CreateFs.env_resolve cwd ip = D ++ [nm] -> plain_name nm = true ->
  CreateFs.env_resolve cwd (verify_default_root (CreateFs.torrent_path ip nm) nm) = CreateFs.env_resolve cwd ip.
Proof. exact default_locations_inverse. Qed.

(** the executable function the correspondence run evaluates against the binary, for working
    directory and input both given as text: no side condition left *)
Check default_locations_spec : forall cwd input nm tp root,
  default_locations cwd input = Some (nm, (tp, root)) ->
  root = CreateFs.env_resolve (CreateFs.p_comps (CreateFs.parse_path cwd)) (CreateFs.parse_path input) /\
  exists D, root = D ++ [nm] /\ tp = D ++ [CreateFs.name_torrent nm].
Theorem c02_default_locations_spec : forall cwd input nm tp root,
  default_locations cwd input = Some (nm, (tp, root)) ->
  root = CreateFs.env_resolve (CreateFs.p_comps (CreateFs.parse_path cwd)) (CreateFs.parse_path input) /\
  exists D, root = D ++ [nm] /\ tp = D ++ [CreateFs.name_torrent nm].
Proof. exact default_locations_spec. Qed.

(** instances: the hypotheses are satisfiable, the outcomes are not vacuous *)
Example c02_ex_hyps : resolve fs0 root0 = Some src0 /\ Forall plain_path sel0.
Proof. exact ex_hyps. Qed.
Example c02_ex_created :
  exists t, t0 = Some t /\ tpieces t = [[97;98;99;100]; [101;102;103;104]; [105;106;107;108]] /\
            paths_of t = sel0.
Proof. exact ex_created. Qed.
Example c02_ex_create_then_verify : verdict fs0 = Some (Some true).
Proof. exact ex_create_then_verify. Qed.
Example c02_ex_flip_in_last_partial_piece :
  verdict fs_flip = Some (Some false) /\
  reported fs_flip = Some (Some {| r_good := false; r_pieces := false; r_named := [([Dn; B], BadMd5)] |}).
Proof. exact ex_flip_in_last_partial_piece. Qed.
Example c02_ex_empty_file_becomes_directory :
  verdict fs_edir = Some (Some false) /\
  reported fs_edir = Some (Some {| r_good := false; r_pieces := true; r_named := [([En], IsDirectory)] |}).
Proof. exact ex_empty_file_becomes_directory. Qed.
Example c02_ex_unlisted_file_is_irrelevant : verdict fs_extra = Some (Some true).
Proof. exact ex_unlisted_file_is_irrelevant. Qed.
Example c02_ex_collision_free : forall p old new, collision_free idh p old new.
Proof. exact ex_collision_free. Qed.
Example c02_ex_history :
  match t0 with
  | Some t =>
      run_history idh idh true 4 IN csch0 vsch0 root0 fs0
        {| c_torrent := t; c_listing := [([A], abcde); ([Dn; B], fghijkl); ([En], [])] |}
        [DoVerify; Edit (fun _ => fs_flip); DoVerify;
         Edit (fun _ => fs_of (in_dir fghijkX (File []) [(Zn, File [1])])); DoVerify;
         Recreate sel0; DoVerify; Edit (fun _ => fs_extra); DoVerify]
  | None => []
  end = [Some true; Some false; Some false; Some true; Some false].
Proof. exact ex_history. Qed.
Example c02_ex_default_locations :
  default_locations [47; 119] IN = Some (IN, ([W; CreateFs.name_torrent IN], [W; IN])) /\
  default_locations [47; 119; 47; 105; 110] [46] = Some (IN, ([W; CreateFs.name_torrent IN], [W; IN])) /\
  default_locations [47; 119] [120; 47; 46; 46; 47; 105; 110; 47] = Some (IN, ([W; CreateFs.name_torrent IN], [W; IN])) /\
  default_locations [47; 122] [47; 119; 47; 105; 110] = Some (IN, ([W; CreateFs.name_torrent IN], [W; IN])).
Proof. exact ex_default_locations. Qed.
Example c02_ex_paths_hyp :
  CreateFs.env_resolve [W] (CreateFs.parse_path IN) = [W] ++ [IN] /\ plain_name IN = true.
Proof. exact ex_paths_hyp. Qed.

Print Assumptions c02_create_writes_spec.
Print Assumptions c02_create_then_verify.
Print Assumptions c02_verify_tracks_content.
Print Assumptions c02_real_change_fails.
Print Assumptions c02_always_a_verdict.
Print Assumptions c02_verify_ignores_unlisted.
Print Assumptions c02_created_ignores_unlisted.
Print Assumptions c02_revert_restores.
Print Assumptions c02_failed_names_files.
Print Assumptions c02_history_tracks_content.
Print Assumptions c02_torrent_next_to_input.
Print Assumptions c02_content_next_to_torrent.
Print Assumptions c02_default_locations_inverse.
Print Assumptions c02_default_locations_spec.
Print Assumptions c02_ex_hyps.
Print Assumptions c02_ex_created.
Print Assumptions c02_ex_create_then_verify.
Print Assumptions c02_ex_flip_in_last_partial_piece.
Print Assumptions c02_ex_empty_file_becomes_directory.
Print Assumptions c02_ex_unlisted_file_is_irrelevant.
Print Assumptions c02_ex_collision_free.
Print Assumptions c02_ex_history.
Print Assumptions c02_ex_default_locations.
Print Assumptions c02_ex_paths_hyp.

(** * end to end

    So far [create_t] yields the verifier's [torrent] record directly. In the real program the two
    commands are connected by a file: create assembles the metainfo value (C05: [Metainfo.build]
    from the command line [opts] and the [content] the walker and the hasher hand over), writes
    its bencoding (C04: [encode]), and verify reads the bytes back through its typed loader (C03:
    [load]). The statements below close that gap.

    [metainfo_of o md5 t] is the C05 input that corresponds to a creation result [t]: the name,
    the piece length, the files in listed order with their lengths and MD5s (16 raw bytes in [t],
    32 lower-case hex digits in the file), the piece string = the 20-byte digests one after the
    other; every other option of the command line [o] untouched. [agrees o md5 t] says the same of
    a command line as it is (no --name: the input's own name; no --piece-length: the picker).

    Hypotheses, all explicit:
      - of the digests (Section hypotheses): SHA-1 yields 20 bytes, MD5 yields 16, and MD5's are
        bytes ([byte] is [N] in the models; hex printing needs < 256);
      - C05's side conditions [opts_ok] / [input_ok] (every integer written fits bendy's i64);
      - the name and every selected component are valid UTF-8 (create refuses others before
        hashing; the composed model leaves names open), components plain (as in create_then_verify).
    These are exactly what [load] imposes: the examples [c02_ex_needs_*] drop one at a time and the
    loader refuses the bytes. *)

(** the layers model one thing differently in four places; each has a conversion and a lemma *)
Check dlookup_dget : forall k d, dlookup k d = Schema.dget k d.
Theorem c02_e2e_same_lookup : forall k d, dlookup k d = Schema.dget k d.
Proof. exact dlookup_dget. Qed.

Check unhex_hex : forall d, Forall (fun x => x < 256) d -> unhex (hex d) = Some d.
Theorem c02_e2e_unhex_hex : forall d, Forall (fun x => x < 256) d -> unhex (hex d) = Some d.
Proof. exact unhex_hex. Qed.

Check load_pieces_concat : forall ds,
  forallb (fun d => Nat.eqb (length d) 20) ds = true -> load_pieces (Str (concat ds)) = Some ds.
Theorem c02_e2e_pieces_cut_at_20 : forall ds,
  forallb (fun d => Nat.eqb (length d) 20) ds = true -> load_pieces (Str (concat ds)) = Some ds.
Proof. exact load_pieces_concat. Qed.

(** the loader's fuel (2 * length + 2) suffices for every canonical value *)
Check load_encode : forall v, wfb v = true -> load (encode v) = load_value v.
Theorem c02_e2e_loader_fuel_suffices : forall v, wfb v = true -> load (encode v) = load_value v.
Proof. exact load_encode. Qed.

(** for ANY torrent record that satisfies the loader's demands ([torrent_ok], a boolean) and any
    command line that agrees with it: what C05 assembles, serialised, loads back as that record *)
Check built_bytes_load_back : forall norm host_canon git_suffix o md5 t v,
  torrent_ok md5 t = true -> Metainfo.opts_ok o = true -> agrees o md5 t ->
  Metainfo.build norm host_canon git_suffix o (content_of t) = Some v ->
  load (encode v) = Some t.
Theorem c02_built_bytes_load_back : forall norm host_canon git_suffix o md5 t v,
  torrent_ok md5 t = true -> Metainfo.opts_ok o = true -> agrees o md5 t ->
  Metainfo.build norm host_canon git_suffix o (content_of t) = Some v ->
  load (encode v) = Some t.
Proof. exact built_bytes_load_back. Qed.

(** every creation result satisfies the loader's demands *)
Check created_torrent_ok : forall H MD5,
  (forall b, length (H b) = 20%nat) -> (forall b, length (MD5 b) = 16%nat) ->
  (forall b, Forall (fun x => x < 256) (MD5 b)) ->
  forall md5 p name csch src sel t,
  create_t H MD5 md5 p name csch src sel = Some t ->
  utf8_ok name = true -> Forall plain_path sel -> Forall utf8_path sel ->
  Metainfo.input_ok (input_of t) = true ->
  torrent_ok md5 t = true.
Theorem c02_created_torrent_ok : forall H MD5,
  (forall b, length (H b) = 20%nat) -> (forall b, length (MD5 b) = 16%nat) ->
  (forall b, Forall (fun x => x < 256) (MD5 b)) ->
  forall md5 p name csch src sel t,
  create_t H MD5 md5 p name csch src sel = Some t ->
  utf8_ok name = true -> Forall plain_path sel -> Forall utf8_path sel ->
  Metainfo.input_ok (input_of t) = true ->
  torrent_ok md5 t = true.
Proof. exact created_torrent_ok. Qed.

(** created_bytes_load_back: for every tree, selection, piece length, --md5, read schedule and
    every command line that agrees, serialisation succeeds and the bytes load back as the torrent
    with the same name, the same piece length, the piece string cut at 20, and the same mode
    (single: length + md5; multi: every file with path, length, md5) - the very [t] that
    create_then_verify is about *)
Check created_bytes_load_back : forall H MD5,
  (forall b, length (H b) = 20%nat) -> (forall b, length (MD5 b) = 16%nat) ->
  (forall b, Forall (fun x => x < 256) (MD5 b)) ->
  forall norm host_canon git_suffix o md5 p name csch src sel t,
  create_t H MD5 md5 p name csch src sel = Some t ->
  utf8_ok name = true -> Forall plain_path sel -> Forall utf8_path sel ->
  Metainfo.input_ok (input_of t) = true -> Metainfo.opts_ok o = true -> agrees o md5 t ->
  exists v, Metainfo.build norm host_canon git_suffix o (content_of t) = Some v /\
            load (encode v) = Some t /\
            t = {| tname := name; tplen := p;
                   tpieces := chunks 20 (Metainfo.c_pieces (content_of t)); tmode := tmode t |}.
Theorem c02_created_bytes_load_back : forall H MD5,
  (forall b, length (H b) = 20%nat) -> (forall b, length (MD5 b) = 16%nat) ->
  (forall b, Forall (fun x => x < 256) (MD5 b)) ->
  forall norm host_canon git_suffix o md5 p name csch src sel t,
  create_t H MD5 md5 p name csch src sel = Some t ->
  utf8_ok name = true -> Forall plain_path sel -> Forall utf8_path sel ->
  Metainfo.input_ok (input_of t) = true -> Metainfo.opts_ok o = true -> agrees o md5 t ->
  exists v, Metainfo.build norm host_canon git_suffix o (content_of t) = Some v /\
            load (encode v) = Some t /\
            t = {| tname := name; tplen := p;
                   tpieces := chunks 20 (Metainfo.c_pieces (content_of t)); tmode := tmode t |}.
Proof. exact created_bytes_load_back. Qed.

(** the same for the pair [metainfo_of] makes out of ANY command line (every metainfo option set:
    announce, tiers, comment, source, nodes, private, update-url, created-by, date, the allows) *)
Theorem c02_created_bytes_load_back_of : forall H MD5,
  (forall b, length (H b) = 20%nat) -> (forall b, length (MD5 b) = 16%nat) ->
  (forall b, Forall (fun x => x < 256) (MD5 b)) ->
  forall norm host_canon git_suffix o md5 p name csch src sel t,
  create_t H MD5 md5 p name csch src sel = Some t ->
  utf8_ok name = true -> Forall plain_path sel -> Forall utf8_path sel ->
  Metainfo.input_ok (input_of t) = true -> Metainfo.opts_ok o = true ->
  exists v, Metainfo.build norm host_canon git_suffix (fst (metainfo_of o md5 t)) (snd (metainfo_of o md5 t)) = Some v /\
            load (encode v) = Some t.
Proof. exact created_bytes_load_back_of. Qed.

(** ... and for the bytes Create::run writes once its own checks (tier URLs, private without
    tracker, piece length zero / uneven / small / u32) have passed *)
Theorem c02_written_bytes_load_back : forall H MD5,
  (forall b, length (H b) = 20%nat) -> (forall b, length (MD5 b) = 16%nat) ->
  (forall b, Forall (fun x => x < 256) (MD5 b)) ->
  forall norm host_canon git_suffix url_ok o md5 p name csch src sel t tb,
  create_t H MD5 md5 p name csch src sel = Some t ->
  utf8_ok name = true -> Forall plain_path sel -> Forall utf8_path sel ->
  Metainfo.input_ok (input_of t) = true -> Metainfo.opts_ok o = true -> agrees o md5 t ->
  Metainfo.create_bytes norm url_ok host_canon git_suffix o (content_of t) = Some tb ->
  load tb = Some t.
Proof. exact created_written_bytes_load_back. Qed.

(** a command line without --name and --piece-length agrees when the hasher got the input's own
    file name and the picker's choice for the total size *)
Theorem c02_agrees_defaults : forall o md5 t,
  Metainfo.o_name o = None -> Metainfo.o_piece_length o = None -> Metainfo.o_md5 o = md5 ->
  tplen t = Picker.pick (Metainfo.total_size (input_of t)) -> agrees o md5 t.
Proof. exact agrees_defaults. Qed.

(** c02_end_to_end: verifying THE BYTES create wrote (through [load]) against the unmodified input
    succeeds, and on any later filesystem the verdict tracks content equality - same
    [collision_free] hypothesis as verify_tracks_content, nothing else added about SHA-1 *)
Check end_to_end : forall H MD5,
  (forall b, length (H b) = 20%nat) -> (forall b, length (MD5 b) = 16%nat) ->
  (forall b, Forall (fun x => x < 256) (MD5 b)) ->
  forall norm host_canon git_suffix o md5 p name csch vsch fs root src sel t,
  resolve fs root = Some src -> Forall plain_path sel -> Forall utf8_path sel -> utf8_ok name = true ->
  create_t H MD5 md5 p name csch src sel = Some t ->
  Metainfo.input_ok (input_of t) = true -> Metainfo.opts_ok o = true -> agrees o md5 t ->
  exists v c,
    Metainfo.build norm host_canon git_suffix o (content_of t) = Some v /\ gather src sel = Some c /\
    verify_bytes H MD5 vsch fs root (encode v) = Some true /\
    forall fs',
      collision_free H p (map snd (listing_of c)) (map (content fs') (entries root t)) ->
      (verify_bytes H MD5 vsch fs' root (encode v) = Some true <-> Forall (holds fs' root) (listing_of c)).
Theorem c02_end_to_end : forall H MD5,
  (forall b, length (H b) = 20%nat) -> (forall b, length (MD5 b) = 16%nat) ->
  (forall b, Forall (fun x => x < 256) (MD5 b)) ->
  forall norm host_canon git_suffix o md5 p name csch vsch fs root src sel t,
  resolve fs root = Some src -> Forall plain_path sel -> Forall utf8_path sel -> utf8_ok name = true ->
  create_t H MD5 md5 p name csch src sel = Some t ->
  Metainfo.input_ok (input_of t) = true -> Metainfo.opts_ok o = true -> agrees o md5 t ->
  exists v c,
    Metainfo.build norm host_canon git_suffix o (content_of t) = Some v /\ gather src sel = Some c /\
    verify_bytes H MD5 vsch fs root (encode v) = Some true /\
    forall fs',
      collision_free H p (map snd (listing_of c)) (map (content fs') (entries root t)) ->
      (verify_bytes H MD5 vsch fs' root (encode v) = Some true <-> Forall (holds fs' root) (listing_of c)).
Proof. exact end_to_end. Qed.

(** the whole command on those bytes: arguments clap accepts, a content root that resolves to
    where create read: exit status 0 - provided the command's typed loader (X4: [verify_cmd] loads through
    [Metainfo::from_input] as modelled in Model/Summary.v, with hd / un standing for the url crate) accepts what
    create wrote outside the four info fields ([extras], exactly characterised by C03's [c03_typed_exact]) and the
    content size fits 64 bits. That create's announce / nodes / update-url texts re-parse is the url crate's
    idempotence, which is not modelled; the correspondence run exercises it on every created torrent. *)
Check end_to_end_cmd : forall H MD5,
  (forall b, length (H b) = 20%nat) -> (forall b, length (MD5 b) = 16%nat) ->
  (forall b, Forall (fun x => x < 256) (MD5 b)) ->
  forall norm host_canon git_suffix hd un o md5 p name csch vsch fs root src sel t cwd cont base input,
  resolve fs root = Some src -> Forall plain_path sel -> Forall utf8_path sel -> utf8_ok name = true ->
  create_t H MD5 md5 p name csch src sel = Some t ->
  Metainfo.input_ok (input_of t) = true -> Metainfo.opts_ok o = true -> agrees o md5 t ->
  args_ok cont base input = true ->
  env_resolve cwd (content_root cont base input name) = Some root ->
  exists v, Metainfo.build norm host_canon git_suffix o (content_of t) = Some v /\
            (extras hd un (encode v) = true -> size_fits t = true ->
             verify_cmd H MD5 vsch hd un fs cwd cont base input (encode v) = Some Success).
Theorem c02_end_to_end_cmd : forall H MD5,
  (forall b, length (H b) = 20%nat) -> (forall b, length (MD5 b) = 16%nat) ->
  (forall b, Forall (fun x => x < 256) (MD5 b)) ->
  forall norm host_canon git_suffix hd un o md5 p name csch vsch fs root src sel t cwd cont base input,
  resolve fs root = Some src -> Forall plain_path sel -> Forall utf8_path sel -> utf8_ok name = true ->
  create_t H MD5 md5 p name csch src sel = Some t ->
  Metainfo.input_ok (input_of t) = true -> Metainfo.opts_ok o = true -> agrees o md5 t ->
  args_ok cont base input = true ->
  env_resolve cwd (content_root cont base input name) = Some root ->
  exists v, Metainfo.build norm host_canon git_suffix o (content_of t) = Some v /\
            (extras hd un (encode v) = true -> size_fits t = true ->
             verify_cmd H MD5 vsch hd un fs cwd cont base input (encode v) = Some Success).
Proof. exact end_to_end_cmd. Qed.
Example c02_ex_end_to_end_cmd_hyps :
  match e_bytes, e_t with
  | Some tb, Some t => extras (fun h => Some h) (fun u => Some u) tb = true /\ size_fits t = true
  | _, _ => False
  end.
Proof. vm_compute. split; reflexivity. Qed.

(** instances: the digest hypotheses are satisfiable; so are the others, on a command line with
    every option set; the outcome is not vacuous *)
Example c02_ex_digest_hyps :
  (forall b, length (ex_H b) = 20%nat) /\ (forall b, length (ex_MD5 b) = 16%nat) /\
  (forall b, Forall (fun x => x < 256) (ex_MD5 b)).
Proof. exact ex_digest_hyps. Qed.
Example c02_ex_e2e_hyps :
  resolve fs0 root0 = Some src0 /\ Forall plain_path sel0 /\ Forall utf8_path sel0 /\ utf8_ok IN = true /\
  Metainfo.opts_ok MetainfoProofs.ex_opts = true /\
  match e_t with
  | Some t => Metainfo.input_ok (input_of t) = true /\ agrees (opts_of MetainfoProofs.ex_opts true t) true t /\
              torrent_ok true t = true
  | None => False
  end.
Proof. exact ex_e2e_hyps. Qed.
Example c02_ex_e2e_load_back :
  match e_t, e_bytes with
  | Some t, Some tb =>
      load tb = Some t /\
      verify_bytes ex_H ex_MD5 vsch0 fs0 root0 tb = Some true /\
      verify_bytes ex_H ex_MD5 vsch0 fs_flip root0 tb = Some false /\
      verify_bytes ex_H ex_MD5 vsch0 fs_extra root0 tb = Some true
  | _, _ => False
  end.
Proof. exact ex_e2e_load_back. Qed.
Example c02_ex_e2e_defaults :
  match create_t ex_H ex_MD5 true (Picker.pick 12) IN csch0 src0 sel0 with
  | Some t => agrees MetainfoProofs.ex_opts true t
  | None => False
  end.
Proof. exact ex_e2e_defaults. Qed.

(** each hypothesis on names and digests is needed: without it creation still succeeds in the
    model and the loader refuses the serialised bytes *)
Example c02_ex_needs_utf8_name : exists t, load_back ex_H ex_MD5 [255] src0 sel0 = Some (t, None).
Proof. exact ex_needs_utf8_name. Qed.
Example c02_ex_needs_utf8_component :
  exists t, load_back ex_H ex_MD5 IN (Dir [([255], File abcde)]) [[[255]]] = Some (t, None).
Proof. exact ex_needs_utf8_component. Qed.
Example c02_ex_needs_plain_component :
  exists t, load_back ex_H ex_MD5 IN (Dir [([46; 46], File abcde)]) [[[46; 46]]] = Some (t, None).
Proof. exact ex_needs_plain_component. Qed.
Example c02_ex_needs_sha1_length : exists t, load_back idh ex_MD5 IN src0 sel0 = Some (t, None).
Proof. exact ex_needs_sha1_length. Qed.
Example c02_ex_needs_md5_length : exists t, load_back ex_H idh IN src0 sel0 = Some (t, None).
Proof. exact ex_needs_md5_length. Qed.
Example c02_ex_needs_md5_bytes :
  exists t, load_back ex_H (fun _ => repeat 256 16) IN src0 sel0 = Some (t, None).
Proof. exact ex_needs_md5_bytes. Qed.
Example c02_ex_needs_i64_length :
  let t := {| tname := IN; tplen := 4; tpieces := []; tmode := Single (2 ^ 63) None |} in
  Metainfo.input_ok (input_of t) = false /\
  match Metainfo.build idb idb [] (opts_of MetainfoProofs.ex_opts false t) (content_of t) with
  | Some v => load_typed (fun h => Some h) (fun u => Some u) (encode v) = None
  | None => False
  end.
Proof. exact ex_needs_i64_length. Qed.

Print Assumptions c02_e2e_same_lookup.
Print Assumptions c02_e2e_unhex_hex.
Print Assumptions c02_e2e_pieces_cut_at_20.
Print Assumptions c02_e2e_loader_fuel_suffices.
Print Assumptions c02_built_bytes_load_back.
Print Assumptions c02_created_torrent_ok.
Print Assumptions c02_created_bytes_load_back.
Print Assumptions c02_created_bytes_load_back_of.
Print Assumptions c02_written_bytes_load_back.
Print Assumptions c02_agrees_defaults.
Print Assumptions c02_end_to_end.
Print Assumptions c02_end_to_end_cmd.
Print Assumptions c02_ex_end_to_end_cmd_hyps.
Print Assumptions c02_ex_digest_hyps.
Print Assumptions c02_ex_e2e_hyps.
Print Assumptions c02_ex_e2e_load_back.
Print Assumptions c02_ex_e2e_defaults.
Print Assumptions c02_ex_needs_utf8_name.
Print Assumptions c02_ex_needs_utf8_component.
Print Assumptions c02_ex_needs_plain_component.
Print Assumptions c02_ex_needs_sha1_length.
Print Assumptions c02_ex_needs_md5_length.
Print Assumptions c02_ex_needs_md5_bytes.
Print Assumptions c02_ex_needs_i64_length.

(** * the whole create pipeline (X7)

    Until here [create_t] hashed a selection [sel] that was given. In the real program the selection
    is what `Walker::files` lists of the very tree that is hashed (C06). [create_walk] (Model/CreateWalk.v)
    is [create_t] on [selection c src] = the paths of [Walk.walk c (erase src)], in the walker's order
    through the real [SortSpec] comparison (user sort keys decide WHICH torrent results, nothing else);
    [erase] forgets the bytes and keeps the lengths, so C06's theorems apply unchanged. [Fs.node] has
    no symlinks: the fragment is the link-free trees, where `--follow-symlinks` is irrelevant
    (c06_walk_erased_follow_irrelevant). [wf_node src]: sibling names distinct, every name a plain
    component - true of any tree an operating system shows; the examples c02_ex_walk_needs_* show
    both parts are needed. [walker_selects c src pa d] is the documented meaning without the
    traversal: [pa] is a regular file holding [d] below [src] and passes C06's per-path predicate
    (no hidden component unless --include-hidden, last component not junk unless --include-junk, the
    glob rule); for a regular file as the input it is the file itself.
    Quantified over: every glob matcher, flag set, glob list, sort specification, well-formed tree,
    piece length, --md5, name, and every read schedule of the hasher and of the verifier.
    Proofs: Proofs/CreateWalkProofs.v; instances: Proofs/CreateWalkExamples.v. *)
From Imdl Require Import Model.CreateWalk Proofs.CreateWalkProofs Proofs.CreateWalkExamples.
From Imdl Require Model.Walk Proofs.WalkProofs.

(** C06 o C01. The created torrent lists exactly the documented files, each once, in the walker's
    order (for a directory: [Walk.walk] returns the very list of (path, length) of the files hashed,
    and that list is sorted by the real comparison); its piece list is one hash per piece of the
    concatenation of their contents in that order; the entries verify will visit are those files with
    their lengths (and MD5s with --md5). *)
Check create_walk_lists : forall pat gmatch H MD5 (c : Walk.cfg pat) md5 p name csch src t,
  wf_node src -> create_walk pat gmatch H MD5 c md5 p name csch src = Some t ->
  exists c0,
    0 < p < 2 ^ 32 /\
    t = spec_torrent H MD5 md5 p name c0 /\
    (forall pa d, In (pa, d) (listing_of c0) <-> walker_selects pat gmatch c src pa d) /\
    NoDup (map fst (listing_of c0)) /\
    match src with
    | File d => c0 = Hasher.SingleFile d
    | Dir _ => Walk.walk pat gmatch c (erase src) = Walk.WalkListing (map sized (listing_of c0)) /\
               WalkProofs.sorted_by (Walk.sort_by c) (map sized (listing_of c0))
    end /\
    paths_of t = map fst (listing_of c0) /\
    tpieces t = map H (chunks (N.to_nat p) (concat (map snd (listing_of c0)))) /\
    entries [] t = map (mk_entry MD5 md5 []) (listing_of c0).
Theorem c02_create_walk_lists_exactly_the_documented_files :
  forall pat gmatch H MD5 (c : Walk.cfg pat) md5 p name csch src t,
  wf_node src -> create_walk pat gmatch H MD5 c md5 p name csch src = Some t ->
  exists c0,
    0 < p < 2 ^ 32 /\
    t = spec_torrent H MD5 md5 p name c0 /\
    (forall pa d, In (pa, d) (listing_of c0) <-> walker_selects pat gmatch c src pa d) /\
    NoDup (map fst (listing_of c0)) /\
    match src with
    | File d => c0 = Hasher.SingleFile d
    | Dir _ => Walk.walk pat gmatch c (erase src) = Walk.WalkListing (map sized (listing_of c0)) /\
               WalkProofs.sorted_by (Walk.sort_by c) (map sized (listing_of c0))
    end /\
    paths_of t = map fst (listing_of c0) /\
    tpieces t = map H (chunks (N.to_nat p) (concat (map snd (listing_of c0)))) /\
    entries [] t = map (mk_entry MD5 md5 []) (listing_of c0).
Proof. exact create_walk_lists. Qed.

(** the seam itself: on a well-formed tree the walker's selection is never refused, every selected
    path is plain and is gathered as a regular file, and what is gathered is what [walker_selects] says *)
Theorem c02_selection_is_the_walkers : forall pat gmatch (c : Walk.cfg pat) src,
  wf_node src ->
  exists sel c0,
    selection pat gmatch c src = Some sel /\ gather src sel = Some c0 /\ Forall plain_path sel /\
    (forall pa d, In (pa, d) (listing_of c0) <-> walker_selects pat gmatch c src pa d) /\
    NoDup (map fst (listing_of c0)) /\
    match src with
    | File d => c0 = Hasher.SingleFile d
    | Dir _ => sel = map fst (listing_of c0) /\
               Walk.walk pat gmatch c (erase src) = Walk.WalkListing (map sized (listing_of c0))
    end.
Proof. exact selection_gathers. Qed.

(** creation succeeds for every admissible piece length when no read fails *)
Theorem c02_create_walk_total : forall pat gmatch H MD5 (c : Walk.cfg pat) md5 p name csch src,
  wf_node src -> 0 < p < 2 ^ 32 -> Hasher.error_free csch ->
  exists t, create_walk pat gmatch H MD5 c md5 p name csch src = Some t.
Proof. exact create_walk_total. Qed.

(** create, then verify against the unmodified tree: success - whatever the flags and globs left out *)
Check create_walk_then_verify : forall pat gmatch H MD5 (c : Walk.cfg pat) md5 p name csch vsch fs root src t,
  resolve fs root = Some src -> wf_node src ->
  create_walk pat gmatch H MD5 c md5 p name csch src = Some t ->
  verify H MD5 vsch fs root t = Some true.
Theorem c02_create_walk_then_verify : forall pat gmatch H MD5 (c : Walk.cfg pat) md5 p name csch vsch fs root src t,
  resolve fs root = Some src -> wf_node src ->
  create_walk pat gmatch H MD5 c md5 p name csch src = Some t ->
  verify H MD5 vsch fs root t = Some true.
Proof. exact create_walk_then_verify. Qed.

(** on ANY later filesystem the verdict is success exactly when every file THE WALKER SELECTED
    still holds its bytes ([selected_hold]); same [collision_free] hypothesis as
    c02_verify_tracks_content, used left to right only *)
Check create_walk_tracks_content : forall pat gmatch H MD5 (c : Walk.cfg pat) md5 p name csch vsch src t root,
  wf_node src -> create_walk pat gmatch H MD5 c md5 p name csch src = Some t ->
  exists c0,
    (forall pa d, In (pa, d) (listing_of c0) <-> walker_selects pat gmatch c src pa d) /\
    forall fs',
      collision_free H p (map snd (listing_of c0)) (map (content fs') (entries root t)) ->
      (verify H MD5 vsch fs' root t = Some true <-> selected_hold pat gmatch c src fs' root).
Theorem c02_create_walk_tracks_content : forall pat gmatch H MD5 (c : Walk.cfg pat) md5 p name csch vsch src t root,
  wf_node src -> create_walk pat gmatch H MD5 c md5 p name csch src = Some t ->
  exists c0,
    (forall pa d, In (pa, d) (listing_of c0) <-> walker_selects pat gmatch c src pa d) /\
    forall fs',
      collision_free H p (map snd (listing_of c0)) (map (content fs') (entries root t)) ->
      (verify H MD5 vsch fs' root t = Some true <-> selected_hold pat gmatch c src fs' root).
Proof. exact create_walk_tracks_content. Qed.

Theorem c02_selected_hold_means : forall pat gmatch (c : Walk.cfg pat) src fs' root,
  selected_hold pat gmatch c src fs' root <->
  forall pa d, walker_selects pat gmatch c src pa d -> resolve fs' (absolute root pa) = Some (File d).
Proof. intros. reflexivity. Qed.

(** so edits to hidden / junk / glob-excluded files (or anything else that is not selected) never
    matter - no hypothesis on the hash functions ... *)
Theorem c02_create_walk_excluded_edits_irrelevant :
  forall pat gmatch H MD5 (c : Walk.cfg pat) md5 p name csch vsch src t root fs',
  wf_node src -> create_walk pat gmatch H MD5 c md5 p name csch src = Some t ->
  selected_hold pat gmatch c src fs' root -> verify H MD5 vsch fs' root t = Some true.
Proof. exact create_walk_excluded_edits_irrelevant. Qed.

Theorem c02_create_walk_ignores_unselected :
  forall pat gmatch H MD5 (c : Walk.cfg pat) md5 p name csch vsch src t root fs1 fs2,
  wf_node src -> create_walk pat gmatch H MD5 c md5 p name csch src = Some t ->
  (forall pa d, walker_selects pat gmatch c src pa d -> resolve fs1 (absolute root pa) = resolve fs2 (absolute root pa)) ->
  verify H MD5 vsch fs1 root t = verify H MD5 vsch fs2 root t.
Proof. exact create_walk_ignores_unselected. Qed.

(** ... and an edit to any included file always does (injective stand-in for SHA-1) *)
Theorem c02_create_walk_included_edit_fails :
  forall pat gmatch H MD5 (c : Walk.cfg pat) md5 p name csch vsch src t root fs' pa d,
  wf_node src -> create_walk pat gmatch H MD5 c md5 p name csch src = Some t ->
  (forall a b, H a = H b -> a = b) ->
  walker_selects pat gmatch c src pa d -> resolve fs' (absolute root pa) <> Some (File d) ->
  verify H MD5 vsch fs' root t = Some false.
Proof. exact create_walk_included_edit_fails. Qed.

(** with C06's enumeration_order_independent: two trees that are permutations of each other (at
    every directory) give the same torrent, hence the same bytes *)
Check create_walk_order_independent : forall pat gmatch H MD5 (c : Walk.cfg pat) md5 p name csch src src',
  wf_node src -> node_perm src src' ->
  create_walk pat gmatch H MD5 c md5 p name csch src = create_walk pat gmatch H MD5 c md5 p name csch src'.
Theorem c02_create_walk_order_independent : forall pat gmatch H MD5 (c : Walk.cfg pat) md5 p name csch src src',
  wf_node src -> node_perm src src' ->
  create_walk pat gmatch H MD5 c md5 p name csch src = create_walk pat gmatch H MD5 c md5 p name csch src'.
Proof. exact create_walk_order_independent. Qed.

Theorem c02_create_walk_bytes_order_independent :
  forall pat gmatch H MD5 norm host_canon git_suffix o (c : Walk.cfg pat) md5 p name csch src src',
  wf_node src -> node_perm src src' ->
  create_walk_bytes pat gmatch H MD5 norm host_canon git_suffix o c md5 p name csch src =
  create_walk_bytes pat gmatch H MD5 norm host_canon git_suffix o c md5 p name csch src'.
Proof. exact create_walk_bytes_order_independent. Qed.

(** walker o hasher o metainfo, then verify, through the written bytes: they load back as the
    creation result (created_bytes_load_back), verifying them against the unmodified tree succeeds,
    and on any later filesystem the verdict tracks the files the walker selected. Hypotheses as in
    c02_end_to_end, with UTF-8 names of the TREE ([utf8_node]) in place of a UTF-8 selection. *)
Check create_walk_end_to_end : forall pat gmatch H MD5,
  (forall b, length (H b) = 20%nat) -> (forall b, length (MD5 b) = 16%nat) ->
  (forall b, Forall (fun x => x < 256) (MD5 b)) ->
  forall norm host_canon git_suffix o (c : Walk.cfg pat) md5 p name csch vsch fs root src t,
  resolve fs root = Some src -> wf_node src -> utf8_node src -> utf8_ok name = true ->
  create_walk pat gmatch H MD5 c md5 p name csch src = Some t ->
  Metainfo.input_ok (input_of t) = true -> Metainfo.opts_ok o = true -> agrees o md5 t ->
  exists tb c0,
    create_walk_bytes pat gmatch H MD5 norm host_canon git_suffix o c md5 p name csch src = Some tb /\
    load tb = Some t /\
    (forall pa d, In (pa, d) (listing_of c0) <-> walker_selects pat gmatch c src pa d) /\
    verify_bytes H MD5 vsch fs root tb = Some true /\
    forall fs',
      collision_free H p (map snd (listing_of c0)) (map (content fs') (entries root t)) ->
      (verify_bytes H MD5 vsch fs' root tb = Some true <-> selected_hold pat gmatch c src fs' root).
Theorem c02_create_walk_end_to_end : forall pat gmatch H MD5,
  (forall b, length (H b) = 20%nat) -> (forall b, length (MD5 b) = 16%nat) ->
  (forall b, Forall (fun x => x < 256) (MD5 b)) ->
  forall norm host_canon git_suffix o (c : Walk.cfg pat) md5 p name csch vsch fs root src t,
  resolve fs root = Some src -> wf_node src -> utf8_node src -> utf8_ok name = true ->
  create_walk pat gmatch H MD5 c md5 p name csch src = Some t ->
  Metainfo.input_ok (input_of t) = true -> Metainfo.opts_ok o = true -> agrees o md5 t ->
  exists tb c0,
    create_walk_bytes pat gmatch H MD5 norm host_canon git_suffix o c md5 p name csch src = Some tb /\
    load tb = Some t /\
    (forall pa d, In (pa, d) (listing_of c0) <-> walker_selects pat gmatch c src pa d) /\
    verify_bytes H MD5 vsch fs root tb = Some true /\
    forall fs',
      collision_free H p (map snd (listing_of c0)) (map (content fs') (entries root t)) ->
      (verify_bytes H MD5 vsch fs' root tb = Some true <-> selected_hold pat gmatch c src fs' root).
Proof. exact create_walk_end_to_end. Qed.

(** instances. /w/in = { .h (hidden), Thumbs.db (junk), skip.log (excluded by --glob '!skip.log'),
    b = "fghijk", d/a = "abcde" }, default flags, piece length 4, --md5 *)
Example c02_ex_walk_hyps :
  resolve w_fs root0 = Some w_src /\ wf_node w_src /\ utf8_node w_src /\ utf8_ok IN = true.
Proof. exact ex_walk_hyps. Qed.
Example c02_ex_walk_created :
  selection gtable Walk.table_match w_cfg w_src = Some w_sel /\
  exists t, w_create w_cfg w_src = Some t /\
            paths_of t = w_sel /\
            tpieces t = w_pieces.
Proof. exact ex_walk_created. Qed.
Example c02_ex_walker_selects :
  walker_selects gtable Walk.table_match w_cfg w_src p_b c_b /\
  walker_selects gtable Walk.table_match w_cfg w_src p_da c_da /\
  ~ walker_selects gtable Walk.table_match w_cfg w_src p_hidden c_hid /\
  ~ walker_selects gtable Walk.table_match w_cfg w_src p_junk c_junk /\
  ~ walker_selects gtable Walk.table_match w_cfg w_src p_log c_log.
Proof. exact ex_walker_selects. Qed.
(** user sort keys decide which torrent results: --sort-by size puts d/a (5 bytes) before b (6) *)
Example c02_ex_walk_sorted_by_size :
  exists t, w_create w_cfg_size w_src = Some t /\
            paths_of t = w_sel_size /\
            tpieces t = w_pieces_size.
Proof. exact ex_walk_sorted_by_size. Qed.
Example c02_ex_walk_all_flags :
  exists t, w_create w_cfg_all w_src = Some t /\
            paths_of t = w_sel_all.
Proof. exact ex_walk_all_flags. Qed.
(** created and verified; every excluded file edited (hidden rewritten, junk turned into a
    directory, glob-excluded deleted, a new file added): still verified; last byte of d/a changed:
    failed; with every flag on the first edit does matter *)
Example c02_ex_walk_verdicts :
  w_verdict w_cfg w_fs = Some (Some true) /\
  w_verdict w_cfg w_fs_excluded_edited = Some (Some true) /\
  w_verdict w_cfg w_fs_included_edited = Some (Some false) /\
  w_verdict w_cfg_all w_fs_excluded_edited = Some (Some false).
Proof. exact ex_walk_verdicts. Qed.
Example c02_ex_selected_hold :
  selected_hold gtable Walk.table_match w_cfg w_src w_fs_excluded_edited root0 /\
  w_fs_excluded_edited <> w_fs /\
  ~ selected_hold gtable Walk.table_match w_cfg w_src w_fs_included_edited root0.
Proof. exact ex_selected_hold. Qed.
Example c02_ex_walk_order :
  wf_node w_src /\ node_perm w_src w_src_shuffled /\ w_src <> w_src_shuffled /\
  w_create w_cfg w_src = w_create w_cfg w_src_shuffled /\ w_create w_cfg w_src <> None.
Proof. exact ex_walk_order. Qed.
Example c02_ex_walk_e2e :
  Metainfo.opts_ok MetainfoProofs.ex_opts = true /\
  match we_t, we_bytes with
  | Some t, Some tb =>
      Metainfo.input_ok (input_of t) = true /\
      agrees (opts_of MetainfoProofs.ex_opts true t) true t /\
      load tb = Some t /\
      verify_bytes ex_H ex_MD5 vsch0 w_fs root0 tb = Some true /\
      verify_bytes ex_H ex_MD5 vsch0 w_fs_excluded_edited root0 tb = Some true /\
      verify_bytes ex_H ex_MD5 vsch0 w_fs_included_edited root0 tb = Some false
  | _, _ => False
  end.
Proof. exact ex_walk_e2e. Qed.
Example c02_ex_walk_single :
  selection gtable Walk.table_match w_cfg w_single = Some [] /\
  exists t, w_create w_cfg w_single = Some t /\ paths_of t = [[]] /\ tpieces t = w_single_pieces.
Proof. exact ex_walk_single. Qed.
(** both parts of [wf_node] are needed *)
Example c02_ex_walk_needs_distinct_names :
  ~ wf_node w_dup /\
  exists t, w_create w_cfg_all w_dup = Some t /\ paths_of t = [[[97]]; [[97]]] /\
            tpieces t = w_dup_pieces.
Proof. exact ex_needs_distinct_names. Qed.
Example c02_ex_walk_needs_plain_names :
  ~ wf_node w_dotdot /\
  match w_create w_cfg_all w_dotdot with
  | Some t => verify idh idh vsch0 (fs_of w_dotdot) root0 t = Some false
  | None => False
  end.
Proof. exact ex_needs_plain_names. Qed.

Print Assumptions c02_create_walk_lists_exactly_the_documented_files.
Print Assumptions c02_selection_is_the_walkers.
Print Assumptions c02_create_walk_total.
Print Assumptions c02_create_walk_then_verify.
Print Assumptions c02_create_walk_tracks_content.
Print Assumptions c02_selected_hold_means.
Print Assumptions c02_create_walk_excluded_edits_irrelevant.
Print Assumptions c02_create_walk_ignores_unselected.
Print Assumptions c02_create_walk_included_edit_fails.
Print Assumptions c02_create_walk_order_independent.
Print Assumptions c02_create_walk_bytes_order_independent.
Print Assumptions c02_create_walk_end_to_end.
Print Assumptions c02_ex_walk_hyps.
Print Assumptions c02_ex_walk_created.
Print Assumptions c02_ex_walker_selects.
Print Assumptions c02_ex_walk_sorted_by_size.
Print Assumptions c02_ex_walk_all_flags.
Print Assumptions c02_ex_walk_verdicts.
Print Assumptions c02_ex_selected_hold.
Print Assumptions c02_ex_walk_order.
Print Assumptions c02_ex_walk_e2e.
Print Assumptions c02_ex_walk_single.
Print Assumptions c02_ex_walk_needs_distinct_names.
Print Assumptions c02_ex_walk_needs_plain_names.
