(** C09 — create never clobbers, never litters, never touches its input.
    Only pinned statements, theorems closed by [exact], satisfiability examples and
    [Print Assumptions]. Model: Model/CreateFs.v (order of effects of Create::run in its
    header); proofs: Proofs/CreateFsProofs.v.
    All theorems quantify over every configuration [c] (flags, arguments, every failure cause
    at its position) and every filesystem [fs]; no bounds.
    Open finding, class name-with-separator: the two path-rule theorems carry [plain nm = true]
    (no `/` in the torrent name) and the witnesses at the end show the rule fails otherwise. *)
From Coq Require Import NArith List Bool.
From Imdl Require Import Model.CreateFs Model.CreateOrder Proofs.CreateFsProofs Generated.GenCreateOrder.
Import ListNotations.
Local Open Scope N_scope.

(** without --force no existing entry changes, whatever else happens *)
Check no_clobber_frame : forall c fs, c_force c = false ->
  forall p n, lookup fs p = Some n -> lookup (fst (create_fx c fs)) p = Some n.
Theorem c09_no_clobber_frame : forall c fs, c_force c = false ->
  forall p n, lookup fs p = Some n -> lookup (fst (create_fx c fs)) p = Some n.
Proof. exact no_clobber_frame. Qed.

(** ... and with something present at the output path the command fails before writing *)
Check no_clobber_fails : forall c fs p, c_force c = false ->
  out_path c fs = Some p -> path_exists fs p = true ->
  fst (create_fx c fs) = fs /\ exists e, snd (create_fx c fs) = CFail e /\ e <> EWriteIO /\ e <> EPost.
Theorem c09_no_clobber_fails : forall c fs p, c_force c = false ->
  out_path c fs = Some p -> path_exists fs p = true ->
  fst (create_fx c fs) = fs /\ exists e, snd (create_fx c fs) = CFail e /\ e <> EWriteIO /\ e <> EPost.
Proof. exact no_clobber_fails. Qed.
Example c09_no_clobber_inhabited :
  out_path (mk (Some (OPath b_old)) None false false) ex_fs = Some [b_w; b_old]
  /\ path_exists ex_fs [b_w; b_old] = true
  /\ create_fx (mk (Some (OPath b_old)) None false false) ex_fs = (ex_fs, CFail EExists).
Proof. exact ex_no_clobber. Qed.

(** --dry-run leaves the filesystem exactly as it was *)
Theorem c09_dry_run_frame : forall c fs, c_dry_run c = true -> fst (create_fx c fs) = fs.
Proof. exact dry_run_frame. Qed.
Example c09_dry_run_inhabited : create_fx (mk None None true true) ex_fs = (ex_fs, CSuccess).
Proof. exact ex_dry_run. Qed.

(** every failure other than an I/O error inside write_all (file opened, possibly partial) or a
    failure after the write (--show/--link/--open) leaves the filesystem exactly as it was *)
Theorem c09_fail_frame : forall c fs e,
  snd (create_fx c fs) = CFail e -> e <> EWriteIO -> e <> EPost -> fst (create_fx c fs) = fs.
Proof. exact fail_frame. Qed.

(** success: nothing changes (stdout target) or exactly one entry is new / a replaced regular
    file, holds the metainfo, and is where opening the output path leads *)
Check success_exactly_one : forall c fs,
  snd (create_fx c fs) = CSuccess -> c_dry_run c = false ->
  (out_path c fs = None /\ fst (create_fx c fs) = fs) \/
  (exists p q, out_path c fs = Some p /\ write_open c fs p = Some q /\
     fst (create_fx c fs) = update fs q (NFile (c_torrent c)) /\
     lookup (fst (create_fx c fs)) q = Some (NFile (c_torrent c)) /\
     (forall r, r <> q -> lookup (fst (create_fx c fs)) r = lookup fs r) /\
     (lookup fs q = None \/ exists b, lookup fs q = Some (NFile b))).
Theorem c09_success_exactly_one : forall c fs,
  snd (create_fx c fs) = CSuccess -> c_dry_run c = false ->
  (out_path c fs = None /\ fst (create_fx c fs) = fs) \/
  (exists p q, out_path c fs = Some p /\ write_open c fs p = Some q /\
     fst (create_fx c fs) = update fs q (NFile (c_torrent c)) /\
     lookup (fst (create_fx c fs)) q = Some (NFile (c_torrent c)) /\
     (forall r, r <> q -> lookup (fst (create_fx c fs)) r = lookup fs r) /\
     (lookup fs q = None \/ exists b, lookup fs q = Some (NFile b))).
Proof. exact success_exactly_one. Qed.
Example c09_success_inhabited :
  create_fx (mk None None false false) ex_fs
  = (update ex_fs [b_w; name_torrent b_in] (NFile [100; 101]), CSuccess).
Proof. exact ex_default_success. Qed.
Example c09_force_replaces_inhabited :
  create_fx (mk (Some (OPath b_old)) None true false) ex_fs
  = (update ex_fs [b_w; b_old] (NFile [100; 101]), CSuccess).
Proof. exact ex_force_replaces. Qed.

(** the file exists() saw is the one create+truncate replaces and create_new refuses *)
Theorem c09_exists_consistent : forall fs p q b,
  sys_stat fs p = RNode q (NFile b) -> open_trunc fs p = Some q /\ open_excl fs p = None.
Proof. exact exists_file_trunc. Qed.

(** any entry that differs afterwards is the write target ... *)
Theorem c09_only_target_changes : forall c fs r,
  lookup (fst (create_fx c fs)) r <> lookup fs r ->
  c_dry_run c = false /\ exists p, out_path c fs = Some p /\ write_open c fs p = Some r.
Proof. exact only_target_changes. Qed.

(** ... so nothing under the input content changes unless the output was pointed there *)
Theorem c09_input_untouched : forall c fs root r,
  is_under root r ->
  (forall p q, out_path c fs = Some p -> write_open c fs p = Some q -> ~ is_under root q) ->
  lookup (fst (create_fx c fs)) r = lookup fs r.
Proof. exact input_untouched. Qed.

(** and the default target is never under the input unless it is the input itself *)
Theorem c09_default_not_under_input : forall (root : list (list N)) nt,
  root <> [] -> is_under root (removelast root ++ [nt]) -> removelast root ++ [nt] = root.
Proof. exact default_not_under_input. Qed.

(** verify, show, link change nothing *)
Theorem c09_readonly : forall k m content good fs, fst (readonly_fx k m content good fs) = fs.
Proof. exact readonly. Qed.

(** output path rule: explicit target; `<name>.torrent` next to the input; `<name>.torrent`
    inside a target that is a directory *)
Theorem c09_rule_explicit : forall c fs nm o t,
  from_create c fs = inr (nm, Some o) -> c_output c = Some (OPath t) -> o = parse_path t.
Proof. exact rule_explicit. Qed.

Check rule_default : forall c fs nm o itext,
  from_create c fs = inr (nm, Some o) -> c_output c = None -> c_input c = Some itext -> plain nm = true ->
  env_resolve (c_cwd c) (parse_path itext) <> [] /\
  env_resolve (c_cwd c) o = removelast (env_resolve (c_cwd c) (parse_path itext)) ++ [name_torrent nm].
Theorem c09_rule_default : forall c fs nm o itext,
  from_create c fs = inr (nm, Some o) -> c_output c = None -> c_input c = Some itext -> plain nm = true ->
  env_resolve (c_cwd c) (parse_path itext) <> [] /\
  env_resolve (c_cwd c) o = removelast (env_resolve (c_cwd c) (parse_path itext)) ++ [name_torrent nm].
Proof. exact rule_default. Qed.

Check rule_directory : forall c fs nm o,
  from_create c fs = inr (nm, Some o) -> plain nm = true ->
  out_path c fs = Some (if path_is_dir fs (env_resolve (c_cwd c) o)
                        then env_resolve (c_cwd c) o ++ [name_torrent nm]
                        else env_resolve (c_cwd c) o).
Theorem c09_rule_directory : forall c fs nm o,
  from_create c fs = inr (nm, Some o) -> plain nm = true ->
  out_path c fs = Some (if path_is_dir fs (env_resolve (c_cwd c) o)
                        then env_resolve (c_cwd c) o ++ [name_torrent nm]
                        else env_resolve (c_cwd c) o).
Proof. exact rule_directory. Qed.
Example c09_rule_directory_inhabited :
  out_path (mk (Some (OPath b_d)) None false false) ex_fs = Some [b_w; b_d; name_torrent b_in]
  /\ snd (create_fx (mk (Some (OPath b_d)) None false false) ex_fs) = CSuccess.
Proof. exact ex_directory_target. Qed.

(** OPEN FINDING name-with-separator: with a `/` in --name the rule is false (witnesses) *)
Theorem c09_name_separator_escapes_directory :
  exists c fs nm o q,
    from_create c fs = inr (nm, Some o) /\ plain nm = false /\
    path_is_dir fs (env_resolve (c_cwd c) o) = true /\
    snd (create_fx c fs) = CSuccess /\ c_dry_run c = false /\
    fst (create_fx c fs) = update fs q (NFile (c_torrent c)) /\
    ~ is_under (env_resolve (c_cwd c) o) q.
Proof. exact name_separator_escapes_directory. Qed.
Theorem c09_name_separator_escapes_default :
  exists c fs nm o itext q,
    from_create c fs = inr (nm, Some o) /\ c_output c = None /\ c_input c = Some itext /\ plain nm = false /\
    snd (create_fx c fs) = CSuccess /\ c_dry_run c = false /\
    fst (create_fx c fs) = update fs q (NFile (c_torrent c)) /\
    removelast q <> removelast (env_resolve (c_cwd c) (parse_path itext)).
Proof. exact name_separator_escapes_default. Qed.

(** (T) Create::run and CreateContent::from_create of the current tree perform their checks and
    their single write in the order the model follows; the open/write lies inside the dry-run
    guard, the post steps after it; torrent_path is the modelled expression; there is exactly one
    filesystem-mutating call site in create.rs + create_content.rs *)
Theorem c09_source_order :
  GenCreateOrder.translated = true /\
  GenCreateOrder.run_order = model_run_order /\
  GenCreateOrder.content_order = model_content_order /\
  GenCreateOrder.write_inside_dry_guard = true /\
  GenCreateOrder.post_steps_after_guard = true /\
  GenCreateOrder.torrent_path_is_model = true /\
  GenCreateOrder.mutating_call_sites = 1.
Proof. repeat split; reflexivity. Qed.

Print Assumptions c09_no_clobber_frame.
Print Assumptions c09_no_clobber_fails.
Print Assumptions c09_no_clobber_inhabited.
Print Assumptions c09_dry_run_frame.
Print Assumptions c09_dry_run_inhabited.
Print Assumptions c09_fail_frame.
Print Assumptions c09_success_exactly_one.
Print Assumptions c09_success_inhabited.
Print Assumptions c09_force_replaces_inhabited.
Print Assumptions c09_exists_consistent.
Print Assumptions c09_only_target_changes.
Print Assumptions c09_input_untouched.
Print Assumptions c09_default_not_under_input.
Print Assumptions c09_readonly.
Print Assumptions c09_rule_explicit.
Print Assumptions c09_rule_default.
Print Assumptions c09_rule_directory.
Print Assumptions c09_rule_directory_inhabited.
Print Assumptions c09_name_separator_escapes_directory.
Print Assumptions c09_name_separator_escapes_default.
Print Assumptions c09_source_order.
