(** C09 — create never clobbers, never litters, never touches its input.
    Only pinned statements, theorems closed by [exact], satisfiability examples and
    [Print Assumptions]. Model: Model/CreateFs.v (order of effects of Create::run in its
    header); proofs: Proofs/CreateFsProofs.v.
    All theorems quantify over every configuration [c] (flags, arguments, every failure cause
    at its position) and every filesystem [fs]; no bounds.
    Repaired finding (was open as name-with-separator): `torrent create` now refuses a torrent
    name that is not exactly one normal path component ([name_ok]; CreateContent::check_name),
    so the path-rule theorems hold without a side condition on the name: success implies the name
    was plain and the file is at the documented path; [c09_bad_name_rejected] is the refusal. *)
From Coq Require Import NArith List Bool.
From Imdl Require Import Model.CreateFs Model.CreateOrder Proofs.CreateFsProofs Generated.GenCreateOrder.
Import ListNotations.
Local Open Scope N_scope.

(** without --force no existing entry changes, whatever else happens *)
Check no_clobber_frame : forall c fs, c_force c = false ->
  forall p n, lookup fs p = Some n -> lookup (fst (create_fx c fs)) p = Some n.
Theorem c09_no_clobber_frame : forall c fs, c_force c = false ->
  forall p n, lookup fs p = Some n -> lookup (fst (create_fx c fs)) p = Some n.
Proof. exact no_clobber_frame. Qed.

(** ... and with something present at the output path the command fails before writing *)
Check no_clobber_fails : forall c fs p, c_force c = false ->
  out_path c fs = Some p -> path_exists fs p = true ->
  fst (create_fx c fs) = fs /\ exists e, snd (create_fx c fs) = CFail e /\ e <> EWriteIO /\ e <> EPost.
Theorem c09_no_clobber_fails : forall c fs p, c_force c = false ->
  out_path c fs = Some p -> path_exists fs p = true ->
  fst (create_fx c fs) = fs /\ exists e, snd (create_fx c fs) = CFail e /\ e <> EWriteIO /\ e <> EPost.
Proof. exact no_clobber_fails. Qed.
Example c09_no_clobber_inhabited :
  out_path (mk (Some (OPath b_old)) None false false) ex_fs = Some [b_w; b_old]
  /\ path_exists ex_fs [b_w; b_old] = true
  /\ create_fx (mk (Some (OPath b_old)) None false false) ex_fs = (ex_fs, CFail EExists).
Proof. exact ex_no_clobber. Qed.

(** --dry-run leaves the filesystem exactly as it was *)
Theorem c09_dry_run_frame : forall c fs, c_dry_run c = true -> fst (create_fx c fs) = fs.
Proof. exact dry_run_frame. Qed.
Example c09_dry_run_inhabited : create_fx (mk None None true true) ex_fs = (ex_fs, CSuccess).
Proof. exact ex_dry_run. Qed.

(** every failure other than an I/O error inside write_all (file opened, possibly partial) or a
    failure after the write (--show/--link/--open) leaves the filesystem exactly as it was *)
Theorem c09_fail_frame : forall c fs e,
  snd (create_fx c fs) = CFail e -> e <> EWriteIO -> e <> EPost -> fst (create_fx c fs) = fs.
Proof. exact fail_frame. Qed.

(** success: nothing changes (stdout target) or exactly one entry is new / a replaced regular
    file, holds the metainfo, and is where opening the output path leads *)
Check success_exactly_one : forall c fs,
  snd (create_fx c fs) = CSuccess -> c_dry_run c = false ->
  (out_path c fs = None /\ fst (create_fx c fs) = fs) \/
  (exists p q, out_path c fs = Some p /\ write_open c fs p = Some q /\
     fst (create_fx c fs) = update fs q (NFile (c_torrent c)) /\
     lookup (fst (create_fx c fs)) q = Some (NFile (c_torrent c)) /\
     (forall r, r <> q -> lookup (fst (create_fx c fs)) r = lookup fs r) /\
     (lookup fs q = None \/ exists b, lookup fs q = Some (NFile b))).
Theorem c09_success_exactly_one : forall c fs,
  snd (create_fx c fs) = CSuccess -> c_dry_run c = false ->
  (out_path c fs = None /\ fst (create_fx c fs) = fs) \/
  (exists p q, out_path c fs = Some p /\ write_open c fs p = Some q /\
     fst (create_fx c fs) = update fs q (NFile (c_torrent c)) /\
     lookup (fst (create_fx c fs)) q = Some (NFile (c_torrent c)) /\
     (forall r, r <> q -> lookup (fst (create_fx c fs)) r = lookup fs r) /\
     (lookup fs q = None \/ exists b, lookup fs q = Some (NFile b))).
Proof. exact success_exactly_one. Qed.
Example c09_success_inhabited :
  create_fx (mk None None false false) ex_fs
  = (update ex_fs [b_w; name_torrent b_in] (NFile [100; 101]), CSuccess).
Proof. exact ex_default_success. Qed.
Example c09_force_replaces_inhabited :
  create_fx (mk (Some (OPath b_old)) None true false) ex_fs
  = (update ex_fs [b_w; b_old] (NFile [100; 101]), CSuccess).
Proof. exact ex_force_replaces. Qed.

(** the file exists() saw is the one create+truncate replaces and create_new refuses *)
Theorem c09_exists_consistent : forall fs p q b,
  sys_stat fs p = RNode q (NFile b) -> open_trunc fs p = Some q /\ open_excl fs p = None.
Proof. exact exists_file_trunc. Qed.

(** any entry that differs afterwards is the write target ... *)
Theorem c09_only_target_changes : forall c fs r,
  lookup (fst (create_fx c fs)) r <> lookup fs r ->
  c_dry_run c = false /\ exists p, out_path c fs = Some p /\ write_open c fs p = Some r.
Proof. exact only_target_changes. Qed.

(** ... so nothing under the input content changes unless the output was pointed there *)
Theorem c09_input_untouched : forall c fs root r,
  is_under root r ->
  (forall p q, out_path c fs = Some p -> write_open c fs p = Some q -> ~ is_under root q) ->
  lookup (fst (create_fx c fs)) r = lookup fs r.
Proof. exact input_untouched. Qed.

(** and the default target is never under the input unless it is the input itself *)
Theorem c09_default_not_under_input : forall (root : list (list N)) nt,
  root <> [] -> is_under root (removelast root ++ [nt]) -> removelast root ++ [nt] = root.
Proof. exact default_not_under_input. Qed.

(** verify, show, link change nothing *)
Theorem c09_readonly : forall k m content good fs, fst (readonly_fx k m content good fs) = fs.
Proof. exact readonly. Qed.

(** output path rule: explicit target; `<name>.torrent` next to the input; `<name>.torrent`
    inside a target that is a directory *)
Theorem c09_rule_explicit : forall c fs nm o t,
  from_create c fs = inr (nm, Some o) -> c_output c = Some (OPath t) -> o = parse_path t.
Proof. exact rule_explicit. Qed.

(** the name check: whatever from_create lets through (given with --name or taken from the
    input's file name) is exactly one normal path component ... *)
Theorem c09_accepted_name_ok : forall c fs nm o, from_create c fs = inr (nm, o) -> name_ok nm = true.
Proof. exact accepted_name_ok. Qed.

(** ... and a `--name` that is not (empty, `.`, `..`, or containing a separator) makes the
    command fail before anything is hashed or opened, the filesystem exactly as it was - for
    every configuration (any --output, any input, --force or not) and every filesystem *)
Check bad_name_rejected : forall c fs nm, c_name c = Some nm -> name_ok nm = false ->
  fst (create_fx c fs) = fs /\
  exists e, snd (create_fx c fs) = CFail e /\ before_hashing e = true.
Theorem c09_bad_name_rejected : forall c fs nm, c_name c = Some nm -> name_ok nm = false ->
  fst (create_fx c fs) = fs /\
  exists e, snd (create_fx c fs) = CFail e /\ before_hashing e = true.
Proof. exact bad_name_rejected. Qed.
(** the two witnesses of the former finding (`--output d --name /x`, `--name ../x`) are refused *)
Example c09_bad_name_abs_inhabited :
  name_ok nm_abs = false /\
  create_fx (mk (Some (OPath b_d)) (Some nm_abs) false false) ex_fs = (ex_fs, CFail ENameInvalid).
Proof. exact ex_bad_name_abs. Qed.
Example c09_bad_name_up_inhabited :
  name_ok nm_up = false /\
  create_fx (mk None (Some nm_up) false false) ex_fs = (ex_fs, CFail ENameInvalid).
Proof. exact ex_bad_name_up. Qed.
Example c09_bad_name_kinds :
  forallb (fun nm => negb (name_ok nm))
          [ []; [46]; [46; 46]; [97; 47; 98]; nm_abs; nm_up; [120; 47] ] = true /\
  forallb name_ok [ [120]; [46; 46; 46]; [46; 120]; [120; 46]; [92] ] = true.
Proof. exact ex_bad_name_kinds. Qed.

(** success => the name was plain and the target is next to the input *)
Check rule_default : forall c fs nm o itext,
  from_create c fs = inr (nm, Some o) -> c_output c = None -> c_input c = Some itext ->
  name_ok nm = true /\
  env_resolve (c_cwd c) (parse_path itext) <> [] /\
  env_resolve (c_cwd c) o = removelast (env_resolve (c_cwd c) (parse_path itext)) ++ [name_torrent nm].
Theorem c09_rule_default : forall c fs nm o itext,
  from_create c fs = inr (nm, Some o) -> c_output c = None -> c_input c = Some itext ->
  name_ok nm = true /\
  env_resolve (c_cwd c) (parse_path itext) <> [] /\
  env_resolve (c_cwd c) o = removelast (env_resolve (c_cwd c) (parse_path itext)) ++ [name_torrent nm].
Proof. exact rule_default. Qed.

(** success => the name was plain and a target that is a directory receives exactly
    `<name>.torrent` as one more component *)
Check rule_directory : forall c fs nm o,
  from_create c fs = inr (nm, Some o) ->
  name_ok nm = true /\
  out_path c fs = Some (if path_is_dir fs (env_resolve (c_cwd c) o)
                        then env_resolve (c_cwd c) o ++ [name_torrent nm]
                        else env_resolve (c_cwd c) o).
Theorem c09_rule_directory : forall c fs nm o,
  from_create c fs = inr (nm, Some o) ->
  name_ok nm = true /\
  out_path c fs = Some (if path_is_dir fs (env_resolve (c_cwd c) o)
                        then env_resolve (c_cwd c) o ++ [name_torrent nm]
                        else env_resolve (c_cwd c) o).
Proof. exact rule_directory. Qed.
Example c09_rule_directory_inhabited :
  out_path (mk (Some (OPath b_d)) None false false) ex_fs = Some [b_w; b_d; name_torrent b_in]
  /\ snd (create_fx (mk (Some (OPath b_d)) None false false) ex_fs) = CSuccess.
Proof. exact ex_directory_target. Qed.

(** the name is an opaque component of that path: `.torrent` is appended to the whole name,
    whatever dots it holds, so two different names never designate the same file *)
Theorem c09_distinct_names_distinct_files : forall (d : list (list N)) a b,
  d ++ [name_torrent a] = d ++ [name_torrent b] -> a = b.
Proof. exact distinct_names_distinct_files. Qed.
Example c09_dotted_names_inhabited :
  name_ok nm_tar = true /\
  create_fx (mk (Some (OPath b_d)) (Some nm_tar) false false) ex_fs
  = (update ex_fs [b_w; b_d; nm_tar ++ dot_torrent] (NFile [100; 101]), CSuccess) /\
  create_fx (mk (Some (OPath b_d)) (Some nm_zip) false false)
            (update ex_fs [b_w; b_d; nm_tar ++ dot_torrent] (NFile [100; 101]))
  = (update (update ex_fs [b_w; b_d; nm_tar ++ dot_torrent] (NFile [100; 101]))
            [b_w; b_d; nm_zip ++ dot_torrent] (NFile [100; 101]), CSuccess).
Proof. exact ex_dotted_names. Qed.

(** the same, from the outcome alone: every successful run passed the name check and its output
    path is the documented one *)
Check success_at_documented_path : forall c fs,
  snd (create_fx c fs) = CSuccess ->
  exists nm o, from_create c fs = inr (nm, o) /\ name_ok nm = true /\
    match o with
    | None => out_path c fs = None
    | Some t => out_path c fs = Some (if path_is_dir fs (env_resolve (c_cwd c) t)
                                      then env_resolve (c_cwd c) t ++ [name_torrent nm]
                                      else env_resolve (c_cwd c) t)
    end.
Theorem c09_success_at_documented_path : forall c fs,
  snd (create_fx c fs) = CSuccess ->
  exists nm o, from_create c fs = inr (nm, o) /\ name_ok nm = true /\
    match o with
    | None => out_path c fs = None
    | Some t => out_path c fs = Some (if path_is_dir fs (env_resolve (c_cwd c) t)
                                      then env_resolve (c_cwd c) t ++ [name_torrent nm]
                                      else env_resolve (c_cwd c) t)
    end.
Proof. exact success_at_documented_path. Qed.
Example c09_plain_name_success_inhabited :
  create_fx (mk (Some (OPath b_d)) (Some [120]) false false) ex_fs
  = (update ex_fs [b_w; b_d; name_torrent [120]] (NFile [100; 101]), CSuccess).
Proof. exact ex_plain_name_success. Qed.

(** (T) Create::run and CreateContent::from_create of the current tree perform their checks and
    their single write in the order the model follows (the name check in both branches of
    from_create, after the name is determined and before the output target is); the open/write
    lies inside the dry-run guard, the post steps after it; torrent_path is the modelled
    expression; check_name / FilePath::is_normal_component read as the test [name_ok] mirrors;
    there is exactly one filesystem-mutating call site in create.rs + create_content.rs *)
Theorem c09_source_order :
  GenCreateOrder.translated = true /\
  GenCreateOrder.run_order = model_run_order /\
  GenCreateOrder.content_order = model_content_order /\
  GenCreateOrder.stdin_order = model_stdin_order /\
  GenCreateOrder.name_check_is_model = true /\
  GenCreateOrder.write_inside_dry_guard = true /\
  GenCreateOrder.post_steps_after_guard = true /\
  GenCreateOrder.torrent_path_is_model = true /\
  GenCreateOrder.mutating_call_sites = 1.
Proof. repeat split; reflexivity. Qed.

Print Assumptions c09_no_clobber_frame.
Print Assumptions c09_no_clobber_fails.
Print Assumptions c09_no_clobber_inhabited.
Print Assumptions c09_dry_run_frame.
Print Assumptions c09_dry_run_inhabited.
Print Assumptions c09_fail_frame.
Print Assumptions c09_success_exactly_one.
Print Assumptions c09_success_inhabited.
Print Assumptions c09_force_replaces_inhabited.
Print Assumptions c09_exists_consistent.
Print Assumptions c09_only_target_changes.
Print Assumptions c09_input_untouched.
Print Assumptions c09_default_not_under_input.
Print Assumptions c09_readonly.
Print Assumptions c09_rule_explicit.
Print Assumptions c09_rule_default.
Print Assumptions c09_rule_directory.
Print Assumptions c09_rule_directory_inhabited.
Print Assumptions c09_accepted_name_ok.
Print Assumptions c09_bad_name_rejected.
Print Assumptions c09_bad_name_abs_inhabited.
Print Assumptions c09_bad_name_up_inhabited.
Print Assumptions c09_bad_name_kinds.
Print Assumptions c09_distinct_names_distinct_files.
Print Assumptions c09_dotted_names_inhabited.
Print Assumptions c09_success_at_documented_path.
Print Assumptions c09_plain_name_success_inhabited.
Print Assumptions c09_source_order.
