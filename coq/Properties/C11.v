(** C11 — metadata fetched from peers is authentic, and honest peers are understood.
    Only pinned statements, theorems closed by [exact], examples and [Print Assumptions].
    Model: Model/Peer.v over Model/Bencode.v; proofs: Proofs/PeerProofs.v; tables regenerated
    from /repo on every run by tools/rs2v_peer.py: Generated/GenPeer.v.

    [norm] stands for serde's typed round trip of the Info dictionary (from_bytes::<Info> then
    to_bytes) and [H] for SHA-1: external code, universally quantified, no hypotheses except
    where a theorem lists them ([norm d = Some d]: the served dictionary is typed-normal). *)
From Coq Require Import String NArith ZArith List Bool.
From Imdl Require Import Model.Bencode Proofs.BencodeProofs Model.Peer Proofs.PeerProofs Generated.GenPeer.
Import ListNotations.
Local Open Scope N_scope.

(** (T) the translator understood the current sources, including the shape of every decision
    in Connection::recv, recv_handshake and peer/client.rs that the model mirrors *)
Theorem c11_sources_translated : GenPeer.translated = true.
Proof. reflexivity. Qed.

(** (T) the constants and schemas of the Rust code are those of the model; in particular the
    reader looks at the 4-byte length first and skips zero lengths (keep-alives) *)
Theorem c11_model_matches_source :
  GenPeer.hs_header = HS_HEADER /\ GenPeer.hs_length = N.of_nat HS_LENGTH /\
  GenPeer.hs_ext_bit = EXT_BIT /\ GenPeer.hs_ext_index = N.of_nat EXT_INDEX /\
  GenPeer.hs_layout = [("HEADER"%string, 0, 20); ("reserved"%string, 20, 28);
                       ("infohash"%string, 28, 48); ("peer_id"%string, 48, 68)] /\
  GenPeer.flavour_extended = EXTENDED /\
  GenPeer.ext_id_handshake = ID_HANDSHAKE /\ GenPeer.ext_id_ut_metadata = ID_UT_METADATA /\
  GenPeer.own_ut_metadata_id = ID_UT_METADATA /\
  GenPeer.ut_name = k_ut_metadata /\ GenPeer.ut_piece_length = PIECE /\
  GenPeer.ut_fields = [k_msg_type; k_piece; k_total_size] /\
  GenPeer.msg_type_request = MT_REQUEST /\ GenPeer.msg_type_data = MT_DATA /\
  GenPeer.ext_hs_keys = [k_m; k_metadata_size; k_p; k_v; k_yourip; k_ipv6; k_ipv4; k_reqq] /\
  GenPeer.recv_first_read = 4 /\ GenPeer.recv_skips_keepalive = 1.
Proof. repeat split; reflexivity. Qed.

(** BitTorrent's piece size for metadata and the flavour table say what BEP 9/10 say *)
Theorem c11_bep_constants :
  GenPeer.ut_piece_length = 16 * 1024 /\ GenPeer.flavour_extended = 20 /\
  forallb (fun '(c, _) => c <? 256) GenPeer.flavour_codes = true /\
  GenPeer.hs_imdl_reserved = [0; 0; 0; 0; 0; 16; 0; 0].
Proof. repeat split; reflexivity. Qed.

(** AUTHENTICITY. Whatever bytes the peer sends — any stream at all, of any length — if the
    fetch ends with an info dictionary then that dictionary hashes to the magnet's infohash
    (and is what the typed round trip made of the assembled buffer). *)
Check authentic : forall norm H target s i o,
  fetch norm H target s = (Got i, o) -> H i = target /\ exists b, norm b = Some i.
Theorem c11_authentic : forall norm H target s i o,
  fetch norm H target s = (Got i, o) -> H i = target /\ exists b, norm b = Some i.
Proof. exact authentic. Qed.

(** … and this does not depend on how extended payloads are read: it holds for every
    classifier, hence for every bencode library behaviour *)
Check session_got : forall cl acc target s i o,
  session cl acc target s = (Got i, o) -> exists b, acc b = Some i.
Theorem c11_authentic_any_reader : forall cl norm H target s i o,
  session cl (accept norm H target) target s = (Got i, o) -> H i = target.
Proof.
  intros cl norm H target s i o Hs. apply session_got in Hs. destruct Hs as [b Hb].
  apply accept_some in Hb. exact (proj2 Hb).
Qed.

(** what FromLink::run writes has exactly that dictionary as its info span, so the written
    torrent's infohash (C04) is the magnet's *)
Check written_info_span : forall trackers i,
  wfb (Dict i) = true -> info_of_file (written_file trackers (Dict i)) = Some (encode (Dict i)).
Theorem c11_written_info_span : forall trackers i,
  wfb (Dict i) = true -> info_of_file (written_file trackers (Dict i)) = Some (encode (Dict i)).
Proof. exact written_info_span. Qed.

(** every session ends in exactly one of: an authentic dictionary, or giving up; never a panic
    (the slice payload[piece_offset..] is always in range, [reencode_le]) and never undecided *)
Check never_crashes : forall norm H target s, fst (fetch norm H target s) <> Crashed.
Theorem c11_no_crash_no_limbo : forall norm H target s,
  fst (fetch norm H target s) <> Crashed /\ forall st', fst (fetch norm H target s) <> Pending st'.
Proof. intros; split; [apply never_crashes|intros; apply session_never_pending]. Qed.

Check reencode_le : forall v mt pc ts,
  view_utm v = Some (mt, pc, ts) -> (length (encode (utm_value mt pc ts)) <= length (encode v))%nat.
Theorem c11_reencode_le : forall v mt pc ts,
  view_utm v = Some (mt, pc, ts) -> (length (encode (utm_value mt pc ts)) <= length (encode v))%nat.
Proof. exact reencode_le. Qed.

(** FRAMING. The reader recovers exactly the frames sent — messages and keep-alives alike —
    whatever follows them; and it is total *)
Check framing : forall items tail, Forall ok_item items ->
  exists l, parse_all tail = Some l /\ parse_all (concat (map frame items) ++ tail) = Some (items ++ l).
Theorem c11_framing : forall items tail, Forall ok_item items ->
  exists l, parse_all tail = Some l /\ parse_all (concat (map frame items) ++ tail) = Some (items ++ l).
Proof. exact framing. Qed.

Theorem c11_reader_total : forall s, exists l, parse_all s = Some l.
Proof. exact parse_all_total. Qed.

Theorem c11_unbe_be : forall w n, n < 256 ^ N.of_nat w -> unbe (be w n) = n.
Proof. exact unbe_be. Qed.

(** COMPLETENESS. A peer that follows BEP 3/9/10 — any non-empty typed-normal dictionary [d] of
    any size (exact multiples of 16 KiB included), any extension handshake dictionary [hsv]
    that announces metadata_size = |d| and some id for ut_metadata (any id, any further keys),
    any reserved bytes with the extension bit, any peer id, any ignorable traffic (keep-alives,
    non-extended messages, unknown extended ids) before the handshake and before every piece,
    any bytes after the last piece — is understood: the fetch ends with exactly [d], having
    requested pieces 0 … n-1 under the peer's id. The stream is a single byte list, so the
    result is independent of TCP segmentation. *)
Check complete : forall norm H d id ign hsv ign0 target reserved peer_id tail,
  d <> [] -> N.of_nat (length d) < 2 ^ 63 ->
  norm d = Some d -> H d = target ->
  (forall i, Forall ignorable (ign i)) -> Forall ignorable ign0 ->
  wfb hsv = true -> view_hs hsv = Some (Some (N.of_nat (length d)), Some id) ->
  length target = 20%nat -> length reserved = 8%nat -> length peer_id = 20%nat ->
  (0 <? N.land (nth EXT_INDEX reserved 0) EXT_BIT) = true ->
  Forall ok_item (honest_items d ign hsv ign0) ->
  fetch norm H target (honest_stream d ign hsv ign0 target reserved peer_id tail)
  = (Got d, honest_requests id d).
Theorem c11_complete : forall norm H d id ign hsv ign0 target reserved peer_id tail,
  d <> [] -> N.of_nat (length d) < 2 ^ 63 ->
  norm d = Some d -> H d = target ->
  (forall i, Forall ignorable (ign i)) -> Forall ignorable ign0 ->
  wfb hsv = true -> view_hs hsv = Some (Some (N.of_nat (length d)), Some id) ->
  length target = 20%nat -> length reserved = 8%nat -> length peer_id = 20%nat ->
  (0 <? N.land (nth EXT_INDEX reserved 0) EXT_BIT) = true ->
  Forall ok_item (honest_items d ign hsv ign0) ->
  fetch norm H target (honest_stream d ign hsv ign0 target reserved peer_id tail)
  = (Got d, honest_requests id d).
Proof. exact complete. Qed.

(** the extracted entry point [assemble] and [accept] together are [fetch] *)
Theorem c11_fetch_factor : forall norm H target s,
  fetch norm H target s = finish (accept norm H target) (assemble target s).
Proof. exact fetch_factor. Qed.

(** OPEN FINDING (class typed-roundtrip-changes-value): the hypothesis [norm d = Some d] of
    completeness cannot be dropped. An honest peer serving a dictionary made of modelled keys
    that the typed round trip changes (e.g. `update-url` = http://example.com, re-serialised
    as http://example.com/) is never answered with the dictionary it served. *)
Check not_typed_normal_refuted : forall norm H d d' id ign hsv ign0 target reserved peer_id tail,
  d <> [] -> N.of_nat (length d) < 2 ^ 63 ->
  norm d = Some d' -> d' <> d ->
  (forall i, Forall ignorable (ign i)) -> Forall ignorable ign0 ->
  wfb hsv = true -> view_hs hsv = Some (Some (N.of_nat (length d)), Some id) ->
  length target = 20%nat -> length reserved = 8%nat -> length peer_id = 20%nat ->
  (0 <? N.land (nth EXT_INDEX reserved 0) EXT_BIT) = true ->
  Forall ok_item (honest_items d ign hsv ign0) ->
  fst (fetch norm H target (honest_stream d ign hsv ign0 target reserved peer_id tail)) <> Got d.
Theorem c11_known_not_typed_normal : forall norm H d d' id ign hsv ign0 target reserved peer_id tail,
  d <> [] -> N.of_nat (length d) < 2 ^ 63 ->
  norm d = Some d' -> d' <> d ->
  (forall i, Forall ignorable (ign i)) -> Forall ignorable ign0 ->
  wfb hsv = true -> view_hs hsv = Some (Some (N.of_nat (length d)), Some id) ->
  length target = 20%nat -> length reserved = 8%nat -> length peer_id = 20%nat ->
  (0 <? N.land (nth EXT_INDEX reserved 0) EXT_BIT) = true ->
  Forall ok_item (honest_items d ign hsv ign0) ->
  fst (fetch norm H target (honest_stream d ign hsv ign0 target reserved peer_id tail)) <> Got d.
Proof. exact not_typed_normal_refuted. Qed.

(** ---- the hypotheses are satisfiable, and the model computes: concrete sessions ---- *)
Definition ex_target : bytes := repeat 7 20.
Definition ex_reserved : bytes := [0; 0; 0; 0; 0; 16; 0; 0].
Definition ex_peer_id : bytes := repeat 80 20.
Definition ex_hsv (n : N) : value :=
  Dict [(k_m, Dict [([76; 84; 95; 100; 111; 110; 116; 104; 97; 118; 101], Int 7); (k_ut_metadata, Int 3)]);
        (k_metadata_size, Int (Z.of_N n)); (k_v, Str [194; 181; 84])].
Definition ex_ign (i : nat) : list item := [KeepAlive; Msg 5 [255]; Msg EXTENDED [9; 1; 2]].
Definition ex_ign0 : list item := [KeepAlive; Msg 1 []].
Definition ex_small : bytes := [100; 52; 58; 110; 97; 109; 101; 49; 58; 120; 101].
Definition ex_two_pieces : bytes := repeat 120 (N.to_nat 16384) ++ [101].      (* 16 KiB + 1 *)
Definition ex_exact : bytes := repeat 120 (N.to_nat 32768).                    (* exactly two pieces *)

Example c11_complete_satisfiable :
  (forall i, Forall ignorable (ex_ign i)) /\ Forall ignorable ex_ign0 /\
  length ex_target = 20%nat /\ length ex_reserved = 8%nat /\ length ex_peer_id = 20%nat /\
  (0 <? N.land (nth EXT_INDEX ex_reserved 0) EXT_BIT) = true /\
  ex_small <> [] /\ wfb (ex_hsv 11) = true /\
  view_hs (ex_hsv 11) = Some (Some (N.of_nat (length ex_small)), Some 3) /\
  Forall ok_item (honest_items ex_small ex_ign (ex_hsv 11) ex_ign0) /\
  fetch (fun b => Some b) (fun _ => ex_target) ex_target
        (honest_stream ex_small ex_ign (ex_hsv 11) ex_ign0 ex_target ex_reserved ex_peer_id [1; 2; 3])
  = (Got ex_small, [(3, 0)]).
Proof.
  split. { intros i. unfold ex_ign. constructor; [exact I|]. constructor; [left; discriminate|].
           constructor; [right; vm_compute; reflexivity|]. constructor. }
  split. { unfold ex_ign0. constructor; [exact I|]. constructor; [left; discriminate|]. constructor. }
  do 4 (split; [reflexivity|]).
  split; [discriminate|]. split; [vm_compute; reflexivity|]. split; [vm_compute; reflexivity|].
  split; [|vm_compute; reflexivity].
  let x := eval vm_compute in (honest_items ex_small ex_ign (ex_hsv 11) ex_ign0) in change (Forall ok_item x).
  repeat (constructor; [exact I || reflexivity|]). constructor.
Qed.

(** sizes one past a piece boundary and exactly on it, computed by the model itself *)
Definition ex_run (d : bytes) : bool * list req :=
  match fetch (fun b => Some b) (fun _ => ex_target) ex_target
              (honest_stream d ex_ign (ex_hsv (N.of_nat (length d))) ex_ign0 ex_target ex_reserved ex_peer_id [9])
  with (Got i, o) => (bytes_eqb i d, o) | (_, o) => (false, o) end.

Example c11_boundaries_computed :
  ex_run ex_two_pieces = (true, [(3, 0); (3, 1)]) /\ ex_run ex_exact = (true, [(3, 0); (3, 1)]).
Proof. split; vm_compute; reflexivity. Qed.

(** a peer whose data hashes wrong, and one whose typed round trip differs, get nothing *)
Example c11_wrong_hash_rejected :
  fst (fetch (fun b => Some b) (fun _ => repeat 8 20) ex_target
        (honest_stream ex_small ex_ign (ex_hsv 11) ex_ign0 ex_target ex_reserved ex_peer_id [])) = GaveUp.
Proof. vm_compute. reflexivity. Qed.

Example c11_known_class_inhabited :
  exists norm d d', norm d = Some d' /\ d' <> d /\
  fst (fetch norm (fun _ => ex_target) ex_target
        (honest_stream d ex_ign (ex_hsv 11) ex_ign0 ex_target ex_reserved ex_peer_id [])) = Got d'.
Proof.
  exists (fun b => Some (b ++ [47])), ex_small, (ex_small ++ [47]).
  split; [reflexivity|]. split; [discriminate|]. vm_compute. reflexivity.
Qed.

(** ================= X16: serde's typed round trip of the Info dictionary made concrete =================
    [norm] := [InfoRoundTrip.info_norm ext] (Model/InfoRoundTrip.v: the typed loader restricted to the info dictionary,
    then serde + bendy's writer for `Info`), where [ext] is the url crate OUTSIDE the fragment modelled by
    Model/UrlNorm.v and is universally quantified; "typed-normal" is the syntactic, boolean predicate [typed_normal]. *)
From Imdl Require Import Model.BencodeWide Model.InfoRoundTrip Proofs.InfoRoundTripWide Proofs.InfoRoundTripProofs
  Proofs.InfoRoundTripCreate Proofs.InfoRoundTripPeer.
From Imdl Require Model.Metainfo Model.UrlNorm.

(** (a) load-then-encode is the identity on normal forms, for ALL byte strings *)
Check normal_fixed : forall ext d, typed_normal d = true -> info_norm ext d = Some d.
Theorem c11_typed_normal_fixed : forall ext d, typed_normal d = true -> info_norm ext d = Some d.
Proof. exact normal_fixed. Qed.

(** (b) whatever is written is normal (in everything but, possibly, an update-url outside the url fragment) and, inside
    the fragment, typed-normal and stable *)
Check norm_normal_upto_url : forall ext d e, info_norm ext d = Some e -> typed_normal_upto_url e = true.
Check norm_normal : forall ext d e, info_norm ext d = Some e -> info_url_modelled d = true ->
  typed_normal e = true /\ info_norm ext e = Some e.
Theorem c11_reserialisation_normal : forall ext d e, info_norm ext d = Some e ->
  typed_normal_upto_url e = true /\
  (info_url_modelled d = true -> typed_normal e = true /\ info_norm ext e = Some e).
Proof. intros ext d e H. split; [exact (norm_normal_upto_url ext d e H)|exact (norm_normal ext d e H)]. Qed.

Check typed_normal_iff : forall ext d, info_url_modelled d = true -> (typed_normal d = true <-> info_norm ext d = Some d).
Theorem c11_typed_normal_iff : forall ext d, info_url_modelled d = true -> (typed_normal d = true <-> info_norm ext d = Some d).
Proof. exact typed_normal_iff. Qed.

(** (c) what is written is canonical bencode: the encoding of a value with strictly increasing keys, nested at most 4
    deep, that bendy's serde reader reads back exactly; the STRICT reader (i64 integers: bendy's Value, imdl's own
    Infohash::from_input) reads it back when `piece length` < 2^63 ... *)
Check norm_canonical : forall ext d e, info_norm ext d = Some e ->
  exists v, e = encode v /\ sortedb v = true /\ depth v <= 4 /\ wdecode (fuel_for e) e = Some (v, []).
Theorem c11_reserialisation_canonical : forall ext d e, info_norm ext d = Some e ->
  exists v, e = encode v /\ sortedb v = true /\ depth v <= 4 /\ wdecode (fuel_for e) e = Some (v, []).
Proof. exact norm_canonical. Qed.

Check norm_strict : forall ext d t, info_typed ext d = Some t -> t_piece_length t < 2 ^ 63 ->
  let e := encode (info_value t) in
  info_norm ext d = Some e /\ wfb (info_value t) = true /\ decode (bfuel e) e = Some (info_value t, []).
Theorem c11_reserialisation_strict : forall ext d t, info_typed ext d = Some t -> t_piece_length t < 2 ^ 63 ->
  let e := encode (info_value t) in
  info_norm ext d = Some e /\ wfb (info_value t) = true /\ decode (bfuel e) e = Some (info_value t, []).
Proof. exact norm_strict. Qed.

(** ... and only then (FINDING, small): `piece length` is a u64 that is read and written back unchanged, so a dictionary
    with `piece length` = 2^63 is typed-normal, accepted, returned and written by from-link, and refused by every strict
    reader, imdl's own `torrent show` included *)
Check norm_strict_refuted : exists d, forall ext,
  typed_normal d = true /\ info_norm ext d = Some d /\ forall fuel, decode fuel d = None.
Theorem c11_reserialisation_strict_refuted : exists d, forall ext,
  typed_normal d = true /\ info_norm ext d = Some d /\ forall fuel, decode fuel d = None.
Proof. exact norm_strict_refuted. Qed.

(** the writer is bendy's struct serializer (Model/Schema.v, the model the create side uses) on Info's fields in
    declaration order; the keys are those of the translator-generated serde schema *)
Check info_serde_value : forall t, info_serde t = Some (info_value t).
Theorem c11_writer_is_struct_serializer : forall t, info_serde t = Some (info_value t).
Proof. exact info_serde_value. Qed.

Theorem c11_info_keys_match_schema :
  map (fun e => fst (fst e)) GenSchema.info_fields
    = [Summary.k_private; Summary.k_piece_length; Summary.k_name; Summary.k_source; Summary.k_pieces; Summary.k_update_url] /\
  map (fun e => fst (fst e)) GenSchema.mode_single_fields = [Summary.k_length; Summary.k_md5sum] /\
  map (fun e => fst (fst e)) GenSchema.mode_multiple_fields = [Summary.k_files] /\
  map (fun e => fst (fst e)) GenSchema.file_info_fields = [Summary.k_length; Summary.k_path; Summary.k_md5sum] /\
  GenSchema.info_flatten = ["mode"%string] /\ GenSchema.mode_untagged = true /\
  GenSchema.mode_variants = ["Single"%string; "Multiple"%string] /\
  map (fun e => snd e) GenSchema.info_fields = [true; false; false; true; false; true] /\
  map (fun e => snd e) GenSchema.mode_single_fields = [false; true] /\
  map (fun e => snd e) GenSchema.file_info_fields = [false; false; true].
Proof. repeat split; reflexivity. Qed.

(** COMPLETENESS, concretely: [c11_complete] with [norm := info_norm ext] and the hypothesis [norm d = Some d] replaced
    by the syntactic [typed_normal d = true] (which also makes [d <> []] redundant) *)
Check complete_concrete : forall ext H d id ign hsv ign0 target reserved peer_id tail,
  typed_normal d = true -> N.of_nat (length d) < 2 ^ 63 -> H d = target ->
  (forall i, Forall ignorable (ign i)) -> Forall ignorable ign0 ->
  wfb hsv = true -> view_hs hsv = Some (Some (N.of_nat (length d)), Some id) ->
  length target = 20%nat -> length reserved = 8%nat -> length peer_id = 20%nat ->
  (0 <? N.land (nth EXT_INDEX reserved 0) EXT_BIT) = true ->
  Forall ok_item (honest_items d ign hsv ign0) ->
  fetch (info_norm ext) H target (honest_stream d ign hsv ign0 target reserved peer_id tail)
  = (Got d, honest_requests id d).
Theorem c11_complete_concrete : forall ext H d id ign hsv ign0 target reserved peer_id tail,
  typed_normal d = true -> N.of_nat (length d) < 2 ^ 63 -> H d = target ->
  (forall i, Forall ignorable (ign i)) -> Forall ignorable ign0 ->
  wfb hsv = true -> view_hs hsv = Some (Some (N.of_nat (length d)), Some id) ->
  length target = 20%nat -> length reserved = 8%nat -> length peer_id = 20%nat ->
  (0 <? N.land (nth EXT_INDEX reserved 0) EXT_BIT) = true ->
  Forall ok_item (honest_items d ign hsv ign0) ->
  fetch (info_norm ext) H target (honest_stream d ign hsv ign0 target reserved peer_id tail)
  = (Got d, honest_requests id d).
Proof. exact complete_concrete. Qed.

(** AUTHENTICITY, concretely: for every byte stream, a dictionary that is returned hashes to the magnet's infohash, is
    the typed re-serialisation of what was assembled, is canonical bencode and is normal up to the update-url text *)
Check authentic_concrete : forall ext H target s i o,
  fetch (info_norm ext) H target s = (Got i, o) ->
  H i = target /\ (exists b, info_norm ext b = Some i) /\ typed_normal_upto_url i = true /\
  exists v, i = encode v /\ sortedb v = true /\ depth v <= 4 /\ wdecode (fuel_for i) i = Some (v, []).
Theorem c11_authentic_concrete : forall ext H target s i o,
  fetch (info_norm ext) H target s = (Got i, o) ->
  H i = target /\ (exists b, info_norm ext b = Some i) /\ typed_normal_upto_url i = true /\
  exists v, i = encode v /\ sortedb v = true /\ depth v <= 4 /\ wdecode (fuel_for i) i = Some (v, []).
Proof. exact authentic_concrete. Qed.

Check authentic_concrete_stable : forall ext H target s i o,
  fetch (info_norm ext) H target s = (Got i, o) ->
  exists b, info_norm ext b = Some i /\ (info_url_modelled b = true -> typed_normal i = true /\ info_norm ext i = Some i).
Theorem c11_authentic_concrete_stable : forall ext H target s i o,
  fetch (info_norm ext) H target s = (Got i, o) ->
  exists b, info_norm ext b = Some i /\ (info_url_modelled b = true -> typed_normal i = true /\ info_norm ext i = Some i).
Proof. exact authentic_concrete_stable. Qed.

(** (d) what `imdl torrent create` writes for its info dictionary (Model/Metainfo.v [build_info], any url normaliser
    [norm]) is typed-normal under that model's well-formedness [create_ok] ... *)
Check created_info_normal : forall norm o c iv name,
  Metainfo.build_info norm o c = Some iv -> Metainfo.name_of o (Metainfo.c_input c) = Some name ->
  create_ok norm o c name = true ->
  typed_normal (encode iv) = true /\ forall ext, info_norm ext (encode iv) = Some (encode iv).
Theorem c11_created_info_typed_normal : forall norm o c iv name,
  Metainfo.build_info norm o c = Some iv -> Metainfo.name_of o (Metainfo.c_input c) = Some name ->
  create_ok norm o c name = true ->
  typed_normal (encode iv) = true /\ forall ext, info_norm ext (encode iv) = Some (encode iv).
Proof. exact created_info_normal. Qed.

(** ... so a torrent imdl created can be fetched back byte-identically from any honest peer *)
Check created_torrents_fetch_back : forall ext norm o c iv name H id ign hsv ign0 target reserved peer_id tail,
  Metainfo.build_info norm o c = Some iv -> Metainfo.name_of o (Metainfo.c_input c) = Some name ->
  create_ok norm o c name = true ->
  let d := encode iv in
  N.of_nat (length d) < 2 ^ 63 -> H d = target ->
  (forall i, Forall ignorable (ign i)) -> Forall ignorable ign0 ->
  wfb hsv = true -> view_hs hsv = Some (Some (N.of_nat (length d)), Some id) ->
  length target = 20%nat -> length reserved = 8%nat -> length peer_id = 20%nat ->
  (0 <? N.land (nth EXT_INDEX reserved 0) EXT_BIT) = true ->
  Forall ok_item (honest_items d ign hsv ign0) ->
  fetch (info_norm ext) H target (honest_stream d ign hsv ign0 target reserved peer_id tail)
  = (Got d, honest_requests id d).
Theorem c11_created_torrents_fetch_back : forall ext norm o c iv name H id ign hsv ign0 target reserved peer_id tail,
  Metainfo.build_info norm o c = Some iv -> Metainfo.name_of o (Metainfo.c_input c) = Some name ->
  create_ok norm o c name = true ->
  let d := encode iv in
  N.of_nat (length d) < 2 ^ 63 -> H d = target ->
  (forall i, Forall ignorable (ign i)) -> Forall ignorable ign0 ->
  wfb hsv = true -> view_hs hsv = Some (Some (N.of_nat (length d)), Some id) ->
  length target = 20%nat -> length reserved = 8%nat -> length peer_id = 20%nat ->
  (0 <? N.land (nth EXT_INDEX reserved 0) EXT_BIT) = true ->
  Forall ok_item (honest_items d ign hsv ign0) ->
  fetch (info_norm ext) H target (honest_stream d ign hsv ign0 target reserved peer_id tail)
  = (Got d, honest_requests id d).
Proof. exact created_torrents_fetch_back. Qed.

(** ... and [create_ok] follows from the creation model's own well-formedness ([EndToEnd.torrent_ok], which C02's
    [created_torrent_ok] proves of every creation result): the info dictionary of a created torrent, as Model/EndToEnd.v
    assembles it from the creation result, is typed-normal *)
From Imdl Require Model.EndToEnd Proofs.InfoRoundTripE2E.
Check InfoRoundTripE2E.created_torrent_info_typed_normal : forall norm o md5 t iv,
  EndToEnd.torrent_ok md5 t = true ->
  match Metainfo.o_source o with Some s => Summary.utf8_valid s | None => true end = true ->
  match Metainfo.o_update_url o with Some u => UrlNorm.is_normal_url (norm u) | None => true end = true ->
  Metainfo.build_info norm (EndToEnd.opts_of o md5 t) (EndToEnd.content_of t) = Some iv ->
  typed_normal (encode iv) = true /\ forall ext, info_norm ext (encode iv) = Some (encode iv).
Theorem c11_created_torrent_info_typed_normal : forall norm o md5 t iv,
  EndToEnd.torrent_ok md5 t = true ->
  match Metainfo.o_source o with Some s => Summary.utf8_valid s | None => true end = true ->
  match Metainfo.o_update_url o with Some u => UrlNorm.is_normal_url (norm u) | None => true end = true ->
  Metainfo.build_info norm (EndToEnd.opts_of o md5 t) (EndToEnd.content_of t) = Some iv ->
  typed_normal (encode iv) = true /\ forall ext, info_norm ext (encode iv) = Some (encode iv).
Proof. exact InfoRoundTripE2E.created_torrent_info_typed_normal. Qed.

(** the stored update-url is normal whatever spelling inside the url fragment `--update-url` was given *)
Check norm_with_normal : forall ext u s, UrlNorm.u_norm u = Some (Some s) -> UrlNorm.is_normal_url (UrlNorm.u_norm_with ext u) = true.
Theorem c11_created_update_url_normal : forall ext u s,
  UrlNorm.u_norm u = Some (Some s) -> UrlNorm.is_normal_url (UrlNorm.u_norm_with ext u) = true.
Proof. exact norm_with_normal. Qed.

(** (e) OPEN FINDING made precise (class typed-roundtrip-changes-value): [c11_known_class d] = canonical dictionary made
    only of the keys imdl models that is NOT typed-normal. Such a dictionary is never returned as served ... *)
Check known_class_never_understood : forall ext H d id ign hsv ign0 target reserved peer_id tail,
  c11_known_class d = true -> info_url_modelled d = true ->
  d <> [] -> N.of_nat (length d) < 2 ^ 63 ->
  (forall i, Forall ignorable (ign i)) -> Forall ignorable ign0 ->
  wfb hsv = true -> view_hs hsv = Some (Some (N.of_nat (length d)), Some id) ->
  length target = 20%nat -> length reserved = 8%nat -> length peer_id = 20%nat ->
  (0 <? N.land (nth EXT_INDEX reserved 0) EXT_BIT) = true ->
  Forall ok_item (honest_items d ign hsv ign0) ->
  fst (fetch (info_norm ext) H target (honest_stream d ign hsv ign0 target reserved peer_id tail)) <> Got d.
Theorem c11_known_class_never_understood : forall ext H d id ign hsv ign0 target reserved peer_id tail,
  c11_known_class d = true -> info_url_modelled d = true ->
  d <> [] -> N.of_nat (length d) < 2 ^ 63 ->
  (forall i, Forall ignorable (ign i)) -> Forall ignorable ign0 ->
  wfb hsv = true -> view_hs hsv = Some (Some (N.of_nat (length d)), Some id) ->
  length target = 20%nat -> length reserved = 8%nat -> length peer_id = 20%nat ->
  (0 <? N.land (nth EXT_INDEX reserved 0) EXT_BIT) = true ->
  Forall ok_item (honest_items d ign hsv ign0) ->
  fst (fetch (info_norm ext) H target (honest_stream d ign hsv ign0 target reserved peer_id tail)) <> Got d.
Proof. exact known_class_never_understood. Qed.

(** ... and the recorded witness (`update-url` = http://example.com, re-serialised as http://example.com/) is in it *)
Check known_witness : forall ext,
  c11_known_class ex_known_witness = true /\ info_url_modelled ex_known_witness = true /\
  info_norm ext ex_known_witness = Some ex_known_witness_norm /\ ex_known_witness_norm <> ex_known_witness /\
  typed_normal ex_known_witness_norm = true.
Theorem c11_known_class_witness : forall ext,
  c11_known_class ex_known_witness = true /\ info_url_modelled ex_known_witness = true /\
  info_norm ext ex_known_witness = Some ex_known_witness_norm /\ ex_known_witness_norm <> ex_known_witness /\
  typed_normal ex_known_witness_norm = true.
Proof. exact known_witness. Qed.

(** ---- the hypotheses of the concrete theorems are satisfiable, and the concrete model computes ---- *)
(** d5:filesld6:lengthi3e6:md5sum32:0123456789abcdef0123456789abcdef4:pathl1:a1:beee4:name1:n12:piece lengthi16384e
    6:pieces20:<20 bytes>7:privatei1e6:source1:S10:update-url27:udp://tracker.example:6969/e *)
Definition ex_normal_info : bytes :=
  [100; 53; 58; 102; 105; 108; 101; 115; 108; 100; 54; 58; 108; 101; 110; 103; 116; 104; 105; 51; 101; 54; 58; 109; 100; 53; 115;
   117; 109; 51; 50; 58; 48; 49; 50; 51; 52; 53; 54; 55; 56; 57; 97; 98; 99; 100; 101; 102; 48; 49; 50; 51; 52; 53; 54; 55; 56; 57;
   97; 98; 99; 100; 101; 102; 52; 58; 112; 97; 116; 104; 108; 49; 58; 97; 49; 58; 98; 101; 101; 101; 52; 58; 110; 97; 109; 101; 49;
   58; 110; 49; 50; 58; 112; 105; 101; 99; 101; 32; 108; 101; 110; 103; 116; 104; 105; 49; 54; 51; 56; 52; 101; 54; 58; 112; 105;
   101; 99; 101; 115; 50; 48; 58] ++ repeat 200 20 ++
  [55; 58; 112; 114; 105; 118; 97; 116; 101; 105; 49; 101; 54; 58; 115; 111; 117; 114; 99; 101; 49; 58; 83; 49; 48; 58; 117; 112;
   100; 97; 116; 101; 45; 117; 114; 108; 50; 55; 58; 117; 100; 112; 58; 47; 47; 116; 114; 97; 99; 107; 101; 114; 46; 101; 120; 97;
   109; 112; 108; 101; 58; 54; 57; 54; 57; 47; 101].
Definition ex_hsv_n : value := ex_hsv (N.of_nat (length ex_normal_info)).

Example c11_complete_concrete_satisfiable :
  typed_normal ex_normal_info = true /\ N.of_nat (length ex_normal_info) < 2 ^ 63 /\
  wfb ex_hsv_n = true /\ view_hs ex_hsv_n = Some (Some (N.of_nat (length ex_normal_info)), Some 3) /\
  Forall ok_item (honest_items ex_normal_info ex_ign ex_hsv_n ex_ign0) /\
  fetch (info_norm (fun _ => None)) (fun _ => ex_target) ex_target
        (honest_stream ex_normal_info ex_ign ex_hsv_n ex_ign0 ex_target ex_reserved ex_peer_id [1; 2; 3])
  = (Got ex_normal_info, [(3, 0)]).
Proof.
  split; [vm_compute; reflexivity|]. split; [vm_compute; reflexivity|]. split; [vm_compute; reflexivity|].
  split; [vm_compute; reflexivity|]. split; [|vm_compute; reflexivity].
  let x := eval vm_compute in (honest_items ex_normal_info ex_ign ex_hsv_n ex_ign0) in change (Forall ok_item x).
  repeat (constructor; [exact I || reflexivity|]). constructor.
Qed.

(** the create side: a command line and what walker + hasher hand over *)
Definition ex_create_opts : Metainfo.opts :=
  {| Metainfo.o_announce := None; Metainfo.o_tiers := []; Metainfo.o_comment := None; Metainfo.o_source := Some [83];
     Metainfo.o_nodes := []; Metainfo.o_private := true;
     Metainfo.o_update_url := Some [85; 68; 80; 58; 47; 47; 116; 114; 97; 99; 107; 101; 114; 46; 101; 120; 97; 109; 112; 108; 101; 58; 54; 57; 54; 57; 47];
     Metainfo.o_name := Some [110]; Metainfo.o_piece_length := Some 16384; Metainfo.o_md5 := true;
     Metainfo.o_no_created_by := true; Metainfo.o_no_creation_date := true; Metainfo.o_allow_small := false;
     Metainfo.o_allow_uneven := false; Metainfo.o_allow_private_trackerless := true; Metainfo.o_now := 0 |}.
Definition ex_create_content : Metainfo.content :=
  {| Metainfo.c_input := Metainfo.InDir [100]
       [ {| Metainfo.f_path := [[97]; [98]]; Metainfo.f_length := 3;
            Metainfo.f_md5 := [48; 49; 50; 51; 52; 53; 54; 55; 56; 57; 97; 98; 99; 100; 101; 102;
                               48; 49; 50; 51; 52; 53; 54; 55; 56; 57; 97; 98; 99; 100; 101; 102] |} ];
     Metainfo.c_pieces := repeat 200 20 |}.

(** `--update-url UDP://tracker.example:6969/` (a spelling that is not normal) is stored normalised, and what create
    writes is, byte for byte, the typed-normal dictionary above *)
Example c11_created_satisfiable :
  let norm := UrlNorm.u_norm_with (fun t => t) in
  create_ok norm ex_create_opts ex_create_content [110] = true /\
  Metainfo.name_of ex_create_opts (Metainfo.c_input ex_create_content) = Some [110] /\
  option_map encode (Metainfo.build_info norm ex_create_opts ex_create_content) = Some ex_normal_info.
Proof. cbv zeta. split; [vm_compute; reflexivity|]. split; vm_compute; reflexivity. Qed.

Print Assumptions c11_sources_translated.
Print Assumptions c11_model_matches_source.
Print Assumptions c11_bep_constants.
Print Assumptions c11_authentic.
Print Assumptions c11_authentic_any_reader.
Print Assumptions c11_written_info_span.
Print Assumptions c11_no_crash_no_limbo.
Print Assumptions c11_reencode_le.
Print Assumptions c11_framing.
Print Assumptions c11_reader_total.
Print Assumptions c11_unbe_be.
Print Assumptions c11_complete.
Print Assumptions c11_fetch_factor.
Print Assumptions c11_known_not_typed_normal.
Print Assumptions c11_complete_satisfiable.
Print Assumptions c11_boundaries_computed.
Print Assumptions c11_wrong_hash_rejected.
Print Assumptions c11_known_class_inhabited.
Print Assumptions c11_typed_normal_fixed.
Print Assumptions c11_reserialisation_normal.
Print Assumptions c11_typed_normal_iff.
Print Assumptions c11_reserialisation_canonical.
Print Assumptions c11_reserialisation_strict.
Print Assumptions c11_reserialisation_strict_refuted.
Print Assumptions c11_writer_is_struct_serializer.
Print Assumptions c11_info_keys_match_schema.
Print Assumptions c11_complete_concrete.
Print Assumptions c11_authentic_concrete.
Print Assumptions c11_authentic_concrete_stable.
Print Assumptions c11_created_info_typed_normal.
Print Assumptions c11_created_torrents_fetch_back.
Print Assumptions c11_created_torrent_info_typed_normal.
Print Assumptions c11_created_update_url_normal.
Print Assumptions c11_known_class_never_understood.
Print Assumptions c11_known_class_witness.
Print Assumptions c11_complete_concrete_satisfiable.
Print Assumptions c11_created_satisfiable.
