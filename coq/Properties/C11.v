(** C11 — metadata fetched from peers is authentic, and honest peers are understood.
    Only pinned statements, theorems closed by [exact], examples and [Print Assumptions].
    Model: Model/Peer.v over Model/Bencode.v; proofs: Proofs/PeerProofs.v; tables regenerated
    from /repo on every run by tools/rs2v_peer.py: Generated/GenPeer.v.

    [norm] stands for serde's typed round trip of the Info dictionary (from_bytes::<Info> then
    to_bytes) and [H] for SHA-1: external code, universally quantified, no hypotheses except
    where a theorem lists them ([norm d = Some d]: the served dictionary is typed-normal). *)
From Coq Require Import String NArith ZArith List Bool.
From Imdl Require Import Model.Bencode Proofs.BencodeProofs Model.Peer Proofs.PeerProofs Generated.GenPeer.
Import ListNotations.
Local Open Scope N_scope.

(** (T) the translator understood the current sources, including the shape of every decision
    in Connection::recv, recv_handshake and peer/client.rs that the model mirrors *)
Theorem c11_sources_translated : GenPeer.translated = true.
Proof. reflexivity. Qed.

(** (T) the constants and schemas of the Rust code are those of the model; in particular the
    reader looks at the 4-byte length first and skips zero lengths (keep-alives) *)
Theorem c11_model_matches_source :
  GenPeer.hs_header = HS_HEADER /\ GenPeer.hs_length = N.of_nat HS_LENGTH /\
  GenPeer.hs_ext_bit = EXT_BIT /\ GenPeer.hs_ext_index = N.of_nat EXT_INDEX /\
  GenPeer.hs_layout = [("HEADER"%string, 0, 20); ("reserved"%string, 20, 28);
                       ("infohash"%string, 28, 48); ("peer_id"%string, 48, 68)] /\
  GenPeer.flavour_extended = EXTENDED /\
  GenPeer.ext_id_handshake = ID_HANDSHAKE /\ GenPeer.ext_id_ut_metadata = ID_UT_METADATA /\
  GenPeer.own_ut_metadata_id = ID_UT_METADATA /\
  GenPeer.ut_name = k_ut_metadata /\ GenPeer.ut_piece_length = PIECE /\
  GenPeer.ut_fields = [k_msg_type; k_piece; k_total_size] /\
  GenPeer.msg_type_request = MT_REQUEST /\ GenPeer.msg_type_data = MT_DATA /\
  GenPeer.ext_hs_keys = [k_m; k_metadata_size; k_p; k_v; k_yourip; k_ipv6; k_ipv4; k_reqq] /\
  GenPeer.recv_first_read = 4 /\ GenPeer.recv_skips_keepalive = 1.
Proof. repeat split; reflexivity. Qed.

(** BitTorrent's piece size for metadata and the flavour table say what BEP 9/10 say *)
Theorem c11_bep_constants :
  GenPeer.ut_piece_length = 16 * 1024 /\ GenPeer.flavour_extended = 20 /\
  forallb (fun '(c, _) => c <? 256) GenPeer.flavour_codes = true /\
  GenPeer.hs_imdl_reserved = [0; 0; 0; 0; 0; 16; 0; 0].
Proof. repeat split; reflexivity. Qed.

(** AUTHENTICITY. Whatever bytes the peer sends — any stream at all, of any length — if the
    fetch ends with an info dictionary then that dictionary hashes to the magnet's infohash
    (and is what the typed round trip made of the assembled buffer). *)
Check authentic : forall norm H target s i o,
  fetch norm H target s = (Got i, o) -> H i = target /\ exists b, norm b = Some i.
Theorem c11_authentic : forall norm H target s i o,
  fetch norm H target s = (Got i, o) -> H i = target /\ exists b, norm b = Some i.
Proof. exact authentic. Qed.

(** … and this does not depend on how extended payloads are read: it holds for every
    classifier, hence for every bencode library behaviour *)
Check session_got : forall cl acc target s i o,
  session cl acc target s = (Got i, o) -> exists b, acc b = Some i.
Theorem c11_authentic_any_reader : forall cl norm H target s i o,
  session cl (accept norm H target) target s = (Got i, o) -> H i = target.
Proof.
  intros cl norm H target s i o Hs. apply session_got in Hs. destruct Hs as [b Hb].
  apply accept_some in Hb. exact (proj2 Hb).
Qed.

(** what FromLink::run writes has exactly that dictionary as its info span, so the written
    torrent's infohash (C04) is the magnet's *)
Check written_info_span : forall trackers i,
  wfb (Dict i) = true -> info_of_file (written_file trackers (Dict i)) = Some (encode (Dict i)).
Theorem c11_written_info_span : forall trackers i,
  wfb (Dict i) = true -> info_of_file (written_file trackers (Dict i)) = Some (encode (Dict i)).
Proof. exact written_info_span. Qed.

(** every session ends in exactly one of: an authentic dictionary, or giving up; never a panic
    (the slice payload[piece_offset..] is always in range, [reencode_le]) and never undecided *)
Check never_crashes : forall norm H target s, fst (fetch norm H target s) <> Crashed.
Theorem c11_no_crash_no_limbo : forall norm H target s,
  fst (fetch norm H target s) <> Crashed /\ forall st', fst (fetch norm H target s) <> Pending st'.
Proof. intros; split; [apply never_crashes|intros; apply session_never_pending]. Qed.

Check reencode_le : forall v mt pc ts,
  view_utm v = Some (mt, pc, ts) -> (length (encode (utm_value mt pc ts)) <= length (encode v))%nat.
Theorem c11_reencode_le : forall v mt pc ts,
  view_utm v = Some (mt, pc, ts) -> (length (encode (utm_value mt pc ts)) <= length (encode v))%nat.
Proof. exact reencode_le. Qed.

(** FRAMING. The reader recovers exactly the frames sent — messages and keep-alives alike —
    whatever follows them; and it is total *)
Check framing : forall items tail, Forall ok_item items ->
  exists l, parse_all tail = Some l /\ parse_all (concat (map frame items) ++ tail) = Some (items ++ l).
Theorem c11_framing : forall items tail, Forall ok_item items ->
  exists l, parse_all tail = Some l /\ parse_all (concat (map frame items) ++ tail) = Some (items ++ l).
Proof. exact framing. Qed.

Theorem c11_reader_total : forall s, exists l, parse_all s = Some l.
Proof. exact parse_all_total. Qed.

Theorem c11_unbe_be : forall w n, n < 256 ^ N.of_nat w -> unbe (be w n) = n.
Proof. exact unbe_be. Qed.

(** COMPLETENESS. A peer that follows BEP 3/9/10 — any non-empty typed-normal dictionary [d] of
    any size (exact multiples of 16 KiB included), any extension handshake dictionary [hsv]
    that announces metadata_size = |d| and some id for ut_metadata (any id, any further keys),
    any reserved bytes with the extension bit, any peer id, any ignorable traffic (keep-alives,
    non-extended messages, unknown extended ids) before the handshake and before every piece,
    any bytes after the last piece — is understood: the fetch ends with exactly [d], having
    requested pieces 0 … n-1 under the peer's id. The stream is a single byte list, so the
    result is independent of TCP segmentation. *)
Check complete : forall norm H d id ign hsv ign0 target reserved peer_id tail,
  d <> [] -> N.of_nat (length d) < 2 ^ 63 ->
  norm d = Some d -> H d = target ->
  (forall i, Forall ignorable (ign i)) -> Forall ignorable ign0 ->
  wfb hsv = true -> view_hs hsv = Some (Some (N.of_nat (length d)), Some id) ->
  length target = 20%nat -> length reserved = 8%nat -> length peer_id = 20%nat ->
  (0 <? N.land (nth EXT_INDEX reserved 0) EXT_BIT) = true ->
  Forall ok_item (honest_items d ign hsv ign0) ->
  fetch norm H target (honest_stream d ign hsv ign0 target reserved peer_id tail)
  = (Got d, honest_requests id d).
Theorem c11_complete : forall norm H d id ign hsv ign0 target reserved peer_id tail,
  d <> [] -> N.of_nat (length d) < 2 ^ 63 ->
  norm d = Some d -> H d = target ->
  (forall i, Forall ignorable (ign i)) -> Forall ignorable ign0 ->
  wfb hsv = true -> view_hs hsv = Some (Some (N.of_nat (length d)), Some id) ->
  length target = 20%nat -> length reserved = 8%nat -> length peer_id = 20%nat ->
  (0 <? N.land (nth EXT_INDEX reserved 0) EXT_BIT) = true ->
  Forall ok_item (honest_items d ign hsv ign0) ->
  fetch norm H target (honest_stream d ign hsv ign0 target reserved peer_id tail)
  = (Got d, honest_requests id d).
Proof. exact complete. Qed.

(** the extracted entry point [assemble] and [accept] together are [fetch] *)
Theorem c11_fetch_factor : forall norm H target s,
  fetch norm H target s = finish (accept norm H target) (assemble target s).
Proof. exact fetch_factor. Qed.

(** OPEN FINDING (class typed-roundtrip-changes-value): the hypothesis [norm d = Some d] of
    completeness cannot be dropped. An honest peer serving a dictionary made of modelled keys
    that the typed round trip changes (e.g. `update-url` = http://example.com, re-serialised
    as http://example.com/) is never answered with the dictionary it served. *)
Check not_typed_normal_refuted : forall norm H d d' id ign hsv ign0 target reserved peer_id tail,
  d <> [] -> N.of_nat (length d) < 2 ^ 63 ->
  norm d = Some d' -> d' <> d ->
  (forall i, Forall ignorable (ign i)) -> Forall ignorable ign0 ->
  wfb hsv = true -> view_hs hsv = Some (Some (N.of_nat (length d)), Some id) ->
  length target = 20%nat -> length reserved = 8%nat -> length peer_id = 20%nat ->
  (0 <? N.land (nth EXT_INDEX reserved 0) EXT_BIT) = true ->
  Forall ok_item (honest_items d ign hsv ign0) ->
  fst (fetch norm H target (honest_stream d ign hsv ign0 target reserved peer_id tail)) <> Got d.
Theorem c11_known_not_typed_normal : forall norm H d d' id ign hsv ign0 target reserved peer_id tail,
  d <> [] -> N.of_nat (length d) < 2 ^ 63 ->
  norm d = Some d' -> d' <> d ->
  (forall i, Forall ignorable (ign i)) -> Forall ignorable ign0 ->
  wfb hsv = true -> view_hs hsv = Some (Some (N.of_nat (length d)), Some id) ->
  length target = 20%nat -> length reserved = 8%nat -> length peer_id = 20%nat ->
  (0 <? N.land (nth EXT_INDEX reserved 0) EXT_BIT) = true ->
  Forall ok_item (honest_items d ign hsv ign0) ->
  fst (fetch norm H target (honest_stream d ign hsv ign0 target reserved peer_id tail)) <> Got d.
Proof. exact not_typed_normal_refuted. Qed.

(** ---- the hypotheses are satisfiable, and the model computes: concrete sessions ---- *)
Definition ex_target : bytes := repeat 7 20.
Definition ex_reserved : bytes := [0; 0; 0; 0; 0; 16; 0; 0].
Definition ex_peer_id : bytes := repeat 80 20.
Definition ex_hsv (n : N) : value :=
  Dict [(k_m, Dict [([76; 84; 95; 100; 111; 110; 116; 104; 97; 118; 101], Int 7); (k_ut_metadata, Int 3)]);
        (k_metadata_size, Int (Z.of_N n)); (k_v, Str [194; 181; 84])].
Definition ex_ign (i : nat) : list item := [KeepAlive; Msg 5 [255]; Msg EXTENDED [9; 1; 2]].
Definition ex_ign0 : list item := [KeepAlive; Msg 1 []].
Definition ex_small : bytes := [100; 52; 58; 110; 97; 109; 101; 49; 58; 120; 101].
Definition ex_two_pieces : bytes := repeat 120 (N.to_nat 16384) ++ [101].      (* 16 KiB + 1 *)
Definition ex_exact : bytes := repeat 120 (N.to_nat 32768).                    (* exactly two pieces *)

Example c11_complete_satisfiable :
  (forall i, Forall ignorable (ex_ign i)) /\ Forall ignorable ex_ign0 /\
  length ex_target = 20%nat /\ length ex_reserved = 8%nat /\ length ex_peer_id = 20%nat /\
  (0 <? N.land (nth EXT_INDEX ex_reserved 0) EXT_BIT) = true /\
  ex_small <> [] /\ wfb (ex_hsv 11) = true /\
  view_hs (ex_hsv 11) = Some (Some (N.of_nat (length ex_small)), Some 3) /\
  Forall ok_item (honest_items ex_small ex_ign (ex_hsv 11) ex_ign0) /\
  fetch (fun b => Some b) (fun _ => ex_target) ex_target
        (honest_stream ex_small ex_ign (ex_hsv 11) ex_ign0 ex_target ex_reserved ex_peer_id [1; 2; 3])
  = (Got ex_small, [(3, 0)]).
Proof.
  split. { intros i. unfold ex_ign. constructor; [exact I|]. constructor; [left; discriminate|].
           constructor; [right; vm_compute; reflexivity|]. constructor. }
  split. { unfold ex_ign0. constructor; [exact I|]. constructor; [left; discriminate|]. constructor. }
  do 4 (split; [reflexivity|]).
  split; [discriminate|]. split; [vm_compute; reflexivity|]. split; [vm_compute; reflexivity|].
  split; [|vm_compute; reflexivity].
  let x := eval vm_compute in (honest_items ex_small ex_ign (ex_hsv 11) ex_ign0) in change (Forall ok_item x).
  repeat (constructor; [exact I || reflexivity|]). constructor.
Qed.

(** sizes one past a piece boundary and exactly on it, computed by the model itself *)
Definition ex_run (d : bytes) : bool * list req :=
  match fetch (fun b => Some b) (fun _ => ex_target) ex_target
              (honest_stream d ex_ign (ex_hsv (N.of_nat (length d))) ex_ign0 ex_target ex_reserved ex_peer_id [9])
  with (Got i, o) => (bytes_eqb i d, o) | (_, o) => (false, o) end.

Example c11_boundaries_computed :
  ex_run ex_two_pieces = (true, [(3, 0); (3, 1)]) /\ ex_run ex_exact = (true, [(3, 0); (3, 1)]).
Proof. split; vm_compute; reflexivity. Qed.

(** a peer whose data hashes wrong, and one whose typed round trip differs, get nothing *)
Example c11_wrong_hash_rejected :
  fst (fetch (fun b => Some b) (fun _ => repeat 8 20) ex_target
        (honest_stream ex_small ex_ign (ex_hsv 11) ex_ign0 ex_target ex_reserved ex_peer_id [])) = GaveUp.
Proof. vm_compute. reflexivity. Qed.

Example c11_known_class_inhabited :
  exists norm d d', norm d = Some d' /\ d' <> d /\
  fst (fetch norm (fun _ => ex_target) ex_target
        (honest_stream d ex_ign (ex_hsv 11) ex_ign0 ex_target ex_reserved ex_peer_id [])) = Got d'.
Proof.
  exists (fun b => Some (b ++ [47])), ex_small, (ex_small ++ [47]).
  split; [reflexivity|]. split; [discriminate|]. vm_compute. reflexivity.
Qed.

Print Assumptions c11_sources_translated.
Print Assumptions c11_model_matches_source.
Print Assumptions c11_bep_constants.
Print Assumptions c11_authentic.
Print Assumptions c11_authentic_any_reader.
Print Assumptions c11_written_info_span.
Print Assumptions c11_no_crash_no_limbo.
Print Assumptions c11_reencode_le.
Print Assumptions c11_framing.
Print Assumptions c11_reader_total.
Print Assumptions c11_unbe_be.
Print Assumptions c11_complete.
Print Assumptions c11_fetch_factor.
Print Assumptions c11_known_not_typed_normal.
Print Assumptions c11_complete_satisfiable.
Print Assumptions c11_boundaries_computed.
Print Assumptions c11_wrong_hash_rejected.
Print Assumptions c11_known_class_inhabited.
